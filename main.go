package main

import (
	"fmt"
	"os"

	"github.com/robertkrimen/otto"
)

func main() {
	for _, src := range os.Args[1:] {
		func() {
			defer func() {
				if r := recover(); r != nil {
					fmt.Printf("%s => PANIC %v\n", src, r)
				}
			}()
			vm := otto.New()
			vm.Set("log", func(c otto.FunctionCall) otto.Value { fmt.Printf("[log %v]", c.Argument(0)); return otto.UndefinedValue() })
			v, err := vm.Run(src)
			fmt.Printf("%s => %v | err=%v\n", src, v, err)
		}()
	}
}
