//go:build verif

package otto

// Read-only dump of the heap graph of a runtime for the C17 (Copy) check under /verif.
// Compiled only with -tags verif; nothing here changes interpreter state.

import (
	"fmt"
	"reflect"
	"sort"
)

// VerifHeapIDs numbers heap locations (objects and the three kinds of stash) in first-seen order.
// Share one table between the dumps of several runtimes to compare identities across them.
type VerifHeapIDs struct {
	ids map[interface{}]int64
}

// NewVerifHeapIDs returns an empty identity table.
func NewVerifHeapIDs() *VerifHeapIDs {
	return &VerifHeapIDs{ids: map[interface{}]int64{}}
}

func (t *VerifHeapIDs) id(p interface{}) (int64, bool) {
	if v, ok := t.ids[p]; ok {
		return v, false
	}
	v := int64(len(t.ids) + 1)
	t.ids[p] = v
	return v, true
}

// VerifVal is a Value: a reference to an object (Ref != 0) or a primitive rendered as text.
type VerifVal struct {
	Ref  int64
	Prim string
}

// VerifProp is an own property in propertyOrder.
type VerifProp struct {
	Name     string
	Accessor bool
	Get, Set int64 // 0 = absent
	Val      VerifVal
	Mode     int
}

// VerifVar is a binding of a declarative or function stash.
type VerifVar struct {
	Name  string
	Val   VerifVal
	Flags int // mutable 4, deletable 2, readable 1
}

// VerifCell is one heap location.
type VerifCell struct {
	ID   int64
	Kind string // "object", "dcl", "fn", "objstash"

	Class      string
	Extensible bool
	Proto      int64
	Props      []VerifProp
	Payload    string // "", native, bound, function, arguments, date, regexp, string, primitive, error, other
	Code       string
	Target     int64
	This       VerifVal
	Args       []VerifVal
	Stash      int64
	Names      []string

	Outer     int64
	Vars      []VerifVar
	Arguments int64
	Index     [][2]string
	Object    int64
}

// VerifHeap is everything reachable from the runtime record.
type VerifHeap struct {
	Global int64
	Fields []int64
	Eval   int64
	Cells  []VerifCell
}

type verifDumper struct {
	t     *VerifHeapIDs
	cells []VerifCell
	todo  []interface{}
}

func (d *verifDumper) obj(o *object) int64 {
	if o == nil {
		return 0
	}
	id, fresh := d.t.id(o)
	if fresh {
		d.todo = append(d.todo, o)
	}
	return id
}

func (d *verifDumper) stash(s stasher) int64 {
	if s == nil {
		return 0
	}
	var key interface{}
	switch st := s.(type) {
	case *dclStash:
		if st == nil {
			return 0
		}
		key = st
	case *fnStash:
		if st == nil {
			return 0
		}
		key = st
	case *objectStash:
		if st == nil {
			return 0
		}
		key = st
	default:
		return 0
	}
	id, fresh := d.t.id(key)
	if fresh {
		d.todo = append(d.todo, key)
	}
	return id
}

func (d *verifDumper) val(v Value) VerifVal {
	if o, ok := v.value.(*object); ok && v.kind == valueObject {
		return VerifVal{Ref: d.obj(o)}
	}
	return VerifVal{Prim: fmt.Sprintf("%d:%T:%v", v.kind, v.value, v.value)}
}

func (d *verifDumper) vars(m map[string]dclProperty) []VerifVar {
	names := make([]string, 0, len(m))
	for n := range m {
		names = append(names, n)
	}
	sort.Strings(names)
	out := make([]VerifVar, 0, len(names))
	for _, n := range names {
		p := m[n]
		f := 0
		if p.mutable {
			f |= 4
		}
		if p.deletable {
			f |= 2
		}
		if p.readable {
			f |= 1
		}
		out = append(out, VerifVar{Name: n, Val: d.val(p.value), Flags: f})
	}
	return out
}

func (d *verifDumper) cell(id int64, p interface{}) VerifCell {
	c := VerifCell{ID: id}
	switch x := p.(type) {
	case *object:
		c.Kind = "object"
		c.Class = x.class
		c.Extensible = x.extensible
		c.Proto = d.obj(x.prototype)
		for _, name := range x.propertyOrder {
			pr, ok := x.property[name]
			if !ok {
				continue
			}
			vp := VerifProp{Name: name, Mode: int(pr.mode)}
			switch pv := pr.value.(type) {
			case Value:
				vp.Val = d.val(pv)
			case propertyGetSet:
				vp.Accessor = true
				if pv[0] != nil && pv[0] != &nilGetSetObject {
					vp.Get = d.obj(pv[0])
				}
				if pv[1] != nil && pv[1] != &nilGetSetObject {
					vp.Set = d.obj(pv[1])
				}
			}
			c.Props = append(c.Props, vp)
		}
		switch v := x.value.(type) {
		case nil:
		case nativeFunctionObject:
			c.Payload = "native"
			c.Code = fmt.Sprintf("%s@%s:%d#%x", v.name, v.file, v.line, reflect.ValueOf(v.call).Pointer())
		case bindFunctionObject:
			c.Payload = "bound"
			c.Target = d.obj(v.target)
			c.This = d.val(v.this)
			for _, a := range v.argumentList {
				c.Args = append(c.Args, d.val(a))
			}
		case nodeFunctionObject:
			c.Payload = "function"
			c.Code = fmt.Sprintf("%p", v.node)
			c.Stash = d.stash(v.stash)
		case argumentsObject:
			c.Payload = "arguments"
			c.Stash = d.stash(v.stash)
			c.Names = append([]string{}, v.indexOfParameterName...)
		case dateObject:
			c.Payload = "date"
			c.Code = fmt.Sprintf("%d/%v", v.epoch, v.isNaN)
		case regExpObject:
			c.Payload = "regexp"
			c.Code = fmt.Sprintf("%s/%v%v%v", v.source, v.global, v.ignoreCase, v.multiline)
		case stringObjecter:
			c.Payload = "string"
			c.Code = v.String()
		case Value:
			c.Payload = "primitive"
			c.Code = d.val(v).Prim
		case ottoError:
			c.Payload = "error"
			c.Code = v.name + ": " + v.message
		default:
			c.Payload = "other"
			c.Code = fmt.Sprintf("%T", v)
		}
	case *dclStash:
		c.Kind = "dcl"
		c.Vars = d.vars(x.property)
		c.Outer = d.stash(x.outr)
	case *fnStash:
		c.Kind = "fn"
		c.Vars = d.vars(x.property)
		c.Outer = d.stash(x.outr)
		c.Arguments = d.obj(x.arguments)
		names := make([]string, 0, len(x.indexOfArgumentName))
		for n := range x.indexOfArgumentName {
			names = append(names, n)
		}
		sort.Strings(names)
		for _, n := range names {
			c.Index = append(c.Index, [2]string{n, x.indexOfArgumentName[n]})
		}
	case *objectStash:
		c.Kind = "objstash"
		c.Outer = d.stash(x.outr)
		c.Object = d.obj(x.object)
	}
	return c
}

// VerifDumpHeap walks everything reachable from the runtime record (global object, the fields of
// rt.global in declaration order, rt.eval) and returns it with identities taken from t.
func (o Otto) VerifDumpHeap(t *VerifHeapIDs) VerifHeap {
	rt := o.runtime
	d := &verifDumper{t: t}
	h := VerifHeap{Global: d.obj(rt.globalObject)}
	g := reflect.ValueOf(rt.global)
	for i := 0; i < g.NumField(); i++ {
		f := g.Field(i)
		if f.Kind() == reflect.Ptr && f.Type() == reflect.TypeOf((*object)(nil)) {
			h.Fields = append(h.Fields, d.obj((*object)(f.UnsafePointer())))
		}
	}
	h.Eval = d.obj(rt.eval)
	for len(d.todo) > 0 {
		p := d.todo[0]
		d.todo = d.todo[1:]
		id, _ := t.id(p)
		h.Cells = append(h.Cells, d.cell(id, p))
	}
	return h
}
