(* Proofs about the model of TransformRegExp (ModelTransform.v):
   - the scanner terminates within fuel (length of the pattern + 1);
   - on every well-formed tree r, scanning print_js r writes print_re2 r and
     raises exactly the first error of r (none for the portable subset, one
     for every tree that contains a look-ahead or a back-reference);
   - `invalid` implies an error and an empty result. *)
From Coq Require Import ZArith List Bool Lia.
From Otto Require Import C10.SpecSyntax C10.ModelTransform.
Import ListNotations.
Open Scope Z_scope.

Section P.
Variable idc : Z -> bool.
Notation scan_escape := (scan_escape idc).
Notation bracket_loop := (bracket_loop idc).
Notation loop := (loop idc).
Notation transform := (transform idc).

(* ---------- fuel monotonicity ---------- *)
Lemma bracket_mono : forall f s s', bracket_loop f s = Some s' ->
  forall f', (f <= f')%nat -> bracket_loop f' s = Some s'.
Proof.
  induction f; intros s s' H f' Hle; [discriminate|].
  destruct f'; [lia|]. simpl in *.
  destruct (inp s); auto.
  destruct (z =? 93); auto.
  destruct (z =? 92); apply IHf; auto; lia.
Qed.

Lemma loop_mono : forall f top s s', loop top f s = Some s' ->
  forall f', (f <= f')%nat -> loop top f' s = Some s'.
Proof.
  induction f; intros top s s' H f' Hle; [discriminate|].
  destruct f'; [lia|]. simpl in *.
  destruct (inp s); auto.
  destruct (z =? 92). { apply IHf; auto; lia. }
  destruct (z =? 40).
  { destruct (loop false f _) eqn:E; [|discriminate].
    rewrite (IHf _ _ _ E f') by lia. apply IHf; auto; lia. }
  destruct (z =? 91).
  { destruct (bracket_loop f _) eqn:E; [|discriminate].
    rewrite (bracket_mono _ _ _ E f') by lia. apply IHf; auto; lia. }
  destruct (z =? 41).
  { destruct top; auto. apply IHf; auto; lia. }
  apply IHf; auto; lia.
Qed.

(* ---------- the input only shrinks ---------- *)
Definition ilen (s : st) : nat := length (inp s).

Lemma ilen_pass : forall s, (ilen (pass s) <= ilen s)%nat.
Proof. intros [i o e v]; unfold pass, ilen; simpl. destruct i; simpl; lia. Qed.
Lemma ilen_read : forall s, (ilen (read s) <= ilen s)%nat.
Proof. intros [i o e v]; unfold read, ilen; simpl. destruct i; simpl; lia. Qed.
Lemma ilen_put : forall l s, ilen (put l s) = ilen s. Proof. reflexivity. Qed.
Lemma ilen_add_err : forall e s, ilen (add_err e s) = ilen s. Proof. reflexivity. Qed.
Lemma ilen_set_inv : forall s, ilen (set_inv s) = ilen s. Proof. reflexivity. Qed.
Lemma ilen_setinp : forall l s, ilen (setinp l s) = length l. Proof. reflexivity. Qed.
Lemma ilen_la : forall s, ilen (la_check s) = ilen s.
Proof.
  intros [i o e v]; unfold la_check, ilen; simpl.
  destruct i as [|a [|b i]]; auto.
  destruct ((a =? 63) && ((b =? 61) || (b =? 33))); reflexivity.
Qed.

Lemma oct_loop_len : forall l v n r v' n', oct_loop l v n = (r, v', n') -> (length r <= length l)%nat.
Proof.
  induction l; simpl; intros v n r v' n' H. { inversion H; subst; simpl; lia. }
  destruct (digit_value a <? 8).
  - apply IHl in H. lia.
  - inversion H; subst; simpl; lia.
Qed.
Lemma dec_loop_len : forall l acc c r, dec_loop l acc = (c, r) -> (length r <= length l)%nat.
Proof.
  induction l; simpl; intros acc c r H. { inversion H; subst; simpl; lia. }
  destruct (digit_value a <? 10).
  - apply IHl in H. lia.
  - inversion H; subst; simpl; lia.
Qed.
Lemma hex_loop_len : forall n l acc ok c r, hex_loop n l acc = (ok, c, r) -> (length r <= length l)%nat.
Proof.
  induction n; simpl; intros l acc ok c r H. { inversion H; subst; lia. }
  destruct l. { inversion H; subst; simpl; lia. }
  destruct (digit_value z <? 16).
  - apply IHn in H. simpl; lia.
  - inversion H; subst; simpl; lia.
Qed.

Lemma ilen_scan_hex : forall letter n s, (ilen (scan_hex letter n s) <= ilen s)%nat.
Proof.
  intros. unfold scan_hex. destruct (hex_loop n (inp s) []) as [[ok c] r] eqn:E.
  apply hex_loop_len in E. destruct ok; [destruct (n =? 4)%nat|]; rewrite ilen_put, ilen_setinp; exact E.
Qed.

Lemma ilen_scan_escape : forall b s, (ilen (scan_escape b s) <= ilen s)%nat.
Proof.
  intros b s. unfold ModelTransform.scan_escape.
  destruct ((48 <=? chr s) && (chr s <=? 55)).
  { destruct (oct_loop (inp s) 0 0) as [[r v] n] eqn:E. apply oct_loop_len in E.
    destruct (n =? 1)%nat; [destruct (v =? 0)|]; try rewrite ilen_add_err; rewrite ilen_put, ilen_setinp; exact E. }
  destruct ((chr s =? 56) || (chr s =? 57)).
  { destruct (dec_loop (inp s) []) as [c r] eqn:E. apply dec_loop_len in E.
    rewrite ilen_add_err, ilen_put, ilen_setinp; exact E. }
  destruct (chr s =? 120). { etransitivity; [apply ilen_scan_hex | apply ilen_read]. }
  destruct (chr s =? 117). { etransitivity; [apply ilen_scan_hex | apply ilen_read]. }
  destruct ((chr s =? 98) && b). { etransitivity; [apply ilen_read | rewrite ilen_put; lia]. }
  match goal with |- context [if ?c then pass (put [92] s) else _] => destruct c end.
  { etransitivity; [apply ilen_pass | rewrite ilen_put; lia]. }
  destruct (chr s =? 99).
  { pose proof (ilen_read s).
    destruct ((97 <=? chr (read s)) && (chr (read s) <=? 122)).
    { etransitivity; [apply ilen_read | rewrite ilen_put; lia]. }
    destruct ((65 <=? chr (read s)) && (chr (read s) <=? 90)).
    { etransitivity; [apply ilen_read | rewrite ilen_put; lia]. }
    rewrite ilen_put; lia. }
  destruct ((chr s =? 36) || negb (is_id_part idc (chr s))).
  - etransitivity; [apply ilen_pass | rewrite ilen_put; lia].
  - apply ilen_pass.
Qed.

Lemma ilen_pass_cons : forall s c r, inp s = c :: r -> ilen (pass s) = length r.
Proof. intros [i o e v] c r H; simpl in H; subst; reflexivity. Qed.
Lemma ilen_read_cons : forall s c r, inp s = c :: r -> ilen (read s) = length r.
Proof. intros [i o e v] c r H; simpl in H; subst; reflexivity. Qed.

Lemma bracket_total : forall f s, (ilen s < f)%nat ->
  exists s', bracket_loop f s = Some s' /\ (ilen s' <= ilen s)%nat.
Proof.
  induction f; intros s H; [lia|]. simpl.
  destruct (inp s) as [|c r] eqn:E.
  { eexists; split; [reflexivity|]. rewrite ilen_set_inv, ilen_add_err; lia. }
  assert (Hl : ilen s = S (length r)) by (unfold ilen; rewrite E; reflexivity).
  destruct (c =? 93).
  { eexists; split; [reflexivity|]. apply ilen_pass. }
  destruct (c =? 92).
  - pose proof (ilen_scan_escape true (read s)) as H1. rewrite (ilen_read_cons _ _ _ E) in H1.
    destruct (IHf (scan_escape true (read s))) as (s' & A & B); [lia|].
    exists s'; split; auto; lia.
  - pose proof (ilen_pass_cons _ _ _ E) as H1.
    destruct (IHf (pass s)) as (s' & A & B); [lia|]. exists s'; split; auto; lia.
Qed.

Lemma loop_total : forall f top s, (ilen s < f)%nat ->
  exists s', loop top f s = Some s' /\ (ilen s' <= ilen s)%nat.
Proof.
  induction f; intros top s H; [lia|]. simpl.
  destruct (inp s) as [|c r] eqn:E.
  { destruct top; eexists; (split; [reflexivity|]); try rewrite ilen_set_inv, ilen_add_err; lia. }
  assert (Hl : ilen s = S (length r)) by (unfold ilen; rewrite E; reflexivity).
  pose proof (ilen_pass_cons _ _ _ E) as Hp.
  destruct (c =? 92).
  { pose proof (ilen_scan_escape false (read s)) as H1. rewrite (ilen_read_cons _ _ _ E) in H1.
    destruct (IHf top (scan_escape false (read s))) as (s' & A & B); [lia|].
    exists s'; split; auto; lia. }
  destruct (c =? 40).
  { destruct (IHf false (la_check (pass s))) as (s1 & A & B); [rewrite ilen_la; lia|].
    rewrite ilen_la in B. rewrite A.
    destruct (IHf top s1) as (s' & A' & B'); [lia|]. exists s'; split; auto; lia. }
  destruct (c =? 91).
  { destruct (bracket_total f (pass s)) as (s1 & A & B); [lia|]. rewrite A.
    destruct (IHf top s1) as (s' & A' & B'); [lia|]. exists s'; split; auto; lia. }
  destruct (c =? 41).
  { destruct top.
    - destruct (IHf true (pass (set_inv (add_err 3 s)))) as (s' & A & B).
      { rewrite (ilen_pass_cons _ c r) by exact E. lia. }
      rewrite (ilen_pass_cons _ c r) in B by exact E. exists s'; split; auto; lia.
    - eexists; split; [reflexivity|]. lia. }
  destruct (IHf top (pass s)) as (s' & A & B); [lia|]. exists s'; split; auto; lia.
Qed.

(* the scanner terminates: fuel length+1 always suffices *)
Theorem transform_total : forall p, transform p <> None.
Proof.
  intros p. unfold ModelTransform.transform. destruct p; [discriminate|].
  destruct (loop_total (S (length (z :: p))) true (init (z :: p))) as (s' & A & _).
  { unfold ilen, init; simpl; lia. }
  rewrite A. discriminate.
Qed.


(* ================= soundness on trees ================= *)

(* first error in scanning order: 1 for a look-ahead (raised when its "(" is
   entered), 2 for a back-reference *)
Fixpoint first_err (r : re) : option Z :=
  match r with
  | RLook _ _ => Some 1
  | RBackref _ => Some 2
  | RGroup r | RNcGroup r => first_err r
  | RSeq a b | RAlt a b => match first_err a with None => first_err b | x => x end
  | RQuant a _ _ => first_err a
  | _ => None
  end.
Definition merge (e1 e2 : option Z) : option Z := match e1 with None => e2 | x => x end.

Lemma merge_none : forall e, merge e None = e. Proof. destruct e; reflexivity. Qed.
Lemma merge_assoc : forall a b c, merge (merge a b) c = merge a (merge b c).
Proof. destruct a; reflexivity. Qed.

Lemma supported_first_err : forall r, supported r = true <-> first_err r = None.
Proof.
  induction r; simpl; try tauto; try (split; discriminate).
  - rewrite Bool.andb_true_iff, IHr1, IHr2. destruct (first_err r1); intuition discriminate.
  - rewrite Bool.andb_true_iff, IHr1, IHr2. destruct (first_err r1); intuition discriminate.
Qed.

(* "scanning from [before] ends like scanning from [after]" *)
Definition reaches (top : bool) (before after : st) : Prop :=
  forall f X, loop top f after = Some X -> exists f', loop top f' before = Some X.
Definition breaches (before after : st) : Prop :=
  forall f X, bracket_loop f after = Some X -> exists f', bracket_loop f' before = Some X.

Lemma reaches_refl : forall top s, reaches top s s.
Proof. intros top s f X H; eauto. Qed.
Lemma reaches_trans : forall top a b c, reaches top a b -> reaches top b c -> reaches top a c.
Proof. intros top a b c H1 H2 f X H. apply H2 in H as (f1 & H). apply H1 in H. exact H. Qed.
Lemma reaches_step : forall top a b, (forall f, loop top (S f) a = loop top f b) -> reaches top a b.
Proof. intros top a b H f X HX. exists (S f). rewrite H. exact HX. Qed.
Lemma breaches_trans : forall a b c, breaches a b -> breaches b c -> breaches a c.
Proof. intros a b c H1 H2 f X H. apply H2 in H as (f1 & H). apply H1 in H. exact H. Qed.
Lemma breaches_step : forall a b, (forall f, bracket_loop (S f) a = bracket_loop f b) -> breaches a b.
Proof. intros a b H f X HX. exists (S f). rewrite H. exact HX. Qed.

Definition plainb (c : Z) : bool := negb ((c =? 92) || (c =? 40) || (c =? 91) || (c =? 41)).
Definition bplainb (c : Z) : bool := negb ((c =? 93) || (c =? 92)).

Lemma loop_plain : forall top c x o e iv, plainb c = true ->
  reaches top (mk (c :: x) o e iv) (mk x (o ++ [c]) e iv).
Proof.
  intros top c x o e iv H. apply reaches_step; intro f. unfold plainb in H.
  apply Bool.negb_true_iff in H. repeat (apply Bool.orb_false_iff in H; destruct H as [H ?]).
  simpl. rewrite H, H0, H1, H2. reflexivity.
Qed.

Lemma loop_plains : forall top l x o e iv, forallb plainb l = true ->
  reaches top (mk (l ++ x) o e iv) (mk x (o ++ l) e iv).
Proof.
  intros top l; induction l as [|c l IH]; intros x o e iv H; simpl in *.
  - rewrite app_nil_r. apply reaches_refl.
  - apply Bool.andb_true_iff in H as [Hc Hl].
    eapply reaches_trans; [apply loop_plain; exact Hc|].
    replace (o ++ c :: l) with ((o ++ [c]) ++ l) by (rewrite <- app_assoc; reflexivity).
    apply IH; exact Hl.
Qed.

Lemma loop_bs : forall top x o e iv,
  reaches top (mk (92 :: x) o e iv) (scan_escape false (mk x o e iv)).
Proof. intros. apply reaches_step; intro f. reflexivity. Qed.

Lemma bracket_plain : forall c x o e iv, bplainb c = true ->
  breaches (mk (c :: x) o e iv) (mk x (o ++ [c]) e iv).
Proof.
  intros c x o e iv H. apply breaches_step; intro f. unfold bplainb in H.
  apply Bool.negb_true_iff in H. apply Bool.orb_false_iff in H as [H H0].
  simpl. rewrite H, H0. reflexivity.
Qed.
Lemma bracket_bs : forall x o e iv,
  breaches (mk (92 :: x) o e iv) (scan_escape true (mk x o e iv)).
Proof. intros. apply breaches_step; intro f. reflexivity. Qed.

(* ---------- escapes ---------- *)
Lemma esc_simple : forall ic k x o e iv,
  (esccls_ok k || ctl_ok k || (negb ic && ((k =? 98) || (k =? 66)))) = true ->
  scan_escape ic (mk (k :: x) o e iv) = mk x (o ++ [92; k]) e iv.
Proof.
  intros ic k x o e iv H.
  assert (Hk : k = 100 \/ k = 68 \/ k = 119 \/ k = 87 \/ k = 115 \/ k = 83 \/
               k = 102 \/ k = 110 \/ k = 114 \/ k = 116 \/ k = 118 \/ (ic = false /\ (k = 98 \/ k = 66))).
  { unfold esccls_ok, ctl_ok in H.
    repeat match goal with
    | H : (_ || _) = true |- _ => apply Bool.orb_true_iff in H; destruct H as [H|H]
    | H : (_ && _) = true |- _ => apply Bool.andb_true_iff in H; destruct H as [H ?]
    | H : (_ =? _) = true |- _ => apply Z.eqb_eq in H
    | H : negb _ = true |- _ => apply Bool.negb_true_iff in H
    end; subst; tauto. }
  repeat destruct Hk as [Hk|Hk]; try (subst k; cbn; rewrite <- app_assoc; reflexivity).
  destruct Hk as [-> [-> | ->]]; cbn; rewrite <- app_assoc; reflexivity.
Qed.

Lemma esc_bs_class : forall x o e iv,
  scan_escape true (mk (98 :: x) o e iv) = mk x (o ++ [92; 120; 48; 56]) e iv.
Proof. reflexivity. Qed.

Lemma idesc_cases : forall c, idesc_ok c = true ->
  c = 94 \/ c = 36 \/ c = 92 \/ c = 46 \/ c = 42 \/ c = 43 \/ c = 63 \/ c = 40 \/ c = 41 \/
  c = 91 \/ c = 93 \/ c = 123 \/ c = 125 \/ c = 124 \/ c = 47 \/ c = 45.
Proof.
  intros c H. unfold idesc_ok, is_syntax in H.
  repeat match goal with
  | H : (_ || _) = true |- _ => apply Bool.orb_true_iff in H; destruct H as [H|H]
  | H : (_ =? _) = true |- _ => apply Z.eqb_eq in H
  end; subst; tauto.
Qed.

Lemma esc_idesc : forall ic c x o e iv, idesc_ok c = true ->
  scan_escape ic (mk (c :: x) o e iv) = mk x (o ++ [92; c]) e iv.
Proof.
  intros ic c x o e iv H. apply idesc_cases in H.
  repeat destruct H as [H|H]; subst c; destruct ic; cbn; rewrite <- app_assoc; reflexivity.
Qed.

Lemma is_hex_digit : forall h, is_hex h = true -> (digit_value h <? 16) = true.
Proof.
  intros h H. unfold is_hex in H. unfold digit_value.
  destruct ((48 <=? h) && (h <=? 57)) eqn:A.
  { apply Bool.andb_true_iff in A as [A B]. apply Z.leb_le in A, B. apply Z.ltb_lt. lia. }
  destruct ((97 <=? h) && (h <=? 102)) eqn:B.
  { apply Bool.andb_true_iff in B as [B C]. apply Z.leb_le in B, C. apply Z.ltb_lt. lia. }
  destruct ((65 <=? h) && (h <=? 70)) eqn:C.
  { apply Bool.andb_true_iff in C as [C D]. apply Z.leb_le in C, D. apply Z.ltb_lt. lia. }
  discriminate.
Qed.

Lemma esc_hex : forall ic a b x o e iv, is_hex a = true -> is_hex b = true ->
  scan_escape ic (mk (120 :: a :: b :: x) o e iv) = mk x (o ++ [92; 120; a; b]) e iv.
Proof.
  intros ic a b x o e iv Ha Hb. apply is_hex_digit in Ha, Hb.
  unfold ModelTransform.scan_escape. cbn. unfold scan_hex. cbn [read inp tl out err inv hex_loop].
  rewrite Ha, Hb. reflexivity.
Qed.

Lemma esc_uni : forall ic a b c d x o e iv,
  is_hex a = true -> is_hex b = true -> is_hex c = true -> is_hex d = true ->
  scan_escape ic (mk (117 :: a :: b :: c :: d :: x) o e iv) = mk x (o ++ [92; 120; 123; a; b; c; d; 125]) e iv.
Proof.
  intros ic a b c d x o e iv Ha Hb Hc Hd. apply is_hex_digit in Ha, Hb, Hc, Hd.
  unfold ModelTransform.scan_escape. cbn. unfold scan_hex. cbn [read inp tl out err inv hex_loop].
  rewrite Ha, Hb, Hc, Hd. reflexivity.
Qed.

Lemma letter_cases : forall l, is_letter l = true ->
  In l [97;98;99;100;101;102;103;104;105;106;107;108;109;110;111;112;113;114;115;116;117;118;119;120;121;122;
        65;66;67;68;69;70;71;72;73;74;75;76;77;78;79;80;81;82;83;84;85;86;87;88;89;90].
Proof.
  intros l H. unfold is_letter in H.
  apply Bool.orb_true_iff in H as [H|H]; apply Bool.andb_true_iff in H as [A B];
    apply Z.leb_le in A, B; simpl; lia.
Qed.

Lemma esc_cx : forall ic l x o e iv, is_letter l = true ->
  scan_escape ic (mk (99 :: l :: x) o e iv) = mk x (o ++ re2_ch (CCx l)) e iv.
Proof.
  intros ic l x o e iv H. apply letter_cases in H. simpl in H.
  repeat destruct H as [H|H]; try (subst l; reflexivity). contradiction.
Qed.

(* one pattern character, inside or outside a class *)
Lemma ch_cases : forall ic c, wf_ch ic c = true ->
  (exists k, c = CLit k /\ (if ic then clit_ok k else lit_ok k) = true) \/
  (exists t, js_ch c = 92 :: t /\
     forall ic' x o e iv, scan_escape ic' (mk (t ++ x) o e iv) = mk x (o ++ re2_ch c) e iv).
Proof.
  intros ic c H. destruct c; simpl in H.
  - left. eexists; split; [reflexivity|exact H].
  - right. exists [c]. split; [reflexivity|]. intros. apply esc_idesc; exact H.
  - right. exists [k]. split; [reflexivity|]. intros. apply esc_simple. rewrite H, Bool.orb_true_r. reflexivity.
  - right. exists [120; h1; h2]. split; [reflexivity|]. intros.
    apply Bool.andb_true_iff in H as [A B]. apply esc_hex; assumption.
  - right. exists [117; h1; h2; h3; h4]. split; [reflexivity|]. intros.
    repeat (apply Bool.andb_true_iff in H; destruct H as [H ?]). apply esc_uni; assumption.
  - right. exists [99; l]. split; [reflexivity|]. intros. apply esc_cx; exact H.
Qed.

Lemma lit_plain : forall k, lit_ok k = true -> plainb k = true.
Proof.
  intros k H. unfold lit_ok in H. unfold plainb.
  repeat (apply Bool.andb_true_iff in H; destruct H as [H ?]).
  apply Bool.negb_true_iff in H1. unfold is_syntax in H1.
  repeat (apply Bool.orb_false_iff in H1; destruct H1 as [H1 ?]).
  apply Bool.negb_true_iff. repeat (apply Bool.orb_false_iff; split); assumption.
Qed.
Lemma clit_bplain : forall k, clit_ok k = true -> bplainb k = true.
Proof.
  intros k H. unfold clit_ok in H. apply Bool.andb_true_iff in H as [H _].
  apply Bool.orb_true_iff in H as [H|H]; [apply Bool.orb_true_iff in H as [H|H]|].
  - unfold lit_ok in H. unfold bplainb.
    repeat (apply Bool.andb_true_iff in H; destruct H as [H ?]).
    apply Bool.negb_true_iff in H1. unfold is_syntax in H1.
    repeat (apply Bool.orb_false_iff in H1; destruct H1 as [H1 ?]).
    apply Bool.negb_true_iff. repeat (apply Bool.orb_false_iff; split); assumption.
  - apply Z.eqb_eq in H. subst k. reflexivity.
  - apply Z.eqb_eq in H. subst k. reflexivity.
Qed.

Lemma loop_ch : forall top c x o e iv, wf_ch false c = true ->
  reaches top (mk (js_ch c ++ x) o e iv) (mk x (o ++ re2_ch c) e iv).
Proof.
  intros top c x o e iv H. destruct (ch_cases false c H) as [(k & -> & Hk) | (t & Ht & Hs)].
  - apply loop_plain, lit_plain, Hk.
  - rewrite Ht. simpl. eapply reaches_trans; [apply loop_bs|]. rewrite Hs. apply reaches_refl.
Qed.

Lemma bracket_ch : forall c x o e iv, wf_ch true c = true ->
  breaches (mk (js_ch c ++ x) o e iv) (mk x (o ++ re2_ch c) e iv).
Proof.
  intros c x o e iv H. destruct (ch_cases true c H) as [(k & -> & Hk) | (t & Ht & Hs)].
  - apply bracket_plain, clit_bplain, Hk.
  - rewrite Ht. simpl. eapply breaches_trans; [apply bracket_bs|]. rewrite Hs. intros f X HX; eauto.
Qed.

Lemma bracket_item : forall i x o e iv, wf_item i = true ->
  breaches (mk (js_item i ++ x) o e iv) (mk x (o ++ re2_item i) e iv).
Proof.
  intros i x o e iv H. destruct i; simpl in H |- *.
  - apply bracket_ch; exact H.
  - apply Bool.andb_true_iff in H as [H _]. apply Bool.andb_true_iff in H as [Hlo Hhi].
    replace ((js_ch lo ++ 45 :: js_ch hi) ++ x) with (js_ch lo ++ 45 :: js_ch hi ++ x)
      by (rewrite <- app_assoc; reflexivity).
    replace (o ++ re2_ch lo ++ 45 :: re2_ch hi) with (((o ++ re2_ch lo) ++ [45]) ++ re2_ch hi)
      by (repeat rewrite <- app_assoc; reflexivity).
    apply breaches_trans with (b := mk (45 :: js_ch hi ++ x) (o ++ re2_ch lo) e iv).
    { apply bracket_ch; exact Hlo. }
    apply breaches_trans with (b := mk (js_ch hi ++ x) ((o ++ re2_ch lo) ++ [45]) e iv).
    { apply (bracket_plain 45); reflexivity. }
    apply bracket_ch; exact Hhi.
  - eapply breaches_trans; [apply bracket_bs|]. rewrite esc_simple by (rewrite H; reflexivity).
    intros f X HX; eauto.
  - eapply breaches_trans; [apply bracket_bs|]. rewrite esc_bs_class. intros f X HX; eauto.
Qed.

Lemma bracket_items : forall items x o e iv, forallb wf_item items = true ->
  breaches (mk (flat_map js_item items ++ x) o e iv) (mk x (o ++ flat_map re2_item items) e iv).
Proof.
  induction items as [|i items IH]; intros x o e iv H; simpl in *.
  - rewrite app_nil_r. intros f X HX; eauto.
  - apply Bool.andb_true_iff in H as [Hi Hs]. rewrite <- app_assoc.
    eapply breaches_trans; [apply bracket_item; exact Hi|].
    replace (o ++ re2_item i ++ flat_map re2_item items) with ((o ++ re2_item i) ++ flat_map re2_item items)
      by (rewrite <- app_assoc; reflexivity).
    apply IH; exact Hs.
Qed.

(* a whole class *)
Lemma loop_class : forall top neg items x o e iv, forallb wf_item items = true ->
  reaches top (mk (print_js (RClass neg items) ++ x) o e iv) (mk x (o ++ print_re2 (RClass neg items)) e iv).
Proof.
  intros top neg items x o e iv H f X HX.
  set (negl := if neg then [94] else []).
  assert (B : exists fb, bracket_loop fb (mk (negl ++ flat_map js_item items ++ 93 :: x) (o ++ [91]) e iv)
                         = Some (mk x (((o ++ [91]) ++ negl) ++ flat_map re2_item items ++ [93]) e iv)).
  { assert (B1 : breaches (mk (negl ++ flat_map js_item items ++ 93 :: x) (o ++ [91]) e iv)
                          (mk (93 :: x) (((o ++ [91]) ++ negl) ++ flat_map re2_item items) e iv)).
    { eapply breaches_trans.
      - instantiate (1 := mk (flat_map js_item items ++ 93 :: x) ((o ++ [91]) ++ negl) e iv).
        unfold negl; destruct neg; simpl.
        + apply (bracket_plain 94); reflexivity.
        + rewrite app_nil_r. intros f0 X0 H0; eauto.
      - apply bracket_items; exact H. }
    destruct (B1 1%nat (mk x ((((o ++ [91]) ++ negl) ++ flat_map re2_item items) ++ [93]) e iv)) as (fb & Hfb).
    { reflexivity. }
    exists fb. rewrite Hfb. f_equal. f_equal. rewrite <- app_assoc. reflexivity. }
  destruct B as (fb & Hfb).
  exists (S (Nat.max fb f)).
  simpl print_js. simpl app. cbn [loop inp]. cbn [Z.eqb Pos.eqb].
  unfold pass. cbn [inp out err inv]. fold negl.
  replace ((negl ++ flat_map js_item items ++ [93]) ++ x) with (negl ++ flat_map js_item items ++ 93 :: x)
    by (repeat rewrite <- app_assoc; reflexivity).
  rewrite (bracket_mono _ _ _ Hfb (Nat.max fb f)) by lia.
  apply (loop_mono f); [|lia].
  rewrite <- HX. f_equal. f_equal. simpl print_re2. fold negl.
  repeat rewrite <- app_assoc. reflexivity.
Qed.


(* ---------- groups ---------- *)
Definition hd_ok (l : list Z) : Prop := match l with a :: _ => (a =? 63) = false | [] => True end.

Lemma la_ok : forall l o e iv, hd_ok l -> la_check (mk l o e iv) = mk l o e iv.
Proof.
  intros [|a [|b l]] o e iv H; try reflexivity.
  unfold la_check; simpl in *. rewrite H. reflexivity.
Qed.

Lemma lit_not_q : forall k, lit_ok k = true -> (k =? 63) = false.
Proof.
  intros k H. unfold lit_ok in H.
  repeat (apply Bool.andb_true_iff in H; destruct H as [H ?]).
  apply Bool.negb_true_iff in H1. unfold is_syntax in H1.
  repeat (apply Bool.orb_false_iff in H1; destruct H1 as [H1 ?]). assumption.
Qed.

Lemma atom_head : forall r, wf r = true -> is_atom r = true ->
  exists c l, print_js r = c :: l /\ (c =? 63) = false.
Proof.
  intros r Hw Ha. destruct r; try discriminate; simpl.
  - destruct c; simpl in *; try (eexists; eexists; split; [reflexivity|reflexivity]).
    eexists; eexists; split; [reflexivity|]. apply lit_not_q; exact Hw.
  - eexists; eexists; split; reflexivity.
  - eexists; eexists; split; reflexivity.
  - eexists; eexists; split; reflexivity.
  - eexists; eexists; split; reflexivity.
  - eexists; eexists; split; reflexivity.
  - eexists; eexists; split; reflexivity.
Qed.

Lemma js_hd_ok : forall r, wf r = true -> forall t, hd_ok t -> hd_ok (print_js r ++ t).
Proof.
  induction r; intros Hw t Ht;
    try (destruct (atom_head _ Hw eq_refl) as (c0 & l0 & E & Hc); rewrite E; exact Hc);
    try (simpl; reflexivity).
  - exact Ht.
  - simpl in Hw. repeat (apply Bool.andb_true_iff in Hw; destruct Hw as [Hw ?]).
    simpl. rewrite <- app_assoc. apply IHr1; [assumption|]. apply IHr2; assumption.
  - simpl in Hw. apply Bool.andb_true_iff in Hw as [Hw1 Hw2].
    simpl. rewrite <- app_assoc. apply IHr1; [assumption|]. reflexivity.
  - simpl in Hw. apply Bool.andb_true_iff in Hw as [Hw Hq]. apply Bool.andb_true_iff in Hw as [Hw Ha].
    destruct (atom_head _ Hw Ha) as (c0 & l0 & E & Hc). simpl. rewrite E. exact Hc.
Qed.

Lemma loop_group : forall top pre bjs bre x o e e1 e2 iv,
  la_check (mk (pre ++ bjs ++ 41 :: x) (o ++ [40]) e iv) = mk (pre ++ bjs ++ 41 :: x) (o ++ [40]) e1 iv ->
  forallb plainb pre = true ->
  reaches false (mk (bjs ++ 41 :: x) ((o ++ [40]) ++ pre) e1 iv) (mk (41 :: x) (((o ++ [40]) ++ pre) ++ bre) e2 iv) ->
  reaches top (mk (40 :: pre ++ bjs ++ 41 :: x) o e iv) (mk x (o ++ 40 :: pre ++ bre ++ [41]) e2 iv).
Proof.
  intros top pre bjs bre x o e e1 e2 iv Hla Hpre Hbody f X HX.
  assert (R : reaches false (mk (pre ++ bjs ++ 41 :: x) (o ++ [40]) e1 iv)
                            (mk (41 :: x) (((o ++ [40]) ++ pre) ++ bre) e2 iv)).
  { eapply reaches_trans; [apply loop_plains; exact Hpre | exact Hbody]. }
  destruct (R 1%nat (mk x ((((o ++ [40]) ++ pre) ++ bre) ++ [41]) e2 iv) eq_refl) as (f1 & Hf1).
  exists (S (Nat.max f1 f)).
  cbn [loop inp]. cbn [Z.eqb Pos.eqb]. unfold pass at 1. cbn [inp out err inv].
  rewrite Hla. rewrite (loop_mono _ _ _ _ Hf1 (Nat.max f1 f)) by lia.
  apply (loop_mono f); [|lia]. rewrite <- HX. f_equal. f_equal.
  repeat rewrite <- app_assoc. reflexivity.
Qed.

(* ---------- back-references ---------- *)
Lemma nd8 : forall d, ((48 <=? d) && (d <=? 57)) = false -> (digit_value d <? 8) = false /\ (digit_value d <? 10) = false.
Proof.
  intros d H. unfold digit_value. rewrite H.
  destruct ((97 <=? d) && (d <=? 102)) eqn:A.
  { apply Bool.andb_true_iff in A as [A B]. apply Z.leb_le in A, B. split; apply Z.ltb_ge; lia. }
  destruct ((65 <=? d) && (d <=? 70)) eqn:B.
  { apply Bool.andb_true_iff in B as [B C]. apply Z.leb_le in B, C. split; apply Z.ltb_ge; lia. }
  split; reflexivity.
Qed.
Lemma oct_one : forall x, starts_digit x = false -> forall v n, oct_loop x v n = (x, v, n).
Proof. intros [|d x] H v n; [reflexivity|]. simpl in *. destruct (nd8 d H) as [A _]. rewrite A. reflexivity. Qed.
Lemma dec_one : forall x, starts_digit x = false -> forall acc, dec_loop x acc = (acc, x).
Proof. intros [|d x] H acc; [reflexivity|]. simpl in *. destruct (nd8 d H) as [_ A]. rewrite A. reflexivity. Qed.

Lemma esc_backref : forall n x o e iv, (1 <=? n) && (n <=? 9) = true -> starts_digit x = false ->
  scan_escape false (mk ((48 + n) :: x) o e iv) = mk x (o ++ [92; 48 + n]) (merge e (Some 2)) iv.
Proof.
  intros n x o e iv Hn Hx. apply Bool.andb_true_iff in Hn as [A B]. apply Z.leb_le in A, B.
  assert (Hc : n = 1 \/ n = 2 \/ n = 3 \/ n = 4 \/ n = 5 \/ n = 6 \/ n = 7 \/ n = 8 \/ n = 9) by lia.
  unfold ModelTransform.scan_escape.
  repeat destruct Hc as [Hc|Hc]; subst n; cbn; rewrite ?(oct_one _ Hx), ?(dec_one _ Hx); cbn; destruct e; reflexivity.
Qed.

Lemma eb_nonempty : forall r, ends_backref r = true -> print_js r <> [].
Proof.
  induction r; simpl; intros H E; try discriminate.
  - apply app_eq_nil in E as [E1 E2]. rewrite E2 in H. exact (IHr1 H E1).
  - apply app_eq_nil in E as [_ E]. discriminate.
Qed.

(* ---------- quantifiers ---------- *)
Lemma digit_plain : forall d, 0 <= d < 10 -> plainb (48 + d) = true.
Proof.
  intros d H. unfold plainb. apply Bool.negb_true_iff.
  repeat (apply Bool.orb_false_iff; split); apply Z.eqb_neq; lia.
Qed.
Lemma dec_fuel_plain : forall fuel z acc, 0 <= z -> forallb plainb acc = true ->
  forallb plainb (dec_fuel fuel z acc) = true.
Proof.
  induction fuel; intros z acc Hz Ha; cbn [dec_fuel]; [exact Ha|].
  destruct (z <? 10) eqn:E.
  - apply Z.ltb_lt in E. cbn [forallb]. rewrite digit_plain by lia. exact Ha.
  - apply IHfuel.
    + apply Z.div_pos; lia.
    + cbn [forallb]. rewrite digit_plain by (apply Z.mod_pos_bound; lia). exact Ha.
Qed.
Lemma dec_plain : forall n, forallb plainb (dec n) = true.
Proof. intro n. apply dec_fuel_plain; [lia|reflexivity]. Qed.

Lemma quant_plain : forall q g, forallb plainb (print_quant q g) = true.
Proof.
  intros q g. unfold print_quant. rewrite forallb_app.
  assert (G : forallb plainb (if g then [] else [63]) = true) by (destruct g; reflexivity).
  rewrite G, Bool.andb_true_r.
  destruct q; try reflexivity; repeat rewrite forallb_app; rewrite ?dec_plain; reflexivity.
Qed.
Lemma quant_not_digit : forall q g x, starts_digit (print_quant q g ++ x) = false.
Proof. intros q g x. destruct q; reflexivity. Qed.

(* ---------- the main induction ---------- *)
Lemma loop_re : forall r, wf r = true -> forall top x o e iv,
  (ends_backref r = true -> starts_digit x = false) ->
  reaches top (mk (print_js r ++ x) o e iv) (mk x (o ++ print_re2 r) (merge e (first_err r)) iv).
Proof.
  induction r; intros Hw top x o e iv Hx; simpl first_err; try rewrite merge_none.
  - (* REmpty *) simpl. rewrite app_nil_r. apply reaches_refl.
  - (* RCh *) apply loop_ch. exact Hw.
  - (* RDot *) apply (loop_plain top 46). reflexivity.
  - (* REscCls *) simpl in Hw. simpl. eapply reaches_trans; [apply loop_bs|].
    rewrite esc_simple by (rewrite Hw; reflexivity). apply reaches_refl.
  - (* RClass *) simpl in Hw. apply Bool.andb_true_iff in Hw as [Hw _].
    apply Bool.andb_true_iff in Hw as [Hw _]. apply loop_class. exact Hw.
  - (* RBol *) apply (loop_plain top 94). reflexivity.
  - (* REol *) apply (loop_plain top 36). reflexivity.
  - (* RWordB *) simpl. eapply reaches_trans; [apply loop_bs|]. rewrite esc_simple by reflexivity. apply reaches_refl.
  - (* RNWordB *) simpl. eapply reaches_trans; [apply loop_bs|]. rewrite esc_simple by reflexivity. apply reaches_refl.
  - (* RGroup *) simpl in Hw.
    assert (E1 : print_js (RGroup r) ++ x = 40 :: [] ++ print_js r ++ 41 :: x)
      by (simpl; rewrite <- app_assoc; reflexivity).
    rewrite E1.
    apply (loop_group top [] (print_js r) (print_re2 r) x o e e (merge e (first_err r)) iv).
    + simpl. apply la_ok. apply js_hd_ok; [exact Hw|reflexivity].
    + reflexivity.
    + rewrite app_nil_r. apply IHr; [exact Hw|reflexivity].
  - (* RNcGroup *) simpl in Hw.
    assert (E1 : print_js (RNcGroup r) ++ x = 40 :: [63; 58] ++ print_js r ++ 41 :: x)
      by (simpl; rewrite <- app_assoc; reflexivity).
    rewrite E1.
    apply (loop_group top [63; 58] (print_js r) (print_re2 r) x o e e (merge e (first_err r)) iv).
    + reflexivity.
    + reflexivity.
    + apply IHr; [exact Hw|reflexivity].
  - (* RLook *) simpl in Hw.
    set (c := if neg then 33 else 61).
    assert (E1 : print_js (RLook neg r) ++ x = 40 :: [63; c] ++ print_js r ++ 41 :: x)
      by (simpl; rewrite <- app_assoc; reflexivity).
    rewrite E1.
    apply (loop_group top [63; c] (print_js r) (print_re2 r) x o e (merge e (Some 1)) (merge e (Some 1)) iv).
    + unfold c; destruct neg, e; reflexivity.
    + unfold c; destruct neg; reflexivity.
    + replace (merge e (Some 1)) with (merge (merge e (Some 1)) (first_err r)) at 2
        by (rewrite merge_assoc; reflexivity).
      apply IHr; [exact Hw|reflexivity].
  - (* RBackref *)
    change (wf (RBackref n)) with ((1 <=? n) && (n <=? 9)) in Hw.
    change (print_js (RBackref n) ++ x) with (92 :: (48 + n) :: x).
    change (print_re2 (RBackref n)) with [92; 48 + n].
    apply reaches_trans with (b := scan_escape false (mk ((48 + n) :: x) o e iv)); [apply loop_bs|].
    rewrite (esc_backref n x o e iv Hw (Hx eq_refl)). apply reaches_refl.
  - (* RSeq *) simpl in Hw. repeat (apply Bool.andb_true_iff in Hw; destruct Hw as [Hw ?]).
    simpl print_js. simpl print_re2. rewrite <- app_assoc.
    apply reaches_trans with (b := mk (print_js r2 ++ x) (o ++ print_re2 r1) (merge e (first_err r1)) iv).
    + apply IHr1; [assumption|]. intro E.
      apply Bool.negb_true_iff in H. rewrite E in H. simpl in H.
      destruct (print_js r2) eqn:E2.
      * simpl. apply Hx. simpl. rewrite E2. exact E.
      * simpl in *. exact H.
    + replace (o ++ print_re2 r1 ++ print_re2 r2) with ((o ++ print_re2 r1) ++ print_re2 r2)
        by (rewrite <- app_assoc; reflexivity).
      replace (merge e (match first_err r1 with None => first_err r2 | x0 => x0 end))
        with (merge (merge e (first_err r1)) (first_err r2))
        by (destruct e, (first_err r1); reflexivity).
      apply IHr2; [assumption|]. intro E. apply Hx. simpl.
      destruct (print_js r2) eqn:E2; [exfalso; apply (eb_nonempty _ E); exact E2 | exact E].
  - (* RAlt *) simpl in Hw. apply Bool.andb_true_iff in Hw as [Hw1 Hw2].
    simpl print_js. simpl print_re2. rewrite <- app_assoc.
    apply reaches_trans with (b := mk (124 :: print_js r2 ++ x) (o ++ print_re2 r1) (merge e (first_err r1)) iv).
    + apply IHr1; [assumption|reflexivity].
    + apply reaches_trans with (b := mk (print_js r2 ++ x) ((o ++ print_re2 r1) ++ [124]) (merge e (first_err r1)) iv).
      * apply (loop_plain top 124). reflexivity.
      * replace (o ++ print_re2 r1 ++ 124 :: print_re2 r2) with (((o ++ print_re2 r1) ++ [124]) ++ print_re2 r2)
          by (repeat rewrite <- app_assoc; reflexivity).
        replace (merge e (match first_err r1 with None => first_err r2 | x0 => x0 end))
          with (merge (merge e (first_err r1)) (first_err r2))
          by (destruct e, (first_err r1); reflexivity).
        apply IHr2; [assumption|]. intro E. apply Hx. simpl.
        destruct (print_js r2) eqn:E2; [exfalso; apply (eb_nonempty _ E); exact E2 | exact E].
  - (* RQuant *) simpl in Hw. apply Bool.andb_true_iff in Hw as [Hw _]. apply Bool.andb_true_iff in Hw as [Hw _].
    simpl print_js. simpl print_re2. rewrite <- app_assoc.
    apply reaches_trans with (b := mk (print_quant q greedy ++ x) (o ++ print_re2 r) (merge e (first_err r)) iv).
    + apply IHr; [assumption|]. intros _. apply quant_not_digit.
    + replace (o ++ print_re2 r ++ print_quant q greedy) with ((o ++ print_re2 r) ++ print_quant q greedy)
        by (rewrite <- app_assoc; reflexivity).
      apply loop_plains. apply quant_plain.
Qed.

Lemma js_nil : forall r, print_js r = [] -> print_re2 r = [] /\ first_err r = None.
Proof.
  induction r; simpl; intro H; try discriminate; try (split; reflexivity).
  - destruct c; discriminate.
  - apply app_eq_nil in H as [H1 H2]. destruct (IHr1 H1) as [A B], (IHr2 H2) as [C D].
    rewrite A, B, C, D. split; reflexivity.
  - apply app_eq_nil in H as [_ H]. discriminate.
  - apply app_eq_nil in H as [_ H]. unfold print_quant in H. apply app_eq_nil in H as [H _].
    destruct q; discriminate.
Qed.

(* TransformRegExp on the ES5 spelling of a well-formed tree: the engine
   spelling comes out, `invalid` stays false, and an error is reported exactly
   when the tree contains a look-ahead or a back-reference *)
Theorem transform_tree : forall r, wf r = true ->
  transform (print_js r) = Some (print_re2 r, match first_err r with None => false | Some _ => true end).
Proof.
  intros r Hw. unfold ModelTransform.transform.
  destruct (print_js r) as [|c p] eqn:E.
  { destruct (js_nil r E) as [A B]. rewrite A, B. reflexivity. }
  rewrite <- E.
  pose proof (loop_re r Hw true [] [] None false (fun _ => eq_refl)) as R.
  rewrite app_nil_r in R.
  destruct (R 1%nat (mk [] ([] ++ print_re2 r) (merge None (first_err r)) false) eq_refl) as (f1 & Hf1).
  destruct (loop_total (S (length (print_js r))) true (init (print_js r))) as (s' & A & _).
  { unfold ilen, init; simpl; lia. }
  assert (s' = mk [] ([] ++ print_re2 r) (merge None (first_err r)) false).
  { pose proof (loop_mono _ _ _ _ A (Nat.max f1 (S (length (print_js r)))) ltac:(lia)) as A1.
    pose proof (loop_mono _ _ _ _ Hf1 (Nat.max f1 (S (length (print_js r)))) ltac:(lia)) as A2.
    unfold init in A1. rewrite A1 in A2. inversion A2. reflexivity. }
  rewrite A. subst s'. reflexivity.
Qed.

Corollary transform_supported : forall r, wf r = true -> supported r = true ->
  transform (print_js r) = Some (print_re2 r, false).
Proof.
  intros r Hw Hs. rewrite transform_tree by exact Hw.
  apply supported_first_err in Hs. rewrite Hs. reflexivity.
Qed.

Corollary transform_unsupported : forall r, wf r = true -> supported r = false ->
  transform (print_js r) = Some (print_re2 r, true).
Proof.
  intros r Hw Hs. rewrite transform_tree by exact Hw.
  destruct (first_err r) eqn:E; [reflexivity|].
  apply supported_first_err in E. congruence.
Qed.


(* ================= `invalid` is never set without an error ================= *)
(* s' extends s: same `invalid`, and an error stays an error *)
Definition ext (s s' : st) : Prop := inv s' = inv s /\ (err s <> None -> err s' <> None).
Definition okst (s : st) : Prop := inv s = true -> err s <> None.

Lemma ext_refl : forall s, ext s s. Proof. intro s; split; auto. Qed.
Lemma ext_trans : forall a b c, ext a b -> ext b c -> ext a c.
Proof. intros a b c [A1 A2] [B1 B2]. split; [congruence|auto]. Qed.
Lemma ext_pass : forall s, ext s (pass s).
Proof. intros [i o e v]; unfold pass; simpl. destruct i; split; auto. Qed.
Lemma ext_read : forall s, ext s (read s). Proof. intros [i o e v]; split; auto. Qed.
Lemma ext_put : forall l s, ext s (put l s). Proof. intros l [i o e v]; split; auto. Qed.
Lemma ext_setinp : forall l s, ext s (setinp l s). Proof. intros l [i o e v]; split; auto. Qed.
Lemma ext_add_err : forall k s, ext s (add_err k s).
Proof. intros k [i o e v]; split; auto. simpl. destruct e; intros; congruence. Qed.
Lemma ext_ok : forall s s', ext s s' -> okst s -> okst s'.
Proof. intros s s' [A B] H Hi. apply B, H. congruence. Qed.
Lemma ok_invalidate : forall k s, okst (set_inv (add_err k s)).
Proof. intros k [i o e v] _. simpl. destruct e; discriminate. Qed.

Ltac ext_chain :=
  repeat first
    [ apply ext_refl
    | eapply ext_trans; [| first [apply ext_pass | apply ext_read | apply ext_put | apply ext_setinp | apply ext_add_err]] ].

Lemma ext_scan_hex : forall letter n s, ext s (scan_hex letter n s).
Proof.
  intros. unfold scan_hex. destruct (hex_loop n (inp s) []) as [[ok c] r].
  destruct ok; [destruct (n =? 4)%nat|]; ext_chain.
Qed.

Lemma ext_scan_escape : forall b s, ext s (scan_escape b s).
Proof.
  intros b s. unfold ModelTransform.scan_escape.
  destruct ((48 <=? chr s) && (chr s <=? 55)).
  { destruct (oct_loop (inp s) 0 0) as [[r v] n].
    destruct (n =? 1)%nat; [destruct (v =? 0)|]; ext_chain. }
  destruct ((chr s =? 56) || (chr s =? 57)).
  { destruct (dec_loop (inp s) []) as [c r]. ext_chain. }
  destruct (chr s =? 120). { eapply ext_trans; [apply ext_read | apply ext_scan_hex]. }
  destruct (chr s =? 117). { eapply ext_trans; [apply ext_read | apply ext_scan_hex]. }
  destruct ((chr s =? 98) && b). { ext_chain. }
  match goal with |- context [if ?c then pass (put [92] s) else _] => destruct c end.
  { ext_chain. }
  destruct (chr s =? 99).
  { destruct ((97 <=? chr (read s)) && (chr (read s) <=? 122)). { ext_chain. }
    destruct ((65 <=? chr (read s)) && (chr (read s) <=? 90)); ext_chain. }
  destruct ((chr s =? 36) || negb (is_id_part idc (chr s))); ext_chain.
Qed.

Lemma ext_la : forall s, ext s (la_check s).
Proof.
  intros s. unfold la_check. destruct (inp s) as [|a [|b l]]; try apply ext_refl.
  destruct ((a =? 63) && ((b =? 61) || (b =? 33))); [apply ext_add_err | apply ext_refl].
Qed.

Lemma bracket_ok : forall f s s', okst s -> bracket_loop f s = Some s' -> okst s'.
Proof.
  induction f; intros s s' Hs H; [discriminate|]. simpl in H.
  destruct (inp s).
  { inversion H; subst. apply ok_invalidate. }
  destruct (z =? 93). { inversion H; subst. exact (ext_ok _ _ (ext_pass s) Hs). }
  destruct (z =? 92).
  - eapply IHf; [|exact H]. eapply ext_ok; [|exact Hs].
    eapply ext_trans; [apply ext_read | apply ext_scan_escape].
  - eapply IHf; [|exact H]. exact (ext_ok _ _ (ext_pass s) Hs).
Qed.

Lemma loop_ok : forall f top s s', okst s -> loop top f s = Some s' -> okst s'.
Proof.
  induction f; intros top s s' Hs H; [discriminate|]. simpl in H.
  destruct (inp s).
  { destruct top; inversion H; subst; [exact Hs | apply ok_invalidate]. }
  destruct (z =? 92).
  { eapply IHf; [|exact H]. eapply ext_ok; [|exact Hs].
    eapply ext_trans; [apply ext_read | apply ext_scan_escape]. }
  destruct (z =? 40).
  { destruct (loop false f (la_check (pass s))) as [s1|] eqn:E; [|discriminate].
    eapply IHf; [|exact H]. eapply IHf; [|exact E].
    eapply ext_ok; [|exact Hs]. eapply ext_trans; [apply ext_pass | apply ext_la]. }
  destruct (z =? 91).
  { destruct (bracket_loop f (pass s)) as [s1|] eqn:E; [|discriminate].
    eapply IHf; [|exact H]. eapply bracket_ok; [|exact E]. exact (ext_ok _ _ (ext_pass s) Hs). }
  destruct (z =? 41).
  { destruct top.
    - eapply IHf; [|exact H]. eapply ext_ok; [apply ext_pass|]. apply ok_invalidate.
    - inversion H; subst. exact (ext_ok _ _ (ext_pass s) Hs). }
  eapply IHf; [|exact H]. exact (ext_ok _ _ (ext_pass s) Hs).
Qed.

(* whatever the pattern: a result without error is never the "invalid" empty
   result, i.e. when TransformRegExp sets `invalid` it also returns an error
   (the constructor then throws instead of compiling the empty pattern) *)
Theorem transform_invalid_has_error : forall p s,
  loop true (S (length p)) (init p) = Some s -> inv s = true -> err s <> None.
Proof.
  intros p s H. apply (loop_ok _ _ _ _ (fun Hi : inv (init p) = true => ltac:(discriminate Hi)) H).
Qed.


(* ================= the constructor's error class ================= *)
Lemma ext_inv : forall s s', ext s s' -> inv s = true -> inv s' = true.
Proof. intros s s' [A _] H. congruence. Qed.

Lemma bracket_inv : forall f s s', inv s = true -> bracket_loop f s = Some s' -> inv s' = true.
Proof.
  induction f; intros s s' Hs H; [discriminate|]. simpl in H.
  destruct (inp s). { inversion H; subst. reflexivity. }
  destruct (z =? 93). { inversion H; subst. exact (ext_inv _ _ (ext_pass s) Hs). }
  destruct (z =? 92).
  - eapply IHf; [|exact H]. eapply ext_inv; [|exact Hs].
    eapply ext_trans; [apply ext_read | apply ext_scan_escape].
  - eapply IHf; [|exact H]. exact (ext_inv _ _ (ext_pass s) Hs).
Qed.

Lemma loop_inv : forall f top s s', inv s = true -> loop top f s = Some s' -> inv s' = true.
Proof.
  induction f; intros top s s' Hs H; [discriminate|]. simpl in H.
  destruct (inp s). { destruct top; inversion H; subst; [exact Hs | reflexivity]. }
  destruct (z =? 92).
  { eapply IHf; [|exact H]. eapply ext_inv; [|exact Hs].
    eapply ext_trans; [apply ext_read | apply ext_scan_escape]. }
  destruct (z =? 40).
  { destruct (loop false f (la_check (pass s))) as [s1|] eqn:E; [|discriminate].
    eapply IHf; [|exact H]. eapply IHf; [|exact E].
    eapply ext_inv; [|exact Hs]. eapply ext_trans; [apply ext_pass | apply ext_la]. }
  destruct (z =? 91).
  { destruct (bracket_loop f (pass s)) as [s1|] eqn:E; [|discriminate].
    eapply IHf; [|exact H]. eapply bracket_inv; [|exact E]. exact (ext_inv _ _ (ext_pass s) Hs). }
  destruct (z =? 41).
  { destruct top.
    - eapply IHf; [|exact H]. eapply ext_inv; [apply ext_pass|]. reflexivity.
    - inversion H; subst. exact (ext_inv _ _ (ext_pass s) Hs). }
  eapply IHf; [|exact H]. exact (ext_inv _ _ (ext_pass s) Hs).
Qed.

Lemma loop_final : forall p f X, loop true f (init p) = Some X ->
  loop true (S (length p)) (init p) = Some X.
Proof.
  intros p f X H.
  destruct (loop_total (S (length p)) true (init p)) as (s' & A & _); [unfold ilen, init; simpl; lia|].
  pose proof (loop_mono _ _ _ _ A (Nat.max f (S (length p))) ltac:(lia)) as A1.
  pose proof (loop_mono _ _ _ _ H (Nat.max f (S (length p))) ltac:(lia)) as A2.
  rewrite A1 in A2. inversion A2; subst. exact A.
Qed.

Lemma transform_nonempty : forall p s, p <> [] -> loop true (S (length p)) (init p) = Some s ->
  transform p = Some ((if inv s then [] else out s), match err s with None => false | Some _ => true end).
Proof. intros [|c p] s Hp H; [contradiction|]. unfold ModelTransform.transform. rewrite H. reflexivity. Qed.

(* a ")" that closes nothing, after any well-formed tree and before any text at
   all: TransformRegExp answers ("", error) *)
Theorem transform_unmatched_paren : forall r x, wf r = true ->
  transform (print_js r ++ 41 :: x) = Some ([], true).
Proof.
  intros r x Hw.
  set (A := mk (41 :: x) ([] ++ print_re2 r) (merge None (first_err r)) false).
  destruct (loop_total (S (ilen A)) true A (Nat.lt_succ_diag_r _)) as (X & HX & _).
  assert (I : inv X = true).
  { change (loop true (S (ilen A)) A) with (loop true (ilen A) (pass (set_inv (add_err 3 A)))) in HX.
    eapply loop_inv; [|exact HX]. reflexivity. }
  assert (E : err X <> None).
  { apply (loop_ok _ _ _ _ (fun Hi : inv A = true => ltac:(discriminate Hi)) HX). exact I. }
  pose proof (loop_re r Hw true (41 :: x) [] None false (fun _ => eq_refl)) as R.
  destruct (R _ _ HX) as (f1 & Hf1).
  apply loop_final in Hf1.
  rewrite (transform_nonempty _ X); [| intro N; apply app_eq_nil in N as [_ N]; discriminate | exact Hf1].
  rewrite I. destruct (err X); [reflexivity|contradiction].
Qed.

End P.

(* ---------- flags (repaired in /repo 784edea) ---------- *)
Definition gim (c : Z) : Prop := c = 103 \/ c = 105 \/ c = 109.

Lemma flags_loop_spec : forall l g i m re2,
  flags_loop l g i m re2 <> None <->
  (Forall gim l /\ NoDup l /\ (g = true -> ~ In 103 l) /\ (i = true -> ~ In 105 l) /\ (m = true -> ~ In 109 l)).
Proof.
  induction l as [|c l IH]; intros g i m re2; simpl.
  - split; [intros _; repeat split; auto; constructor | discriminate].
  - destruct (Z.eqb_spec c 103) as [->|N1].
    { destruct g.
      - split; [intro H; contradiction|]. intros (_ & _ & G & _). exfalso. apply (G eq_refl). left; reflexivity.
      - rewrite IH. split.
        + intros (F & D & G & I & M). repeat split.
          * constructor; [left; reflexivity|exact F].
          * constructor; [apply G; reflexivity|exact D].
          * discriminate.
          * intros Hi [E|E]; [discriminate|]. exact (I Hi E).
          * intros Hm [E|E]; [discriminate|]. exact (M Hm E).
        + intros (F & D & _ & I & M). inversion F; subst. inversion D; subst. repeat split; auto.
          * intros Hi E. apply (I Hi). right; exact E.
          * intros Hm E. apply (M Hm). right; exact E. }
    destruct (Z.eqb_spec c 109) as [->|N2].
    { destruct m.
      - split; [intro H; contradiction|]. intros (_ & _ & _ & _ & M). exfalso. apply (M eq_refl). left; reflexivity.
      - rewrite IH. split.
        + intros (F & D & G & I & M). repeat split.
          * constructor; [right; right; reflexivity|exact F].
          * constructor; [apply M; reflexivity|exact D].
          * intros Hg [E|E]; [discriminate|]. exact (G Hg E).
          * intros Hi [E|E]; [discriminate|]. exact (I Hi E).
          * discriminate.
        + intros (F & D & G & I & _). inversion F; subst. inversion D; subst. repeat split; auto.
          * intros Hg E. apply (G Hg). right; exact E.
          * intros Hi E. apply (I Hi). right; exact E. }
    destruct (Z.eqb_spec c 105) as [->|N3].
    { destruct i.
      - split; [intro H; contradiction|]. intros (_ & _ & _ & I & _). exfalso. apply (I eq_refl). left; reflexivity.
      - rewrite IH. split.
        + intros (F & D & G & I & M). repeat split.
          * constructor; [right; left; reflexivity|exact F].
          * constructor; [apply I; reflexivity|exact D].
          * intros Hg [E|E]; [discriminate|]. exact (G Hg E).
          * discriminate.
          * intros Hm [E|E]; [discriminate|]. exact (M Hm E).
        + intros (F & D & G & _ & M). inversion F; subst. inversion D; subst. repeat split; auto.
          * intros Hg E. apply (G Hg). right; exact E.
          * intros Hm E. apply (M Hm). right; exact E. }
    split; [intro H; contradiction|]. intros (F & _). inversion F; subst. unfold gim in *. lia.
Qed.

(* ES5 15.10.4.1: the flags are accepted iff they contain only g, i, m, each at most once *)
Theorem parse_flags_es5 : forall l, parse_flags l <> None <-> (Forall gim l /\ NoDup l).
Proof.
  intro l. unfold parse_flags. rewrite flags_loop_spec.
  split; [tauto|]. intros [F D]. repeat split; auto; discriminate.
Qed.

Lemma re2_nil : forall r, print_re2 r = [] -> supported r = true.
Proof.
  induction r; simpl; intro H; try reflexivity; try discriminate.
  - apply app_eq_nil in H as [H1 H2]. rewrite IHr1, IHr2 by assumption. reflexivity.
  - apply app_eq_nil in H as [_ H]. discriminate.
  - apply app_eq_nil in H as [_ H]. unfold print_quant in H. apply app_eq_nil in H as [H _].
    destruct q; discriminate.
Qed.

(* the constructor's error class: SyntaxError for bad flags whatever the pattern,
   SyntaxError for an unmatched ")" (the scanner's `invalid`), TypeError for a
   well-formed tree that only lacks an engine spelling, nothing for the subset *)
Theorem ctor_class_cases : forall idc,
  (forall pat fl, ~ (Forall gim fl /\ NoDup fl) -> ctor_class idc pat fl = 5) /\
  (forall r x fl, wf r = true -> Forall gim fl -> NoDup fl -> ctor_class idc (print_js r ++ 41 :: x) fl = 5) /\
  (forall r fl, wf r = true -> supported r = false -> Forall gim fl -> NoDup fl -> ctor_class idc (print_js r) fl = 6) /\
  (forall r fl, wf r = true -> supported r = true -> Forall gim fl -> NoDup fl -> ctor_class idc (print_js r) fl = 0).
Proof.
  intro idc. repeat split.
  - intros pat fl H. unfold ctor_class. destruct (parse_flags fl) eqn:E; [|reflexivity].
    exfalso. apply H. apply parse_flags_es5. congruence.
  - intros r x fl Hw F D. unfold ctor_class.
    destruct (parse_flags fl) eqn:E; [|exfalso; apply (proj2 (parse_flags_es5 fl) (conj F D)); exact E].
    rewrite transform_unmatched_paren by exact Hw. reflexivity.
  - intros r fl Hw Hs F D. unfold ctor_class.
    destruct (parse_flags fl) eqn:E; [|exfalso; apply (proj2 (parse_flags_es5 fl) (conj F D)); exact E].
    rewrite transform_unsupported by assumption.
    destruct (print_re2 r) eqn:P; [|reflexivity].
    apply re2_nil in P. congruence.
  - intros r fl Hw Hs F D. unfold ctor_class.
    destruct (parse_flags fl) eqn:E; [|exfalso; apply (proj2 (parse_flags_es5 fl) (conj F D)); exact E].
    rewrite transform_supported by assumption. destruct (print_re2 r); reflexivity.
Qed.
