(* ES5 15.10.2 pattern semantics as an executable backtracking matcher in
   continuation-passing style (the specification's own formulation), fuelled.

   The same interpreter also carries the two rules of the Go engine (RE2) that
   differ from 15.10.2.5 on the portable subset, selected by [sem]:
     s_reset  = true : captures of a quantified atom are reset at the start of
                       every iteration (RepeatMatcher step 4);  RE2 never resets;
     s_es5rep = true : RepeatMatcher proper: an iteration that consumes nothing
                       once min is exhausted is a failure (step 2.1);
              = false: Go's regexp/syntax: x{n,m} is unfolded to n copies and
                       m-n nested x?, x{n,} to n-1 copies and x+, x* is (x+)? when
                       x can match the empty string and  L: split(x -> L, out)  otherwise;
                       x+ is  L: x; split(L, out)  and a thread that comes back
                       to a branching program point at a position where that
                       point is already on its path is dropped (so an empty
                       iteration is neither simply accepted nor simply a
                       failure: it depends on which point is reached again
                       first); the nested x? are separate copies and accept
                       empty iterations;
     s_es5chr = true : \s is WhiteSpace + LineTerminator, . excludes and multiline
                       ^ $ recognise the four LineTerminators;
              = false: Go's tables: \s = [\t\n\f\r ], only \n is a line end.
   [es5] is the specification; [re2] is the reading of the engine that the
   correspondence run validates against otto on every generated case.

   Domain of the character tables: case folding is defined for ASCII and
   U+00C0..U+00FE (what the generators use); other characters are caseless. *)
From Coq Require Import ZArith List Bool Lia.
From Otto Require Import C10.SpecSyntax.
Import ListNotations.
Open Scope Z_scope.

Record sem := mkSem { s_reset : bool; s_es5rep : bool; s_es5chr : bool }.
Definition es5 : sem := mkSem true true true.
Definition re2 : sem := mkSem false false false.

Record mflags := mkFlags { f_ic : bool; f_ml : bool }.

Definition caps := list (option (nat * nat)).
Inductive mres := MFail | MOk (e : nat) (c : caps) | MFuel.

(* ---------- characters ---------- *)
Definition upper (c : Z) : Z :=
  if (97 <=? c) && (c <=? 122) then c - 32
  else if (224 <=? c) && (c <=? 254) && negb (c =? 247) then c - 32
  else c.
Definition lower_of_upper (u : Z) : Z :=
  if (65 <=? u) && (u <=? 90) then u + 32
  else if (192 <=? u) && (u <=? 222) && negb (u =? 215) then u + 32
  else u.
(* 15.10.2.8 Canonicalize *)
Definition canon (ic : bool) (c : Z) : Z := if ic then upper c else c.

Definition is_digit (c : Z) : bool := (48 <=? c) && (c <=? 57).
Definition is_word (c : Z) : bool :=
  ((97 <=? c) && (c <=? 122)) || ((65 <=? c) && (c <=? 90)) || is_digit c || (c =? 95).
(* WhiteSpace (7.2) or LineTerminator (7.3) *)
Definition is_space (c : Z) : bool :=
  (c =? 9) || (c =? 10) || (c =? 11) || (c =? 12) || (c =? 13) || (c =? 32) || (c =? 160) ||
  (c =? 5760) || (c =? 6158) || ((8192 <=? c) && (c <=? 8202)) || (c =? 8232) || (c =? 8233) ||
  (c =? 8239) || (c =? 8287) || (c =? 12288) || (c =? 65279).

(* Go: \s = [\t\n\f\r ] *)
Definition is_space_go (c : Z) : bool := (c =? 9) || (c =? 10) || (c =? 12) || (c =? 13) || (c =? 32).

Definition esccls (es5chr : bool) (k : Z) (ch : Z) : bool :=
  let sp := if es5chr then is_space ch else is_space_go ch in
  if k =? 100 then is_digit ch else if k =? 68 then negb (is_digit ch)
  else if k =? 119 then is_word ch else if k =? 87 then negb (is_word ch)
  else if k =? 115 then sp else negb sp.

Definition in_range (lo hi c : Z) : bool := (lo <=? c) && (c <=? hi).
(* exists a in [lo,hi] with Canonicalize a = Canonicalize ch *)
Definition range_match (ic : bool) (lo hi ch : Z) : bool :=
  if ic then in_range lo hi (upper ch) || in_range lo hi (lower_of_upper (upper ch))
  else in_range lo hi ch.

Definition item_match (es5chr : bool) (ic : bool) (i : citem) (ch : Z) : bool :=
  match i with
  | CI1 c => canon ic (ch_val c) =? canon ic ch
  | CIRange lo hi => range_match ic (ch_val lo) (ch_val hi) ch
  | CIEsc k => esccls es5chr k ch
  | CIBs => 8 =? ch
  end.

(* ---------- captures ---------- *)
Fixpoint set_nth {A} (n : nat) (v : A) (l : list A) : list A :=
  match l, n with
  | [], _ => []
  | _ :: t, O => v :: t
  | h :: t, S n' => h :: set_nth n' v t
  end.
(* captures gi .. gi+cnt-1 become undefined *)
Fixpoint reset_caps (c : caps) (gi cnt : nat) : caps :=
  match cnt with
  | O => c
  | S cnt' => reset_caps (set_nth gi None c) (S gi) cnt'
  end.

Definition quant_min (q : quant) : nat :=
  match q with QStar => 0 | QPlus => 1 | QOpt => 0 | QN n => n | QNInf n => n | QNM n _ => n end.
Definition quant_max (q : quant) : option nat :=
  match q with QStar => None | QPlus => None | QOpt => Some 1%nat | QN n => Some n | QNInf _ => None | QNM _ m => Some m end.

(* ---------- the matcher ---------- *)
(* Program points of the engine's compiled program that branch (alternation,
   the split of x?, the split after the body of x+): the engine drops a thread
   that reaches such a point a second time without having consumed a character
   (regexp's visited set per position; for points that are not on the thread's
   own path this is ordinary memoisation and does not change the result).
   [vis] = the branch points already on the path at the current position. *)
Definition vset := list Z.
Definition cont := nat -> caps -> vset -> mres.
Definition pt (salt : Z) (ni : nat) (kind : Z) : Z := (salt * 4096 + Z.of_nat ni) * 32 + kind.
Definition seen (p : Z) (v : vset) : bool := existsb (Z.eqb p) v.
(* copy j of the body of a counted repetition is a separate piece of program *)
Definition copy_salt (salt : Z) (j : nat) : Z := salt * 16 + Z.of_nat j + 1.

(* number of nodes, for numbering them in preorder *)
Fixpoint nsize (r : re) : nat :=
  match r with
  | RGroup r | RNcGroup r | RLook _ r => S (nsize r)
  | RSeq a b | RAlt a b => S (nsize a + nsize b)
  | RQuant a _ _ => S (nsize a)
  | _ => 1%nat
  end.

(* the engine compiler's notion: can the fragment match without consuming *)
Fixpoint nullable (r : re) : bool :=
  match r with
  | REmpty | RBol | REol | RWordB | RNWordB => true
  | RGroup r | RNcGroup r | RLook _ r => nullable r
  | RSeq a b => nullable a && nullable b
  | RAlt a b => nullable a || nullable b
  | RQuant a q _ => (quant_min q =? 0)%nat || nullable a
  | _ => false
  end.

Inductive job :=
    (* tree, index of its first group, node number, copy salt, position, captures, visited, continuation *)
| JM (r : re) (gi ni : nat) (salt : Z) (x : nat) (c : caps) (v : vset) (k : cont)
    (* 15.10.2.5 RepeatMatcher(m, min, max, greedy, x, c, parenIndex, parenCount) *)
| JRep (a : re) (gi ni : nat) (salt : Z) (min : nat) (max : option nat) (greedy : bool) (x : nat) (c : caps) (v : vset) (k : cont)
    (* engine: copies j .. j+n-1 of a, then k *)
| JCopies (a : re) (gi ni : nat) (salt : Z) (j n : nat) (x : nat) (c : caps) (v : vset) (k : cont)
    (* engine: a+ (copy j) *)
| JPlus (a : re) (gi ni : nat) (salt : Z) (j : nat) (greedy : bool) (x : nat) (c : caps) (v : vset) (k : cont)
    (* engine: a* for a body that always consumes:  L: split(a -> L, out) *)
| JLoop (a : re) (gi ni : nat) (salt : Z) (greedy : bool) (x : nat) (c : caps) (v : vset) (k : cont)
    (* engine: (a(a(a)?)?)? nested n deep, copies j.. *)
| JOpt (a : re) (gi ni : nat) (salt : Z) (j n : nat) (greedy : bool) (x : nat) (c : caps) (v : vset) (k : cont).

Definition orelse (a : mres) (b : unit -> mres) : mres :=
  match a with MFail => b tt | z => z end.

Section Matcher.
Variable sm : sem.
Variable fl : mflags.
Variable s : list Z.      (* the subject, as the characters the matcher steps over *)

Definition len : nat := length s.
Definition at_ (x : nat) : Z := nth x s (-1).
Definition word_at (x : nat) (before : bool) : bool :=
  if before then (match x with O => false | S x' => is_word (at_ x') end)
  else if (x <? len)%nat then is_word (at_ x) else false.

Definition line_term (c : Z) : bool := if s_es5chr sm then is_line_term c else (c =? 10).

Definition iter_caps (c : caps) (a : re) (gi : nat) : caps :=
  if s_reset sm then reset_caps c gi (ngroups a) else c.

(* arrive at branch point p: fail if it is already on the path *)
Definition branch (p : Z) (v : vset) (f : vset -> mres) : mres :=
  if s_es5rep sm then f v else if seen p v then MFail else f (p :: v).

Definition m_step (self : job -> mres) (j : job) : mres :=
  match j with
  | JM r gi ni salt x c v k =>
      match r with
      | REmpty => k x c v
      | RCh ch =>
          if (x <? len)%nat && (canon (f_ic fl) (ch_val ch) =? canon (f_ic fl) (at_ x)) then k (S x) c [] else MFail
      | RDot => if (x <? len)%nat && negb (line_term (at_ x)) then k (S x) c [] else MFail
      | REscCls kk => if (x <? len)%nat && esccls (s_es5chr sm) kk (at_ x) then k (S x) c [] else MFail
      | RClass neg items =>
          if (x <? len)%nat && xorb neg (existsb (fun i => item_match (s_es5chr sm) (f_ic fl) i (at_ x)) items) then k (S x) c [] else MFail
      | RBol =>
          if (x =? 0)%nat || (f_ml fl && line_term (at_ (pred x))) then k x c v else MFail
      | REol =>
          if (x =? len)%nat || (f_ml fl && (x <? len)%nat && line_term (at_ x)) then k x c v else MFail
      | RWordB => if xorb (word_at x true) (word_at x false) then k x c v else MFail
      | RNWordB => if xorb (word_at x true) (word_at x false) then MFail else k x c v
      | RGroup r1 => self (JM r1 (S gi) (S ni) salt x c v (fun y cy vy => k y (set_nth gi (Some (x, y)) cy) vy))
      | RNcGroup r1 => self (JM r1 gi (S ni) salt x c v k)
      | RLook _ _ => MFuel      (* outside the modelled subset *)
      | RBackref _ => MFuel
      | RSeq a b => self (JM a gi (S ni) salt x c v (fun y cy vy => self (JM b (gi + ngroups a)%nat (S ni + nsize a)%nat salt y cy vy k)))
      | RAlt a b =>
          branch (pt salt ni 0) v (fun v' =>
            orelse (self (JM a gi (S ni) salt x c v' k))
                   (fun _ => self (JM b (gi + ngroups a)%nat (S ni + nsize a)%nat salt x c v' k)))
      | RQuant a q g =>
          let mn := quant_min q in
          let mx := quant_max q in
          if s_es5rep sm then self (JRep a gi ni salt mn mx g x c v k)
          else match mx with
               | Some O => k x c v
               | Some m => self (JCopies a gi ni salt 0 mn x c v (fun y cy vy => self (JOpt a gi ni salt mn (m - mn) g y cy vy k)))
               | None =>
                   match mn with
                   | O =>
                       if nullable a then
                         (* (a+)? : the split of ? and the split after the body are two points *)
                         branch (pt salt ni 1) v (fun v' =>
                            if g then orelse (self (JPlus a gi ni salt 0 g x c v' k)) (fun _ => k x c v')
                            else orelse (k x c v') (fun _ => self (JPlus a gi ni salt 0 g x c v' k)))
                       else self (JLoop a gi ni salt g x c v k)
                   | S mn' => self (JCopies a gi ni salt 0 mn' x c v (fun y cy vy => self (JPlus a gi ni salt mn' g y cy vy k)))
                   end
               end
      end
  | JRep a gi ni salt mn mx g x c v k =>
      match mx with
      | Some O => k x c v
      | _ =>
          let d : cont := fun y cy vy =>
            if (mn =? 0)%nat && (y =? x)%nat then MFail
            else self (JRep a gi ni salt (pred mn) (option_map pred mx) g y cy vy k) in
          let cr := iter_caps c a gi in
          if negb (mn =? 0)%nat then self (JM a gi (S ni) salt x cr v d)
          else if g then orelse (self (JM a gi (S ni) salt x cr v d)) (fun _ => k x c v)
          else orelse (k x c v) (fun _ => self (JM a gi (S ni) salt x cr v d))
      end
  | JCopies a gi ni salt j n x c v k =>
      match n with
      | O => k x c v
      | S n' => self (JM a gi (S ni) (copy_salt salt j) x (iter_caps c a gi) v
                         (fun y cy vy => self (JCopies a gi ni salt (S j) n' y cy vy k)))
      end
  | JPlus a gi ni salt j g x c v k =>
      self (JM a gi (S ni) (copy_salt salt j) x (iter_caps c a gi) v (fun y cy vy =>
        branch (pt salt ni 2) vy (fun vy' =>
          if g then orelse (self (JPlus a gi ni salt j g y cy vy' k)) (fun _ => k y cy vy')
          else orelse (k y cy vy') (fun _ => self (JPlus a gi ni salt j g y cy vy' k)))))
  | JLoop a gi ni salt g x c v k =>
      branch (pt salt ni 2) v (fun v' =>
        let body := fun _ : unit =>
          self (JM a gi (S ni) (copy_salt salt 0) x (iter_caps c a gi) v'
                   (fun y cy vy => self (JLoop a gi ni salt g y cy vy k))) in
        if g then orelse (body tt) (fun _ => k x c v') else orelse (k x c v') body)
  | JOpt a gi ni salt j n g x c v k =>
      match n with
      | O => k x c v
      | S n' =>
          branch (pt salt ni (3 + Z.of_nat j)) v (fun v' =>
            let body := fun _ : unit =>
              self (JM a gi (S ni) (copy_salt salt j) x (iter_caps c a gi) v'
                       (fun y cy vy => self (JOpt a gi ni salt (S j) n' g y cy vy k))) in
            if g then orelse (body tt) (fun _ => k x c v') else orelse (k x c v') body)
      end
  end.

Fixpoint run (fuel : nat) (j : job) : mres :=
  match fuel with
  | O => MFuel
  | S f => m_step (run f) j
  end.

(* 15.10.2.2: the pattern as a matcher applied at index i *)
Definition match_at (fuel : nat) (r : re) (i : nat) : mres :=
  run fuel (JM r O O 0 i (repeat None (ngroups r)) [] (fun y c _ => MOk y c)).

(* first index >= i (trying n+1 of them) where the pattern matches *)
Fixpoint search_from (fuel : nat) (r : re) (i : nat) (n : nat) : option (nat * mres) :=
  match match_at fuel r i with
  | MFail => match n with O => None | S n' => search_from fuel r (S i) n' end
  | z => Some (i, z)
  end.

End Matcher.

(* size of a tree, for the default fuel *)
Fixpoint re_size (r : re) : nat :=
  match r with
  | RGroup r | RNcGroup r | RLook _ r => S (re_size r)
  | RSeq a b | RAlt a b => S (re_size a + re_size b)
  | RQuant a q _ => S (re_size a + quant_min q + match quant_max q with Some m => m | None => 0 end)
  | _ => 1%nat
  end.
Definition default_fuel (r : re) (s : list Z) : nat := ((re_size r + 4) * (length s + 3) * 2)%nat.
