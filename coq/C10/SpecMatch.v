(* ES5 15.10.2 pattern semantics as an executable backtracking matcher in
   continuation-passing style (the specification's own formulation), fuelled.

   The same interpreter also carries the two rules of the Go engine (RE2) that
   differ from 15.10.2.5 on the portable subset, selected by [sem]:
     s_reset  = true : captures of a quantified atom are reset at the start of
                       every iteration (RepeatMatcher step 4);  RE2 never resets;
     s_es5rep = true : RepeatMatcher proper: an iteration that consumes nothing
                       once min is exhausted is a failure (step 2.1);
              = false: Go's regexp/syntax: x{n,m} is unfolded to n copies and
                       m-n nested x?, x{n,} to n-1 copies and x+, x* is (x+)?,
                       and in x+ an empty iteration is accepted but ends the loop
                       (the thread that returns to the loop head at the same
                       position is dropped).
   [es5] is the specification; [re2] is the reading of the engine that the
   correspondence run validates against otto on every generated case.

   Domain of the character tables: case folding is defined for ASCII and
   U+00C0..U+00FE (what the generators use); other characters are caseless. *)
From Coq Require Import ZArith List Bool Lia.
From Otto Require Import C10.SpecSyntax.
Import ListNotations.
Open Scope Z_scope.

Record sem := mkSem { s_reset : bool; s_es5rep : bool }.
Definition es5 : sem := mkSem true true.
Definition re2 : sem := mkSem false false.

Record mflags := mkFlags { f_ic : bool; f_ml : bool }.

Definition caps := list (option (nat * nat)).
Inductive mres := MFail | MOk (e : nat) (c : caps) | MFuel.
Definition cont := nat -> caps -> mres.

(* ---------- characters ---------- *)
Definition upper (c : Z) : Z :=
  if (97 <=? c) && (c <=? 122) then c - 32
  else if (224 <=? c) && (c <=? 254) && negb (c =? 247) then c - 32
  else c.
Definition lower_of_upper (u : Z) : Z :=
  if (65 <=? u) && (u <=? 90) then u + 32
  else if (192 <=? u) && (u <=? 222) && negb (u =? 215) then u + 32
  else u.
(* 15.10.2.8 Canonicalize *)
Definition canon (ic : bool) (c : Z) : Z := if ic then upper c else c.

Definition is_digit (c : Z) : bool := (48 <=? c) && (c <=? 57).
Definition is_word (c : Z) : bool :=
  ((97 <=? c) && (c <=? 122)) || ((65 <=? c) && (c <=? 90)) || is_digit c || (c =? 95).
(* WhiteSpace (7.2) or LineTerminator (7.3) *)
Definition is_space (c : Z) : bool :=
  (c =? 9) || (c =? 10) || (c =? 11) || (c =? 12) || (c =? 13) || (c =? 32) || (c =? 160) ||
  (c =? 5760) || (c =? 6158) || ((8192 <=? c) && (c <=? 8202)) || (c =? 8232) || (c =? 8233) ||
  (c =? 8239) || (c =? 8287) || (c =? 12288) || (c =? 65279).

Definition esccls (k : Z) (ch : Z) : bool :=
  if k =? 100 then is_digit ch else if k =? 68 then negb (is_digit ch)
  else if k =? 119 then is_word ch else if k =? 87 then negb (is_word ch)
  else if k =? 115 then is_space ch else negb (is_space ch).

Definition in_range (lo hi c : Z) : bool := (lo <=? c) && (c <=? hi).
(* exists a in [lo,hi] with Canonicalize a = Canonicalize ch *)
Definition range_match (ic : bool) (lo hi ch : Z) : bool :=
  if ic then in_range lo hi (upper ch) || in_range lo hi (lower_of_upper (upper ch))
  else in_range lo hi ch.

Definition item_match (ic : bool) (i : citem) (ch : Z) : bool :=
  match i with
  | CI1 c => canon ic (ch_val c) =? canon ic ch
  | CIRange lo hi => range_match ic (ch_val lo) (ch_val hi) ch
  | CIEsc k => esccls k ch
  | CIBs => 8 =? ch
  end.

(* ---------- captures ---------- *)
Fixpoint set_nth {A} (n : nat) (v : A) (l : list A) : list A :=
  match l, n with
  | [], _ => []
  | _ :: t, O => v :: t
  | h :: t, S n' => h :: set_nth n' v t
  end.
(* captures gi .. gi+cnt-1 become undefined *)
Fixpoint reset_caps (c : caps) (gi cnt : nat) : caps :=
  match cnt with
  | O => c
  | S cnt' => reset_caps (set_nth gi None c) (S gi) cnt'
  end.

Definition quant_min (q : quant) : nat :=
  match q with QStar => 0 | QPlus => 1 | QOpt => 0 | QN n => n | QNInf n => n | QNM n _ => n end.
Definition quant_max (q : quant) : option nat :=
  match q with QStar => None | QPlus => None | QOpt => Some 1%nat | QN n => Some n | QNInf _ => None | QNM _ m => Some m end.

(* ---------- the matcher ---------- *)
Inductive job :=
| JM (r : re) (gi : nat) (x : nat) (c : caps) (k : cont)
    (* 15.10.2.5 RepeatMatcher(m, min, max, greedy, x, c, parenIndex, parenCount) *)
| JRep (a : re) (gi : nat) (min : nat) (max : option nat) (greedy : bool) (x : nat) (c : caps) (k : cont)
    (* engine: n copies of a, then k *)
| JCopies (a : re) (gi : nat) (n : nat) (x : nat) (c : caps) (k : cont)
    (* engine: a+ *)
| JPlus (a : re) (gi : nat) (greedy : bool) (x : nat) (c : caps) (k : cont)
    (* engine: (a(a(a)?)?)? nested n deep *)
| JOpt (a : re) (gi : nat) (n : nat) (greedy : bool) (x : nat) (c : caps) (k : cont).

Definition orelse (a : mres) (b : unit -> mres) : mres :=
  match a with MFail => b tt | z => z end.

Section Matcher.
Variable sm : sem.
Variable fl : mflags.
Variable s : list Z.      (* the subject, as the characters the matcher steps over *)

Definition len : nat := length s.
Definition at_ (x : nat) : Z := nth x s (-1).
Definition word_at (x : nat) (before : bool) : bool :=
  if before then (match x with O => false | S x' => is_word (at_ x') end)
  else if (x <? len)%nat then is_word (at_ x) else false.

Definition iter_caps (c : caps) (a : re) (gi : nat) : caps :=
  if s_reset sm then reset_caps c gi (ngroups a) else c.

Definition m_step (self : job -> mres) (j : job) : mres :=
  match j with
  | JM r gi x c k =>
      match r with
      | REmpty => k x c
      | RCh ch =>
          if (x <? len)%nat && (canon (f_ic fl) (ch_val ch) =? canon (f_ic fl) (at_ x)) then k (S x) c else MFail
      | RDot => if (x <? len)%nat && negb (is_line_term (at_ x)) then k (S x) c else MFail
      | REscCls kk => if (x <? len)%nat && esccls kk (at_ x) then k (S x) c else MFail
      | RClass neg items =>
          if (x <? len)%nat && xorb neg (existsb (fun i => item_match (f_ic fl) i (at_ x)) items) then k (S x) c else MFail
      | RBol =>
          if (x =? 0)%nat || (f_ml fl && is_line_term (at_ (pred x))) then k x c else MFail
      | REol =>
          if (x =? len)%nat || (f_ml fl && is_line_term (at_ x)) then k x c else MFail
      | RWordB => if xorb (word_at x true) (word_at x false) then k x c else MFail
      | RNWordB => if xorb (word_at x true) (word_at x false) then MFail else k x c
      | RGroup r1 => self (JM r1 (S gi) x c (fun y cy => k y (set_nth gi (Some (x, y)) cy)))
      | RNcGroup r1 => self (JM r1 gi x c k)
      | RLook _ _ => MFuel      (* outside the modelled subset *)
      | RBackref _ => MFuel
      | RSeq a b => self (JM a gi x c (fun y cy => self (JM b (gi + ngroups a)%nat y cy k)))
      | RAlt a b => orelse (self (JM a gi x c k)) (fun _ => self (JM b (gi + ngroups a)%nat x c k))
      | RQuant a q g =>
          let mn := quant_min q in
          let mx := quant_max q in
          if s_es5rep sm then self (JRep a gi mn mx g x c k)
          else match mx with
               | Some O => k x c
               | Some m => self (JCopies a gi mn x c (fun y cy => self (JOpt a gi (m - mn) g y cy k)))
               | None =>
                   match mn with
                   | O => if g then orelse (self (JPlus a gi g x c k)) (fun _ => k x c)
                          else orelse (k x c) (fun _ => self (JPlus a gi g x c k))
                   | S mn' => self (JCopies a gi mn' x c (fun y cy => self (JPlus a gi g y cy k)))
                   end
               end
      end
  | JRep a gi mn mx g x c k =>
      match mx with
      | Some O => k x c
      | _ =>
          let d : cont := fun y cy =>
            if (mn =? 0)%nat && (y =? x)%nat then MFail
            else self (JRep a gi (pred mn) (option_map pred mx) g y cy k) in
          let cr := iter_caps c a gi in
          if negb (mn =? 0)%nat then self (JM a gi x cr d)
          else if g then orelse (self (JM a gi x cr d)) (fun _ => k x c)
          else orelse (k x c) (fun _ => self (JM a gi x cr d))
      end
  | JCopies a gi n x c k =>
      match n with
      | O => k x c
      | S n' => self (JM a gi x (iter_caps c a gi) (fun y cy => self (JCopies a gi n' y cy k)))
      end
  | JPlus a gi g x c k =>
      self (JM a gi x (iter_caps c a gi) (fun y cy =>
        let again := fun _ : unit => if (y =? x)%nat then MFail else self (JPlus a gi g y cy k) in
        if g then orelse (again tt) (fun _ => k y cy) else orelse (k y cy) again))
  | JOpt a gi n g x c k =>
      match n with
      | O => k x c
      | S n' =>
          let body := fun _ : unit => self (JM a gi x (iter_caps c a gi) (fun y cy => self (JOpt a gi n' g y cy k))) in
          if g then orelse (body tt) (fun _ => k x c) else orelse (k x c) body
      end
  end.

Fixpoint run (fuel : nat) (j : job) : mres :=
  match fuel with
  | O => MFuel
  | S f => m_step (run f) j
  end.

(* 15.10.2.2: the pattern as a matcher applied at index i *)
Definition match_at (fuel : nat) (r : re) (i : nat) : mres :=
  run fuel (JM r O i (repeat None (ngroups r)) (fun y c => MOk y c)).

(* first index >= i (trying n+1 of them) where the pattern matches *)
Fixpoint search_from (fuel : nat) (r : re) (i : nat) (n : nat) : option (nat * mres) :=
  match match_at fuel r i with
  | MFail => match n with O => None | S n' => search_from fuel r (S i) n' end
  | z => Some (i, z)
  end.

End Matcher.

(* size of a tree, for the default fuel *)
Fixpoint re_size (r : re) : nat :=
  match r with
  | RGroup r | RNcGroup r | RLook _ r => S (re_size r)
  | RSeq a b | RAlt a b => S (re_size a + re_size b)
  | RQuant a q _ => S (re_size a + quant_min q + match quant_max q with Some m => m | None => 0 end)
  | _ => 1%nat
  end.
Definition default_fuel (r : re) (s : list Z) : nat := ((re_size r + 4) * (length s + 3) * 2)%nat.
