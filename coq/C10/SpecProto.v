(* ES5 protocols on top of a pattern matcher:
     15.10.6.2 RegExp.prototype.exec, 15.10.6.3 test,
     15.5.4.10 String.prototype.match, 15.5.4.11 replace, 15.5.4.12 search,
     15.5.4.14 split (regular-expression separator),
   as functions of an abstract matcher [mt subject index] (15.10.2.2: the
   [[Match]] internal method).  Strings are lists of UTF-16 code units; all
   indices are code-unit indices.  [None] = the matcher ran out of fuel or the
   clause says "implementation-defined" (the case is then declined). *)
From Coq Require Import ZArith List Bool Lia.
From Otto Require Import C10.SpecSyntax C10.SpecMatch.
Import ListNotations.
Open Scope Z_scope.

(* observable values *)
Inductive ov := OZ (z : Z) | OS (s : list Z) | OU | ON | OB (b : bool).

Definition mtch : Type := nat * nat * caps.    (* index, endIndex, captures *)

Definition sub (s : list Z) (a b : nat) : list Z := firstn (b - a) (skipn a s).
Definition cap_ov (s : list Z) (c : option (nat * nat)) : ov :=
  match c with None => OU | Some (a, b) => OS (sub s a b) end.
Definition cap_str (s : list Z) (c : option (nat * nat)) : list Z :=
  match c with None => [] | Some (a, b) => sub s a b end.
Definition zlen (s : list Z) : Z := Z.of_nat (length s).
Definition llen {A} (l : list A) : Z := Z.of_nat (length l).

(* the array returned by exec: length, elements, index, input (15.10.6.2 steps 13-20) *)
Definition exec_obs (s : list Z) (m : option mtch) : list ov :=
  match m with
  | None => [ON]
  | Some (i, e, c) =>
      [OZ (Z.of_nat (S (length c))); OS (sub s i e)] ++ map (cap_ov s) c ++ [OZ (Z.of_nat i); OS s]
  end.

Definition decz (z : Z) : list Z := if z <? 0 then 45 :: dec (Z.to_nat (- z)) else dec (Z.to_nat z).

Section Proto.
Variable mt : list Z -> nat -> mres.

(* 15.10.6.2 step 9: first index >= i at which [[Match]] succeeds, trying n+1 indices *)
Fixpoint find_from (s : list Z) (i n : nat) : option (nat * mres) :=
  match mt s i with
  | MFail => match n with O => None | S n' => find_from s (S i) n' end
  | z => Some (i, z)
  end.

(* 15.10.6.2; lastIndex is an integer here (ToInteger applied by the caller) *)
Definition exec_spec (g : bool) (li : Z) (s : list Z) : option (option mtch * Z) :=
  let i0 := if g then li else 0 in
  if (i0 <? 0) || (i0 >? zlen s) then Some (None, 0)
  else
    match find_from s (Z.to_nat i0) (length s - Z.to_nat i0) with
    | None => Some (None, 0)
    | Some (i, MOk e c) => Some (Some (i, e, c), if g then Z.of_nat e else li)
    | Some (_, _) => None
    end.

(* 15.5.4.10 step 8 (also used by 15.5.4.11): all matches of a global expression *)
Fixpoint collect_es5 (fuel : nat) (s : list Z) (li prev : Z) (acc : list mtch) : option (list mtch) :=
  match fuel with
  | O => None
  | S f =>
      match exec_spec true li s with
      | None => None
      | Some (None, _) => Some (rev acc)
      | Some (Some m, this) =>
          if this =? prev then collect_es5 f s (this + 1) (this + 1) (m :: acc)
          else collect_es5 f s this this (m :: acc)
      end
  end.
Definition all_matches_es5 (s : list Z) : option (list mtch) := collect_es5 (length s + 3) s 0 0 [].

(* 15.5.4.10 *)
Definition match_spec (g : bool) (li : Z) (s : list Z) : option (list ov * Z) :=
  if negb g then
    match exec_spec false li s with
    | None => None
    | Some (m, li') => Some (exec_obs s m, li')
    end
  else
    match all_matches_es5 s with
    | None => None
    | Some [] => Some ([ON], 0)
    | Some ms => Some (OZ (llen ms) :: map (fun m : mtch => let '(i, e, _) := m in OS (sub s i e)) ms, 0)
    end.

(* 15.5.4.11 table 22: the replacement text for one match; m = number of captures.
   $n / $nn beyond m are implementation-defined: None *)
Fixpoint expand_spec (repl : list Z) (s : list Z) (mm : mtch) : option (list Z) :=
  let '(i, e, c) := mm in
  let m := llen c in
  let cons x r := option_map (fun t => x ++ t) r in
  match repl with
  | [] => Some []
  | 36 :: rest =>
      match rest with
      | 36 :: r => cons [36] (expand_spec r s mm)
      | 38 :: r => cons (sub s i e) (expand_spec r s mm)
      | 96 :: r => cons (sub s 0 i) (expand_spec r s mm)
      | 39 :: r => cons (skipn e s) (expand_spec r s mm)
      | d1 :: r =>
          if is_digit d1 then
            match r with
            | d2 :: r2 =>
                if is_digit d2 then
                  let nn := 10 * (d1 - 48) + (d2 - 48) in
                  if nn =? 0 then cons [36] (expand_spec rest s mm)
                  else if nn <=? m then cons (cap_str s (nth (Z.to_nat (nn - 1)) c None)) (expand_spec r2 s mm)
                  else None
                else
                  let n := d1 - 48 in
                  if n =? 0 then cons [36] (expand_spec rest s mm)
                  else if n <=? m then cons (cap_str s (nth (Z.to_nat (n - 1)) c None)) (expand_spec r s mm)
                  else None
            | [] =>
                let n := d1 - 48 in
                if n =? 0 then cons [36] (expand_spec rest s mm)
                else if n <=? m then cons (cap_str s (nth (Z.to_nat (n - 1)) c None)) (expand_spec r s mm)
                else None
            end
          else cons [36] (expand_spec rest s mm)
      | [] => Some [36]
      end
  | x :: r => cons [x] (expand_spec r s mm)
  end.

(* the harness's replacer function logs its arguments: matched, captures, offset, string *)
Definition fn_repl (ret : list Z) (c : caps) : list Z := ret ++ [60] ++ dec (length c + 3) ++ [62].

(* the replaceValue of replace: a text (table 22 applies) or the harness's
   function, which returns the fixed text [ret] followed by "<" + arguments.length + ">";
   what a function returns is inserted as it is, $ included *)
Inductive rv := RText (t : list Z) | RFun (ret : list Z).
Definition fn_log (s : list Z) (mm : mtch) : list ov :=
  let '(i, e, c) := mm in
  [OZ (Z.of_nat (length c + 3)); OS (sub s i e)] ++ map (cap_ov s) c ++ [OZ (Z.of_nat i); OS s].

(* result string: pieces between matches plus replacements *)
Fixpoint build (expand : mtch -> option (list Z)) (s : list Z) (prev : nat) (ms : list mtch) : option (list Z) :=
  match ms with
  | [] => Some (skipn prev s)
  | (i, e, c) :: rest =>
      match expand (i, e, c), build expand s e rest with
      | Some rp, Some t => Some (sub s prev i ++ rp ++ t)
      | _, _ => None
      end
  end.

(* 15.5.4.11; repl = Some text | None for the logging function.
   For a global expression lastIndex is updated "in the same manner as in
   String.prototype.match" (ends at 0); for a non-global one the clause does
   not mention lastIndex: unchanged. *)
Definition replace_spec (g : bool) (li : Z) (s : list Z) (repl : rv) : option (list ov * Z) :=
  let ms :=
    if g then all_matches_es5 s
    else match exec_spec false 0 s with
         | None => None
         | Some (None, _) => Some []
         | Some (Some m, _) => Some [m]
         end in
  match ms with
  | None => None
  | Some ms =>
      let expand := match repl with
                    | RText rp => fun m => expand_spec rp s m
                    | RFun ret => fun m : mtch => Some (fn_repl ret (snd m))
                    end in
      match build expand s 0 ms with
      | None => None
      | Some res =>
          let log := match repl with RText _ => [] | RFun _ => flat_map (fn_log s) ms end in
          Some (OS res :: log, if g then 0 else li)
      end
  end.

(* 15.5.4.11 with a searchValue that is not a regular expression: the first
   occurrence of the string, m = 0 captures; [expand] is the table-22 expansion *)
Fixpoint prefixb (p s : list Z) : bool :=
  match p, s with
  | [], _ => true
  | a :: p', b :: s' => (a =? b) && prefixb p' s'
  | _ :: _, [] => false
  end.
Fixpoint find_lit (p s : list Z) (i : nat) : option nat :=
  if prefixb p s then Some i
  else match s with [] => None | _ :: s' => find_lit p s' (S i) end.

Definition replace_str (expand : list Z -> list Z -> mtch -> option (list Z)) (s pat : list Z) (repl : rv) : option (list ov) :=
  let ms := match find_lit pat s O with
            | None => []
            | Some i => [(i, (i + length pat)%nat, @nil (option (nat * nat)))]
            end in
  let ex := match repl with
            | RText rp => fun m => expand rp s m
            | RFun ret => fun m : mtch => Some (fn_repl ret (snd m))
            end in
  match build ex s 0 ms with
  | None => None
  | Some res => Some (OS res :: match repl with RText _ => [] | RFun _ => flat_map (fn_log s) ms end)
  end.

(* 15.5.4.12: lastIndex and global are ignored, lastIndex is left unchanged *)
Definition search_spec (li : Z) (s : list Z) : option (list ov * Z) :=
  match find_from s 0 (length s) with
  | None => Some ([OZ (-1)], li)
  | Some (i, MOk _ _) => Some ([OZ (Z.of_nat i)], li)
  | Some _ => None
  end.

(* 15.5.4.14 steps 11-16 with R a regular expression; SplitMatch(S, q, R) = mt S q.
   lim : the limit after ToUint32 (2^32-1 when undefined) *)
Fixpoint push_caps (s : list Z) (c : caps) (a : list ov) (lim : Z) : list ov * bool :=
  match c with
  | [] => (a, false)
  | x :: c' =>
      let a' := a ++ [cap_ov s x] in
      if llen a' =? lim then (a', true) else push_caps s c' a' lim
  end.

Fixpoint split_loop (fuel : nat) (s : list Z) (p q : nat) (a : list ov) (lim : Z) : option (list ov) :=
  match fuel with
  | O => None
  | S f =>
      if (q <? length s)%nat then
        match mt s q with
        | MFuel => None
        | MFail => split_loop f s p (S q) a lim
        | MOk e c =>
            if (e =? p)%nat then split_loop f s p (S q) a lim
            else
              let a1 := a ++ [OS (sub s p q)] in
              if llen a1 =? lim then Some a1
              else
                let '(a2, full) := push_caps s c a1 lim in
                if full then Some a2 else split_loop f s e e a2 lim
        end
      else Some (a ++ [OS (skipn p s)])
  end.

Definition split_spec (li : Z) (s : list Z) (lim : Z) : option (list ov * Z) :=
  let arr :=
    if lim =? 0 then Some []
    else match s with
         | [] => match mt s O with MFuel => None | MFail => Some [OS s] | MOk _ _ => Some [] end
         | _ => split_loop (2 * length s + 3) s O O [] lim
         end in
  match arr with
  | None => None
  | Some a => Some (OZ (llen a) :: a, li)
  end.

End Proto.

(* 15.5.4.14 with a separator that is not a regular expression: SplitMatch(S, q, R)
   succeeds iff R occurs at q; an undefined separator gives [S] (step 10) *)
Definition lit_matcher (sep : list Z) : list Z -> nat -> mres :=
  fun s q => if prefixb sep (skipn q s) then MOk (q + length sep)%nat [] else MFail.
Definition split_str_spec (s : list Z) (sep : option (list Z)) (lim : Z) : option (list ov) :=
  if lim =? 0 then Some [OZ 0]
  else match sep with
       | None => Some [OZ 1; OS s]
       | Some sp => option_map fst (split_spec (lit_matcher sp) 0 s lim)
       end.
