(* Model of otto's pattern translation, parser/regexp.go:
   TransformRegExp / scan / scanGroup / scanBracket / scanEscape, plus
   regExpParser.read of parser/lexer.go, transcribed on lists of code points.

   The Go code works on a UTF-8 string and decodes one rune per read(); every
   byte it writes itself is ASCII and every slice of the source it copies
   (p.str[offset:p.chrOffset], the hex digits of \xHH / \uHHHH) starts and ends
   on a rune boundary, so the function is the same function on code points.
   Invalid UTF-8 cannot occur (patterns come from JavaScript strings).

   State: remaining input (p.chr is its head, -1 at the end), the output
   buffer p.goRegexp, the FIRST error (TransformRegExp reports p.errors[0];
   only its presence is observable from JavaScript) and the `invalid` flag.

   Error codes: 1 look-ahead, 2 back-reference, 3 unmatched ')',
   4 unterminated group, 5 unterminated character class. *)
From Coq Require Import ZArith List Bool Lia.
Import ListNotations.
Open Scope Z_scope.

Record st := mk { inp : list Z; out : list Z; err : option Z; inv : bool }.

Definition chr (s : st) : Z := match inp s with [] => -1 | c :: _ => c end.
(* p.read() *)
Definition read (s : st) : st := mk (tl (inp s)) (out s) (err s) (inv s).
(* p.goRegexp.Write(l) *)
Definition put (l : list Z) (s : st) : st := mk (inp s) (out s ++ l) (err s) (inv s).
(* p.pass(): write the current rune unless at the end, then read *)
Definition pass (s : st) : st :=
  match inp s with
  | [] => s
  | c :: r => mk r (out s ++ [c]) (err s) (inv s)
  end.
(* p.error(...): append to p.errors; only the first one is ever reported *)
Definition add_err (e : Z) (s : st) : st :=
  mk (inp s) (out s) (match err s with None => Some e | x => x end) (inv s).
Definition set_inv (s : st) : st := mk (inp s) (out s) (err s) true.

(* lexer.go digitValue *)
Definition digit_value (c : Z) : Z :=
  if (48 <=? c) && (c <=? 57) then c - 48
  else if (97 <=? c) && (c <=? 102) then c - 87
  else if (65 <=? c) && (c <=? 70) then c - 55
  else 16.

(* int64 wrap-around of `value = value*8 + digit` *)
Definition wrap64 (z : Z) : Z := (z + 9223372036854775808) mod 18446744073709551616 - 9223372036854775808.

(* strconv.AppendInt(_, v, 16): minimal lower-case hex digits, '-' for negatives *)
Definition hexd (d : Z) : Z := if d <? 10 then 48 + d else 87 + d.
Fixpoint hex_fuel (fuel : nat) (n : Z) (acc : list Z) : list Z :=
  match fuel with
  | O => acc
  | S f => if n <? 16 then hexd n :: acc else hex_fuel f (n / 16) (hexd (n mod 16) :: acc)
  end.
Definition append_int16 (v : Z) : list Z :=
  if v <? 0 then 45 :: hex_fuel 20 (- v) [] else hex_fuel 20 v [].

(* tmp := []byte{'\\','x','0',0}; tmp[0:2] if value >= 16 else tmp[0:3]; AppendInt *)
Definition hex_escape (v : Z) : list Z :=
  (if v >=? 16 then [92; 120] else [92; 120; 48]) ++ append_int16 v.

(* the octal digit loop of scanEscape: (rest, value, number of digits read) *)
Fixpoint oct_loop (l : list Z) (value : Z) (size : nat) : list Z * Z * nat :=
  match l with
  | c :: r => if digit_value c <? 8 then oct_loop r (wrap64 (value * 8 + digit_value c)) (S size)
              else (l, value, size)
  | [] => (l, value, size)
  end.

(* the decimal digit loop of case '8','9': (consumed, rest) *)
Fixpoint dec_loop (l : list Z) (acc : list Z) : list Z * list Z :=
  match l with
  | c :: r => if digit_value c <? 10 then dec_loop r (acc ++ [c]) else (acc, l)
  | [] => (acc, l)
  end.

(* the hex digit loop of \x / \u: (all n digits present, consumed, rest) *)
Fixpoint hex_loop (n : nat) (l : list Z) (acc : list Z) : bool * list Z * list Z :=
  match n with
  | O => (true, acc, l)
  | S n' =>
      match l with
      | c :: r => if digit_value c <? 16 then hex_loop n' r (acc ++ [c]) else (false, acc, l)
      | [] => (false, acc, l)
      end
  end.

Section Scan.
(* unicodeIDContinue for non-ASCII runes: a Go library table; the translation
   theorems hold for every such table, the correspondence run instantiates it *)
Variable idc : Z -> bool.

(* lexer.go isIdentifierPart *)
Definition is_id_part (c : Z) : bool :=
  (c =? 36) || (c =? 95) || (c =? 92) ||
  ((97 <=? c) && (c <=? 122)) || ((65 <=? c) && (c <=? 90)) || ((48 <=? c) && (c <=? 57)) ||
  ((128 <=? c) && idc c).

Definition setinp (l : list Z) (s : st) : st := mk l (out s) (err s) (inv s).

(* \x.. and \u.... after the letter has been read; `letter` is p.str[offset] *)
Definition scan_hex (letter : Z) (n : nat) (s : st) : st :=
  let '(ok, digits, rest) := hex_loop n (inp s) [] in
  if ok then
    (if (n =? 4)%nat then put ([92; 120; 123] ++ digits ++ [125]) (setinp rest s)
     else put ([92; 120] ++ digits) (setinp rest s))
  else (* skip: *) put (letter :: digits) (setinp rest s).

(* scanEscape(inClass); on entry the backslash has been read (not written) *)
Definition scan_escape (in_class : bool) (s : st) : st :=
  let c := chr s in
  if (48 <=? c) && (c <=? 55) then
    let '(rest, value, size) := oct_loop (inp s) 0 O in
    if (size =? 1)%nat then
      let s1 := put [92; (value mod 256 + 48) mod 256] (setinp rest s) in
      if value =? 0 then s1 else add_err 2 s1
    else put (hex_escape value) (setinp rest s)
  else if (c =? 56) || (c =? 57) then
    let '(consumed, rest) := dec_loop (inp s) [] in
    add_err 2 (put (92 :: consumed) (setinp rest s))
  else if c =? 120 then scan_hex 120 2 (read s)
  else if c =? 117 then scan_hex 117 4 (read s)
  else if (c =? 98) && in_class then read (put [92; 120; 48; 56] s)
  else if (c =? 98) || (c =? 66) || (c =? 100) || (c =? 68) || (c =? 115) || (c =? 83) ||
          (c =? 119) || (c =? 87) || (c =? 92) ||
          (c =? 102) || (c =? 110) || (c =? 114) || (c =? 116) || (c =? 118) then
    pass (put [92] s)
  else if c =? 99 then
    let s1 := read s in
    let d := chr s1 in
    if (97 <=? d) && (d <=? 122) then read (put (hex_escape (d - 97 + 1)) s1)
    else if (65 <=? d) && (d <=? 90) then read (put (hex_escape (d - 65 + 1)) s1)
    else put [99] s1
  else
    if (c =? 36) || negb (is_id_part c) then pass (put [92] s) else pass s.

(* scanBracket after the '[' has been passed *)
Fixpoint bracket_loop (fuel : nat) (s : st) : option st :=
  match fuel with
  | O => None
  | S f =>
      match inp s with
      | [] => Some (set_inv (add_err 5 s))
      | c :: _ =>
          if c =? 93 then Some (pass s)
          else if c =? 92 then bracket_loop f (scan_escape true (read s))
          else bracket_loop f (pass s)
      end
  end.

(* the look-ahead test at the head of scanGroup: str = p.str[p.chrOffset:] *)
Definition la_check (s : st) : st :=
  match inp s with
  | a :: c :: _ => if (a =? 63) && ((c =? 61) || (c =? 33)) then add_err 1 s else s
  | _ => s
  end.

(* scan (top = true) and the body of scanGroup after its look-ahead test
   (top = false).  The two Go loops differ only in what ')' and the end of the
   input mean. *)
Fixpoint loop (top : bool) (fuel : nat) (s : st) : option st :=
  match fuel with
  | O => None
  | S f =>
      match inp s with
      | [] => if top then Some s else Some (set_inv (add_err 4 s))
      | c :: _ =>
          if c =? 92 then loop top f (scan_escape false (read s))
          else if c =? 40 then
            match loop false f (la_check (pass s)) with
            | Some s' => loop top f s'
            | None => None
            end
          else if c =? 91 then
            match bracket_loop f (pass s) with
            | Some s' => loop top f s'
            | None => None
            end
          else if c =? 41 then
            (if top then loop top f (pass (set_inv (add_err 3 s))) else Some (pass s))
          else loop top f (pass s)
      end
  end.

Definition init (p : list Z) : st := mk p [] None false.

(* TransformRegExp: None = the model ran out of fuel (never: transform_total);
   otherwise (returned pattern, an error was returned) *)
Definition transform (p : list Z) : option (list Z * bool) :=
  match p with
  | [] => Some ([], false)
  | _ =>
      match loop true (S (length p)) (init p) with
      | None => None
      | Some s => Some ((if inv s then [] else out s), match err s with None => false | Some _ => true end)
      end
  end.

End Scan.

(* newRegExpObject flag loop: (global, ignoreCase, multiline, re2flags) or a
   SyntaxError (None) on a repeated g/i/m and on any other character *)
Fixpoint flags_loop (l : list Z) (g i m : bool) (re2 : list Z) : option (bool * bool * bool * list Z) :=
  match l with
  | [] => Some (g, i, m, re2)
  | c :: r =>
      if c =? 103 then (if g then None else flags_loop r true i m re2)
      else if c =? 109 then (if m then None else flags_loop r g i true (re2 ++ [109]))
      else if c =? 105 then (if i then None else flags_loop r g true m (re2 ++ [105]))
      else None
  end.
Definition parse_flags (l : list Z) := flags_loop l false false false [].

(* the pattern handed to regexp.Compile *)
Definition wrap_flags (re2flags pat : list Z) : list Z :=
  match re2flags with
  | [] => pat
  | _ => [40; 63] ++ re2flags ++ [58] ++ pat ++ [41]
  end.

(* newRegExpObject up to the call of regexp.Compile: the error class thrown
   (5 SyntaxError, 6 TypeError) or 0 when the translated pattern goes to the
   engine.  The flags are examined first; a pattern that TransformRegExp
   declares invalid (empty result with an error) is a SyntaxError, one that
   is valid JavaScript but has no engine spelling (look-ahead, back-reference)
   a TypeError.  99 = the model ran out of fuel (never: transform_total). *)
Definition ctor_class (idc : Z -> bool) (pat flags : list Z) : Z :=
  match parse_flags flags with
  | None => 5
  | Some _ =>
      match transform idc pat with
      | None => 99
      | Some ([], true) => 5
      | Some (_ :: _, true) => 6
      | Some (_, false) => 0
      end
  end.
