(* correspondence cases for C10: what the harness observed on the real
   interpreter against Model (otto's translation and protocol code over the Go
   engine's rules) and Spec (ES5 15.10 / 15.5.4.10-14). *)
From Coq Require Import ZArith Bool List.
From Otto Require Export Common.Corr C10.SpecSyntax C10.SpecMatch C10.SpecProto C10.ModelTransform C10.ModelProto.
Import ListNotations.
Open Scope Z_scope.

(* one call on the RegExp object under test (or with it as argument); after
   every op the harness also reads r.lastIndex *)
(* a value stored in lastIndex (it is a writable data property): what exec reads
   is ToInteger of it (15.10.6.2 step 5), what r.lastIndex shows is the value itself *)
Inductive lival :=
| LInt (z : Z)               (* an integral Number, |z| <= 2^53 *)
| LHalf (n : Z)              (* the Number n/2, n odd *)
| LNaN | LPosInf | LNegInf
| LStrInt (z : Z)            (* the String of decimal digits of z *)
| LStrNaN (s : list Z)       (* a String that is not a numeric literal *)
| LObj (z : Z).              (* an object whose valueOf reports the call ("VO") and returns z *)

Inductive op :=
| OSetLI (v : lival)                          (* r.lastIndex = v *)
| OExec (s : list Z)                          (* r.exec(s) *)
| OTest (s : list Z)                          (* r.test(s), then RegExp.$1..$9, $_, input *)
| OMatch (s : list Z)                         (* s.match(r) *)
| OSearch (s : list Z)                        (* s.search(r) *)
| OSplit (s : list Z) (lim : option Z)        (* s.split(r [, lim]); lim after ToUint32 *)
| OReplS (s : list Z) (repl : list Z)         (* s.replace(r, repl) *)
| OReplF (s : list Z) (ret : list Z)          (* s.replace(r, logging function returning ret + "<n>") *)
| OReplStr (s pat : list Z) (repl : rv)       (* s.replace(pat, text | logging function), pat a string *)
| OProps                                      (* r.source, r.global, r.ignoreCase, r.multiline, String(r), source of the next literal on the line *)
  (* a pattern argument that is not a RegExp object.  match and search build
     new RegExp(ToString(arg)) (15.5.4.10, 15.5.4.12): OMatchArg / OSearchArg pass the
     source of the tree under test (as a string, through toString of an object, as a
     one-element array), OMatchLit / OSearchLit a number, null, undefined or an array
     whose ToString is the given text of ordinary characters ([] for undefined).
     split takes ToString(arg) literally (15.5.4.14), None = undefined. *)
| OMatchArg (s : list Z)
| OSearchArg (s : list Z)
| OMatchLit (s txt : list Z)
| OSearchLit (s txt : list Z)
| OSplitStr (s : list Z) (sep : option (list Z)) (lim : option Z)
  (* a further RegExp object c is made from the current one r and kept:
     mode 0  new RegExp(r)      1  new RegExp(r, undefined)       (flags arguments ignored)
     mode 2  RegExp(r.source, flags)      3  new RegExp(r.source, flags)
     mode 4..9  the expression that made the first object (a literal, or a constructor
             call) evaluated again: in a function called again, in a closure created per
             call, in a loop body, by eval of its text, by a compiled Script run again,
             under new RegExp(...)                               (7.8.5, 11.1: a new object
             every time the literal is evaluated)
     then "c is none of the objects made before", c.source, c.global, c.ignoreCase,
     c.multiline, c.lastIndex, "the five are own properties of c" and "c has the
     expando property put on every earlier object" are observed; r stays current *)
| ONew (mode : Z) (g i m : bool)
  (* RegExp(r) === r, RegExp(r, undefined) === r, the error name of new RegExp(r, "g") *)
| OIdent
  (* the j-th object made so far (modulo their number) becomes the current one *)
| OSelect (j : nat).

Inductive case :=
  (* a tree of the portable subset, its flags, the pattern text the harness
     used, a call history, the ES5-visible observations, the legacy statics *)
| CSeq (r : re) (g i m : bool) (pat : list Z) (ops : list op) (obs leg : list ov)
  (* parser.TransformRegExp(pat) called directly: returned text, err != nil *)
| CTrans (pat out : list Z) (err : bool)
  (* a tree (possibly with look-ahead / back-references): TransformRegExp result
     and the error class of `new RegExp(pat)` / a literal *)
| CAst (r : re) (pat out : list Z) (err : bool) (cls : Z)
  (* constructor outcome on mutated input: kind 1 = malformed, caught by otto's
     scanner (SyntaxError); 2 = malformed, left to the engine; 3 = flags with an
     unknown or repeated letter (SyntaxError); 4 = [] / [^] (valid ES5, no engine spelling); 5 = malformed
     but meaningful to the engine (quantified assertion, (?i) (?P<n>..));
     6 = back-reference \10..\17 .. with that many groups (read as octal) *)
| CBad (kind : Z) (pat flags : list Z) (cls : Z).

Definition ov_eqb (a b : ov) : bool :=
  match a, b with
  | OZ x, OZ y => x =? y
  | OS x, OS y => zlist_eqb x y
  | OU, OU => true
  | ON, ON => true
  | OB x, OB y => Bool.eqb x y
  | _, _ => false
  end.
Definition lov_eqb := list_eqb ov_eqb.
Definition olov_eqb (a b : option (list ov)) : bool := option_eqb lov_eqb a b.

(* unicodeIDContinue on the non-ASCII characters the generators use *)
Definition idc_small (c : Z) : bool := (c =? 233) || (c =? 201) || (c =? 223).

(* ---------- call histories ---------- *)
Definition legacy0 : list ov := repeat OU 11.
Definition legacy_of (s : list Z) (c : caps) : list ov :=
  let strs := map (fun x => OS (cap_str s x)) (firstn 9 c) in
  strs ++ repeat (OS []) (9 - length strs) ++ [OS s; OS s].

(* one RegExp object: its flags and its lastIndex *)
Definition robj : Type := bool * bool * bool * lival.

Definition two63 : Z := 9223372036854775808.
Definition clamp64 (z : Z) : Z := if z >=? two63 then two63 - 1 else if z <=? - two63 then - two63 else z.
(* ToInteger (9.4), with the infinities at the ends of the int64 range (any index
   beyond the subject behaves alike); otto's Value.number().int64 is the same function *)
Definition li_int (v : lival) : Z :=
  match v with
  | LInt z => clamp64 z
  | LHalf n => Z.quot n 2
  | LNaN => 0
  | LPosInf => two63 - 1
  | LNegInf => - two63
  | LStrInt z => clamp64 z
  | LStrNaN _ => 0
  | LObj z => z
  end.
(* what reading r.lastIndex shows (the harness writes non-integral numbers as "NUM:..." ) *)
Definition li_ov (v : lival) : ov :=
  match v with
  | LInt z => OZ z
  | LHalf n => OS ([78; 85; 77; 58] ++ (if n <? 0 then [45] else []) ++ dec (Z.to_nat (Z.abs n / 2)) ++ [46; 53])
  | LNaN => OS [78; 85; 77; 58; 78; 97; 78]
  | LPosInf => OS [78; 85; 77; 58; 43; 73; 110; 102]
  | LNegInf => OS [78; 85; 77; 58; 45; 73; 110; 102]
  | LStrInt z => OS (if z <? 0 then 45 :: dec_fuel 25 (- z) [] else dec_fuel 25 z [])
  | LStrNaN s => OS s
  | LObj _ => OS [79; 66; 74; 58; 91; 111; 98; 106; 101; 99; 116; 32; 79; 98; 106; 101; 99; 116; 93]
  end.
(* ToNumber of an object calls its valueOf: the harness's valueOf pushes "VO" *)
Definition li_read (v : lival) : list ov := match v with LObj _ => [OS [86; 79]] | _ => [] end.

Definition lit_tree (txt : list Z) : re := fold_right (fun c t => RSeq (RCh (CLit c)) t) REmpty txt.

Section Run.
Variable spec_side : bool.       (* true: ES5 protocol; false: otto's *)
Variable eng : re -> bool -> bool -> list Z -> nat -> mres.   (* the matcher of a tree for ignoreCase, multiline *)
Variable r : re.
Variable dv : dev.
Variable pat : list Z.

Definition flag_text (g fi fm : bool) : list Z :=
  (if g then [103] else []) ++ (if fi then [105] else []) ++ (if fm then [109] else []).

Definition lim32 (l : option Z) : Z := match l with None => 4294967295 | Some x => x end.

(* one op on the current object (g, fi, fm, li): ES5-visible observations (without the
   trailing lastIndex), its new lastIndex, new legacy statics *)
Definition new_flags (first ob : robj) (mode : Z) (g' i' m' : bool) : bool * bool * bool :=
  let '(g, fi, fm, _) := ob in
  let '(g0, i0, m0, _) := first in
  if mode <? 2 then (g, fi, fm) else if mode <? 4 then (g', i', m') else (g0, i0, m0).

Definition do_op (first : robj) (o : op) (ob : robj) (leg : list ov) : option (list ov * lival * list ov) :=
  let '(g, fi, fm, lv) := ob in
  let li := li_int lv in
  let mt := eng r fi fm in
  let same (x : option (list ov * Z)) := match x with None => None | Some (a, _) => Some (a, lv, leg) end in
  let ex := if spec_side then exec_spec mt g else exec_model mt dv g in
  (* 15.10.6.2: lastIndex is read once (ToInteger), stored for a global expression and on failure *)
  let stored (m : option mtch) (l : Z) := if g then LInt l else match m with None => LInt l | Some _ => lv end in
  let fresh_ex (t : re) := if spec_side then exec_spec (eng t false false) false 0 else exec_model (eng t false false) dv false 0 in
  match o with
  | OSetLI v => Some ([], v, leg)
  | OExec s => match ex li s with None => None | Some (m, l) => Some (li_read lv ++ exec_obs s m, stored m l, leg) end
  | OTest s =>
      match ex li s with
      | None => None
      | Some (None, l) => Some (li_read lv ++ [OB false], stored None l, leg)
      | Some (Some (i, e, c), l) => Some (li_read lv ++ [OB true], stored (Some (i, e, c)) l, legacy_of s c)
      end
  | OMatch s =>
      if g then
        match (if spec_side then match_spec mt g li s else match_model mt dv g li s) with
        | None => None
        | Some (a, l) => Some (a, LInt l, leg)
        end
      else match ex li s with None => None | Some (m, l) => Some (li_read lv ++ exec_obs s m, stored m l, leg) end
  | OSearch s => same (if spec_side then search_spec mt li s else search_model mt dv li s)
  | OSplit s lim =>
      same (if spec_side then split_spec mt li s (lim32 lim)
            else split_model mt li s (lim32 lim) (match lim with None => false | _ => true end))
  | OReplS s rp =>
      match (if spec_side then replace_spec mt g li s (RText rp) else replace_model mt dv g li s (RText rp)) with
      | None => None
      | Some (a, l) =>
          let w := if spec_side then g else match lv with LInt _ => g | _ => replace_written mt dv g s end in
          Some (a, if w then LInt l else lv, leg)
      end
  | OReplF s ret =>
      match (if spec_side then replace_spec mt g li s (RFun ret) else replace_model mt dv g li s (RFun ret)) with
      | None => None
      | Some (a, l) =>
          let w := if spec_side then g else match lv with LInt _ => g | _ => replace_written mt dv g s end in
          Some (a, if w then LInt l else lv, leg)
      end
  | OReplStr s p rp =>
      match (if spec_side then replace_str expand_spec s p rp else replace_str_model dv s p rp) with
      | None => None
      | Some a => Some (a, lv, leg)
      end
  | OProps =>
      (* the last item is the source of a second literal, /\]\/[/]/, written on the same
         line right after the first one: the first literal must end where 7.8.5 says *)
      Some ([OS pat; OB g; OB fi; OB fm; OS ([47] ++ pat ++ [47] ++ flag_text g fi fm);
             OS [92; 93; 92; 47; 91; 47; 93]], lv, leg)
  | OMatchArg s => match fresh_ex r s with None => None | Some (m, _) => Some (exec_obs s m, lv, leg) end
  | OMatchLit s txt => match fresh_ex (lit_tree txt) s with None => None | Some (m, _) => Some (exec_obs s m, lv, leg) end
  | OSearchArg s => same (if spec_side then search_spec (eng r false false) 0 s else search_model (eng r false false) dv 0 s)
  | OSearchLit s txt =>
      same (if spec_side then search_spec (eng (lit_tree txt) false false) 0 s
            else search_model (eng (lit_tree txt) false false) dv 0 s)
  | OSplitStr s sep lim =>
      if spec_side then
        match split_str_spec s sep (lim32 lim) with None => None | Some a => Some (a, lv, leg) end
      else Some (split_str_model s sep (lim32 lim) (match lim with None => false | _ => true end), lv, leg)
  | ONew mode g' i' m' =>
      (* 15.10.4.1: a new object, lastIndex 0; from a RegExp argument it takes pattern and flags *)
      let '(g2, i2, m2) := new_flags first ob mode g' i' m' in
      Some ([OB true; OS pat; OB g2; OB i2; OB m2; OZ 0; OB true; OB false], lv, leg)
  | OIdent =>
      (* 15.10.3.1: RegExp(R) with flags undefined returns R; 15.10.4.1: flags with a RegExp is a TypeError *)
      Some ([OB true; OB true; OS [84; 121; 112; 101; 69; 114; 114; 111; 114]], lv, leg)
  | OSelect _ => Some ([], lv, leg)
  end.

Fixpoint set_obj (n : nat) (v : robj) (l : list robj) : list robj :=
  match l, n with
  | [], _ => []
  | _ :: t, O => v :: t
  | h :: t, S n' => h :: set_obj n' v t
  end.

Fixpoint do_ops (ops : list op) (objs : list robj) (cur : nat) (leg : list ov) (acc accl : list ov)
  : option (list ov * list ov) :=
  match ops with
  | [] => Some (acc, accl)
  | o :: rest =>
      let cur1 := match o with OSelect j => Nat.modulo j (length objs) | _ => cur end in
      let ob := nth cur1 objs (false, false, false, LInt 0) in
      match do_op (nth 0 objs (false, false, false, LInt 0)) o ob leg with
      | None => None
      | Some (a, li', leg') =>
          let '(g, fi, fm, _) := ob in
          let objs1 := set_obj cur1 (g, fi, fm, li') objs in
          let objs2 := match o with
                       | ONew mode g' i' m' =>
                           objs1 ++ [let '(g2, i2, m2) := new_flags (nth 0 objs (false, false, false, LInt 0)) ob mode g' i' m' in
                                     (g2, i2, m2, LInt 0)]
                       | _ => objs1
                       end in
          do_ops rest objs2 cur1 leg' (acc ++ a ++ [li_ov li'])
                 (match o with OTest _ => accl ++ leg' | _ => accl end)
      end
  end.
End Run.

Definition engine (sm : sem) (fl : mflags) (r : re) : list Z -> nat -> mres :=
  fun s i => match_at sm fl s (default_fuel r s) r i.

(* the configurations between ES5 (k = 0) and otto (k = 9): deviations 1..k switched on *)
Definition cfg_sem (k : Z) : sem := mkSem (negb (1 <=? k)) (negb (2 <=? k)) (negb (3 <=? k)).
Definition cfg_dev (k : Z) : dev := mkDev (4 <=? k) (5 <=? k) (6 <=? k) (7 <=? k) (9 <=? k).

Definition run_sd (sm : sem) (dv : dev) (r : re) (g i m : bool) (ops : list op) : option (list ov * list ov) :=
  do_ops false (fun t fi fm => engine sm (mkFlags fi fm) t) r dv (print_js r) ops [(g, i, m, LInt 0)] 0 legacy0 [] [].
Definition run_cfg (k : Z) := run_sd (cfg_sem k) (cfg_dev k).
Definition run_otto := run_cfg 9.
Definition run_es5 (r : re) (g i m : bool) (ops : list op) : option (list ov * list ov) :=
  do_ops true (fun t fi fm => engine es5 (mkFlags fi fm) t) r all_off (print_js r) ops [(g, i, m, LInt 0)] 0 legacy0 [] [].

(* finding classes 1..9 = the first deviation that, switched on cumulatively, makes the
   outcome differ from ES5:
   1 captures not reset per iteration   2 empty iterations of quantified atoms
   3 engine character tables (\s . ^ $) 4 lastIndex cut is a string start
   5 byte offsets in lastIndex / search 6 empty match adjacent to a match
   7 global match/replace lastIndex and undefined           9 $10
   constructor outcomes: 12 [] and [^] rejected, 13 malformed patterns accepted,
   14 two-digit back-reference translated as an octal escape
   (8 "".split(re), 10 TypeError for a malformed pattern and 11 unknown flags
   accepted were repaired in /repo: a84f554, ef38bfe, 784edea; the model has the
   repaired code, so their return is a violation, not a known deviation) *)
Fixpoint first_class (n : nat) (k : Z) (r : re) (g i m : bool) (ops : list op) (spec : list ov) : Z :=
  match n with
  | O => 90
  | S n' =>
      match run_cfg k r g i m ops with
      | Some (o, _) => if lov_eqb o spec then first_class n' (k + 1) r g i m ops spec else k
      | None => k
      end
  end.

(* the harness marks a thrown exception as "EXC:name" and a failed run as "FAIL:class" *)
Definition is_exc (o : ov) : bool :=
  match o with
  | OS (69 :: 88 :: 67 :: 58 :: _) => true
  | OS (70 :: 65 :: 73 :: 76 :: 58 :: _) => true
  | _ => false
  end.

Definition pair_eqb (a b : list Z * bool) : bool := zlist_eqb (fst a) (fst b) && Bool.eqb (snd a) (snd b).
Definition nz (z : Z) : Z := if z =? 0 then 0 else 1.

Definition verdict (c : case) : Z * Z :=
  match c with
  | CSeq r g i m pat ops obs leg =>
      if negb (zlist_eqb (print_js r) pat) then (3, 98)
      else if negb (wf r && supported r) then (3, 97)
      else
        match run_otto r g i m ops, run_es5 r g i m ops with
        | Some (mo, ml), Some (so, _) =>
            if negb (lov_eqb leg ml) then (3, 96)
            else if lov_eqb mo so then judge lov_eqb obs mo so 0
            else
              judge lov_eqb obs mo so (first_class 9 1 r g i m ops so)
        | _, _ =>
            (* outside the modelled / ES5-defined domain: only an exception or a Go panic is judged *)
            if existsb is_exc obs then (3, 94) else declined
        end
  | CTrans pat out err =>
      match transform idc_small pat with
      | None => (3, 95)
      | Some (mo, me) => judge pair_eqb (out, err) (mo, me) (mo, me) 0
      end
  | CAst r pat out err cls =>
      if negb (zlist_eqb (print_js r) pat) then (3, 98)
      else if negb (wf r) then (3, 97)
      else
        match transform idc_small pat with
        | None => (3, 95)
        | Some (mo, me) =>
            (* ES5-level expectation: the engine spelling without error for the subset,
               an error (whatever text comes with it) for the unsupported constructs *)
            let spec := if supported r then (print_re2 r, false, 0) else (mo, true, 1) in
            judge (fun a b => pair_eqb (fst a) (fst b) && (snd a =? snd b))
                  (out, err, nz cls) (mo, me, if me then 1 else 0) spec 0
        end
  | CBad kind pat flags cls =>
      (* ctor_class = newRegExpObject up to regexp.Compile; when the pattern reaches the
         engine (0) the engine rejects the malformed kinds 1, 2, 4 and accepts kinds 5, 6 *)
      let model :=
        match ctor_class idc_small pat flags with
        | 0 => if (kind =? 5) || (kind =? 6) then 0 else 5
        | c => c
        end in
      (* kind 6: the property asks for the error otto gives for every other back-reference *)
      let spec := if kind =? 4 then 0 else if kind =? 6 then 6 else 5 in
      judge Z.eqb cls model spec (if kind =? 4 then 12 else if kind =? 5 then 13
                                  else if kind =? 6 then 14 else 90)
  end.
