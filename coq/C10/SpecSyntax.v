(* Abstract syntax of the portable subset of ES5 15.10.1 patterns (plus the two
   constructs otto must reject: look-ahead and back-references), the ES5
   surface syntax [print_js] and the engine (Go regexp / RE2) syntax
   [print_re2] of every tree, and the well-formedness predicate [wf] under
   which [print_js r] is the ES5 spelling of exactly the tree [r]. *)
From Coq Require Import ZArith List Bool Lia.
Import ListNotations.
Open Scope Z_scope.

(* one pattern character and the way it is written *)
Inductive chspec :=
| CLit (c : Z)                (* the character itself *)
| CIdEsc (c : Z)              (* \c for a punctuation character: IdentityEscape *)
| CCtl (k : Z)                (* \f \n \r \t \v, k the letter: ControlEscape *)
| CHex (h1 h2 : Z)            (* \xHH, the two digit characters *)
| CUni (h1 h2 h3 h4 : Z)      (* \uHHHH *)
| CCx (l : Z).                (* \cX, l the letter: ControlLetter *)

Inductive citem :=
| CI1 (c : chspec)
| CIRange (lo hi : chspec)
| CIEsc (k : Z)               (* \d \D \w \W \s \S inside a class *)
| CIBs.                       (* \b inside a class: backspace *)

Inductive quant :=
| QStar | QPlus | QOpt
| QN (n : nat)                (* {n}  *)
| QNInf (n : nat)             (* {n,} *)
| QNM (n m : nat).            (* {n,m} *)

Inductive re :=
| REmpty
| RCh (c : chspec)
| RDot
| REscCls (k : Z)             (* \d \D \w \W \s \S *)
| RClass (neg : bool) (items : list citem)
| RBol | REol | RWordB | RNWordB
| RGroup (r : re)             (* ( ... )   capturing *)
| RNcGroup (r : re)           (* (?: ... ) *)
| RLook (neg : bool) (r : re) (* (?= ... ) (?! ... ) : not supported by the engine *)
| RBackref (n : Z)            (* \1 .. \9 : not supported by the engine *)
| RSeq (a b : re)
| RAlt (a b : re)
| RQuant (a : re) (q : quant) (greedy : bool).

(* ---------- character values ---------- *)
Definition hexval (c : Z) : Z :=
  if (48 <=? c) && (c <=? 57) then c - 48
  else if (97 <=? c) && (c <=? 102) then c - 87
  else if (65 <=? c) && (c <=? 70) then c - 55
  else 0.
Definition is_hex (c : Z) : bool :=
  ((48 <=? c) && (c <=? 57)) || ((97 <=? c) && (c <=? 102)) || ((65 <=? c) && (c <=? 70)).
Definition is_letter (c : Z) : bool := ((97 <=? c) && (c <=? 122)) || ((65 <=? c) && (c <=? 90)).

Definition ctl_val (k : Z) : Z :=
  if k =? 102 then 12 else if k =? 110 then 10 else if k =? 114 then 13
  else if k =? 116 then 9 else 11.

(* 15.10.2.10 CharacterEscape evaluation *)
Definition ch_val (c : chspec) : Z :=
  match c with
  | CLit c => c
  | CIdEsc c => c
  | CCtl k => ctl_val k
  | CHex a b => 16 * hexval a + hexval b
  | CUni a b c d => 4096 * hexval a + 256 * hexval b + 16 * hexval c + hexval d
  | CCx l => l mod 32
  end.

(* ---------- decimal numbers of quantifiers ---------- *)
Fixpoint dec_fuel (fuel : nat) (n : Z) (acc : list Z) : list Z :=
  match fuel with
  | O => acc
  | S f => if n <? 10 then (48 + n) :: acc else dec_fuel f (n / 10) ((48 + n mod 10) :: acc)
  end.
Definition dec (n : nat) : list Z := dec_fuel 20 (Z.of_nat n) [].

Definition print_quant (q : quant) (greedy : bool) : list Z :=
  (match q with
   | QStar => [42] | QPlus => [43] | QOpt => [63]
   | QN n => [123] ++ dec n ++ [125]
   | QNInf n => [123] ++ dec n ++ [44; 125]
   | QNM n m => [123] ++ dec n ++ [44] ++ dec m ++ [125]
   end) ++ (if greedy then [] else [63]).

(* ---------- ES5 surface syntax ---------- *)
Definition js_ch (c : chspec) : list Z :=
  match c with
  | CLit c => [c]
  | CIdEsc c => [92; c]
  | CCtl k => [92; k]
  | CHex a b => [92; 120; a; b]
  | CUni a b c d => [92; 117; a; b; c; d]
  | CCx l => [92; 99; l]
  end.

Definition js_item (i : citem) : list Z :=
  match i with
  | CI1 c => js_ch c
  | CIRange lo hi => js_ch lo ++ [45] ++ js_ch hi
  | CIEsc k => [92; k]
  | CIBs => [92; 98]
  end.

Fixpoint print_js (r : re) : list Z :=
  match r with
  | REmpty => []
  | RCh c => js_ch c
  | RDot => [46]
  | REscCls k => [92; k]
  | RClass neg items => [91] ++ (if neg then [94] else []) ++ flat_map js_item items ++ [93]
  | RBol => [94]
  | REol => [36]
  | RWordB => [92; 98]
  | RNWordB => [92; 66]
  | RGroup r => [40] ++ print_js r ++ [41]
  | RNcGroup r => [40; 63; 58] ++ print_js r ++ [41]
  | RLook neg r => [40; 63; (if neg then 33 else 61)] ++ print_js r ++ [41]
  | RBackref n => [92; 48 + n]
  | RSeq a b => print_js a ++ print_js b
  | RAlt a b => print_js a ++ [124] ++ print_js b
  | RQuant a q g => print_js a ++ print_quant q g
  end.

(* ---------- engine (RE2) syntax ---------- *)
Definition hexd_lower (d : Z) : Z := if d <? 10 then 48 + d else 87 + d.

Definition re2_ch (c : chspec) : list Z :=
  match c with
  | CLit c => [c]
  | CIdEsc c => [92; c]
  | CCtl k => [92; k]
  | CHex a b => [92; 120; a; b]
  | CUni a b c d => [92; 120; 123; a; b; c; d; 125]       (* \x{HHHH} *)
  | CCx l => [92; 120; hexd_lower ((l mod 32) / 16); hexd_lower ((l mod 32) mod 16)]  (* \xHH *)
  end.

Definition re2_item (i : citem) : list Z :=
  match i with
  | CI1 c => re2_ch c
  | CIRange lo hi => re2_ch lo ++ [45] ++ re2_ch hi
  | CIEsc k => [92; k]
  | CIBs => [92; 120; 48; 56]                              (* \x08 *)
  end.

(* for the two unsupported constructs this is what otto writes before it
   reports the error (the JavaScript spelling, passed through) *)
Fixpoint print_re2 (r : re) : list Z :=
  match r with
  | REmpty => []
  | RCh c => re2_ch c
  | RDot => [46]
  | REscCls k => [92; k]
  | RClass neg items => [91] ++ (if neg then [94] else []) ++ flat_map re2_item items ++ [93]
  | RBol => [94]
  | REol => [36]
  | RWordB => [92; 98]
  | RNWordB => [92; 66]
  | RGroup r => [40] ++ print_re2 r ++ [41]
  | RNcGroup r => [40; 63; 58] ++ print_re2 r ++ [41]
  | RLook neg r => [40; 63; (if neg then 33 else 61)] ++ print_re2 r ++ [41]
  | RBackref n => [92; 48 + n]
  | RSeq a b => print_re2 a ++ print_re2 b
  | RAlt a b => print_re2 a ++ [124] ++ print_re2 b
  | RQuant a q g => print_re2 a ++ print_quant q g
  end.

(* ---------- well-formedness ---------- *)
(* characters with a syntactic role at pattern level: ^ $ \ . * + ? ( ) [ ] { } | / *)
Definition is_syntax (c : Z) : bool :=
  (c =? 94) || (c =? 36) || (c =? 92) || (c =? 46) || (c =? 42) || (c =? 43) || (c =? 63) ||
  (c =? 40) || (c =? 41) || (c =? 91) || (c =? 93) || (c =? 123) || (c =? 125) || (c =? 124) || (c =? 47).
Definition is_line_term (c : Z) : bool := (c =? 10) || (c =? 13) || (c =? 8232) || (c =? 8233).

(* a character that may be written raw outside a class *)
Definition lit_ok (c : Z) : bool :=
  (32 <=? c) && (c <? 55296) && negb (is_syntax c) && negb (is_line_term c).
(* ... and raw inside a class: additionally not - (range operator; ^ [ ] \ are excluded by
   lit_ok); / may stand raw inside a class, also in a literal (7.8.5 RegularExpressionClassChar) *)
Definition clit_ok (c : Z) : bool := (lit_ok c || (c =? 47) || (c =? 91)) && negb (c =? 45).
(* [ is an ordinary ClassAtom (15.10.1: classes do not nest), also in a literal;
   only "[:" is kept out of the subset: the engine reads it as the opener of a
   POSIX bracket expression *)
Fixpoint has_posix_opener (l : list Z) : bool :=
  match l with
  | a :: ((b :: _) as t) => ((a =? 91) && (b =? 58)) || has_posix_opener t
  | _ => false
  end.
(* punctuation that is written with an identity escape *)
Definition idesc_ok (c : Z) : bool := is_syntax c || (c =? 45).
Definition ctl_ok (k : Z) : bool := (k =? 102) || (k =? 110) || (k =? 114) || (k =? 116) || (k =? 118).
Definition esccls_ok (k : Z) : bool :=
  (k =? 100) || (k =? 68) || (k =? 119) || (k =? 87) || (k =? 115) || (k =? 83).

Definition wf_ch (in_class : bool) (c : chspec) : bool :=
  match c with
  | CLit c => if in_class then clit_ok c else lit_ok c
  | CIdEsc c => idesc_ok c
  | CCtl k => ctl_ok k
  | CHex a b => is_hex a && is_hex b
  | CUni a b c d => is_hex a && is_hex b && is_hex c && is_hex d
  | CCx l => is_letter l
  end.

Definition wf_item (i : citem) : bool :=
  match i with
  | CI1 c => wf_ch true c
  | CIRange lo hi => wf_ch true lo && wf_ch true hi && (ch_val lo <=? ch_val hi)
  | CIEsc k => esccls_ok k
  | CIBs => true
  end.

(* Atom of 15.10.1 (what a quantifier may follow) *)
Definition is_atom (r : re) : bool :=
  match r with
  | RCh _ | RDot | REscCls _ | RClass _ _ | RGroup _ | RNcGroup _ | RBackref _ => true
  | _ => false
  end.
Definition is_alt (r : re) : bool := match r with RAlt _ _ => true | _ => false end.

Definition quant_ok (q : quant) : bool :=
  match q with QNM n m => (n <=? m)%nat | _ => true end.

(* does the tree end in a back-reference (whose digits a following digit would extend) *)
Fixpoint ends_backref (r : re) : bool :=
  match r with
  | RBackref _ => true
  | RSeq a b => match print_js b with [] => ends_backref a | _ => ends_backref b end
  | RAlt a b => match print_js b with [] => false | _ => ends_backref b end
  | _ => false
  end.
Definition starts_digit (l : list Z) : bool :=
  match l with c :: _ => (48 <=? c) && (c <=? 57) | [] => false end.

Fixpoint wf (r : re) : bool :=
  match r with
  | REmpty | RDot | RBol | REol | RWordB | RNWordB => true
  | RCh c => wf_ch false c
  | REscCls k => esccls_ok k
  | RClass _ items => forallb wf_item items && negb (match items with [] => true | _ => false end) &&
                      negb (has_posix_opener (flat_map js_item items))
  | RGroup r | RNcGroup r | RLook _ r => wf r
  | RBackref n => (1 <=? n) && (n <=? 9)
  | RSeq a b => wf a && wf b && negb (is_alt a) && negb (is_alt b) &&
                negb (ends_backref a && starts_digit (print_js b))
  | RAlt a b => wf a && wf b
  | RQuant a q _ => wf a && is_atom a && quant_ok q
  end.

(* the portable subset: no look-ahead, no back-reference *)
Fixpoint supported (r : re) : bool :=
  match r with
  | RLook _ _ | RBackref _ => false
  | RGroup r | RNcGroup r => supported r
  | RSeq a b | RAlt a b => supported a && supported b
  | RQuant a _ _ => supported a
  | _ => true
  end.

(* number of capturing groups (left parentheses) *)
Fixpoint ngroups (r : re) : nat :=
  match r with
  | RGroup r => S (ngroups r)
  | RNcGroup r | RLook _ r => ngroups r
  | RSeq a b | RAlt a b => (ngroups a + ngroups b)%nat
  | RQuant a _ _ => ngroups a
  | _ => O
  end.
