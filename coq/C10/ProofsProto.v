(* Theorems about the exec / lastIndex protocol (15.10.6.2) for an arbitrary
   matcher, and about where otto's execRegExp agrees with it. *)
From Coq Require Import ZArith List Bool Lia.
From Otto Require Import C10.SpecSyntax C10.SpecMatch C10.SpecProto C10.ModelProto.
Import ListNotations.
Open Scope Z_scope.

Section P.
Variable mt : list Z -> nat -> mres.

Lemma find_from_spec : forall s n i j z, find_from mt s i n = Some (j, z) ->
  (i <= j <= i + n)%nat /\ mt s j = z /\ z <> MFail.
Proof.
  intros s; induction n; intros i j z H; simpl in H.
  - destruct (mt s i) eqn:E; inversion H; subst; (split; [lia|]); split; auto; discriminate.
  - destruct (mt s i) eqn:E.
    + apply IHn in H as (A & B & C). split; [lia|]. split; assumption.
    + inversion H; subst. split; [lia|]. split; auto. discriminate.
    + inversion H; subst. split; [lia|]. split; auto. discriminate.
Qed.

(* 15.10.6.2 on a non-global expression: lastIndex is not read; a failure
   writes 0, a success leaves it alone *)
Theorem exec_nonglobal_lastindex : forall li s m li',
  exec_spec mt false li s = Some (m, li') ->
  (m = None -> li' = 0) /\ (m <> None -> li' = li) /\
  (forall li2, exists l2, exec_spec mt false li2 s = Some (m, l2)).
Proof.
  intros li s m li' H. unfold exec_spec in *.
  assert (Z0 : (0 <? 0) || (0 >? zlen s) = false).
  { unfold zlen. apply Bool.orb_false_iff. split; [reflexivity|]. rewrite Z.gtb_ltb. apply Z.ltb_ge. lia. }
  rewrite Z0 in *.
  destruct (find_from mt s (Z.to_nat 0) (length s - Z.to_nat 0)) as [[i [| e c |]]|] eqn:E;
    inversion H; subst; (split; [|split]); try congruence; intros; eexists; reflexivity.
Qed.

(* ... on a global expression: the search starts at lastIndex, a success
   stores the end index (which is not before lastIndex), a failure stores 0 *)
Theorem exec_global_lastindex : forall li s m li',
  exec_spec mt true li s = Some (m, li') ->
  match m with
  | None => li' = 0
  | Some (i, e, _) => li' = Z.of_nat e /\ 0 <= li <= Z.of_nat i /\ Z.of_nat i <= zlen s /\
                      exists c, mt s i = MOk e c
  end.
Proof.
  intros li s m li' H. unfold exec_spec in H.
  destruct ((li <? 0) || (li >? zlen s)) eqn:B. { inversion H; reflexivity. }
  apply Bool.orb_false_iff in B as [B1 B2]. apply Z.ltb_ge in B1. rewrite Z.gtb_ltb in B2. apply Z.ltb_ge in B2.
  unfold zlen in *.
  destruct (find_from mt s (Z.to_nat li) (length s - Z.to_nat li)) as [[i [| e c |]]|] eqn:E;
    inversion H; subst; try reflexivity.
  apply find_from_spec in E as (A & Bm & _). split; [reflexivity|]. split; [lia|]. split; [lia|]. eauto.
Qed.

(* histories: any sequence of exec calls on a global expression, each with its own subject *)
Fixpoint exec_seq (g : bool) (li : Z) (ss : list (list Z)) : option Z :=
  match ss with
  | [] => Some li
  | s :: rest =>
      match exec_spec mt g li s with
      | None => None
      | Some (_, li') => exec_seq g li' rest
      end
  end.

Section Sound.
(* the matcher contract of 15.10.2: an end index lies between the start and the end of input *)
Hypothesis mt_sound : forall s i e c, mt s i = MOk e c -> (i <= e <= length s)%nat.

Theorem exec_seq_lastindex_in_range : forall ss li s li',
  exec_seq true li (ss ++ [s]) = Some li' -> 0 <= li' <= zlen s.
Proof.
  induction ss as [|s0 ss IH]; intros li s li' H; simpl in H.
  - destruct (exec_spec mt true li s) as [[m l]|] eqn:E; [|discriminate].
    inversion H; subst. apply exec_global_lastindex in E. destruct m as [[[i e] c]|].
    + destruct E as (-> & _ & _ & c' & Hm). apply mt_sound in Hm. unfold zlen. lia.
    + subst. unfold zlen. lia.
  - destruct (exec_spec mt true li s0) as [[m l]|]; [|discriminate]. eapply IH; exact H.
Qed.

(* the idiom `while (m = r.exec(s))`: if the pattern has no empty match, the
   loop ends after at most length+1 successful calls, with lastIndex back at 0 *)
Fixpoint exec_loop (n : nat) (li : Z) (s : list Z) : option (nat * Z) :=
  match n with
  | O => None
  | S n' =>
      match exec_spec mt true li s with
      | None => None
      | Some (None, l) => Some (O, l)
      | Some (Some _, l) => option_map (fun p => (S (fst p), snd p)) (exec_loop n' l s)
      end
  end.

Hypothesis mt_total : forall s i, mt s i <> MFuel.
Hypothesis mt_progress : forall s i e c, mt s i = MOk e c -> (i < e)%nat.

Lemma exec_spec_total : forall g li s, exec_spec mt g li s <> None.
Proof.
  intros g li s. unfold exec_spec.
  destruct ((_ <? 0) || _); [discriminate|].
  destruct (find_from mt s _ _) as [[i [| e c |]]|] eqn:E; try discriminate.
  - apply find_from_spec in E as (_ & _ & C). congruence.
  - apply find_from_spec in E as (_ & B & _). apply mt_total in B. contradiction.
Qed.

Theorem exec_loop_terminates : forall s n li, 0 <= li -> Z.max 0 (zlen s - li + 1) < Z.of_nat n ->
  exists k, exec_loop n li s = Some (k, 0) /\ Z.of_nat k <= Z.max 0 (zlen s - li + 1).
Proof.
  intros s; induction n; intros li H0 Hn; [lia|].
  simpl. destruct (exec_spec mt true li s) as [[m l]|] eqn:E; [|exfalso; eapply exec_spec_total; exact E].
  pose proof (exec_global_lastindex _ _ _ _ E) as G. destruct m as [[[i e] c]|].
  - destruct G as (-> & Hli & Hi & c' & Hm).
    pose proof (mt_progress _ _ _ _ Hm). pose proof (mt_sound _ _ _ _ Hm). unfold zlen in *.
    destruct (IHn (Z.of_nat e)) as (k & Hk & Hb); [lia|lia|].
    rewrite Hk. simpl. exists (S k). split; [reflexivity|]. lia.
  - subst. exists O. split; [reflexivity|]. lia.
Qed.
End Sound.

(* ---------- otto's execRegExp against 15.10.6.2 ---------- *)
Lemma shift0 : forall c, shift 0 c = c.
Proof.
  induction c as [|x c IH]; [reflexivity|]. unfold shift in *. cbn [map]. rewrite IH.
  destruct x as [[a b]|]; reflexivity.
Qed.

(* whenever the search starts at the beginning of the subject (a non-global
   expression, or lastIndex = 0) the two agree on the match; they agree on the
   stored lastIndex as well when the subject is ASCII *)
Definition ascii (s : list Z) : Prop := Forall (fun c => c < 128) s.

Lemma boff_ascii : forall s p, ascii s -> boff s p = Z.of_nat (Nat.min p (length s)).
Proof.
  unfold boff. induction s as [|c s IH]; intros p H.
  - destruct p; reflexivity.
  - inversion H; subst. destruct p; [reflexivity|]. cbn [firstn blen].
    rewrite IH by assumption. unfold wid. destruct (Z.ltb_spec c 128); [|lia].
    cbn [length Nat.min]. lia.
Qed.

Lemma pos_of_byte_0 : forall s p, pos_of_byte s 0 p = Some p.
Proof. destruct s; reflexivity. Qed.

Theorem exec_model_at_start : forall g li s,
  (g = false \/ li = 0) -> ascii s ->
  (forall i e c, mt s i = MOk e c -> (e <= length s)%nat) ->
  exec_model mt all_on g li s = exec_spec mt g li s.
Proof.
  intros g li s Hg Ha Hs. unfold exec_model, exec_spec, slen, pos_of, find_at, off. cbn [d_bytes d_slice all_on].
  assert (Hi : (if g then li else 0) = 0) by (destruct g, Hg; congruence). rewrite Hi.
  assert (Hb : blen s = zlen s).
  { pose proof (boff_ascii s (length s) Ha) as B. unfold boff in B. rewrite firstn_all in B.
    rewrite B. unfold zlen. rewrite Nat.min_id. reflexivity. }
  rewrite Hb. destruct ((0 <? 0) || (0 >? zlen s)); [reflexivity|].
  rewrite pos_of_byte_0. cbn [skipn Z.to_nat]. rewrite Nat.sub_0_r.
  destruct (find_from mt s 0 (length s)) as [[i [| e c |]]|] eqn:E; try reflexivity.
  rewrite shift0. cbn [Nat.add].
  apply find_from_spec in E as (_ & Hm & _). apply Hs in Hm.
  rewrite (boff_ascii s e Ha), (boff_ascii s 0 Ha). rewrite Nat.min_l by lia. cbn [Nat.min Z.of_nat].
  destruct g; [|reflexivity]. destruct Hg as [Hg|Hg]; [discriminate|]. subst li. f_equal. f_equal. lia.
Qed.


(* ---------- split: the limit bounds the result, lastIndex is untouched ---------- *)
Lemma llen_snoc : forall (a : list ov) x, llen (a ++ [x]) = llen a + 1.
Proof. intros. unfold llen. rewrite app_length. simpl. lia. Qed.

Lemma push_caps_bound : forall s c a lim a' full, llen a < lim ->
  push_caps s c a lim = (a', full) -> llen a' <= lim /\ (full = false -> llen a' < lim).
Proof.
  intros s; induction c as [|x c IH]; intros a lim a' full Ha H; simpl in H.
  - inversion H; subst. split; [lia|auto].
  - destruct (llen (a ++ [cap_ov s x]) =? lim) eqn:E.
    + inversion H; subst. apply Z.eqb_eq in E. split; [lia|discriminate].
    + apply Z.eqb_neq in E. rewrite llen_snoc in E. eapply IH; [|exact H]. rewrite llen_snoc. lia.
Qed.

Lemma split_loop_bound : forall s fuel p q a lim r, llen a < lim ->
  split_loop mt fuel s p q a lim = Some r -> llen r <= lim.
Proof.
  intros s; induction fuel; intros p q a lim r Ha H; [discriminate|]. simpl in H.
  destruct (q <? length s)%nat.
  - destruct (mt s q) as [| e c |]; [eapply IHfuel; eauto | | discriminate].
    destruct (e =? p)%nat; [eapply IHfuel; eauto|].
    destruct (llen (a ++ [OS (sub s p q)]) =? lim) eqn:E.
    + inversion H; subst. apply Z.eqb_eq in E. lia.
    + apply Z.eqb_neq in E. rewrite llen_snoc in E.
      destruct (push_caps s c (a ++ [OS (sub s p q)]) lim) as [a2 full] eqn:P.
      apply push_caps_bound in P as [P1 P2]; [|rewrite llen_snoc; lia].
      destruct full; [inversion H; subst; exact P1|].
      eapply IHfuel; [|exact H]. auto.
  - inversion H; subst. rewrite llen_snoc. lia.
Qed.

Theorem split_limit : forall li s lim obs li',
  split_spec mt li s lim = Some (obs, li') ->
  li' = li /\ exists a, obs = OZ (llen a) :: a /\ (0 <= lim -> llen a <= Z.max lim 1 /\ (0 < lim -> llen a <= lim)).
Proof.
  intros li s lim obs li' H. unfold split_spec in H.
  destruct (lim =? 0) eqn:L0.
  { inversion H; subst. split; [reflexivity|]. exists []. split; [reflexivity|]. unfold llen; simpl. lia. }
  apply Z.eqb_neq in L0.
  destruct s as [|c s].
  - destruct (mt [] 0%nat); inversion H; subst; (split; [reflexivity|]); eexists; (split; [reflexivity|]);
      unfold llen; simpl; lia.
  - destruct (split_loop mt (2 * length (c :: s) + 3) (c :: s) 0 0 [] lim) as [a|] eqn:E; [|discriminate].
    inversion H; subst. split; [reflexivity|]. exists a. split; [reflexivity|]. intro Hl.
    assert (llen a <= lim) by (eapply split_loop_bound; [|exact E]; unfold llen; simpl; lia). lia.
Qed.


(* otto's split on the empty subject is 15.5.4.14 step 11 (repaired in /repo a84f554):
   [] when the separator matches the empty string, [""] otherwise, for any engine *)
Theorem split_empty_subject : forall li lim given,
  (given = false -> lim <> 0) ->
  split_model mt li [] lim given = split_spec mt li [] lim.
Proof.
  intros li lim given H. unfold split_model, split_spec.
  destruct given; cbn [andb].
  - destruct (lim =? 0); reflexivity.
  - destruct (Z.eqb_spec lim 0) as [E|E]; [exfalso; exact (H eq_refl E)|]. reflexivity.
Qed.


(* 15.5.4.11: what a function replaceValue returns is inserted as it is, whatever
   $-patterns it contains (table 22 applies to a string replaceValue only) *)
Theorem replace_fun_verbatim : forall li s ret i e c l,
  exec_spec mt false 0 s = Some (Some (i, e, c), l) ->
  replace_spec mt false li s (RFun ret) =
    Some (OS (sub s 0 i ++ fn_repl ret c ++ skipn e s) :: fn_log s (i, e, c), li).
Proof.
  intros li s ret i e c l H. unfold replace_spec. rewrite H. cbn [build snd flat_map].
  rewrite ?app_nil_r. reflexivity.
Qed.

End P.
