(* Model of otto's protocol code on top of the Go engine:
     type_regexp.go   execRegExp, execResultToArray
     builtin_regexp.go builtinRegExpExec/Test (with the RegExp.$1..$9, $_, input bookkeeping)
     builtin_string.go builtinStringMatch/Replace/Search/Split,
                       builtinStringFindAndReplaceString
   parametrised by the engine [mt subject index] (leftmost-first match at an
   index; FindStringSubmatchIndex & co. are "first index where it matches").

   otto keeps the subject as a UTF-8 Go string and works with BYTE offsets; the
   model keeps the list of characters (BMP, so characters = UTF-16 units) and
   converts with [boff] exactly where a byte offset becomes observable or is
   read back (lastIndex, the result of search).

   Every place where the code departs from ES5 is guarded by a switch of [dev],
   so that [run_model all_on] is otto and switching everything off gives the
   ES5 protocol; the switches are only used to attribute a disagreement to one
   of the listed findings (Corr.v):
     d_slice    execRegExp matches on target[lastIndex:] as a string of its own
                (^ and \b see the cut as the start of input)
     d_bytes    lastIndex / search() are byte offsets of the UTF-8 form
     d_adjacent Go's FindAll drops an empty match adjacent to the previous match
     d_gproto   global match/replace: undefined instead of null, lastIndex left
                at the end of the last match (not reset to 0)
     d_dollar   "$10" is "$1" followed by "0" even when there are >= 10 captures *)
From Coq Require Import ZArith List Bool Lia.
From Otto Require Import C10.SpecSyntax C10.SpecMatch C10.SpecProto.
Import ListNotations.
Open Scope Z_scope.

Record dev := mkDev { d_slice : bool; d_bytes : bool; d_adjacent : bool; d_gproto : bool;
                      d_dollar : bool }.
Definition all_on : dev := mkDev true true true true true.
Definition all_off : dev := mkDev false false false false false.

(* UTF-8 width of a BMP character *)
Definition wid (c : Z) : Z := if c <? 128 then 1 else if c <? 2048 then 2 else 3.
Fixpoint blen (s : list Z) : Z := match s with [] => 0 | c :: r => wid c + blen r end.
(* byte offset of character position p *)
Definition boff (s : list Z) (p : nat) : Z := blen (firstn p s).
(* character position of byte offset b; None inside a character or beyond the end *)
Fixpoint pos_of_byte (s : list Z) (b : Z) (p : nat) : option nat :=
  if b =? 0 then Some p
  else if b <? 0 then None
  else match s with [] => None | c :: r => pos_of_byte r (b - wid c) (S p) end.

Section Proto.
Variable mt : list Z -> nat -> mres.
Variable dv : dev.

Definition off (s : list Z) (p : nat) : Z := if d_bytes dv then boff s p else Z.of_nat p.
Definition slen (s : list Z) : Z := if d_bytes dv then blen s else zlen s.
Definition pos_of (s : list Z) (b : Z) : option nat :=
  if d_bytes dv then pos_of_byte s b O else Some (Z.to_nat b).

Definition shift (p : nat) (c : caps) : caps :=
  map (fun x => match x with None => None | Some (a, b) => Some (p + a, p + b)%nat end) c.

(* regexp.FindStringSubmatchIndex on the text that starts at position p:
   with d_slice the text is a string of its own *)
Definition find_at (s : list Z) (p : nat) : option (nat * mres) :=
  if d_slice dv then
    match find_from mt (skipn p s) 0 (length s - p) with
    | Some (i, MOk e c) => Some ((p + i)%nat, MOk (p + e)%nat (shift p c))
    | z => z
    end
  else find_from mt s p (length s - p).

(* execRegExp: (result, new lastIndex) *)
Definition exec_model (g : bool) (li : Z) (s : list Z) : option (option mtch * Z) :=
  let index := if g then li else 0 in
  if (index <? 0) || (index >? slen s) then Some (None, 0)
  else
    match pos_of s index with
    | None => None                      (* lastIndex inside a UTF-8 sequence: not modelled *)
    | Some p =>
        match find_at s p with
        | None => Some (None, 0)
        | Some (i, MOk e c) =>
            (* endIndex := lastIndex + result[1]; stored only if global *)
            Some (Some (i, e, c), if g then li + (off s e - off s p) else li)
        | Some _ => None
        end
    end.

(* Regexp.allMatches of Go: pos, prevMatchEnd; n < 0 = all *)
Fixpoint go_all (fuel : nat) (s : list Z) (pos : nat) (prev : option nat) (n : Z) (acc : list mtch) : option (list mtch) :=
  match fuel with
  | O => None
  | S f =>
      if (n =? 0) || (length s <? pos)%nat then Some (rev acc)
      else
        match find_from mt s pos (length s - pos) with
        | None => Some (rev acc)
        | Some (i, MOk e c) =>
            let empty_at_pos := (e =? pos)%nat in
            let accept := negb (empty_at_pos && match prev with Some pe => (i =? pe)%nat | None => false end) in
            let pos' := if empty_at_pos then S pos else e in
            if accept then go_all f s pos' (Some e) (n - 1) ((i, e, c) :: acc)
            else go_all f s pos' (Some e) n acc
        | Some _ => None
        end
  end.

Definition find_all (s : list Z) (n : Z) : option (list mtch) :=
  if d_adjacent dv then go_all (2 * length s + 4) s O None n []
  else if n =? 1 then
    match exec_spec mt false 0 s with
    | None => None
    | Some (None, _) => Some []
    | Some (Some m, _) => Some [m]
    end
  else all_matches_es5 mt s.

Definition last_end (ms : list mtch) : nat :=
  match rev ms with (_, e, _) :: _ => e | [] => O end.

(* builtinStringMatch *)
Definition match_model (g : bool) (li : Z) (s : list Z) : option (list ov * Z) :=
  if negb g then
    match exec_model false li s with
    | None => None
    | Some (m, li') => Some (exec_obs s m, li')
    end
  else
    match find_all s (-1) with
    | None => None
    | Some [] => Some ([if d_gproto dv then OU else ON], 0)
    | Some ms =>
        Some (OZ (llen ms) :: map (fun m : mtch => let '(i, e, _) := m in OS (sub s i e)) ms,
              if d_gproto dv then off s (last_end ms) else 0)
    end.

(* builtinStringFindAndReplaceString with builtinStringReplaceRegexp
   \$(?:[\$\&\'\`1-9]|0[1-9]|[1-9][0-9]) : leftmost-first, so the third
   alternative is never taken *)
Fixpoint expand_otto (repl : list Z) (s : list Z) (mm : mtch) : list Z :=
  let '(i, e, c) := mm in
  let capn (n : Z) := if n >=? llen c + 1 then [] else cap_str s (nth (Z.to_nat (n - 1)) c None) in
  match repl with
  | [] => []
  | 36 :: rest =>
      match rest with
      | 36 :: r => 36 :: expand_otto r s mm
      | 38 :: r => sub s i e ++ expand_otto r s mm
      | 96 :: r => sub s 0 i ++ expand_otto r s mm
      | 39 :: r => skipn e s ++ expand_otto r s mm
      | d1 :: r =>
          if (49 <=? d1) && (d1 <=? 57) then capn (d1 - 48) ++ expand_otto r s mm
          else if d1 =? 48 then
            match r with
            | d2 :: r2 => if (49 <=? d2) && (d2 <=? 57) then capn (d2 - 48) ++ expand_otto r2 s mm
                          else 36 :: expand_otto rest s mm
            | [] => 36 :: expand_otto rest s mm
            end
          else 36 :: expand_otto rest s mm
      | [] => [36]
      end
  | x :: r => x :: expand_otto r s mm
  end.

(* builtinStringReplace *)
Definition replace_model (g : bool) (li : Z) (s : list Z) (repl : rv) : option (list ov * Z) :=
  match find_all s (if g then -1 else 1) with
  | None => None
  | Some [] => Some ([OS s], if g && negb (d_gproto dv) then 0 else li)
  | Some ms =>
      let expand := match repl with
                    | RText rp => if d_dollar dv then (fun m => Some (expand_otto rp s m)) else (fun m => expand_spec rp s m)
                    | RFun ret => fun m : mtch => Some (fn_repl ret (snd m))
                    end in
      match build expand s 0 ms with
      | None => None
      | Some res =>
          let log := match repl with RText _ => [] | RFun _ => flat_map (fn_log s) ms end in
          Some (OS res :: log, if g then (if d_gproto dv then off s (last_end ms) else 0) else li)
      end
  end.

(* builtinStringReplace with a searchValue that is not a RegExp: regexp.QuoteMeta of the
   string, first match; the same expansion code as for a RegExp *)
Definition replace_str_model (s pat : list Z) (repl : rv) : option (list ov) :=
  replace_str (fun rp s m => if d_dollar dv then Some (expand_otto rp s m) else expand_spec rp s m) s pat repl.

(* builtinStringSearch: result[0] of FindStringIndex *)
Definition search_model (li : Z) (s : list Z) : option (list ov * Z) :=
  match find_from mt s 0 (length s) with
  | None => Some ([OZ (-1)], li)
  | Some (i, MOk _ _) => Some ([OZ (off s i)], li)
  | Some _ => None
  end.

(* builtinStringSplit, regular-expression branch; limit = -1 when undefined *)
Fixpoint split_caps (s : list Z) (c : caps) (a : list ov) (found limit : Z) : list ov * Z * bool :=
  match c with
  | [] => (a, found, false)
  | x :: c' =>
      let a' := a ++ [cap_ov s x] in
      if found + 1 =? limit then (a', found + 1, true) else split_caps s c' a' (found + 1) limit
  end.

Fixpoint split_matches (s : list Z) (ms : list mtch) (last : nat) (a : list ov) (found limit : Z) : list ov :=
  match ms with
  | [] =>
      if found =? limit then a else a ++ [OS (skipn last s)]
  | (i, e, c) :: rest =>
      if (i =? e)%nat && ((i =? 0)%nat || (i =? length s)%nat) then split_matches s rest last a found limit
      else
        let a1 := a ++ [OS (sub s last i)] in
        let found1 := found + 1 in
        if found1 =? limit then a1
        else
          let '(a2, found2, full) := split_caps s c a1 found1 limit in
          if full then a2 else split_matches s rest e a2 found2 limit
  end.

Definition split_model (li : Z) (s : list Z) (lim : Z) (lim_given : bool) : option (list ov * Z) :=
  let arr :=
    if lim_given && (lim =? 0) then Some []
    else if match s with [] => true | _ => false end then
      (* targetLength == 0: [] if search.MatchString(""), else the general path gives [""] *)
      match mt s O with MFuel => None | MFail => Some [OS s] | MOk _ _ => Some [] end
    else
      match go_all (2 * length s + 4) s O None (-1) [] with
      | None => None
      | Some ms => Some (split_matches s ms O [] 0 (if lim_given then lim else -1))
      end in
  match arr with
  | None => None
  | Some a => Some (OZ (llen a) :: a, li)
  end.


(* does builtinStringReplace store lastIndex?  only for a global expression; with
   d_gproto (the code) not when nothing matched *)
Definition replace_written (g : bool) (s : list Z) : bool :=
  g && (negb (d_gproto dv) || match find_all s (-1) with Some [] => false | _ => true end).

End Proto.

(* builtinStringSplit, string branch: strings.SplitN(target, separator, limit+1) cut to
   limit; SplitN with "" explodes into characters.  sep = None: separator undefined *)
Fixpoint gsplit (fuel : nat) (sep s : list Z) : list (list Z) :=
  match fuel with
  | O => [s]
  | S f =>
      match find_lit sep s O with
      | None => [s]
      | Some i => firstn i s :: gsplit f sep (skipn (i + length sep) s)
      end
  end.
Definition go_split (sep s : list Z) : list (list Z) :=
  match sep with
  | [] => map (fun c => [c]) s
  | _ => gsplit (S (length s)) sep s
  end.
Definition split_str_model (s : list Z) (sep : option (list Z)) (lim : Z) (lim_given : bool) : list ov :=
  let arr :=
    if lim_given && (lim =? 0) then []
    else match sep with
         | None => [OS s]
         | Some sp =>
             let full := map OS (go_split sp s) in
             if lim_given && (lim <? llen full) then firstn (Z.to_nat lim) full else full
         end in
  OZ (llen arr) :: arr.
