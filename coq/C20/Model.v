(* C20: N runtimes as N disjoint heaps plus a shared part.

   Layer 1 (Section Interleave): an arbitrary machine whose global state is
   observed through [shared] and [heap i]; [gstep i] is one step of runtime i.
   Locality = a step of runtime i leaves the shared part and every other heap
   alone, and its effect on heap i and its observation depend only on the
   shared part and heap i.

   Layer 2 (the table-conforming machine): the shared part is a store of named
   locations (package-level variables and fields of frozen types, named as in
   the fact table); a step of runtime i is ANY function of the shared store and
   heap i that returns a list of stores and an observation.  A step can, by
   its type, not see the heap of another runtime: newContext/clone build every
   runtime's object graph from fresh allocations (C17 covers clone), so the
   only channel between runtimes is the shared part.  [conforming]: a store to
   a shared location happens only where the fact table has a site that the
   audit does not accept (Go code can store to a package-level variable or to
   a field only through a store site in the source text). *)
From Coq Require Import String List ZArith Bool Relations RelationClasses Morphisms.
From Otto Require Import C20.Facts C20.Audit.
Import ListNotations.
Open Scope Z_scope.

Section Interleave.
  Variables G Sh Hp Ob : Type.
  Variable eqS : Sh -> Sh -> Prop.
  Variable eqH : Hp -> Hp -> Prop.
  Variable shared : G -> Sh.
  Variable heap : nat -> G -> Hp.
  Variable gstep : nat -> G -> G * Ob.

  Record local : Prop := {
    frame_shared : forall i g, eqS (shared (fst (gstep i g))) (shared g);
    frame_heap : forall i j g, j <> i -> eqH (heap j (fst (gstep i g))) (heap j g);
    dep_heap : forall i g g', eqS (shared g) (shared g') -> eqH (heap i g) (heap i g') ->
                 eqH (heap i (fst (gstep i g))) (heap i (fst (gstep i g')));
    dep_obs : forall i g g', eqS (shared g) (shared g') -> eqH (heap i g) (heap i g') ->
                 snd (gstep i g) = snd (gstep i g')
  }.

  (* run a schedule (the runtime that moves at each instant); the trace tags
     every observation with the runtime that made it *)
  Fixpoint run (sched : list nat) (g : G) : G * list (nat * Ob) :=
    match sched with
    | [] => (g, [])
    | i :: rest =>
        let r := gstep i g in
        let r2 := run rest (fst r) in
        (fst r2, (i, snd r) :: snd r2)
    end.

  (* what runtime i observed *)
  Fixpoint proj (i : nat) (tr : list (nat * Ob)) : list Ob :=
    match tr with
    | [] => []
    | (j, o) :: tr' => if Nat.eqb j i then o :: proj i tr' else proj i tr'
    end.

  (* runtime i running alone for n steps *)
  Definition solo (i n : nat) (g : G) : G * list (nat * Ob) := run (repeat i n) g.

  Definition steps_of (i : nat) (sched : list nat) : nat := count_occ Nat.eq_dec sched i.
End Interleave.

Arguments run {G Ob} gstep sched g.
Arguments proj {Ob} i tr.
Arguments solo {G Ob} gstep i n g.
Arguments local {G Sh Hp Ob} eqS eqH shared heap gstep.

(* ---- layer 2 ---- *)

Definition sstore := string -> Z.          (* shared locations, named as in the fact table *)
Definition hstore := Z -> Z.               (* one runtime's heap *)
Record gstate := mkG { g_sh : sstore; g_hp : nat -> hstore }.

Inductive wtarget := WOwn (a : Z) | WShared (w : string).

(* the code of a runtime: reads the shared store and its own heap *)
Definition behaviour := nat -> sstore -> hstore -> list (wtarget * Z) * Z.

Definition upd_s (s : sstore) (w : string) (v : Z) : sstore := fun x => if String.eqb x w then v else s x.
Definition upd_h (h : hstore) (a : Z) (v : Z) : hstore := fun x => if Z.eqb x a then v else h x.

Fixpoint apply_writes (i : nat) (ws : list (wtarget * Z)) (g : gstate) : gstate :=
  match ws with
  | [] => g
  | (WOwn a, v) :: ws' =>
      apply_writes i ws' (mkG (g_sh g) (fun j => if Nat.eqb j i then upd_h (g_hp g j) a v else g_hp g j))
  | (WShared w, v) :: ws' => apply_writes i ws' (mkG (upd_s (g_sh g) w v) (g_hp g))
  end.

Definition cstep (beh : behaviour) (i : nat) (g : gstate) : gstate * Z :=
  let r := beh i (g_sh g) (g_hp g i) in (apply_writes i (fst r) g, snd r).

Definition eq_s (a b : sstore) : Prop := forall w, a w = b w.
Definition eq_h (a b : hstore) : Prop := forall x, a x = b x.

(* the shared locations that the source text can store to while scripts run,
   according to a fact table: entries with a site the audit rejects *)
Definition runtime_writable (vars : list var_entry) (fields : list field_entry) (w : string) : bool :=
  existsb (fun v => String.eqb (v_name v) w && negb (var_ok v)) vars ||
  existsb (fun f => String.eqb (f_type f ++ "." ++ f_name f) w && negb (field_ok f)) fields.

(* code that respects the table, and whose reads are extensional *)
Record conforming (vars : list var_entry) (fields : list field_entry) (beh : behaviour) : Prop := {
  conf_writes : forall i s h w v, In (WShared w, v) (fst (beh i s h)) -> runtime_writable vars fields w = true;
  conf_ext : forall i s s' h h', eq_s s s' -> eq_h h h' -> beh i s h = beh i s' h'
}.

(* executing a compiled program: the program text lives in the shared store
   (fields of otto.node* / otto.Script); one execution = k steps of runtime i
   from a given heap *)
Definition with_heap (g : gstate) (i : nat) (h : hstore) : gstate :=
  mkG (g_sh g) (fun j => if Nat.eqb j i then h else g_hp g j).

Definition execute (beh : behaviour) (i k : nat) (h0 : hstore) (g : gstate) : list Z :=
  proj i (snd (solo (cstep beh) i k (with_heap g i h0))).

(* two behaviours used by the non-vacuity examples of Properties/C20.v: one that
   only touches its own heap (and reads a shared location), one that stores to a
   shared location *)
Definition beh_counter : behaviour :=
  fun i s h => ([(WOwn 0, h 0 + 1)], h 0 + s "otto.scriptVersion"%string).
Definition beh_bad : behaviour :=
  fun i s h => ([(WShared "otto.scriptVersion"%string, 1)], 0).
