(* correspondence cases for C20: what the -race harness observed when it ran
   generated program sets on several runtimes from several goroutines,
   against the sequential baseline of the same programs.

   The "model" of a concurrent run is Theorem C20_interleaving_independent:
   whatever the schedule, the projection of the global trace to runtime i is
   the trace runtime i produces alone.  The verdict therefore projects the
   observed global trace (ordered by completion time) with Model.proj and
   compares with the observed sequential traces; a report of the race
   detector (or any abnormal end of the racing child process) is a violation
   by itself. *)
From Coq Require Import ZArith Bool List.
From Otto Require Import Common.Corr C20.Model.
Import ListNotations.
Open Scope Z_scope.

(* one result: the UTF-16 units of its text (head), total length and a hash *)
Definition result := list Z.

Inductive case :=
| CRun (mode : Z)                       (* origin*3 + sharing, 9 = family with per-Otto settings; see harness/cmd/c20_race *)
       (n : Z)                          (* number of traces (runtimes, plus the template probe when copying) *)
       (seqt : list (list result))      (* trace of each runtime running alone *)
       (conc : list (Z * result))       (* global trace of the concurrent run: (runtime, result) by completion time *)
       (abnormal : list Z)              (* [] = race detector silent and child ended normally; else [exit code] *)
(* pinned witness of a recorded finding, run sequentially: what otto answered, the answer the
   model predicts (for an open finding: the recorded deviation; for a fixed one, kept as a regression
   case: the required answer) and the answer independence of runtimes requires *)
| CPin (class : Z) (obs deviating required : result).

Definition res_eqb : result -> result -> bool := zlist_eqb.
Definition trace_eqb := list_eqb res_eqb.
Definition traces_eqb := list_eqb trace_eqb.

Definition tagged (conc : list (Z * result)) : list (nat * result) :=
  map (fun p => (Z.to_nat (fst p), snd p)) conc.

Definition projections (n : Z) (conc : list (Z * result)) : list (list result) :=
  map (fun i => proj i (tagged conc)) (seq 0 (Z.to_nat n)).

Definition in_range (n : Z) (conc : list (Z * result)) : bool :=
  forallb (fun p => (0 <=? fst p) && (fst p <? n)) conc.

(* class 20: race report / abnormal end; class 21: per-runtime trace differs from its sequential trace;
   class 22: malformed observation (a result attributed to a runtime that does not exist) *)
Definition verdict (c : case) : Z * Z :=
  match c with
  | CRun mode n seqt conc abnormal =>
      match abnormal with
      | _ :: _ => (3, 20)
      | [] =>
          if negb (in_range n conc) || negb (Z.of_nat (length seqt) =? n) then (3, 22)
          else judge traces_eqb (projections n conc) seqt seqt 21
      end
  | CPin class obs deviating required => judge res_eqb obs deviating required class
  end.
