(* C20: vocabulary of the fact table that harness/cmd/sharedfacts regenerates
   from the Go sources of the tree under check (coq/C20/Shared.v).

   A [site] is one place in the source text that stores to a package-level
   variable or struct field, takes its address, calls a method on it, or lets
   a reference to it escape into other data.  The translator reports every
   site; which sites are harmless is decided here in Coq (C20/Audit.v). *)
From Coq Require Import String List ZArith Bool.
Import ListNotations.
Open Scope string_scope.

Inductive site_kind :=
| KAssign      (* v = e, v op= e, v, x = ..., range with v as loop variable; for fields: x.f = e *)
| KIncDec      (* v++ / v-- *)
| KElem        (* store into v: v[i] = e, v.f = e, *v = e, delete(v,k), copy(v,..), clear(v) *)
| KAppend      (* append(v, ...): may store into v's backing array *)
| KAddr        (* &v, &v.f, v[i:j] of an array *)
| KMethodPtr   (* v.m() with pointer receiver on addressable v (implicit &v) *)
| KMethodCall  (* v.m() on a package-level pointer/map/slice/interface: may mutate the referent *)
| KEscape.     (* v (a pointer, map, slice or channel) used as a plain value: an alias is made;
                  for a field: the slice/map/pointer it holds is handed to a function outside the six packages *)

Record site := mkSite {
  s_kind : site_kind;
  s_func : string;     (* enclosing function, "pkg.(*T).m"; "pkg.<decl v>" for an initialiser *)
  s_file : string;     (* path relative to the repository root *)
  s_line : Z;
  s_init : bool;       (* executes during package initialisation (init() body or initialiser,
                          not inside a function literal created there) *)
  s_detail : string    (* operator, callee or context *)
}.

Record var_entry := mkVar {
  v_name : string;     (* "pkg.name" *)
  v_type : string;
  v_ref : bool;        (* values of the type carry references *)
  v_file : string;
  v_line : Z;
  v_sites : list site
}.

Record field_entry := mkField {
  f_type : string;     (* "pkg.Type" *)
  f_name : string;
  f_ftype : string;
  f_file : string;
  f_line : Z;
  f_sites : list site
}.

Definition kind_eqb (a b : site_kind) : bool :=
  match a, b with
  | KAssign, KAssign | KIncDec, KIncDec | KElem, KElem | KAppend, KAppend
  | KAddr, KAddr | KMethodPtr, KMethodPtr | KMethodCall, KMethodCall | KEscape, KEscape => true
  | _, _ => false
  end.

Definition is_store (k : site_kind) : bool :=
  match k with KAssign | KIncDec | KElem | KAppend => true | _ => false end.

(* every mention (call or method value) of a function that contains a store or
   alias site on a package-level variable or on a field of a type shared
   between runtimes *)
Record call_edge := mkCall {
  c_callee : string;
  c_caller : string;
  c_file : string;
  c_line : Z;
  c_init : bool
}.

(* a stored shallow copy of a struct value whose type carries references
   (`out := *o`, `x := o` for a struct-valued o, `&o` of a by-value parameter or
   receiver): the copy aliases whatever the reference-typed fields of the
   original point to (channels, maps, slices, pointers) *)
Record copy_site := mkCopy {
  k_type : string;     (* "pkg.Type" of the copied value *)
  k_func : string;
  k_file : string;
  k_line : Z;
  k_detail : string
}.

(* how a copying function of the root package (runtime.clone, Otto.Copy, Otto.clone)
   fills one field of the runtime / Otto value it builds *)
Record clone_field := mkCloneField {
  cf_type : string;    (* "otto.runtime" or "otto.Otto" *)
  cf_field : string;
  cf_ftype : string;
  cf_ref : bool;       (* the field holds a pointer, map, slice, channel or interface (not a func) *)
  cf_how : string;     (* "cloned": through the cloner / a clone method; "verbatim": read from the receiver as it is;
                          "fresh": literal, local or new allocation; "zero": not mentioned *)
  cf_func : string;
  cf_file : string;
  cf_line : Z
}.

(* a native function body (a Go func literal taking an otto.FunctionCall) that refers to a variable
   of the function that created it, holding an object, runtime or Otto handle.  clone copies the
   payload of a native function object as it is, so in a copy the closure still sees the TEMPLATE's
   object / runtime. *)
Record native_closure := mkClosure {
  nc_func : string;    (* function that creates the closure *)
  nc_file : string;
  nc_line : Z;
  nc_var : string;     (* captured variable *)
  nc_type : string;    (* its type: a pointer to otto.object, otto.runtime, otto.Otto, a stash or a scope *)
  nc_usage : string    (* strongest use inside the closure: "read" (field reads only) < "escape" < "call" < "store" *)
}.
