(* C20: otto's cloner (clone.go) over an abstract object graph.

   A heap is a list of objects, an address is a position in it.  An object is
   the list of its slots (prototype, property values, getter/setter pairs,
   bound-function targets, stash links ... uniformly): a slot either refers to
   another object ([VRef]) or holds something clone copies verbatim ([VPrim]:
   numbers, strings, native Go functions, and the pointer to the compiled
   node of a function - the audit of C20/Audit.v is what makes sharing the
   latter harmless).

   (c *cloner) object(in):  if the memo table has [in], return its image;
   otherwise allocate the image FIRST (so that cycles terminate), record it in
   the memo table, then clone the slots one by one.  [clone_obj] is that
   algorithm with explicit fuel; the new objects are appended to [dst], whose
   position k stands for the fresh address [base + k]. *)
From Coq Require Import List ZArith Arith Bool.
Import ListNotations.

Definition addr := nat.
Inductive value := VPrim (z : Z) | VRef (a : addr).
Definition obj := list value.
Definition heap := list obj.

Record cstate := mkC { memo : list (addr * addr); dst : list obj }.

Fixpoint lookup (a : addr) (m : list (addr * addr)) : option addr :=
  match m with
  | [] => None
  | (x, y) :: m' => if Nat.eqb x a then Some y else lookup a m'
  end.

Fixpoint set_nth {A} (l : list A) (k : nat) (x : A) : list A :=
  match l, k with
  | [], _ => []
  | _ :: l', O => x :: l'
  | y :: l', S k' => y :: set_nth l' k' x
  end.

(* the slots of one object, left to right; [rec] clones a referenced object *)
Fixpoint clone_vals (rec : addr -> cstate -> option (addr * cstate)) (vs : list value) (st : cstate)
  : option (list value * cstate) :=
  match vs with
  | [] => Some ([], st)
  | VPrim z :: r =>
      match clone_vals rec r st with
      | Some (r', st') => Some (VPrim z :: r', st')
      | None => None
      end
  | VRef a :: r =>
      match rec a st with
      | Some (a', st1) =>
          match clone_vals rec r st1 with
          | Some (r', st2) => Some (VRef a' :: r', st2)
          | None => None
          end
      | None => None
      end
  end.

Definition clone_step (rec : addr -> cstate -> option (addr * cstate)) (src : heap) (base : nat)
           (a : addr) (st : cstate) : option (addr * cstate) :=
  match lookup a (memo st) with
  | Some a' => Some (a', st)
  | None =>
      let k := length (dst st) in
      let st1 := mkC ((a, base + k) :: memo st) (dst st ++ [[]]) in
      match clone_vals rec (nth a src []) st1 with
      | Some (vs, st2) => Some (base + k, mkC (memo st2) (set_nth (dst st2) k vs))
      | None => None
      end
  end.

Fixpoint clone_obj (fuel : nat) (src : heap) (base : nat) : addr -> cstate -> option (addr * cstate) :=
  match fuel with
  | O => fun _ _ => None
  | S f => clone_step (clone_obj f src base) src base
  end.

(* (rt *runtime) clone: a fresh cloner, the roots (global object, the 32 entries
   of rt.global, ...) cloned in order *)
Definition clone_roots (fuel : nat) (src : heap) (base : nat) (roots : list addr) : option (list value * cstate) :=
  clone_vals (clone_obj fuel src base) (map VRef roots) (mkC [] []).

(* every reference stored in the objects [os] lies in the region [lo, hi) *)
Definition refs_within (lo hi : nat) (o : obj) : Prop :=
  forall b, In (VRef b) o -> lo <= b < hi.
Definition region_closed (lo : nat) (os : list obj) : Prop :=
  forall o, In o os -> refs_within lo (lo + length os) o.
