(* C20: proofs.  Layer 1 by induction on the schedule; layer 2 reduces the
   table-conforming machine to layer 1, given that the audit accepts the
   regenerated fact table (checked by vm_compute over the whole table). *)
From Coq Require Import String List ZArith Bool Arith Lia RelationClasses.
From Otto Require Import C20.Facts C20.Audit C20.Model C20.Shared.
Import ListNotations.

Section InterleaveProofs.
  Variables G Sh Hp Ob : Type.
  Variable eqS : Sh -> Sh -> Prop.
  Variable eqH : Hp -> Hp -> Prop.
  Context {eqS_equiv : Equivalence eqS} {eqH_equiv : Equivalence eqH}.
  Variable shared : G -> Sh.
  Variable heap : nat -> G -> Hp.
  Variable gstep : nat -> G -> G * Ob.
  Hypothesis L : local eqS eqH shared heap gstep.

  Notation run := (run gstep).
  Notation solo := (solo gstep).

  Lemma steps_of_cons_same : forall i s, steps_of i (i :: s) = S (steps_of i s).
  Proof. intros; unfold steps_of; simpl. destruct (Nat.eq_dec i i); congruence. Qed.
  Lemma steps_of_cons_other : forall i j s, j <> i -> steps_of i (j :: s) = steps_of i s.
  Proof. intros; unfold steps_of; simpl. destruct (Nat.eq_dec j i); congruence. Qed.
  Lemma steps_of_repeat : forall i n, steps_of i (repeat i n) = n.
  Proof. induction n; [reflexivity|]. cbn [repeat]. rewrite steps_of_cons_same. rewrite IHn. reflexivity. Qed.

  (* the simulation: runtime i cannot tell the interleaved run from g apart
     from running alone from any g' that agrees with g on shared and heap i *)
  Lemma run_sim : forall sched i g g',
    eqS (shared g) (shared g') -> eqH (heap i g) (heap i g') ->
    proj i (snd (run sched g)) = proj i (snd (solo i (steps_of i sched) g')) /\
    eqS (shared (fst (run sched g))) (shared (fst (solo i (steps_of i sched) g'))) /\
    eqH (heap i (fst (run sched g))) (heap i (fst (solo i (steps_of i sched) g'))).
  Proof.
    destruct L as [FS FH DH DO].
    induction sched as [|j rest IH]; intros i g g' ES EH.
    - unfold Model.solo; simpl. auto.
    - destruct (Nat.eq_dec j i) as [->|NE].
      + rewrite steps_of_cons_same. unfold Model.solo in *. simpl.
        rewrite Nat.eqb_refl.
        assert (ES1 : eqS (shared (fst (gstep i g))) (shared (fst (gstep i g')))).
        { etransitivity; [apply FS|]. etransitivity; [exact ES|]. symmetry; apply FS. }
        pose proof (DH i g g' ES EH) as EH1.
        pose proof (DO i g g' ES EH) as EO.
        destruct (IH i _ _ ES1 EH1) as (P & S' & H').
        rewrite EO, P. auto.
      + rewrite (steps_of_cons_other i j rest NE). simpl.
        assert (Nat.eqb j i = false) as -> by (apply Nat.eqb_neq; exact NE).
        apply IH.
        * etransitivity; [apply FS | exact ES].
        * etransitivity; [apply FH; congruence | exact EH].
  Qed.

  Lemma solo_shared : forall i n g, eqS (shared (fst (solo i n g))) (shared g).
  Proof.
    destruct L as [FS _ _ _]. unfold Model.solo.
    induction n; intro g; simpl; [reflexivity|].
    etransitivity; [apply IHn | apply FS].
  Qed.

  Theorem interleaving_independent : forall sched g i,
    proj i (snd (run sched g)) = proj i (snd (solo i (steps_of i sched) g)) /\
    eqH (heap i (fst (run sched g))) (heap i (fst (solo i (steps_of i sched) g))) /\
    eqS (shared (fst (run sched g))) (shared g).
  Proof.
    intros. destruct (run_sim sched i g g) as (P & S' & H'); try reflexivity.
    repeat split; auto. etransitivity; [exact S' | apply solo_shared].
  Qed.

  (* alone, everything in the trace is runtime i's *)
  Lemma solo_proj_all : forall i n g, proj i (snd (solo i n g)) = map snd (snd (solo i n g)).
  Proof.
    unfold Model.solo. induction n; intro g; simpl; auto.
    rewrite Nat.eqb_refl. f_equal. apply IHn.
  Qed.

  (* whatever the interleaving: two schedules that give every runtime the same
     number of steps are indistinguishable for every runtime *)
  Theorem schedule_irrelevant : forall s1 s2 g,
    (forall i, steps_of i s1 = steps_of i s2) ->
    forall i, proj i (snd (run s1 g)) = proj i (snd (run s2 g)) /\
              eqH (heap i (fst (run s1 g))) (heap i (fst (run s2 g))) /\
              eqS (shared (fst (run s1 g))) (shared (fst (run s2 g))).
  Proof.
    intros s1 s2 g E i.
    destruct (interleaving_independent s1 g i) as (P1 & H1 & S1).
    destruct (interleaving_independent s2 g i) as (P2 & H2 & S2).
    rewrite (E i) in *. repeat split.
    - congruence.
    - etransitivity; [exact H1 | symmetry; exact H2].
    - etransitivity; [exact S1 | symmetry; exact S2].
  Qed.

  (* adjacent steps of different runtimes commute *)
  Theorem adjacent_steps_commute : forall i j g, i <> j ->
    let a := run [i; j] g in
    let b := run [j; i] g in
    eqS (shared (fst a)) (shared (fst b)) /\
    (forall k, eqH (heap k (fst a)) (heap k (fst b))) /\
    snd (gstep i g) = snd (gstep i (fst (gstep j g))) /\
    snd (gstep j g) = snd (gstep j (fst (gstep i g))).
  Proof.
    intros i j g NE a b. subst a b. simpl.
    destruct L as [FS FH DH DO].
    assert (Sj : eqS (shared g) (shared (fst (gstep j g)))) by (symmetry; apply FS).
    assert (Si : eqS (shared g) (shared (fst (gstep i g)))) by (symmetry; apply FS).
    assert (Hij : eqH (heap i g) (heap i (fst (gstep j g)))) by (symmetry; apply FH; congruence).
    assert (Hji : eqH (heap j g) (heap j (fst (gstep i g)))) by (symmetry; apply FH; congruence).
    repeat split.
    - etransitivity; [apply FS|]. etransitivity; [apply FS|]. etransitivity; [exact Sj|]. symmetry. apply FS.
    - intro k. destruct (Nat.eq_dec k i) as [->|Ki]; [|destruct (Nat.eq_dec k j) as [->|Kj]].
      + etransitivity; [apply FH; congruence|]. apply DH; assumption.
      + etransitivity; [symmetry; apply DH; eassumption|]. symmetry. apply FH. congruence.
      + etransitivity; [apply FH; assumption|]. etransitivity; [apply FH; assumption|].
        symmetry. etransitivity; [apply FH; assumption|]. apply FH; assumption.
    - apply DO; assumption.
    - apply DO; assumption.
  Qed.
End InterleaveProofs.

(* ---- layer 2: the table-conforming machine is local ---- *)

Global Instance eq_s_equiv : Equivalence eq_s.
Proof. split; red; unfold eq_s; intros; congruence. Qed.
Global Instance eq_h_equiv : Equivalence eq_h.
Proof. split; red; unfold eq_h; intros; congruence. Qed.

Definition c_shared (g : gstate) : sstore := g_sh g.
Definition c_heap (i : nat) (g : gstate) : hstore := g_hp g i.

Definition own_only (ws : list (wtarget * Z)) : Prop :=
  forall t v, In (t, v) ws -> exists a, t = WOwn a.

Lemma audit_no_writable : forall vars fields calls copies cfields closures,
  audit vars fields calls copies cfields closures = true -> forall w, runtime_writable vars fields w = false.
Proof.
  intros vars fields calls copies cfields closures A w. unfold audit in A.
  apply andb_prop in A as [A _]. apply andb_prop in A as [A _]. apply andb_prop in A as [A _]. apply andb_prop in A as [A _]. apply andb_prop in A as [A _]. apply andb_prop in A as [AV AF].
  unfold runtime_writable. apply orb_false_intro.
  - rewrite forallb_forall in AV.
    destruct (existsb _ vars) eqn:E; auto. apply existsb_exists in E as (v & IN & H).
    apply andb_prop in H as [_ H]. rewrite (AV v IN) in H. discriminate.
  - rewrite forallb_forall in AF.
    destruct (existsb _ fields) eqn:E; auto. apply existsb_exists in E as (f & IN & H).
    apply andb_prop in H as [_ H]. rewrite (AF f IN) in H. discriminate.
Qed.

Lemma conforming_own_only : forall vars fields calls copies cfields closures beh,
  audit vars fields calls copies cfields closures = true -> conforming vars fields beh ->
  forall i s h, own_only (fst (beh i s h)).
Proof.
  intros vars fields calls copies cfields closures beh A [CW _] i s h t v IN.
  destruct t as [a|w]; [eauto|].
  apply CW in IN. rewrite (audit_no_writable _ _ _ _ _ _ A) in IN. discriminate.
Qed.

Lemma apply_own_shared : forall i ws g, own_only ws -> g_sh (apply_writes i ws g) = g_sh g.
Proof.
  induction ws as [|[t v] ws IH]; intros g O; simpl; auto.
  destruct (O t v (or_introl eq_refl)) as [a ->].
  rewrite IH; [reflexivity|]. intros t' v' IN. apply (O t' v'). right; exact IN.
Qed.

Lemma apply_own_other : forall i j ws g, own_only ws -> j <> i -> g_hp (apply_writes i ws g) j = g_hp g j.
Proof.
  induction ws as [|[t v] ws IH]; intros g O NE; simpl; auto.
  destruct (O t v (or_introl eq_refl)) as [a ->].
  rewrite IH; auto.
  - simpl. apply Nat.eqb_neq in NE. rewrite NE. reflexivity.
  - intros t' v' IN. apply (O t' v'). right; exact IN.
Qed.

Lemma apply_own_self : forall i ws g g', own_only ws -> eq_h (g_hp g i) (g_hp g' i) ->
  eq_h (g_hp (apply_writes i ws g) i) (g_hp (apply_writes i ws g') i).
Proof.
  induction ws as [|[t v] ws IH]; intros g g' O E; simpl; auto.
  destruct (O t v (or_introl eq_refl)) as [a ->].
  apply IH.
  - intros t' v' IN. apply (O t' v'). right; exact IN.
  - simpl. rewrite Nat.eqb_refl. intro x. unfold upd_h. destruct (Z.eqb x a); auto.
Qed.

Lemma conforming_local : forall vars fields calls copies cfields closures beh,
  audit vars fields calls copies cfields closures = true -> conforming vars fields beh ->
  local eq_s eq_h c_shared c_heap (cstep beh).
Proof.
  intros vars fields calls copies cfields closures beh A C.
  pose proof (conforming_own_only _ _ _ _ _ _ _ A C) as O.
  destruct C as [_ EXT].
  split; unfold c_shared, c_heap, cstep; simpl.
  - intros i g w. rewrite apply_own_shared; auto.
  - intros i j g NE x. rewrite apply_own_other; auto.
  - intros i g g' ES EH.
    rewrite (EXT i _ _ _ _ ES EH). apply apply_own_self; auto.
  - intros i g g' ES EH. rewrite (EXT i _ _ _ _ ES EH). reflexivity.
Qed.

(* ---- the regenerated table passes the audit (exhaustive, by computation) ---- *)

Lemma no_runtime_writes : audit pkg_vars struct_fields call_edges struct_copies clone_fields native_closures = true.
Proof. vm_compute. reflexivity. Qed.

Lemma table_is_sane : table_sane pkg_vars struct_fields call_edges struct_copies clone_fields native_closures translator_type_errors = true.
Proof. vm_compute. reflexivity. Qed.

Lemma no_shared_location_writable : forall w, runtime_writable pkg_vars struct_fields w = false.
Proof. exact (audit_no_writable _ _ _ _ _ _ no_runtime_writes). Qed.

(* ---- the theorems of Properties/C20.v for otto's table ---- *)

Section Otto.
  Variable beh : behaviour.
  Hypothesis C : conforming pkg_vars struct_fields beh.

  Let L := conforming_local _ _ _ _ _ _ _ no_runtime_writes C.

  Lemma otto_interleaving : forall sched g i,
    proj i (snd (run (cstep beh) sched g)) = proj i (snd (solo (cstep beh) i (steps_of i sched) g)) /\
    eq_h (g_hp (fst (run (cstep beh) sched g)) i) (g_hp (fst (solo (cstep beh) i (steps_of i sched) g)) i) /\
    eq_s (g_sh (fst (run (cstep beh) sched g))) (g_sh g).
  Proof. exact (interleaving_independent _ _ _ _ eq_s eq_h c_shared c_heap (cstep beh) L). Qed.

  Lemma otto_commute : forall i j g, i <> j ->
    eq_s (g_sh (fst (run (cstep beh) [i; j] g))) (g_sh (fst (run (cstep beh) [j; i] g))) /\
    (forall k, eq_h (g_hp (fst (run (cstep beh) [i; j] g)) k) (g_hp (fst (run (cstep beh) [j; i] g)) k)) /\
    snd (cstep beh i g) = snd (cstep beh i (fst (cstep beh j g))) /\
    snd (cstep beh j g) = snd (cstep beh j (fst (cstep beh i g))).
  Proof. exact (adjacent_steps_commute _ _ _ _ eq_s eq_h c_shared c_heap (cstep beh) L). Qed.

  (* a compiled program (part of the shared store) is never changed by running
     it, so executing it from a given heap gives the same outcome after any
     history of executions on any runtimes *)
  Lemma otto_script_immutable : forall sched g,
    eq_s (g_sh (fst (run (cstep beh) sched g))) (g_sh g) /\
    forall i k h0, execute beh i k h0 (fst (run (cstep beh) sched g)) = execute beh i k h0 g.
  Proof.
    intros sched g.
    assert (S0 : eq_s (g_sh (fst (run (cstep beh) sched g))) (g_sh g)).
    { destruct (otto_interleaving sched g 0) as (_ & _ & S0). exact S0. }
    split; [exact S0|].
    intros i k h0. unfold execute, solo.
    pose proof (run_sim _ _ _ _ eq_s eq_h c_shared c_heap (cstep beh) L (repeat i k) i
                  (with_heap (fst (run (cstep beh) sched g)) i h0) (with_heap g i h0)) as R.
    rewrite steps_of_repeat in R. unfold solo in R.
    destruct R as (P & _ & _); auto.
    unfold c_heap, with_heap; simpl. rewrite Nat.eqb_refl. reflexivity.
  Qed.
End Otto.
