(* C20: the audit of the regenerated fact table (hand-written policy).

   Structure that distinct runtimes share is of three kinds:
     - package-level variables of otto, parser, ast, file, token, registry;
     - the compiled form (otto.node*, otto.Script) and the parsed form (ast.*,
       file.File) of a program, when one Script/Program is run on several
       runtimes, and the singleton nodes/class tables every runtime points to
       (trueLiteral, emptyStatement, classObject, ...): the FROZEN types;
     - values of external types whose documentation promises safety for
       concurrent use (compiled regexps, time.Location, unicode tables).
   The audit accepts a site iff it cannot store to shared structure while
   scripts run: it executes at package initialisation, or lies in the
   constructor scope of a frozen type (parser / compiler building a NEW tree),
   or only aliases frozen/externally-immutable structure, or is on the
   explicit allow-list below, every entry of which carries its justification
   and a bound on who may call the function that contains the site. *)
From Coq Require Import String Ascii List ZArith Bool DecimalString.
From Otto Require Import C20.Facts.
Import ListNotations.
Open Scope string_scope.

Definition seqb := String.eqb.
Definition has_prefix (p s : string) : bool := String.prefix p s.

Fixpoint contains (needle s : string) : bool :=
  has_prefix needle s ||
  match s with EmptyString => false | String _ s' => contains needle s' end.

Definition strip_star (t : string) : string :=
  match t with String "*"%char t' => t' | _ => t end.

Definition str_in (x : string) (l : list string) : bool := existsb (seqb x) l.

(* ---- frozen types and their constructor scopes ---- *)

Definition frozen_class (t : string) : bool :=
  has_prefix "ast." t || has_prefix "otto.node" t ||
  seqb t "otto.Script" || seqb t "otto.objectClass" || seqb t "file.File".

(* where instances of a frozen type are built; the tree being built is not yet
   visible to any other runtime *)
Definition in_ctor_scope (t : string) (s : site) : bool :=
  if has_prefix "ast." t then
    (* the parser builds the AST; ast/comments.go is the parser's comment attachment *)
    has_prefix "parser/" (s_file s) || seqb (s_file s) "ast/comments.go"
  else if has_prefix "otto.node" t then
    (* cmplParse builds the node tree from an AST *)
    seqb (s_file s) "cmpl_parse.go"
  else false.

(* ---- external types with a documented concurrency contract ---- *)

Definition external_immutable (t : string) : bool :=
  seqb t "*regexp.Regexp"          (* "safe for concurrent use by multiple goroutines, except for configuration methods, such as Longest" *)
  || seqb t "*time.Location"       (* immutable after construction *)
  || seqb t "[]*unicode.RangeTable". (* read-only tables, only handed to unicode.In *)

Definition external_safe_method (t detail : string) : bool :=
  seqb t "*regexp.Regexp" && has_prefix "(*regexp.Regexp)." detail && negb (contains "Longest" detail).

(* ---- the allow-list ---- *)

Record allow := mkAllow {
  a_subject : string;        (* "pkg.var" or "pkg.Type.field" *)
  a_func : string;           (* function that contains the site(s) *)
  a_callers : list string;   (* every mention of a_func in the six packages must be in one of these
                                functions (or execute at initialisation); [] = no mention at all *)
  a_why : string
}.

Definition marker_why :=
  "identity marker: &nilGetSetObject only stands for 'accessor present but undefined' in a descriptor; " ++
  "objectDefineOwnProperty replaces it by nil before the property is stored and it is only ever compared " ++
  "by address, never dereferenced, so no runtime reads or writes the object behind it".

Definition allow_list : list allow := [
  mkAllow "registry.registry" "registry.Register" []
    "import-time registration: called from package-level initialisers of add-on packages (underscore) before any runtime exists; otto.New only reads the slice through registry.Apply";
  mkAllow "registry.Entry.active" "registry.(*Entry).Enable" []
    "host configuration API on a registry entry, not reachable from script execution or from otto.New/Copy/Run";
  mkAllow "registry.Entry.active" "registry.(*Entry).Disable" []
    "host configuration API on a registry entry, not reachable from script execution or from otto.New/Copy/Run";
  mkAllow "otto.nilGetSetObject" "otto.objectDefineOwnProperty" [] marker_why;
  mkAllow "otto.nilGetSetObject" "otto.toPropertyDescriptor" [] marker_why;
  mkAllow "otto.nilGetSetObject" "otto.(*runtime).newErrorObject" [] marker_why;
  mkAllow "otto.nilGetSetObject" "otto.(*runtime).newErrorObjectError" [] marker_why;
  mkAllow "otto.nilGetSetObject" "otto.(*runtime).newNativeFunctionObject" [] marker_why;
  mkAllow "otto.nilGetSetObject" "otto.(*runtime).newNodeFunctionObject" [] marker_why;
  mkAllow "otto.Script.version" "otto.(*Script).unmarshalBinary" []
    "fills in the receiver Script from its serialised form; unexported and without callers: no Script that a runtime executes passes through it";
  mkAllow "otto.Script.program" "otto.(*Script).unmarshalBinary" [] "as otto.Script.version";
  mkAllow "otto.Script.program" "otto.(*Script).marshalBinary" []
    "hands the node tree to encoding/gob's Encoder, which only reads the value it encodes; unexported and without callers";
  mkAllow "otto.Script.filename" "otto.(*Script).unmarshalBinary" [] "as otto.Script.version";
  mkAllow "otto.Script.src" "otto.(*Script).unmarshalBinary" [] "as otto.Script.version";
  mkAllow "closure *otto.object read" "otto.(*runtime).newErrorObject" []
    "the 'stack' getter of an Error object reads obj.value, the ottoError payload fixed when the object was made; in a copy it reads the template's payload, which is the same immutable text";
  mkAllow "closure *otto.object read" "otto.(*runtime).newErrorObjectError" []
    "as newErrorObject";
  mkAllow "file.File.sm" "file.(*File).WithSourceMap" ["parser.newParser"]
    "builder-style setter applied by parser.newParser to the File it has just created with file.NewFile, before the File is reachable from any Program"
].

Definition allow_matches (subject fn : string) (a : allow) : bool :=
  seqb (a_subject a) subject && seqb (a_func a) fn.

Definition allowed (subject fn : string) : bool := existsb (allow_matches subject fn) allow_list.

(* the nilGetSetObject entries are alias sites: the function is not a mutator and
   its callers are irrelevant; for the others every mention must be accounted for *)
Definition callers_bounded (calls : list call_edge) (a : allow) : bool :=
  seqb (a_subject a) "otto.nilGetSetObject" || has_prefix "closure " (a_subject a) ||
  forallb (fun c => negb (seqb (c_callee c) (a_func a)) || c_init c || str_in (c_caller c) (a_callers a)) calls.

(* ---- per-site verdicts ---- *)

Definition var_site_ok (v : var_entry) (s : site) : bool :=
  allowed (v_name v) (s_func s) ||
  match s_kind s with
  | KAssign | KIncDec | KElem | KAppend => s_init s
  | KAddr | KMethodPtr => frozen_class (v_type v)
  | KEscape => frozen_class (strip_star (v_type v)) || external_immutable (v_type v)
  | KMethodCall => external_safe_method (v_type v) (s_detail s)
  end.

Definition field_site_ok (f : field_entry) (s : site) : bool :=
  negb (frozen_class (f_type f)) ||
  in_ctor_scope (f_type f) s ||
  allowed (f_type f ++ "." ++ f_name f) (s_func s).

Definition var_ok (v : var_entry) : bool := forallb (var_site_ok v) (v_sites v).
Definition field_ok (f : field_entry) : bool := forallb (field_site_ok f) (f_sites f).

(* handle types: a value of these types IS a runtime (the exported Otto handle with its Interrupt
   channel and runtime pointer; the runtime with its scope chain, global table and lock).  A stored
   shallow copy of one would make two "runtimes" that share those references - e.g. a Copy() built
   from `out := *o` hands the template's Interrupt channel to every copy - so none is accepted. *)
Definition handle_types : list string := ["otto.Otto"; "otto.runtime"].

Definition copy_ok (c : copy_site) : bool :=
  negb (str_in (k_type c) handle_types) || allowed (k_type c) (k_func c).

(* a reference held by the template's runtime or handle (an *object such as a cached getter, a
   stash, a channel, a slice) that clone()/Copy() hands to the copy as it is makes the two runtimes
   share what it points to: it must go through the cloner's translation, be built afresh, or stay
   zero.  Host settings that are plain values or funcs (debugger, random, limits) may be carried over. *)
(* The table covers runtime.clone, Otto.Copy/clone and every function that is handed the cloner (the
   clone methods of the stashes and of the function/arguments payloads, objectClone, the global
   table): a field filled with a reference read from the source as it is - e.g. the outer link of
   an object environment - is accepted only when what it points to is a frozen type (the compiled
   node of a script function). *)
Definition clone_field_ok (c : clone_field) : bool :=
  negb (seqb (cf_how c) "verbatim" && cf_ref c) ||
  frozen_class (strip_star (cf_ftype c)) ||
  allowed (cf_type c ++ "." ++ cf_field c) (cf_func c).

(* a native closure over an object/runtime of its creator keeps working on the TEMPLATE's object or
   runtime when it is called in a copy: each one needs an allow-list entry for exactly its kind of use.
   A literal that REBINDS the name from the call (`rt := c.runtime` as in runtime.toValue since
   0e6c197) does not refer to the creator's variable at all - every use inside resolves to the inner
   variable - so it produces no entry; taking the rebinding away brings back a "call" entry, which
   nothing here allows (fixed finding C20-bridged-func-template-runtime). *)
Definition closure_ok (c : native_closure) : bool :=
  allowed ("closure " ++ nc_type c ++ " " ++ nc_usage c) (nc_func c).

(* Singletons.  A frozen type of which a package-level INSTANCE is handed out (trueLiteral,
   falseLiteral, nullLiteral, emptyStatement: one node shared by every compiled program of the process;
   classObject ...: one table shared by every object) gets no constructor scope at all: the compiler
   "building a new tree" may be holding the shared instance, so ANY store to a field of such a type
   outside package initialisation is a store to structure every Script and every runtime shares. *)
Definition hands_out (v : var_entry) : bool :=
  existsb (fun s => match s_kind s with KEscape | KAddr | KMethodPtr => true | _ => false end) (v_sites v).
Definition singleton_types (vars : list var_entry) : list string :=
  map (fun v => strip_star (v_type v)) (filter hands_out vars).
Definition singleton_site_ok (f : field_entry) (s : site) : bool :=
  s_init s || allowed (f_type f ++ "." ++ f_name f) (s_func s).
Definition singleton_field_ok (vars : list var_entry) (f : field_entry) : bool :=
  negb (frozen_class (f_type f) && str_in (f_type f) (singleton_types vars)) ||
  forallb (singleton_site_ok f) (f_sites f).

Definition audit (vars : list var_entry) (fields : list field_entry) (calls : list call_edge)
           (copies : list copy_site) (cfields : list clone_field) (closures : list native_closure) : bool :=
  forallb var_ok vars && forallb field_ok fields && forallb (callers_bounded calls) allow_list &&
  forallb copy_ok copies && forallb clone_field_ok cfields && forallb closure_ok closures &&
  forallb (singleton_field_ok vars) fields.

(* ---- the translator must have seen what is known to be there (non-vacuity of the table) ---- *)

Definition has_var (vars : list var_entry) (n : string) : bool := existsb (fun v => seqb (v_name v) n) vars.
Definition has_field (fields : list field_entry) (t n : string) : bool :=
  existsb (fun f => seqb (f_type f) t && seqb (f_name f) n) fields.
Definition var_has_site (vars : list var_entry) (n : string) (k : site_kind) (fn : string) (init : bool) : bool :=
  existsb (fun v => seqb (v_name v) n &&
             existsb (fun s => kind_eqb (s_kind s) k && seqb (s_func s) fn && Bool.eqb (s_init s) init) (v_sites v)) vars.
Definition field_has_site (fields : list field_entry) (t n : string) (k : site_kind) (file : string) : bool :=
  existsb (fun f => seqb (f_type f) t && seqb (f_name f) n &&
             existsb (fun s => kind_eqb (s_kind s) k && seqb (s_file s) file) (f_sites f)) fields.

Definition table_sane (vars : list var_entry) (fields : list field_entry) (calls : list call_edge)
           (copies : list copy_site) (cfields : list clone_field) (closures : list native_closure)
           (type_errors : Z) : bool :=
  (type_errors =? 0)%Z &&
  (* the singleton nodes and tables are recognised as such *)
  str_in "otto.nodeLiteral" (singleton_types vars) && str_in "otto.nodeEmptyStatement" (singleton_types vars) &&
  str_in "otto.objectClass" (singleton_types vars) &&
  (* closure detection works: the Error.stack getter's capture is reported *)
  existsb (fun c => seqb (nc_func c) "otto.(*runtime).newErrorObject" && seqb (nc_var c) "obj" && seqb (nc_usage c) "read") closures &&
  (* the copying functions are found and read: known treatments are reported *)
  existsb (fun c => seqb (cf_type c) "otto.runtime" && seqb (cf_field c) "stackLimit" && seqb (cf_how c) "verbatim" && seqb (cf_func c) "otto.(*runtime).clone") cfields &&
  existsb (fun c => seqb (cf_type c) "otto.runtime" && seqb (cf_field c) "global" && seqb (cf_how c) "cloned") cfields &&
  existsb (fun c => seqb (cf_type c) "otto.runtime" && seqb (cf_field c) "scope" && seqb (cf_how c) "zero") cfields &&
  existsb (fun c => seqb (cf_type c) "otto.Otto" && seqb (cf_field c) "runtime" && seqb (cf_how c) "cloned" && seqb (cf_func c) "otto.(*Otto).Copy") cfields &&
  existsb (fun c => seqb (cf_type c) "otto.Otto" && seqb (cf_field c) "Interrupt" && seqb (cf_func c) "otto.(*Otto).Copy") cfields &&
  existsb (fun c => seqb (cf_type c) "otto.objectStash" && seqb (cf_field c) "outr" && seqb (cf_how c) "cloned") cfields &&
  existsb (fun c => seqb (cf_type c) "otto.dclStash" && seqb (cf_field c) "outr" && seqb (cf_how c) "cloned") cfields &&
  existsb (fun c => seqb (cf_type c) "otto.global" && seqb (cf_field c) "URIErrorPrototype" && seqb (cf_how c) "cloned") cfields &&
  existsb (fun c => seqb (cf_type c) "otto.nodeFunctionObject" && seqb (cf_field c) "node" && seqb (cf_how c) "verbatim") cfields &&
  (* copy detection works: objectClone's `*out = *in` is reported *)
  existsb (fun c => seqb (k_type c) "otto.object" && seqb (k_func c) "otto.objectClone") copies &&
  forallb (has_var vars)
    ["otto.classObject"; "otto.trueLiteral"; "otto.emptyStatement"; "otto.nilGetSetObject"; "otto.lessThanTable";
     "otto.prototypeValueDate"; "parser.matchIdentifier"; "token.keywordTable"; "token.token2string"; "registry.registry"] &&
  has_field fields "otto.nodeProgram" "body" && has_field fields "otto.nodeFunctionLiteral" "body" &&
  has_field fields "otto.nodeLiteral" "value" && has_field fields "otto.Script" "program" &&
  has_field fields "otto.objectClass" "clone" && has_field fields "ast.Program" "Body" &&
  has_field fields "ast.FunctionLiteral" "Body" && has_field fields "file.File" "src" &&
  has_field fields "otto.object" "property" && has_field fields "otto.runtime" "scope" &&
  (* detection works: the known stores, aliases and escapes are reported *)
  var_has_site vars "registry.registry" KAssign "registry.Register" false &&
  var_has_site vars "registry.registry" KAppend "registry.Register" false &&
  var_has_site vars "otto.classObject" KAssign "otto.init" true &&
  var_has_site vars "otto.nilGetSetObject" KAddr "otto.toPropertyDescriptor" false &&
  var_has_site vars "otto.trueLiteral" KEscape "otto.(*compiler).parseExpression" false &&
  var_has_site vars "otto.classArray" KEscape "otto.(*runtime).newArrayObject" false &&
  var_has_site vars "parser.matchIdentifier" KMethodCall "parser.(*parser).parseDotMember" false.

(* ---- report of the failing sites (used by `sharedfacts -diagnose`) ---- *)

Definition zstr (z : Z) : string := NilZero.string_of_int (Z.to_int z).

Definition kind_name (k : site_kind) : string :=
  match k with
  | KAssign => "store" | KIncDec => "inc/dec" | KElem => "element store" | KAppend => "append"
  | KAddr => "address taken" | KMethodPtr => "pointer-receiver call" | KMethodCall => "method call"
  | KEscape => "reference escapes"
  end.

Definition site_line (subject : string) (s : site) : string :=
  s_file s ++ ":" ++ zstr (s_line s) ++ " " ++ subject ++ " (" ++ kind_name (s_kind s) ++ " in " ++ s_func s ++ ")".

Definition failing_report (vars : list var_entry) (fields : list field_entry) (calls : list call_edge)
           (copies : list copy_site) (cfields : list clone_field) (closures : list native_closure) : list string :=
  flat_map (fun f => map (fun s => site_line (f_type f ++ "." ++ f_name f ++ " [a package-level singleton of this type is shared by every program]") s)
                         (filter (fun s => negb (singleton_field_ok vars f) && negb (singleton_site_ok f s)) (f_sites f))) fields ++
  map (fun c => nc_file c ++ ":" ++ zstr (nc_line c) ++ " native closure over " ++ nc_var c ++ " (" ++ nc_type c ++ ", " ++ nc_usage c ++
                ") created in " ++ nc_func c ++ ": shared with copies by clone")
      (filter (fun c => negb (closure_ok c)) closures) ++
  map (fun c => cf_file c ++ ":" ++ zstr (cf_line c) ++ " " ++ cf_type c ++ "." ++ cf_field c ++ " (" ++ cf_ftype c ++
                " handed to the copy untranslated by " ++ cf_func c ++ ")")
      (filter (fun c => negb (clone_field_ok c)) cfields) ++
  map (fun c => k_file c ++ ":" ++ zstr (k_line c) ++ " " ++ k_type c ++ " (shallow copy of a runtime handle, " ++ k_detail c ++ ", in " ++ k_func c ++ ")")
      (filter (fun c => negb (copy_ok c)) copies) ++
  flat_map (fun v => map (site_line (v_name v)) (filter (fun s => negb (var_site_ok v s)) (v_sites v))) vars ++
  flat_map (fun f => map (site_line (f_type f ++ "." ++ f_name f)) (filter (fun s => negb (field_site_ok f s)) (f_sites f))) fields ++
  flat_map (fun a => map (fun c => c_file c ++ ":" ++ zstr (c_line c) ++ " " ++ a_subject a ++
                                   " (allow-listed mutator " ++ a_func a ++ " now called from " ++ c_caller c ++ ")")
                         (filter (fun c => seqb (c_callee c) (a_func a) && negb (c_init c) && negb (str_in (c_caller c) (a_callers a))) calls))
           (filter (fun a => negb (seqb (a_subject a) "otto.nilGetSetObject") && negb (has_prefix "closure " (a_subject a))) allow_list).
