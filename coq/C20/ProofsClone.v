(* C20: the cloner only ever stores references to objects it allocated itself:
   the object graph of a copy is closed inside its fresh region, so a copy
   shares no object with its template nor with another copy. *)
From Coq Require Import List ZArith Arith Bool Lia.
From Otto Require Import C20.ModelClone.
Import ListNotations.

Definition Inv (base : nat) (st : cstate) : Prop :=
  (forall x y, In (x, y) (memo st) -> base <= y < base + length (dst st)) /\
  region_closed base (dst st).

Definition rec_ok (base : nat) (rec : addr -> cstate -> option (addr * cstate)) : Prop :=
  forall a st a' st', Inv base st -> rec a st = Some (a', st') ->
    Inv base st' /\ base <= a' < base + length (dst st') /\ length (dst st) <= length (dst st').

Lemma lookup_in : forall a m y, lookup a m = Some y -> exists x, In (x, y) m.
Proof.
  induction m as [|[x y'] m IH]; intros y H; simpl in H; [discriminate|].
  destruct (Nat.eqb x a).
  - inversion H; subst. exists x. left; reflexivity.
  - destruct (IH y H) as [x' IN]. exists x'. right; exact IN.
Qed.

Lemma length_set_nth : forall A (l : list A) k x, length (set_nth l k x) = length l.
Proof. induction l; intros [|k] x; simpl; auto. Qed.

Lemma in_set_nth : forall A (l : list A) k x o, In o (set_nth l k x) -> o = x \/ In o l.
Proof.
  induction l as [|y l IH]; intros [|k] x o H; simpl in *; try tauto.
  - destruct H; auto.
  - destruct H as [H|H]; auto. destruct (IH _ _ _ H); auto.
Qed.

Lemma clone_vals_ok : forall base rec, rec_ok base rec ->
  forall vs st vs' st', Inv base st -> clone_vals rec vs st = Some (vs', st') ->
    Inv base st' /\ refs_within base (base + length (dst st')) vs' /\ length (dst st) <= length (dst st').
Proof.
  intros base rec R. induction vs as [|v r IH]; intros st vs' st' I H; simpl in H.
  - inversion H; subst. split; [exact I|]. split; [intros b []|]. apply Nat.le_refl.
  - destruct v as [z|a].
    + destruct (clone_vals rec r st) as [[r' st1]|] eqn:E; [|discriminate].
      inversion H; subst. destruct (IH _ _ _ I E) as (I' & W & Le).
      split; [exact I'|]. split; [|exact Le].
      intros b [HB|HB]; [discriminate | apply W; exact HB].
    + destruct (rec a st) as [[a' st1]|] eqn:E1; [|discriminate].
      destruct (clone_vals rec r st1) as [[r' st2]|] eqn:E2; [|discriminate].
      inversion H; subst.
      destruct (R _ _ _ _ I E1) as (I1 & Ra & Le1).
      destruct (IH _ _ _ I1 E2) as (I2 & W & Le2).
      split; [exact I2|]. split; [|lia].
      intros b [HB|HB]; [inversion HB; subst; lia | apply W; exact HB].
Qed.

Lemma clone_step_ok : forall base rec src, rec_ok base rec -> rec_ok base (clone_step rec src base).
Proof.
  intros base rec src R a st a' st' I H. unfold clone_step in H.
  destruct (lookup a (memo st)) as [y|] eqn:EL.
  - inversion H; subst. destruct (lookup_in _ _ _ EL) as [x IN].
    pose proof (proj1 I x a' IN) as RG. split; [exact I|]. split; [exact RG | apply Nat.le_refl].
  - set (k := length (dst st)) in *.
    set (st1 := mkC ((a, base + k) :: memo st) (dst st ++ [[]])) in *.
    assert (I1 : Inv base st1).
    { destruct I as [IM IC]. split; unfold st1; simpl.
      - intros x y [E|IN]; rewrite app_length; simpl.
        + inversion E; subst. unfold k. lia.
        + specialize (IM x y IN). lia.
      - intros o IN b HB. rewrite app_length; simpl.
        apply in_app_or in IN as [IN|[<-|[]]]; [|destruct HB].
        specialize (IC o IN b HB). lia. }
    destruct (clone_vals rec (nth a src []) st1) as [[vs st2]|] eqn:E; [|discriminate].
    inversion H; subst. clear H.
    destruct (clone_vals_ok base rec R _ _ _ _ I1 E) as ([IM2 IC2] & W & Le).
    assert (K : k < length (dst st2)).
    { unfold st1 in Le; simpl in Le. rewrite app_length in Le; simpl in Le. unfold k. lia. }
    split; [split|split]; simpl; try rewrite length_set_nth.
    + exact IM2.
    + intros o IN b HB. rewrite length_set_nth.
      apply in_set_nth in IN as [->|IN]; [apply W; exact HB | apply (IC2 o IN b HB)].
    + lia.
    + unfold st1 in Le; simpl in Le. rewrite app_length in Le; simpl in Le. fold k in Le. lia.
Qed.

Lemma clone_obj_ok : forall fuel src base, rec_ok base (clone_obj fuel src base).
Proof.
  induction fuel; intros src base; simpl.
  - intros a st a' st' _ H. discriminate.
  - apply clone_step_ok. apply IHfuel.
Qed.

Lemma inv_empty : forall base, Inv base (mkC [] []).
Proof. intro base. split; simpl; [intros x y [] | intros o []]. Qed.

(* the copy: closed inside the fresh region, roots included; nothing points into
   the template (whose objects live below [base]) *)
Theorem clone_region_closed : forall fuel src base roots vs st,
  length src <= base ->
  clone_roots fuel src base roots = Some (vs, st) ->
  region_closed base (dst st) /\
  refs_within base (base + length (dst st)) vs /\
  (forall o b, In o (vs :: dst st) -> In (VRef b) o -> ~ b < length src).
Proof.
  intros fuel src base roots vs st LB H. unfold clone_roots in H.
  destruct (clone_vals_ok base _ (clone_obj_ok fuel src base) _ _ _ _ (inv_empty base) H) as ([_ IC] & W & _).
  split; [exact IC|]. split; [exact W|].
  intros o b IN HB L. destruct IN as [E|IN].
  - subst o. specialize (W b HB). lia.
  - specialize (IC o IN b HB). lia.
Qed.

(* two copies of one template, allocated one after the other, do not overlap:
   no slot of either refers into the other's region *)
Theorem copies_disjoint : forall f1 f2 src b1 b2 r1 r2 v1 s1 v2 s2,
  length src <= b1 -> b1 + length (dst s1) <= b2 ->
  clone_roots f1 src b1 r1 = Some (v1, s1) ->
  clone_roots f2 src b2 r2 = Some (v2, s2) ->
  (forall o b, In o (v1 :: dst s1) -> In (VRef b) o -> ~ (b2 <= b)) /\
  (forall o b, In o (v2 :: dst s2) -> In (VRef b) o -> ~ (b < b2)).
Proof.
  intros f1 f2 src b1 b2 r1 r2 v1 s1 v2 s2 L1 L2 H1 H2.
  destruct (clone_region_closed _ _ _ _ _ _ L1 H1) as (C1 & W1 & _).
  assert (L2' : length src <= b2) by lia.
  destruct (clone_region_closed _ _ _ _ _ _ L2' H2) as (C2 & W2 & _).
  split; intros o b IN HB; destruct IN as [E|IN]; try subst o.
  - specialize (W1 b HB). lia.
  - specialize (C1 o IN b HB). lia.
  - specialize (W2 b HB). lia.
  - specialize (C2 o IN b HB). lia.
Qed.

(* non-vacuity: a template with a cycle and a shared child is cloned, every
   reference is redirected into the fresh region, verbatim slots are kept *)
Example clone_example :
  clone_roots 10 [[VRef 1; VPrim 7; VRef 2]; [VRef 0; VRef 2]; [VPrim 9]] 3 [0] =
  Some ([VRef 3], mkC [(2, 5); (1, 4); (0, 3)] [[VRef 4; VPrim 7; VRef 5]; [VRef 3; VRef 5]; [VPrim 9]]).
Proof. vm_compute. reflexivity. Qed.
