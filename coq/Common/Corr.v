(* Generic driver for the correspondence check: the harness writes a list of
   cases (input + what the real interpreter was observed to do); [run_cases]
   evaluates a per-property [verdict] on each and returns only what is
   not plain agreement, so that the printed term stays small. *)
From Coq Require Import List ZArith Bool.
Import ListNotations.
Open Scope Z_scope.

(* verdict codes:
   0  impl = model = spec
   1  impl = model <> spec   (model-predicted deviation: a known-finding class)
   2  impl <> model, impl = spec (the code does what ES5 says where the model deviates)
   3  impl <> model, impl <> spec (violation on a concrete input)
   4  model declines the case (outside the modelled domain) *)
Definition judge {O : Type} (eqb : O -> O -> bool) (impl model spec : O) (class : Z) : Z * Z :=
  if eqb impl model then (if eqb model spec then (0, 0) else (1, class))
  else if eqb impl spec then (2, class) else (3, class).

Definition declined : Z * Z := (4, 0).

Fixpoint run_from {A : Type} (verdict : A -> Z * Z) (i : Z) (l : list A)
         (nok ndecl : Z) (acc : list (Z * Z * Z)) : Z * Z * list (Z * Z * Z) :=
  match l with
  | [] => (nok, ndecl, rev acc)
  | c :: l' =>
      let '(code, cls) := verdict c in
      if code =? 0 then run_from verdict (i + 1) l' (nok + 1) ndecl acc
      else if code =? 4 then run_from verdict (i + 1) l' nok (ndecl + 1) ((i, code, cls) :: acc)
      else run_from verdict (i + 1) l' nok ndecl ((i, code, cls) :: acc)
  end.

Definition run_cases {A : Type} (verdict : A -> Z * Z) (l : list A) :=
  run_from verdict 0 l 0 0 [].

(* list/option equality helpers used by the per-property verdicts *)
Fixpoint list_eqb {A} (eqb : A -> A -> bool) (a b : list A) : bool :=
  match a, b with
  | [], [] => true
  | x :: a', y :: b' => eqb x y && list_eqb eqb a' b'
  | _, _ => false
  end.
Definition option_eqb {A} (eqb : A -> A -> bool) (a b : option A) : bool :=
  match a, b with
  | None, None => true
  | Some x, Some y => eqb x y
  | _, _ => false
  end.
Definition zlist_eqb := list_eqb Z.eqb.
