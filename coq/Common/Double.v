(* IEEE-754 binary64 seen through its bit pattern, in plain Z arithmetic.
   A JS number travels between the harness and the model as the integer
   0 <= bits < 2^64 of its bit pattern (all NaNs collapsed by the harness to
   0x7FF8000000000000).  Integer-valued algorithms work on the exact view
   (neg, m, e) meaning (-1)^neg * m * 2^e. *)
From Coq Require Import ZArith Bool Lia.
Open Scope Z_scope.

Definition nan_bits : Z := 0x7FF8000000000000.
Definition pinf_bits : Z := 0x7FF0000000000000.
Definition ninf_bits : Z := 0xFFF0000000000000.
Definition nzero_bits : Z := 0x8000000000000000.

Inductive dclass :=
| DNaN
| DInf (neg : bool)
| DFin (neg : bool) (m e : Z).   (* value (-1)^neg * m * 2^e, 0 <= m < 2^53 *)

Definition decode (bits : Z) : dclass :=
  let s := bits / 2 ^ 63 in
  let ex := (bits / 2 ^ 52) mod 2 ^ 11 in
  let mn := bits mod 2 ^ 52 in
  let neg := negb (s =? 0) in
  if ex =? 2047 then (if mn =? 0 then DInf neg else DNaN)
  else if ex =? 0 then DFin neg mn (-1074)
  else DFin neg (mn + 2 ^ 52) (ex - 1075).

(* truncation toward zero of m * 2^e (m >= 0) *)
Definition trunc_mag (m e : Z) : Z :=
  if 0 <=? e then m * 2 ^ e else m / 2 ^ (- e).
(* is m * 2^e an integer *)
Definition is_integral (m e : Z) : bool :=
  if 0 <=? e then true else (m mod 2 ^ (- e) =? 0).

(* bits of an integer that is exactly representable; None otherwise.
   (-0 is not produced here) *)
Definition encode_int (n : Z) : option Z :=
  if n =? 0 then Some 0 else
  let a := Z.abs n in
  let k := Z.log2 a in
  let sgn := if n <? 0 then 2 ^ 63 else 0 in
  if k <=? 52 then Some (sgn + (k + 1023) * 2 ^ 52 + (a * 2 ^ (52 - k) - 2 ^ 52))
  else if (a mod 2 ^ (k - 52) =? 0) && (k <=? 1023)
       then Some (sgn + (k + 1023) * 2 ^ 52 + (a / 2 ^ (k - 52) - 2 ^ 52))
       else None.

Definition encode_int_or_nan (n : Z) : Z :=
  match encode_int n with Some b => b | None => nan_bits end.

(* signed integer value of a double that holds an integer, None otherwise *)
Definition int_of_bits (bits : Z) : option Z :=
  match decode bits with
  | DFin neg m e => if is_integral m e
                    then Some (if neg then - trunc_mag m e else trunc_mag m e) else None
  | _ => None
  end.

(* the double nearest to an integer (ties to even), as an integer: what Go's
   float64(int64) conversion yields *)
Definition round_to_double (n : Z) : Z :=
  let a := Z.abs n in
  if a <? 2 ^ 53 then n else
  let k := Z.log2 a - 52 in
  let q := a / 2 ^ k in
  let r := a mod 2 ^ k in
  let half := 2 ^ (k - 1) in
  let q' := if r <? half then q else if half <? r then q + 1 else (if Z.even q then q else q + 1) in
  Z.sgn n * q' * 2 ^ k.
