From Coq Require Import List ZArith Bool Lia.
From Otto Require Import C04.Tree C04.Model C04.Spec.
Import ListNotations.
Open Scope Z_scope.

(* ------------------------------------------------------------------ *)
(* generic facts about the rose tree *)
Lemma in_present : forall c m, In m (present c) <-> In (CNode m) c.
Proof.
  induction c as [|[| |x] c IH]; intros m; cbn [present In].
  - tauto.
  - rewrite IH. split; [tauto|]. intros [H|H]; [discriminate|auto].
  - rewrite IH. split; [tauto|]. intros [H|H]; [discriminate|auto].
  - rewrite IH. split; intros [H|H]; auto. + left; now subst. + left; now inversion H.
Qed.

Lemma in_nodes_kids : forall c n,
  In n (nodes_kids c) <-> exists m, In (CNode m) c /\ In n (nodes m).
Proof.
  induction c as [|[| |x] c IH]; intros n; cbn [nodes_kids].
  - split; [intros []|intros (m & [] & _)].
  - rewrite IH. split; intros (m & H & H'); exists m; split; auto; try (right; auto).
    destruct H as [H|H]; [discriminate|auto].
  - rewrite IH. split; intros (m & H & H'); exists m; split; auto; try (right; auto).
    destruct H as [H|H]; [discriminate|auto].
  - rewrite in_app_iff, IH. split.
    + intros [H|(m & H & H')]; [exists x; split; [left|]; auto | exists m; split; [right|]; auto].
    + intros (m & [H|H] & H'); [left; inversion H; now subst | right; exists m; auto].
Qed.

Lemma nodes_self : forall t, In t (nodes t).
Proof. intros [k f c]. rewrite nodes_eq. now left. Qed.

(* ------------------------------------------------------------------ *)
(* spans: local nesting everywhere gives nesting in the root, hence in the file *)
Lemma within_spec : forall o n, within o n = true ->
  exists a b, span_of n = Some (a, b) /\ fst o <= a /\ a <= b /\ b <= snd o.
Proof.
  intros o n H. unfold within in H. destruct (span_of n) as [[a b]|]; [|discriminate].
  exists a, b. split; auto.
  apply andb_prop in H as [H H3]. apply andb_prop in H as [H1 H2].
  apply Z.leb_le in H1, H2, H3. lia.
Qed.

Lemma spans_in_root : forall t, all_local_ok t = true ->
  exists ra rb, span_of t = Some (ra, rb) /\ ra <= rb /\
    forall n, In n (nodes t) ->
      exists a b, span_of n = Some (a, b) /\ ra <= a /\ a <= b /\ b <= rb.
Proof.
  induction t as [k f c IH] using node_ind'. intros Hall.
  unfold all_local_ok in Hall. rewrite nodes_eq in Hall. cbn [forallb] in Hall.
  apply andb_prop in Hall as [Hroot Hkids].
  unfold local_ok_b in Hroot. cbn [kids_of] in Hroot.
  destruct (span_of (T k f c)) as [[ra rb]|] eqn:Hs; [|discriminate].
  apply andb_prop in Hroot as [Hle Hw]. apply Z.leb_le in Hle.
  exists ra, rb. split; [reflexivity|]. split; [assumption|].
  intros n Hn. rewrite nodes_eq in Hn. destruct Hn as [<-|Hn].
  - exists ra, rb. rewrite Hs. repeat split; auto; lia.
  - apply in_nodes_kids in Hn as (m & Hm & Hnm).
    rewrite Forall_forall in IH. specialize (IH _ Hm). cbn [on_child] in IH.
    assert (Hallm : all_local_ok m = true).
    { unfold all_local_ok. apply forallb_forall. intros x Hx.
      rewrite forallb_forall in Hkids. apply Hkids. apply in_nodes_kids. exists m; auto. }
    destruct (IH Hallm) as (ma & mb & Hms & Hmle & Hsub).
    destruct (Hsub _ Hnm) as (a & b & Hns & H1 & H2 & H3).
    rewrite forallb_forall in Hw. specialize (Hw m (proj2 (in_present c m) Hm)).
    apply within_spec in Hw as (a' & b' & Hms' & W1 & W2 & W3). cbn [fst snd] in *.
    rewrite Hms in Hms'. inversion Hms'; subst a' b'.
    exists a, b. repeat split; auto; lia.
Qed.

Lemma spans_in_file : forall t base len,
  all_local_ok t = true -> in_file_b base len t = true ->
  forallb (in_file_b base len) (nodes t) = true.
Proof.
  intros t base len Hall Hroot.
  destruct (spans_in_root t Hall) as (ra & rb & Hs & Hle & Hsub).
  apply within_spec in Hroot as (a & b & Hs' & R1 & R2 & R3). cbn [fst snd] in *.
  rewrite Hs in Hs'. inversion Hs'; subst a b.
  apply forallb_forall. intros n Hn. destruct (Hsub n Hn) as (a & b & Hns & H1 & H2 & H3).
  unfold in_file_b, within. rewrite Hns. cbn [fst snd].
  apply andb_true_intro; split; [apply andb_true_intro; split|]; apply Z.leb_le; lia.
Qed.

(* ------------------------------------------------------------------ *)
(* Walk *)
Lemma stray_nonneg : forall t, 0 <= stray_typed_nil t.
Proof.
  induction t as [k f c IH] using node_ind'. rewrite stray_eq. generalize O.
  induction c as [|[| |m] c IHc]; intros i; cbn [stray_kids]; [lia| | |];
    apply Forall_cons_iff in IH as [Hm Hc]; specialize (IHc Hc (S i)); cbn [on_child] in *;
    try destruct (nil_checked k i); lia.
Qed.

Lemma stray_kids_nonneg : forall k i c, 0 <= stray_kids k i c.
Proof.
  intros k i c. revert i. induction c as [|[| |m] c IH]; intros i; cbn [stray_kids]; try lia.
  - apply IH.
  - specialize (IH (S i)). destruct (nil_checked k i); lia.
  - pose proof (stray_nonneg m). specialize (IH (S i)). lia.
Qed.

(* otto's Walk is the traversal the property asks for on every tree whose nil pointers sit
   only in the slots Walk tests *)
Lemma walk_agrees : forall stop t, stray_typed_nil t = 0 -> walk stop t = walk_s stop t.
Proof.
  intros stop. induction t as [k f c IH] using node_ind'. intros H0.
  rewrite walk_eq, walk_s_eq. destruct (stop k); [reflexivity|]. f_equal. f_equal.
  rewrite stray_eq in H0. clear f. revert H0. generalize O.
  induction c as [|[| |m] c IHc]; intros i H0; cbn [walk_kids walk_s_kids stray_kids] in *.
  - reflexivity.
  - apply Forall_cons_iff in IH as [Hm Hc]. auto.
  - apply Forall_cons_iff in IH as [Hm Hc]. pose proof (stray_kids_nonneg k (S i) c).
    destruct (nil_checked k i); [apply IHc; auto; lia | lia].
  - apply Forall_cons_iff in IH as [Hm Hc]. cbn [on_child] in Hm.
    pose proof (stray_kids_nonneg k (S i) c). pose proof (stray_nonneg m).
    rewrite Hm by lia. rewrite IHc; auto. lia.
Qed.

Lemma enters_app : forall a b, enters (a ++ b) = enters a ++ enters b.
Proof. induction a as [|[] a IH]; intros; cbn [enters app]; rewrite ?IH; reflexivity. Qed.
Lemma exits_app : forall a b, exits (a ++ b) = exits a ++ exits b.
Proof. induction a as [|[] a IH]; intros; cbn [exits app]; rewrite ?IH; reflexivity. Qed.

Lemma walk_s_enters : forall t, enters (walk_s no_stop t) = nodes t.
Proof.
  induction t as [k f c IH] using node_ind'.
  rewrite walk_s_eq, nodes_eq. cbn [no_stop enters]. f_equal.
  rewrite enters_app. cbn [enters]. rewrite app_nil_r.
  induction c as [|[| |m] c IHc]; cbn [walk_s_kids nodes_kids enters]; [reflexivity| | |];
    apply Forall_cons_iff in IH as [Hm Hc]; auto.
  rewrite enters_app. cbn [on_child] in Hm. rewrite Hm, IHc; auto.
Qed.

Fixpoint nodes_post_kids (l : list (child node)) : list node :=
  match l with
  | [] => []
  | CNode m :: l' => nodes_post m ++ nodes_post_kids l'
  | _ :: l' => nodes_post_kids l'
  end.
Lemma nodes_post_eq : forall k f c, nodes_post (T k f c) = nodes_post_kids c ++ [T k f c].
Proof. reflexivity. Qed.

Lemma walk_s_exits : forall t, exits (walk_s no_stop t) = nodes_post t.
Proof.
  induction t as [k f c IH] using node_ind'.
  rewrite walk_s_eq, nodes_post_eq. cbn [no_stop exits].
  rewrite exits_app. cbn [exits]. f_equal.
  induction c as [|[| |m] c IHc]; cbn [walk_s_kids nodes_post_kids exits]; [reflexivity| | |];
    apply Forall_cons_iff in IH as [Hm Hc]; auto.
  rewrite exits_app. cbn [on_child] in Hm. rewrite Hm, IHc; auto.
Qed.

Lemma walk_s_balanced : forall t d rest,
  balanced_from d (walk_s no_stop t ++ rest) = balanced_from d rest.
Proof.
  induction t as [k f c IH] using node_ind'. intros d rest.
  rewrite walk_s_eq. cbn [no_stop app balanced_from].
  rewrite <- app_assoc. cbn [app].
  assert (Hk : forall d rest, balanced_from d (walk_s_kids no_stop c ++ rest) = balanced_from d rest).
  { clear d rest. induction c as [|[| |m] c IHc]; intros d rest; cbn [walk_s_kids app]; [reflexivity| | |];
      apply Forall_cons_iff in IH as [Hm Hc]; auto.
    rewrite <- app_assoc. cbn [on_child] in Hm. rewrite Hm. auto. }
  rewrite Hk. reflexivity.
Qed.

Lemma walk_s_no_nil : forall stop t, forallb (fun e => negb (is_nil_event e)) (walk_s stop t) = true.
Proof.
  intros stop. induction t as [k f c IH] using node_ind'.
  rewrite walk_s_eq. destruct (stop k); [reflexivity|].
  cbn [forallb is_nil_event negb andb]. rewrite forallb_app. cbn [forallb is_nil_event negb andb].
  rewrite andb_true_r.
  induction c as [|[| |m] c IHc]; cbn [walk_s_kids forallb]; [reflexivity| | |];
    apply Forall_cons_iff in IH as [Hm Hc]; auto.
  rewrite forallb_app. cbn [on_child] in Hm. rewrite Hm. auto.
Qed.

(* a nil pointer in a slot that Walk does not test still reaches the visitor *)
Lemma walk_stray_seen : forall t, 0 < stray_typed_nil t -> In ENilEnter (walk no_stop t).
Proof.
  induction t as [k f c IH] using node_ind'. intros H.
  rewrite walk_eq. cbn [no_stop]. right. apply in_or_app. left.
  rewrite stray_eq in H. clear f. revert H. generalize O.
  induction c as [|[| |m] c IHc]; intros i H; cbn [walk_kids stray_kids] in *.
  - lia.
  - apply Forall_cons_iff in IH as [Hm Hc]. auto.
  - apply Forall_cons_iff in IH as [Hm Hc]. destruct (nil_checked k i); [apply IHc; auto; lia | now left].
  - apply Forall_cons_iff in IH as [Hm Hc]. cbn [on_child] in Hm. apply in_or_app.
    destruct (Z_lt_dec 0 (stray_typed_nil m)); [left; auto | right; apply IHc; auto; lia].
Qed.

(* ------------------------------------------------------------------ *)
(* parse-time legality: otto's flags against the ES5 rules *)
Definition rel (s : scope) (c : ctx) : Prop :=
  (forall l, mem l (labels s) = mem l (encl c)) /\
  inIter s = c_iter c /\
  (inIter s || inSwitch s) = c_brk c /\
  inFunc s = c_fn c /\
  (forall l, mem l (iterl c) = true -> mem l (encl c) = true /\ c_iter c = true) /\
  (forall l, mem l (pend c) = true -> mem l (encl c) = true).

Lemma mem_app : forall l a b, mem l (a ++ b) = mem l a || mem l b.
Proof. intros. unfold mem. apply existsb_app. Qed.

Ltac rel_split := refine (conj _ (conj _ (conj _ (conj _ (conj _ _))))).

Lemma rel_plain : forall s c, rel s c -> rel s (plain c).
Proof.
  intros s c (H1 & H2 & H3 & H4 & H5 & H6). rel_split; cbn; auto.
  intros; discriminate.
Qed.

Lemma rel_fn : rel fn_scope fn_ctx.
Proof. rel_split; cbn; intros; auto; discriminate. Qed.

Lemma rel_top : rel top_scope top_ctx.
Proof. rel_split; cbn; intros; auto; discriminate. Qed.

Lemma rel_loop : forall s c, rel s c ->
  rel {| labels := labels s; inIter := true; inSwitch := inSwitch s; inFunc := inFunc s |} (in_loop c).
Proof.
  intros s c (H1 & H2 & H3 & H4 & H5 & H6).
  rel_split; cbn [labels inIter inSwitch inFunc in_loop encl iterl pend c_iter c_brk c_fn]; auto.
  - intros l H. rewrite mem_app in H. split; [|reflexivity].
    apply orb_prop in H as [H|H]; [apply H6 | apply H5]; auto.
  - intros; discriminate.
Qed.

Lemma rel_switch : forall s c, rel s c ->
  rel {| labels := labels s; inIter := inIter s; inSwitch := true; inFunc := inFunc s |} (in_switch c).
Proof.
  intros s c (H1 & H2 & H3 & H4 & H5 & H6). rel_split; cbn; auto.
  - apply orb_true_r.
  - intros; discriminate.
Qed.

Lemma mem_cons : forall x l ls, mem x (l :: ls) = (x =? l) || mem x ls.
Proof. reflexivity. Qed.

Lemma rel_label : forall s c l, rel s c ->
  rel {| labels := labels s ++ [l]; inIter := inIter s; inSwitch := inSwitch s; inFunc := inFunc s |} (under_label l c).
Proof.
  intros s c l (H1 & H2 & H3 & H4 & H5 & H6).
  rel_split; cbn [labels inIter inSwitch inFunc under_label encl iterl pend c_iter c_brk c_fn]; auto.
  - intros x. rewrite mem_app, !mem_cons. cbn [mem existsb]. rewrite orb_false_r, H1. apply orb_comm.
  - intros x Hx. rewrite mem_cons. destruct (H5 _ Hx) as [-> ->]. split; [apply orb_true_r|reflexivity].
  - intros x Hx. rewrite mem_cons in *. apply orb_prop in Hx as [->|Hx]; [reflexivity|].
    rewrite (H6 _ Hx). apply orb_true_r.
Qed.

Lemma forallb_eq_Forall : forall (g h : stm -> bool) (P : stm -> bool) l,
  Forall (fun x => P x = true -> g x = h x) l -> forallb P l = true -> forallb g l = forallb h l.
Proof.
  induction l as [|x l IH]; intros HF HP; cbn [forallb] in *; [reflexivity|].
  inversion HF; subst. apply andb_prop in HP as [Hx Hl]. rewrite H1, IH; auto.
Qed.

Lemma forallb_imp_Forall : forall (g h : stm -> bool) l,
  Forall (fun x => g x = true -> h x = true) l -> forallb g l = true -> forallb h l = true.
Proof.
  induction l as [|x l IH]; intros HF HP; cbn [forallb] in *; [reflexivity|].
  inversion HF; subst. apply andb_prop in HP as [Hx Hl]. rewrite H1, IH; auto.
Qed.

Lemma Forall_rel : forall (Q : scope -> ctx -> stm -> Prop) l s c,
  Forall (fun x => forall s c, rel s c -> Q s c x) l -> rel s c -> Forall (Q s c) l.
Proof. intros Q l s c H R. eapply Forall_impl; [|exact H]. cbn. auto. Qed.

Ltac lift H R := eapply Forall_impl; [|exact H]; cbn; intros ? Ha; apply Ha; exact R.

Theorem early_agree : forall x s c, rel s c -> ctl c x = true -> chk_m s x = chk_s c x.
Proof.
  induction x as [e|b Hb|b Hb|l Hl|a b IHa Hb|b IHb|l Hl|l b IHb|l|l| |b hc cb hf fin Hb Hc Hf|b IHb]
    using stm_ind'; intros s c R G; cbn [chk_m chk_s ctl] in *.
  - reflexivity.
  - apply forallb_eq_Forall with (P := ctl fn_ctx); auto. lift Hb rel_fn.
  - apply forallb_eq_Forall with (P := ctl fn_ctx); auto. lift Hb rel_fn.
  - apply forallb_eq_Forall with (P := ctl (plain c)); auto. lift Hl (rel_plain _ _ R).
  - apply andb_prop in G as [G1 G2]. rewrite (IHa s (plain c)); auto using rel_plain. f_equal.
    apply forallb_eq_Forall with (P := ctl (plain c)); auto. lift Hb (rel_plain _ _ R).
  - apply IHb; auto using rel_loop.
  - apply forallb_eq_Forall with (P := ctl (in_switch c)); auto. lift Hl (rel_switch _ _ R).
  - pose proof R as (H1 & _). rewrite H1. f_equal. apply IHb; auto using rel_label.
  - destruct R as (H1 & H2 & H3 & R'). destruct l; auto.
  - destruct R as (H1 & H2 & H3 & H4 & H5 & H6). destruct l as [l|]; auto.
    rewrite H1, H2. destruct (mem l (iterl c)) eqn:E.
    + destruct (H5 _ E) as [-> ->]. reflexivity.
    + destruct (mem l (encl c) && c_iter c); [discriminate|reflexivity].
  - destruct R as (H1 & H2 & H3 & H4 & R'). auto.
  - apply andb_prop in G as [G G3]. apply andb_prop in G as [G1 G2].
    assert (R' := rel_plain _ _ R).
    rewrite (forallb_eq_Forall (chk_m s) (chk_s (plain c)) (ctl (plain c)) b),
            (forallb_eq_Forall (chk_m s) (chk_s (plain c)) (ctl (plain c)) cb),
            (forallb_eq_Forall (chk_m s) (chk_s (plain c)) (ctl (plain c)) fin); auto.
    + lift Hf R'.
    + lift Hc R'.
    + lift Hb R'.
  - apply IHb; auto using rel_plain.
Qed.

(* without any guard: what ES5 allows, otto accepts (no false rejection from these rules) *)
Theorem early_complete : forall x s c, rel s c -> chk_s c x = true -> chk_m s x = true.
Proof.
  induction x as [e|b Hb|b Hb|l Hl|a b IHa Hb|b IHb|l Hl|l b IHb|l|l| |b hc cb hf fin Hb Hc Hf|b IHb]
    using stm_ind'; intros s c R G; cbn [chk_m chk_s] in *.
  - assumption.
  - eapply forallb_imp_Forall; [|exact G]. lift Hb rel_fn.
  - eapply forallb_imp_Forall; [|exact G]. lift Hb rel_fn.
  - eapply forallb_imp_Forall; [|exact G]. lift Hl (rel_plain _ _ R).
  - apply andb_prop in G as [G1 G2]. rewrite (IHa s (plain c)); auto using rel_plain. cbn [andb].
    eapply forallb_imp_Forall; [|exact G2]. lift Hb (rel_plain _ _ R).
  - eapply IHb; [|exact G]. auto using rel_loop.
  - eapply forallb_imp_Forall; [|exact G]. lift Hl (rel_switch _ _ R).
  - apply andb_prop in G as [G1 G2]. pose proof R as (H1 & _). rewrite H1, G1. cbn [andb].
    eapply IHb; [|exact G2]. apply rel_label, R.
  - destruct R as (H1 & H2 & H3 & R'). destruct l; [rewrite H1|rewrite H3]; auto.
  - destruct R as (H1 & H2 & H3 & H4 & H5 & H6). destruct l as [l|]; [|rewrite H2; auto].
    destruct (H5 _ G) as [E1 E2]. rewrite H1, H2, E1, E2. reflexivity.
  - destruct R as (H1 & H2 & H3 & H4 & R'). rewrite H4. auto.
  - apply andb_prop in G as [G G3]. apply andb_prop in G as [G G2]. apply andb_prop in G as [G0 G1].
    assert (R' := rel_plain _ _ R). rewrite G0. cbn [andb].
    rewrite (forallb_imp_Forall (chk_s (plain c)) (chk_m s) b),
            (forallb_imp_Forall (chk_s (plain c)) (chk_m s) cb),
            (forallb_imp_Forall (chk_s (plain c)) (chk_m s) fin); auto.
    + lift Hf R'.
    + lift Hc R'.
    + lift Hb R'.
  - eapply IHb; [|exact G]. auto using rel_plain.
Qed.

Lemma accepts_agree : forall p, ctl_prog p = true -> accepts_m p = accepts_s p.
Proof.
  intros p G. unfold accepts_m, accepts_s, ctl_prog in *.
  apply forallb_eq_Forall with (P := ctl top_ctx); auto.
  apply Forall_forall. intros x _ Gx. apply early_agree; auto using rel_top.
Qed.

Lemma accepts_complete : forall p, accepts_s p = true -> accepts_m p = true.
Proof.
  intros p G. unfold accepts_m, accepts_s in *.
  eapply forallb_imp_Forall; [|exact G].
  apply Forall_forall. intros x _ Gx. eapply early_complete; eauto using rel_top.
Qed.

(* ------------------------------------------------------------------ *)
(* nextStatement: the termination measure *)
Definition toks_of (s : rstate) : list (Z * bool) := fst (fst s).
Definition count_of (s : rstate) : Z := snd s.

Definition mu (s : rstate) : Z :=
  let '(t, r, c) := s in
  match t with
  | (idx, true) :: _ =>
      if idx =? r then Z.max 0 (10 - c) else if r <? idx then 11 else 0
  | _ => 0
  end.

Lemma mu_bounds : forall s, 0 <= count_of s -> 0 <= mu s <= 11.
Proof.
  intros [[t r] c] Hc. cbn in Hc. unfold mu. destruct t as [|[idx [|]] t]; try lia.
  destruct (idx =? r); [lia|]. destruct (r <? idx); lia.
Qed.

Lemma next_statement_suffix : forall t r c,
  exists pre, t = pre ++ toks_of (next_statement t r c).
Proof.
  induction t as [|[idx sync] t IH]; intros r c; cbn [next_statement].
  - exists []. reflexivity.
  - destruct sync.
    + destruct ((idx =? r) && (c <? 10)); [exists []; reflexivity|].
      destruct (r <? idx); [exists []; reflexivity|].
      destruct (IH r c) as [pre H]. exists ((idx, true) :: pre). cbn [app]. now rewrite <- H.
    + destruct (IH r c) as [pre H]. exists ((idx, false) :: pre). cbn [app]. now rewrite <- H.
Qed.

Lemma next_statement_length : forall t r c,
  (length (toks_of (next_statement t r c)) <= length t)%nat.
Proof.
  intros. destruct (next_statement_suffix t r c) as [pre H].
  rewrite H at 2. rewrite app_length. lia.
Qed.

(* one call either consumes a token, or is at EOF, or leaves the input alone and
   strictly decreases the measure; the count stays non-negative *)
Theorem next_statement_progress : forall t r c, 0 <= c ->
  let s' := next_statement t r c in
  0 <= count_of s' /\
  (t = [] \/ (length (toks_of s') < length t)%nat \/
   (toks_of s' = t /\ mu s' < mu (t, r, c))).
Proof.
  induction t as [|[idx sync] t IH]; intros r c Hc; cbn zeta.
  - cbn. split; [assumption|]. now left.
  - cbn [next_statement]. destruct sync.
    + destruct (Z.eqb_spec idx r) as [E|E]; cbn [andb].
      * destruct (Z.ltb_spec c 10) as [L|L].
        -- split; [cbn; lia|]. right; right. split; [reflexivity|].
           unfold mu. rewrite E, Z.eqb_refl. lia.
        -- subst idx. rewrite Z.ltb_irrefl.
           destruct (IH r c Hc) as [H0 _]. split; [exact H0|]. right; left.
           pose proof (next_statement_length t r c). cbn [length]. lia.
      * destruct (Z.ltb_spec r idx) as [L|L].
        -- split; [cbn; lia|]. right; right. split; [reflexivity|].
           unfold mu. rewrite Z.eqb_refl. destruct (Z.eqb_spec idx r); [contradiction|].
           destruct (Z.ltb_spec r idx); lia.
        -- destruct (IH r c Hc) as [H0 _]. split; [exact H0|]. right; left.
           pose proof (next_statement_length t r c). cbn [length]. lia.
    + destruct (IH r c Hc) as [H0 _]. split; [exact H0|]. right; left.
      pose proof (next_statement_length t r c). cbn [length]. lia.
Qed.

(* hence a caller that does nothing but call nextStatement again is stalled at most 12 times *)
Fixpoint iter_ns (n : nat) (s : rstate) : rstate :=
  match n with O => s | S n' => iter_ns n' (ns s) end.

Lemma ns_length : forall s, (length (toks_of (ns s)) <= length (toks_of s))%nat.
Proof. intros [[t r] c]. apply next_statement_length. Qed.

Lemma iter_ns_length : forall n s, (length (toks_of (iter_ns n s)) <= length (toks_of s))%nat.
Proof.
  induction n; intros s; cbn [iter_ns]; [lia|].
  pose proof (IHn (ns s)). pose proof (ns_length s). lia.
Qed.

Lemma stall_bound : forall n s, 0 <= count_of s -> mu s < Z.of_nat n -> toks_of s <> [] ->
  (length (toks_of (iter_ns n s)) < length (toks_of s))%nat.
Proof.
  induction n; intros [[t r] c] Hc Hmu Hne.
  - pose proof (mu_bounds (t, r, c) Hc). lia.
  - cbn [iter_ns ns]. cbn [toks_of fst] in *. cbn [count_of snd] in Hc.
    destruct (next_statement_progress t r c Hc) as [Hc' [H|[H|[H1 H2]]]].
    + contradiction.
    + pose proof (iter_ns_length n (next_statement t r c)). lia.
    + destruct (next_statement t r c) as [[t' r'] c'] eqn:E. cbn [toks_of fst] in H1. subst t'.
      apply (IHn (t, r', c')); auto. lia.
Qed.

Theorem resync_stalls_at_most_12 : forall s, 0 <= count_of s -> toks_of s <> [] ->
  (length (toks_of (iter_ns 12 s)) < length (toks_of s))%nat.
Proof.
  intros s Hc Hne. apply stall_bound; auto. pose proof (mu_bounds s Hc). lia.
Qed.

(* ------------------------------------------------------------------ *)
(* the no-in rule of a for-initialiser *)
Lemma noin_complete_r : forall ops r, noin_s ops = true -> noin_m r ops = true.
Proof.
  induction ops as [|o l IH]; intros r H; cbn [noin_m]; [reflexivity|].
  unfold noin_s in *. cbn [existsb] in H. apply negb_true_iff in H. apply orb_false_iff in H as [H1 H2].
  assert (Hl : negb (existsb (Z.eqb 2) l) = true) by (now rewrite H2).
  rewrite Z.eqb_sym in H1. rewrite H1. auto.
Qed.

(* otto decides the rule exactly *)
Lemma noin_agree : forall ops, noin_m false ops = noin_s ops.
Proof.
  induction ops as [|o l IH]; [reflexivity|].
  unfold noin_s in *. cbn [noin_m existsb].
  destruct (Z.eqb_spec o 2) as [->|N]; [reflexivity|].
  assert (E : (2 =? o) = false) by (apply Z.eqb_neq; auto). rewrite E. cbn [orb]. exact IH.
Qed.
