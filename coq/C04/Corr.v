(* correspondence cases for C04: what the harness observed on the real parser / ast
   package / runtime against Model (otto's algorithms) and Spec (the property) *)
From Coq Require Import ZArith Bool List.
From Otto Require Import Common.Corr C04.Spec.
From Otto Require Export C04.Tree C04.Model.
Import ListNotations.
Open Scope Z_scope.

Definition kind_code (k : kind) : Z :=
  match k with
  | KArray => 0 | KAssign => 1 | KBadExpr => 2 | KBinary => 3 | KBoolean => 4 | KBracket => 5
  | KCall => 6 | KConditional => 7 | KDot => 8 | KEmptyExpr => 9 | KFunction => 10
  | KIdentifier => 11 | KNew => 12 | KNull => 13 | KNumber => 14 | KObject => 15
  | KRegExp => 16 | KSequence => 17 | KString => 18 | KThis => 19 | KUnary => 20 | KVarExpr => 21
  | KBadStmt => 22 | KBlock => 23 | KBranch => 24 | KCase => 25 | KCatch => 26 | KDebugger => 27
  | KDoWhile => 28 | KEmptyStmt => 29 | KExprStmt => 30 | KForIn => 31 | KFor => 32
  | KFuncStmt => 33 | KIf => 34 | KLabelled => 35 | KReturn => 36 | KSwitch => 37
  | KThrow => 38 | KTry => 39 | KVarStmt => 40 | KWhile => 41 | KWith => 42 | KProgram => 43
  end.
Definition kind_eqb (a b : kind) : bool := kind_code a =? kind_code b.

Inductive case :=
(* an accepted tree with all position fields; obs = (Idx0(), Idx1()) of every node in
   pre-order, each call under recover (None = Go panic); tok_ok = the source text at the
   recorded positions is the token the field claims (checked on the Go side) *)
| CSpan (t : node) (base len : Z) (obs : list (option Z * option Z)) (tok_ok : bool)
(* the ast.Walk event stream over the same tree; stop = the visitor returns nil on that kind *)
| CWalk (t : node) (stop : option kind) (obs : list Z)
(* a generated program as a statement skeleton, whether ParseFile accepted its text, and the
   skeleton of the tree otto built (accepted programs only) *)
| CEarly (g : list stm) (accepted : bool) (obs : option (list stm))
(* pinned grammar probes: ES5 verdict, recorded otto verdict, observed otto verdict *)
| CPinned (cls : Z) (spec_acc model_acc impl_acc : bool)
(* robustness observations that must all be true: no panic, terminated, errors inside the
   input, tree-or-errors, Run rejects, global object unchanged, ... *)
| CRobust (flags : list bool)
(* for (x = <chain>; ;) ; with the chain abstracted to its operator classes (Model.noin_m);
   class 18 (`in` admitted in the right operand of a relational operator) is repaired: model = spec *)
| CNoIn (ops : list Z) (accepted : bool).

Definition oz_eqb := option_eqb Z.eqb.
Definition span_eqb (a b : option Z * option Z) : bool :=
  oz_eqb (fst a) (fst b) && oz_eqb (snd a) (snd b).

Definition model_spans (t : node) : list (option Z * option Z) :=
  map (fun n => (idx0 n, idx1 n)) (nodes t).

Definition empty_case (n : node) : bool :=
  match n with T KCase _ ([] | [_]) => true | _ => false end.
Definition empty_seq (n : node) : bool :=
  match n with T KSequence _ [] => true | _ => false end.
Definition empty_prog (n : node) : bool :=
  match n with T KProgram _ [] => true | _ => false end.
(* a node whose span check fails for one of the recorded reasons *)
Definition explained (n : node) : bool :=
  empty_case n || empty_seq n || empty_prog n ||
  existsb (fun m => empty_case m || empty_seq m) (present (kids_of n)).

Definition span_class (t : node) (base len : Z) : Z :=
  let bad := filter (fun n => negb (local_ok_b n && in_file_b base len n)) (nodes t) in
  if negb (forallb explained bad) then 30
  else if empty_prog t then 2
  else if existsb empty_case (nodes t) then 1
  else 3.

(* the property evaluated on the observed spans themselves (pre-order list), for the case
   where otto reports a span at a place where the model predicts a panic *)
Fixpoint obs_ok (n : node) (obs : list (option Z * option Z)) (lo hi : Z)
  : option (list (option Z * option Z)) :=
  match n with
  | T k f c =>
      match obs with
      | (Some a, Some b) :: rest =>
          if (lo <=? a) && (a <=? b) && (b <=? hi) then
            (fix go (l : list (child node)) (r : list (option Z * option Z)) :=
               match l with
               | [] => Some r
               | CNode m :: l' =>
                   match obs_ok m r a b with Some r' => go l' r' | None => None end
               | _ :: l' => go l' r
               end) c rest
          else None
      | _ => None
      end
  end.

Definition refines (o m : option Z) : bool :=
  match m with None => true | Some _ => oz_eqb o m end.
Definition span_refines (o m : option Z * option Z) : bool :=
  refines (fst o) (fst m) && refines (snd o) (snd m).

Fixpoint stm_eqb (a b : stm) {struct a} : bool :=
  let fix leq (x y : list stm) {struct x} : bool :=
    match x, y with
    | [], [] => true
    | p :: x', q :: y' => stm_eqb p q && leq x' y'
    | _, _ => false
    end in
  match a, b with
  | SExpr e, SExpr e' => e =? e'
  | SFnExpr x, SFnExpr y | SFunc x, SFunc y | SBlock x, SBlock y | SSwitch x, SSwitch y => leq x y
  | SIf p x, SIf q y => stm_eqb p q && leq x y
  | SLoop p, SLoop q | SWith p, SWith q => stm_eqb p q
  | SLabel l p, SLabel l' q => (l =? l') && stm_eqb p q
  | SBreak l, SBreak l' | SContinue l, SContinue l' => oz_eqb l l'
  | SReturn, SReturn => true
  | STry b hc c hf f, STry b' hc' c' hf' f' =>
      leq b b' && Bool.eqb hc hc' && leq c c' && Bool.eqb hf hf' && leq f f'
  | _, _ => false
  end.

Fixpoint first_false (i : Z) (l : list bool) : option Z :=
  match l with
  | [] => None
  | true :: l' => first_false (i + 1) l'
  | false :: _ => Some i
  end.

(* finding classes: 1 empty case clause (Idx1 panics), 2 empty program (Idx0/Idx1 panic),
   3 for(;;) initializer is an empty SequenceExpression (Idx0/Idx1 panic), 4 Walk handed a
   typed-nil node to the visitor (repaired in otto, adb8fc0: model = spec on every parser tree), 11 continue to a label that is not an iteration statement's,
   12, 13, 15, 16 pinned grammar probes; 14 (a switch cut off by the end of input was accepted) is
   repaired in otto: regression probes only, no span reason any more; 17 repaired C03-side parser
   defects kept as must-accept regression probes *)
Definition verdict (c : case) : Z * Z :=
  match c with
  | CSpan t base len obs tok_ok =>
      if negb (list_eqb span_eqb obs (model_spans t)) then
        (* otto differs from the model: acceptable only where the model predicts a panic and
           the spans otto now reports satisfy the property (a repaired finding) *)
        if tok_ok && list_eqb span_refines obs (model_spans t) &&
           match obs_ok t obs base (base + len) with Some [] => true | _ => false end
        then (2, span_class t base len) else (3, 20)
      else if negb tok_ok then (3, 21)
      else if span_prop_b t base len then (0, 0)
      else (1, span_class t base len)
  | CWalk t stop obs =>
      let stopf := match stop with None => no_stop | Some k0 => kind_eqb k0 end in
      judge zlist_eqb obs (wcodes stopf t 0) (wcodes_s stopf t 0) 4
  | CEarly g accepted obs =>
      let v := judge Bool.eqb accepted (accepts_m g) (accepts_s g) 11 in
      if (fst v =? 3) || (fst v =? 2) then v
      else match obs with
           | Some o => if list_eqb stm_eqb g o then v else (3, 22)
           | None => v
           end
  | CPinned cls spec_acc model_acc impl_acc => judge Bool.eqb impl_acc model_acc spec_acc cls
  | CNoIn ops accepted => judge Bool.eqb accepted (noin_m false ops) (noin_s ops) 18
  | CRobust flags =>
      match first_false 0 flags with None => (0, 0) | Some i => (3, 40 + i) end
  end.
