(* C04 — otto's own algorithms, transcribed:
   - every Idx0/Idx1 method of ast/node.go ([idx0], [idx1]; [None] = the Go
     method panics: nil dereference or index out of range);
   - ast.Walk of ast/walk.go ([walk], with the visitor's "stop here" answer);
   - the parse-time legality checks of parser/statement.go and parser/scope.go
     (break/continue/return/labels/try) as a checker over statement skeletons
     ([chk_m]);
   - parser/statement.go nextStatement ([next_statement]). *)
From Coq Require Import List ZArith Bool.
From Otto Require Import C04.Tree.
Import ListNotations.
Open Scope Z_scope.

(* ------------------------------------------------------------------ *)
(* Spans.  Field layout per kind ([f]); children are in Walk order.
   KArray [LeftBracket;RightBracket] kids=Value
   KAssign [] kids=[Left;Right]            KBinary [] kids=[Left;Right]
   KBadExpr/KBadStmt [From;To]             KEmptyExpr [Begin;End]
   KBoolean/KNumber/KString/KRegExp [Idx;len(Literal)]
   KIdentifier [Idx;len(Name);name-id]     KNull/KThis [Idx]
   KBracket [LeftBracket;RightBracket] kids=[Left;Member]
   KCall [LeftParenthesis;RightParenthesis] kids=Callee::ArgumentList
   KConditional [] kids=[Test;Consequent;Alternate]
   KDot [] kids=[Left;Identifier]
   KFunction [Function] kids=Name::ParameterList.List++[Body]
   KNew [New;LeftParenthesis;RightParenthesis] kids=Callee::ArgumentList
   KObject [LeftBrace;RightBrace] kids=property values
   KSequence [] kids=Sequence
   KUnary [Idx;Postfix] kids=[Operand]     KVarExpr [Idx;len(Name)] kids=[Initializer]
   KBlock [LeftBrace;RightBrace] kids=List
   KBranch [Idx;len(Token.String());is-continue] kids=[Label]
   KCase [Case] kids=Test::Consequent      KCatch [Catch] kids=[Parameter;Body]
   KDebugger [Debugger]                    KDoWhile [Do;RightParenthesis] kids=[Test;Body]
   KEmptyStmt [Semicolon]                  KExprStmt [] kids=[Expression]
   KForIn [For] kids=[Into;Source;Body]    KFor [For] kids=[Initializer;Update;Test;Body]
   KFuncStmt [] kids=[Function]            KIf [If] kids=[Test;Consequent;Alternate]
   KLabelled [Colon] kids=[Label;Statement] KReturn [Return] kids=[Argument]
   KSwitch [Switch;RightBrace;Default] kids=Discriminant::Body
   KThrow [Throw] kids=[Argument]          KTry [Try] kids=[Body;Catch;Finally]
   KVarStmt [Var] kids=List                KWhile [While] kids=[Test;Body]
   KWith [With] kids=[Object;Body]         KProgram [] kids=Body *)

(* what a method call on a child slot yields *)
Inductive cres := RNil | RTyped | RVal (v : option Z).

Definition cspan (g : node -> option Z) (c : child node) : cres :=
  match c with CNil => RNil | CTypedNil => RTyped | CNode n => RVal (g n) end.

(* calling Idx0/Idx1 on a nil interface or through a nil pointer panics *)
Definition rget (r : cres) : option Z := match r with RVal v => v | _ => None end.
Definition rv (rs : list cres) (i : nat) : option Z := rget (nth i rs RNil).
Definition rlast (rs : list cres) : option Z := rget (last rs RNil).
Definition absent (rs : list cres) (i : nat) : bool :=
  match nth i rs RNil with RVal _ => false | _ => true end.
Definition oplus (o : option Z) (d : Z) : option Z :=
  match o with Some v => Some (v + d) | None => None end.

Definition idx0_k (k : kind) (f : list Z) (rs : list cres) : option Z :=
  match k with
  | KAssign | KBinary | KBracket | KCall | KConditional | KDot | KSequence
  | KExprStmt | KFuncStmt | KLabelled | KProgram => rv rs 0
  | KUnary => if fz f 1 =? 0 then Some (fz f 0) else rv rs 0
  | _ => Some (fz f 0)
  end.

Definition idx1_k (k : kind) (f : list Z) (rs : list cres) : option Z :=
  match k with
  | KArray | KBracket | KCall | KObject | KBlock | KDoWhile | KSwitch => Some (fz f 1 + 1)
  | KAssign | KBinary | KDot | KCatch | KLabelled | KWhile | KWith => rv rs 1
  | KBadExpr | KEmptyExpr | KBadStmt => Some (fz f 1)
  | KBoolean | KIdentifier | KNumber | KRegExp | KString => Some (fz f 0 + fz f 1)
  | KConditional | KForIn => rv rs 2
  | KFunction | KSequence | KVarStmt | KProgram => rlast rs
  | KNew => if 0 <? fz f 2 then Some (fz f 2 + 1) else rv rs 0
  | KNull | KThis => Some (fz f 0 + 4)
  | KUnary => if fz f 1 =? 0 then rv rs 0 else oplus (rv rs 0) 2
  | KVarExpr => if absent rs 0 then Some (fz f 0 + fz f 1) else rv rs 0
  | KBranch => if absent rs 0 then Some (fz f 0 + fz f 1) else rv rs 0
  | KCase => match rs with _ :: _ :: _ => rlast rs | _ => None end
  | KDebugger => Some (fz f 0 + 8)
  | KEmptyStmt => Some (fz f 0 + 1)
  | KExprStmt | KFuncStmt | KThrow => rv rs 0
  | KFor => rv rs 3
  | KIf => if absent rs 2 then rv rs 1 else rv rs 2
  | KReturn => if absent rs 0 then Some (fz f 0 + 6) else rv rs 0
  | KTry => if absent rs 2 then rv rs 1 else rv rs 2
  end.

Fixpoint idx0 (n : node) : option Z :=
  match n with T k f c => idx0_k k f (map (cspan idx0) c) end.
Fixpoint idx1 (n : node) : option Z :=
  match n with T k f c => idx1_k k f (map (cspan idx1) c) end.

(* ------------------------------------------------------------------ *)
(* ast.Walk.  [stop k] is the visitor answering nil from Enter on nodes of
   kind k.  Walk tests three pointer fields for nil before descending
   (BranchStatement.Label, FunctionLiteral.Name, TryStatement.Catch: the fields
   the parser leaves nil); a nil pointer in any other pointer slot
   (DotExpression.Identifier, LabelledStatement.Label, CatchStatement.Parameter,
   FunctionStatement.Function, a parameter, a case clause) is still passed on as
   a typed-nil interface: Enter and (deferred) Exit are both called with it. *)
Inductive event := EEnter (n : node) | EExit (n : node) | ENilEnter | ENilExit.

Definition nil_checked (k : kind) (i : nat) : bool :=
  match k, i with
  | KBranch, O | KFunction, O | KTry, S O => true
  | _, _ => false
  end.

Fixpoint walk (stop : kind -> bool) (n : node) : list event :=
  match n with
  | T k f c =>
      if stop k then [EEnter n]
      else EEnter n ::
           (fix go (l : list (child node)) (i : nat) : list event :=
              match l with
              | [] => []
              | CNil :: l' => go l' (S i)
              | CTypedNil :: l' =>
                  if nil_checked k i then go l' (S i) else ENilEnter :: ENilExit :: go l' (S i)
              | CNode m :: l' => walk stop m ++ go l' (S i)
              end) c O ++ [EExit n]
  end.

Fixpoint walk_kids (stop : kind -> bool) (k : kind) (i : nat) (l : list (child node)) : list event :=
  match l with
  | [] => []
  | CNil :: l' => walk_kids stop k (S i) l'
  | CTypedNil :: l' =>
      if nil_checked k i then walk_kids stop k (S i) l'
      else ENilEnter :: ENilExit :: walk_kids stop k (S i) l'
  | CNode m :: l' => walk stop m ++ walk_kids stop k (S i) l'
  end.

Lemma walk_eq : forall stop k f c,
  walk stop (T k f c) =
  if stop k then [EEnter (T k f c)]
  else EEnter (T k f c) :: walk_kids stop k O c ++ [EExit (T k f c)].
Proof.
  intros. cbn [walk]. destruct (stop k); [reflexivity|]. f_equal. f_equal.
  generalize O. induction c as [|[| |m] c IH]; intros i; cbn [walk_kids]; try rewrite <- IH; reflexivity.
Qed.

(* nil pointers in slots that Walk does not test *)
Fixpoint stray_typed_nil (n : node) : Z :=
  match n with
  | T k f c =>
      (fix go (l : list (child node)) (i : nat) : Z :=
         match l with
         | [] => 0
         | CNode m :: l' => stray_typed_nil m + go l' (S i)
         | CTypedNil :: l' => (if nil_checked k i then 0 else 1) + go l' (S i)
         | CNil :: l' => go l' (S i)
         end) c O
  end.

Fixpoint stray_kids (k : kind) (i : nat) (l : list (child node)) : Z :=
  match l with
  | [] => 0
  | CNode m :: l' => stray_typed_nil m + stray_kids k (S i) l'
  | CTypedNil :: l' => (if nil_checked k i then 0 else 1) + stray_kids k (S i) l'
  | CNil :: l' => stray_kids k (S i) l'
  end.

Lemma stray_eq : forall k f c, stray_typed_nil (T k f c) = stray_kids k O c.
Proof.
  intros. cbn [stray_typed_nil]. generalize O.
  induction c as [|[| |m] c IH]; intros i; cbn [stray_kids]; try rewrite <- IH; reflexivity.
Qed.

(* the same traversal with nodes named by their pre-order number, as the
   harness observes it: Enter i = i, Exit i = -(i+1), nil Enter/Exit = 10^6, 10^6+1.
   Numbers are those of the full tree: a pruned subtree still uses up its numbers. *)
Fixpoint size (n : node) : Z :=
  match n with
  | T k f c =>
      1 + (fix go (l : list (child node)) : Z :=
             match l with
             | [] => 0
             | CNode m :: l' => size m + go l'
             | _ :: l' => go l'
             end) c
  end.

Fixpoint wcodes (stop : kind -> bool) (n : node) (i : Z) : list Z :=
  match n with
  | T k f c =>
      if stop k then [i]
      else i ::
           (fix go (l : list (child node)) (j : Z) (slot : nat) : list Z :=
              match l with
              | [] => []
              | CNil :: l' => go l' j (S slot)
              | CTypedNil :: l' =>
                  if nil_checked k slot then go l' j (S slot)
                  else 1000000 :: 1000001 :: go l' j (S slot)
              | CNode m :: l' => wcodes stop m j ++ go l' (j + size m) (S slot)
              end) c (i + 1) O ++ [- (i + 1)]
  end.

(* ------------------------------------------------------------------ *)
(* Statement skeletons for the parse-time legality rules. *)
Inductive stm :=
| SExpr (e : Z)                 (* expression/var/throw/empty/debugger statement; e<>0: it contains an
                                   expression-level early error of class e (generated by construction) *)
| SFnExpr (body : list stm)     (* a statement whose expression contains a function expression *)
| SFunc (body : list stm)       (* function declaration *)
| SBlock (l : list stm)
| SIf (a : stm) (b : list stm)  (* else branch: [] or [s] *)
| SLoop (body : stm)            (* while / do-while / for / for-in *)
| SSwitch (l : list stm)        (* consequents of all clauses, in order *)
| SLabel (l : Z) (s : stm)
| SBreak (l : option Z)
| SContinue (l : option Z)
| SReturn
| STry (b : list stm) (hc : bool) (c : list stm) (hf : bool) (fin : list stm)
| SWith (s : stm).

Section StmInd.
  Variable P : stm -> Prop.
  Hypothesis HExpr : forall e, P (SExpr e).
  Hypothesis HFnExpr : forall b, Forall P b -> P (SFnExpr b).
  Hypothesis HFunc : forall b, Forall P b -> P (SFunc b).
  Hypothesis HBlock : forall l, Forall P l -> P (SBlock l).
  Hypothesis HIf : forall a b, P a -> Forall P b -> P (SIf a b).
  Hypothesis HLoop : forall b, P b -> P (SLoop b).
  Hypothesis HSwitch : forall l, Forall P l -> P (SSwitch l).
  Hypothesis HLabel : forall l s, P s -> P (SLabel l s).
  Hypothesis HBreak : forall l, P (SBreak l).
  Hypothesis HContinue : forall l, P (SContinue l).
  Hypothesis HReturn : P SReturn.
  Hypothesis HTry : forall b hc c hf fin, Forall P b -> Forall P c -> Forall P fin -> P (STry b hc c hf fin).
  Hypothesis HWith : forall s, P s -> P (SWith s).
  Fixpoint stm_ind' (s : stm) : P s :=
    let fix go (l : list stm) : Forall P l :=
      match l with
      | [] => Forall_nil _
      | x :: l' => Forall_cons x (stm_ind' x) (go l')
      end in
    match s with
    | SExpr e => HExpr e
    | SFnExpr b => HFnExpr b (go b)
    | SFunc b => HFunc b (go b)
    | SBlock l => HBlock l (go l)
    | SIf a b => HIf a b (stm_ind' a) (go b)
    | SLoop b => HLoop b (stm_ind' b)
    | SSwitch l => HSwitch l (go l)
    | SLabel l s => HLabel l s (stm_ind' s)
    | SBreak l => HBreak l
    | SContinue l => HContinue l
    | SReturn => HReturn
    | STry b hc c hf fin => HTry b hc c hf fin (go b) (go c) (go fin)
    | SWith s => HWith s (stm_ind' s)
    end.
End StmInd.

Definition mem (l : Z) (ls : list Z) : bool := existsb (Z.eqb l) ls.

(* parser/scope.go: the flags of the current function scope *)
Record scope := { labels : list Z; inIter : bool; inSwitch : bool; inFunc : bool }.
Definition top_scope := {| labels := []; inIter := false; inSwitch := false; inFunc := false |}.
Definition fn_scope := {| labels := []; inIter := false; inSwitch := false; inFunc := true |}.

Fixpoint chk_m (s : scope) (x : stm) : bool :=
  match x with
  | SExpr e => e =? 0
  | SFnExpr b | SFunc b => forallb (chk_m fn_scope) b
  | SBlock l => forallb (chk_m s) l
  | SIf a b => chk_m s a && forallb (chk_m s) b
  | SLoop b => chk_m {| labels := labels s; inIter := true; inSwitch := inSwitch s; inFunc := inFunc s |} b
  | SSwitch l => forallb (chk_m {| labels := labels s; inIter := inIter s; inSwitch := true; inFunc := inFunc s |}) l
  | SLabel l b =>
      negb (mem l (labels s)) &&
      chk_m {| labels := labels s ++ [l]; inIter := inIter s; inSwitch := inSwitch s; inFunc := inFunc s |} b
  | SBreak None => inIter s || inSwitch s
  | SBreak (Some l) => mem l (labels s)                 (* scope.hasLabel *)
  | SContinue None => inIter s
  | SContinue (Some l) => mem l (labels s) && inIter s  (* hasLabel, then "if !inIteration goto illegal" *)
  | SReturn => inFunc s
  | STry b hc c hf fin =>
      (hc || hf) && forallb (chk_m s) b && forallb (chk_m s) c && forallb (chk_m s) fin
  | SWith b => chk_m s b
  end.

Definition accepts_m (prog : list stm) : bool := forallb (chk_m top_scope) prog.

(* ------------------------------------------------------------------ *)
(* nextStatement: tokens are (idx, is one of the resynchronisation keywords);
   the empty list is EOF.  State: remaining tokens, recover.idx, recover.count. *)
Definition rstate := (list (Z * bool) * Z * Z)%type.

Fixpoint next_statement (toks : list (Z * bool)) (ridx rcount : Z) : rstate :=
  match toks with
  | [] => ([], ridx, rcount)
  | (idx, sync) :: rest =>
      if sync then
        if (idx =? ridx) && (rcount <? 10) then (toks, ridx, rcount + 1)
        else if ridx <? idx then (toks, idx, 0)
        else next_statement rest ridx rcount
      else next_statement rest ridx rcount
  end.

Definition ns (s : rstate) : rstate :=
  let '(t, r, c) := s in next_statement t r c.

(* ------------------------------------------------------------------ *)
(* The `in` operator inside the first clause of a for statement (scope.allowIn in
   parser/expression.go).  The clause is abstracted to the sequence of its operators outside
   every bracket and outside the middle operand of ?: (operands are opaque):
   0 an operator binding tighter than the relational ones (+ - * / % << >> >>>),
   1 a relational operator other than in (< <= > >= instanceof), 2 in,
   3.. anything binding looser (== != === !== & ^ | && || ?: = and the comma).
   [r] is scope.allowIn (false in the clause): since 24f7b9d the operands of the relational
   operators inherit it, so an `in` at this level is accepted only when allowIn is set. *)
Fixpoint noin_m (r : bool) (ops : list Z) : bool :=
  match ops with
  | [] => true
  | o :: l => if o =? 2 then r && noin_m r l else noin_m r l
  end.
