(* C04 — the shape of otto's syntax tree (package ast) as one rose tree.
   A node is its Go type ([kind]), its position/length fields ([f], in the
   order documented per kind in Model.v) and its children in the order in
   which ast.Walk visits them.  A child slot is [CNil] (a nil interface
   value: Walk returns at once), [CTypedNil] (a nil *T stored in a pointer
   field; passed to Walk it becomes a non-nil interface holding nil) or
   [CNode n]. *)
From Coq Require Import List ZArith Bool.
Import ListNotations.
Open Scope Z_scope.

Inductive kind :=
| KArray | KAssign | KBadExpr | KBinary | KBoolean | KBracket | KCall | KConditional
| KDot | KEmptyExpr | KFunction | KIdentifier | KNew | KNull | KNumber | KObject
| KRegExp | KSequence | KString | KThis | KUnary | KVarExpr
| KBadStmt | KBlock | KBranch | KCase | KCatch | KDebugger | KDoWhile | KEmptyStmt
| KExprStmt | KForIn | KFor | KFuncStmt | KIf | KLabelled | KReturn | KSwitch
| KThrow | KTry | KVarStmt | KWhile | KWith | KProgram.

Inductive child (A : Type) := CNil | CTypedNil | CNode (a : A).
Arguments CNil {A}.
Arguments CTypedNil {A}.
Arguments CNode {A} a.

Inductive node := T (k : kind) (f : list Z) (c : list (child node)).

Definition kind_of (n : node) := match n with T k _ _ => k end.
Definition fields_of (n : node) := match n with T _ f _ => f end.
Definition kids_of (n : node) := match n with T _ _ c => c end.

(* the property of a child slot that holds a node *)
Definition on_child {A} (P : A -> Prop) (ch : child A) : Prop :=
  match ch with CNode n => P n | _ => True end.

Section NodeInd.
  Variable P : node -> Prop.
  Hypothesis H : forall k f c, Forall (on_child P) c -> P (T k f c).
  Fixpoint node_ind' (n : node) : P n :=
    match n with
    | T k f c =>
        H k f c ((fix go (l : list (child node)) : Forall (on_child P) l :=
                    match l with
                    | [] => Forall_nil _
                    | ch :: l' =>
                        Forall_cons ch
                          (match ch return on_child P ch with
                           | CNode m => node_ind' m
                           | CNil => I
                           | CTypedNil => I
                           end) (go l')
                    end) c)
    end.
End NodeInd.

(* the present children of a node, in slot order *)
Fixpoint present (c : list (child node)) : list node :=
  match c with
  | [] => []
  | CNode n :: c' => n :: present c'
  | _ :: c' => present c'
  end.

(* every node of a tree (the tree itself first), in depth-first pre-order *)
Fixpoint nodes (n : node) : list node :=
  match n with
  | T k f c =>
      n :: (fix go (l : list (child node)) : list node :=
              match l with
              | [] => []
              | CNode m :: l' => nodes m ++ go l'
              | _ :: l' => go l'
              end) c
  end.

Fixpoint nodes_kids (l : list (child node)) : list node :=
  match l with
  | [] => []
  | CNode m :: l' => nodes m ++ nodes_kids l'
  | _ :: l' => nodes_kids l'
  end.

Lemma nodes_eq : forall k f c, nodes (T k f c) = T k f c :: nodes_kids c.
Proof.
  intros. reflexivity.
Qed.

(* post-order (the order of Exit calls) *)
Fixpoint nodes_post (n : node) : list node :=
  match n with
  | T k f c =>
      (fix go (l : list (child node)) : list node :=
         match l with
         | [] => []
         | CNode m :: l' => nodes_post m ++ go l'
         | _ :: l' => go l'
         end) c ++ [n]
  end.

Fixpoint count_typed_nil (n : node) : Z :=
  match n with
  | T k f c =>
      (fix go (l : list (child node)) : Z :=
         match l with
         | [] => 0
         | CNode m :: l' => count_typed_nil m + go l'
         | CTypedNil :: l' => 1 + go l'
         | CNil :: l' => go l'
         end) c
  end.

Definition fz (f : list Z) (i : nat) : Z := nth i f 0.
