(* C04 — what the property demands, executable:
   - spans: every node reports a span, non-inverted, inside its parent's span and inside the file;
   - Walk: Enter/Exit exactly once per non-nil node, properly nested, never a nil node;
   - ES5 12.7 / 12.8 / 12.9 / 12.12 / 12.14 static rules over statement skeletons. *)
From Coq Require Import List ZArith Bool.
From Otto Require Import C04.Tree C04.Model.
Import ListNotations.
Open Scope Z_scope.

(* ---------------- spans ---------------- *)
Definition span_of (n : node) : option (Z * Z) :=
  match idx0 n, idx1 n with Some a, Some b => Some (a, b) | _, _ => None end.

Definition within (outer : Z * Z) (n : node) : bool :=
  match span_of n with
  | Some (a, b) => (fst outer <=? a) && (a <=? b) && (b <=? snd outer)
  | None => false
  end.

(* the node reports a span and each of its present children reports one inside it *)
Definition local_ok_b (n : node) : bool :=
  match span_of n with
  | Some (a, b) => (a <=? b) && forallb (within (a, b)) (present (kids_of n))
  | None => false
  end.

Definition all_local_ok (t : node) : bool := forallb local_ok_b (nodes t).

(* file.Idx of the first byte is [base]; one past the last byte is [base+len] *)
Definition in_file_b (base len : Z) (n : node) : bool := within (base, base + len) n.

Definition span_prop_b (t : node) (base len : Z) : bool :=
  all_local_ok t && forallb (in_file_b base len) (nodes t).

(* ---------------- Walk ---------------- *)
Fixpoint walk_s (stop : kind -> bool) (n : node) : list event :=
  match n with
  | T k f c =>
      if stop k then [EEnter n]
      else EEnter n ::
           (fix go (l : list (child node)) : list event :=
              match l with
              | [] => []
              | CNode m :: l' => walk_s stop m ++ go l'
              | _ :: l' => go l'
              end) c ++ [EExit n]
  end.

Fixpoint walk_s_kids (stop : kind -> bool) (l : list (child node)) : list event :=
  match l with
  | [] => []
  | CNode m :: l' => walk_s stop m ++ walk_s_kids stop l'
  | _ :: l' => walk_s_kids stop l'
  end.

Lemma walk_s_eq : forall stop k f c,
  walk_s stop (T k f c) =
  if stop k then [EEnter (T k f c)]
  else EEnter (T k f c) :: walk_s_kids stop c ++ [EExit (T k f c)].
Proof.
  intros. cbn [walk_s]. destruct (stop k); [reflexivity|]. f_equal. f_equal.
  induction c as [|[| |m] c IH]; cbn [walk_s_kids]; try rewrite <- IH; reflexivity.
Qed.

Fixpoint wcodes_s (stop : kind -> bool) (n : node) (i : Z) : list Z :=
  match n with
  | T k f c =>
      if stop k then [i]
      else i ::
           (fix go (l : list (child node)) (j : Z) : list Z :=
              match l with
              | [] => []
              | CNode m :: l' => wcodes_s stop m j ++ go l' (j + size m)
              | _ :: l' => go l' j
              end) c (i + 1) ++ [- (i + 1)]
  end.

Definition no_stop (k : kind) := false.

Fixpoint enters (l : list event) : list node :=
  match l with
  | [] => []
  | EEnter n :: l' => n :: enters l'
  | _ :: l' => enters l'
  end.
Fixpoint exits (l : list event) : list node :=
  match l with
  | [] => []
  | EExit n :: l' => n :: exits l'
  | _ :: l' => exits l'
  end.
Definition is_nil_event (e : event) : bool :=
  match e with ENilEnter | ENilExit => true | _ => false end.

(* Enter/Exit calls are properly nested: run the events against a stack of open nodes;
   node identity is not available in Gallina, so the stack holds the nodes themselves
   and an Exit must find the node on top (Leibniz equality, decided structurally below
   by [depth] only: every Exit closes the innermost open Enter) *)
Fixpoint balanced_from (depth : nat) (l : list event) : option nat :=
  match l with
  | [] => Some depth
  | (EEnter _ | ENilEnter) :: l' => balanced_from (S depth) l'
  | (EExit _ | ENilExit) :: l' =>
      match depth with O => None | S d => balanced_from d l' end
  end.

(* ---------------- ES5 static rules ---------------- *)
(* encl: labels of the enclosing labelled statements (same function);
   iterl: labels belonging to the label set of an enclosing iteration statement;
   pend: the label set being accumulated (labels immediately prefixing the current statement) *)
Record ctx := { encl : list Z; iterl : list Z; pend : list Z;
                c_iter : bool; c_brk : bool; c_fn : bool }.
Definition top_ctx := {| encl := []; iterl := []; pend := []; c_iter := false; c_brk := false; c_fn := false |}.
Definition fn_ctx := {| encl := []; iterl := []; pend := []; c_iter := false; c_brk := false; c_fn := true |}.
Definition plain (c : ctx) : ctx :=
  {| encl := encl c; iterl := iterl c; pend := []; c_iter := c_iter c; c_brk := c_brk c; c_fn := c_fn c |}.
Definition in_loop (c : ctx) : ctx :=
  {| encl := encl c; iterl := pend c ++ iterl c; pend := []; c_iter := true; c_brk := true; c_fn := c_fn c |}.
Definition in_switch (c : ctx) : ctx :=
  {| encl := encl c; iterl := iterl c; pend := []; c_iter := c_iter c; c_brk := true; c_fn := c_fn c |}.
Definition under_label (l : Z) (c : ctx) : ctx :=
  {| encl := l :: encl c; iterl := iterl c; pend := l :: pend c; c_iter := c_iter c; c_brk := c_brk c; c_fn := c_fn c |}.

Fixpoint chk_s (c : ctx) (x : stm) : bool :=
  match x with
  | SExpr e => e =? 0
  | SFnExpr b | SFunc b => forallb (chk_s fn_ctx) b                       (* 13: a new FunctionBody *)
  | SBlock l => forallb (chk_s (plain c)) l
  | SIf a b => chk_s (plain c) a && forallb (chk_s (plain c)) b
  | SLoop b => chk_s (in_loop c) b
  | SSwitch l => forallb (chk_s (in_switch c)) l
  | SLabel l b => negb (mem l (encl c)) && chk_s (under_label l c) b      (* 12.12 *)
  | SBreak None => c_brk c                                                (* 12.8 *)
  | SBreak (Some l) => mem l (encl c)                                     (* 12.8 *)
  | SContinue None => c_iter c                                            (* 12.7 *)
  | SContinue (Some l) => mem l (iterl c)                                 (* 12.7: label set of an enclosing IterationStatement *)
  | SReturn => c_fn c                                                     (* 12.9 *)
  | STry b hc cb hf fin =>                                                (* 12.14: Catch, Finally or both *)
      (hc || hf) && forallb (chk_s (plain c)) b && forallb (chk_s (plain c)) cb && forallb (chk_s (plain c)) fin
  | SWith b => chk_s (plain c) b
  end.

Definition accepts_s (prog : list stm) : bool := forallb (chk_s top_ctx) prog.

(* guard: every labelled continue whose label is in scope inside a loop names a label
   of an enclosing iteration statement *)
Fixpoint ctl (c : ctx) (x : stm) : bool :=
  match x with
  | SExpr _ | SBreak _ | SReturn | SContinue None => true
  | SFnExpr b | SFunc b => forallb (ctl fn_ctx) b
  | SBlock l => forallb (ctl (plain c)) l
  | SIf a b => ctl (plain c) a && forallb (ctl (plain c)) b
  | SLoop b => ctl (in_loop c) b
  | SSwitch l => forallb (ctl (in_switch c)) l
  | SLabel l b => ctl (under_label l c) b
  | SContinue (Some l) => implb (mem l (encl c) && c_iter c) (mem l (iterl c))
  | STry b _ cb _ fin => forallb (ctl (plain c)) b && forallb (ctl (plain c)) cb && forallb (ctl (plain c)) fin
  | SWith b => ctl (plain c) b
  end.
Definition ctl_prog (prog : list stm) : bool := forallb (ctl top_ctx) prog.

(* ES5 11.8-11.14, 12.6.3: the NoIn productions admit no `in` operator outside brackets and the
   middle operand of ?: *)
Definition noin_s (ops : list Z) : bool := negb (existsb (Z.eqb 2) ops).
