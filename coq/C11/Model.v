(* C11 — the JavaScript side of JSON: values JSON.stringify is applied to,
   the replacer / property-list / space / reviver families the harness draws
   from, the 15.12.3 serialisation [stringify] and the 15.12.2 reviver walk.

   One function, [stringify fl], covers both ES5 and otto: with all flags off
   it is ES5 15.12.3 (the Spec side; ProofsStr.v proves its shape: what is
   omitted, what becomes null, gap <= 10, cycles); each flag switches on one place where otto
   (builtin_json.go, which hands the text work to Go's encoding/json) departs
   from ES5:
     f_sort   object members are emitted in sorted key order (Go map + json.Marshal)
     f_esc    json.Marshal's HTML-safe escapes: < > & U+2028 U+2029 as \uXXXX
     f_surr   unpaired surrogates become U+FFFD (Go strings are UTF-8)
     f_gap    a string gap is cut to 10 bytes of UTF-8 instead of 10 code units
     f_int    an integral number below 2^63 is printed with all the digits of its
              exact value (strconv.FormatInt) instead of the shortest digits of 9.8.1 *)
From Coq Require Import ZArith List Bool Lia.
From Otto Require Import Common.Double C11.Spec.
Import ListNotations.
Open Scope Z_scope.

(* ------------------------------------------------------------------ *)
(* what the harness observes of a JavaScript value *)
Inductive ov :=
| OUndef | OHole | ONull
| OBool (b : bool)
| ONum (bits : Z)
| OStr (s : list Z)
| OArr (l : list ov)
| OObj (m : list (list Z * ov))
| OOther.

Fixpoint to_ov (v : jv Z) : ov :=
  match v with
  | JNull => ONull
  | JBool b => OBool b
  | JNum n => ONum n
  | JStr s => OStr s
  | JArr l => OArr (map to_ov l)
  | JObj m => OObj (map (fun kv => (fst kv, to_ov (snd kv))) m)
  end.

Fixpoint lookup {V} (k : list Z) (m : list (list Z * V)) : option V :=
  match m with
  | [] => None
  | (k', v) :: m' => if key_eqb k k' then Some v else lookup k m'
  end.

(* equality of observations; object members compared as a finite map (the
   order of keys is compared separately where it is deterministic) *)
Fixpoint ov_eqb (a b : ov) {struct a} : bool :=
  match a, b with
  | OUndef, OUndef | OHole, OHole | ONull, ONull | OOther, OOther => true
  | OBool x, OBool y => Bool.eqb x y
  | ONum x, ONum y => x =? y
  | OStr x, OStr y => key_eqb x y
  | OArr x, OArr y =>
      (fix go (x : list ov) (y : list ov) : bool :=
         match x, y with
         | [], [] => true
         | u :: x', v :: y' => ov_eqb u v && go x' y'
         | _, _ => false
         end) x y
  | OObj x, OObj y =>
      (Nat.eqb (length x) (length y)) &&
      (fix go (x : list (list Z * ov)) : bool :=
         match x with
         | [] => true
         | (k, u) :: x' => match lookup k y with Some v => ov_eqb u v | None => false end && go x'
         end) x
  | _, _ => false
  end.

(* same, members in the same order *)
Fixpoint ov_eqb_ord (a b : ov) {struct a} : bool :=
  match a, b with
  | OUndef, OUndef | OHole, OHole | ONull, ONull | OOther, OOther => true
  | OBool x, OBool y => Bool.eqb x y
  | ONum x, ONum y => x =? y
  | OStr x, OStr y => key_eqb x y
  | OArr x, OArr y =>
      (fix go (x : list ov) (y : list ov) : bool :=
         match x, y with
         | [], [] => true
         | u :: x', v :: y' => ov_eqb_ord u v && go x' y'
         | _, _ => false
         end) x y
  | OObj x, OObj y =>
      (fix go (x : list (list Z * ov)) (y : list (list Z * ov)) : bool :=
         match x, y with
         | [], [] => true
         | (k, u) :: x', (k', v) :: y' => key_eqb k k' && ov_eqb_ord u v && go x' y'
         | _, _ => false
         end) x y
  | _, _ => false
  end.

(* ------------------------------------------------------------------ *)
(* UTF-16 -> code points, unpaired surrogates to U+FFFD (what a Go string holds) *)
Definition is_hi (c : Z) : bool := (0xD800 <=? c) && (c <=? 0xDBFF).
Definition is_lo (c : Z) : bool := (0xDC00 <=? c) && (c <=? 0xDFFF).

Fixpoint to_cps (s : list Z) : list Z :=
  match s with
  | [] => []
  | c :: r =>
      if is_hi c then
        match r with
        | d :: r' => if is_lo d then (0x10000 + (c - 0xD800) * 1024 + (d - 0xDC00)) :: to_cps r'
                     else 0xFFFD :: to_cps r
        | [] => [0xFFFD]
        end
      else if is_lo c then 0xFFFD :: to_cps r
      else c :: to_cps r
  end.

(* same, unpaired surrogates kept as they are (three UTF-8 bytes each, like U+FFFD) *)
Fixpoint to_cps_raw (s : list Z) : list Z :=
  match s with
  | [] => []
  | c :: r =>
      if is_hi c then
        match r with
        | d :: r' => if is_lo d then (0x10000 + (c - 0xD800) * 1024 + (d - 0xDC00)) :: to_cps_raw r'
                     else c :: to_cps_raw r
        | [] => [c]
        end
      else c :: to_cps_raw r
  end.

Fixpoint of_cps (s : list Z) : list Z :=
  match s with
  | [] => []
  | c :: r => if 0x10000 <=? c
              then (0xD800 + (c - 0x10000) / 1024) :: (0xDC00 + (c - 0x10000) mod 1024) :: of_cps r
              else c :: of_cps r
  end.

Definition sanitize (s : list Z) : list Z := of_cps (to_cps s).

Fixpoint cps_ltb (a b : list Z) : bool :=
  match a, b with
  | [], [] => false
  | [], _ :: _ => true
  | _ :: _, [] => false
  | x :: a', y :: b' => if x <? y then true else if y <? x then false else cps_ltb a' b'
  end.

(* sorted insertion by code-point order (Go sorts the UTF-8 bytes); equal keys: the later one wins *)
Fixpoint ins_sorted {V} (k : list Z) (v : V) (m : list (list Z * V)) : list (list Z * V) :=
  match m with
  | [] => [(k, v)]
  | (k', v') :: m' =>
      if key_eqb k k' then (k, v) :: m'
      else if cps_ltb (to_cps k) (to_cps k') then (k, v) :: m
      else (k', v') :: ins_sorted k v m'
  end.
Definition sort_members {V} (m : list (list Z * V)) : list (list Z * V) :=
  fold_left (fun acc kv => ins_sorted (fst kv) (snd kv) acc) m [].

Fixpoint ov_sanitize (v : ov) : ov :=
  match v with
  | OStr s => OStr (sanitize s)
  | OArr l => OArr (map ov_sanitize l)
  | OObj m => OObj (fold_left (fun acc kv => set_key (sanitize (fst kv)) (ov_sanitize (snd kv)) acc) m [])
  | _ => v
  end.

(* ------------------------------------------------------------------ *)
(* numbers: decimal digits, ES5 9.8.1 text from a certified (digits, n) pair *)
Fixpoint dec_fuel (fuel : nat) (n : Z) (acc : list Z) : list Z :=
  match fuel with
  | O => acc
  | S f => if n <? 10 then (48 + n) :: acc else dec_fuel f (n / 10) ((48 + n mod 10) :: acc)
  end.
Definition dec (n : Z) : list Z := dec_fuel 400 n [].

Definition zeros (n : Z) : list Z := repeat 48 (Z.to_nat n).

Definition es5_num_body (digs : list Z) (n : Z) : list Z :=
  let k := Z.of_nat (length digs) in
  if (k <=? n) && (n <=? 21) then digs ++ zeros (n - k)
  else if (0 <? n) && (n <=? 21) then firstn (Z.to_nat n) digs ++ [46] ++ skipn (Z.to_nat n) digs
  else if (-6 <? n) && (n <=? 0) then [48; 46] ++ zeros (- n) ++ digs
  else
    let e := n - 1 in
    let es := (if e <? 0 then 45 else 43) :: dec (Z.abs e) in
    match digs with
    | [] => []
    | [d] => d :: 101 :: es
    | d :: r => d :: 46 :: r ++ 101 :: es
    end.

(* is (digs, n) the pair ES5 9.8.1 step 5 asks for: k >= 1 digits, no leading
   zero, s * 10^(n-k) reads back to the double, and no shorter digit string does *)
Definition reads_back (mag s e10 : Z) : bool :=
  (if 0 <=? e10 then q_to_bits (s * 10 ^ e10) 1 else q_to_bits s (10 ^ (- e10))) =? mag.

Definition num_ok (bits : Z) (digs : list Z) (n : Z) : bool :=
  let mag := bits mod 2 ^ 63 in
  let k := Z.of_nat (length digs) in
  let s := digits_val 0 digs in
  match digs with
  | [] => false
  | d0 :: _ =>
      forallb is_digit digs && negb (d0 =? 48) && (k <=? 17) && reads_back mag s (n - k) &&
      (if k =? 1 then true
       else negb (reads_back mag (s / 10) (n - k + 1)) && negb (reads_back mag (s / 10 + 1) (n - k + 1)))
  end.

Definition is_finite_bits (bits : Z) : bool := negb ((bits / 2 ^ 52) mod 2 ^ 11 =? 2047).

(* ------------------------------------------------------------------ *)
(* JavaScript values handed to JSON.stringify (trees; [Cyc] is a reference
   back to an enclosing container, which makes the structure cyclic) *)
Inductive js :=
| Undef | Null
| Bool (b : bool)
| Num (bits : Z) (digs : list Z) (n : Z)       (* digs, n: the 9.8.1 certificate, checked by num_ok *)
| Str (s : list Z)
| Fun
| WNum (bits : Z) (digs : list Z) (n : Z)      (* new Number(..) *)
| WStr (s : list Z)                            (* new String(..) *)
| WBool (b : bool)                             (* new Boolean(..) *)
| Arr (l : list js)
| Obj (m : list (list Z * js))
| ObjH (m h : list (list Z * js))   (* own enumerable members m; h: what else [[Get]] finds (members of the
                                       prototype chain, own non-enumerable ones), seen only through a property list *)
| ToJ (k : Z) (inner : js)   (* object whose only own property is a toJSON method: k=0 returns inner, 1 the key, 2 undefined, 3 typeof this.toJSON; 4: a Date, inherited method returning inner *)
| Cyc (is_arr : bool).

(* replacer: none, one of a family of functions, or a property list *)
Inductive pitem := PStr (s : list Z) | PNum (n : Z) | PWStr (s : list Z) | PWNum (n : Z) | PJunk.
Inductive replacer := RNone | RFun (id : Z) | RList (l : list pitem).
Inductive space := SNone | SNum (bits : Z) | SStr (s : list Z) | SWNum (bits : Z) | SWStr (s : list Z) | SJunk.

Record flags := { f_sort : bool; f_esc : bool; f_surr : bool; f_gap : bool; f_int : bool }.
Definition es5 : flags := Build_flags false false false false false.
Definition otto : flags := Build_flags true true true true true.

(* replacer functions of the family (key, value) -> value *)
Definition rep_fun (id : Z) (inarr : bool) (key : list Z) (v : js) : js :=
  if id =? 0 then v
  else if id =? 1 then match v with Num _ _ _ => Str [78] | _ => v end                 (* numbers -> "N" *)
  else if id =? 2 then if key_eqb key [97] then Undef else v                           (* drop key "a" *)
  else if id =? 3 then match v with Str s => WStr s | _ => v end                        (* strings -> String objects *)
  else if id =? 4 then if key_eqb key [] then Obj [([119], v)] else v                   (* key "" -> {w: v} *)
  else if id =? 5 then match v with Arr _ | Cyc true => Null | _ => v end                          (* arrays -> null *)
  else if id =? 7 then if key_eqb key [115]                                              (* key "s" -> one shared [1,[2]] *)
                       then Arr [Num 4607182418800017408 [49] 1; Arr [Num 4611686018427387904 [50] 1]] else v
  else if id =? 8 then match v with Num b d n => WNum b d n | Bool b => WBool b | _ => v end   (* primitives -> wrapper objects *)
  else if id =? 9 then if key_eqb key [99] then Cyc false else v                          (* key "c" -> the holder: a cycle *)
  else if id =? 10 then match v with Undef => Str [85] | _ => v end                       (* undefined -> "U" *)
  else if id =? 11 then match v with Fun => Str [70] | _ => v end                         (* functions -> "F" *)
  else if id =? 12 then match v with Null | Str _ => Undef | _ => v end                   (* null and strings -> undefined *)
  else if id =? 13 then                                  (* call log in the text: key:typeof value:holder kind *)
    let tag (t : list Z) := Str (key ++ 58 :: t ++ 58 :: [if inarr then 65 else 79]) in
    match v with
    | Undef => tag [117; 110; 100; 101; 102; 105; 110; 101; 100]
    | Fun => tag [102; 117; 110; 99; 116; 105; 111; 110]
    | Null => tag [111; 98; 106; 101; 99; 116]
    | Bool _ => tag [98; 111; 111; 108; 101; 97; 110]
    | _ => v
    end
  else if id =? 14 then                  (* numbers / strings -> wrapper objects whose valueOf / toString is overridden *)
    match v with
    | Num _ _ _ => WNum 4631107791820423168 [52; 50] 2      (* ToNumber(value) = 42 *)
    | Str _ => WStr [122; 122]                               (* ToString(value) = "zz" *)
    | _ => v
    end
  else v.

(* 15.12.3 step 4.b: the property list K *)
Definition pitem_name (p : pitem) : option (list Z) :=
  match p with
  | PStr s | PWStr s => Some s
  | PNum n | PWNum n => Some (if n <? 0 then 45 :: dec (- n) else dec n)
  | PJunk => None
  end.

Fixpoint mem_key (k : list Z) (l : list (list Z)) : bool :=
  match l with [] => false | x :: r => key_eqb k x || mem_key k r end.

Fixpoint plist_es5 (l : list pitem) (seen : list (list Z)) : list (list Z) :=
  match l with
  | [] => []
  | p :: r => match pitem_name p with
              | Some k => if mem_key k seen then plist_es5 r seen else k :: plist_es5 r (k :: seen)
              | None => plist_es5 r seen
              end
  end.

(* with f_surr the names go through a Go string *)
Definition plist_of (fl : flags) (l : list pitem) : list (list Z) :=
  let l' := if f_surr fl then map (fun p => match p with PStr s => PStr (sanitize s) | PWStr s => PWStr (sanitize s) | _ => p end) l else l in
  plist_es5 l' [].

(* ------------------------------------------------------------------ *)
(* 15.12.3 Str / JO / JA as value -> JSON tree (numbers as their text); the
   text is then laid out by Spec.printg (or its Go twin below) *)
Inductive dres := DUndef | DVal (v : tv) | DErr (cls : Z).

Definition js_lookup (fl : flags) (k : list Z) (m : list (list Z * js)) : js :=
  match lookup k (if f_surr fl then map (fun kv => (sanitize (fst kv), snd kv)) m else m) with
  | Some v => v
  | None => Undef
  end.

Definition num_tree (fl : flags) (bits : Z) (digs : list Z) (n : Z) : dres :=
  if negb (is_finite_bits bits) then DVal JNull
  else if bits mod 2 ^ 63 =? 0 then DVal (JNum [48])
  else if num_ok bits digs n
       then let sg := if bits <? 2 ^ 63 then [] else [45] in
            match (if f_int fl then int_of_bits bits else None) with
            | Some i => if Z.abs i <? 2 ^ 63 then DVal (JNum (sg ++ dec (Z.abs i)))
                        else DVal (JNum (sg ++ es5_num_body digs n))
            | None => DVal (JNum (sg ++ es5_num_body digs n))
            end
       else DErr 98.   (* the harness handed over a wrong certificate *)

(* elements of an array: undefined -> null; the first error wins *)
Fixpoint seq_arr (l : list dres) : dres :=
  match l with
  | [] => DVal (JArr [])
  | x :: r =>
      match x with
      | DErr c => DErr c
      | _ => match seq_arr r with
             | DVal (JArr vs) => DVal (JArr ((match x with DVal v => v | _ => JNull end) :: vs))
             | e => e
             end
      end
  end.

Fixpoint seq_obj (l : list (list Z * dres)) : dres :=
  match l with
  | [] => DVal (JObj [])
  | (k, x) :: r =>
      match x with
      | DErr c => DErr c
      | _ => match seq_obj r with
             | DVal (JObj ms) => DVal (JObj (match x with DVal v => (k, v) :: ms | _ => ms end))
             | e => e
             end
      end
  end.

Fixpoint index_from (i : Z) (l : list js) : list (list Z * js) :=
  match l with [] => [] | x :: r => (dec i, x) :: index_from (i + 1) r end.

Definition own_keys (fl : flags) (m : list (list Z * js)) : list (list Z) :=
  let ks := map (fun kv => if f_surr fl then sanitize (fst kv) else fst kv) m in
  (* a key written twice keeps its first position *)
  fold_left (fun acc k => if mem_key k acc then acc else acc ++ [k]) ks [].

(* [called]: the value is the result of a toJSON call (toJSON is not applied again) *)
Fixpoint str_walk (fl : flags) (rep : replacer) (plist : option (list (list Z))) (fuel : nat)
         (called : bool) (inarr : bool) (key : list Z) (v : js) {struct fuel} : dres :=
  match fuel with
  | O => DErr 97
  | S f =>
      (* 1-2: toJSON *)
      match (if called then None else match v with ToJ k inner => Some (k, inner) | _ => None end) with
      | Some (k, inner) =>
          let r := if (k =? 0) || (k =? 4) then inner else if k =? 1 then Str key
                   else if k =? 3 then Str [102; 117; 110; 99; 116; 105; 111; 110] (* typeof this.toJSON *)
                   else Undef in
          str_walk fl rep plist f true inarr key r
      | None =>
          (* 3: replacer function *)
          let v1 := match rep with RFun id => rep_fun id inarr key v | _ => v end in
          (* an object with a toJSON method that reaches this point (its method is not called
             again) is a plain object: own property toJSON for the script-made ones, no own
             property for a Date (k = 4, the method is inherited) *)
          let v2 := match v1 with
                    | ToJ k _ => Obj (if k =? 4 then [] else [([116; 111; 74; 83; 79; 78], Fun)])
                    | _ => v1
                    end in
          (* 4: unwrap *)
          match v2 with
          | Null => DVal JNull
          | Bool b | WBool b => DVal (JBool b)
          | Str s | WStr s => DVal (JStr (if f_surr fl then sanitize s else s))
          | Num b d n | WNum b d n => num_tree fl b d n
          | Undef | Fun => DUndef
          | Cyc _ => DErr 6
          | Arr l => seq_arr (map (fun kv => str_walk fl rep plist f false true (fst kv) (snd kv)) (index_from 0 l))
          | Obj m =>
              let ks := match plist with Some p => p | None => own_keys fl m end in
              seq_obj (map (fun k => (k, str_walk fl rep plist f false false k (js_lookup fl k m))) ks)
          | ObjH m h =>
              (* JO: K is the property list as it is, or the own enumerable keys; Str reads each
                 name with [[Get]], which an own member answers first, then the rest of the chain *)
              let ks := match plist with Some p => p | None => own_keys fl m end in
              seq_obj (map (fun k => (k, str_walk fl rep plist f false false k (js_lookup fl k (m ++ h)))) ks)
          | ToJ _ _ => DVal (JObj [])   (* not reached: rewritten to Obj above *)
          end
      end
  end.

(* ------------------------------------------------------------------ *)
(* gap: 15.12.3 steps 5-8 *)
Definition to_integer_clamped (bits : Z) : Z :=   (* min(10, ToInteger(space)), floored at 0 *)
  match decode bits with
  | DNaN => 0
  | DInf neg => if neg then 0 else 10
  | DFin neg m e => if neg then 0 else Z.min 10 (trunc_mag m e)
  end.

Definition utf8_len (cp : Z) : Z := if cp <? 0x80 then 1 else if cp <? 0x800 then 2 else if cp <? 0x10000 then 3 else 4.

(* first 10 bytes of the UTF-8 form, seen again as UTF-16: whole code points
   that fit, then one U+FFFD per byte of a code point that was cut *)
Fixpoint gap_bytes (cps : list Z) (room : Z) : list Z :=
  match cps with
  | [] => []
  | c :: r => let n := utf8_len c in
              if n <=? room then c :: gap_bytes r (room - n)
              else repeat 0xFFFD (Z.to_nat room)
  end.

Definition gap_of (fl : flags) (sp : space) : list Z :=
  match sp with
  | SNone | SJunk => []
  | SNum b | SWNum b => repeat 32 (Z.to_nat (to_integer_clamped b))
  | SStr s | SWStr s =>
      if f_gap fl then of_cps (gap_bytes (if f_surr fl then to_cps s else to_cps_raw s) 10)
      else firstn 10 (if f_surr fl then sanitize s else s)
  end.

(* ------------------------------------------------------------------ *)
(* Go's json.Marshal string form and layout (json.Indent lays out exactly as 15.12.3 does) *)
Definition go_quote_char (fl : flags) (c : Z) : list Z :=
  if f_esc fl && ((c =? 60) || (c =? 62) || (c =? 38) || (c =? 0x2028) || (c =? 0x2029))
  then [92; 117; hexdigit (c / 4096); hexdigit ((c / 256) mod 16); hexdigit ((c / 16) mod 16); hexdigit (c mod 16)]
  else quote_char c.

Definition quote_fl (fl : flags) (s : list Z) : list Z :=
  34 :: flat_map (go_quote_char fl) s ++ [34].

Fixpoint print_fl (fl : flags) (gap ind : list Z) (v : tv) {struct v} : list Z :=
  match v with
  | JNull => [110; 117; 108; 108]
  | JBool true => [116; 114; 117; 101]
  | JBool false => [102; 97; 108; 115; 101]
  | JNum t => t
  | JStr s => quote_fl fl s
  | JArr l =>
      match l with
      | [] => [91; 93]
      | _ =>
          let ind' := ind ++ gap in
          let items := map (print_fl fl gap ind') l in
          if is_nil gap then 91 :: sepjoin [44] items ++ [93]
          else 91 :: (10 :: ind') ++ sepjoin (44 :: 10 :: ind') items ++ (10 :: ind) ++ [93]
      end
  | JObj m =>
      match m with
      | [] => [123; 125]
      | _ =>
          let ind' := ind ++ gap in
          let items := map (fun kv => quote_fl fl (fst kv) ++ 58 :: (if is_nil gap then [] else [32])
                                        ++ print_fl fl gap ind' (snd kv)) m in
          if is_nil gap then 123 :: sepjoin [44] items ++ [125]
          else 123 :: (10 :: ind') ++ sepjoin (44 :: 10 :: ind') items ++ (10 :: ind) ++ [125]
      end
  end.

Fixpoint sort_tree (v : tv) : tv :=
  match v with
  | JArr l => JArr (map sort_tree l)
  | JObj m => JObj (sort_members (map (fun kv => (fst kv, sort_tree (snd kv))) m))
  | _ => v
  end.

Inductive sres := SUndefined | SText (t : list Z) | SErr (cls : Z).

Definition stringify (fl : flags) (v : js) (rep : replacer) (sp : space) : sres :=
  let plist := match rep with RList l => Some (plist_of fl l) | _ => None end in
  match str_walk fl rep plist 60 false false [] v with
  | DUndef => SUndefined
  | DErr c => SErr c
  | DVal t => SText (print_fl fl (gap_of fl sp) [] (if f_sort fl then sort_tree t else t))
  end.

(* ------------------------------------------------------------------ *)
(* 15.12.2 Walk with a reviver of the family; the log records every call
   (key, value as seen by the reviver) *)
Definition rev_fun (id : Z) (key : list Z) (v : ov) : ov :=
  if id =? 0 then v
  else if id =? 1 then match v with ONum _ => OUndef | _ => v end
  else if id =? 2 then if key_eqb key [97] then OUndef else v
  else if id =? 3 then match v with OStr _ => ONum 4619567317775286272 (* 7 *) | _ => v end
  else if id =? 4 then match v with OArr l => ONum (encode_int_or_nan (Z.of_nat (length l))) | _ => v end
  else if id =? 5 then match v with OObj _ => ONull | _ => v end
  else if id =? 6 then match v with ONull => OUndef | OBool _ => OUndef | _ => v end
  else if id =? 7 then if key_eqb key [] then v else OUndef          (* delete every member *)
  else if id =? 9 then match v with OUndef => OStr [68] | _ => v end    (* undefined -> "D" (refills what it cut off) *)
  else v.

Definition is_undef (v : ov) : bool := match v with OUndef => true | _ => false end.

(* revivers 8-12 also change their holder when it is an array (this.push / this.length = n /
   this.pop / this.unshift), which 15.12.2 Walk must survive: len is read once, every index
   below it is visited with whatever the array holds by then, the result is stored with
   [[DefineOwnProperty]] (which extends the array) or removed with [[Delete]] *)
Definition rev_eff (id : Z) (key : list Z) (a : list ov) : list ov :=
  if id =? 8 then (if key_eqb key [48] then a ++ [OStr [80]] else a)                  (* k = "0": this.push("P") *)
  else if id =? 9 then (if key_eqb key [49] then firstn 1 a else a)                   (* k = "1": this.length = 1 *)
  else if id =? 10 then (if key_eqb key [48] then removelast a else a)                (* k = "0": this.pop() *)
  else if id =? 11 then (if key_eqb key [48] then a ++ [OHole; OHole] else a)         (* k = "0": this.length += 2 *)
  else if id =? 12 then                       (* k = "0" and no element is an object: this.unshift("U") *)
    (if key_eqb key [48] && forallb (fun x => match x with OArr _ | OObj _ => false | _ => true end) a
     then OStr [85] :: a else a)     (* (shifting an object would make it reachable twice: not a tree any more) *)
  else a.

(* array element i as [[Get]] sees it *)
Definition arr_get (a : list ov) (i : nat) : ov :=
  match nth_error a i with Some OHole | None => OUndef | Some x => x end.
(* [[DefineOwnProperty]] of index i: the array grows (with holes) when i is beyond its end *)
Fixpoint arr_set (a : list ov) (i : nat) (x : ov) : list ov :=
  match i, a with
  | O, [] => [x]
  | O, _ :: r => x :: r
  | S j, [] => OHole :: arr_set [] j x
  | S j, y :: r => y :: arr_set r j x
  end.
(* [[Delete]] of index i: a hole, nothing beyond the end *)
Fixpoint arr_del (a : list ov) (i : nat) : list ov :=
  match i, a with
  | _, [] => []
  | O, _ :: r => OHole :: r
  | S j, y :: r => y :: arr_del r j
  end.

Fixpoint rwalk (id : Z) (fuel : nat) (key : list Z) (v : ov) {struct fuel}
  : list (list Z * ov) * ov :=
  match fuel with
  | O => ([], OOther)
  | S f =>
      let '(log, v') :=
        match v with
        | OArr l =>
            (* len = length l, fixed; the array itself is the running state *)
            let step := fun (acc : list (list Z * ov) * list ov) (i : nat) =>
                          let '(lg, a) := acc in
                          let k := dec (Z.of_nat i) in
                          let '(lg1, x') := rwalk id f k (arr_get a i) in
                          let a1 := rev_eff id k a in
                          (lg ++ lg1, if is_undef x' then arr_del a1 i else arr_set a1 i x') in
            let '(lg, out) := fold_left step (seq 0 (length l)) ([], l) in
            (lg, OArr out)
        | OObj m =>
            let step := fun (acc : list (list Z * ov) * list (list Z * ov)) (kv : list Z * ov) =>
                          let '(lg, out) := acc in
                          let '(lg1, x') := rwalk id f (fst kv) (snd kv) in
                          if is_undef x' then (lg ++ lg1, out)
                          else (lg ++ lg1, out ++ [(fst kv, x')]) in
            let '(lg, out) := fold_left step m ([], []) in
            (lg, OObj out)
        | _ => ([], v)
        end in
      (log ++ [(key, v')], rev_fun id key v')
  end.

(* the n-member object {"k0":null,...} under the all-deleting reviver: members left *)
Definition revdel_left (n : Z) : Z :=
  let m := map (fun i => (107 :: dec (Z.of_nat i), ONull)) (seq 0 (Z.to_nat n)) in
  match snd (rwalk 7 5 [] (OObj m)) with
  | OObj r => Z.of_nat (length r)
  | _ => -1
  end.
