(* C11 proofs, part 1: the recursive-descent parser of Spec.v accepts exactly
   the grammar of ES5 15.12.1 and builds the value the text denotes; the
   15.12.3 printer emits texts of the grammar; hence parse (print v) = v. *)
From Coq Require Import ZArith List Bool Lia.
From Otto Require Import C11.Spec.
Import ListNotations.
Open Scope Z_scope.

(* boolean tests on Z to propositions *)
Ltac zb :=
  repeat (rewrite ?orb_true_iff, ?andb_true_iff, ?orb_false_iff, ?andb_false_iff,
            ?Z.eqb_eq, ?Z.eqb_neq, ?Z.leb_le, ?Z.ltb_lt, ?Z.leb_gt, ?Z.ltb_ge in * ).

(* ------------------------------------------------------------------ *)
(* induction principle for the nested type *)
Section jv_ind.
  Variable N : Type.
  Variable P : jv N -> Prop.
  Hypothesis Hnull : P JNull.
  Hypothesis Hbool : forall b, P (JBool b).
  Hypothesis Hnum : forall n, P (JNum n).
  Hypothesis Hstr : forall s, P (JStr s).
  Hypothesis Harr : forall l, Forall P l -> P (JArr l).
  Hypothesis Hobj : forall m, Forall (fun kv => P (snd kv)) m -> P (JObj m).
  Fixpoint jv_ind' (v : jv N) : P v :=
    match v with
    | JNull => Hnull
    | JBool b => Hbool b
    | JNum n => Hnum n
    | JStr s => Hstr s
    | JArr l => Harr l ((fix go (l : list (jv N)) : Forall P l :=
                           match l with
                           | [] => Forall_nil _
                           | x :: r => Forall_cons _ (jv_ind' x) (go r)
                           end) l)
    | JObj m => Hobj m ((fix go (m : list (list Z * jv N)) : Forall (fun kv => P (snd kv)) m :=
                           match m with
                           | [] => Forall_nil _
                           | x :: r => Forall_cons _ (jv_ind' (snd x)) (go r)
                           end) m)
    end.
End jv_ind.

(* ------------------------------------------------------------------ *)
(* white space and digits *)
Lemma WS_nil : WS []. Proof. reflexivity. Qed.
Lemma WS_cons c w : WS (c :: w) <-> is_ws c = true /\ WS w.
Proof. unfold WS; cbn [forallb]; rewrite andb_true_iff; tauto. Qed.
Lemma WS_app a b : WS a -> WS b -> WS (a ++ b).
Proof. unfold WS; intros; rewrite forallb_app; now rewrite H, H0. Qed.

Lemma skip_ws_app w r : WS w -> skip_ws (w ++ r) = skip_ws r.
Proof.
  induction w as [|c w IH]; intros H; [reflexivity|].
  apply WS_cons in H as [Hc Hw]. cbn [app skip_ws]. rewrite Hc. auto.
Qed.
Lemma skip_ws_stop c r : is_ws c = false -> skip_ws (c :: r) = c :: r.
Proof. intros H; cbn [skip_ws]; now rewrite H. Qed.

Lemma skip_ws_split s : exists w, WS w /\ s = w ++ skip_ws s /\
  match skip_ws s with [] => True | c :: _ => is_ws c = false end.
Proof.
  induction s as [|c s IH].
  - exists []; repeat split.
  - cbn [skip_ws]. destruct (is_ws c) eqn:E.
    + destruct IH as (w & Hw & Hs & Hh). exists (c :: w). split; [apply WS_cons; auto|].
      split; [cbn; congruence | exact Hh].
    + exists []. repeat split. exact E.
Qed.

Definition nondigit_head (r : list Z) : Prop :=
  match r with [] => True | c :: _ => is_digit c = false end.

Lemma span_digits_app d r :
  forallb is_digit d = true -> nondigit_head r -> span_digits (d ++ r) = (d, r).
Proof.
  induction d as [|c d IH]; intros Hd Hr.
  - destruct r as [|c r]; [reflexivity|]. cbn in *. now rewrite Hr.
  - cbn [forallb] in Hd. apply andb_true_iff in Hd as [Hc Hd].
    cbn [app span_digits]. rewrite Hc, IH; auto.
Qed.

Lemma span_digits_sound s : forall d r, span_digits s = (d, r) ->
  s = d ++ r /\ forallb is_digit d = true /\ nondigit_head r.
Proof.
  induction s as [|c s IH]; intros d r H.
  - inversion H; subst; repeat split.
  - cbn [span_digits] in H. destruct (is_digit c) eqn:E.
    + destruct (span_digits s) as [d' r'] eqn:E'. inversion H; subst.
      destruct (IH _ _ eq_refl) as (-> & Hd & Hr).
      repeat split; auto. cbn. now rewrite E, Hd.
    + inversion H; subst. repeat split. exact E.
Qed.

(* ------------------------------------------------------------------ *)
(* strings *)
Lemma pstr_complete b s : GChars b s -> forall r, pstr (b ++ 34 :: r) = Some (s, r).
Proof.
  induction 1; intros r.
  - reflexivity.
  - cbn [app pstr].
    assert (E1 : c =? 34 = false) by (zb; lia).
    assert (E2 : c =? 92 = false) by (zb; lia).
    assert (E3 : c <? 32 = false) by (zb; lia).
    now rewrite E1, E2, E3, IHGChars.
  - cbn [app pstr]. change (92 =? 34) with false. change (92 =? 92) with true. cbv iota.
    destruct (e =? 117) eqn:E.
    + apply Z.eqb_eq in E; subst. discriminate.
    + now rewrite H, IHGChars.
  - cbn [app pstr]. change (92 =? 34) with false. change (92 =? 92) with true.
    change (117 =? 117) with true. cbv iota. now rewrite H, IHGChars.
Qed.

Lemma pstr_sound_n n : forall s cs r, (length s <= n)%nat -> pstr s = Some (cs, r) ->
  exists b, s = b ++ 34 :: r /\ GChars b cs.
Proof.
  induction n as [|n IH]; intros s cs r Hl H.
  - destruct s; [discriminate | cbn in Hl; lia].
  - destruct s as [|c s]; [discriminate|]. cbn [pstr] in H. cbn [length] in Hl.
    destruct (c =? 34) eqn:E1.
    { apply Z.eqb_eq in E1; subst. inversion H; subst. exists []. split; [reflexivity | constructor]. }
    destruct (c =? 92) eqn:E2.
    { apply Z.eqb_eq in E2; subst. destruct s as [|e s]; [discriminate|].
      destruct (e =? 117) eqn:E3.
      - apply Z.eqb_eq in E3; subst.
        destruct s as [|h1 [|h2 [|h3 [|h4 s]]]]; try discriminate.
        destruct (hex4 h1 h2 h3 h4) as [u|] eqn:Eh; [|discriminate].
        destruct (pstr s) as [[cs' r']|] eqn:Ep; [|discriminate]. inversion H; subst.
        destruct (IH s cs' r) as (b & -> & Hb); [cbn [length] in Hl; lia | exact Ep |].
        exists (92 :: 117 :: h1 :: h2 :: h3 :: h4 :: b). split; [reflexivity|].
        now constructor.
      - destruct (simple_escape e) as [u|] eqn:Ee; [|discriminate].
        destruct (pstr s) as [[cs' r']|] eqn:Ep; [|discriminate]. inversion H; subst.
        destruct (IH s cs' r) as (b & -> & Hb); [cbn [length] in Hl; lia | exact Ep |].
        exists (92 :: e :: b). split; [reflexivity|]. now constructor. }
    destruct (c <? 32) eqn:E3; [discriminate|].
    destruct (pstr s) as [[cs' r']|] eqn:Ep; [|discriminate]. inversion H; subst.
    destruct (IH s cs' r) as (b & -> & Hb); [lia | exact Ep |].
    exists (c :: b). split; [reflexivity|]. constructor; auto; zb; lia.
Qed.

Lemma pstr_sound s cs r : pstr s = Some (cs, r) -> exists b, s = b ++ 34 :: r /\ GChars b cs.
Proof. apply (pstr_sound_n (length s)); lia. Qed.

(* ------------------------------------------------------------------ *)
(* numbers *)
Definition nostart (r : list Z) : Prop :=
  match r with [] => True | c :: _ => is_digit c = false /\ c <> 46 /\ c <> 101 /\ c <> 69 end.

Lemma nostart_nondigit r : nostart r -> nondigit_head r.
Proof. destruct r; cbn; tauto. Qed.

Lemma pexp_complete e r : JSONExp e -> nostart r -> pexp (e ++ r) = Some (e, r).
Proof.
  intros [->|(ind & sg & d & -> & Hind & Hsg & Hd0 & Hd)] Hr.
  - cbn [app]. destruct r as [|c r]; [reflexivity|]. cbn in Hr. destruct Hr as (_ & _ & H1 & H2).
    cbn [pexp]. assert (E : (c =? 101) || (c =? 69) = false) by (zb; lia). now rewrite E.
  - cbn [app pexp]. assert (E : (ind =? 101) || (ind =? 69) = true) by (zb; lia). rewrite E.
    assert (Hsp : span_digits (d ++ r) = (d, r)) by (apply span_digits_app; auto using nostart_nondigit).
    destruct d as [|d0 d]; [congruence|]. cbn [app] in Hsp.
    destruct Hsg as [->|[->| ->]].
    + cbn [app]. assert (E2 : (d0 =? 43) || (d0 =? 45) = false).
      { cbn [forallb] in Hd. apply andb_true_iff in Hd as [Hd _]. unfold is_digit in Hd. zb. lia. }
      rewrite E2. cbn [app] in Hsp. cbv beta iota. rewrite Hsp. reflexivity.
    + cbn [app]. change ((43 =? 43) || (43 =? 45)) with true. cbv beta iota. rewrite Hsp. reflexivity.
    + cbn [app]. change ((45 =? 43) || (45 =? 45)) with true. cbv beta iota. rewrite Hsp. reflexivity.
Qed.

Lemma pexp_sound s e r : pexp s = Some (e, r) -> s = e ++ r /\ JSONExp e.
Proof.
  destruct s as [|c s]; cbn [pexp]; intros H.
  - inversion H; subst. split; [reflexivity | now left].
  - destruct ((c =? 101) || (c =? 69)) eqn:E.
    + set (p := match s with
                | x :: r' => if (x =? 43) || (x =? 45) then ([x], r') else ([], s)
                | [] => ([], s) end) in *.
      assert (Hp : s = fst p ++ snd p /\ (fst p = [] \/ fst p = [43] \/ fst p = [45])).
      { subst p. destruct s as [|x s']; [cbn; auto|].
        destruct ((x =? 43) || (x =? 45)) eqn:Ex; cbn; [|auto].
        split; [reflexivity|]. zb. destruct Ex as [->| ->]; auto. }
      destruct p as [sg r1]. cbn [fst snd] in Hp. destruct Hp as [-> Hsg].
      destruct (span_digits r1) as [d r2] eqn:Ed.
      destruct (span_digits_sound _ _ _ Ed) as (-> & Hd & _).
      destruct d as [|d0 d]; [discriminate|]. inversion H; subst.
      split; [cbn; now rewrite <- app_assoc|].
      right. exists c, sg, (d0 :: d). repeat split; auto; try discriminate. zb. tauto.
    + inversion H; subst. split; [reflexivity | now left].
Qed.

Lemma pfrac_complete f r : JSONFrac f ->
  match r with [] => True | c :: _ => is_digit c = false /\ c <> 46 end ->
  pfrac (f ++ r) = Some (f, r).
Proof.
  intros [->|(d & -> & Hd0 & Hd)] Hr.
  - cbn [app]. destruct r as [|c r]; [reflexivity|]. cbn [pfrac].
    assert (E : c =? 46 = false) by (zb; tauto). now rewrite E.
  - cbn [app pfrac]. change (46 =? 46) with true. cbv iota.
    rewrite span_digits_app; auto.
    + destruct d; [congruence | reflexivity].
    + destruct r; cbn; tauto.
Qed.

Lemma pfrac_sound s f r : pfrac s = Some (f, r) -> s = f ++ r /\ JSONFrac f.
Proof.
  destruct s as [|c s]; cbn [pfrac]; intros H.
  - inversion H; subst. split; [reflexivity | now left].
  - destruct (c =? 46) eqn:E.
    + apply Z.eqb_eq in E; subst. destruct (span_digits s) as [d r1] eqn:Ed.
      destruct (span_digits_sound _ _ _ Ed) as (-> & Hd & _).
      destruct d as [|d0 d]; [discriminate|]. inversion H; subst.
      split; [reflexivity|]. right. exists (d0 :: d). repeat split; auto. discriminate.
    + inversion H; subst. split; [reflexivity | now left].
Qed.

Lemma pint_complete i r : JSONInt i -> (i = [48] \/ nondigit_head r) -> pint (i ++ r) = Some (i, r).
Proof.
  intros [->|(c & d & -> & Hc & Hd)] Hr.
  - reflexivity.
  - cbn [app pint]. assert (E : c =? 48 = false) by (zb; lia).
    assert (E2 : is_digit c = true) by (unfold is_digit; zb; lia).
    rewrite E, E2. destruct Hr as [Hr|Hr]; [inversion Hr; subst; lia|].
    now rewrite span_digits_app.
Qed.

Lemma pint_sound s i r : pint s = Some (i, r) -> s = i ++ r /\ JSONInt i.
Proof.
  destruct s as [|c s]; cbn [pint]; intros H; [discriminate|].
  destruct (c =? 48) eqn:E.
  - apply Z.eqb_eq in E; subst. inversion H; subst. split; [reflexivity | now left].
  - destruct (is_digit c) eqn:E2; [|discriminate].
    destruct (span_digits s) as [d r1] eqn:Ed.
    destruct (span_digits_sound _ _ _ Ed) as (-> & Hd & _). inversion H; subst.
    split; [reflexivity|]. right. exists c, d. repeat split; auto; unfold is_digit in E2; zb; lia.
Qed.

Lemma head_app_nondigit (a r : list Z) (P : Z -> Prop) :
  match a with [] => True | c :: _ => P c end ->
  match r with [] => True | c :: _ => P c end ->
  match a ++ r with [] => True | c :: _ => P c end.
Proof. destruct a; cbn; auto. Qed.

Lemma frac_head f : JSONFrac f -> match f with [] => True | c :: _ => c = 46 end.
Proof. intros [->|(d & -> & _)]; cbn; auto. Qed.
Lemma exp_head e : JSONExp e -> match e with [] => True | c :: _ => c = 101 \/ c = 69 end.
Proof. intros [->|(i & s & d & -> & H & _)]; cbn; auto. Qed.

Lemma pnum_complete t r : JSONNumber t -> nostart r -> pnum (t ++ r) = Some (t, r).
Proof.
  intros (sg & i & f & e & -> & Hsg & Hi & Hf & He) Hr.
  assert (Hfh := frac_head f Hf). assert (Heh := exp_head e He).
  assert (H1 : pint (i ++ f ++ e ++ r) = Some (i, f ++ e ++ r)).
  { apply pint_complete; auto. right.
    apply (head_app_nondigit f (e ++ r) (fun c => is_digit c = false)).
    - destruct f; auto. subst; reflexivity.
    - apply (head_app_nondigit e r (fun c => is_digit c = false)).
      + destruct e; auto. destruct Heh; subst; reflexivity.
      + apply nostart_nondigit, Hr. }
  assert (H2 : pfrac (f ++ e ++ r) = Some (f, e ++ r)).
  { apply pfrac_complete; auto.
    apply (head_app_nondigit e r (fun c => is_digit c = false /\ c <> 46)).
    - destruct e; auto. destruct Heh; subst; split; (reflexivity || lia).
    - destruct r; cbn in *; tauto. }
  assert (H3 : pexp (e ++ r) = Some (e, r)) by (apply pexp_complete; auto).
  assert (Hih : exists c i', i = c :: i' /\ c <> 45).
  { destruct Hi as [->|(c & d & -> & Hc & _)]; eexists _, _; split; try reflexivity; lia. }
  destruct Hih as (c & i' & -> & Hc).
  rewrite <- !app_assoc. unfold pnum. destruct Hsg as [->| ->].
  - cbn [app]. assert (E : c =? 45 = false) by (zb; lia). rewrite E.
    cbn [app] in H1. rewrite H1, H2, H3. reflexivity.
  - cbn [app]. change (45 =? 45) with true. cbv iota. cbn [app] in H1. rewrite H1, H2, H3.
    reflexivity.
Qed.

Lemma pnum_sound s t r : pnum s = Some (t, r) -> s = t ++ r /\ JSONNumber t.
Proof.
  unfold pnum.
  set (p := match s with c :: r0 => if c =? 45 then ([45], r0) else ([], s) | [] => ([], s) end).
  assert (Hp : s = fst p ++ snd p /\ (fst p = [] \/ fst p = [45])).
  { subst p. destruct s as [|c s']; [cbn; auto|]. destruct (c =? 45) eqn:E; cbn; auto.
    apply Z.eqb_eq in E; subst; auto. }
  destruct p as [sg s1]. cbn [fst snd] in Hp. destruct Hp as [-> Hsg].
  destruct (pint s1) as [[i s2]|] eqn:E1; [|discriminate].
  destruct (pfrac s2) as [[f s3]|] eqn:E2; [|discriminate].
  destruct (pexp s3) as [[e s4]|] eqn:E3; [|discriminate].
  intros H; inversion H; subst.
  destruct (pint_sound _ _ _ E1) as [-> Hi].
  destruct (pfrac_sound _ _ _ E2) as [-> Hf].
  destruct (pexp_sound _ _ _ E3) as [-> He].
  split; [now rewrite <- !app_assoc|]. exists sg, i, f, e. auto.
Qed.

Lemma number_head t : JSONNumber t -> exists c t', t = c :: t' /\ (c = 45 \/ is_digit c = true).
Proof.
  intros (sg & i & f & e & -> & Hsg & Hi & _).
  destruct Hsg as [->| ->]; [|eexists _, _; split; [reflexivity | auto]].
  destruct Hi as [->|(c & d & -> & Hc & _)]; eexists _, _; (split; [reflexivity|]); right.
  - reflexivity.
  - unfold is_digit; zb; lia.
Qed.

(* ------------------------------------------------------------------ *)
(* the parser is complete for the grammar *)
Scheme GValue_mind := Minimality for GValue Sort Prop
  with GElems_mind := Minimality for GElems Sort Prop
  with GMembers_mind := Minimality for GMembers Sort Prop.
Combined Scheme G_mutind from GValue_mind, GElems_mind, GMembers_mind.

Definition vstart (c : Z) : bool :=
  (c =? 110) || (c =? 116) || (c =? 102) || (c =? 34) || (c =? 91) || (c =? 123) || (c =? 45) || is_digit c.

Lemma vstart_props c : vstart c = true -> is_ws c = false /\ c <> 93 /\ c <> 125 /\ c <> 44.
Proof. unfold vstart, is_digit, is_ws. zb. lia. Qed.

Lemma GValue_start t v : GValue t v -> exists c t', t = c :: t' /\ vstart c = true.
Proof.
  destruct 1; try (eexists _, _; split; [reflexivity | reflexivity]).
  destruct (number_head _ H) as (c & t' & -> & Hc). exists c, t'. split; [reflexivity|].
  unfold vstart. destruct Hc as [->|Hc]; [reflexivity|]. rewrite Hc. now rewrite !orb_true_r.
Qed.
Lemma GElems_start t vs : GElems t vs -> exists c t', t = c :: t' /\ vstart c = true.
Proof.
  destruct 1 as [t v H|t v w1 w2 r vs H]; destruct (GValue_start _ _ H) as (c & t' & -> & Hc);
    eexists _, _; (split; [reflexivity | exact Hc]).
Qed.
Lemma GMembers_start t ms : GMembers t ms -> exists t', t = 34 :: t'.
Proof. destruct 1; eexists; reflexivity. Qed.

Definition follow (r : list Z) : Prop :=
  match r with [] => True | c :: _ => is_ws c = true \/ c = 44 \/ c = 93 \/ c = 125 end.

Lemma follow_nostart r : follow r -> nostart r.
Proof. destruct r as [|c r]; cbn; [auto|]. unfold is_ws, is_digit. zb. lia. Qed.

Lemma follow_ws_then w c r : WS w -> (c = 44 \/ c = 93 \/ c = 125) -> follow (w ++ c :: r).
Proof.
  destruct w as [|x w]; cbn; [tauto|]. intros H _. apply WS_cons in H. tauto.
Qed.
Lemma follow_ws w : WS w -> follow w.
Proof. destruct w as [|x w]; cbn; [tauto|]. intros H. apply WS_cons in H. tauto. Qed.

Lemma skip_to_start w c t : WS w -> vstart c = true -> skip_ws (w ++ c :: t) = c :: t.
Proof.
  intros Hw Hc. rewrite skip_ws_app by assumption. apply skip_ws_stop.
  now apply vstart_props in Hc.
Qed.

Ltac lens := repeat (first [rewrite app_length in * | progress cbn [length] in * ]); try lia.
Ltac norm := repeat (cbn [app]; rewrite <- app_assoc); cbn [app].

Lemma complete_all :
  (forall t v, GValue t v -> forall f r, (length t <= f)%nat -> follow r ->
     pval f (t ++ r) = Some (v, r)) /\
  (forall t vs, GElems t vs -> forall f w r, WS w -> (length t < f)%nat ->
     pelems f (t ++ w ++ 93 :: r) = Some (vs, r)) /\
  (forall t ms, GMembers t ms -> forall f w r, WS w -> (length t < f)%nat ->
     pmembers f (t ++ w ++ 125 :: r) = Some (ms, r)).
Proof.
  apply G_mutind.
  - intros [|f] r Hl _; [cbn in Hl; lia|]. reflexivity.
  - intros [|f] r Hl _; [cbn in Hl; lia|]. reflexivity.
  - intros [|f] r Hl _; [cbn in Hl; lia|]. reflexivity.
  - (* number *)
    intros t Ht f r Hl Hr. destruct (number_head _ Ht) as (c & t' & -> & Hc).
    destruct f as [|f]; [cbn in Hl; lia|].
    assert (pnum ((c :: t') ++ r) = Some (c :: t', r)) as Hp
        by (apply pnum_complete; auto using follow_nostart).
    cbn [app] in *. cbn [pval].
    assert (E : (c =? 110) = false /\ (c =? 116) = false /\ (c =? 102) = false /\ (c =? 34) = false
                /\ (c =? 91) = false /\ (c =? 123) = false).
    { unfold is_digit in Hc. zb. lia. }
    destruct E as (E1 & E2 & E3 & E4 & E5 & E6). rewrite E1, E2, E3, E4, E5, E6, Hp. reflexivity.
  - (* string *)
    intros b s Hb f r Hl _. destruct f as [|f]; [cbn in Hl; lia|].
    norm. cbn [pval]. change (34 =? 110) with false. change (34 =? 116) with false.
    change (34 =? 102) with false. change (34 =? 34) with true. cbv iota.
    now rewrite (pstr_complete _ _ Hb).
  - (* [] *)
    intros w Hw f r Hl _. destruct f as [|f]; [cbn in Hl; lia|].
    norm. cbn [pval]. change (91 =? 110) with false. change (91 =? 116) with false.
    change (91 =? 102) with false. change (91 =? 34) with false. change (91 =? 91) with true.
    cbv iota. rewrite skip_ws_app by assumption. reflexivity.
  - (* [ elems ] *)
    intros w t vs w' Hw Ht IH Hw' f r Hl _. destruct f as [|f]; [cbn in Hl; lia|].
    norm. cbn [pval]. change (91 =? 110) with false. change (91 =? 116) with false.
    change (91 =? 102) with false. change (91 =? 34) with false. change (91 =? 91) with true.
    cbv iota. destruct (GElems_start _ _ Ht) as (c & t' & -> & Hc).
    cbn [app]. rewrite skip_to_start by assumption.
    assert (E : c =? 93 = false) by (apply vstart_props in Hc; zb; tauto). rewrite E.
    specialize (IH f w' r Hw'). cbn [app] in IH. rewrite IH; [reflexivity|].
    cbn [length] in Hl. lens.
  - (* {} *)
    intros w Hw f r Hl _. destruct f as [|f]; [cbn in Hl; lia|].
    norm. cbn [pval]. change (123 =? 110) with false. change (123 =? 116) with false.
    change (123 =? 102) with false. change (123 =? 34) with false. change (123 =? 91) with false.
    change (123 =? 123) with true.
    cbv iota. rewrite skip_ws_app by assumption. reflexivity.
  - (* { members } *)
    intros w t ms w' Hw Ht IH Hw' f r Hl _. destruct f as [|f]; [cbn in Hl; lia|].
    norm. cbn [pval]. change (123 =? 110) with false. change (123 =? 116) with false.
    change (123 =? 102) with false. change (123 =? 34) with false. change (123 =? 91) with false.
    change (123 =? 123) with true.
    cbv iota. destruct (GMembers_start _ _ Ht) as (t' & ->).
    cbn [app]. rewrite skip_to_start by (auto; reflexivity).
    change (34 =? 125) with false. cbv iota.
    specialize (IH f w' r Hw'). cbn [app] in IH. rewrite IH; [reflexivity|].
    cbn [length] in Hl. lens.
  - (* one element *)
    intros t v Ht IH f w r Hw Hl. destruct f as [|f]; [lia|].
    cbn [pelems]. rewrite IH; [| lia | apply follow_ws_then; auto].
    rewrite skip_ws_app by assumption. change (skip_ws (93 :: r)) with (93 :: r).
    change (93 =? 93) with true. reflexivity.
  - (* element , elements *)
    intros t v w1 w2 rr vs Ht IHv Hw1 Hw2 Hrr IHe f w r Hw Hl. destruct f as [|f]; [lia|].
    norm. cbn [pelems]. rewrite IHv; [| lens | apply follow_ws_then; auto].
    rewrite skip_ws_app by assumption. change (skip_ws (44 :: ?x)) with (44 :: x).
    change (44 =? 93) with false. change (44 =? 44) with true. cbv iota.
    destruct (GElems_start _ _ Hrr) as (c & t' & -> & Hc). cbn [app].
    rewrite skip_to_start by assumption.
    specialize (IHe f w r Hw). cbn [app] in IHe. rewrite IHe; [reflexivity | lens].
  - (* one member *)
    intros kb k w1 w2 t v Hk Hw1 Hw2 Ht IHv f w r Hw Hl. destruct f as [|f]; [lia|].
    norm. cbn [pmembers]. change (34 =? 34) with true. cbv iota.
    rewrite (pstr_complete _ _ Hk). rewrite skip_ws_app by assumption.
    change (skip_ws (58 :: ?x)) with (58 :: x). change (58 =? 58) with true. cbv iota.
    destruct (GValue_start _ _ Ht) as (c & t' & -> & Hc). cbn [app].
    rewrite skip_to_start by assumption.
    specialize (IHv f (w ++ 125 :: r)). cbn [app] in IHv.
    rewrite IHv; [| cbn [length] in *; lens | apply follow_ws_then; auto].
    rewrite skip_ws_app by assumption. change (skip_ws (125 :: r)) with (125 :: r).
    change (125 =? 125) with true. reflexivity.
  - (* member , members *)
    intros kb k w1 w2 t v w3 w4 rr ms Hk Hw1 Hw2 Ht IHv Hw3 Hw4 Hrr IHm f w r Hw Hl.
    destruct f as [|f]; [lia|].
    norm. cbn [pmembers]. change (34 =? 34) with true. cbv iota.
    rewrite (pstr_complete _ _ Hk). rewrite skip_ws_app by assumption.
    change (skip_ws (58 :: ?x)) with (58 :: x). change (58 =? 58) with true. cbv iota.
    destruct (GValue_start _ _ Ht) as (c & t' & -> & Hc). cbn [app].
    rewrite skip_to_start by assumption.
    match goal with |- context [pval f (c :: t' ++ ?R)] => specialize (IHv f R) end.
    cbn [app] in IHv.
    rewrite IHv; [| cbn [length] in *; lens | apply follow_ws_then; auto].
    rewrite skip_ws_app by assumption. change (skip_ws (44 :: ?x)) with (44 :: x).
    change (44 =? 125) with false. change (44 =? 44) with true. cbv iota.
    destruct (GMembers_start _ _ Hrr) as (t2 & ->). cbn [app].
    rewrite skip_to_start by (auto; reflexivity).
    specialize (IHm f w r Hw). cbn [app] in IHm. rewrite IHm; [reflexivity|].
    cbn [length] in *; lens.
Qed.

(* ------------------------------------------------------------------ *)
(* the parser is sound for the grammar *)
Lemma strip_sound p : forall s r, strip p s = Some r -> s = p ++ r.
Proof.
  induction p as [|a p IH]; intros s r H; cbn [strip] in H.
  - now inversion H.
  - destruct s as [|b s]; [discriminate|]. destruct (a =? b) eqn:E; [|discriminate].
    apply Z.eqb_eq in E; subst. cbn [app]. f_equal. auto.
Qed.

Lemma skip_ws_cases s : exists w, WS w /\ s = w ++ skip_ws s.
Proof. destruct (skip_ws_split s) as (w & H1 & H2 & _). eauto. Qed.

Lemma sound_all : forall f,
  (forall s v r, pval f s = Some (v, r) -> exists t, s = t ++ r /\ GValue t v) /\
  (forall s vs r, pelems f s = Some (vs, r) ->
     exists t w, s = t ++ w ++ 93 :: r /\ WS w /\ GElems t vs) /\
  (forall s ms r, pmembers f s = Some (ms, r) ->
     exists t w, s = t ++ w ++ 125 :: r /\ WS w /\ GMembers t ms).
Proof.
  induction f as [|f (IHv & IHe & IHm)]; [repeat split; intros; discriminate|].
  repeat split.
  - intros s v r H. destruct s as [|c s]; [discriminate|]. cbn [pval] in H.
    destruct (c =? 110) eqn:E1.
    { apply Z.eqb_eq in E1; subst. destruct (strip _ s) as [r'|] eqn:Es; [|discriminate].
      inversion H; subst. apply strip_sound in Es; subst.
      exists [110; 117; 108; 108]. split; [reflexivity | constructor]. }
    destruct (c =? 116) eqn:E2.
    { apply Z.eqb_eq in E2; subst. destruct (strip _ s) as [r'|] eqn:Es; [|discriminate].
      inversion H; subst. apply strip_sound in Es; subst.
      exists [116; 114; 117; 101]. split; [reflexivity | constructor]. }
    destruct (c =? 102) eqn:E3.
    { apply Z.eqb_eq in E3; subst. destruct (strip _ s) as [r'|] eqn:Es; [|discriminate].
      inversion H; subst. apply strip_sound in Es; subst.
      exists [102; 97; 108; 115; 101]. split; [reflexivity | constructor]. }
    destruct (c =? 34) eqn:E4.
    { apply Z.eqb_eq in E4; subst. destruct (pstr s) as [[cs r']|] eqn:Es; [|discriminate].
      inversion H; subst. destruct (pstr_sound _ _ _ Es) as (b & -> & Hb).
      exists (34 :: b ++ [34]). split; [now norm | now constructor]. }
    destruct (c =? 91) eqn:E5.
    { apply Z.eqb_eq in E5; subst. destruct (skip_ws_cases s) as (w & Hw & Hs).
      destruct (skip_ws s) as [|c1 r2] eqn:Ek; [discriminate|].
      destruct (c1 =? 93) eqn:E6.
      - apply Z.eqb_eq in E6; subst. inversion H; subst.
        exists (91 :: w ++ [93]). split; [now norm | now constructor].
      - destruct (pelems f (c1 :: r2)) as [[vs r3]|] eqn:Ee; [|discriminate]. inversion H; subst.
        destruct (IHe _ _ _ Ee) as (t & w' & Ht & Hw' & Hg).
        exists (91 :: w ++ t ++ w' ++ [93]). split; [|now constructor].
        rewrite Ht. now norm. }
    destruct (c =? 123) eqn:E7.
    { apply Z.eqb_eq in E7; subst. destruct (skip_ws_cases s) as (w & Hw & Hs).
      destruct (skip_ws s) as [|c1 r2] eqn:Ek; [discriminate|].
      destruct (c1 =? 125) eqn:E6.
      - apply Z.eqb_eq in E6; subst. inversion H; subst.
        exists (123 :: w ++ [125]). split; [now norm | now constructor].
      - destruct (pmembers f (c1 :: r2)) as [[ms r3]|] eqn:Ee; [|discriminate]. inversion H; subst.
        destruct (IHm _ _ _ Ee) as (t & w' & Ht & Hw' & Hg).
        exists (123 :: w ++ t ++ w' ++ [125]). split; [|now constructor].
        rewrite Ht. now norm. }
    destruct (pnum (c :: s)) as [[t r']|] eqn:En; [|discriminate]. inversion H; subst.
    destruct (pnum_sound _ _ _ En) as [Hs Hn]. exists t. split; [exact Hs | now constructor].
  - intros s vs r H. cbn [pelems] in H.
    destruct (pval f s) as [[v r1]|] eqn:Ev; [|discriminate].
    destruct (IHv _ _ _ Ev) as (t & -> & Ht).
    destruct (skip_ws_cases r1) as (w & Hw & Hs).
    destruct (skip_ws r1) as [|c r2] eqn:Ek; [discriminate|].
    destruct (c =? 93) eqn:E1.
    { apply Z.eqb_eq in E1; subst. inversion H; subst. exists t, w.
      split; [reflexivity | split; [assumption | now constructor]]. }
    destruct (c =? 44) eqn:E2; [|discriminate]. apply Z.eqb_eq in E2; subst.
    destruct (skip_ws_cases r2) as (w2 & Hw2 & Hs2).
    destruct (pelems f (skip_ws r2)) as [[vs' r3]|] eqn:Ee; [|discriminate]. inversion H; subst.
    destruct (IHe _ _ _ Ee) as (t2 & w' & Ht2 & Hw' & Hg).
    exists (t ++ w ++ 44 :: w2 ++ t2), w'. split; [|split; [assumption | now constructor]].
    rewrite Hs2 at 1. rewrite Ht2. now norm.
  - intros s ms r H. cbn [pmembers] in H. destruct s as [|q r0]; [discriminate|].
    destruct (q =? 34) eqn:Eq; [|discriminate]. apply Z.eqb_eq in Eq; subst.
    destruct (pstr r0) as [[k r1]|] eqn:Es; [|discriminate].
    destruct (pstr_sound _ _ _ Es) as (kb & -> & Hkb).
    destruct (skip_ws_cases r1) as (w1 & Hw1 & Hs1).
    destruct (skip_ws r1) as [|c2 r2] eqn:Ek1; [discriminate|].
    destruct (c2 =? 58) eqn:Ec; [|discriminate]. apply Z.eqb_eq in Ec; subst.
    destruct (skip_ws_cases r2) as (w2 & Hw2 & Hs2).
    destruct (pval f (skip_ws r2)) as [[v r3]|] eqn:Ev; [|discriminate].
    destruct (IHv _ _ _ Ev) as (t & Ht & Hg).
    destruct (skip_ws_cases r3) as (w3 & Hw3 & Hs3).
    destruct (skip_ws r3) as [|c4 r4] eqn:Ek3; [discriminate|].
    destruct (c4 =? 125) eqn:E1.
    { apply Z.eqb_eq in E1; subst. inversion H; subst.
      exists (34 :: kb ++ 34 :: w1 ++ 58 :: w2 ++ t), w3.
      split; [|split; [assumption | now constructor]].
      rewrite Hs2 at 1. rewrite Ht. now norm. }
    destruct (c4 =? 44) eqn:E2; [|discriminate]. apply Z.eqb_eq in E2; subst.
    destruct (skip_ws_cases r4) as (w4 & Hw4 & Hs4).
    destruct (pmembers f (skip_ws r4)) as [[ms' r5]|] eqn:Em; [|discriminate]. inversion H; subst.
    destruct (IHm _ _ _ Em) as (t2 & w' & Ht2 & Hw' & Hg2).
    exists (34 :: kb ++ 34 :: w1 ++ 58 :: w2 ++ t ++ w3 ++ 44 :: w4 ++ t2), w'.
    split; [|split; [assumption | now constructor]].
    rewrite Hs2 at 1. rewrite Ht. rewrite Hs4 at 1. rewrite Ht2. now norm.
Qed.

(* 15.12.2 step 2 decides membership in the grammar of 15.12.1, and the
   value built is the one the grammar assigns *)
Theorem parse_iff_grammar : forall t v, parse t = Some v <-> JSONText t v.
Proof.
  intros t v. unfold parse, JSONText. split.
  - intros H. destruct (pval (S (length t)) (skip_ws t)) as [[v' r]|] eqn:Ev; [|discriminate].
    destruct (skip_ws_cases r) as (w2 & Hw2 & Hs2).
    destruct (skip_ws r) eqn:Er; [|discriminate]. inversion H; subst v'.
    destruct (proj1 (sound_all _) _ _ _ Ev) as (t' & Ht & Hg).
    destruct (skip_ws_cases t) as (w1 & Hw1 & Hs1).
    exists w1, t', w2. repeat split; auto. rewrite Hs1 at 1. rewrite Ht, Hs2. now rewrite app_nil_r.
  - intros (w1 & t' & w2 & Hw1 & Hg & Hw2 & ->).
    destruct (GValue_start _ _ Hg) as (c & t2 & -> & Hc).
    cbn [app]. rewrite skip_to_start by assumption.
    change (c :: t2 ++ w2) with ((c :: t2) ++ w2).
    rewrite (proj1 complete_all _ _ Hg); [| lens | now apply follow_ws].
    replace w2 with (w2 ++ []) by apply app_nil_r. now rewrite skip_ws_app.
Qed.

(* a grammatical text has one value *)
Corollary JSONText_functional t v1 v2 : JSONText t v1 -> JSONText t v2 -> v1 = v2.
Proof. rewrite <- !parse_iff_grammar. congruence. Qed.

(* ------------------------------------------------------------------ *)
(* 15.12.3 output is in the grammar *)
Fixpoint wf (v : tv) : Prop :=
  match v with
  | JNum t => JSONNumber t
  | JStr s => forallb is_unit s = true
  | JArr l => fold_right (fun x acc => wf x /\ acc) True l
  | JObj m => fold_right (fun kv acc => forallb is_unit (fst kv) = true /\ wf (snd kv) /\ acc) True m
  | _ => True
  end.

Lemma hex_low c : 0 <= c < 32 -> hex4 48 48 (hexdigit (c / 16)) (hexdigit (c mod 16)) = Some c.
Proof.
  intros H.
  assert (E : c = 0 \/ c = 1 \/ c = 2 \/ c = 3 \/ c = 4 \/ c = 5 \/ c = 6 \/ c = 7 \/ c = 8 \/ c = 9
              \/ c = 10 \/ c = 11 \/ c = 12 \/ c = 13 \/ c = 14 \/ c = 15 \/ c = 16 \/ c = 17
              \/ c = 18 \/ c = 19 \/ c = 20 \/ c = 21 \/ c = 22 \/ c = 23 \/ c = 24 \/ c = 25
              \/ c = 26 \/ c = 27 \/ c = 28 \/ c = 29 \/ c = 30 \/ c = 31) by lia.
  repeat (destruct E as [->|E]; [reflexivity|]). subst; reflexivity.
Qed.

Lemma quote_body_grammar s : forallb is_unit s = true -> GChars (quote_body s) s.
Proof.
  induction s as [|c s IH]; intros H; [constructor|].
  cbn [forallb] in H. apply andb_true_iff in H as [Hc Hs]. specialize (IH Hs).
  unfold is_unit in Hc. cbn [quote_body]. unfold quote_char.
  destruct (c =? 34) eqn:E1; [apply Z.eqb_eq in E1; subst; now apply (GCesc 34 34)|].
  destruct (c =? 92) eqn:E2; [apply Z.eqb_eq in E2; subst; now apply (GCesc 92 92)|].
  destruct (c =? 8) eqn:E3; [apply Z.eqb_eq in E3; subst; now apply (GCesc 98 8)|].
  destruct (c =? 12) eqn:E4; [apply Z.eqb_eq in E4; subst; now apply (GCesc 102 12)|].
  destruct (c =? 10) eqn:E5; [apply Z.eqb_eq in E5; subst; now apply (GCesc 110 10)|].
  destruct (c =? 13) eqn:E6; [apply Z.eqb_eq in E6; subst; now apply (GCesc 114 13)|].
  destruct (c =? 9) eqn:E7; [apply Z.eqb_eq in E7; subst; now apply (GCesc 116 9)|].
  destruct (c <? 32) eqn:E8.
  - cbn [app]. apply GCuni; [|assumption]. apply hex_low. zb. lia.
  - cbn [app]. apply GCplain; auto; zb; lia.
Qed.

Lemma elems_print (pr : tv -> list Z) w2 l :
  l <> [] -> Forall (fun v => GValue (pr v) v) l -> WS w2 ->
  GElems (sepjoin (44 :: w2) (map pr l)) l.
Proof.
  intros Hne Hall Hw. induction Hall as [|x l Hx Hl IH]; [congruence|].
  cbn [map sepjoin]. destruct l as [|y l].
  - cbn [map]. now constructor.
  - change (pr x ++ (44 :: w2) ++ sepjoin (44 :: w2) (map pr (y :: l)))
      with (pr x ++ [] ++ 44 :: w2 ++ sepjoin (44 :: w2) (map pr (y :: l))).
    constructor; auto. reflexivity. apply IH. discriminate.
Qed.

Lemma sepjoin_cons2 sep a b l : sepjoin sep (a :: b :: l) = a ++ sep ++ sepjoin sep (b :: l).
Proof. reflexivity. Qed.

Lemma members_print (pr : tv -> list Z) sp w2 (m : list (list Z * tv)) :
  m <> [] -> Forall (fun kv => forallb is_unit (fst kv) = true /\ GValue (pr (snd kv)) (snd kv)) m ->
  WS sp -> WS w2 ->
  GMembers (sepjoin (44 :: w2) (map (fun kv => quote (fst kv) ++ 58 :: sp ++ pr (snd kv)) m)) m.
Proof.
  intros Hne Hall Hsp Hw. set (F := fun kv : list Z * tv => quote (fst kv) ++ 58 :: sp ++ pr (snd kv)).
  induction Hall as [|[k x] m [Hk Hx] Hm IH]; [congruence|].
  cbn [fst snd] in *. destruct m as [|y m].
  - change (GMembers (quote k ++ 58 :: sp ++ pr x) [(k, x)]). unfold quote. norm.
    apply (GM1 (quote_body k) k [] sp); auto using quote_body_grammar. reflexivity.
  - change (map F ((k, x) :: y :: m)) with (F (k, x) :: F y :: map F m).
    rewrite sepjoin_cons2. change (F y :: map F m) with (map F (y :: m)).
    set (rest := sepjoin (44 :: w2) (map F (y :: m))) in *.
    change (F (k, x)) with (quote k ++ 58 :: sp ++ pr x). unfold quote. norm.
    apply (GMcons (quote_body k) k [] sp (pr x) x [] w2 rest (y :: m));
      auto using quote_body_grammar; try reflexivity.
    apply IH. discriminate.
Qed.

Lemma wf_arr l : wf (JArr l) <-> Forall wf l.
Proof.
  cbn [wf]. induction l as [|x l IH]; cbn [fold_right].
  - split; auto.
  - rewrite IH. split; [intros [? ?]; constructor; auto | intros H; inversion H; auto].
Qed.
Lemma wf_obj m : wf (JObj m) <-> Forall (fun kv => forallb is_unit (fst kv) = true /\ wf (snd kv)) m.
Proof.
  cbn [wf]. induction m as [|x m IH]; cbn [fold_right].
  - split; auto.
  - rewrite IH. split; [intros (? & ? & ?); constructor; auto | intros H; inversion H; tauto].
Qed.

Lemma is_nil_false {A} (l : list A) : is_nil l = false -> l <> [].
Proof. destruct l; [discriminate | discriminate]. Qed.

Lemma printg_grammar gap : WS gap -> forall v, wf v -> forall ind, WS ind -> GValue (printg gap ind v) v.
Proof.
  intros Hgap. induction v as [| [|] | t | s | l IH | m IH] using jv_ind'; intros Hwf ind Hind.
  - constructor.
  - constructor.
  - constructor.
  - cbn [printg]. constructor. exact Hwf.
  - cbn [printg]. unfold quote. constructor. now apply quote_body_grammar.
  - destruct l as [|x l]; [apply (GArr0 []); reflexivity|].
    apply wf_arr in Hwf.
    assert (Hind' : WS (ind ++ gap)) by now apply WS_app.
    assert (Hall : Forall (fun v => GValue (printg gap (ind ++ gap) v) v) (x :: l)).
    { rewrite Forall_forall in *. intros v Hv. apply IH; auto. }
    cbn [printg]. destruct (is_nil gap) eqn:Eg.
    + apply (GArr [] _ (x :: l) []); try reflexivity.
      apply elems_print; [discriminate | exact Hall | reflexivity].
    + apply (GArr (10 :: ind ++ gap) _ (x :: l) (10 :: ind)).
      * apply WS_cons; auto.
      * apply elems_print; [discriminate | exact Hall | apply WS_cons; auto].
      * apply WS_cons; auto.
  - destruct m as [|x m]; [apply (GObj0 []); reflexivity|].
    apply wf_obj in Hwf.
    assert (Hind' : WS (ind ++ gap)) by now apply WS_app.
    assert (Hall : Forall (fun kv => forallb is_unit (fst kv) = true /\
                                     GValue (printg gap (ind ++ gap) (snd kv)) (snd kv)) (x :: m)).
    { rewrite Forall_forall in *. intros kv Hkv. destruct (Hwf kv Hkv). split; [assumption | apply IH; auto]. }
    cbn [printg]. destruct (is_nil gap) eqn:Eg.
    + apply (GObj [] _ (x :: m) []); try reflexivity.
      apply (members_print (printg gap (ind ++ gap)) [] []); auto; try reflexivity. discriminate.
    + apply (GObj (10 :: ind ++ gap) _ (x :: m) (10 :: ind)).
      * apply WS_cons; auto.
      * apply (members_print (printg gap (ind ++ gap)) [32] (10 :: ind ++ gap)); auto;
          try reflexivity; try discriminate; try (apply WS_cons; auto).
      * apply WS_cons; auto.
Qed.

(* the round trip: every well-formed JSON value, printed compactly or with any
   white-space gap and indent, parses back to itself *)
Theorem parse_printg : forall gap ind v, WS gap -> WS ind -> wf v -> parse (printg gap ind v) = Some v.
Proof.
  intros gap ind v Hg Hi Hv. apply parse_iff_grammar.
  exists [], (printg gap ind v), []. repeat split; auto using printg_grammar.
  now rewrite app_nil_r.
Qed.

Corollary parse_print : forall v, wf v -> parse (print v) = Some v.
Proof. intros; now apply parse_printg. Qed.

