(* C11 — JSON.  ES5 15.12.1 (grammar), 15.12.2 (parse), 15.12.3 (stringify on
   JSON values), transcribed as executable Gallina over lists of UTF-16 code
   units ([Z]).  A JSON number is kept as its token text at the level of the
   grammar ([jv (list Z)]); [num_value] maps a token to the binary64 it
   denotes (exact decimal value, round to nearest even), giving [jv Z] with
   doubles as bit patterns.  *)
From Coq Require Import ZArith List Bool Lia.
Import ListNotations.
Open Scope Z_scope.

Inductive jv (N : Type) : Type :=
| JNull
| JBool (b : bool)
| JNum (n : N)
| JStr (s : list Z)
| JArr (l : list (jv N))
| JObj (m : list (list Z * jv N)).
Arguments JNull {N}.
Arguments JBool {N} b.
Arguments JNum {N} n.
Arguments JStr {N} s.
Arguments JArr {N} l.
Arguments JObj {N} m.

Definition tv := jv (list Z).   (* numbers as token text *)

(* ------------------------------------------------------------------ *)
(* characters *)
Definition is_ws (c : Z) : bool := (c =? 9) || (c =? 10) || (c =? 13) || (c =? 32).
Definition is_digit (c : Z) : bool := (48 <=? c) && (c <=? 57).

Fixpoint skip_ws (s : list Z) : list Z :=
  match s with
  | c :: r => if is_ws c then skip_ws r else s
  | [] => []
  end.

Fixpoint span_digits (s : list Z) : list Z * list Z :=
  match s with
  | c :: r => if is_digit c then let (d, r') := span_digits r in (c :: d, r') else ([], s)
  | [] => ([], [])
  end.

Definition hexval (c : Z) : option Z :=
  if (48 <=? c) && (c <=? 57) then Some (c - 48)
  else if (97 <=? c) && (c <=? 102) then Some (c - 87)
  else if (65 <=? c) && (c <=? 70) then Some (c - 55)
  else None.

Definition hex4 (a b c d : Z) : option Z :=
  match hexval a, hexval b, hexval c, hexval d with
  | Some x, Some y, Some z, Some w => Some (((x * 16 + y) * 16 + z) * 16 + w)
  | _, _, _, _ => None
  end.

(* JSONEscapeCharacter :: one of: quote, slash, backslash, b f n r t *)
Definition simple_escape (c : Z) : option Z :=
  if c =? 34 then Some 34 else if c =? 92 then Some 92 else if c =? 47 then Some 47
  else if c =? 98 then Some 8 else if c =? 102 then Some 12 else if c =? 110 then Some 10
  else if c =? 114 then Some 13 else if c =? 116 then Some 9 else None.

(* ------------------------------------------------------------------ *)
(* 15.12.1.1 lexical: strings (after the opening quote) and numbers *)
Fixpoint pstr (s : list Z) : option (list Z * list Z) :=
  match s with
  | [] => None
  | c :: r =>
      if c =? 34 then Some ([], r)
      else if c =? 92 then
        match r with
        | [] => None
        | e :: r1 =>
            if e =? 117 then
              match r1 with
              | h1 :: h2 :: h3 :: h4 :: r2 =>
                  match hex4 h1 h2 h3 h4 with
                  | Some u => match pstr r2 with Some (cs, r') => Some (u :: cs, r') | None => None end
                  | None => None
                  end
              | _ => None
              end
            else match simple_escape e with
                 | Some u => match pstr r1 with Some (cs, r') => Some (u :: cs, r') | None => None end
                 | None => None
                 end
        end
      else if c <? 32 then None
      else match pstr r with Some (cs, r') => Some (c :: cs, r') | None => None end
  end.

(* optional exponent part: returns (text consumed, rest) *)
Definition pexp (s : list Z) : option (list Z * list Z) :=
  match s with
  | c :: r =>
      if (c =? 101) || (c =? 69) then
        let '(sg, r1) := match r with
                         | x :: r' => if (x =? 43) || (x =? 45) then ([x], r') else ([], r)
                         | [] => ([], r)
                         end in
        let (d, r2) := span_digits r1 in
        match d with [] => None | _ => Some (c :: sg ++ d, r2) end
      else Some ([], s)
  | [] => Some ([], [])
  end.

Definition pfrac (s : list Z) : option (list Z * list Z) :=
  match s with
  | c :: r =>
      if c =? 46 then
        let (d, r1) := span_digits r in
        match d with [] => None | _ => Some (c :: d, r1) end
      else Some ([], s)
  | [] => Some ([], [])
  end.

Definition pint (s : list Z) : option (list Z * list Z) :=
  match s with
  | c :: r =>
      if c =? 48 then Some ([48], r)
      else if is_digit c then let (d, r1) := span_digits r in Some (c :: d, r1)
      else None
  | [] => None
  end.

Definition pnum (s : list Z) : option (list Z * list Z) :=
  let '(sg, s1) := match s with
                   | c :: r => if c =? 45 then ([45], r) else ([], s)
                   | [] => ([], s)
                   end in
  match pint s1 with
  | Some (i, s2) =>
      match pfrac s2 with
      | Some (f, s3) =>
          match pexp s3 with
          | Some (e, s4) => Some (sg ++ i ++ f ++ e, s4)
          | None => None
          end
      | None => None
      end
  | None => None
  end.

Fixpoint strip (p s : list Z) : option (list Z) :=
  match p with
  | [] => Some s
  | a :: p' => match s with
               | b :: s' => if a =? b then strip p' s' else None
               | [] => None
               end
  end.

(* ------------------------------------------------------------------ *)
(* 15.12.1.2 syntactic grammar as a recursive-descent parser.
   [pval] expects its input with leading white space already skipped. *)
Fixpoint pval (fuel : nat) (s : list Z) : option (tv * list Z) :=
  match fuel with
  | O => None
  | S f =>
      match s with
      | [] => None
      | c :: r =>
          if c =? 110 then match strip [117; 108; 108] r with Some r' => Some (JNull, r') | None => None end
          else if c =? 116 then match strip [114; 117; 101] r with Some r' => Some (JBool true, r') | None => None end
          else if c =? 102 then match strip [97; 108; 115; 101] r with Some r' => Some (JBool false, r') | None => None end
          else if c =? 34 then match pstr r with Some (cs, r') => Some (JStr cs, r') | None => None end
          else if c =? 91 then
            match skip_ws r with
            | [] => None
            | c1 :: r2 =>
                if c1 =? 93 then Some (JArr [], r2)
                else match pelems f (c1 :: r2) with Some (vs, r3) => Some (JArr vs, r3) | None => None end
            end
          else if c =? 123 then
            match skip_ws r with
            | [] => None
            | c1 :: r2 =>
                if c1 =? 125 then Some (JObj [], r2)
                else match pmembers f (c1 :: r2) with Some (ms, r3) => Some (JObj ms, r3) | None => None end
            end
          else match pnum s with Some (t, r') => Some (JNum t, r') | None => None end
      end
  end
with pelems (fuel : nat) (s : list Z) : option (list tv * list Z) :=
  match fuel with
  | O => None
  | S f =>
      match pval f s with
      | Some (v, r) =>
          match skip_ws r with
          | [] => None
          | c :: r2 =>
              if c =? 93 then Some ([v], r2)
              else if c =? 44 then
                match pelems f (skip_ws r2) with Some (vs, r3) => Some (v :: vs, r3) | None => None end
              else None
          end
      | None => None
      end
  end
with pmembers (fuel : nat) (s : list Z) : option (list (list Z * tv) * list Z) :=
  match fuel with
  | O => None
  | S f =>
      match s with
      | [] => None
      | q :: r0 =>
          if q =? 34 then
            match pstr r0 with
            | Some (k, r1) =>
                match skip_ws r1 with
                | [] => None
                | c2 :: r2 =>
                    if c2 =? 58 then
                      match pval f (skip_ws r2) with
                      | Some (v, r3) =>
                          match skip_ws r3 with
                          | [] => None
                          | c4 :: r4 =>
                              if c4 =? 125 then Some ([(k, v)], r4)
                              else if c4 =? 44 then
                                match pmembers f (skip_ws r4) with
                                | Some (ms, r5) => Some ((k, v) :: ms, r5)
                                | None => None
                                end
                              else None
                          end
                      | None => None
                      end
                    else None
                end
            | None => None
            end
          else None
      end
  end.

(* 15.12.2 step 2: the text must be a JSONText, else SyntaxError ([None]) *)
Definition parse (s : list Z) : option tv :=
  match pval (S (length s)) (skip_ws s) with
  | Some (v, r) => match skip_ws r with [] => Some v | _ => None end
  | None => None
  end.

(* ------------------------------------------------------------------ *)
(* The grammar of 15.12.1, declaratively (scannerless: JSONWhiteSpace may
   stand between any two tokens). *)
Definition WS (w : list Z) : Prop := forallb is_ws w = true.
Definition Digits (d : list Z) : Prop := d <> [] /\ forallb is_digit d = true.

Definition JSONInt (i : list Z) : Prop :=
  i = [48] \/ exists c d, i = c :: d /\ 49 <= c <= 57 /\ forallb is_digit d = true.
Definition JSONFrac (f : list Z) : Prop := f = [] \/ exists d, f = 46 :: d /\ Digits d.
Definition JSONExp (e : list Z) : Prop :=
  e = [] \/ exists ind sg d, e = ind :: sg ++ d /\ (ind = 101 \/ ind = 69) /\
                             (sg = [] \/ sg = [43] \/ sg = [45]) /\ Digits d.
Definition JSONNumber (t : list Z) : Prop :=
  exists sg i f e, t = sg ++ i ++ f ++ e /\ (sg = [] \/ sg = [45]) /\
                   JSONInt i /\ JSONFrac f /\ JSONExp e.

(* JSONStringCharacters: text between the quotes, and the string it denotes *)
Inductive GChars : list Z -> list Z -> Prop :=
| GCnil : GChars [] []
| GCplain c b s : 32 <= c -> c <> 34 -> c <> 92 -> GChars b s -> GChars (c :: b) (c :: s)
| GCesc e u b s : simple_escape e = Some u -> GChars b s -> GChars (92 :: e :: b) (u :: s)
| GCuni h1 h2 h3 h4 u b s : hex4 h1 h2 h3 h4 = Some u -> GChars b s ->
                            GChars (92 :: 117 :: h1 :: h2 :: h3 :: h4 :: b) (u :: s).

Inductive GValue : list Z -> tv -> Prop :=
| GNull : GValue [110; 117; 108; 108] JNull
| GTrue : GValue [116; 114; 117; 101] (JBool true)
| GFalse : GValue [102; 97; 108; 115; 101] (JBool false)
| GNum t : JSONNumber t -> GValue t (JNum t)
| GStr b s : GChars b s -> GValue (34 :: b ++ [34]) (JStr s)
| GArr0 w : WS w -> GValue (91 :: w ++ [93]) (JArr [])
| GArr w t vs w' : WS w -> GElems t vs -> WS w' -> GValue (91 :: w ++ t ++ w' ++ [93]) (JArr vs)
| GObj0 w : WS w -> GValue (123 :: w ++ [125]) (JObj [])
| GObj w t ms w' : WS w -> GMembers t ms -> WS w' -> GValue (123 :: w ++ t ++ w' ++ [125]) (JObj ms)
with GElems : list Z -> list tv -> Prop :=
| GE1 t v : GValue t v -> GElems t [v]
| GEcons t v w1 w2 r vs : GValue t v -> WS w1 -> WS w2 -> GElems r vs ->
                          GElems (t ++ w1 ++ 44 :: w2 ++ r) (v :: vs)
with GMembers : list Z -> list (list Z * tv) -> Prop :=
| GM1 kb k w1 w2 t v : GChars kb k -> WS w1 -> WS w2 -> GValue t v ->
                       GMembers (34 :: kb ++ 34 :: w1 ++ 58 :: w2 ++ t) [(k, v)]
| GMcons kb k w1 w2 t v w3 w4 r ms : GChars kb k -> WS w1 -> WS w2 -> GValue t v ->
                       WS w3 -> WS w4 -> GMembers r ms ->
                       GMembers (34 :: kb ++ 34 :: w1 ++ 58 :: w2 ++ t ++ w3 ++ 44 :: w4 ++ r) ((k, v) :: ms).

Definition JSONText (t : list Z) (v : tv) : Prop :=
  exists w1 t' w2, WS w1 /\ GValue t' v /\ WS w2 /\ t = w1 ++ t' ++ w2.

(* ------------------------------------------------------------------ *)
(* 15.12.3: Quote, and the serialisation of a JSON value (JA/JO with gap and
   indent).  [printg [] []] is the compact form. *)
Definition hexdigit (n : Z) : Z := if n <? 10 then 48 + n else 87 + n.

Definition quote_char (c : Z) : list Z :=
  if c =? 34 then [92; 34] else if c =? 92 then [92; 92]
  else if c =? 8 then [92; 98] else if c =? 12 then [92; 102] else if c =? 10 then [92; 110]
  else if c =? 13 then [92; 114] else if c =? 9 then [92; 116]
  else if c <? 32 then [92; 117; 48; 48; hexdigit (c / 16); hexdigit (c mod 16)]
  else [c].

Fixpoint quote_body (s : list Z) : list Z :=
  match s with [] => [] | c :: r => quote_char c ++ quote_body r end.
Definition quote (s : list Z) : list Z := 34 :: quote_body s ++ [34].

Fixpoint sepjoin (sep : list Z) (l : list (list Z)) : list Z :=
  match l with
  | [] => []
  | x :: r => match r with [] => x | _ => x ++ sep ++ sepjoin sep r end
  end.

Definition is_nil {A} (l : list A) : bool := match l with [] => true | _ => false end.

Fixpoint printg (gap ind : list Z) (v : tv) {struct v} : list Z :=
  match v with
  | JNull => [110; 117; 108; 108]
  | JBool true => [116; 114; 117; 101]
  | JBool false => [102; 97; 108; 115; 101]
  | JNum t => t
  | JStr s => quote s
  | JArr l =>
      match l with
      | [] => [91; 93]
      | _ =>
          let ind' := ind ++ gap in
          let items := map (printg gap ind') l in
          if is_nil gap then 91 :: sepjoin [44] items ++ [93]
          else 91 :: (10 :: ind') ++ sepjoin (44 :: 10 :: ind') items ++ (10 :: ind) ++ [93]
      end
  | JObj m =>
      match m with
      | [] => [123; 125]
      | _ =>
          let ind' := ind ++ gap in
          let items := map (fun kv => quote (fst kv) ++ 58 :: (if is_nil gap then [] else [32])
                                        ++ printg gap ind' (snd kv)) m in
          if is_nil gap then 123 :: sepjoin [44] items ++ [125]
          else 123 :: (10 :: ind') ++ sepjoin (44 :: 10 :: ind') items ++ (10 :: ind) ++ [125]
      end
  end.

Definition print (v : tv) : list Z := printg [] [] v.

(* ------------------------------------------------------------------ *)
(* well-formed values: number tokens are JSONNumbers, string units are UTF-16 units *)
Definition is_unit (c : Z) : bool := (0 <=? c) && (c <? 65536).

Fixpoint jmap {A B} (f : A -> B) (v : jv A) : jv B :=
  match v with
  | JNull => JNull
  | JBool b => JBool b
  | JNum n => JNum (f n)
  | JStr s => JStr s
  | JArr l => JArr (map (jmap f) l)
  | JObj m => JObj (map (fun kv => (fst kv, jmap f (snd kv))) m)
  end.

(* ------------------------------------------------------------------ *)
(* the Number value of a JSONNumber token: exact decimal, rounded to nearest
   even binary64 (ES5 8.5), as the bit pattern *)
Fixpoint digits_val (acc : Z) (d : list Z) : Z :=
  match d with [] => acc | c :: r => digits_val (acc * 10 + (c - 48)) r end.

(* nearest-even n / d  (n >= 0, d > 0) *)
Definition round_div (n d : Z) : Z :=
  let q := n / d in
  let r := n mod d in
  if 2 * r <? d then q else if d <? 2 * r then q + 1 else if Z.even q then q else q + 1.

Definition inf_bits : Z := 0x7FF0000000000000.

(* bits of the double nearest to n/d, n >= 0, d > 0 (sign added by the caller) *)
Definition q_to_bits (n d : Z) : Z :=
  if n =? 0 then 0 else
  let e0 := Z.log2 n - Z.log2 d - 52 in
  let below (e : Z) := if 0 <=? e then n <? 2 ^ 52 * (d * 2 ^ e) else n * 2 ^ (- e) <? 2 ^ 52 * d in
  let e1 := if below e0 then e0 - 1 else e0 in
  let e := Z.max e1 (-1074) in
  let m := if 0 <=? e then round_div n (d * 2 ^ e) else round_div (n * 2 ^ (- e)) d in
  let bits := m + (e + 1074) * 2 ^ 52 in
  if inf_bits <=? bits then inf_bits else bits.

(* split a token into sign, integer digits, fraction digits, exponent *)
Definition num_parts (t : list Z) : bool * Z * Z :=
  let '(neg, s1) := match t with c :: r => if c =? 45 then (true, r) else (false, t) | [] => (false, t) end in
  let (i, s2) := span_digits s1 in
  let '(f, s3) := match s2 with
                  | c :: r => if c =? 46 then span_digits r else ([], s2)
                  | [] => ([], s2)
                  end in
  let ex := match s3 with
            | _ :: x :: r =>
                if x =? 45 then - digits_val 0 r
                else if x =? 43 then digits_val 0 r
                else digits_val 0 (x :: r)
            | _ => 0
            end in
  (neg, digits_val 0 (i ++ f), ex - Z.of_nat (length f)).

Definition num_value (t : list Z) : Z :=
  let '(neg, dg, ex) := num_parts t in
  (* shortcuts that keep huge exponents cheap: with 1 <= dg < 2^u,
     ex > 400 gives a value >= 10^401 (infinity), and ex < -(400+u) a value
     below 10^u * 10^(-400-u) = 10^-400 (zero) *)
  let u := Z.log2 dg + 1 in
  let mag := if dg =? 0 then 0
             else if 400 <? ex then inf_bits
             else if ex <? - (400 + u) then 0
             else if 0 <=? ex then q_to_bits (dg * 10 ^ ex) 1 else q_to_bits dg (10 ^ (- ex)) in
  if neg then mag + 2 ^ 63 else mag.

(* 15.12.2: the object built for a JSONObject keeps, for a duplicated key,
   the position of its first occurrence and the value of its last *)
Fixpoint key_eqb (a b : list Z) : bool :=
  match a, b with
  | [], [] => true
  | x :: a', y :: b' => (x =? y) && key_eqb a' b'
  | _, _ => false
  end.

Fixpoint set_key {V} (k : list Z) (v : V) (m : list (list Z * V)) : list (list Z * V) :=
  match m with
  | [] => [(k, v)]
  | (k', v') :: m' => if key_eqb k k' then (k', v) :: m' else (k', v') :: set_key k v m'
  end.

Fixpoint dedupe {N} (v : jv N) : jv N :=
  match v with
  | JArr l => JArr (map dedupe l)
  | JObj m => JObj (fold_left (fun acc kv => set_key (fst kv) (dedupe (snd kv)) acc) m [])
  | _ => v
  end.

(* the value JSON.parse returns (without reviver), doubles as bits; None = SyntaxError *)
Definition parse_value (s : list Z) : option (jv Z) :=
  option_map (fun v => dedupe (jmap num_value v)) (parse s).
