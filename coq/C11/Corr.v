(* correspondence cases for C11: what the harness observed on the real
   interpreter against Model (otto = ES5 + the listed deviations) and Spec *)
From Coq Require Import ZArith Bool List.
From Otto Require Import Common.Corr Common.Double.
From Otto Require Export C11.Spec C11.Model.
Import ListNotations.
Open Scope Z_scope.

Inductive pobs := PVal (v : ov) | PErr (cls : Z).
Inductive robs := RVal (log : list (list Z * ov)) (res : ov) | RErr (cls : Z).

Inductive case :=
| CParse (text : list Z) (obs : pobs)                 (* JSON.parse(text) *)
| CParseOrder (text : list Z) (in_order : bool)       (* Object.keys(JSON.parse(text)) is in text order on each of 8 calls *)
| CRevive (text : list Z) (rid : Z) (obs : robs)      (* JSON.parse(text, reviver rid): calls seen, result *)
| CRevDelAll (n : Z) (survivors : Z)                  (* n-member object, reviver deletes every member: members left *)
| CStringify (v : js) (rep : replacer) (sp : space) (obs : sres)
| CReprint (text : list Z) (obs : sres)               (* JSON.stringify(JSON.parse(text)) *)
| CMarshal (v : js) (obs : sres)                      (* Go side: json.Marshal(otto.Value) *)
| CAgree (what : Z) (agree : bool).                   (* Go side: json.Marshal(value), value.Object().MarshalJSON() and
                                                         json.Marshal(value.Export()) give the text JSON.stringify(value)
                                                         gives in the script, for object classes outside the js model
                                                         (what: 1 value/object marshalling, 2 exported JSON trees) *)

(* finding classes:
   1 unpaired surrogate -> U+FFFD in JSON.parse      2 number overflow -> SyntaxError in JSON.parse
   3 Object.keys order of a parsed object            4 stringify emits members in sorted key order
   5 stringify escapes < > & U+2028 U+2029            6 unpaired surrogate -> U+FFFD in JSON.stringify
   8 string gap cut at 10 bytes                       10 integral numbers >= 2^53 printed with all their digits
   (7 property-list replacer and 9 reviver deleting members are repaired: c349b98, 7f33b5d) *)

Fixpoint has_inf (v : jv Z) : bool :=
  match v with
  | JNum b => b mod 2 ^ 63 =? inf_bits
  | JArr l => existsb has_inf l
  | JObj m => existsb (fun kv => has_inf (snd kv)) m
  | _ => false
  end.

Definition pobs_eqb (a b : pobs) : bool :=
  match a, b with
  | PVal x, PVal y => ov_eqb x y
  | PErr x, PErr y => x =? y
  | _, _ => false
  end.

Definition parse_spec (text : list Z) : pobs :=
  match parse text with
  | Some raw => PVal (to_ov (dedupe (jmap num_value raw)))
  | None => PErr 5
  end.

Definition parse_model (text : list Z) : pobs :=
  match parse text with
  | Some raw => let v := jmap num_value raw in
                if has_inf v then PErr 5 else PVal (ov_sanitize (to_ov (dedupe v)))
  | None => PErr 5
  end.

Definition parse_class (text : list Z) : Z :=
  match parse text with
  | Some raw => if has_inf (jmap num_value raw) then 2 else 1
  | None => 0
  end.

(* --- key order --- *)
Definition top_keys (text : list Z) : nat :=
  match parse text with
  | Some (JObj m) => length (fold_left (fun acc kv => set_key (fst kv) tt acc) m [])
  | _ => O
  end.

(* --- reviver --- *)
Definition entry_eqb (a b : list Z * ov) : bool := key_eqb (fst a) (fst b) && ov_eqb (snd a) (snd b).
Definition entry_eqb_ord (a b : list Z * ov) : bool := key_eqb (fst a) (fst b) && ov_eqb_ord (snd a) (snd b).

Fixpoint remove_first (x : list Z * ov) (l : list (list Z * ov)) : option (list (list Z * ov)) :=
  match l with
  | [] => None
  | y :: r => if entry_eqb x y then Some r
              else match remove_first x r with Some r' => Some (y :: r') | None => None end
  end.
Fixpoint perm_eqb (a b : list (list Z * ov)) : bool :=
  match a with
  | [] => is_nil b
  | x :: a' => match remove_first x b with Some b' => perm_eqb a' b' | None => false end
  end.

Fixpoint has_multi (v : ov) : bool :=
  match v with
  | OArr l => existsb has_multi l
  | OObj m => (2 <=? length m)%nat || existsb (fun kv => has_multi (snd kv)) m
  | _ => false
  end.

(* [ordered]: no object has two or more members, so the sequence of calls is determined *)
Definition robs_eqb (ordered : bool) (a b : robs) : bool :=
  match a, b with
  | RVal la ra, RVal lb rb =>
      if ordered then list_eqb entry_eqb_ord la lb && ov_eqb_ord ra rb
      else perm_eqb la lb && ov_eqb ra rb
  | RErr x, RErr y => x =? y
  | _, _ => false
  end.

Definition revive_of (fuel : nat) (rid : Z) (p : pobs) : robs :=
  match p with
  | PVal v => let '(log, res) := rwalk rid fuel [] v in RVal log res
  | PErr c => RErr c
  end.

(* --- stringify --- *)
Definition sres_eqb (a b : sres) : bool :=
  match a, b with
  | SUndefined, SUndefined => true
  | SText x, SText y => key_eqb x y
  | SErr x, SErr y => x =? y
  | _, _ => false
  end.

Definition sres_internal (a : sres) : bool :=
  match a with SErr c => (c =? 97) || (c =? 98) | _ => false end.

Definition without (d : Z) : flags :=
  Build_flags (negb (d =? 4)) (negb (d =? 5)) (negb (d =? 6)) (negb (d =? 8)) (negb (d =? 10)).

Definition only (d : Z) : flags :=
  Build_flags (d =? 4) (d =? 5) (d =? 6) (d =? 8) (d =? 10).

Definition stringify_class (v : js) (rep : replacer) (sp : space) : Z :=
  let full := stringify otto v rep sp in
  let differs d := negb (sres_eqb (stringify (without d) v rep sp) full) in
  (* a deviation that matters only together with another one: attribute to the first that shows alone *)
  let spec := stringify es5 v rep sp in
  let alone d := negb (sres_eqb (stringify (only d) v rep sp) spec) in
  if differs 8 then 8 else if differs 6 then 6
  else if differs 5 then 5 else if differs 10 then 10 else if differs 4 then 4
  else if alone 8 then 8 else if alone 6 then 6
  else if alone 5 then 5 else if alone 10 then 10 else if alone 4 then 4 else 0.

(* --- JSON.stringify(JSON.parse(text)): numbers restricted to safe integers --- *)
Fixpoint strip_zeros (l : list Z) : list Z :=   (* on the reversed digit list *)
  match l with c :: r => if c =? 48 then strip_zeros r else l | [] => [] end.

Definition js_num (bits : Z) : option js :=
  match int_of_bits bits with
  | Some n => if Z.abs n <? 2 ^ 53
              then let ds := dec (Z.abs n) in
                   Some (Num bits (rev (strip_zeros (rev ds))) (Z.of_nat (length ds)))
              else None
  | None => None
  end.

Fixpoint all_some {A} (l : list (option A)) : option (list A) :=
  match l with
  | [] => Some []
  | Some x :: r => match all_some r with Some r' => Some (x :: r') | None => None end
  | None :: _ => None
  end.

Fixpoint js_of_ov (v : ov) : option js :=
  match v with
  | OUndef | OHole => Some Undef
  | ONull => Some Null
  | OBool b => Some (Bool b)
  | ONum b => js_num b
  | OStr s => Some (Str s)
  | OArr l => option_map Arr (all_some (map js_of_ov l))
  | OObj m => option_map Obj (all_some (map (fun kv => option_map (pair (fst kv)) (js_of_ov (snd kv))) m))
  | OOther => None
  end.

Definition reprint_of (fl : flags) (p : pobs) : option sres :=
  match p with
  | PErr c => Some (SErr c)
  | PVal v => match js_of_ov v with
              | Some j => Some (stringify fl j RNone SNone)
              | None => None
              end
  end.

(* --- Go-side marshalling (otto.go Object.MarshalJSON, value.go Value.MarshalJSON):
   the JSON.stringify text; undefined marshals as null --- *)
Definition marshal_of (fl : flags) (v : js) : sres :=
  match stringify fl v RNone SNone with
  | SUndefined => SText [110; 117; 108; 108]
  | r => r
  end.

Definition verdict (c : case) : Z * Z :=
  match c with
  | CParse text obs => judge pobs_eqb obs (parse_model text) (parse_spec text) (parse_class text)
  | CParseOrder text b =>
      if (9 <=? top_keys text)%nat then judge Bool.eqb b false true 3 else declined
  | CRevive text rid obs =>
      let fuel := S (length text) in   (* nesting depth < length of the text *)
      let m := revive_of fuel rid (parse_model text) in
      let s := revive_of fuel rid (parse_spec text) in
      let ordered := match parse_spec text with PVal v => negb (has_multi v) | _ => true end in
      judge (robs_eqb ordered) obs m s (parse_class text)
  | CRevDelAll n k =>
      if (0 <=? n) && (n <=? 40) then judge Z.eqb k (revdel_left n) (revdel_left n) 0 else declined
  | CStringify v rep sp obs =>
      let m := stringify otto v rep sp in
      let s := stringify es5 v rep sp in
      if sres_internal m || sres_internal s then (3, 98)
      else judge sres_eqb obs m s (stringify_class v rep sp)
  | CReprint text obs =>
      match reprint_of otto (parse_model text), reprint_of es5 (parse_spec text) with
      | Some m, Some s =>
          if sres_internal m || sres_internal s then (3, 98)
          else judge sres_eqb obs m s
                 (if pobs_eqb (parse_model text) (parse_spec text)
                  then match parse_spec text with
                       | PVal v => match js_of_ov v with Some j => stringify_class j RNone SNone | None => 0 end
                       | _ => 0
                       end
                  else parse_class text)
      | _, _ => declined
      end
  | CAgree _ b => judge Bool.eqb b true true 0
  | CMarshal v obs =>
      let m := marshal_of otto v in
      let s := marshal_of es5 v in
      if sres_internal m || sres_internal s then (3, 98)
      else judge sres_eqb obs m s (stringify_class v RNone SNone)
  end.
