(* C11 proofs, part 2: the shape of 15.12.3 serialisation and of the 15.12.2
   reviver walk, as theorems about the executable definitions of Model.v with
   all deviation flags off ([es5]). *)
From Coq Require Import ZArith List Bool Lia.
From Otto Require Import Common.Double C11.Spec C11.Model C11.Proofs.
Import ListNotations.
Open Scope Z_scope.

(* ------------------------------------------------------------------ *)
(* gap: never more than 10 code units (steps 6-8) *)
Lemma clamped_le_10 b : (Z.to_nat (to_integer_clamped b) <= 10)%nat.
Proof.
  unfold to_integer_clamped. destruct (decode b) as [|neg|neg m e]; try destruct neg; lia.
Qed.

Theorem gap_le_10 : forall sp, (length (gap_of es5 sp) <= 10)%nat.
Proof.
  intros [|b|s|b|s|]; cbn [gap_of f_gap f_surr es5]; try (cbn; lia);
    try (rewrite repeat_length; apply clamped_le_10); apply firstn_le_length.
Qed.

Theorem gap_is_prefix : forall s, exists r, s = gap_of es5 (SStr s) ++ r.
Proof. intros s. exists (skipn 10 s). cbn [gap_of f_gap f_surr es5]. symmetry. apply firstn_skipn. Qed.

(* ------------------------------------------------------------------ *)
(* keys *)
Lemma key_eqb_eq a : forall b, key_eqb a b = true <-> a = b.
Proof.
  induction a as [|x a IH]; intros [|y b]; cbn; try (split; congruence).
  rewrite andb_true_iff, Z.eqb_eq, IH. split; [intros [-> ->]; reflexivity | intros H; inversion H; auto].
Qed.
Lemma key_eqb_refl a : key_eqb a a = true.
Proof. now apply key_eqb_eq. Qed.

Fixpoint distinct (ks : list (list Z)) : Prop :=
  match ks with [] => True | k :: r => mem_key k r = false /\ distinct r end.

Lemma mem_key_app k a b : mem_key k (a ++ b) = mem_key k a || mem_key k b.
Proof. induction a; cbn; [reflexivity|]. now rewrite IHa, orb_assoc. Qed.

Lemma mem_key_sym_false k x : key_eqb k x = false -> key_eqb x k = false.
Proof.
  intros H. destruct (key_eqb x k) eqn:E; [|reflexivity].
  apply key_eqb_eq in E; subst. now rewrite key_eqb_refl in H.
Qed.

Lemma dedupe_keys_distinct ks : forall acc,
  distinct ks -> (forall k, mem_key k acc = true -> mem_key k ks = false) ->
  fold_left (fun acc k => if mem_key k acc then acc else acc ++ [k]) ks acc = acc ++ ks.
Proof.
  induction ks as [|k ks IH]; intros acc Hd Hacc; cbn [fold_left].
  - now rewrite app_nil_r.
  - destruct Hd as [Hk Hd].
    assert (Hn : mem_key k acc = false).
    { destruct (mem_key k acc) eqn:E; [|reflexivity]. apply Hacc in E. cbn in E.
      now rewrite key_eqb_refl in E. }
    rewrite Hn, IH; [now rewrite <- app_assoc | assumption |].
    intros k' Hk'. rewrite mem_key_app in Hk'. apply orb_true_iff in Hk' as [Hk'|Hk'].
    + apply Hacc in Hk'. cbn in Hk'. now apply orb_false_iff in Hk'.
    + cbn in Hk'. rewrite orb_false_r in Hk'. apply key_eqb_eq in Hk'. now subst.
Qed.

Lemma own_keys_distinct m : distinct (map fst m) -> own_keys es5 m = map fst m.
Proof.
  intros H. unfold own_keys. cbn [f_surr es5].
  replace (map (fun kv : list Z * js => fst kv) m) with (map fst m) by reflexivity.
  now rewrite dedupe_keys_distinct.
Qed.

Lemma lookup_skip {V} k (pre : list (list Z * V)) m :
  mem_key k (map fst pre) = false -> lookup k (pre ++ m) = lookup k m.
Proof.
  induction pre as [|[k' v'] pre IH]; cbn; [reflexivity|]. intros H.
  apply orb_false_iff in H as [H1 H2]. rewrite H1. auto.
Qed.

(* ------------------------------------------------------------------ *)
(* induction principle for js *)
Section js_ind.
  Variable P : js -> Prop.
  Hypothesis H1 : P Undef. Hypothesis H2 : P Null. Hypothesis H3 : forall b, P (Bool b).
  Hypothesis H4 : forall b d n, P (Num b d n). Hypothesis H5 : forall s, P (Str s). Hypothesis H6 : P Fun.
  Hypothesis H7 : forall b d n, P (WNum b d n). Hypothesis H8 : forall s, P (WStr s).
  Hypothesis H9 : forall b, P (WBool b).
  Hypothesis H10 : forall l, Forall P l -> P (Arr l).
  Hypothesis H11 : forall m, Forall (fun kv => P (snd kv)) m -> P (Obj m).
  Hypothesis H12 : forall k v, P v -> P (ToJ k v).
  Hypothesis H13 : forall b, P (Cyc b).
  Hypothesis H14 : forall m h, P (ObjH m h).
  Fixpoint js_ind' (v : js) : P v :=
    match v with
    | Undef => H1 | Null => H2 | Bool b => H3 b | Num b d n => H4 b d n | Str s => H5 s | Fun => H6
    | WNum b d n => H7 b d n | WStr s => H8 s | WBool b => H9 b
    | Arr l => H10 l ((fix go (l : list js) : Forall P l :=
                         match l with [] => Forall_nil _ | x :: r => Forall_cons _ (js_ind' x) (go r) end) l)
    | Obj m => H11 m ((fix go (m : list (list Z * js)) : Forall (fun kv => P (snd kv)) m :=
                         match m with [] => Forall_nil _ | x :: r => Forall_cons _ (js_ind' (snd x)) (go r) end) m)
    | ToJ k v => H12 k v (js_ind' v)
    | Cyc b => H13 b
    | ObjH m h => H14 m h
    end.
End js_ind.

(* ------------------------------------------------------------------ *)
(* what a value denotes under 15.12.3 without replacer: undefined and
   functions vanish from objects and are null in arrays, wrappers are unboxed,
   non-finite numbers are null, a reference to an enclosing container is a
   TypeError (class 6) *)
Fixpoint denote (v : js) : dres :=
  match v with
  | Undef | Fun => DUndef
  | Null => DVal JNull
  | Bool b | WBool b => DVal (JBool b)
  | Num b d n | WNum b d n => num_tree es5 b d n
  | Str s | WStr s => DVal (JStr s)
  | Arr l => seq_arr (map denote l)
  | Obj m => seq_obj (map (fun kv => (fst kv, denote (snd kv))) m)
  | ToJ _ _ => DVal (JObj [])
  | Cyc _ => DErr 6
  | ObjH m _ => seq_obj (map (fun kv => (fst kv, DUndef)) m)   (* not covered by the shape theorem *)
  end.

(* no toJSON methods, object keys pairwise different *)
Fixpoint plain (v : js) : Prop :=
  match v with
  | Arr l => fold_right (fun x acc => plain x /\ acc) True l
  | Obj m => distinct (map fst m) /\ fold_right (fun kv acc => plain (snd kv) /\ acc) True m
  | ToJ _ _ => False
  | ObjH _ _ => False
  | _ => True
  end.

Fixpoint depth (v : js) : nat :=
  match v with
  | Arr l => S (fold_right (fun x acc => Nat.max (depth x) acc) O l)
  | Obj m => S (fold_right (fun kv acc => Nat.max (depth (snd kv)) acc) O m)
  | ToJ _ v => S (depth v)
  | _ => O
  end.

Lemma map_index_from (F : list Z -> js -> dres) (G : js -> dres) l : forall i,
  Forall (fun x => forall k, F k x = G x) l ->
  map (fun kv => F (fst kv) (snd kv)) (index_from i l) = map G l.
Proof.
  induction l as [|x l IH]; intros i H; cbn [index_from map]; [reflexivity|].
  inversion H; subst. cbn [fst snd]. now rewrite H2, IH.
Qed.

Lemma map_members (F : list Z -> js -> dres) (G : js -> dres) m : forall pre,
  distinct (map fst (pre ++ m)) ->
  Forall (fun kv => forall k, F k (snd kv) = G (snd kv)) m ->
  map (fun k => (k, F k (js_lookup es5 k (pre ++ m)))) (map fst m)
  = map (fun kv => (fst kv, G (snd kv))) m.
Proof.
  induction m as [|[k v] m IH]; intros pre Hd H; cbn [map]; [reflexivity|].
  inversion H; subst. cbn [fst snd] in *.
  assert (Hk : mem_key k (map fst pre) = false).
  { clear - Hd. induction pre as [|[k' v'] pre IHp]; [reflexivity|].
    cbn [map app fst distinct] in Hd. destruct Hd as [Hm Hd]. cbn [map fst mem_key].
    rewrite map_app, mem_key_app in Hm. apply orb_false_iff in Hm as [_ Hm].
    cbn [map fst mem_key] in Hm. apply orb_false_iff in Hm as [Hm _].
    apply mem_key_sym_false in Hm. rewrite Hm. cbn. auto. }
  f_equal.
  - unfold js_lookup. cbn [f_surr es5]. rewrite lookup_skip by assumption. cbn [lookup].
    rewrite key_eqb_refl. now rewrite H2.
  - specialize (IH (pre ++ [(k, v)])). rewrite <- app_assoc in IH. cbn [app] in IH. apply IH; auto.
Qed.

Lemma le_max_l a b c : (Nat.max a b < c -> a < c)%nat. Proof. lia. Qed.

Theorem str_walk_shape : forall v, plain v ->
  forall fuel inarr key, (depth v < fuel)%nat -> str_walk es5 RNone None fuel false inarr key v = denote v.
Proof.
  induction v using js_ind'; intros Hp fuel inarr key Hf; (destruct fuel as [|f]; [lia|]); try reflexivity.
  - (* array *)
    cbn [str_walk denote]. f_equal. cbn [depth] in Hf.
    apply (map_index_from (fun k x => str_walk es5 RNone None f false true k x) denote).
    cbn [plain] in Hp. induction l as [|x l IHl]; [constructor|].
    inversion H; subst. cbn [fold_right] in Hp, Hf. destruct Hp as [Hx Hl].
    constructor; [intros k; apply H2; [assumption | lia] | apply IHl; auto; lia].
  - (* object *)
    cbn [str_walk denote]. cbn [plain] in Hp. destruct Hp as [Hd Hp]. cbn [depth] in Hf.
    rewrite own_keys_distinct by assumption. f_equal.
    apply (map_members (fun k x => str_walk es5 RNone None f false false k x) denote m []); [exact Hd|].
    induction m as [|kv m IHm]; [constructor|].
    inversion H; subst. cbn [fold_right map fst distinct] in Hp, Hf, Hd. destruct Hp as [Hx Hl].
    constructor; [intros k; apply H2; [assumption | lia] | apply IHm; try tauto; lia].
  - (* toJSON object: excluded *)
    destruct Hp.
  - (* object with members beyond its own enumerable ones: excluded *)
    destruct Hp.
Qed.

(* consequences spelled out *)
Corollary undefined_members_omitted : forall k1 k2 (v : js),
  key_eqb k1 k2 = false -> plain v -> (depth v < 50)%nat ->
  stringify es5 (Obj [(k1, Undef); (k2, v); (k1 ++ k2 ++ [0], Fun)]) RNone SNone
  = stringify es5 (Obj [(k2, v)]) RNone SNone.
Proof.
  intros k1 k2 v Hk Hp Hd. unfold stringify.
  assert (P1 : plain (Obj [(k1, Undef); (k2, v); (k1 ++ k2 ++ [0], Fun)])).
  { cbn [plain map fst snd distinct mem_key fold_right]. rewrite Hk.
    assert (E1 : key_eqb k1 (k1 ++ k2 ++ [0]) = false).
    { destruct (key_eqb k1 (k1 ++ k2 ++ [0])) eqn:E; [|reflexivity]. apply key_eqb_eq in E.
      apply (f_equal (@length Z)) in E. rewrite !app_length in E. cbn in E. lia. }
    assert (E2 : key_eqb k2 (k1 ++ k2 ++ [0]) = false).
    { destruct (key_eqb k2 (k1 ++ k2 ++ [0])) eqn:E; [|reflexivity]. apply key_eqb_eq in E.
      apply (f_equal (@length Z)) in E. rewrite !app_length in E. cbn in E. lia. }
    rewrite E1, E2. cbn. tauto. }
  assert (P2 : plain (Obj [(k2, v)])) by (cbn; tauto).
  rewrite !str_walk_shape; auto; try (cbn [depth fold_right snd]; lia).
  cbn [denote map fst snd seq_obj]. destruct (denote v) as [|t|c]; reflexivity.
Qed.

Corollary undefined_elements_null : forall l1 l2,
  Forall plain l1 -> Forall plain l2 ->
  denote (Arr (l1 ++ Undef :: l2)) = denote (Arr (l1 ++ Null :: l2)) /\
  denote (Arr (l1 ++ Fun :: l2)) = denote (Arr (l1 ++ Null :: l2)).
Proof.
  intros l1 l2 _ _. cbn [denote]. rewrite !map_app. cbn [map denote].
  split; induction l1 as [|x l1 IH]; cbn [app map seq_arr]; try reflexivity; now rewrite IH.
Qed.

Theorem cycle_is_typeerror : forall pre post b,
  (forall x, In x pre -> exists t, denote x = DVal t \/ denote x = DUndef) ->
  denote (Arr (pre ++ Cyc b :: post)) = DErr 6.
Proof.
  intros pre post b H. cbn [denote]. rewrite map_app. cbn [map denote].
  induction pre as [|x pre IH]; cbn [app map seq_arr]; [reflexivity|].
  destruct (H x (or_introl eq_refl)) as (t & [E|E]); rewrite E, IH; auto;
    intros y Hy; apply H; now right.
Qed.

(* ------------------------------------------------------------------ *)
(* 15.12.2 Walk: the call for a holder's member comes after all calls for the
   member's own descendants (the last log entry of a sub-walk is the node
   itself, seen with its children already revived), and the identity reviver
   rebuilds the value *)
Theorem rwalk_node_last : forall id f key v,
  exists log v', fst (rwalk id (S f) key v) = log ++ [(key, v')] /\
                 snd (rwalk id (S f) key v) = rev_fun id key v'.
Proof.
  intros id f key v. cbn [rwalk].
  destruct (match v with OArr _ => _ | OObj _ => _ | _ => _ end) as [log v'].
  exists log, v'. split; reflexivity.
Qed.

(* deletions on undefined: under the reviver that returns undefined for every
   member (family id 7), no member with a non-empty key survives, whatever the
   members are and however many there are *)
Lemma rwalk7_member f k x : k <> [] -> snd (rwalk 7 (S f) k x) = OUndef.
Proof.
  intros Hk. destruct (rwalk_node_last 7 f k x) as (log & v' & _ & ->).
  unfold rev_fun. cbn. destruct k; [congruence | reflexivity].
Qed.

Theorem reviver_deletes_all : forall m f,
  (forall kv, In kv m -> fst kv <> []) ->
  snd (rwalk 7 (S (S f)) [] (OObj m)) = OObj [].
Proof.
  intros m f Hm.
  set (step := fun (acc : list (list Z * ov) * list (list Z * ov)) (kv : list Z * ov) =>
                 let '(lg, out) := acc in
                 let '(lg1, x') := rwalk 7 (S f) (fst kv) (snd kv) in
                 if is_undef x' then (lg ++ lg1, out) else (lg ++ lg1, out ++ [(fst kv, x')])).
  assert (H : forall lg, snd (fold_left step m (lg, [])) = []).
  { induction m as [|kv m IH]; intros lg; [reflexivity|]. cbn [fold_left].
    assert (E : step (lg, []) kv = (lg ++ fst (rwalk 7 (S f) (fst kv) (snd kv)), [])).
    { unfold step. pose proof (rwalk7_member f (fst kv) (snd kv) (Hm kv (or_introl eq_refl))) as Hu.
      destruct (rwalk 7 (S f) (fst kv) (snd kv)) as [lg1 x']. cbn [snd fst] in *. subst x'. reflexivity. }
    rewrite E. apply IH. intros kv' Hin. apply Hm. now right. }
  change (rwalk 7 (S (S f)) [] (OObj m))
    with (let '(log, v') := (let '(lg, out) := fold_left step m ([], []) in (lg, OObj out)) in
          (log ++ [([], v')], rev_fun 7 [] v')).
  specialize (H []). destruct (fold_left step m ([], [])) as [lg out]. cbn [snd] in H. subst out.
  reflexivity.
Qed.

(* 15.12.3 step 4.b: the property list K has no name twice *)
Lemma plist_es5_distinct l : forall seen,
  distinct (plist_es5 l seen) /\
  (forall k, mem_key k (plist_es5 l seen) = true -> mem_key k seen = false).
Proof.
  induction l as [|p l IH]; intros seen; cbn [plist_es5].
  - split; [exact I | intros k H; discriminate].
  - destruct (pitem_name p) as [k|]; [|apply IH].
    destruct (mem_key k seen) eqn:E; [apply IH|].
    destruct (IH (k :: seen)) as [Hd Hm]. split.
    + cbn [distinct]. split; [|exact Hd].
      destruct (mem_key k (plist_es5 l (k :: seen))) eqn:E2; [|reflexivity].
      apply Hm in E2. cbn [mem_key] in E2. now rewrite key_eqb_refl in E2.
    + intros k' H. cbn [mem_key] in H. apply orb_true_iff in H as [H|H].
      * apply key_eqb_eq in H. now subst.
      * apply Hm in H. cbn [mem_key] in H. now apply orb_false_iff in H.
Qed.

Theorem property_list_distinct : forall fl l, distinct (plist_of fl l).
Proof. intros fl l. unfold plist_of. apply plist_es5_distinct. Qed.

(* ------------------------------------------------------------------ *)
(* the value of a text made of UTF-16 code units is well formed, so it can be
   printed and read again: stringify(parse(t)) denotes what t denotes *)
Definition units (t : list Z) : Prop := forallb is_unit t = true.

Lemma units_app a b : units (a ++ b) <-> units a /\ units b.
Proof. unfold units. rewrite forallb_app, andb_true_iff. tauto. Qed.
Lemma units_cons c a : units (c :: a) <-> is_unit c = true /\ units a.
Proof. unfold units. cbn [forallb]. rewrite andb_true_iff. tauto. Qed.

Lemma hexval_range c x : hexval c = Some x -> 0 <= x <= 15.
Proof.
  unfold hexval. destruct ((48 <=? c) && (c <=? 57)) eqn:E1.
  { intros H; inversion H; subst. zb. lia. }
  destruct ((97 <=? c) && (c <=? 102)) eqn:E2.
  { intros H; inversion H; subst. zb. lia. }
  destruct ((65 <=? c) && (c <=? 70)) eqn:E3; [|discriminate].
  intros H; inversion H; subst. zb. lia.
Qed.

Lemma hex4_unit a b c d u : hex4 a b c d = Some u -> is_unit u = true.
Proof.
  unfold hex4. destruct (hexval a) as [x|] eqn:Ea; [|discriminate].
  destruct (hexval b) as [y|] eqn:Eb; [|discriminate].
  destruct (hexval c) as [z|] eqn:Ec; [|discriminate].
  destruct (hexval d) as [w|] eqn:Ed; [|discriminate].
  intros H; inversion H; subst.
  apply hexval_range in Ea, Eb, Ec, Ed. unfold is_unit. zb. lia.
Qed.

Lemma simple_escape_unit e u : simple_escape e = Some u -> is_unit u = true.
Proof.
  unfold simple_escape.
  repeat match goal with |- context [if ?b then _ else _] => destruct b end;
    intros H; inversion H; reflexivity.
Qed.

Lemma GChars_units b s : GChars b s -> units b -> units s.
Proof.
  induction 1; intros Hu.
  - reflexivity.
  - apply units_cons in Hu as [Hc Hu]. apply units_cons. auto.
  - apply units_cons in Hu as [_ Hu]. apply units_cons in Hu as [_ Hu].
    apply units_cons. split; [eapply simple_escape_unit; eauto | auto].
  - do 6 (apply units_cons in Hu as [_ Hu]).
    apply units_cons. split; [eapply hex4_unit; eauto | auto].
Qed.

Lemma grammar_values_wf :
  (forall t v, GValue t v -> units t -> wf v) /\
  (forall t vs, GElems t vs -> units t -> Forall wf vs) /\
  (forall t ms, GMembers t ms -> units t ->
     Forall (fun kv => forallb is_unit (fst kv) = true /\ wf (snd kv)) ms).
Proof.
  apply G_mutind.
  - intros _; exact I.
  - intros _; exact I.
  - intros _; exact I.
  - intros t Ht _. exact Ht.
  - intros b s Hb Hu. cbn [wf].
    apply units_cons in Hu as [_ Hu]. apply units_app in Hu as [Hu _]. eapply GChars_units; eauto.
  - intros w _ _. exact I.
  - intros w t vs w' _ _ IH _ Hu. apply wf_arr. apply IH. apply units_cons in Hu as [_ Hu].
    apply units_app in Hu as [_ Hu]. now apply units_app in Hu as [Hu _].
  - intros w _ _. exact I.
  - intros w t ms w' _ _ IH _ Hu. apply wf_obj. apply IH. apply units_cons in Hu as [_ Hu].
    apply units_app in Hu as [_ Hu]. now apply units_app in Hu as [Hu _].
  - intros t v _ IH Hu. constructor; auto.
  - intros t v w1 w2 r vs _ IHv _ _ _ IHe Hu.
    apply units_app in Hu as [Ht Hu]. apply units_app in Hu as [_ Hu].
    apply units_cons in Hu as [_ Hu]. apply units_app in Hu as [_ Hu].
    constructor; auto.
  - intros kb k w1 w2 t v Hk _ _ _ IHv Hu.
    apply units_cons in Hu as [_ Hu]. apply units_app in Hu as [Hkb Hu].
    apply units_cons in Hu as [_ Hu]. apply units_app in Hu as [_ Hu].
    apply units_cons in Hu as [_ Hu]. apply units_app in Hu as [_ Hu].
    constructor; [|constructor]. cbn [fst snd]. split; [eapply GChars_units; eauto | auto].
  - intros kb k w1 w2 t v w3 w4 r ms Hk _ _ _ IHv _ _ _ IHm Hu.
    apply units_cons in Hu as [_ Hu]. apply units_app in Hu as [Hkb Hu].
    apply units_cons in Hu as [_ Hu]. apply units_app in Hu as [_ Hu].
    apply units_cons in Hu as [_ Hu]. apply units_app in Hu as [_ Hu].
    apply units_app in Hu as [Ht Hu]. apply units_app in Hu as [_ Hu].
    apply units_cons in Hu as [_ Hu]. apply units_app in Hu as [_ Hu].
    constructor; auto. cbn [fst snd]. split; [eapply GChars_units; eauto | auto].
Qed.

Theorem reprint_denotes_same : forall t v gap, units t -> WS gap ->
  parse t = Some v -> parse (printg gap [] v) = Some v.
Proof.
  intros t v gap Hu Hg Hp. apply parse_printg; auto; [reflexivity|].
  apply parse_iff_grammar in Hp as (w1 & t' & w2 & _ & Hv & _ & ->).
  apply (proj1 grammar_values_wf _ _ Hv).
  apply units_app in Hu as [_ Hu]. now apply units_app in Hu as [Hu _].
Qed.

(* ------------------------------------------------------------------ *)
(* 15.12.2 Walk over an array reads the length once: whatever the reviver does
   to its holder (push, pop, truncate, unshift: revivers 8-12), it is called
   for exactly the indices 0 .. len-1 of the original array, in order, and then
   for the array itself.  Stated for arrays of primitives. *)
Definition leaf (x : ov) : bool := match x with OArr _ | OObj _ => false | _ => true end.

Lemma rwalk_leaf id f k x : leaf x = true -> rwalk id (S f) k x = ([(k, x)], rev_fun id k x).
Proof. destruct x; intros H; try discriminate; reflexivity. Qed.

Lemma rev_fun_leaf id k x : leaf x = true -> leaf (rev_fun id k x) = true.
Proof.
  intros H. unfold rev_fun.
  repeat match goal with |- context [if ?b then _ else _] => destruct b end;
    destruct x; try discriminate; reflexivity.
Qed.

Lemma leaves_firstn n a : forallb leaf a = true -> forallb leaf (firstn n a) = true.
Proof.
  revert a; induction n as [|n IH]; intros [|x a] H; cbn in *; auto.
  apply andb_true_iff in H as [-> H]. cbn. auto.
Qed.
Lemma leaves_removelast a : forallb leaf a = true -> forallb leaf (removelast a) = true.
Proof.
  induction a as [|x a IH]; intros H; [reflexivity|]. cbn [forallb] in H.
  apply andb_true_iff in H as [Hx H]. cbn [removelast]. destruct a; [reflexivity|].
  cbn [forallb]. rewrite Hx. cbn. auto.
Qed.
Lemma leaves_eff id k a : forallb leaf a = true -> forallb leaf (rev_eff id k a) = true.
Proof.
  intros H. unfold rev_eff.
  repeat match goal with |- context [if ?b then _ else _] => destruct b end;
    auto using leaves_firstn, leaves_removelast; try (rewrite forallb_app, H; reflexivity);
    try (cbn; exact H).
Qed.
Lemma leaf_get a i : forallb leaf a = true -> leaf (arr_get a i) = true.
Proof.
  unfold arr_get. revert i; induction a as [|x a IH]; intros [|i] H; cbn in *; auto.
  - apply andb_true_iff in H as [Hx _]. destruct x; auto.
  - apply andb_true_iff in H as [_ H]. apply (IH i H).
Qed.
Lemma leaves_set a : forall i x, forallb leaf a = true -> leaf x = true -> forallb leaf (arr_set a i x) = true.
Proof.
  induction a as [|y a IH]; intros i x H Hx.
  - induction i as [|i IHi]; cbn; [now rewrite Hx | exact IHi].
  - cbn [forallb] in H. apply andb_true_iff in H as [Hy H].
    destruct i; cbn; [now rewrite Hx, H | rewrite Hy; cbn; auto].
Qed.
Lemma leaves_del a : forall i, forallb leaf a = true -> forallb leaf (arr_del a i) = true.
Proof.
  induction a as [|y a IH]; intros i H; [destruct i; reflexivity|].
  cbn [forallb] in H. apply andb_true_iff in H as [Hy H].
  destruct i; cbn; [exact H | rewrite Hy; cbn; auto].
Qed.

Theorem rwalk_array_length_read_once : forall id f key l,
  forallb leaf l = true ->
  map fst (fst (rwalk id (S (S f)) key (OArr l)))
  = map (fun i => dec (Z.of_nat i)) (seq 0 (length l)) ++ [key].
Proof.
  intros id f key l Hl.
  set (step := fun (acc : list (list Z * ov) * list ov) (i : nat) =>
                 let '(lg, a) := acc in
                 let k := dec (Z.of_nat i) in
                 let '(lg1, x') := rwalk id (S f) k (arr_get a i) in
                 let a1 := rev_eff id k a in
                 (lg ++ lg1, if is_undef x' then arr_del a1 i else arr_set a1 i x')).
  assert (H : forall is lg a, forallb leaf a = true ->
            map fst (fst (fold_left step is (lg, a))) = map fst lg ++ map (fun i => dec (Z.of_nat i)) is).
  { induction is as [|i is IH]; intros lg a Ha; cbn [fold_left map]; [now rewrite app_nil_r|].
    assert (E : step (lg, a) i =
                (lg ++ [(dec (Z.of_nat i), arr_get a i)],
                 if is_undef (rev_fun id (dec (Z.of_nat i)) (arr_get a i))
                 then arr_del (rev_eff id (dec (Z.of_nat i)) a) i
                 else arr_set (rev_eff id (dec (Z.of_nat i)) a) i (rev_fun id (dec (Z.of_nat i)) (arr_get a i)))).
    { unfold step. rewrite rwalk_leaf by now apply leaf_get. reflexivity. }
    rewrite E, IH.
    - rewrite map_app. cbn [map fst]. now rewrite <- app_assoc.
    - destruct (is_undef _); [apply leaves_del | apply leaves_set];
        auto using leaves_eff, rev_fun_leaf, leaf_get. }
  change (rwalk id (S (S f)) key (OArr l))
    with (let '(log, v') := (let '(lg, out) := fold_left step (seq 0 (length l)) ([], l) in (lg, OArr out)) in
          (log ++ [(key, v')], rev_fun id key v')).
  specialize (H (seq 0 (length l)) [] l Hl).
  destruct (fold_left step (seq 0 (length l)) ([], l)) as [lg out]. cbn [fst] in *.
  rewrite map_app, H. reflexivity.
Qed.

(* ------------------------------------------------------------------ *)
(* 15.12.3 JO with a property list: K is the list as it is and Str reads each name with
   [[Get]], so a member found on the prototype chain (or an own non-enumerable one) is
   emitted when the list names it, and only then *)
Lemma walk_listed_inherited f k :
  str_walk es5 (RList [PStr k]) (Some [k]) (S (S f)) false false [] (ObjH [] [(k, Null)])
  = DVal (JObj [(k, JNull)]).
Proof.
  assert (H : js_lookup es5 k [(k, Null)] = Null).
  { unfold js_lookup. cbn [f_surr es5 lookup]. now rewrite key_eqb_refl. }
  cbn [str_walk app map]. rewrite !H. reflexivity.
Qed.

Theorem property_list_reads_chain : forall k,
  stringify es5 (ObjH [] [(k, Null)]) (RList [PStr k]) SNone
    = SText (123 :: (quote_fl es5 k ++ 58 :: [110; 117; 108; 108]) ++ [125]) /\
  stringify es5 (ObjH [] [(k, Null)]) RNone SNone = SText [123; 125].
Proof.
  intros k. split; [|vm_compute; reflexivity].
  unfold stringify. cbn [plist_of f_surr es5 plist_es5 pitem_name mem_key].
  change 60%nat with (S (S 58)). rewrite walk_listed_inherited. reflexivity.
Qed.
