(* C08 proofs, part 4: otto's arrayDefineOwnProperty (after the repairs of the index test and of the
   `newLength >= length` test) against ES5 15.4.5.1.  The Go code defines some properties twice
   (the fall-through at the end of the function, the extra definition after a successful
   truncation); these are idempotent, so the two functions agree on the outcome and on every
   property of the resulting object.  Objects are compared through [lookup] (the order of the
   association list is not observable through any internal method). *)
From Coq Require Import ZArith Bool List Lia.
From Otto Require Import Common.Corr Common.Double C08.Spec C08.Model C08.Proofs C08.Invariant C08.Names.
Import ListNotations.
Open Scope Z_scope.

Definition own_eq (a b : obj) : Prop :=
  o_arr a = o_arr b /\ o_ext a = o_ext b /\ o_proto a = o_proto b /\
  forall k, lookup k (o_own a) = lookup k (o_own b).
Lemma own_eq_refl : forall o, own_eq o o.
Proof. intro o. repeat split. Qed.

Lemma val_eqb_refl : forall v, val_eqb v v = true.
Proof.
  destruct v; cbn [val_eqb]; try reflexivity; [apply Bool.eqb_reflx | apply Z.eqb_refl | apply Z.eqb_refl | apply zl_refl |].
  rewrite !Z.eqb_refl. reflexivity.
Qed.

(* 8.12.9 is idempotent: defining again with the same descriptor changes nothing and succeeds *)
Lemma define_ord_idem : forall cur ext d p', define_ord cur ext d = Some p' -> define_ord (Some p') ext d = Some p'.
Proof.
  intros cur ext [dv dw de dc] p'. destruct cur as [[v w e c] | ].
  - unfold define_ord, same_value. cbn [pv pw pe pc d_v d_w d_e d_c].
    destruct dv as [v0 | ], dw as [[ | ] | ], de as [[ | ] | ], dc as [[ | ] | ], w, e, c;
      cbn [negb andb orb is_some_true Bool.eqb opt_or];
      try discriminate;
      try (intro H; inversion H; subst; cbn [pv pw pe pc negb andb orb is_some_true Bool.eqb opt_or]; rewrite ?val_eqb_refl; reflexivity);
      try (destruct (val_eqb v0 v) eqn:E; cbn [negb]; try discriminate; intro H; inversion H; subst;
           cbn [pv pw pe pc negb andb orb is_some_true Bool.eqb opt_or]; rewrite ?val_eqb_refl; reflexivity).
  - unfold define_ord at 1. destruct ext; [ | discriminate]. intro H; inversion H; subst.
    unfold define_ord, same_value. cbn [pv pw pe pc d_v d_w d_e d_c].
    destruct dv as [v0 | ], dw as [[ | ] | ], de as [[ | ] | ], dc as [[ | ] | ];
      cbn [negb andb orb is_some_true Bool.eqb opt_or]; rewrite ?val_eqb_refl; reflexivity.
Qed.

Lemma lookup_ins_present : forall k p l k', lookup k l = Some p -> lookup k' (ins k p l) = lookup k' l.
Proof.
  intros k p l k' H. destruct (key_eqb k' k) eqn:E.
  - apply key_eqb_eq in E. subst. rewrite lookup_ins_same. symmetry. exact H.
  - apply lookup_ins_other. exact E.
Qed.

(* a second default definition with the same descriptor *)
Lemma def_ord_again : forall o k d t o1 t', def_ord o k d t = (o1, DTrue) ->
  exists o2, def_ord o1 k d t' = (o2, DTrue) /\ own_eq o2 o1.
Proof.
  intros o k d t o1 t' H. apply def_ord_spec in H. destruct H as [(_ & p' & Hd & ->) | (Hr & _)]; [ | congruence].
  apply define_ord_idem in Hd.
  unfold def_ord, get_own. cbn [o_own o_ext set_own]. rewrite lookup_ins_same, Hd.
  eexists. split; [reflexivity |]. repeat split. cbn [o_own set_own]. intro k'. apply lookup_ins_present. apply lookup_ins_same.
Qed.

Lemma array_index_KI : forall k i, array_index k = Some i -> k = KI i.
Proof. intros [n | | s] i; cbn [array_index]; try discriminate. destruct (n <? max_index); intro H; inversion H; reflexivity. Qed.

(* THE REFINEMENT: on an array that satisfies the length invariant and for a name on which the index
   tests agree (every name a script can write, Names.key_index_of_string), otto's arrayDefineOwnProperty
   returns what 15.4.5.1 returns and leaves an object with the same properties *)
Theorem otto_def_array_refines : forall o k d t, inv o -> otto_key_index k = array_index k ->
  snd (otto_def_array o k d t) = snd (def_array o k d t) /\
  own_eq (fst (otto_def_array o k d t)) (fst (def_array o k d t)).
Proof.
  intros o k d t (n & Hlen & Hb) Hk.
  pose proof Hlen as (w & e & Hl & Hn). pose proof (len_of_has_len _ _ Hlen) as Hlo.
  unfold otto_def_array, def_array, get_own. rewrite Hl, Hlo. cbn [pw].
  assert (same : forall x : obj * dres, snd x = snd x /\ own_eq (fst x) (fst x)) by (intro; split; [reflexivity | apply own_eq_refl]).
  destruct k as [i | | s].
  - (* integer name *)
    rewrite Hk. destruct (array_index (KI i)) as [index | ] eqn:A; [ | apply same].
    apply array_index_KI in A. inversion A; subst index.
    destruct ((n <=? i) && negb w); [apply same |].
    destruct (def_ord o (KI i) d false) as [o1 r1] eqn:D1. destruct r1; try apply same.
    destruct (n <=? i); [apply same |].
    destruct (def_ord_again _ _ _ _ _ t D1) as (o2 & D2 & E2). rewrite D2. cbn [fst snd]. split; [reflexivity | exact E2].
  - (* length *)
    destruct (d_v d) as [v | ] eqn:Dv; [ | apply same].
    rewrite array_uint32_agree.
    destruct (valid_length v) as [[newLen | ] | ] eqn:V; try apply same.
    destruct (n <=? newLen); [apply same |].
    destruct w; cbn [negb]; [ | apply same].
    destruct (shrink_limit <? n - newLen); [apply same |].
    set (newWritable := match d_w d with Some false => false | _ => true end).
    set (d1 := mkD (Some (VNum newLen)) (d_w d) (d_e d) (d_c d)).
    set (d2 := if newWritable then d1 else mkD (d_v d1) (Some true) (d_e d1) (d_c d1)).
    destruct (def_ord o KLen d2 t) as [o1 r1] eqn:D1. destruct r1; try apply same.
    destruct (shrink (Z.to_nat (n - newLen)) o1 n newLen) as [o2 [l | ]] eqn:S; [apply same |].
    (* the truncation went through: what the length property of o2 looks like *)
    assert (Hd2v : d_v d2 = Some (VNum newLen)) by (unfold d2; destruct newWritable; reflexivity).
    assert (Hd2e : d_e d2 = d_e d) by (unfold d2; destruct newWritable; reflexivity).
    assert (Hd2c : d_c d2 = d_c d) by (unfold d2; destruct newWritable; reflexivity).
    assert (Hd2w : d_w d2 <> Some false) by (unfold d2, newWritable, d1; destruct (d_w d) as [[ | ] | ]; cbn; discriminate).
    pose proof D1 as D1'. apply def_ord_spec in D1'. destruct D1' as [(_ & p1 & Hp1 & Eo1) | (Hr & _)]; [ | congruence].
    rewrite Hl in Hp1.
    pose proof (define_ord_nonconfig _ _ _ _ _ _ Hp1) as (Hc1 & He1 & Hv1 & Hw1).
    pose proof (define_ord_checks _ _ _ _ _ _ Hp1) as (HC & HE).
    rewrite Hd2v in Hv1. cbn [opt_or] in Hv1. specialize (Hw1 eq_refl Hd2w).
    assert (Hl1 : lookup KLen (o_own o1) = Some (mkP (VNum newLen) true e false)).
    { rewrite Eo1. cbn [o_own set_own]. rewrite lookup_ins_same. destruct p1; cbn in *; subst; reflexivity. }
    pose proof (shrink_len _ _ _ _ _ _ S) as Hl2. rewrite Hl1 in Hl2.
    destruct newWritable eqn:NW.
    + (* otto: the final objectDefineOwnProperty repeats d2 *)
      cbn [fst snd].
      assert (Hagain : define_ord (Some (mkP (VNum newLen) true e false)) (o_ext o2) d2 = Some (mkP (VNum newLen) true e false)).
      { rewrite define_ord_accept by (rewrite ?Hd2c, ?Hd2e; assumption).
        rewrite Hd2v. cbn [opt_or]. f_equal.
        assert (W : opt_or (d_w d2) true = true) by (destruct (d_w d2) as [[ | ] | ]; [reflexivity | congruence | reflexivity]).
        assert (E : opt_or (d_e d2) e = e).
        { rewrite Hd2e in *. destruct (d_e d) as [b | ]; [ | reflexivity]. cbn [opt_or].
          destruct (Bool.eqb b e) eqn:B; [apply Bool.eqb_prop in B; exact B | discriminate HE]. }
        assert (C : opt_or (d_c d2) false = false) by (rewrite Hd2c in *; destruct (d_c d) as [[ | ] | ]; [discriminate HC | reflexivity | reflexivity]).
        rewrite W, E, C. reflexivity. }
      unfold def_ord, get_own. rewrite Hl2, Hagain. cbn [fst snd]. split; [reflexivity |].
      repeat split. cbn [o_own set_own]. intro k'. apply lookup_ins_present. exact Hl2.
    + (* writable: false was asked for *)
      set (d3 := mkD (d_v d2) (Some false) (d_e d2) (d_c d2)).
      set (p3 := mkP (VNum newLen) false e false).
      assert (E : opt_or (d_e d2) e = e).
      { rewrite Hd2e in *. destruct (d_e d) as [b | ]; [ | reflexivity]. cbn [opt_or].
        destruct (Bool.eqb b e) eqn:B; [apply Bool.eqb_prop in B; exact B | discriminate HE]. }
      assert (C : opt_or (d_c d2) false = false) by (rewrite Hd2c in *; destruct (d_c d) as [[ | ] | ]; [discriminate HC | reflexivity | reflexivity]).
      assert (H3 : define_ord (Some (mkP (VNum newLen) true e false)) (o_ext o2) d3 = Some p3).
      { rewrite define_ord_accept by (unfold d3; cbn [d_c d_e]; rewrite ?Hd2c, ?Hd2e; assumption).
        unfold d3, p3. cbn [d_v d_w d_e d_c]. rewrite Hd2v, E, C. reflexivity. }
      assert (HW : define_ord (Some (mkP (VNum newLen) true e false)) (o_ext o2) (mkD None (Some false) None None) = Some p3).
      { rewrite define_ord_accept by reflexivity. reflexivity. }
      set (o3 := set_own o2 (ins KLen p3 (o_own o2))).
      assert (D3 : def_ord o2 KLen d3 false = (o3, DTrue)) by (unfold def_ord, get_own; rewrite Hl2, H3; reflexivity).
      assert (DW : def_ord o2 KLen (mkD None (Some false) None None) false = (o3, DTrue)) by (unfold def_ord, get_own; rewrite Hl2, HW; reflexivity).
      destruct (def_ord_again _ _ _ _ _ t D3) as (o4 & D4 & E4).
      fold d3. rewrite D3, DW. cbn [fst]. rewrite D4. cbn [fst snd]. split; [reflexivity | exact E4].
  - (* any other name *)
    rewrite Hk. cbn [array_index]. apply same.
Qed.

Lemma inv_own_eq : forall a b, own_eq a b -> inv b -> inv a.
Proof.
  intros a b (_ & _ & _ & E) (n & (w & e & Hl & Hn) & Hb). exists n. split.
  - exists w, e. rewrite E. split; assumption.
  - intros i p Hi Hm. rewrite E in Hi. exact (Hb i p Hi Hm).
Qed.

(* hence otto's arrayDefineOwnProperty keeps the length invariant as well *)
Corollary otto_def_array_inv : forall o k d t, inv o -> otto_key_index k = array_index k ->
  inv (fst (otto_def_array o k d t)).
Proof.
  intros o k d t Hi Hk. destruct (otto_def_array_refines o k d t Hi Hk) as (_ & E).
  apply (inv_own_eq _ _ E). destruct (def_array o k d t) as [o' r] eqn:D. cbn [fst].
  exact (proj1 (def_array_inv _ _ _ _ _ _ Hi D)).
Qed.
