(* C08 — ES5 15.4 (Array objects) transcribed over a small abstract object.

   The object model is local to C08: an object has own data properties
   (value + writable/enumerable/configurable), an extensible flag, a class
   bit (Array or not) and a prototype that contributes inherited data
   properties at integer names.  Property names are
     KI n   the canonical decimal string of the integer n >= 0
     KLen   "length"
     KS s   any other string (UTF-16 units)
   [key_of_string] is the classification of a raw name; Proofs.v shows that
   it inverts ToString on non-negative integers, which is what makes KI n a
   faithful stand-in for ToString(n) in the 15.4.4 algorithms.

   The 15.4.4 algorithms are written once, over a [dialect] whose components are
   the array [[DefineOwnProperty]] and the numeric clamps: builtin_array.go codes
   the methods as the 15.4.4 step lists, and what otto codes in its own way are
   exactly these components.  [es5] is the dialect of the standard; Model.v
   defines otto's.  (The behavioural departures otto once had -- holes filled in
   result arrays, reduce over holes, reduceRight's string index, splice(),
   reverse's order of Put/Delete and of Get/HasProperty, toString's forwarded
   arguments, length read after the IsCallable test -- were repaired in /repo and are not modelled any more.) *)
From Coq Require Import ZArith Bool List Lia.
From Otto Require Import Common.Corr Common.Double.
Import ListNotations.
Open Scope Z_scope.

(* ---------- values ---------- *)
(* VNum z: the number with integer value z, |z| <= 2^53 (never -0);
   VDbl bits: any other double by bit pattern (NaN collapsed) *)
(* VGet id p fx j n is not a value a script sees: a property whose "value" is VGet ... is an accessor
   property whose getter logs [8; id], performs the side effect (fx, j, n) on another object of the same
   call (0 none; 1 append the number n to argument array j; 2 set the length of argument array j to n;
   3 append n to the receiver; 4 set the receiver's length to n), returns the number p, and has no setter
   (such a property is stored with writable = false, so that [[CanPut]] is false, 8.12.4) *)
Inductive val := VUndef | VNull | VBool (b : bool) | VNum (z : Z) | VDbl (bits : Z) | VStr (s : list Z)
               | VGet (id p fx j n : Z).

Definition val_eqb (a b : val) : bool :=
  match a, b with
  | VUndef, VUndef => true
  | VNull, VNull => true
  | VBool x, VBool y => Bool.eqb x y
  | VNum x, VNum y => x =? y
  | VDbl x, VDbl y => x =? y
  | VStr x, VStr y => zlist_eqb x y
  | VGet a b c d e, VGet a' b' c' d' e' => (a =? a') && (b =? b') && (c =? c') && (d =? d') && (e =? e')
  | _, _ => false
  end.

(* 9.12 SameValue on the canonical representation *)
Definition same_value := val_eqb.

(* 11.9.6 strict equality *)
Definition strict_eq (a b : val) : bool :=
  match a, b with
  | VDbl x, VDbl y => if x =? nan_bits then false else x =? y
  | VDbl x, VNum y => (x =? nzero_bits) && (y =? 0)
  | VNum x, VDbl y => (y =? nzero_bits) && (x =? 0)
  | _, _ => val_eqb a b
  end.

(* 9.2 *)
Definition to_boolean (v : val) : bool :=
  match v with
  | VUndef | VNull => false
  | VBool b => b
  | VNum z => negb (z =? 0)
  | VDbl b => negb ((b =? nan_bits) || (b =? nzero_bits))
  | VStr s => match s with [] => false | _ => true end
  | VGet _ _ _ _ _ => true
  end.

(* ---------- decimal strings ---------- *)
Fixpoint lsd_fuel (f : nat) (n : Z) : list Z :=
  match f with
  | O => [n]
  | S f' => if n <? 10 then [n] else (n mod 10) :: lsd_fuel f' (n / 10)
  end.
(* least significant digit first *)
Definition lsd (n : Z) : list Z := lsd_fuel (Z.to_nat (Z.log2 n)) n.
(* ToString(n) for an integer n >= 0 (9.8.1, below 10^21) *)
Definition dec (n : Z) : list Z := map (fun d => 48 + d) (rev (lsd n)).

Definition is_digit (c : Z) : bool := (48 <=? c) && (c <=? 57).
Fixpoint parse_digits (l : list Z) (acc : Z) : option Z :=
  match l with
  | [] => Some acc
  | c :: l' => if is_digit c then parse_digits l' (acc * 10 + (c - 48)) else None
  end.
(* the integer whose canonical decimal string is s, if s is one *)
Definition canon_dec (s : list Z) : option Z :=
  match s with
  | [] => None
  | [48] => Some 0
  | 48 :: _ => None
  | _ => parse_digits s 0
  end.

Definition str_length : list Z := [108; 101; 110; 103; 116; 104].

(* 9.8 ToString; None = outside the modelled domain (non-integral doubles) *)
Definition to_string (v : val) : option (list Z) :=
  match v with
  | VUndef => Some [117; 110; 100; 101; 102; 105; 110; 101; 100]
  | VNull => Some [110; 117; 108; 108]
  | VBool true => Some [116; 114; 117; 101]
  | VBool false => Some [102; 97; 108; 115; 101]
  | VNum z => if Z.abs z <? 10 ^ 21 then Some (if z <? 0 then 45 :: dec (- z) else dec z) else None
  | VDbl b =>
      if b =? nan_bits then Some [78; 97; 78]
      else if b =? pinf_bits then Some [73; 110; 102; 105; 110; 105; 116; 121]
      else if b =? ninf_bits then Some [45; 73; 110; 102; 105; 110; 105; 116; 121]
      else if b =? nzero_bits then Some [48]
      else None
  | VStr s => Some s
  | VGet _ _ _ _ _ => None
  end.

(* ---------- numeric conversions (9.3, 9.4, 9.6) on the exact view ---------- *)
Inductive xint := XI (z : Z) | XPinf | XNinf.

Definition to_integer_bits (bits : Z) : xint :=
  match decode bits with
  | DNaN => XI 0
  | DInf neg => if neg then XNinf else XPinf
  | DFin neg m e => XI (if neg then - trunc_mag m e else trunc_mag m e)
  end.

(* ToInteger(ToNumber v); strings only when they are plain decimal digits *)
Definition to_integer (v : val) : option xint :=
  match v with
  | VUndef => Some (XI 0)
  | VNull => Some (XI 0)
  | VBool b => Some (XI (if b then 1 else 0))
  | VNum z => Some (XI z)
  | VDbl b => Some (to_integer_bits b)
  | VStr s => match s with
              | [] => Some (XI 0)
              | _ => option_map XI (parse_digits s 0)
              end
  | VGet _ _ _ _ _ => None
  end.

Definition two32 : Z := 4294967296.

Definition to_uint32 (v : val) : option Z :=
  match to_integer v with
  | Some (XI z) => Some (z mod two32)
  | Some _ => Some 0
  | None => None
  end.

(* is ToNumber(v) an integer in [0, 2^32-1] (15.4.5.1 step 3.d: ToUint32(v) = ToNumber(v)) *)
Definition valid_length (v : val) : option (option Z) :=
  match v with
  | VUndef => Some None                      (* NaN *)
  | VNull => Some (Some 0)
  | VBool b => Some (Some (if b then 1 else 0))
  | VNum z => Some (if (0 <=? z) && (z <? two32) then Some z else None)
  | VDbl b =>
      match decode b with
      | DFin neg m e =>
          if is_integral m e then
            let t := trunc_mag m e in
            if t =? 0 then Some (Some 0)
            else if neg then Some None
            else Some (if t <? two32 then Some t else None)
          else Some None
      | _ => Some None
      end
  | VStr s => match s with
              | [] => Some (Some 0)
              | _ => match parse_digits s 0 with
                     | Some z => Some (if z <? two32 then Some z else None)
                     | None => None
                     end
              end
  | VGet _ _ _ _ _ => None
  end.

(* relative index clamp used by slice/splice (15.4.4.10 steps 5-8, 15.4.4.12 steps 5-6) *)
Definition clamp_rel (rel : xint) (len : Z) : Z :=
  match rel with
  | XI r => if r <? 0 then Z.max (len + r) 0 else Z.min r len
  | XPinf => len
  | XNinf => 0
  end.
(* min(max(x,0),bound) (15.4.4.12 step 7) *)
Definition clamp_cnt (x : xint) (bound : Z) : Z :=
  match x with
  | XI r => Z.min (Z.max r 0) bound
  | XPinf => bound
  | XNinf => 0
  end.
(* 15.4.4.14 steps 5-8: first index to inspect, None = return -1 at once *)
Definition clamp_indexof (n : xint) (len : Z) : option Z :=
  match n with
  | XI r => if len <=? r then None else if 0 <=? r then Some r else Some (Z.max (len - Z.abs r) 0)
  | XPinf => None
  | XNinf => Some 0
  end.
(* 15.4.4.15 steps 5-7: first index to inspect, None = nothing to inspect *)
Definition clamp_lastindexof (n : xint) (len : Z) : option Z :=
  match n with
  | XI r => let k := if 0 <=? r then Z.min r (len - 1) else len - Z.abs r in
            if k <? 0 then None else Some k
  | XPinf => if len - 1 <? 0 then None else Some (len - 1)
  | XNinf => None
  end.

(* ---------- property names ---------- *)
Inductive key := KI (n : Z) | KLen | KS (s : list Z).

Definition key_eqb (a b : key) : bool :=
  match a, b with
  | KI x, KI y => x =? y
  | KLen, KLen => true
  | KS x, KS y => zlist_eqb x y
  | _, _ => false
  end.

Definition key_of_string (s : list Z) : key :=
  if zlist_eqb s str_length then KLen
  else match canon_dec s with Some n => KI n | None => KS s end.

(* 15.4: P is an array index iff ToString(ToUint32(P)) = P and ToUint32(P) <> 2^32-1 *)
Definition max_index : Z := 4294967295.
Definition array_index (k : key) : option Z :=
  match k with
  | KI n => if n <? max_index then Some n else None
  | _ => None
  end.

Fixpoint list_ltb (a b : list Z) : bool :=
  match a, b with
  | [], [] => false
  | [], _ => true
  | _, [] => false
  | x :: a', y :: b' => if x <? y then true else if y <? x then false else list_ltb a' b'
  end.
(* canonical storage order: length, integer names ascending, other names *)
Definition key_ltb (a b : key) : bool :=
  match a, b with
  | KLen, KLen => false
  | KLen, _ => true
  | _, KLen => false
  | KI x, KI y => x <? y
  | KI _, KS _ => true
  | KS _, KI _ => false
  | KS x, KS y => list_ltb x y
  end.

(* ---------- objects ---------- *)
Record prop := mkP { pv : val; pw : bool; pe : bool; pc : bool }.
Definition prop_eqb (a b : prop) : bool :=
  val_eqb (pv a) (pv b) && Bool.eqb (pw a) (pw b) && Bool.eqb (pe a) (pe b) && Bool.eqb (pc a) (pc b).

Record obj := mkO { o_arr : bool; o_ext : bool; o_own : list (key * prop); o_proto : list (Z * prop) }.

Fixpoint lookup (k : key) (l : list (key * prop)) : option prop :=
  match l with
  | [] => None
  | (k', p) :: l' => if key_eqb k k' then Some p else lookup k l'
  end.
(* insert or replace, keeping the canonical order *)
Fixpoint ins (k : key) (p : prop) (l : list (key * prop)) : list (key * prop) :=
  match l with
  | [] => [(k, p)]
  | (k', p') :: l' =>
      if key_eqb k k' then (k, p) :: l'
      else if key_ltb k k' then (k, p) :: l
      else (k', p') :: ins k p l'
  end.
Fixpoint remove (k : key) (l : list (key * prop)) : list (key * prop) :=
  match l with
  | [] => []
  | (k', p') :: l' => if key_eqb k k' then remove k l' else (k', p') :: remove k l'
  end.
Fixpoint plookup (n : Z) (l : list (Z * prop)) : option prop :=
  match l with
  | [] => None
  | (n', p) :: l' => if n =? n' then Some p else plookup n l'
  end.

Definition set_own (o : obj) (l : list (key * prop)) : obj := mkO (o_arr o) (o_ext o) l (o_proto o).
Definition set_ext (o : obj) (b : bool) : obj := mkO (o_arr o) b (o_own o) (o_proto o).

(* 8.12.1 / 8.12.2 / 8.12.3 / 8.12.6 *)
Definition get_own (o : obj) (k : key) : option prop := lookup k (o_own o).
Definition get_inherited (o : obj) (k : key) : option prop :=
  match k with KI n => plookup n (o_proto o) | _ => None end.
Definition get_prop (o : obj) (k : key) : option prop :=
  match get_own o k with Some p => Some p | None => get_inherited o k end.
Definition has (o : obj) (k : key) : bool := match get_prop o k with Some _ => true | None => false end.
Definition get (o : obj) (k : key) : val := match get_prop o k with Some p => pv p | None => VUndef end.

(* 8.12.4 (data properties only) *)
Definition can_put (o : obj) (k : key) : bool :=
  match get_own o k with
  | Some p => pw p
  | None => match get_inherited o k with
            | None => o_ext o
            | Some p => o_ext o && pw p
            end
  end.

(* property descriptors with data fields only *)
Record desc := mkD { d_v : option val; d_w : option bool; d_e : option bool; d_c : option bool }.
Definition opt_or {A} (o : option A) (d : A) : A := match o with Some x => x | None => d end.
Definition is_some_true (o : option bool) : bool := match o with Some true => true | _ => false end.

(* 8.12.9 restricted to data properties: the property after the definition, None = Reject *)
Definition define_ord (cur : option prop) (ext : bool) (d : desc) : option prop :=
  match cur with
  | None => if ext then Some (mkP (opt_or (d_v d) VUndef) (opt_or (d_w d) false) (opt_or (d_e d) false) (opt_or (d_c d) false))
            else None
  | Some p =>
      let rej :=
        negb (pc p) &&
        (is_some_true (d_c d)
         || match d_e d with Some b => negb (Bool.eqb b (pe p)) | None => false end
         || (negb (pw p) &&
             (is_some_true (d_w d)
              || match d_v d with Some v => negb (same_value v (pv p)) | None => false end))) in
      if rej then None
      else Some (mkP (opt_or (d_v d) (pv p)) (opt_or (d_w d) (pw p)) (opt_or (d_e d) (pe p)) (opt_or (d_c d) (pc p)))
  end.

(* outcome of an internal method with a Throw flag *)
Inductive dres := DTrue | DFalse | DThrow (cls : Z).
Definition reject (throw : bool) : dres := if throw then DThrow 6 else DFalse.

Definition def_ord (o : obj) (k : key) (d : desc) (throw : bool) : obj * dres :=
  match define_ord (get_own o k) (o_ext o) d with
  | Some p => (set_own o (ins k p (o_own o)), DTrue)
  | None => (o, reject throw)
  end.

(* 8.12.7 *)
Definition delete (o : obj) (k : key) (throw : bool) : obj * dres :=
  match get_own o k with
  | None => (o, DTrue)
  | Some p => if pc p then (set_own o (remove k (o_own o)), DTrue) else (o, reject throw)
  end.

(* 15.4.5.1 step 3.l: delete from oldLen-1 downwards; Some l = a delete failed and the length must become l *)
Fixpoint shrink (n : nat) (o : obj) (oldLen newLen : Z) : obj * option Z :=
  match n with
  | O => (o, None)
  | S n' =>
      if newLen <? oldLen then
        let l := oldLen - 1 in
        match delete o (KI l) false with
        | (o', DTrue) => shrink n' o' l newLen
        | (o', _) => (o', Some (l + 1))
        end
      else (o, None)
  end.

Definition shrink_limit : Z := 20000.

Definition len_of (o : obj) : Z :=
  match get_own o KLen with
  | Some (mkP (VNum n) _ _ _) => n
  | _ => 0
  end.

Definition desc_v (v : val) : desc := mkD (Some v) None None None.
Definition desc_full (v : val) : desc := mkD (Some v) (Some true) (Some true) (Some true).

(* 15.4.5.1; DThrow (-1) = outside the modelled domain *)
Definition def_array (o : obj) (k : key) (d : desc) (throw : bool) : obj * dres :=
  match get_own o KLen with
  | None => (o, DThrow (-1))
  | Some oldLenDesc =>
    let oldLen := len_of o in
    match k with
    | KLen =>
        match d_v d with
        | None => def_ord o KLen d throw                                        (* 3.a *)
        | Some v =>
            match valid_length v with
            | None => (o, DThrow (-1))
            | Some None => (o, DThrow 3)                                         (* 3.d RangeError *)
            | Some (Some newLen) =>
                let d1 := mkD (Some (VNum newLen)) (d_w d) (d_e d) (d_c d) in
                if oldLen <=? newLen then def_ord o KLen d1 throw                (* 3.f *)
                else if negb (pw oldLenDesc) then (o, reject throw)              (* 3.g *)
                else if shrink_limit <? oldLen - newLen then (o, DThrow (-1))
                else
                  let newWritable := match d_w d with Some false => false | _ => true end in   (* 3.h, 3.i *)
                  let d2 := if newWritable then d1 else mkD (d_v d1) (Some true) (d_e d1) (d_c d1) in
                  match def_ord o KLen d2 throw with                              (* 3.j, 3.k *)
                  | (o1, DTrue) =>
                      match shrink (Z.to_nat (oldLen - newLen)) o1 oldLen newLen with
                      | (o2, Some l) =>                                           (* 3.l.iii *)
                          let d3 := mkD (Some (VNum l)) (if newWritable then d_w d2 else Some false) (d_e d2) (d_c d2) in
                          (fst (def_ord o2 KLen d3 false), reject throw)
                      | (o2, None) =>
                          if newWritable then (o2, DTrue)
                          else (fst (def_ord o2 KLen (mkD None (Some false) None None) false), DTrue)   (* 3.m *)
                      end
                  | r => r
                  end
            end
        end
    | _ =>
        match array_index k with
        | Some index =>                                                           (* 4 *)
            if (oldLen <=? index) && negb (pw oldLenDesc) then (o, reject throw)
            else match def_ord o k d false with
                 | (o1, DTrue) =>
                     if oldLen <=? index
                     then (fst (def_ord o1 KLen (desc_v (VNum (index + 1))) false), DTrue)
                     else (o1, DTrue)
                 | (o1, _) => (o1, reject throw)
                 end
        | None => def_ord o k d throw                                             (* 5 *)
        end
    end
  end.

(* an array literal with holes (elements VGet are counting getters) over a given prototype *)
Definition lit_obj (proto : list (Z * prop)) (l : list (option val)) : obj :=
  let fix go (l : list (option val)) (k : Z) : list (key * prop) :=
    match l with
    | [] => []
    | None :: l' => go l' (k + 1)
    | Some v :: l' => (KI k, mkP v (match v with VGet _ _ _ _ _ => false | _ => true end) true true) :: go l' (k + 1)
    end in
  mkO true true ((KLen, mkP (VNum (Z.of_nat (length l))) true false false) :: go l 0) proto.

(* ---------- state, callbacks, monad ---------- *)
(* what the callback does on its n-th invocation: an optional sloppy-mode
   mutation of the receiver, then throw or return *)
(* MAppend v: R[R.length] = v (and, on a non-array, R.length = R.length + 1): what push does in sloppy code *)
(* MPutCur / MDelCur / MGetCur act on the element the callback is being called for:
   R[i] = v, delete R[i], Object.defineProperty(R, i, {get: counting getter, enumerable: true, configurable: true}) *)
Inductive mut := MNone | MPut (k : key) (v : val) | MDel (k : key) | MAppend (v : val)
               | MPutCur (v : val) | MDelCur | MGetCur (id p : Z).
Record cbstep := mkCb { cb_mut : mut; cb_throw : bool; cb_ret : val }.

(* s_lg: the receiver's length is a counting getter; every [[Get]] of "length" by a method is logged as [9] *)
(* s_args: the array arguments of the call (concat), which getters may change while the call runs *)
Record st := mkS { s_o : obj; s_log : list (list val); s_cb : list cbstep; s_lg : bool; s_args : list obj }.
Definition with_o (s : st) (o : obj) : st := mkS o (s_log s) (s_cb s) (s_lg s) (s_args s).
Fixpoint replace_nth {A} (n : nat) (x : A) (l : list A) : list A :=
  match l, n with
  | [], _ => []
  | _ :: t, O => x :: t
  | h :: t, S n' => h :: replace_nth n' x t
  end.
(* object number w of the call: -1 the receiver, j >= 0 the j-th array argument *)
Definition sel_obj (s : st) (w : Z) : option obj := if w <? 0 then Some (s_o s) else nth_error (s_args s) (Z.to_nat w).
Definition upd_obj (s : st) (w : Z) (o : obj) : st :=
  if w <? 0 then with_o s o else mkS (s_o s) (s_log s) (s_cb s) (s_lg s) (replace_nth (Z.to_nat w) o (s_args s)).

Inductive R (A : Type) := Ok (a : A) (s : st) | Ex (cls : Z) (s : st).
Arguments Ok {A}. Arguments Ex {A}.
Definition M (A : Type) := st -> R A.
Definition ret {A} (a : A) : M A := fun s => Ok a s.
Definition bind {A B} (m : M A) (f : A -> M B) : M B :=
  fun s => match m s with Ok a s' => f a s' | Ex c s' => Ex c s' end.
Definition throw {A} (c : Z) : M A := fun s => Ex c s.
Notation "x <- m ;; f" := (bind m (fun x => f)) (at level 61, m at next level, right associativity).
Notation "m ;;; f" := (bind m (fun _ => f)) (at level 61, right associativity).

Definition lift_d (f : obj -> obj * dres) : M bool :=
  fun s => match f (s_o s) with
           | (o', DTrue) => Ok true (with_o s o')
           | (o', DFalse) => Ok false (with_o s o')
           | (o', DThrow c) => Ex c (with_o s o')
           end.

Definition opt_m {A} (o : option A) : M A := match o with Some a => ret a | None => throw (-1) end.

(* an INHERITED accessor (a VGet in the prototype part) also has a setter, which logs [7; id; value] and stores
   nothing: [[Put]] on a name that is not an own property and is inherited as such an accessor calls that
   setter, whatever [[Extensible]] says (8.12.4 steps 5-7, 8.12.5 step 5) *)
Definition setter_of (o : obj) (k : key) : option Z :=
  match get_own o k with
  | Some _ => None
  | None => match get_inherited o k with
            | Some p => match pv p with VGet id _ _ _ _ => Some id | _ => None end
            | None => None
            end
  end.
Definition setter_log (o : obj) (k : key) (v : val) : list (list val) :=
  match setter_of o k with Some id => [[VNum 7; VNum id; v]] | None => [] end.

(* ---------- dialect ---------- *)
Record dialect := mkDia {
  dia_define : obj -> key -> desc -> bool -> obj * dres;   (* [[DefineOwnProperty]] of an Array *)
  dia_rel : val -> Z -> option Z;            (* relative start/end -> index in [0,len] *)
  dia_cnt : val -> Z -> option Z;            (* deleteCount -> [0,bound] *)
  dia_indexof : val -> Z -> option (option Z);
  dia_lastindexof : val -> Z -> option (option Z)
}.

Definition es5 : dialect :=
  mkDia def_array
        (fun v len => option_map (fun r => clamp_rel r len) (to_integer v))
        (fun v b => option_map (fun r => clamp_cnt r b) (to_integer v))
        (fun v len => option_map (fun r => clamp_indexof r len) (to_integer v))
        (fun v len => option_map (fun r => clamp_lastindexof r len) (to_integer v)).

Section Methods.
Variable D : dialect.

Definition define_own (o : obj) (k : key) (d : desc) (throw : bool) : obj * dres :=
  if o_arr o then dia_define D o k d throw else def_ord o k d throw.

(* 8.12.5 *)
Definition put (o : obj) (k : key) (v : val) (throw : bool) : obj * dres :=
  if negb (can_put o k) then (o, reject throw)
  else match get_own o k with
       | Some _ => define_own o k (desc_v v) throw
       | None => define_own o k (desc_full v) throw
       end.

(* side effect of a getter: sloppy-mode A[A.length] = n / A.length = n on an argument array or on the receiver *)
Definition apply_fx (fx j n : Z) (s : st) : st :=
  let w := if (fx =? 1) || (fx =? 2) then j else -1 in
  match sel_obj s w with
  | None => s
  | Some o =>
      if (fx =? 1) || (fx =? 3) then upd_obj s w (fst (put o (KI (len_of o)) (VNum n) false))
      else if (fx =? 2) || (fx =? 4) then upd_obj s w (fst (put o KLen (VNum n) false))
      else s
  end.
(* [[Get]] on object w of the call: a counting getter logs its call, then acts, then returns *)
Definition m_get_in (w : Z) (k : key) : M val :=
  fun s => match sel_obj s w with
           | None => Ex (-1) s
           | Some o =>
               match get o k with
               | VGet id p fx j n =>
                   Ok (VNum p) (apply_fx fx j n (mkS (s_o s) (s_log s ++ [[VNum 8; VNum id]]) (s_cb s) (s_lg s) (s_args s)))
               | v => Ok v s
               end
           end.
Definition m_has_in (w : Z) (k : key) : M bool :=
  fun s => match sel_obj s w with None => Ex (-1) s | Some o => Ok (has o k) s end.
Definition m_get (k : key) : M val := m_get_in (-1) k.
Definition m_has (k : key) : M bool := m_has_in (-1) k.
Definition m_put (k : key) (v : val) : M unit :=
  fun s => match setter_of (s_o s) k with
           | Some id => Ok tt (mkS (s_o s) (s_log s ++ [[VNum 7; VNum id; v]]) (s_cb s) (s_lg s) (s_args s))
           | None => (lift_d (fun o => put o k v true) ;;; ret tt) s
           end.
Definition m_del (k : key) : M unit := lift_d (fun o => delete o k true) ;;; ret tt.
Definition m_len : M Z :=
  fun s =>
    let s1 := if s_lg s then mkS (s_o s) (s_log s ++ [[VNum 9]]) (s_cb s) true (s_args s) else s in
    (v <- m_get KLen ;; opt_m (to_uint32 v)) s1.
(* steps 2-4 of 15.4.4.16-22: len first, then IsCallable *)
Definition m_len_checked (c : bool) : M Z :=
  len <- m_len ;; if c then ret len else throw 6.

(* one invocation of the callback: log (this-code :: arguments), then do what the script says *)
Definition m_call (cur : Z) (entry : list val) : M val :=
  fun s =>
    let s1 := mkS (s_o s) (s_log s ++ [entry]) (s_cb s) (s_lg s) (s_args s) in
    match s_cb s with
    | [] => Ok VUndef s1
    | c :: rest =>
        let slog := match cb_mut c with
                    | MPut k v => setter_log (s_o s1) k v
                    | MPutCur v => setter_log (s_o s1) (KI cur) v
                    | MAppend v => match to_uint32 (get (s_o s1) KLen) with Some n => setter_log (s_o s1) (KI n) v | None => [] end
                    | _ => []
                    end in
        let s2 := mkS (s_o s1) (s_log s1 ++ slog) rest (s_lg s) (s_args s) in
        let r := match cb_mut c with
                 | MNone => (s_o s2, DTrue)
                 | MPut k v => put (s_o s2) k v false
                 | MDel k => delete (s_o s2) k false
                 | MPutCur v => put (s_o s2) (KI cur) v false
                 | MDelCur => delete (s_o s2) (KI cur) false
                 | MGetCur id p => define_own (s_o s2) (KI cur) (mkD (Some (VGet id p 0 0 0)) (Some false) (Some true) (Some true)) true
                 | MAppend v =>
                     match to_uint32 (get (s_o s2) KLen) with
                     | None => (s_o s2, DThrow (-1))
                     | Some n =>
                         match put (s_o s2) (KI n) v false with
                         | (o1, DThrow c) => (o1, DThrow c)
                         | (o1, _) => if o_arr o1 then (o1, DTrue) else put o1 KLen (VNum (n + 1)) false
                         end
                     end
                 end in
        match r with
        | (o', DThrow cls) => Ex cls (with_o s2 o')
        | (o', _) => if cb_throw c then Ex 7 (with_o s2 o') else Ok (cb_ret c) (with_o s2 o')
        end
    end.

(* for k = from, from+1, ... (n times) *)
Fixpoint for_up (n : nat) (k : Z) (body : Z -> M unit) : M unit :=
  match n with O => ret tt | S n' => body k ;;; for_up n' (k + 1) body end.
(* for k = from, from-1, ... (n times) *)
Fixpoint for_down (n : nat) (k : Z) (body : Z -> M unit) : M unit :=
  match n with O => ret tt | S n' => body k ;;; for_down n' (k - 1) body end.
(* search loops: stop at the first Some *)
Fixpoint find_up {A} (n : nat) (k : Z) (body : Z -> M (option A)) : M (option A) :=
  match n with
  | O => ret None
  | S n' => r <- body k ;; match r with Some a => ret (Some a) | None => find_up n' (k + 1) body end
  end.
Fixpoint find_down {A} (n : nat) (k : Z) (body : Z -> M (option A)) : M (option A) :=
  match n with
  | O => ret None
  | S n' => r <- body k ;; match r with Some a => ret (Some a) | None => find_down n' (k - 1) body end
  end.
(* accumulating loops *)
Fixpoint fold_up {A} (n : nat) (k : Z) (acc : A) (body : Z -> A -> M A) : M A :=
  match n with O => ret acc | S n' => a <- body k acc ;; fold_up n' (k + 1) a body end.
Fixpoint fold_down {A} (n : nat) (k : Z) (acc : A) (body : Z -> A -> M A) : M A :=
  match n with O => ret acc | S n' => a <- body k acc ;; fold_down n' (k - 1) a body end.

Definition loop_limit : Z := 5000.
Definition cnt (n : Z) : M nat := if loop_limit <? n then throw (-1) else ret (Z.to_nat n).

(* method results *)
Inductive rv := RVal (v : val) | RArr (l : list (option val)) | RThis.

(* arguments of a method call *)
Inductive marg :=
| AV (v : val)                       (* a primitive *)
| AA (l : list (option val))         (* a fresh array literal with holes; elements VGet are counting getters *)
| AR                                 (* the receiver itself, passed as an argument *)
| AO (id p : Z) (throws : bool)       (* an object whose valueOf/toString logs [5; id] and returns the number p, or throws *)
| ACb                                (* the scripted callback function *)
| AT.                                (* the marker object T (used as thisArg) *)

Definition nth_arg (args : list marg) (n : nat) : option marg := nth_error args n.
(* the value of an argument at the step where the algorithm CONVERTS it (ToInteger / ToString): a primitive
   converts silently; an AO object runs its valueOf/toString exactly then (log, or throw, class 7) *)
Definition arg_val (a : option marg) : M val :=
  match a with
  | None => ret VUndef
  | Some (AV v) => ret v
  | Some (AO id p t) =>
      fun s => let s1 := mkS (s_o s) (s_log s ++ [[VNum 5; VNum id]]) (s_cb s) (s_lg s) (s_args s) in
               if t then Ex 7 s1 else Ok (VNum p) s1
  | Some _ => throw (-1)
  end.
(* this-code seen by a sloppy-mode callback: 0 global object, 1 the marker object *)
Definition this_code (a : option marg) : M val :=
  match a with
  | None => ret (VNum 0)
  | Some (AV VUndef) => ret (VNum 0)
  | Some (AV VNull) => ret (VNum 0)
  | Some AT => ret (VNum 1)
  | Some _ => throw (-1)
  end.
Definition callable (a : option marg) : bool := match a with Some ACb => true | _ => false end.


(* read [n] elements starting at [from] the way slice/splice/concat do: hole where HasProperty is false *)
Definition read_range_in (w : Z) (n : nat) (from : Z) : M (list (option val)) :=
  l <- fold_up n from [] (fun k acc =>
         h <- m_has_in w (KI k) ;;
         if h then v <- m_get_in w (KI k) ;; ret (Some v :: acc) else ret (None :: acc)) ;;
  ret (rev l).
Definition read_range (n : nat) (from : Z) : M (list (option val)) := read_range_in (-1) n from.

(* 15.4.4.5 *)
Definition join_elem (v : val) : M (list Z) :=
  match v with VUndef | VNull => ret [] | _ => opt_m (to_string v) end.
Definition join_sep (args : list marg) : M (list Z) :=
  sepv <- arg_val (nth_arg args 0) ;;
  match sepv with VUndef => ret [44] | _ => opt_m (to_string sepv) end.
Definition m_join (args : list marg) : M rv :=
  len <- m_len ;;                      (* 15.4.4.5 steps 2-3, then 4-5 *)
  sep <- join_sep args ;;
  if len =? 0 then ret (RVal (VStr [])) else
  n <- cnt (len - 1) ;;
  e0 <- m_get (KI 0) ;;
  r0 <- join_elem e0 ;;
  r <- fold_up n 1 r0 (fun k acc => e <- m_get (KI k) ;; s <- join_elem e ;; ret (acc ++ sep ++ s)) ;;
  ret (RVal (VStr r)).

(* 15.4.4.6 *)
Definition m_pop (args : list marg) : M rv :=
  len <- m_len ;;
  if len =? 0 then m_put KLen (VNum 0) ;;; ret (RVal VUndef) else
  e <- m_get (KI (len - 1)) ;;
  m_del (KI (len - 1)) ;;;
  m_put KLen (VNum (len - 1)) ;;;
  ret (RVal e).

(* 15.4.4.7 *)
Fixpoint push_items (items : list marg) (n : Z) : M Z :=
  match items with
  | [] => ret n
  | a :: rest => v <- arg_val (Some a) ;; m_put (KI n) v ;;; push_items rest (n + 1)
  end.
Definition m_push (args : list marg) : M rv :=
  len <- m_len ;;
  n <- push_items args len ;;
  m_put KLen (VNum n) ;;;
  ret (RVal (VNum n)).

(* 15.4.4.8 *)
Definition m_reverse (args : list marg) : M rv :=
  len <- m_len ;;
  n <- cnt (len / 2) ;;
  for_up n 0 (fun lower =>
    let upper := len - lower - 1 in
    lv <- m_get (KI lower) ;;                (* 15.4.4.8 step 6.c - 6.f: both [[Get]]s, then both [[HasProperty]]s *)
    uv <- m_get (KI upper) ;;
    le <- m_has (KI lower) ;;
    ue <- m_has (KI upper) ;;
    if le && ue then m_put (KI lower) uv ;;; m_put (KI upper) lv
    else if ue then m_put (KI lower) uv ;;; m_del (KI upper)
    else if le then m_del (KI lower) ;;; m_put (KI upper) lv
    else ret tt) ;;;
  ret RThis.

(* move one element: Put(to, Get(from)) if from is present, else Delete(to) *)
Definition move (from to : Z) : M unit :=
  h <- m_has (KI from) ;;
  if h then v <- m_get (KI from) ;; m_put (KI to) v else m_del (KI to).

(* 15.4.4.9 *)
Definition m_shift (args : list marg) : M rv :=
  len <- m_len ;;
  if len =? 0 then m_put KLen (VNum 0) ;;; ret (RVal VUndef) else
  n <- cnt (len - 1) ;;
  first <- m_get (KI 0) ;;
  for_up n 1 (fun k => move k (k - 1)) ;;;
  m_del (KI (len - 1)) ;;;
  m_put KLen (VNum (len - 1)) ;;;
  ret (RVal first).

(* 15.4.4.10 *)
Definition m_slice (args : list marg) : M rv :=
  len <- m_len ;;
  sv <- arg_val (nth_arg args 0) ;;
  k <- opt_m (dia_rel D sv len) ;;
  ev <- arg_val (nth_arg args 1) ;;
  final <- (match ev with VUndef => ret len | _ => opt_m (dia_rel D ev len) end) ;;
  n <- cnt (Z.max (final - k) 0) ;;
  l <- read_range n k ;;
  ret (RArr l).

(* 15.4.4.12; with exactly one argument the de-facto behaviour (ES2015 22.1.3.25 step 9) *)
Fixpoint put_items (items : list marg) (k : Z) : M unit :=
  match items with
  | [] => ret tt
  | a :: rest => v <- arg_val (Some a) ;; m_put (KI k) v ;;; put_items rest (k + 1)
  end.
Definition m_splice (args : list marg) : M rv :=
  len <- m_len ;;
  sv <- arg_val (nth_arg args 0) ;;
  start <- opt_m (dia_rel D sv len) ;;
  dc <- (match args with
         | [] => ret 0
         | [_] => ret (len - start)
         | _ => dv <- arg_val (nth_arg args 1) ;; opt_m (dia_cnt D dv (len - start))
         end) ;;
  ndc <- cnt dc ;;
  removed <- read_range ndc start ;;
  let items := skipn 2 args in
  let ic := Z.of_nat (length items) in
  (if ic <? dc then
     n1 <- cnt (len - dc - start) ;;
     for_up n1 start (fun k => move (k + dc) (k + ic)) ;;;
     n2 <- cnt (dc - ic) ;;
     for_down n2 len (fun k => m_del (KI (k - 1)))
   else if dc <? ic then
     n1 <- cnt (len - dc - start) ;;
     for_down n1 (len - dc) (fun k => move (k + dc - 1) (k + ic - 1))
   else ret tt) ;;;
  put_items items start ;;;
  m_put KLen (VNum (len - dc + ic)) ;;;
  ret (RArr removed).

(* 15.4.4.13 *)
Definition m_unshift (args : list marg) : M rv :=
  len <- m_len ;;
  let ac := Z.of_nat (length args) in
  n <- cnt len ;;
  for_down n len (fun k => move (k - 1) (k + ac - 1)) ;;;
  put_items args 0 ;;;
  m_put KLen (VNum (len + ac)) ;;;
  ret (RVal (VNum (len + ac))).

(* 15.4.4.14 *)
Definition m_indexof (args : list marg) : M rv :=
  len <- m_len ;;
  x <- arg_val (nth_arg args 0) ;;
  if len =? 0 then ret (RVal (VNum (-1))) else
  st0 <- (match nth_arg args 1 with
          | None => ret (Some 0)
          | a => v <- arg_val a ;; opt_m (dia_indexof D v len)
          end) ;;
  match st0 with
  | None => ret (RVal (VNum (-1)))
  | Some k0 =>
      n <- cnt (len - k0) ;;
      r <- find_up n k0 (fun k =>
             h <- m_has (KI k) ;;
             if h then e <- m_get (KI k) ;; ret (if strict_eq x e then Some k else None) else ret None) ;;
      ret (RVal (VNum (match r with Some k => k | None => -1 end)))
  end.

(* 15.4.4.15 *)
Definition m_lastindexof (args : list marg) : M rv :=
  len <- m_len ;;
  x <- arg_val (nth_arg args 0) ;;
  if len =? 0 then ret (RVal (VNum (-1))) else     (* step 4, before ToInteger(fromIndex) *)
  st0 <- (match nth_arg args 1 with
          | None => ret (if len =? 0 then None else Some (len - 1))
          | a => v <- arg_val a ;; opt_m (dia_lastindexof D v len)
          end) ;;
  match st0 with
  | None => ret (RVal (VNum (-1)))
  | Some k0 =>
      n <- cnt (k0 + 1) ;;
      r <- find_down n k0 (fun k =>
             h <- m_has (KI k) ;;
             if h then e <- m_get (KI k) ;; ret (if strict_eq x e then Some k else None) else ret None) ;;
      ret (RVal (VNum (match r with Some k => k | None => -1 end)))
  end.

(* 15.4.4.16 - 15.4.4.20: visit index k: None if absent, else (value, callback result) *)
Definition visit (tc : val) (k : Z) : M (option (val * val)) :=
  h <- m_has (KI k) ;;
  if h then v <- m_get (KI k) ;; r <- m_call k [tc; v; VNum k; VBool true] ;; ret (Some (v, r))
  else ret None.

Definition m_every (args : list marg) : M rv :=
  len <- m_len_checked (callable (nth_arg args 0)) ;;
  tc <- this_code (nth_arg args 1) ;;
  n <- cnt len ;;
  r <- find_up n 0 (fun k =>
         x <- visit tc k ;;
         ret (match x with Some (_, r) => if to_boolean r then None else Some tt | None => None end)) ;;
  ret (RVal (VBool (match r with Some _ => false | None => true end))).

Definition m_some (args : list marg) : M rv :=
  len <- m_len_checked (callable (nth_arg args 0)) ;;
  tc <- this_code (nth_arg args 1) ;;
  n <- cnt len ;;
  r <- find_up n 0 (fun k =>
         x <- visit tc k ;;
         ret (match x with Some (_, r) => if to_boolean r then Some tt else None | None => None end)) ;;
  ret (RVal (VBool (match r with Some _ => true | None => false end))).

Definition m_foreach (args : list marg) : M rv :=
  len <- m_len_checked (callable (nth_arg args 0)) ;;
  tc <- this_code (nth_arg args 1) ;;
  n <- cnt len ;;
  for_up n 0 (fun k => visit tc k ;;; ret tt) ;;;
  ret (RVal VUndef).

Definition m_map (args : list marg) : M rv :=
  len <- m_len_checked (callable (nth_arg args 0)) ;;
  tc <- this_code (nth_arg args 1) ;;
  n <- cnt len ;;
  l <- fold_up n 0 [] (fun k acc =>
         x <- visit tc k ;;
         ret (match x with Some (_, r) => Some r :: acc | None => None :: acc end)) ;;
  ret (RArr (rev l)).

Definition m_filter (args : list marg) : M rv :=
  len <- m_len_checked (callable (nth_arg args 0)) ;;
  tc <- this_code (nth_arg args 1) ;;
  n <- cnt len ;;
  l <- fold_up n 0 [] (fun k acc =>
         x <- visit tc k ;;
         ret (match x with Some (v, r) => if to_boolean r then Some v :: acc else acc | None => acc end)) ;;
  ret (RArr (rev l)).

(* 15.4.4.21 / 15.4.4.22 *)
Definition reduce_step (idx : Z -> val) (k : Z) (acc : val) : M val :=
  h <- m_has (KI k) ;;
  if h then v <- m_get (KI k) ;; m_call k [VNum 0; acc; v; idx k; VBool true] else ret acc.

Definition m_reduce (args : list marg) : M rv :=
  len <- m_len_checked (callable (nth_arg args 0)) ;;
  n <- cnt len ;;
  match nth_arg args 1 with
  | Some a =>
      init <- arg_val (Some a) ;;
      r <- fold_up n 0 init (reduce_step VNum) ;; ret (RVal r)
  | None =>
      if len =? 0 then throw 6 else
      first <- find_up n 0 (fun k => h <- m_has (KI k) ;; if h then v <- m_get (KI k) ;; ret (Some (k, v)) else ret None) ;;
      match first with
      | None => throw 6
      | Some (k, v) =>
          n' <- cnt (len - k - 1) ;;
          r <- fold_up n' (k + 1) v (reduce_step VNum) ;; ret (RVal r)
      end
  end.


Definition m_reduceright (args : list marg) : M rv :=
  len <- m_len_checked (callable (nth_arg args 0)) ;;
  n <- cnt len ;;
  match nth_arg args 1 with
  | Some a =>
      init <- arg_val (Some a) ;;
      r <- fold_down n (len - 1) init (reduce_step VNum) ;; ret (RVal r)
  | None =>
      if len =? 0 then throw 6 else
      first <- find_down n (len - 1) (fun k => h <- m_has (KI k) ;; if h then v <- m_get (KI k) ;; ret (Some (k, v)) else ret None) ;;
      match first with
      | None => throw 6
      | Some (k, v) =>
          n' <- cnt k ;;
          r <- fold_down n' (k - 1) v (reduce_step VNum) ;; ret (RVal r)
      end
  end.

(* 15.4.4.4 (Array receivers).  The items are processed strictly one after the other: the length of an
   array item is read when the item is reached (step 5.b.ii), after every [[Get]] on the earlier items *)
Definition read_arr (w : Z) : M (list (option val)) :=
  fun s => match sel_obj s w with
           | None => Ex (-1) s
           | Some o => (n <- cnt (len_of o) ;; read_range_in w n 0) s
           end.
Fixpoint concat_loop (items : list marg) (j : Z) : M (list (option val)) :=
  match items with
  | [] => ret []
  | AV v :: rest => r <- concat_loop rest j ;; ret (Some v :: r)
  | AA _ :: rest => a <- read_arr j ;; r <- concat_loop rest (j + 1) ;; ret (a ++ r)
  | AR :: rest => a <- read_arr (-1) ;; r <- concat_loop rest j ;; ret (a ++ r)
  | _ :: _ => throw (-1)
  end.
Definition m_concat (args : list marg) : M rv :=
  fun s =>
    if negb (o_arr (s_o s)) then Ex (-1) s else
    (a <- read_arr (-1) ;; r <- concat_loop args 0 ;; ret (RArr (a ++ r))) s.

(* 15.4.4.2: join is looked up and called with NO arguments; a receiver without a callable join
   (here: every non-array) gets Object.prototype.toString *)
Definition m_tostring (args : list marg) : M rv :=
  fun s =>
    if o_arr (s_o s) then m_join [] s
    else Ok (RVal (VStr [91; 111; 98; 106; 101; 99; 116; 32; 79; 98; 106; 101; 99; 116; 93])) s.

(* 15.4.4.3 with the locale-independent cases of toLocaleString: strings, booleans, integers below 1000 *)
(* cfg = (strings, numbers, booleans): what X.prototype.toLocaleString is for each primitive type:
   0 the built-in; 1 a script function that logs [6; type; this-is-an-object] and returns "<" + this + ">";
   2 not callable (TypeError, 15.4.4.3 step 8.b / 10.d) *)
Definition locale_cfg := (Z * Z * Z)%type.
Definition locale_elem (cfg : locale_cfg) (v : val) : M (list Z) :=
  let '(cs, cn, cb) := cfg in
  let go (c ty : Z) (native : M (list Z)) : M (list Z) :=
    if c =? 0 then native
    else if c =? 1 then
      fun s => match to_string v with
               | Some t => Ok (60 :: t ++ [62]) (mkS (s_o s) (s_log s ++ [[VNum 6; VNum ty; VBool true]]) (s_cb s) (s_lg s) (s_args s))
               | None => Ex (-1) s
               end
    else throw 6 in
  match v with
  | VUndef | VNull => ret []
  | VNum z => go cn 1 (if Z.abs z <? 1000 then opt_m (to_string v) else throw (-1))
  | VStr _ => go cs 0 (opt_m (to_string v))
  | VBool _ => go cb 2 (opt_m (to_string v))
  | VDbl _ | VGet _ _ _ _ _ => throw (-1)
  end.
Definition m_tolocalestring_cfg (cfg : locale_cfg) (args : list marg) : M rv :=
  len <- m_len ;;
  if len =? 0 then ret (RVal (VStr [])) else
  n <- cnt (len - 1) ;;
  e0 <- m_get (KI 0) ;;
  r0 <- locale_elem cfg e0 ;;
  r <- fold_up n 1 r0 (fun k acc => e <- m_get (KI k) ;; s <- locale_elem cfg e ;; ret (acc ++ [44] ++ s)) ;;
  ret (RVal (VStr r)).
Definition m_tolocalestring := m_tolocalestring_cfg (0, 0, 0).

(* method numbering shared with the harness *)
Definition method (m : Z) : option (list marg -> M rv) :=
  match m with
  | 0 => Some m_join | 1 => Some m_pop | 2 => Some m_push | 3 => Some m_reverse
  | 4 => Some m_shift | 5 => Some m_slice | 6 => Some m_splice | 7 => Some m_unshift
  | 8 => Some m_indexof | 9 => Some m_lastindexof | 10 => Some m_every | 11 => Some m_some
  | 12 => Some m_foreach | 13 => Some m_map | 14 => Some m_filter | 15 => Some m_reduce
  | 16 => Some m_reduceright | 17 => Some m_concat | 18 => Some m_tostring | 19 => Some m_tolocalestring
  | _ => None
  end.

End Methods.

(* ---------- histories ---------- *)
Inductive op :=
| OSet (k : key) (v : val)                 (* R[k] = v in sloppy code *)
| ODel (k : key)                           (* delete R[k] in sloppy code *)
| ODef (k : key) (d : desc)                (* Object.defineProperty(R, k, d) *)
| OFreeze | OSeal | OPrevent               (* Object.freeze / seal / preventExtensions *)
| OCall (m : Z) (args : list marg) (cbs : list cbstep)
| OCallG (m : Z) (args : list marg) (cbs : list cbstep).   (* the same on a receiver whose length is a counting getter *)

(* observation of one step: result (or error class), own properties + extensible flag, callback log *)
Inductive outcome := Ret (r : rv) | Thrown (cls : Z).
Definition obs := (outcome * (list (key * prop) * bool) * list (list val))%type.

Definition seal_all (D : dialect) (freeze : bool) (o : obj) : obj * dres :=
  let fix go (names : list (key * prop)) (o : obj) : obj * dres :=
    match names with
    | [] => (set_ext o false, DTrue)
    | (k, p) :: rest =>
        let d := mkD None (if freeze && pw p then Some false else None) None (if pc p then Some false else None) in
        match define_own D o k d true with
        | (o', DTrue) => go rest o'
        | r => r
        end
    end in
  go (o_own o) o.

Definition dres_outcome (r : dres) (ok : rv) : outcome :=
  match r with DThrow c => Thrown c | _ => Ret ok end.

Fixpoint arg_arrays (proto : list (Z * prop)) (args : list marg) : list obj :=
  match args with
  | [] => []
  | AA l :: rest => lit_obj proto l :: arg_arrays proto rest
  | _ :: rest => arg_arrays proto rest
  end.

Definition call_method (D : dialect) (o : obj) (m : Z) (args : list marg) (cbs : list cbstep) (lg : bool)
  : obj * outcome * list (list val) :=
  match method D m with
  | None => (o, Thrown (-1), [])
  | Some f => match f args (mkS o [] cbs lg (arg_arrays (o_proto o) args)) with
              | Ok r s => (s_o s, Ret r, s_log s)
              | Ex c s => (s_o s, Thrown c, s_log s)
              end
  end.

(* toLocaleString under a given configuration of the primitive prototypes: outcome and log *)
Definition run_locale (D : dialect) (cfg : locale_cfg) (o : obj) : outcome * list (list val) :=
  match m_tolocalestring_cfg D cfg [] (mkS o [] [] false []) with
  | Ok r s => (Ret r, s_log s)
  | Ex c s => (Thrown c, s_log s)
  end.

Definition step (D : dialect) (o : obj) (x : op) : obj * outcome * list (list val) :=
  match x with
  | OSet k v => let '(o', r) := put D o k v false in (o', dres_outcome r (RVal v), setter_log o k v)
  | ODel k => let '(o', r) := delete o k false in
              (o', match r with DThrow c => Thrown c | DTrue => Ret (RVal (VBool true)) | DFalse => Ret (RVal (VBool false)) end, [])
  | ODef k d => let '(o', r) := define_own D o k d true in (o', dres_outcome r RThis, [])
  | OFreeze => let '(o', r) := seal_all D true o in (o', dres_outcome r RThis, [])
  | OSeal => let '(o', r) := seal_all D false o in (o', dres_outcome r RThis, [])
  | OPrevent => (set_ext o false, Ret RThis, [])
  | OCall m args cbs => call_method D o m args cbs false
  | OCallG m args cbs => call_method D o m args cbs true
  end.

Fixpoint run (D : dialect) (o : obj) (ops : list op) : list obs :=
  match ops with
  | [] => []
  | x :: rest => let '(o', out, log) := step D o x in (out, (o_own o', o_ext o'), log) :: run D o' rest
  end.

Definition declines (l : list obs) : bool :=
  existsb (fun x => match fst (fst x) with Thrown c => c =? -1 | _ => false end) l.
