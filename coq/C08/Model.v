(* otto's own array code (type_array.go, otto_.go, builtin_array.go) where it is
   more than the ES5 algorithm written out:
   - Value.number().int64: the saturating float64 -> int64 view every clamp uses
   - valueToRangeIndex / rangeStartEnd / rangeStartLength and the clamps coded
     inline in builtinArrayIndexOf / builtinArrayLastIndexOf
   - stringToArrayIndex (strconv.ParseInt acceptance) and arrayUint32
   - arrayDefineOwnProperty, including the second definition through the
     fall-through and the `newLength > length` test
   The Array.prototype methods themselves are coded in builtin_array.go as the
   15.4.4 step lists over hasProperty/get/put/delete; they are the methods of
   Spec.v instantiated with the dialect [otto] below. *)
From Coq Require Import ZArith Bool List Lia.
From Otto Require Import Common.Corr Common.Double C08.Spec.
Import ListNotations.
Open Scope Z_scope.

Definition max_int64 : Z := 9223372036854775807.
Definition min_int64 : Z := -9223372036854775808.
Definition two63 : Z := 9223372036854775808.

(* value_number.go number(): (kind = numberInteger?, int64) of a double *)
Definition otto_number_bits (bits : Z) : bool * Z :=
  match decode bits with
  | DNaN => (false, 0)
  | DInf neg => (false, if neg then min_int64 else max_int64)
  | DFin neg m e =>
      let t := trunc_mag m e in
      if m =? 0 then (true, 0)
      else if two63 <=? t then (false, if neg then min_int64 else max_int64)
      else (is_integral m e, if neg then - t else t)
  end.

Definition sat64 (z : Z) : Z := if two63 <=? z then max_int64 else if z <? min_int64 then min_int64 else z.

Definition otto_number (v : val) : option (bool * Z) :=
  match v with
  | VUndef => Some (false, 0)
  | VNull => Some (true, 0)
  | VBool b => Some (true, if b then 1 else 0)
  | VNum z => Some (true, sat64 z)
  | VDbl b => Some (otto_number_bits b)
  | VStr s => match s with
              | [] => Some (true, 0)
              | _ => option_map (fun z => (true, sat64 z)) (parse_digits s 0)
              end
  | VGet _ _ _ _ _ => None
  end.
Definition otto_int64 (v : val) : option Z := option_map snd (otto_number v).

(* otto_.go valueToRangeIndex *)
Definition valueToRangeIndex (index length : Z) (negativeIsZero : bool) : Z :=
  if negativeIsZero then
    let index := if index <? 0 then 0 else index in
    if length <=? index then length else index
  else if index <? 0 then
    let index := index + length in
    if index <? 0 then 0 else index
  else if length <? index then length else index.

Definition otto_rel (v : val) (len : Z) : option Z :=
  option_map (fun i => valueToRangeIndex i len false) (otto_int64 v).
Definition otto_cnt (v : val) (bound : Z) : option Z :=
  option_map (fun i => valueToRangeIndex i bound true) (otto_int64 v).

(* otto_.go rangeStartEnd (Array/String slice with negativeIsZero = false, String substring with true) *)
Definition otto_range (nz : bool) (v : val) (size : Z) : option Z := if nz then otto_cnt v size else otto_rel v size.
Definition rangeStartEnd (args : list val) (size : Z) (nz : bool) : option (Z * Z) :=
  match otto_range nz (nth 0 args VUndef) size with
  | None => None
  | Some start =>
      match args with
      | [_] => Some (start, size)
      | _ => match nth 1 args VUndef with
             | VUndef => Some (start, size)
             | e => option_map (fun x => (start, x)) (otto_range nz e size)
             end
      end
  end.
(* otto_.go rangeStartLength (String substr) *)
Definition rangeStartLength (args : list val) (size : Z) : option (Z * Z) :=
  match otto_rel (nth 0 args VUndef) size with
  | None => None
  | Some start =>
      match args with
      | [_] => Some (start, size)
      | _ => match nth 1 args VUndef with
             | VUndef => Some (start, size)
             | e => option_map (fun x => (start, x)) (otto_int64 e)
             end
      end
  end.

(* builtinArrayIndexOf: start index, None = the loop is not entered *)
Definition otto_indexof_start (index length : Z) : option Z :=
  if index <? 0 then
    let index := index + length in Some (if index <? 0 then 0 else index)
  else if length <=? index then None else Some index.
Definition otto_indexof (v : val) (len : Z) : option (option Z) :=
  option_map (fun i => otto_indexof_start i len) (otto_int64 v).

(* builtinArrayLastIndexOf *)
Definition otto_lastindexof_start (index length : Z) : option Z :=
  let index := if index <? 0 then index + length else index in
  if length <=? index then (if length - 1 <? 0 then None else Some (length - 1))
  else if index <? 0 then None else Some index.
Definition otto_lastindexof (v : val) (len : Z) : option (option Z) :=
  option_map (fun i => otto_lastindexof_start i len) (otto_int64 v).

(* strconv.ParseInt(s, 10, 64): optional sign, one or more decimal digits, value within int64 *)
Definition otto_parse_int (s : list Z) : option Z :=
  match s with
  | [] => None
  | c :: r =>
      let '(neg, ds) := if c =? 43 then (false, r) else if c =? 45 then (true, r) else (false, s) in
      match ds with
      | [] => None
      | _ => match parse_digits ds 0 with
             | None => None
             | Some n => let n' := if neg then - n else n in
                         if (n' <? min_int64) || (max_int64 <? n') then None else Some n'
             end
      end
  end.

(* otto_.go stringToArrayIndex: ParseInt, range, and strconv.FormatInt(index, 10) == name *)
Definition stringToArrayIndex (s : list Z) : option Z :=
  match otto_parse_int s with
  | None => None
  | Some i => if i <? 0 then None else if max_index <=? i then None
              else if zlist_eqb (dec i) s then Some i else None
  end.

(* the index arrayDefineOwnProperty sees in a name (KI n is the name dec n, see Names.v) *)
Definition otto_key_index (k : key) : option Z :=
  match k with
  | KI n => if n <? max_index then Some n else None
  | KLen => None
  | KS s => stringToArrayIndex s
  end.

(* type_array.go arrayUint32: Some None = RangeError *)
Definition otto_array_uint32 (v : val) : option (option Z) :=
  match otto_number v with
  | None => None
  | Some (isint, i) => Some (if isint && (0 <=? i) && (i <=? max_index) then Some i else None)
  end.

(* type_array.go arrayDefineOwnProperty *)
Definition otto_def_array (o : obj) (k : key) (d : desc) (throw : bool) : obj * dres :=
  match get_own o KLen with
  | None => (o, DThrow (-1))
  | Some lengthProperty =>
    let length := len_of o in
    match k with
    | KLen =>
        match d_v d with
        | None => def_ord o KLen d throw
        | Some v =>
            match otto_array_uint32 v with
            | None => (o, DThrow (-1))
            | Some None => (o, DThrow 3)
            | Some (Some newLength) =>
                let d1 := mkD (Some (VNum newLength)) (d_w d) (d_e d) (d_c d) in
                if length <=? newLength then def_ord o KLen d1 throw
                else if negb (pw lengthProperty) then (o, reject throw)
                else if shrink_limit <? length - newLength then (o, DThrow (-1))
                else
                  let newWritable := match d_w d with Some false => false | _ => true end in
                  let d2 := if newWritable then d1 else mkD (d_v d1) (Some true) (d_e d1) (d_c d1) in
                  match def_ord o KLen d2 throw with
                  | (o1, DTrue) =>
                      match shrink (Z.to_nat (length - newLength)) o1 length newLength with
                      | (o2, Some l) =>
                          let d3 := mkD (Some (VNum l)) (if newWritable then d_w d2 else Some false) (d_e d2) (d_c d2) in
                          (fst (def_ord o2 KLen d3 false), reject throw)
                      | (o2, None) =>
                          let d3 := if newWritable then d2 else mkD (d_v d2) (Some false) (d_e d2) (d_c d2) in
                          let o3 := if newWritable then o2 else fst (def_ord o2 KLen d3 false) in
                          def_ord o3 KLen d3 throw            (* the final return objectDefineOwnProperty(...) *)
                      end
                  | r => r
                  end
            end
        end
    | _ =>
        match otto_key_index k with
        | Some index =>
            if (length <=? index) && negb (pw lengthProperty) then (o, reject throw)
            else match def_ord o (KI index) d false with
                 | (o1, DTrue) =>
                     if length <=? index
                     then (fst (def_ord o1 KLen (desc_v (VNum (index + 1))) false), DTrue)
                     else def_ord o1 k d throw                (* fall-through: defined again under the given name *)
                 | (o1, _) => (o1, reject throw)
                 end
        | None => def_ord o k d throw
        end
    end
  end.

Definition otto : dialect :=
  mkDia otto_def_array otto_rel otto_cnt otto_indexof otto_lastindexof.
