(* Array.prototype.sort (15.4.4.11).  ES5 does not fix the result beyond "a
   permutation, sorted by SortCompare, undefined after every value, holes
   last", so the specification is the predicate [sorted_perm]; the model is
   otto's sortCompare / arraySortSwap / arraySortQuickPartition /
   arraySortQuickSort (builtin_array.go) on a plain array: a list of
   present-or-hole slots.  On such an array (no inherited index property, all
   elements writable and configurable) arraySortSwap exchanges two slots in
   each of its three cases. *)
From Coq Require Import ZArith Bool List Lia.
From Otto Require Import Common.Corr Common.Double C08.Spec.
Import ListNotations.
Open Scope Z_scope.

Definition slots := list (option val).

Definition aget (a : slots) (i : Z) : option val := nth (Z.to_nat i) a None.
Fixpoint aset_nat (a : slots) (i : nat) (x : option val) : slots :=
  match a, i with
  | [], _ => []
  | _ :: t, O => x :: t
  | h :: t, S i' => h :: aset_nat t i' x
  end.
Definition aset (a : slots) (i : Z) (x : option val) : slots := aset_nat a (Z.to_nat i) x.
Definition swap (a : slots) (i j : Z) : slots :=
  let x := aget a i in let y := aget a j in aset (aset a i y) j x.

(* the comparators the harness uses, by number; 0 = no comparefn *)
Definition str_cmp (a b : list Z) : Z := if zlist_eqb a b then 0 else if list_ltb a b then -1 else 1.
Definition cmp_fn (c : Z) (x y : val) : option Z :=
  match c with
  | 0 => match to_string x, to_string y with
         | Some a, Some b => Some (str_cmp a b)
         | _, _ => None
         end
  | _ =>
      match x, y with
      | VNum a, VNum b =>
          let d := if c =? 1 then a - b                    (* function(a,b){return a-b} *)
                   else if c =? 2 then b - a               (* function(a,b){return b-a} *)
                   else if c =? 3 then Z.rem a 3 - Z.rem b 3   (* function(a,b){return a%3-b%3} *)
                   else Z.abs a - Z.abs b in               (* function(a,b){return Math.abs(a)-Math.abs(b)} *)
          Some (Z.sgn d)
      | _, _ => None
      end
  end.

(* sortCompare; None = outside the modelled domain *)
Definition sort_compare (c : Z) (a : slots) (i j : Z) : option Z :=
  match aget a i, aget a j with
  | None, None => Some 0
  | None, _ => Some 1
  | _, None => Some (-1)
  | Some x, Some y =>
      match x, y with
      | VUndef, VUndef => Some 0
      | VUndef, _ => Some 1
      | _, VUndef => Some (-1)
      | _, _ => cmp_fn c x y
      end
  end.

(* arraySortQuickPartition's loop: index runs from [index] while index < right *)
Fixpoint partition_loop (n : nat) (c : Z) (a : slots) (index right cursor cursor2 : Z) : option (slots * Z * Z) :=
  match n with
  | O => Some (a, cursor, cursor2)
  | S n' =>
      match sort_compare c a index right with
      | None => None
      | Some r =>
          if r <? 0 then
            let a1 := swap a index cursor in
            let a2 := if cursor <? cursor2 then swap a1 index cursor2 else a1 in
            partition_loop n' c a2 (index + 1) right (cursor + 1) (cursor2 + 1)
          else if r =? 0 then
            partition_loop n' c (swap a index cursor2) (index + 1) right cursor (cursor2 + 1)
          else partition_loop n' c a (index + 1) right cursor cursor2
      end
  end.

Definition partition (c : Z) (a : slots) (left right pivot : Z) : option (slots * Z * Z) :=
  let a0 := swap a pivot right in
  match partition_loop (Z.to_nat (right - left)) c a0 left right left left with
  | None => None
  | Some (a1, cursor, cursor2) => Some (swap a1 cursor2 right, cursor, cursor2)
  end.

Fixpoint quicksort (fuel : nat) (c : Z) (a : slots) (left right : Z) : option slots :=
  match fuel with
  | O => None
  | S f =>
      if left <? right then
        let middle := left + (right - left) / 2 in
        match partition c a left right middle with
        | None => None
        | Some (a1, pivot, pivot2) =>
            match (if 0 <? pivot then quicksort f c a1 left (pivot - 1) else Some a1) with
            | None => None
            | Some a2 => quicksort f c a2 (pivot2 + 1) right
            end
        end
      else Some a
  end.

Definition sort_model (a : slots) (c : Z) : option slots :=
  let n := Z.of_nat (length a) in
  if n <=? 1 then Some a else quicksort (S (length a)) c a 0 (n - 1).

(* ---- the ES5 requirement on the result ---- *)
Fixpoint remove_first (x : option val) (l : slots) : option slots :=
  match l with
  | [] => None
  | y :: l' => if option_eqb val_eqb x y then Some l'
               else match remove_first x l' with Some r => Some (y :: r) | None => None end
  end.
Fixpoint is_perm (a b : slots) : bool :=
  match a with
  | [] => match b with [] => true | _ => false end
  | x :: a' => match remove_first x b with Some b' => is_perm a' b' | None => false end
  end.
(* rank of a slot in the required layout: values, then undefined, then holes *)
Definition rank (x : option val) : Z := match x with None => 2 | Some VUndef => 1 | Some _ => 0 end.
Fixpoint ordered (c : Z) (l : slots) : bool :=
  match l with
  | x :: ((y :: _) as l') =>
      (if rank x <? rank y then true
       else if rank y <? rank x then false
       else match x, y with
            | Some u, Some v => if rank x =? 0 then match cmp_fn c u v with Some r => r <=? 0 | None => false end else true
            | _, _ => true
            end) && ordered c l'
  | _ => true
  end.
Definition sorted_perm (c : Z) (before after : slots) : bool := is_perm before after && ordered c after.
