(* C08 proofs, part 2: the array length invariant (15.4: "whenever a property
   is added whose name is an array index, the length property is changed, if
   necessary, to be one more than the numeric value of that array index; and
   whenever the length property is changed, every property whose name is an
   array index whose value is not smaller than the new length is deleted"),
   for every history of operations, by induction. *)
From Coq Require Import ZArith Bool List Lia.
From Otto Require Import Common.Corr Common.Double C08.Spec C08.Model C08.Proofs.
Import ListNotations.
Open Scope Z_scope.

(* ---------- keys and association lists ---------- *)
Lemma key_eqb_eq : forall a b, key_eqb a b = true -> a = b.
Proof.
  intros [x | | x] [y | | y]; cbn [key_eqb]; intro H; try discriminate; try reflexivity.
  - apply Z.eqb_eq in H. congruence.
  - apply zlist_eqb_eq in H. congruence.
Qed.
Lemma zlist_eqb_refl : forall a, zlist_eqb a a = true.
Proof. unfold zlist_eqb. induction a; cbn [list_eqb]; [reflexivity |]. rewrite Z.eqb_refl. exact IHa. Qed.
Lemma key_eqb_refl : forall a, key_eqb a a = true.
Proof. intros [x | | x]; cbn [key_eqb]; [apply Z.eqb_refl | reflexivity | apply zlist_eqb_refl]. Qed.
Lemma key_eqb_sym : forall a b, key_eqb a b = key_eqb b a.
Proof.
  intros a b. destruct (key_eqb a b) eqn:E.
  - apply key_eqb_eq in E. subst. symmetry. apply key_eqb_refl.
  - destruct (key_eqb b a) eqn:E2; [ | reflexivity]. apply key_eqb_eq in E2. subst. rewrite key_eqb_refl in E. discriminate.
Qed.

Lemma lookup_ins_same : forall k p l, lookup k (ins k p l) = Some p.
Proof.
  induction l as [ | [k' p'] l IH]; cbn [ins lookup].
  - rewrite key_eqb_refl. reflexivity.
  - destruct (key_eqb k k') eqn:E; [cbn [lookup]; rewrite key_eqb_refl; reflexivity |].
    destruct (key_ltb k k'); cbn [lookup]; [rewrite key_eqb_refl; reflexivity |]. rewrite E. exact IH.
Qed.
Lemma lookup_ins_other : forall k' k p l, key_eqb k' k = false -> lookup k' (ins k p l) = lookup k' l.
Proof.
  induction l as [ | [k2 p2] l IH]; intro H; cbn [ins lookup].
  - rewrite H. reflexivity.
  - destruct (key_eqb k k2) eqn:E.
    + apply key_eqb_eq in E. subst k2. cbn [lookup]. rewrite H. reflexivity.
    + destruct (key_ltb k k2); cbn [lookup]; [rewrite H; reflexivity |].
      destruct (key_eqb k' k2); [reflexivity | apply IH; exact H].
Qed.
Lemma lookup_remove_same : forall k l, lookup k (remove k l) = None.
Proof.
  induction l as [ | [k2 p2] l IH]; cbn [remove lookup]; [reflexivity |].
  destruct (key_eqb k k2) eqn:E; [exact IH |]. cbn [lookup]. rewrite E. exact IH.
Qed.
Lemma lookup_remove_other : forall k' k l, key_eqb k' k = false -> lookup k' (remove k l) = lookup k' l.
Proof.
  induction l as [ | [k2 p2] l IH]; intro H; cbn [remove lookup]; [reflexivity |].
  destruct (key_eqb k k2) eqn:E.
  - apply key_eqb_eq in E. subst k2. rewrite H. apply IH. exact H.
  - cbn [lookup]. destruct (key_eqb k' k2); [reflexivity | apply IH; exact H].
Qed.

(* ---------- the invariant ---------- *)
(* [bounded o b]: every own array-index property of o is below b *)
Definition bounded (o : obj) (b : Z) : Prop :=
  forall i p, lookup (KI i) (o_own o) = Some p -> i < max_index -> i < b.
(* the length property is a non-configurable data property holding a non-negative integer *)
Definition has_len (o : obj) (n : Z) : Prop :=
  exists w e, lookup KLen (o_own o) = Some (mkP (VNum n) w e false) /\ 0 <= n.
Definition inv (o : obj) : Prop := exists n, has_len o n /\ bounded o n.

Lemma len_of_has_len : forall o n, has_len o n -> len_of o = n.
Proof. intros o n (w & e & H & _). unfold len_of, get_own. rewrite H. reflexivity. Qed.

(* what the default [[DefineOwnProperty]] does to the own-property table *)
Lemma def_ord_spec : forall o k d t o' r, def_ord o k d t = (o', r) ->
  (r = DTrue /\ exists p', define_ord (lookup k (o_own o)) (o_ext o) d = Some p' /\ o' = set_own o (ins k p' (o_own o)))
  \/ (r <> DTrue /\ o' = o).
Proof.
  intros o k d t o' r. unfold def_ord, get_own.
  destruct (define_ord (lookup k (o_own o)) (o_ext o) d) as [p' | ] eqn:E; intro H; inversion H; subst.
  - left. split; [reflexivity |]. exists p'. split; reflexivity.
  - right. split; [ | reflexivity]. unfold reject. destruct t; discriminate.
Qed.

(* defining under a name other than length / an index keeps both parts *)
Lemma define_ord_nonconfig : forall v w e ext d p',
  define_ord (Some (mkP v w e false)) ext d = Some p' ->
  pc p' = false /\ pe p' = e /\ pv p' = opt_or (d_v d) v /\ (w = true -> d_w d <> Some false -> pw p' = true).
Proof.
  intros v w e ext d p'. unfold define_ord. cbn [pc pw pe pv negb andb].
  destruct (is_some_true (d_c d)) eqn:C; cbn [orb]; [discriminate |].
  destruct (d_e d) as [b | ] eqn:E; cbn [orb].
  - destruct (Bool.eqb b e) eqn:B; cbn [negb orb]; [ | discriminate].
    apply Bool.eqb_prop in B. subst b.
    match goal with |- (if ?c then _ else _) = _ -> _ => destruct c end; [discriminate |].
    intro H; inversion H; subst; cbn [pc pe pv pw opt_or].
    repeat split.
    + destruct (d_c d) as [[ | ] | ]; [discriminate | reflexivity | reflexivity].
    + intros -> Hw. destruct (d_w d) as [[ | ] | ]; [reflexivity | congruence | reflexivity].
  - match goal with |- (if ?c then _ else _) = _ -> _ => destruct c end; [discriminate |].
    intro H; inversion H; subst; cbn [pc pe pv pw opt_or].
    repeat split.
    + destruct (d_c d) as [[ | ] | ]; [discriminate | reflexivity | reflexivity].
    + intros -> Hw. destruct (d_w d) as [[ | ] | ]; [reflexivity | congruence | reflexivity].
Qed.

Lemma bounded_set_other : forall o k p b, (forall i, k <> KI i) -> bounded o b -> bounded (set_own o (ins k p (o_own o))) b.
Proof.
  intros o k p b Hk Hb i q. cbn [o_own set_own]. rewrite lookup_ins_other; [apply Hb |].
  destruct (key_eqb (KI i) k) eqn:E; [ | reflexivity]. apply key_eqb_eq in E. symmetry in E. apply Hk in E. contradiction.
Qed.
Lemma has_len_set_other : forall o k p n, k <> KLen -> has_len o n -> has_len (set_own o (ins k p (o_own o))) n.
Proof.
  intros o k p n Hk (w & e & H & Hn). exists w, e. split; [ | exact Hn]. cbn [o_own set_own].
  rewrite lookup_ins_other; [exact H |]. destruct (key_eqb KLen k) eqn:E; [ | reflexivity]. apply key_eqb_eq in E. congruence.
Qed.

(* redefining length through the default algorithm: the new value is what the descriptor says *)
Lemma def_ord_len : forall o d t o' r n v', has_len o n ->
  def_ord o KLen d t = (o', r) -> opt_or (d_v d) (VNum n) = VNum v' -> 0 <= v' ->
  (r = DTrue /\ has_len o' v' /\ (forall b, bounded o b -> bounded o' b)) \/ (r <> DTrue /\ o' = o).
Proof.
  intros o d t o' r n v' (w & e & Hl & Hn) H Hv Hv'.
  apply def_ord_spec in H. destruct H as [(-> & p' & Hd & ->) | (Hr & ->)]; [left | right; split; [exact Hr | reflexivity]].
  rewrite Hl in Hd. pose proof (define_ord_nonconfig _ _ _ _ _ _ Hd) as (Hc & He & Hpv & _).
  split; [reflexivity |]. split.
  - exists (pw p'), (pe p'). cbn [o_own set_own]. rewrite lookup_ins_same. split; [ | exact Hv'].
    destruct p' as [pv0 pw0 pe0 pc0]. cbn in *. subst. rewrite Hv. reflexivity.
  - intros b Hb. apply bounded_set_other; [intros i; discriminate | exact Hb].
Qed.

(* 8.12.7 on an index *)
Lemma delete_index : forall o i t o' r n b, has_len o n -> bounded o b ->
  delete o (KI i) t = (o', r) ->
  has_len o' n /\ bounded o' b /\ (r = DTrue -> lookup (KI i) (o_own o') = None) /\ o_arr o' = o_arr o /\ o_ext o' = o_ext o.
Proof.
  intros o i t o' r n b (w & e & Hl & Hn) Hb. unfold delete, get_own.
  destruct (lookup (KI i) (o_own o)) as [p | ] eqn:E.
  - destruct (pc p); intro H; inversion H; subst.
    + split; [ | split; [ | split; [ | split; reflexivity]]].
      * exists w, e. cbn [o_own set_own]. rewrite lookup_remove_other; [split; assumption | reflexivity].
      * intros j q. cbn [o_own set_own]. destruct (Z.eqb_spec j i) as [-> | Hne].
        -- rewrite lookup_remove_same. discriminate.
        -- rewrite lookup_remove_other; [apply Hb |]. cbn [key_eqb]. apply Z.eqb_neq. exact Hne.
      * intros _. cbn [o_own set_own]. apply lookup_remove_same.
    + split; [exists w, e; split; assumption | split; [exact Hb | split; [ | split; reflexivity]]].
      unfold reject. destruct t; discriminate.
  - intro H; inversion H; subst. split; [exists w, e; split; assumption | split; [exact Hb | split; [ | split; reflexivity]]].
    intros _. exact E.
Qed.

(* 15.4.5.1 step 3.l: the loop removes every index >= the bound it reports *)
Lemma shrink_spec : forall k o oldLen newLen o' res n,
  has_len o n -> bounded o oldLen -> Z.of_nat k = Z.max (oldLen - newLen) 0 ->
  shrink k o oldLen newLen = (o', res) ->
  has_len o' n /\ o_arr o' = o_arr o /\ o_ext o' = o_ext o /\
  match res with
  | None => bounded o' (Z.min oldLen newLen) \/ bounded o' newLen
  | Some l => bounded o' l /\ newLen < l <= oldLen /\ exists p, lookup (KI (l - 1)) (o_own o') = Some p /\ pc p = false
  end.
Proof.
  induction k as [ | k IH]; intros o oldLen newLen o' res n Hl Hb Hk; cbn [shrink].
  - intro H; inversion H; subst. split; [exact Hl | split; [reflexivity | split; [reflexivity |]]].
    right. intros i p Hi Hm. specialize (Hb i p Hi Hm). lia.
  - destruct (Z.ltb_spec newLen oldLen) as [Hlt | Hge]; [ | lia].
    destruct (delete o (KI (oldLen - 1)) false) as [o1 r] eqn:D.
    pose proof (delete_index _ _ _ _ _ _ _ Hl Hb D) as (Hl1 & Hb1 & Hnone & Ha1 & He1).
    destruct r.
    + intro H. specialize (Hnone eq_refl).
      assert (Hb1' : bounded o1 (oldLen - 1)).
      { intros i p Hi Hm. specialize (Hb1 i p Hi Hm). destruct (Z.eq_dec i (oldLen - 1)) as [-> | ]; [congruence | lia]. }
      apply (IH o1 (oldLen - 1) newLen o' res n Hl1 Hb1') in H; [ | lia].
      destruct H as (H1 & H2 & H3 & H4). split; [exact H1 | split; [congruence | split; [congruence |]]].
      destruct res as [l | ].
      * destruct H4 as (Hbl & Hr & Hp). split; [exact Hbl | split; [lia | exact Hp]].
      * destruct H4 as [H4 | H4]; [ | right; exact H4].
        right. intros i p Hi Hm. specialize (H4 i p Hi Hm). lia.
    + intro H; inversion H; subst. split; [exact Hl1 | split; [exact Ha1 | split; [exact He1 |]]].
      split; [intros i p Hi Hm; specialize (Hb1 i p Hi Hm); lia | split; [lia |]].
      replace (oldLen - 1 + 1 - 1) with (oldLen - 1) by lia.
      unfold delete, get_own in D. destruct (lookup (KI (oldLen - 1)) (o_own o)) as [p | ] eqn:E; [ | inversion D].
      destruct (pc p) eqn:C; inversion D; subst. exists p. split; assumption.
    + intro H; inversion H; subst. unfold delete, get_own in D.
      destruct (lookup (KI (oldLen - 1)) (o_own o)) as [p | ]; [destruct (pc p) | ]; inversion D.
Qed.

Lemma delete_index_len : forall o i t o' r, delete o (KI i) t = (o', r) ->
  lookup KLen (o_own o') = lookup KLen (o_own o).
Proof.
  intros o i t o' r. unfold delete, get_own. destruct (lookup (KI i) (o_own o)) as [p | ]; [destruct (pc p) | ]; intro H; inversion H; subst; try reflexivity.
  cbn [o_own set_own]. apply lookup_remove_other. reflexivity.
Qed.
Lemma shrink_len : forall k o oldLen newLen o' res, shrink k o oldLen newLen = (o', res) ->
  lookup KLen (o_own o') = lookup KLen (o_own o).
Proof.
  induction k as [ | k IH]; intros o oldLen newLen o' res; cbn [shrink]; [intro H; inversion H; reflexivity |].
  destruct (newLen <? oldLen); [ | intro H; inversion H; reflexivity].
  destruct (delete o (KI (oldLen - 1)) false) as [o1 r] eqn:D. apply delete_index_len in D.
  destruct r; intro H; [apply IH in H; congruence | inversion H; subst; exact D | inversion H; subst; exact D].
Qed.

Lemma define_ord_checks : forall v w e ext d p', define_ord (Some (mkP v w e false)) ext d = Some p' ->
  is_some_true (d_c d) = false /\ match d_e d with Some b => negb (Bool.eqb b e) | None => false end = false.
Proof.
  intros v w e ext d p'. unfold define_ord. cbn [pc pw pe pv negb andb].
  destruct (is_some_true (d_c d)); cbn [orb]; [discriminate |].
  destruct (match d_e d with Some b => negb (Bool.eqb b e) | None => false end); cbn [orb]; [discriminate |].
  intros _. split; reflexivity.
Qed.
Lemma define_ord_accept : forall v e ext d, is_some_true (d_c d) = false ->
  match d_e d with Some b => negb (Bool.eqb b e) | None => false end = false ->
  define_ord (Some (mkP v true e false)) ext d =
  Some (mkP (opt_or (d_v d) v) (opt_or (d_w d) true) (opt_or (d_e d) e) (opt_or (d_c d) false)).
Proof. intros v e ext d HC HE. unfold define_ord. cbn [pc pw pe pv negb andb]. rewrite HC, HE. reflexivity. Qed.

Lemma valid_length_nonneg : forall v m, valid_length v = Some (Some m) -> 0 <= m.
Proof.
  intros v m. rewrite <- array_uint32_agree. unfold otto_array_uint32.
  destruct (otto_number v) as [[isint i] | ]; [ | discriminate].
  destruct isint; cbn [andb]; [ | discriminate].
  destruct (Z.leb_spec 0 i) as [Hi | Hi]; cbn [andb]; [ | discriminate].
  destruct (i <=? max_index); intro Hq; inversion Hq; subst; assumption.
Qed.

Lemma bounded_mono : forall o a b, bounded o a -> a <= b -> bounded o b.
Proof. intros o a b H Hab i p Hi Hm. specialize (H i p Hi Hm). lia. Qed.

Lemma inv_of : forall o n w e, lookup KLen (o_own o) = Some (mkP (VNum n) w e false) -> 0 <= n -> bounded o n -> inv o.
Proof. intros o n w e H Hn Hb. exists n. split; [exists w, e; split; assumption | exact Hb]. Qed.

(* the array [[DefineOwnProperty]] of ES5 keeps the invariant, whatever the name, descriptor and outcome *)
Theorem def_array_inv : forall o k d t o' r, inv o -> def_array o k d t = (o', r) -> inv o' /\ o_arr o' = o_arr o.
Proof.
  intros o k d t o' r (n & Hlen & Hb) H.
  pose proof Hlen as (w & e & Hl & Hn).
  pose proof (len_of_has_len _ _ Hlen) as Hlo.
  unfold def_array, get_own in H. rewrite Hl, Hlo in H. cbn [pw] in H.
  assert (Hinv : inv o) by (exists n; split; assumption).
  assert (Hord_len : forall d0 t0 o0 r0 v', def_ord o KLen d0 t0 = (o0, r0) -> opt_or (d_v d0) (VNum n) = VNum v' -> n <= v' -> inv o0 /\ o_arr o0 = o_arr o).
  { intros d0 t0 o0 r0 v' H0 Hv Hle.
    destruct (def_ord_len _ _ _ _ _ _ _ Hlen H0 Hv ltac:(lia)) as [(_ & Hl0 & Hb0) | (_ & ->)]; [ | split; [exact Hinv | reflexivity]].
    split; [exists v'; split; [exact Hl0 | apply (bounded_mono _ n); [apply Hb0; exact Hb | exact Hle]] |].
    apply def_ord_spec in H0. destruct H0 as [(_ & p' & _ & ->) | (_ & ->)]; reflexivity. }
  destruct k as [i | | s].
  - (* an integer name *)
    cbn [array_index] in H. destruct (Z.ltb_spec i max_index) as [Hi | Hi].
    + destruct ((n <=? i) && negb w) eqn:G; [inversion H; subst o' r; split; [exact Hinv | reflexivity] |].
      destruct (def_ord o (KI i) d false) as [o1 r1] eqn:D1.
      apply def_ord_spec in D1. destruct D1 as [(-> & p' & _ & ->) | (Hr1 & ->)].
      * set (o1 := set_own o (ins (KI i) p' (o_own o))) in *.
        assert (Hl1 : has_len o1 n) by (apply has_len_set_other; [discriminate | exact Hlen]).
        assert (Hb1 : bounded o1 (Z.max n (i + 1))).
        { intros j q. unfold o1. cbn [o_own set_own]. destruct (Z.eqb_spec j i) as [-> | Hne].
          - intros _ _. lia.
          - rewrite lookup_ins_other by (cbn [key_eqb]; apply Z.eqb_neq; exact Hne). intros Hj Hm. specialize (Hb j q Hj Hm). lia. }
        destruct (Z.leb_spec n i) as [Hle | Hgt].
        -- inversion H; subst o' r; clear H. destruct (def_ord o1 KLen (desc_v (VNum (i + 1))) false) as [o2 r2] eqn:D2. cbn [fst].
           destruct (def_ord_len _ _ _ _ _ _ (i + 1) Hl1 D2 eq_refl ltac:(lia)) as [(_ & Hl2 & Hb2) | (Hr2 & ->)].
           ++ split; [exists (i + 1); split; [exact Hl2 | apply Hb2; apply (bounded_mono _ _ _ Hb1); lia] |].
              apply def_ord_spec in D2. destruct D2 as [(_ & q & _ & ->) | (_ & ->)]; reflexivity.
           ++ (* the default algorithm cannot refuse {value: i+1} on a writable length *)
              exfalso. apply Hr2.
              assert (Hw : w = true).
              { destruct (Z.leb_spec n i) as [_ | Hc]; [ | lia]. destruct w; [reflexivity | discriminate G]. }
              subst w.
              assert (Hl1' : lookup KLen (o_own o1) = Some (mkP (VNum n) true e false)).
              { unfold o1. cbn [o_own set_own]. rewrite lookup_ins_other by reflexivity. exact Hl. }
              unfold def_ord, get_own in D2. rewrite Hl1' in D2.
              rewrite define_ord_accept in D2 by reflexivity. inversion D2. reflexivity.
        -- inversion H; subst o' r; clear H. split; [exists n; split; [exact Hl1 | apply (bounded_mono _ _ _ Hb1); lia] | reflexivity].
      * destruct r1; [congruence | | ]; inversion H; subst o' r; (split; [exact Hinv | reflexivity]).
    + (* not an array index: default algorithm, length and the indices untouched *)
      apply def_ord_spec in H. destruct H as [(_ & p' & _ & ->) | (_ & ->)]; [ | split; [exact Hinv | reflexivity]].
      split; [ | reflexivity]. exists n. split; [apply has_len_set_other; [discriminate | exact Hlen] |].
      intros j q. cbn [o_own set_own]. destruct (Z.eqb_spec j i) as [-> | Hne]; [intros _ Hm; lia |].
      rewrite lookup_ins_other by (cbn [key_eqb]; apply Z.eqb_neq; exact Hne). apply Hb.
  - (* length *)
    destruct (d_v d) as [v | ] eqn:Dv.
    + destruct (valid_length v) as [[newLen | ] | ] eqn:V; try (inversion H; subst o' r; split; [exact Hinv | reflexivity]).
      pose proof (valid_length_nonneg _ _ V) as Hnl.
      destruct (Z.leb_spec n newLen) as [Hle | Hgt].
      * apply (Hord_len _ _ _ _ newLen) in H; [exact H | reflexivity | exact Hle].
      * destruct w; cbn [negb] in H; [ | inversion H; subst o' r; split; [exact Hinv | reflexivity]].
        destruct (shrink_limit <? n - newLen); [inversion H; subst o' r; split; [exact Hinv | reflexivity] |].
        set (newWritable := match d_w d with Some false => false | _ => true end) in *.
        set (d1 := mkD (Some (VNum newLen)) (d_w d) (d_e d) (d_c d)) in *.
        set (d2 := if newWritable then d1 else mkD (d_v d1) (Some true) (d_e d1) (d_c d1)) in *.
        assert (Hd2v : d_v d2 = Some (VNum newLen)) by (unfold d2; destruct newWritable; reflexivity).
        assert (Hd2e : d_e d2 = d_e d) by (unfold d2; destruct newWritable; reflexivity).
        assert (Hd2c : d_c d2 = d_c d) by (unfold d2; destruct newWritable; reflexivity).
        assert (Hd2w : d_w d2 <> Some false).
        { unfold d2, newWritable, d1. destruct (d_w d) as [[ | ] | ]; cbn; discriminate. }
        destruct (def_ord o KLen d2 t) as [o1 r1] eqn:D1.
        apply def_ord_spec in D1. destruct D1 as [(-> & p1 & Hp1 & ->) | (Hr1 & ->)];
          [ | destruct r1; [congruence | | ]; inversion H; subst o' r; (split; [exact Hinv | reflexivity])].
        rewrite Hl in Hp1.
        pose proof (define_ord_nonconfig _ _ _ _ _ _ Hp1) as (Hc1 & He1 & Hv1 & Hw1).
        pose proof (define_ord_checks _ _ _ _ _ _ Hp1) as (HC & HE).
        rewrite Hd2v in Hv1. cbn [opt_or] in Hv1. specialize (Hw1 eq_refl Hd2w).
        set (o1 := set_own o (ins KLen p1 (o_own o))) in *.
        assert (Hl1 : lookup KLen (o_own o1) = Some (mkP (VNum newLen) true e false)).
        { unfold o1. cbn [o_own set_own]. rewrite lookup_ins_same. destruct p1; cbn in *; subst; reflexivity. }
        assert (Hb1 : bounded o1 n) by (apply bounded_set_other; [intros j; discriminate | exact Hb]).
        destruct (shrink (Z.to_nat (n - newLen)) o1 n newLen) as [o2 res] eqn:S.
        pose proof (shrink_len _ _ _ _ _ _ S) as Hl2. rewrite Hl1 in Hl2.
        assert (Hhl1 : has_len o1 newLen) by (exists true, e; split; assumption).
        assert (Hk : Z.of_nat (Z.to_nat (n - newLen)) = Z.max (n - newLen) 0) by lia.
        destruct (shrink_spec _ _ _ _ _ _ _ Hhl1 Hb1 Hk S) as (_ & Ha2 & _ & Hres).
        destruct res as [l | ].
        -- destruct Hres as (Hbl & Hrange & _).
           set (d3 := mkD (Some (VNum l)) (if newWritable then d_w d2 else Some false) (d_e d2) (d_c d2)) in *.
           inversion H; subst o' r.
           assert (Hacc : define_ord (Some (mkP (VNum newLen) true e false)) (o_ext o2) d3 =
                          Some (mkP (VNum l) (opt_or (d_w d3) true) (opt_or (d_e d3) e) (opt_or (d_c d3) false))).
           { rewrite define_ord_accept; [reflexivity | unfold d3; cbn [d_c]; rewrite Hd2c; rewrite Hd2c in HC; exact HC |
               unfold d3; cbn [d_e]; exact HE]. }
           unfold def_ord, get_own. rewrite Hl2, Hacc. cbn [fst].
           assert (Hc3 : opt_or (d_c d3) false = false).
           { unfold d3. cbn [d_c]. rewrite Hd2c in *. destruct (d_c d) as [[ | ] | ]; [discriminate | reflexivity | reflexivity]. }
           rewrite Hc3. split; [ | cbn [o_arr set_own]; exact Ha2].
           eapply inv_of; [cbn [o_own set_own]; apply lookup_ins_same | lia |].
           apply bounded_set_other; [intros j; discriminate | exact Hbl].
        -- assert (Hb2 : bounded o2 newLen).
           { destruct Hres as [Hres | Hres]; [ | exact Hres]. apply (bounded_mono _ _ _ Hres). lia. }
           assert (Hinv2 : inv o2) by (eapply inv_of; [exact Hl2 | exact Hnl | exact Hb2]).
           destruct newWritable.
           ++ inversion H; subst o' r. split; [exact Hinv2 | exact Ha2].
           ++ inversion H; subst o' r.
              destruct (def_ord o2 KLen (mkD None (Some false) None None) false) as [o3 r3] eqn:D3. cbn [fst].
              assert (Hhl2 : has_len o2 newLen) by (exists true, e; split; assumption).
              destruct (def_ord_len _ _ _ _ _ _ newLen Hhl2 D3 eq_refl Hnl) as [(_ & Hl3 & Hb3) | (_ & ->)]; [ | split; [exact Hinv2 | exact Ha2]].
              split; [exists newLen; split; [exact Hl3 | apply Hb3; exact Hb2] |].
              apply def_ord_spec in D3. destruct D3 as [(_ & q & _ & ->) | (_ & ->)]; exact Ha2.
    + apply (Hord_len _ _ _ _ n) in H; [exact H | rewrite Dv; reflexivity | lia].
  - (* any other name *)
    cbn [array_index] in H.
    apply def_ord_spec in H. destruct H as [(_ & p' & _ & ->) | (_ & ->)]; [ | split; [exact Hinv | reflexivity]].
    split; [ | reflexivity]. exists n. split; [apply has_len_set_other; [discriminate | exact Hlen] |].
    apply bounded_set_other; [intros j; discriminate | exact Hb].
Qed.

(* ---------- histories ---------- *)
Lemma delete_inv : forall o k t o' r, inv o -> delete o k t = (o', r) -> inv o' /\ o_arr o' = o_arr o.
Proof.
  intros o k t o' r (n & Hlen & Hb) H.
  destruct k as [i | | s].
  - destruct (delete_index _ _ _ _ _ _ _ Hlen Hb H) as (H1 & H2 & _ & H3 & _). split; [exists n; split; assumption | exact H3].
  - destruct Hlen as (w & e & Hl & Hn). unfold delete, get_own in H. rewrite Hl in H. cbn [pc] in H. inversion H; subst.
    split; [exists n; split; [exists w, e; split; assumption | exact Hb] | reflexivity].
  - unfold delete, get_own in H. destruct (lookup (KS s) (o_own o)) as [p | ]; [destruct (pc p) | ]; inversion H; subst;
      try (split; [exists n; split; assumption | reflexivity]).
    split; [ | reflexivity]. destruct Hlen as (w & e & Hl & Hn). exists n. split.
    + exists w, e. cbn [o_own set_own]. rewrite lookup_remove_other by reflexivity. split; assumption.
    + intros j q. cbn [o_own set_own]. rewrite lookup_remove_other by reflexivity. apply Hb.
Qed.

Lemma define_own_inv : forall o k d t o' r, o_arr o = true -> inv o ->
  define_own es5 o k d t = (o', r) -> inv o' /\ o_arr o' = true.
Proof.
  intros o k d t o' r Ha Hi H. unfold define_own in H. rewrite Ha in H. cbn [dia_define es5] in H.
  destruct (def_array_inv _ _ _ _ _ _ Hi H) as (H1 & H2). split; [exact H1 | congruence].
Qed.

Lemma put_inv : forall o k v t o' r, o_arr o = true -> inv o ->
  put es5 o k v t = (o', r) -> inv o' /\ o_arr o' = true.
Proof.
  intros o k v t o' r Ha Hi H. unfold put in H.
  destruct (negb (can_put o k)); [inversion H; subst; split; assumption |].
  destruct (get_own o k); eapply define_own_inv; eassumption.
Qed.

Lemma set_ext_inv : forall o b, inv o -> inv (set_ext o b).
Proof. intros o b H. exact H. Qed.

Lemma seal_all_inv : forall fr o o' r, o_arr o = true -> inv o ->
  seal_all es5 fr o = (o', r) -> inv o' /\ o_arr o' = true.
Proof.
  intros fr o o' r. unfold seal_all. generalize (o_own o) as names.
  intros names; revert o. induction names as [ | [k p] rest IH]; intros o Ha Hi H.
  - inversion H; subst. split; [apply set_ext_inv; exact Hi | exact Ha].
  - match type of H with context [define_own es5 o k ?d true] => destruct (define_own es5 o k d true) as [o1 r1] eqn:D end.
    destruct (define_own_inv _ _ _ _ _ _ Ha Hi D) as (Hi1 & Ha1).
    destruct r1; [apply (IH o1 Ha1 Hi1 H) | inversion H; subst; split; assumption | inversion H; subst; split; assumption].
Qed.

Definition no_call (x : op) : Prop := match x with OCall _ _ _ | OCallG _ _ _ => False | _ => True end.
Definition next (o : obj) (x : op) : obj := fst (fst (step es5 o x)).
Definition final (o : obj) (ops : list op) : obj := fold_left next ops o.

Lemma step_inv : forall o x, o_arr o = true -> inv o -> no_call x -> inv (next o x) /\ o_arr (next o x) = true.
Proof.
  intros o x Ha Hi Hx. unfold next. destruct x as [k v | k | k d | | | | m args cbs | m args cbs]; cbn [step]; try contradiction.
  - destruct (put es5 o k v false) as [o' r] eqn:P. cbn [fst]. eapply put_inv; eassumption.
  - destruct (delete o k false) as [o' r] eqn:P. cbn [fst]. destruct (delete_inv _ _ _ _ _ Hi P). split; [assumption | congruence].
  - destruct (define_own es5 o k d true) as [o' r] eqn:P. cbn [fst]. eapply define_own_inv; eassumption.
  - destruct (seal_all es5 true o) as [o' r] eqn:P. cbn [fst]. eapply seal_all_inv; eassumption.
  - destruct (seal_all es5 false o) as [o' r] eqn:P. cbn [fst]. eapply seal_all_inv; eassumption.
  - cbn [fst]. split; [apply set_ext_inv; exact Hi | exact Ha].
Qed.

(* the length invariant over every history of assignments, deletes, defineProperty (any name,
   any data descriptor, including invalid and shrinking lengths), freeze, seal, preventExtensions *)
Theorem length_invariant : forall ops o, o_arr o = true -> inv o -> Forall no_call ops ->
  inv (final o ops) /\ o_arr (final o ops) = true.
Proof.
  induction ops as [ | x ops IH]; intros o Ha Hi Hf; cbn [final fold_left]; [split; assumption |].
  inversion Hf; subst. destruct (step_inv o x Ha Hi H1) as (Hi1 & Ha1). apply IH; assumption.
Qed.

(* a fresh array literal satisfies the invariant *)
Lemma lit_inv : forall proto l, inv (lit_obj proto l).
Proof.
  intros proto l. exists (Z.of_nat (length l)). split.
  - exists true, false. split; [reflexivity | lia].
  - unfold bounded, lit_obj. cbn [o_own lookup key_eqb].
    assert (G : forall (l : list (option val)) k i p,
      lookup (KI i) ((fix go (l : list (option val)) (k : Z) : list (key * prop) :=
                        match l with
                        | [] => []
                        | None :: l' => go l' (k + 1)
                        | Some v :: l' => (KI k, mkP v (match v with VGet _ _ _ _ _ => false | _ => true end) true true) :: go l' (k + 1)
                        end) l k) = Some p -> i < k + Z.of_nat (length l)).
    { induction l0 as [ | [v | ] l0 IH]; intros k i p; cbn [lookup length].
      - discriminate.
      - cbn [key_eqb]. destruct (Z.eqb_spec i k); [intros _; lia |]. intro H. apply IH in H. lia.
      - intro H. apply IH in H. lia. }
    intros i p H _. apply G in H. lia.
Qed.

(* shrinking deletes exactly the elements beyond the new length, stopping at a non-configurable one *)
Theorem shrink_exact : forall o oldLen newLen o' res n,
  has_len o n -> bounded o oldLen -> 0 <= newLen ->
  shrink (Z.to_nat (oldLen - newLen)) o oldLen newLen = (o', res) ->
  match res with
  | None => bounded o' (Z.min oldLen newLen) \/ bounded o' newLen
  | Some l => bounded o' l /\ newLen < l <= oldLen /\ exists p, lookup (KI (l - 1)) (o_own o') = Some p /\ pc p = false
  end.
Proof.
  intros o oldLen newLen o' res n Hl Hb Hn S.
  assert (Hk : Z.of_nat (Z.to_nat (oldLen - newLen)) = Z.max (oldLen - newLen) 0) by lia.
  destruct (shrink_spec _ _ _ _ _ _ _ Hl Hb Hk S) as (_ & _ & _ & H). exact H.
Qed.
