(* C08 proofs, part 1: the numeric clamps and the name classification.
   Everything is plain Z arithmetic on the exact view of a double. *)
From Coq Require Import ZArith Bool List Lia.
From Otto Require Import Common.Corr Common.Double C08.Spec C08.Model.
Import ListNotations.
Open Scope Z_scope.

Ltac brk :=
  repeat match goal with
         | |- context [?a <? ?b] => destruct (Z.ltb_spec a b)
         | |- context [?a <=? ?b] => destruct (Z.leb_spec a b)
         | |- context [?a =? ?b] => destruct (Z.eqb_spec a b)
         | H : context [?a <? ?b] |- _ => destruct (Z.ltb_spec a b)
         | H : context [?a <=? ?b] |- _ => destruct (Z.leb_spec a b)
         | H : context [?a =? ?b] |- _ => destruct (Z.eqb_spec a b)
         end.

(* ---------- doubles: the exact view ---------- *)
Lemma decode_fin_nonneg : forall b neg m e, decode b = DFin neg m e -> 0 <= m.
Proof.
  intros b neg m e. unfold decode.
  assert (H52 : 0 < 2 ^ 52) by (apply Z.pow_pos_nonneg; lia).
  pose proof (Z.mod_pos_bound b (2 ^ 52) H52) as Hm.
  destruct (_ =? 2047).
  - destruct (_ =? 0); discriminate.
  - destruct (_ =? 0); intro H; inversion H; subst; change (Z.pow_pos 2 52) with (2 ^ 52) in *; lia.
Qed.

Lemma trunc_mag_nonneg : forall m e, 0 <= m -> 0 <= trunc_mag m e.
Proof.
  intros m e Hm. unfold trunc_mag. destruct (Z.leb_spec 0 e).
  - apply Z.mul_nonneg_nonneg; [lia | apply Z.pow_nonneg; lia].
  - apply Z.div_pos; [lia | apply Z.pow_pos_nonneg; lia].
Qed.

Lemma trunc_mag_zero : forall e, trunc_mag 0 e = 0.
Proof. intro e. unfold trunc_mag. destruct (0 <=? e); [apply Z.mul_0_l | apply Zdiv_0_l]. Qed.

(* number().int64 is the saturation of ToInteger *)
Definition xsat (x : xint) : Z :=
  match x with XI z => sat64 z | XPinf => max_int64 | XNinf => min_int64 end.

Lemma otto_int64_bits_sat : forall b, snd (otto_number_bits b) = xsat (to_integer_bits b).
Proof.
  intro b. unfold otto_number_bits, to_integer_bits.
  destruct (decode b) as [ | neg | neg m e] eqn:E; cbn [snd xsat].
  - reflexivity.
  - destruct neg; reflexivity.
  - pose proof (trunc_mag_nonneg m e (decode_fin_nonneg _ _ _ _ E)) as Ht.
    destruct (Z.eqb_spec m 0) as [-> | Hm].
    + rewrite trunc_mag_zero. destruct neg; reflexivity.
    + unfold sat64, two63, min_int64, max_int64 in *.
      destruct (Z.leb_spec 9223372036854775808 (trunc_mag m e)); destruct neg; cbn [snd]; brk; lia.
Qed.

Lemma otto_int64_sat : forall v, otto_int64 v = option_map xsat (to_integer v).
Proof.
  intro v. unfold otto_int64. destruct v as [ | | b | z | bits | s | gi gp gf gj gn]; cbn [otto_number to_integer option_map snd xsat]; try reflexivity.
  - destruct b; reflexivity.
  - f_equal. apply otto_int64_bits_sat.
  - destruct s; [reflexivity |]. destruct (parse_digits (z :: s) 0); reflexivity.
Qed.

(* ---------- the clamps ---------- *)
Definition len_ok (len : Z) : Prop := 0 <= len < 2 ^ 53.

Lemma rel_core : forall x len, len_ok len -> valueToRangeIndex (xsat x) len false = clamp_rel x len.
Proof.
  intros x len [H0 H1]. assert (len < 9007199254740992) by (change (2 ^ 53) with 9007199254740992 in H1; lia).
  destruct x as [z | | ]; unfold valueToRangeIndex, clamp_rel, xsat, sat64, two63, min_int64, max_int64; brk; lia.
Qed.

Lemma cnt_core : forall x len, len_ok len -> valueToRangeIndex (xsat x) len true = clamp_cnt x len.
Proof.
  intros x len [H0 H1]. assert (len < 9007199254740992) by (change (2 ^ 53) with 9007199254740992 in H1; lia).
  destruct x as [z | | ]; unfold valueToRangeIndex, clamp_cnt, xsat, sat64, two63, min_int64, max_int64; brk; lia.
Qed.

Lemma indexof_core : forall x len, len_ok len -> otto_indexof_start (xsat x) len = clamp_indexof x len.
Proof.
  intros x len [H0 H1]. assert (len < 9007199254740992) by (change (2 ^ 53) with 9007199254740992 in H1; lia).
  destruct x as [z | | ]; unfold otto_indexof_start, clamp_indexof, xsat, sat64, two63, min_int64, max_int64; brk; try reflexivity; try lia; f_equal; lia.
Qed.

Lemma lastindexof_core : forall x len, len_ok len ->
  otto_lastindexof_start (xsat x) len = clamp_lastindexof x len.
Proof.
  intros x len [H0 H1]. assert (len < 9007199254740992) by (change (2 ^ 53) with 9007199254740992 in H1; lia).
  destruct x as [z | | ]; unfold otto_lastindexof_start, clamp_lastindexof, xsat, sat64, two63, min_int64, max_int64;
    brk; try reflexivity; try lia; f_equal; lia.
Qed.

Theorem rel_agree : forall v len, len_ok len -> otto_rel v len = dia_rel es5 v len.
Proof.
  intros v len H. unfold otto_rel. cbn [dia_rel es5]. rewrite otto_int64_sat.
  destruct (to_integer v); cbn [option_map]; [f_equal; apply rel_core; assumption | reflexivity].
Qed.

Theorem cnt_agree : forall v len, len_ok len -> otto_cnt v len = dia_cnt es5 v len.
Proof.
  intros v len H. unfold otto_cnt. cbn [dia_cnt es5]. rewrite otto_int64_sat.
  destruct (to_integer v); cbn [option_map]; [f_equal; apply cnt_core; assumption | reflexivity].
Qed.

Theorem indexof_agree : forall v len, len_ok len -> otto_indexof v len = dia_indexof es5 v len.
Proof.
  intros v len H. unfold otto_indexof. cbn [dia_indexof es5]. rewrite otto_int64_sat.
  destruct (to_integer v); cbn [option_map]; [f_equal; apply indexof_core; assumption | reflexivity].
Qed.

Theorem lastindexof_agree : forall v len, len_ok len ->
  otto_lastindexof v len = dia_lastindexof es5 v len.
Proof.
  intros v len H. unfold otto_lastindexof. cbn [dia_lastindexof es5]. rewrite otto_int64_sat.
  destruct (to_integer v) as [x | ]; cbn [option_map]; [f_equal; apply lastindexof_core; assumption | reflexivity].
Qed.

(* rangeStartEnd as builtinArraySlice uses it against 15.4.4.10 steps 5-8 *)
Definition slice_range_es5 (args : list val) (len : Z) : option (Z * Z) :=
  match dia_rel es5 (nth 0 args VUndef) len with
  | None => None
  | Some k => match nth 1 args VUndef with
              | VUndef => Some (k, len)
              | e => option_map (fun x => (k, x)) (dia_rel es5 e len)
              end
  end.

Theorem rangeStartEnd_agree : forall args len, len_ok len -> rangeStartEnd args len false = slice_range_es5 args len.
Proof.
  intros args len H. unfold rangeStartEnd, slice_range_es5, otto_range.
  rewrite (rel_agree _ _ H). destruct (dia_rel es5 (nth 0 args VUndef) len) as [k | ]; [ | reflexivity].
  destruct args as [ | a [ | b rest]]; cbn [nth]; try reflexivity.
  destruct b; try reflexivity; rewrite (rel_agree _ _ H); reflexivity.
Qed.

(* ---------- digit strings ---------- *)
Lemma parse_digits_ge : forall l acc n, parse_digits l acc = Some n -> 0 <= acc -> acc <= n.
Proof.
  induction l as [ | c l IH]; intros acc n H Hacc; cbn [parse_digits] in H.
  - inversion H; lia.
  - destruct (is_digit c) eqn:D; [ | discriminate].
    unfold is_digit in D. apply andb_prop in D. destruct D as [D1 D2].
    apply Z.leb_le in D1. apply Z.leb_le in D2.
    apply IH in H; lia.
Qed.

(* ---------- 15.4.5.1 step 3.d: which values are valid lengths ---------- *)
Theorem array_uint32_agree : forall v, otto_array_uint32 v = valid_length v.
Proof.
  intro v. unfold otto_array_uint32.
  destruct v as [ | | b | z | bits | s | gi gp gf gj gn]; cbn [otto_number valid_length]; try reflexivity.
  - destruct b; reflexivity.
  - unfold sat64, two63, min_int64, max_int64, max_index, two32. f_equal. brk; cbn [andb]; try reflexivity; try lia.
  - unfold otto_number_bits. destruct (decode bits) as [ | neg | neg m e] eqn:E; try reflexivity.
    pose proof (trunc_mag_nonneg m e (decode_fin_nonneg _ _ _ _ E)) as Ht.
    destruct (Z.eqb_spec m 0) as [-> | Hm].
    + rewrite trunc_mag_zero. unfold is_integral. destruct (0 <=? e); [reflexivity |].
      rewrite Zmod_0_l. reflexivity.
    + unfold two63, min_int64, max_int64, max_index, two32.
      destruct (Z.leb_spec 9223372036854775808 (trunc_mag m e)).
      * destruct (is_integral m e); cbn [andb]; [ | reflexivity].
        destruct (Z.eqb_spec (trunc_mag m e) 0); [lia |]. destruct neg; [reflexivity |].
        destruct (Z.ltb_spec (trunc_mag m e) 4294967296); [lia | reflexivity].
      * destruct (is_integral m e); cbn [andb]; [ | reflexivity].
        destruct (Z.eqb_spec (trunc_mag m e) 0) as [-> | Hz].
        -- destruct neg; reflexivity.
        -- destruct neg; f_equal; brk; cbn [andb]; try reflexivity; lia.
  - destruct s as [ | c s]; [reflexivity |].
    destruct (parse_digits (c :: s) 0) as [z | ] eqn:P; cbn [option_map]; [ | reflexivity].
    pose proof (parse_digits_ge _ _ _ P ltac:(lia)) as Hz.
    unfold sat64, two63, min_int64, max_int64, max_index, two32. f_equal. brk; cbn [andb]; try reflexivity; lia.
Qed.

(* ---------- names: otto's stringToArrayIndex against the canonical-index test ---------- *)
Lemma zlist_eqb_eq : forall a b, zlist_eqb a b = true -> a = b.
Proof.
  unfold zlist_eqb. induction a as [ | x a IH]; destruct b as [ | y b]; cbn [list_eqb]; intro H; try discriminate; [reflexivity |].
  apply andb_prop in H. destruct H as [H1 H2]. apply Z.eqb_eq in H1. subst. f_equal. apply IH. exact H2.
Qed.

(* no sign, no superfluous leading zero *)
Definition plain (s : list Z) : bool :=
  match s with
  | [] => true
  | c :: r => negb (c =? 43) && negb (c =? 45) && (negb (c =? 48) || match r with [] => true | _ => false end)
  end.

Lemma canon_dec_plain : forall s, plain s = true -> s <> [] -> canon_dec s = parse_digits s 0.
Proof.
  intros [ | c r] H Hne; [congruence |]. cbn [plain] in H.
  apply andb_prop in H. destruct H as [_ H]. unfold canon_dec.
  destruct (Z.eqb_spec c 48) as [-> | Hc].
  - cbn [negb orb] in H. destruct r; [reflexivity | discriminate].
  - destruct c as [ | p | p]; try reflexivity.
    do 6 (destruct p as [p | p | ]; try reflexivity). congruence.
Qed.
