(* The other users of otto_.go's range helpers: String.prototype.slice /
   substring / substr (15.5.4.13, 15.5.4.15, B.2.3) on ASCII strings, and the
   Array constructor (15.4.2), which is the other caller of arrayUint32. *)
From Coq Require Import ZArith Bool List Lia.
From Otto Require Import Common.Corr Common.Double C08.Spec C08.Model.
Import ListNotations.
Open Scope Z_scope.

Definition substring (s : list Z) (from to : Z) : list Z :=
  firstn (Z.to_nat (to - from)) (skipn (Z.to_nat from) s).

Definition int_or (v : val) (dflt : xint) : option xint :=
  match v with VUndef => Some dflt | _ => to_integer v end.

(* ES5; method 0 slice, 1 substring, 2 substr; None = outside the modelled domain *)
Definition str_spec (m : Z) (s : list Z) (args : list val) : option (list Z) :=
  let len := Z.of_nat (length s) in
  match to_integer (nth 0 args VUndef) with
  | None => None
  | Some a =>
      if m =? 0 then
        match int_or (nth 1 args VUndef) XPinf with
        | Some b => let from := clamp_rel a len in
                    let to := match nth 1 args VUndef with VUndef => len | _ => clamp_rel b len end in
                    Some (substring s from (Z.max from to))
        | None => None
        end
      else if m =? 1 then
        match int_or (nth 1 args VUndef) XPinf with
        | Some b => let x := clamp_cnt a len in let y := clamp_cnt b len in
                    Some (substring s (Z.min x y) (Z.max x y))
        | None => None
        end
      else
        match int_or (nth 1 args VUndef) XPinf with
        | Some b => let r5 := clamp_rel a len in
                    let r6 := clamp_cnt b (len - r5) in
                    Some (substring s r5 (r5 + r6))
        | None => None
        end
  end.

(* otto (builtin_string.go); Some None = a Go run-time panic (none is predicted any more) *)
Definition str_model (m : Z) (s : list Z) (args : list val) : option (option (list Z)) :=
  let size := Z.of_nat (length s) in
  if m =? 0 then
    match rangeStartEnd args size false with
    | Some (st, en) => Some (Some (if en - st <=? 0 then [] else substring s st en))
    | None => None
    end
  else if m =? 1 then
    match rangeStartEnd args size true with
    | Some (st, en) => Some (Some (if en <? st then substring s en st else substring s st en))
    | None => None
    end
  else
    match rangeStartLength args size with
    | Some (st, ln) =>
        if size <=? st then Some (Some [])
        else if ln <=? 0 then Some (Some [])
        else
          if size - st <=? ln then Some (Some (substring s st size))
          else Some (Some (substring s st (st + ln)))
    | None => None
    end.

(* 15.4.2: new Array(args) / Array(args); result Ret (RArr slots) up to 64 slots, else the length *)
Definition ctor_result (n : Z) : outcome :=
  if n <=? 64 then Ret (RArr (repeat None (Z.to_nat n))) else Ret (RVal (VNum n)).
Definition is_number (v : val) : bool := match v with VNum _ | VDbl _ => true | _ => false end.
Definition ctor_with (validate : val -> option (option Z)) (args : list val) : option outcome :=
  match args with
  | [v] => if is_number v then
             match validate v with
             | None => None
             | Some None => Some (Thrown 3)
             | Some (Some n) => Some (ctor_result n)
             end
           else Some (Ret (RArr [Some v]))
  | _ => Some (Ret (RArr (map Some args)))
  end.
Definition ctor_spec := ctor_with valid_length.
Definition ctor_model := ctor_with otto_array_uint32.
