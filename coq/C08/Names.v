(* C08 proofs, part 3: KI n faithfully stands for ToString(n): the classification of
   a raw name inverts the decimal printing of every non-negative integer, so the
   15.4.4 algorithms, which address elements by ToString(k), address exactly KI k,
   and ToString(k) is an array index iff k < 2^32 - 1. *)
From Coq Require Import ZArith Bool List Lia.
From Otto Require Import Common.Corr Common.Double C08.Spec C08.Model C08.Proofs.
Import ListNotations.
Open Scope Z_scope.

Fixpoint value_lsd (l : list Z) : Z := match l with [] => 0 | d :: l' => d + 10 * value_lsd l' end.
Definition digits_ok (l : list Z) : Prop := Forall (fun d => 0 <= d <= 9) l.

Lemma lsd_fuel_spec : forall f n, 0 <= n -> n < 2 ^ (Z.of_nat f + 1) ->
  digits_ok (lsd_fuel f n) /\ value_lsd (lsd_fuel f n) = n /\ lsd_fuel f n <> [] /\
  (0 < n -> hd 0 (rev (lsd_fuel f n)) <> 0).
Proof.
  induction f as [ | f IH]; intros n H0 Hlt.
  - change (2 ^ (Z.of_nat 0 + 1)) with 2 in Hlt. cbn [lsd_fuel].
    repeat split; [constructor; [lia | constructor] | cbn; lia | discriminate | cbn; lia].
  - cbn [lsd_fuel]. destruct (Z.ltb_spec n 10) as [Hs | Hb].
    + repeat split; [constructor; [lia | constructor] | cbn; lia | discriminate | cbn; lia].
    + assert (Hq : 0 <= n / 10) by (apply Z.div_pos; lia).
      assert (Hq1 : 0 < n / 10) by (apply Z.div_str_pos; lia).
      assert (Hlt' : n / 10 < 2 ^ (Z.of_nat f + 1)).
      { replace (Z.of_nat (S f) + 1) with (Z.succ (Z.of_nat f + 1)) in Hlt by lia.
        rewrite Z.pow_succ_r in Hlt by lia.
        apply Z.div_lt_upper_bound; lia. }
      destruct (IH (n / 10) Hq Hlt') as (Hd & Hv & Hne & Hh).
      pose proof (Z.mod_pos_bound n 10 ltac:(lia)) as Hm.
      repeat split.
      * constructor; [lia | exact Hd].
      * cbn [value_lsd]. rewrite Hv. pose proof (Z.div_mod n 10 ltac:(lia)). lia.
      * discriminate.
      * intros _. cbn [rev]. specialize (Hh Hq1).
        destruct (rev (lsd_fuel f (n / 10))) as [ | x xs] eqn:R.
        -- exfalso. apply Hne. apply (f_equal (@rev Z)) in R. rewrite rev_involutive in R. exact R.
        -- cbn [app hd] in *. exact Hh.
Qed.

Lemma lsd_spec : forall n, 0 <= n ->
  digits_ok (lsd n) /\ value_lsd (lsd n) = n /\ lsd n <> [] /\ (0 < n -> hd 0 (rev (lsd n)) <> 0).
Proof.
  intros n H0. unfold lsd. apply lsd_fuel_spec; [exact H0 |].
  destruct (Z.eq_dec n 0) as [-> | Hn]; [cbn; lia |].
  rewrite Z2Nat.id by (apply Z.log2_nonneg). apply Z.log2_lt_pow2; lia.
Qed.

Lemma parse_digits_app : forall a b acc,
  parse_digits (a ++ b) acc = match parse_digits a acc with Some x => parse_digits b x | None => None end.
Proof.
  induction a as [ | c a IH]; intros b acc; cbn [app parse_digits]; [reflexivity |].
  destruct (is_digit c); [apply IH | reflexivity].
Qed.

Lemma parse_rev_digits : forall l acc, digits_ok l ->
  parse_digits (map (fun d => 48 + d) (rev l)) acc = Some (acc * 10 ^ Z.of_nat (length l) + value_lsd l).
Proof.
  induction l as [ | d l IH]; intros acc Hok.
  - cbn. f_equal. lia.
  - inversion Hok as [ | ? ? Hd Hl]; subst. cbn [rev]. rewrite map_app, parse_digits_app.
    (* the recursion is on the more significant digits first *)
    revert acc. 
    assert (G : forall acc, parse_digits (map (fun d0 => 48 + d0) (rev l)) acc = Some (acc * 10 ^ Z.of_nat (length l) + value_lsd l)) by (intro; apply IH; exact Hl).
    intro acc. rewrite G. cbn [map parse_digits].
    assert (Hdig : is_digit (48 + d) = true) by (unfold is_digit; apply andb_true_intro; split; apply Z.leb_le; lia).
    rewrite Hdig. f_equal. cbn [length value_lsd]. rewrite Nat2Z.inj_succ, Z.pow_succ_r by lia. lia.
Qed.

Lemma zl_refl : forall a, zlist_eqb a a = true.
Proof. unfold zlist_eqb. induction a; cbn [list_eqb]; [reflexivity |]. rewrite Z.eqb_refl. exact IHa. Qed.

Lemma plain_dec : forall n, 0 <= n -> plain (dec n) = true.
Proof.
  intros n H0. destruct (lsd_spec n H0) as (Hok & _ & Hne & Hh). unfold dec.
  assert (Hrok : Forall (fun d => 0 <= d <= 9) (rev (lsd n))) by (apply Forall_rev; exact Hok).
  destruct (rev (lsd n)) as [ | x xs] eqn:R; [reflexivity |].
  inversion Hrok as [ | ? ? Hx _]; subst. cbn [map plain].
  destruct (Z.eqb_spec (48 + x) 43); [lia |]. destruct (Z.eqb_spec (48 + x) 45); [lia |]. cbn [negb andb].
  destruct (Z.eqb_spec (48 + x) 48) as [E | E]; [ | reflexivity]. cbn [negb orb].
  assert (x = 0) by lia. subst x.
  destruct (Z.eq_dec n 0) as [-> | Hn].
  - vm_compute in R. inversion R; subst. reflexivity.
  - exfalso. apply Hh; [lia | reflexivity].
Qed.

Lemma dec_nonempty : forall n, 0 <= n -> dec n <> [].
Proof.
  intros n H0 E. destruct (lsd_spec n H0) as (_ & _ & Hne & _). unfold dec in E.
  apply map_eq_nil in E. apply (f_equal (@rev Z)) in E. rewrite rev_involutive in E. exact (Hne E).
Qed.

Lemma parse_dec : forall n, 0 <= n -> parse_digits (dec n) 0 = Some n.
Proof.
  intros n H0. destruct (lsd_spec n H0) as (Hok & Hv & _ & _). unfold dec.
  rewrite parse_rev_digits by exact Hok. f_equal. lia.
Qed.

Theorem canon_dec_dec : forall n, 0 <= n -> canon_dec (dec n) = Some n.
Proof.
  intros n H0. rewrite canon_dec_plain; [apply parse_dec; exact H0 | apply plain_dec; exact H0 | apply dec_nonempty; exact H0].
Qed.

Lemma dec_not_length : forall n, 0 <= n -> zlist_eqb (dec n) str_length = false.
Proof.
  intros n H0. destruct (zlist_eqb (dec n) str_length) eqn:E; [ | reflexivity].
  apply zlist_eqb_eq in E. pose proof (canon_dec_dec n H0) as C. rewrite E in C. vm_compute in C. discriminate.
Qed.

(* ToString(n) is classified as KI n, for every integer n >= 0 *)
Theorem key_of_dec : forall n, 0 <= n -> key_of_string (dec n) = KI n.
Proof. intros n H0. unfold key_of_string. rewrite dec_not_length, canon_dec_dec by exact H0. reflexivity. Qed.

(* distinct integers have distinct names *)
Theorem dec_injective : forall a b, 0 <= a -> 0 <= b -> dec a = dec b -> a = b.
Proof.
  intros a b Ha Hb E. pose proof (canon_dec_dec a Ha) as Ca. rewrite E, (canon_dec_dec b Hb) in Ca. congruence.
Qed.

(* ---------- the converse: a canonical decimal string is the printing of its value ---------- *)
Lemma value_lsd_nonneg : forall l, digits_ok l -> 0 <= value_lsd l.
Proof. induction 1; cbn [value_lsd]; lia. Qed.

Lemma value_lsd_pos : forall l, digits_ok l -> l <> [] -> last l 0 <> 0 -> 1 <= value_lsd l.
Proof.
  induction l as [ | d l IH]; intros Hok Hne Hl; [congruence |].
  inversion Hok as [ | ? ? Hd Hok']; subst. destruct l as [ | e l'].
  - cbn in *. lia.
  - change (value_lsd (d :: e :: l')) with (d + 10 * value_lsd (e :: l')). change (last (d :: e :: l') 0) with (last (e :: l') 0) in Hl.
    assert (1 <= value_lsd (e :: l')) by (apply IH; [exact Hok' | discriminate | exact Hl]). lia.
Qed.

Lemma lsd_fuel_unique : forall l f, digits_ok l -> l <> [] -> (last l 0 <> 0 \/ l = [0]) ->
  value_lsd l < 2 ^ (Z.of_nat f + 1) -> lsd_fuel f (value_lsd l) = l.
Proof.
  induction l as [ | d l IH]; intros f Hok Hne Hl Hlt; [congruence |].
  inversion Hok as [ | ? ? Hd Hok']; subst. destruct l as [ | e l'].
  - assert (E : value_lsd [d] = d) by (cbn; lia). rewrite E in *.
    destruct f; cbn [lsd_fuel]; [reflexivity |]. destruct (Z.ltb_spec d 10); [reflexivity | lia].
  - assert (Hl' : last (e :: l') 0 <> 0) by (destruct Hl as [Hl | Hl]; [exact Hl | discriminate]).
    assert (Hv : 1 <= value_lsd (e :: l')) by (apply value_lsd_pos; [exact Hok' | discriminate | exact Hl']).
    set (v := value_lsd (e :: l')) in *.
    assert (E : value_lsd (d :: e :: l') = d + 10 * v) by reflexivity. rewrite E in *.
    destruct f as [ | f'].
    + change (2 ^ (Z.of_nat 0 + 1)) with 2 in Hlt. lia.
    + cbn [lsd_fuel]. destruct (Z.ltb_spec (d + 10 * v) 10); [lia |].
      assert (Hm : (d + 10 * v) mod 10 = d).
      { replace (d + 10 * v) with (d + v * 10) by lia. rewrite Z.mod_add by lia. apply Z.mod_small. lia. }
      assert (Hq : (d + 10 * v) / 10 = v).
      { replace (d + 10 * v) with (d + v * 10) by lia. rewrite Z.div_add by lia. rewrite (Z.div_small d 10) by lia. lia. }
      rewrite Hm, Hq. f_equal. unfold v. apply IH; [exact Hok' | discriminate | left; exact Hl' |].
      fold v. replace (Z.of_nat (S f') + 1) with (Z.succ (Z.of_nat f' + 1)) in Hlt by lia.
      rewrite Z.pow_succ_r in Hlt by lia. lia.
Qed.

Lemma lsd_unique : forall l, digits_ok l -> l <> [] -> (last l 0 <> 0 \/ l = [0]) -> lsd (value_lsd l) = l.
Proof.
  intros l Hok Hne Hl. unfold lsd. apply lsd_fuel_unique; try assumption.
  pose proof (value_lsd_nonneg l Hok) as H0.
  destruct (Z.eq_dec (value_lsd l) 0) as [E | E]; [rewrite E; cbn; lia |].
  rewrite Z2Nat.id by (apply Z.log2_nonneg). apply Z.log2_lt_pow2; lia.
Qed.

Lemma parse_digits_all : forall l acc n, parse_digits l acc = Some n -> Forall (fun c => 48 <= c <= 57) l.
Proof.
  induction l as [ | c l IH]; intros acc n H; [constructor |]. cbn [parse_digits] in H.
  destruct (is_digit c) eqn:D; [ | discriminate]. unfold is_digit in D. apply andb_prop in D. destruct D as [D1 D2].
  apply Z.leb_le in D1. apply Z.leb_le in D2. constructor; [lia | eapply IH; exact H].
Qed.

(* what a successful canon_dec says about the string *)
Lemma canon_dec_cases : forall s n, canon_dec s = Some n ->
  (s = [48] /\ n = 0) \/ (exists c r, s = c :: r /\ c <> 48 /\ parse_digits s 0 = Some n).
Proof.
  intros [ | c r] n H; [discriminate |].
  destruct (Z.eq_dec c 48) as [-> | Hc].
  - destruct r; cbn in H; [left; inversion H; split; reflexivity | discriminate].
  - right. exists c, r. split; [reflexivity | split; [exact Hc |]]. rewrite <- H. symmetry.
    apply canon_dec_plain; [ | discriminate].
    (* c is a digit because the parse succeeds *)
    assert (P : exists m, parse_digits (c :: r) 0 = Some m).
    { unfold canon_dec in H. destruct c as [ | p | p]; try (eexists; exact H).
      do 6 (destruct p as [p | p | ]; try (eexists; exact H)). congruence. }
    destruct P as (m & P). apply parse_digits_all in P. inversion P as [ | ? ? Hd _]; subst.
    cbn [plain]. destruct (Z.eqb_spec c 43); [lia |]. destruct (Z.eqb_spec c 45); [lia |].
    destruct (Z.eqb_spec c 48); [congruence | reflexivity].
Qed.

Theorem canon_dec_inv : forall s n, canon_dec s = Some n -> dec n = s.
Proof.
  intros s n H. destruct (canon_dec_cases s n H) as [(-> & ->) | (c & r & Es & Hc & P)]; [reflexivity |].
  pose proof (parse_digits_all _ _ _ P) as Hall.
  set (l := rev (map (fun x => x - 48) s)).
  assert (Hs : map (fun d => 48 + d) (rev l) = s).
  { unfold l. rewrite rev_involutive, map_map. rewrite <- (map_id s) at 2. apply map_ext. intro a. lia. }
  assert (Hok : digits_ok l).
  { unfold l, digits_ok. apply Forall_rev. apply Forall_map. eapply Forall_impl; [ | exact Hall]. cbn. intros a Ha. lia. }
  assert (Hv : value_lsd l = n).
  { pose proof (parse_rev_digits l 0 Hok) as Q. rewrite Hs, P in Q. inversion Q. lia. }
  assert (Hlast : last l 0 = c - 48).
  { unfold l. rewrite Es. cbn [map rev]. apply last_last. }
  assert (Hne : l <> []).
  { unfold l. rewrite Es. cbn [map rev]. intro E. apply app_eq_nil in E. destruct E as [_ E]. discriminate. }
  assert (Hl : lsd n = l) by (rewrite <- Hv; apply lsd_unique; [exact Hok | exact Hne | left; rewrite Hlast; lia]).
  unfold dec. rewrite Hl. exact Hs.
Qed.

(* ---------- stringToArrayIndex is the ES5 array-index test, for every string ---------- *)
Lemma otto_parse_dec : forall n, 0 <= n -> otto_parse_int (dec n) = if max_int64 <? n then None else Some n.
Proof.
  intros n H0. pose proof (plain_dec n H0) as Hp. pose proof (dec_nonempty n H0) as Hne. pose proof (parse_dec n H0) as P.
  unfold otto_parse_int. destruct (dec n) as [ | c r] eqn:E; [congruence |].
  cbn [plain] in Hp. apply andb_prop in Hp. destruct Hp as [Hp _]. apply andb_prop in Hp. destruct Hp as [H1 H2].
  destruct (c =? 43); [discriminate |]. destruct (c =? 45); [discriminate |].
  rewrite P. unfold min_int64, max_int64. brk; cbn [orb]; try reflexivity; lia.
Qed.

Theorem array_index_all : forall s, stringToArrayIndex s = array_index (key_of_string s).
Proof.
  intro s. destruct (canon_dec s) as [n | ] eqn:C.
  - (* a canonical decimal string: s = dec n *)
    pose proof (canon_dec_inv s n C) as <-.
    assert (H0 : 0 <= n).
    { destruct (canon_dec_cases _ _ C) as [(_ & ->) | (c & r & _ & _ & P)]; [lia |]. exact (parse_digits_ge _ _ _ P ltac:(lia)). }
    rewrite key_of_dec by exact H0. cbn [array_index]. unfold stringToArrayIndex. rewrite otto_parse_dec by exact H0.
    unfold max_int64, max_index. destruct (Z.ltb_spec 9223372036854775807 n).
    + destruct (Z.ltb_spec n 4294967295); [lia | reflexivity].
    + rewrite zl_refl. brk; try reflexivity; lia.
  - (* anything else is not an index for ES5, and otto's final comparison rejects it *)
    assert (Hspec : array_index (key_of_string s) = None).
    { unfold key_of_string. destruct (zlist_eqb s str_length); [reflexivity |]. rewrite C. reflexivity. }
    rewrite Hspec. unfold stringToArrayIndex. destruct (otto_parse_int s) as [i | ]; [ | reflexivity].
    destruct (Z.ltb_spec i 0); [reflexivity |]. destruct (max_index <=? i); [reflexivity |].
    destruct (zlist_eqb (dec i) s) eqn:E; [ | reflexivity].
    apply zlist_eqb_eq in E. rewrite <- E in C. rewrite canon_dec_dec in C by lia. discriminate C.
Qed.

(* arrayDefineOwnProperty sees an index in a name exactly when ES5 does *)
Theorem key_index_agree : forall k, otto_key_index k = array_index k \/ exists s, k = KS s /\ canon_dec s <> None.
Proof.
  intros [n | | s]; [left; reflexivity | left; reflexivity |].
  destruct (canon_dec s) eqn:C; [right; exists s; split; [reflexivity | rewrite C; discriminate] |].
  left. cbn [otto_key_index array_index]. rewrite array_index_all. unfold key_of_string.
  destruct (zlist_eqb s str_length); [reflexivity |]. rewrite C. reflexivity.
Qed.

(* ToString(n) is an array index exactly below 2^32 - 1 (15.4), and stringToArrayIndex agrees *)
Theorem dec_array_index : forall n, 0 <= n ->
  array_index (key_of_string (dec n)) = (if n <? max_index then Some n else None) /\
  stringToArrayIndex (dec n) = (if n <? max_index then Some n else None).
Proof.
  intros n H0. rewrite array_index_all, key_of_dec by exact H0. split; reflexivity.
Qed.

(* on every name a script can write, arrayDefineOwnProperty sees an index exactly when ES5 does *)
Theorem key_index_of_string : forall s, otto_key_index (key_of_string s) = array_index (key_of_string s).
Proof.
  intro s. unfold key_of_string. destruct (zlist_eqb s str_length) eqn:L; [reflexivity |].
  destruct (canon_dec s) as [n | ] eqn:C; [reflexivity |].
  cbn [otto_key_index array_index]. rewrite array_index_all. unfold key_of_string. rewrite L, C. reflexivity.
Qed.

(* a canonical decimal string is the printing of its value and nothing else is *)
Theorem canonical_names : forall s n, canon_dec s = Some n <-> (0 <= n /\ dec n = s).
Proof.
  intros s n; split.
  - intro H. split; [ | exact (canon_dec_inv s n H)].
    destruct (canon_dec_cases _ _ H) as [(_ & ->) | (c & r & _ & _ & P)]; [lia |]. exact (parse_digits_ge _ _ _ P ltac:(lia)).
  - intros (Hn & <-). exact (canon_dec_dec n Hn).
Qed.
