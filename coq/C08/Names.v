(* C08 proofs, part 3: KI n faithfully stands for ToString(n): the classification of
   a raw name inverts the decimal printing of every non-negative integer, so the
   15.4.4 algorithms, which address elements by ToString(k), address exactly KI k,
   and ToString(k) is an array index iff k < 2^32 - 1. *)
From Coq Require Import ZArith Bool List Lia.
From Otto Require Import Common.Corr Common.Double C08.Spec C08.Model C08.Proofs.
Import ListNotations.
Open Scope Z_scope.

Fixpoint value_lsd (l : list Z) : Z := match l with [] => 0 | d :: l' => d + 10 * value_lsd l' end.
Definition digits_ok (l : list Z) : Prop := Forall (fun d => 0 <= d <= 9) l.

Lemma lsd_fuel_spec : forall f n, 0 <= n -> n < 2 ^ (Z.of_nat f + 1) ->
  digits_ok (lsd_fuel f n) /\ value_lsd (lsd_fuel f n) = n /\ lsd_fuel f n <> [] /\
  (0 < n -> hd 0 (rev (lsd_fuel f n)) <> 0).
Proof.
  induction f as [ | f IH]; intros n H0 Hlt.
  - change (2 ^ (Z.of_nat 0 + 1)) with 2 in Hlt. cbn [lsd_fuel].
    repeat split; [constructor; [lia | constructor] | cbn; lia | discriminate | cbn; lia].
  - cbn [lsd_fuel]. destruct (Z.ltb_spec n 10) as [Hs | Hb].
    + repeat split; [constructor; [lia | constructor] | cbn; lia | discriminate | cbn; lia].
    + assert (Hq : 0 <= n / 10) by (apply Z.div_pos; lia).
      assert (Hq1 : 0 < n / 10) by (apply Z.div_str_pos; lia).
      assert (Hlt' : n / 10 < 2 ^ (Z.of_nat f + 1)).
      { replace (Z.of_nat (S f) + 1) with (Z.succ (Z.of_nat f + 1)) in Hlt by lia.
        rewrite Z.pow_succ_r in Hlt by lia.
        apply Z.div_lt_upper_bound; lia. }
      destruct (IH (n / 10) Hq Hlt') as (Hd & Hv & Hne & Hh).
      pose proof (Z.mod_pos_bound n 10 ltac:(lia)) as Hm.
      repeat split.
      * constructor; [lia | exact Hd].
      * cbn [value_lsd]. rewrite Hv. pose proof (Z.div_mod n 10 ltac:(lia)). lia.
      * discriminate.
      * intros _. cbn [rev]. specialize (Hh Hq1).
        destruct (rev (lsd_fuel f (n / 10))) as [ | x xs] eqn:R.
        -- exfalso. apply Hne. apply (f_equal (@rev Z)) in R. rewrite rev_involutive in R. exact R.
        -- cbn [app hd] in *. exact Hh.
Qed.

Lemma lsd_spec : forall n, 0 <= n ->
  digits_ok (lsd n) /\ value_lsd (lsd n) = n /\ lsd n <> [] /\ (0 < n -> hd 0 (rev (lsd n)) <> 0).
Proof.
  intros n H0. unfold lsd. apply lsd_fuel_spec; [exact H0 |].
  destruct (Z.eq_dec n 0) as [-> | Hn]; [cbn; lia |].
  rewrite Z2Nat.id by (apply Z.log2_nonneg). apply Z.log2_lt_pow2; lia.
Qed.

Lemma parse_digits_app : forall a b acc,
  parse_digits (a ++ b) acc = match parse_digits a acc with Some x => parse_digits b x | None => None end.
Proof.
  induction a as [ | c a IH]; intros b acc; cbn [app parse_digits]; [reflexivity |].
  destruct (is_digit c); [apply IH | reflexivity].
Qed.

Lemma parse_rev_digits : forall l acc, digits_ok l ->
  parse_digits (map (fun d => 48 + d) (rev l)) acc = Some (acc * 10 ^ Z.of_nat (length l) + value_lsd l).
Proof.
  induction l as [ | d l IH]; intros acc Hok.
  - cbn. f_equal. lia.
  - inversion Hok as [ | ? ? Hd Hl]; subst. cbn [rev]. rewrite map_app, parse_digits_app.
    (* the recursion is on the more significant digits first *)
    revert acc. 
    assert (G : forall acc, parse_digits (map (fun d0 => 48 + d0) (rev l)) acc = Some (acc * 10 ^ Z.of_nat (length l) + value_lsd l)) by (intro; apply IH; exact Hl).
    intro acc. rewrite G. cbn [map parse_digits].
    assert (Hdig : is_digit (48 + d) = true) by (unfold is_digit; apply andb_true_intro; split; apply Z.leb_le; lia).
    rewrite Hdig. f_equal. cbn [length value_lsd]. rewrite Nat2Z.inj_succ, Z.pow_succ_r by lia. lia.
Qed.

Theorem canon_dec_dec : forall n, 0 <= n -> canon_dec (dec n) = Some n.
Proof.
  intros n H0. destruct (lsd_spec n H0) as (Hok & Hv & Hne & Hh). unfold dec.
  assert (Hs : map (fun d => 48 + d) (rev (lsd n)) <> []).
  { intro E. apply map_eq_nil in E. apply (f_equal (@rev Z)) in E. rewrite rev_involutive in E. exact (Hne E). }
  rewrite canon_dec_plain; [rewrite parse_rev_digits by exact Hok; f_equal; lia | | exact Hs].
  (* plain: the first character is a digit, and it is '0' only for "0" itself *)
  assert (Hrok : Forall (fun d => 0 <= d <= 9) (rev (lsd n))) by (apply Forall_rev; exact Hok).
  destruct (rev (lsd n)) as [ | x xs] eqn:R; [reflexivity |].
  inversion Hrok as [ | ? ? Hx _]; subst. cbn [map plain].
  destruct (Z.eqb_spec (48 + x) 43); [lia |]. destruct (Z.eqb_spec (48 + x) 45); [lia |]. cbn [negb andb].
  destruct (Z.eqb_spec (48 + x) 48) as [E | E]; [ | reflexivity]. cbn [negb orb].
  assert (x = 0) by lia. subst x.
  destruct (Z.eq_dec n 0) as [-> | Hn].
  - vm_compute in R. inversion R; subst. reflexivity.
  - exfalso. apply Hh; [lia | reflexivity].
Qed.

Lemma dec_not_length : forall n, 0 <= n -> zlist_eqb (dec n) str_length = false.
Proof.
  intros n H0. destruct (zlist_eqb (dec n) str_length) eqn:E; [ | reflexivity].
  apply zlist_eqb_eq in E. pose proof (canon_dec_dec n H0) as C. rewrite E in C. vm_compute in C. discriminate.
Qed.

(* ToString(n) is classified as KI n, for every integer n >= 0 ... *)
Theorem key_of_dec : forall n, 0 <= n -> key_of_string (dec n) = KI n.
Proof. intros n H0. unfold key_of_string. rewrite dec_not_length, canon_dec_dec by exact H0. reflexivity. Qed.

(* ... it is an array index exactly below 2^32 - 1 (15.4), and otto's stringToArrayIndex agrees on it *)
Theorem dec_array_index : forall n, 0 <= n ->
  array_index (key_of_string (dec n)) = (if n <? max_index then Some n else None) /\
  stringToArrayIndex (dec n) = (if n <? max_index then Some n else None).
Proof.
  intros n H0. assert (H : array_index (key_of_string (dec n)) = if n <? max_index then Some n else None)
    by (rewrite key_of_dec by exact H0; reflexivity).
  split; [exact H |]. rewrite <- H. apply array_index_plain.
  (* plain (dec n) *)
  destruct (lsd_spec n H0) as (Hok & _ & Hne & Hh). unfold dec.
  assert (Hrok : Forall (fun d => 0 <= d <= 9) (rev (lsd n))) by (apply Forall_rev; exact Hok).
  destruct (rev (lsd n)) as [ | x xs] eqn:R; [reflexivity |].
  inversion Hrok as [ | ? ? Hx _]; subst. cbn [map plain].
  destruct (Z.eqb_spec (48 + x) 43); [lia |]. destruct (Z.eqb_spec (48 + x) 45); [lia |]. cbn [negb andb].
  destruct (Z.eqb_spec (48 + x) 48) as [E | E]; [ | reflexivity]. cbn [negb orb].
  assert (x = 0) by lia. subst x.
  destruct (Z.eq_dec n 0) as [-> | Hn].
  - vm_compute in R. inversion R; subst. reflexivity.
  - exfalso. apply Hh; [lia | reflexivity].
Qed.

(* distinct integers have distinct names *)
Theorem dec_injective : forall a b, 0 <= a -> 0 <= b -> dec a = dec b -> a = b.
Proof.
  intros a b Ha Hb E. pose proof (canon_dec_dec a Ha) as Ca. rewrite E, (canon_dec_dec b Hb) in Ca. congruence.
Qed.
