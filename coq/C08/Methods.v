(* C08 proofs, part 5: the Array.prototype methods of the model of otto against the
   15.4.4 algorithms.  builtin_array.go codes each method as the ES5 step list; what is
   otto's own are the numeric clamps (otto_.go) and the array [[DefineOwnProperty]]
   (type_array.go).  Here: with otto's clamps in place of the ES5 ones every method
   computes the same result, state and callback log, for every receiver (array or
   array-like, any length value), every argument list and every callback script,
   whatever [[DefineOwnProperty]] is plugged in.  (Refine.v relates the two
   [[DefineOwnProperty]] functions.) *)
From Coq Require Import ZArith Bool List Lia.
From Otto Require Import Common.Corr Common.Double C08.Spec C08.Model C08.Proofs.
Import ListNotations.
Open Scope Z_scope.

Definition define_fn := obj -> key -> desc -> bool -> obj * dres.
(* otto's clamps / the ES5 clamps around one and the same [[DefineOwnProperty]] *)
Definition with_otto_clamps (df : define_fn) : dialect := mkDia df otto_rel otto_cnt otto_indexof otto_lastindexof.
Definition with_es5_clamps (df : define_fn) : dialect :=
  mkDia df (dia_rel es5) (dia_cnt es5) (dia_indexof es5) (dia_lastindexof es5).

Lemma bind_ext : forall A B (m : M A) (f g : A -> M B),
  (forall a s, f a s = g a s) -> forall s, bind m f s = bind m g s.
Proof. intros A B m f g H s. unfold bind. destruct (m s); [apply H | reflexivity]. Qed.

Lemma opt_m_ext : forall A B (o : option A) (f g : A -> M B),
  (forall a, o = Some a -> forall s, f a s = g a s) -> forall s, bind (opt_m o) f s = bind (opt_m o) g s.
Proof. intros A B [a | ] f g H s; unfold bind, opt_m, ret, throw; [apply H; reflexivity | reflexivity]. Qed.

Lemma to_uint32_range : forall v n, to_uint32 v = Some n -> 0 <= n < 2 ^ 53.
Proof.
  intros v n. unfold to_uint32. change (2 ^ 53) with 9007199254740992.
  destruct (to_integer v) as [[z | | ] | ]; intro H; inversion H; subst; try lia.
  pose proof (Z.mod_pos_bound z two32 ltac:(unfold two32; lia)). unfold two32 in *. lia.
Qed.

Lemma m_len_ext : forall D B (f g : Z -> M B),
  (forall len, 0 <= len < 2 ^ 53 -> forall s, f len s = g len s) -> forall s, bind (m_len D) f s = bind (m_len D) g s.
Proof.
  intros D B f g H s.
  pose (s1 := if s_lg s then mkS (s_o s) (s_log s ++ [[VNum 9]]) (s_cb s) true (s_args s) else s).
  assert (E0 : m_len D s = bind (m_get D KLen) (fun v => opt_m (to_uint32 v)) s1) by reflexivity.
  unfold bind at 1 2. rewrite E0. unfold bind.
  destruct (m_get D KLen s1) as [v s2 | c s2]; [ | reflexivity].
  destruct (to_uint32 v) as [n | ] eqn:E; unfold opt_m, ret, throw; [ | reflexivity].
  apply H. eapply to_uint32_range. exact E.
Qed.

Lemma es5_rel_range : forall v len k, 0 <= len -> dia_rel es5 v len = Some k -> 0 <= k <= len.
Proof.
  intros v len k Hl. cbn [dia_rel es5]. destruct (to_integer v) as [[r | | ] | ]; cbn [option_map clamp_rel]; intro H; inversion H; subst; try lia.
  destruct (Z.ltb_spec r 0); lia.
Qed.

Section Clamps.
Variable df : define_fn.
Let D1 := with_otto_clamps df.
Let D2 := with_es5_clamps df.

Theorem slice_clamps : forall args s, m_slice D1 args s = m_slice D2 args s.
Proof.
  intros args s. unfold m_slice. change (m_len D2) with (m_len D1). apply m_len_ext. intros len Hlen s1.
  apply bind_ext. intros sv s2. cbn [dia_rel D1 D2 with_otto_clamps with_es5_clamps].
  rewrite (rel_agree sv len Hlen). apply bind_ext. intros k s3. apply bind_ext. intros ev s4.
  destruct ev; try reflexivity; rewrite (rel_agree _ len Hlen); reflexivity.
Qed.

Theorem splice_clamps : forall args s, m_splice D1 args s = m_splice D2 args s.
Proof.
  intros args s. unfold m_splice. change (m_len D2) with (m_len D1). apply m_len_ext. intros len Hlen s1.
  apply bind_ext. intros sv s2. cbn [dia_rel dia_cnt D1 D2 with_otto_clamps with_es5_clamps].
  rewrite (rel_agree sv len Hlen). apply opt_m_ext. intros start Hs s3.
  apply es5_rel_range in Hs; [ | lia].
  destruct args as [ | a0 [ | a1 rest]]; try reflexivity.
  assert (Hb : len_ok (len - start)) by (unfold len_ok; lia).
  match goal with |- bind (bind ?m ?h) ?f _ = bind (bind ?m ?h') ?f' _ =>
    assert (E : forall s, bind m h s = bind m h' s) by (apply bind_ext; intros dv s'; rewrite (cnt_agree dv _ Hb); reflexivity)
  end.
  unfold bind at 1 3. rewrite E. reflexivity.
Qed.

Theorem indexof_clamps : forall args s, m_indexof D1 args s = m_indexof D2 args s.
Proof.
  intros args s. unfold m_indexof. change (m_len D2) with (m_len D1). apply m_len_ext. intros len Hlen s1.
  apply bind_ext. intros x s2. destruct (len =? 0); [reflexivity |].
  destruct (nth_arg args 1) as [a | ]; [ | reflexivity].
  cbn [dia_indexof D1 D2 with_otto_clamps with_es5_clamps].
  match goal with |- bind (bind ?m ?h) ?f _ = bind (bind ?m ?h') ?f' _ =>
    assert (E : forall s, bind m h s = bind m h' s) by (apply bind_ext; intros v s'; rewrite (indexof_agree v _ Hlen); reflexivity)
  end.
  unfold bind at 1 3. rewrite E. reflexivity.
Qed.

Theorem lastindexof_clamps : forall args s, m_lastindexof D1 args s = m_lastindexof D2 args s.
Proof.
  intros args s. unfold m_lastindexof. change (m_len D2) with (m_len D1). apply m_len_ext. intros len Hlen s1.
  apply bind_ext. intros x s2.
  destruct (len =? 0); [reflexivity |].
  destruct (nth_arg args 1) as [a | ]; [ | reflexivity].
  cbn [dia_lastindexof D1 D2 with_otto_clamps with_es5_clamps].
  match goal with |- bind (bind ?m ?h) ?f _ = bind (bind ?m ?h') ?f' _ =>
    assert (E : forall s, bind m h s = bind m h' s) by (apply bind_ext; intros v s'; rewrite (lastindexof_agree v _ Hlen); reflexivity)
  end.
  unfold bind at 1 3. rewrite E. reflexivity.
Qed.

(* the other sixteen methods do not use the clamps at all *)
Theorem other_methods_clamps :
  m_join D1 = m_join D2 /\ m_pop D1 = m_pop D2 /\ m_push D1 = m_push D2 /\ m_reverse D1 = m_reverse D2 /\
  m_shift D1 = m_shift D2 /\ m_unshift D1 = m_unshift D2 /\ m_every D1 = m_every D2 /\ m_some D1 = m_some D2 /\
  m_foreach D1 = m_foreach D2 /\ m_map D1 = m_map D2 /\ m_filter D1 = m_filter D2 /\
  m_reduce D1 = m_reduce D2 /\ m_reduceright D1 = m_reduceright D2 /\ m_concat D1 = m_concat D2 /\
  m_tostring D1 = m_tostring D2 /\ m_tolocalestring D1 = m_tolocalestring D2.
Proof. repeat split. Qed.

(* every method of the table *)
Theorem methods_clamps : forall m args s,
  match method D1 m, method D2 m with
  | Some f1, Some f2 => f1 args s = f2 args s
  | None, None => True
  | _, _ => False
  end.
Proof.
  intros m args s.
  assert (Hm : (m < 0 \/ 19 < m) \/ In m [0; 1; 2; 3; 4; 5; 6; 7; 8; 9; 10; 11; 12; 13; 14; 15; 16; 17; 18; 19]).
  { destruct (Z_lt_dec m 0); [left; left; assumption |]. destruct (Z_lt_dec 19 m); [left; right; assumption |].
    right. cbn [In]. lia. }
  destruct Hm as [Hout | Hin].
  - assert (E1 : method D1 m = None) by (destruct m as [ | p | p]; [lia | | reflexivity];
      do 5 (destruct p as [p | p | ]; try reflexivity; try lia)).
    assert (E2 : method D2 m = None) by (destruct m as [ | p | p]; [lia | | reflexivity];
      do 5 (destruct p as [p | p | ]; try reflexivity; try lia)).
    rewrite E1, E2. exact I.
  - cbn [In] in Hin.
    repeat (destruct Hin as [<- | Hin]; [cbn [method]; first [reflexivity | apply slice_clamps | apply splice_clamps | apply indexof_clamps | apply lastindexof_clamps] | ]).
    contradiction.
Qed.
End Clamps.
