(* correspondence cases for C08: a receiver (array or array-like, with an
   optional set of inherited index properties), a history of operations on it,
   and what the harness observed on the real interpreter after every step:
   result or error class, the complete list of own properties with their
   attributes, the extensible flag, and the callback log. *)
From Coq Require Import ZArith Bool List.
From Otto Require Import Common.Corr Common.Double C08.Model C08.Sort C08.Str.
From Otto Require Export C08.Spec.
Import ListNotations.
Open Scope Z_scope.

Inductive case :=
| CHist (init : obj) (ops : list op) (observed : list obs)
| CSort (elems : list (option val)) (cmp : Z) (observed : list (option val))
| CStr (m : Z) (s : list Z) (args : list val) (observed : option (list Z))      (* None = Go panic / error *)
| CCtor (args : list val) (observed : outcome)
| CLoc (cs cn cb : Z) (init : obj) (observed : outcome * list (list val)).

Definition oval_eqb := option_eqb val_eqb.
Definition rv_eqb (a b : rv) : bool :=
  match a, b with
  | RVal x, RVal y => val_eqb x y
  | RArr x, RArr y => list_eqb oval_eqb x y
  | RThis, RThis => true
  | _, _ => false
  end.
Definition outcome_eqb (a b : outcome) : bool :=
  match a, b with
  | Ret x, Ret y => rv_eqb x y
  | Thrown x, Thrown y => x =? y
  | _, _ => false
  end.
Definition kp_eqb (a b : key * prop) : bool := key_eqb (fst a) (fst b) && prop_eqb (snd a) (snd b).
Definition obs_eqb (a b : obs) : bool :=
  let '(oa, (pa, ea), la) := a in
  let '(ob, (pb, eb), lb) := b in
  outcome_eqb oa ob && list_eqb kp_eqb pa pb && Bool.eqb ea eb && list_eqb (list_eqb val_eqb) la lb.
Definition obsl_eqb := list_eqb obs_eqb.

(* no finding of C08 is open: every departure from ES5 is a violation (class 0) *)
Definition verdict (c : case) : Z * Z :=
  match c with
  | CHist init ops observed =>
      let s := run es5 init ops in
      let m := run otto init ops in
      if declines s || declines m then declined
      else judge obsl_eqb observed m s 0
  | CSort elems cmp observed =>
      match sort_model elems cmp with
      | None => declined
      | Some m =>
          let good := sorted_perm cmp elems observed in
          if list_eqb oval_eqb observed m then (if good then (0, 0) else (1, 20))
          else if good then (2, 20) else (3, 20)
      end
  | CStr m s args observed =>
      match str_spec m s args, str_model m s args with
      | Some sp, Some mo => judge (option_eqb zlist_eqb) observed mo (Some sp) 0
      | _, _ => declined
      end
  | CLoc cs cn cb init observed =>
      let sp := run_locale es5 (cs, cn, cb) init in
      let mo := run_locale otto (cs, cn, cb) init in
      match fst sp with
      | Thrown (-1) => declined
      | _ => judge (fun a b => outcome_eqb (fst a) (fst b) && list_eqb (list_eqb val_eqb) (snd a) (snd b)) observed mo sp 0
      end
  | CCtor args observed =>
      match ctor_spec args, ctor_model args with
      | Some sp, Some mo => judge outcome_eqb observed mo sp 0
      | _, _ => declined
      end
  end.
