(* C14 — the executable comparison of an observation with the ES5 table.
   One comparison serves both routes: the translator route builds the
   observation of an entry by looking it up in a dump ([observe]); the
   correspondence route receives the same record from the harness, which
   observed it by direct property access in some runtime configuration. *)
From Coq Require Import List ZArith Bool String.
From Otto Require Import C14.Shape C14.Es5Table.
Import ListNotations.
Open Scope Z_scope.
Open Scope string_scope.

(* what getOwnPropertyDescriptor shows of one property *)
Record pobs := mkPO { po_kind : pkind; po_val : val; po_set : val; po_w : bool; po_e : bool; po_c : bool }.
(* what is visible of the object a property holds *)
Record vobs := mkVO { vo_typeof : string; vo_class : string; vo_proto : val; vo_ext : bool;
                      vo_len : option pobs;       (* its own [length] property *)
                      vo_hasproto : bool }.       (* has an own [prototype] property *)
Record eobs := mkEO { eo_prop : option pobs; eo_obj : option vobs }.

Definition pobs_of (p : prop) : pobs := mkPO (p_kind p) (p_val p) (p_set p) (p_w p) (p_e p) (p_c p).

Definition vobs_of (d : dump) (path : string) : option vobs :=
  match find_obj d path with
  | None => None
  | Some o => Some (mkVO (o_typeof o) (o_class o) (o_proto o) (o_ext o)
                         (option_map pobs_of (find_prop d path "length"))
                         (match find_prop d path "prototype" with Some _ => true | None => false end))
  end.

Definition observe (d : dump) (owner name : string) : eobs :=
  match find_prop d owner name with
  | None => mkEO None None
  | Some p => mkEO (Some (pobs_of p))
                   (match p_kind p, p_val p with PData, VObj path => vobs_of d path | _, _ => None end)
  end.

Definition flag (b : bool) (what : string) : list string := if b then [] else [what].

(* function-object checks of clause 15 / 13.2 *)
Definition fun_fails (len : Z) (is_ctor : bool) (v : val) (o : option vobs) : list string :=
  match v, o with
  | VObj _, Some f =>
      flag (String.eqb (vo_typeof f) "function") "fn:typeof" ++
      flag (String.eqb (vo_class f) "Function") "fn:class" ++
      flag (val_eqb (vo_proto f) fp) "fn:proto" ++
      flag (vo_ext f) "fn:extensible" ++
      match vo_len f with
      | None => ["fn:length-missing"]
      | Some l =>
          flag (pkind_eqb (po_kind l) PData && val_eqb (po_val l) (VNum (dbl len))) "fn:length" ++
          flag (negb (po_w l) && negb (po_e l) && negb (po_c l)) "fn:length-attrs"
      end ++
      flag (is_ctor || negb (vo_hasproto f)) "fn:has-prototype"
  | _, _ => ["value"]
  end.

Definition value_fails (x : expect) (p : pobs) (o : option vobs) : list string :=
  match x with
  | EFun len => flag (pkind_eqb (po_kind p) PData) "kind" ++ fun_fails len false (po_val p) o
  | ECtor len => flag (pkind_eqb (po_kind p) PData) "kind" ++ fun_fails len true (po_val p) o
  | ENum b => flag (pkind_eqb (po_kind p) PData) "kind" ++ flag (val_eqb (po_val p) (VNum b)) "value"
  | EStr s => flag (pkind_eqb (po_kind p) PData) "kind" ++ flag (val_eqb (po_val p) (VStr s)) "value"
  | EBool b => flag (pkind_eqb (po_kind p) PData) "kind" ++ flag (val_eqb (po_val p) (VBool b)) "value"
  | EUndef => flag (pkind_eqb (po_kind p) PData) "kind" ++ flag (val_eqb (po_val p) VUndef) "value"
  | ENull => flag (pkind_eqb (po_kind p) PData) "kind" ++ flag (val_eqb (po_val p) VNull) "value"
  | ERef path => flag (pkind_eqb (po_kind p) PData) "kind" ++ flag (val_eqb (po_val p) (VObj path)) "value"
  | EAnyObj => flag (pkind_eqb (po_kind p) PData) "kind" ++
               flag (match po_val p with VObj _ => true | _ => false end) "value"
  | EAcc => flag (pkind_eqb (po_kind p) PAcc) "kind"
  | EGetSet g s =>
      flag (pkind_eqb (po_kind p) PAcc) "kind" ++
      flag (match po_val p with VObj _ => g | VUndef => negb g | _ => false end) "get" ++
      flag (match po_set p with VObj _ => s | VUndef => negb s | _ => false end) "set"
  end.

Definition is_acc (x : expect) : bool :=
  match x with EAcc | EGetSet _ _ => true | _ => false end.

(* the list of checks an entry fails on an observation; [] = conforms *)
Definition entry_fails (e : entry) (o : eobs) : list string :=
  match eo_prop o with
  | None => ["missing"]
  | Some p =>
      value_fails (e_exp e) p (eo_obj o) ++
      if e_attrs e then
        (if is_acc (e_exp e) then [] else flag (Bool.eqb (po_w p) (e_w e)) "writable") ++
        flag (Bool.eqb (po_e p) (e_e e)) "enumerable" ++
        flag (Bool.eqb (po_c p) (e_c e)) "configurable"
      else []
  end.

Definition oentry_fails (oe : oentry) (o : option obj) : list string :=
  match o with
  | None => ["missing"]
  | Some x =>
      flag (String.eqb (o_typeof x) (oe_typeof oe)) "typeof" ++
      flag (String.eqb (o_class x) (oe_class oe)) "class" ++
      flag (val_eqb (o_proto x) (oe_proto oe)) "proto" ++
      flag (Bool.eqb (o_ext x) (oe_ext oe)) "extensible" ++
      flag (match oe_prim oe with VUndef => true | v => val_eqb (o_prim x) v end) "primitive"
  end.

(* ---- modulo the recorded deviations ---- *)
Definition excused_by (xs : list exc) (owner name what : string) : option Z :=
  option_map x_class
    (find (fun x => String.eqb (x_owner x) owner && String.eqb (x_name x) name && String.eqb (x_what x) what) xs).

Definition excused (xs : list exc) (owner name what : string) : bool :=
  match excused_by xs owner name what with Some _ => true | None => false end.

Definition unexcused (xs : list exc) (owner name : string) (fails : list string) : list string :=
  filter (fun w => negb (excused xs owner name w)) fails.

(* the failures the faithful model of otto predicts for an entry: those listed *)
Definition predicted (xs : list exc) (owner name : string) : list string :=
  map x_what (filter (fun x => String.eqb (x_owner x) owner && String.eqb (x_name x) name) xs).

Definition entry_ok (xs : list exc) (d : dump) (e : entry) : bool :=
  match unexcused xs (e_owner e) (e_name e) (entry_fails e (observe d (e_owner e) (e_name e))) with
  | [] => true | _ => false end.

Definition oentry_ok (xs : list exc) (d : dump) (oe : oentry) : bool :=
  match unexcused xs (oe_path oe) "" (oentry_fails oe (find_obj d (oe_path oe))) with
  | [] => true | _ => false end.

(* diagnosis: every (owner, name, failed check) that is not excused *)
Definition failing (xs : list exc) (d : dump) : list (string * string * string) :=
  flat_map (fun e => map (fun w => (e_owner e, e_name e, w))
                         (unexcused xs (e_owner e) (e_name e) (entry_fails e (observe d (e_owner e) (e_name e)))))
           all_props ++
  flat_map (fun oe => map (fun w => (oe_path oe, "[[object]]", w))
                          (unexcused xs (oe_path oe) "" (oentry_fails oe (find_obj d (oe_path oe)))))
           all_objs.

(* listed deviations that the dump does not show (informational) *)
Definition stale (xs : list exc) (d : dump) : list (string * string * string) :=
  flat_map (fun x =>
    let fails :=
      if String.eqb (x_name x) "" then
        flat_map (fun oe => if String.eqb (oe_path oe) (x_owner x) then oentry_fails oe (find_obj d (oe_path oe)) else []) all_objs
      else
        flat_map (fun e => if String.eqb (e_owner e) (x_owner x) && String.eqb (e_name e) (x_name x)
                           then entry_fails e (observe d (e_owner e) (e_name e)) else []) all_props in
    if existsb (String.eqb (x_what x)) fails then [] else [(x_owner x, x_name x, x_what x)]) xs.

(* ---- enumerability of everything built in ---- *)
(* properties the host or a loaded library adds are not ES5's: the [console]
   object of otto, the harness's own [$native] function, underscore's [_] *)
Definition host_roots : list string := ["console"; "$native"; "_"; "spec"].
Definition host_owned (owner name : string) : bool :=
  existsb (fun r => under r owner || (String.eqb owner "global" && String.eqb name r)) host_roots.

Definition nonenum_ok (p : prop) : bool := host_owned (p_owner p) (p_name p) || negb (p_e p).

(* 15.2.3.3: getOwnPropertyDescriptor returns for every own property; the
   recorded deviation (class 7) concerns only [caller] / [stack] of objects made by scripts *)
Definition broken_ok (p : prop) : bool :=
  negb (pkind_eqb (p_kind p) PBroken) ||
  (host_owned (p_owner p) (p_name p) && existsb (String.eqb (p_name p)) broken_names).

(* ---- prototype / constructor links ---- *)
Definition ctors : list (string * string) :=    (* constructor, [[Prototype]] of its prototype object *)
  [("Object", ""); ("Function", "Object.prototype"); ("Array", "Object.prototype");
   ("String", "Object.prototype"); ("Boolean", "Object.prototype"); ("Number", "Object.prototype");
   ("Date", "Object.prototype"); ("RegExp", "Object.prototype"); ("Error", "Object.prototype");
   ("EvalError", "Error.prototype"); ("RangeError", "Error.prototype");
   ("ReferenceError", "Error.prototype"); ("SyntaxError", "Error.prototype");
   ("TypeError", "Error.prototype"); ("URIError", "Error.prototype")].

Definition data_val (d : dump) (owner name : string) : val :=
  match find_prop d owner name with
  | Some p => match p_kind p with PData => p_val p | _ => VUndef end
  | None => VUndef
  end.

Definition proto_val (d : dump) (path : string) : val :=
  match find_obj d path with Some o => o_proto o | None => VUndef end.

Definition link_ok (d : dump) (c : string * string) : bool :=
  let '(c, pp) := c in
  val_eqb (data_val d "global" c) (VObj c) &&
  val_eqb (data_val d c "prototype") (VObj (c ++ ".prototype")) &&
  val_eqb (data_val d (c ++ ".prototype") "constructor") (VObj c) &&
  val_eqb (proto_val d c) (VObj "Function.prototype") &&
  val_eqb (proto_val d (c ++ ".prototype")) (if String.eqb pp "" then VNull else VObj pp).

(* instances made by each constructor / literal inherit from the matching prototype *)
Definition inst_links : list (string * string) :=
  [("spec.obj", "Object.prototype"); ("spec.fn", "Function.prototype"); ("spec.bound", "Function.prototype");
   ("spec.ctorfn", "Function.prototype"); ("spec.arr", "Array.prototype"); ("spec.arrctor", "Array.prototype");
   ("spec.str", "String.prototype"); ("spec.bool", "Boolean.prototype"); ("spec.num", "Number.prototype");
   ("spec.date", "Date.prototype"); ("spec.re", "RegExp.prototype"); ("spec.rector", "RegExp.prototype");
   ("spec.err", "Error.prototype"); ("spec.terr", "TypeError.prototype"); ("spec.args", "Object.prototype");
   ("spec.json", "Object.prototype"); ("spec.json.a", "Array.prototype"); ("spec.fn.prototype", "Object.prototype");
   ("spec.inst", "spec.inst.[[Prototype]]"); ("Math", "Object.prototype"); ("JSON", "Object.prototype")].

Definition inst_link_ok (d : dump) (x : string * string) : bool :=
  val_eqb (proto_val d (fst x)) (VObj (snd x)).

(* user function: F.prototype.constructor === F, and an instance made by [new K] inherits K.prototype *)
Definition fn_link_ok (d : dump) (f : string) : bool :=
  val_eqb (data_val d f "prototype") (VObj (f ++ ".prototype")) &&
  val_eqb (data_val d (f ++ ".prototype") "constructor") (VObj f).

(* ---- the four configurations ---- *)
Definition strip_lib (d : dump) : dump :=
  mkDump (filter (fun o => negb (under "_" (o_path o))) (d_objs d))
         (filter (fun p => negb (under "_" (p_owner p) || (String.eqb (p_owner p) "global" && String.eqb (p_name p) "_")))
                 (d_props d)).

(* ---- for-in (12.6.4) over a dump ---- *)
Fixpoint mem (k : string) (l : list string) : bool :=
  match l with [] => false | x :: l' => String.eqb k x || mem k l' end.

(* own properties of the objects of a prototype chain, nearest first, as
   (name, enumerable): a name is shown iff its first occurrence is enumerable *)
Fixpoint forin_flat (l : list (string * bool)) (seen : list string) : list string :=
  match l with
  | [] => []
  | (k, e) :: r =>
      if mem k seen then forin_flat r seen
      else if e then k :: forin_flat r (k :: seen) else forin_flat r (k :: seen)
  end.

Fixpoint first_attr (k : string) (l : list (string * bool)) : option bool :=
  match l with
  | [] => None
  | (k', e) :: r => if String.eqb k k' then Some e else first_attr k r
  end.

Fixpoint chain_of (d : dump) (fuel : nat) (path : string) : list (string * bool) :=
  match fuel with
  | O => []
  | S n =>
      map (fun p => (p_name p, p_e p)) (props_of d path) ++
      match proto_val d path with VObj pp => chain_of d n pp | _ => [] end
  end.

Definition forin_of (d : dump) (path : string) : list string := forin_flat (chain_of d 12 path) [].

Definition incl_b (a b : list string) : bool := forallb (fun k => mem k b) a.
Definition same_set (a b : list string) : bool := incl_b a b && incl_b b a.
Definition forin_ok (d : dump) (x : string * list string) : bool := same_set (forin_of d (fst x)) (snd x).

(* ---- Otto.Copy() and the global [eval] binding ----
   clone.go (since 1f3ee72) takes the copy's eval intrinsic from the original's intrinsic,
     out.eval = c.object(rt.eval)
   and no longer reads it back by name from the copied global object, so the state st of the
   global binding (0 a data property holding an object, 1 absent, 2 a data property holding a
   non-object, 3 an accessor) is irrelevant: Copy() returns in every state. *)
Definition copy_panics_model (st : Z) : bool := false.
Definition copy_panics_spec (st : Z) : bool := false.     (* Copy() returns a runtime of the same shape *)

(* ---- Date.prototype.toJSON, step 3 of 15.9.5.44 ----
   tv = ToPrimitive(this, hint Number).  ES5: "If tv is a Number and is not finite, return null".
   otto (builtin_date.go builtinDateToJSON, since f1c4c70) tests value.IsNumber() first, so a
   String or Boolean primitive never gives null and the receiver's toISOString is called. *)
Inductive tj_prim :=
| TJNum (finite : bool)            (* a Number *)
| TJStr (reads_finite : bool)      (* a String; whether ToNumber of it is finite *)
| TJBool.                          (* a Boolean (ToNumber is 0 or 1) *)
Definition tojson_null_spec (tv : tj_prim) : bool :=
  match tv with TJNum f => negb f | _ => false end.
Definition tojson_null_model (tv : tj_prim) : bool :=
  match tv with TJNum f => negb f | TJStr _ => false | TJBool => false end.
