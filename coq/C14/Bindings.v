(* C14 — "each named built-in is bound to the operation of that name": one
   distinguishing call per built-in of ES5 15.1-15.12 / B.2 with the result ES5
   prescribes (written by hand from the specification; results are compared
   as the String of the value).  The harness reads the JavaScript text of the
   probes from THIS file (lines `P "id" / "javascript" / "expected"`), runs
   them on the interpreter in every runtime configuration and hands the
   observed strings to [Corr.verdict], which looks the expectation up here.

   Conventions: the host time zone is pinned to +05:30 (no DST) by the
   harness so that local-time and UTC Date methods give different answers;
   $FORIN(e) abbreviates "the sorted, comma-joined list of keys that
   for (k in e) visits"; results whose precision or format ES5 leaves to the
   implementation (Math.sin etc., Date.prototype.toString, the toLocale family) are
   only compared after rounding to 6 decimals / through format-independent
   predicates.  The id of a binding probe is the access path of the function. *)
From Coq Require Import List String.
Import ListNotations.
Open Scope string_scope.

Record probe := P { pr_id : string; pr_js : string; pr_expect : string }.

Definition probes : list probe := [
  P "eval"
    "eval('1+2*3')"
    "7";
  P "parseInt"
    "[parseInt('0x1f'),parseInt('12px',10),parseInt('z',36)].join()"
    "31,12,35";
  P "parseFloat"
    "[parseFloat('3.5e1x'),parseFloat('.5')].join()"
    "35,0.5";
  P "isNaN"
    "[isNaN('x'),isNaN(1),isNaN(Infinity)].join()"
    "true,false,false";
  P "isFinite"
    "[isFinite('x'),isFinite(1),isFinite(Infinity)].join()"
    "false,true,false";
  P "decodeURI"
    "decodeURI('%41%2F%20')"
    "A%2F ";
  P "decodeURIComponent"
    "decodeURIComponent('%41%2F%20')"
    "A/ ";
  P "encodeURI"
    "encodeURI('a b/?#%')"
    "a%20b/?#%25";
  P "encodeURIComponent"
    "encodeURIComponent('a b/?#%')"
    "a%20b%2F%3F%23%25";
  P "escape"
    "[escape('a b+/%'),escape(String.fromCharCode(256))].join()"
    "a%20b+/%25,%u0100";
  P "unescape"
    "unescape('%41%u0042%2')"
    "AB%2";
  P "Object"
    "[typeof Object(1),typeof Object(null),Object('s')instanceof String,typeof new Object(undefined)].join()"
    "object,object,true,object";
  P "Function"
    "[typeof Function('return 1'),Function('a','b','return a-b')(5,3),new Function('return 7')()].join()"
    "function,2,7";
  P "Array"
    "[Array(3).length,Array(3,4).join('-'),new Array('3').length,Array.isArray(Array())].join()"
    "3,3-4,1,true";
  P "String"
    "[String(12),String(null),typeof String(1),typeof new String(1),new String('ab').length].join()"
    "12,null,string,object,2";
  P "Boolean"
    "[Boolean(0),Boolean('0'),typeof Boolean(1),typeof new Boolean(0)].join()"
    "false,true,boolean,object";
  P "Number"
    "[Number('0x10'),Number(''),Number('1e3'),typeof Number('1'),typeof new Number(1)].join()"
    "16,0,1000,number,object";
  P "Date"
    "[typeof Date(),typeof new Date(0),new Date(2000,0,1,0,0,0,0).getTime(),new Date(86400000).getTime()].join()"
    "string,object,946665000000,86400000";
  P "RegExp"
    "[RegExp('a+','g').global,new RegExp('a+').exec('caab')[0],RegExp(/x/i).ignoreCase].join()"
    "true,aa,true";
  P "Error"
    "[Error('m').message,new Error('m') instanceof Error,Error('m').name,String(Error('q'))].join()"
    "m,true,Error,Error: q";
  P "EvalError"
    "[String(EvalError('m')),new EvalError('m') instanceof EvalError,EvalError('m') instanceof Error].join()"
    "EvalError: m,true,true";
  P "RangeError"
    "[String(RangeError('m')),new RangeError('m') instanceof RangeError,RangeError('m') instanceof Error].join()"
    "RangeError: m,true,true";
  P "ReferenceError"
    "[String(ReferenceError('m')),new ReferenceError('m') instanceof ReferenceError,ReferenceError('m') instanceof Error].join()"
    "ReferenceError: m,true,true";
  P "SyntaxError"
    "[String(SyntaxError('m')),new SyntaxError('m') instanceof SyntaxError,SyntaxError('m') instanceof Error].join()"
    "SyntaxError: m,true,true";
  P "TypeError"
    "[String(TypeError('m')),new TypeError('m') instanceof TypeError,TypeError('m') instanceof Error].join()"
    "TypeError: m,true,true";
  P "URIError"
    "[String(URIError('m')),new URIError('m') instanceof URIError,URIError('m') instanceof Error].join()"
    "URIError: m,true,true";
  P "Object.getPrototypeOf"
    "[Object.getPrototypeOf([])===Array.prototype,Object.getPrototypeOf(Object.prototype)===null].join()"
    "true,true";
  P "Object.getOwnPropertyDescriptor"
    "(function(){var d=Object.getOwnPropertyDescriptor({x:1},'x');return [d.value,d.writable,d.enumerable,d.configurable,Object.getOwnPropertyDescriptor({},'x')].join()})()"
    "1,true,true,true,";
  P "Object.getOwnPropertyNames"
    "Object.getOwnPropertyNames(Object.create({p:1},{q:{value:1},r:{value:1,enumerable:true}})).sort().join()"
    "q,r";
  P "Object.create"
    "[Object.getPrototypeOf(Object.create(Math))===Math,Object.create(null,{x:{value:5}}).x].join()"
    "true,5";
  P "Object.defineProperty"
    "(function(){var o={};var r=Object.defineProperty(o,'x',{value:4});return [r===o,o.x,Object.keys(o).length].join()})()"
    "true,4,0";
  P "Object.defineProperties"
    "(function(){var o={};var r=Object.defineProperties(o,{x:{value:4},y:{value:5,enumerable:true}});return [r===o,o.x,o.y,Object.keys(o).join()].join()})()"
    "true,4,5,y";
  P "Object.seal"
    "(function(){var o={x:1};var r=Object.seal(o);o.y=2;delete o.x;o.x=3;return [r===o,o.x,o.y,Object.isSealed(o),Object.isFrozen(o),Object.isExtensible(o)].join()})()"
    "true,3,,true,false,false";
  P "Object.freeze"
    "(function(){var o={x:1};var r=Object.freeze(o);o.y=2;delete o.x;o.x=3;return [r===o,o.x,o.y,Object.isSealed(o),Object.isFrozen(o),Object.isExtensible(o)].join()})()"
    "true,1,,true,true,false";
  P "Object.preventExtensions"
    "(function(){var o={x:1};var r=Object.preventExtensions(o);o.y=2;o.x=5;return [r===o,o.x,o.y,Object.isSealed(o),Object.isFrozen(o),Object.isExtensible(o)].join()})()"
    "true,5,,false,false,false";
  P "Object.isSealed"
    "[Object.isSealed({}),Object.isSealed(Object.seal({x:1})),Object.isSealed(Object.preventExtensions({x:1})),Object.isSealed(Object.preventExtensions({}))].join()"
    "false,true,false,true";
  P "Object.isFrozen"
    "[Object.isFrozen({}),Object.isFrozen(Object.seal({x:1})),Object.isFrozen(Object.freeze({x:1})),Object.isFrozen(Object.preventExtensions({}))].join()"
    "false,false,true,true";
  P "Object.isExtensible"
    "[Object.isExtensible({}),Object.isExtensible(Object.seal({x:1})),Object.isExtensible(Object.preventExtensions({}))].join()"
    "true,false,false";
  P "Object.keys"
    "Object.keys(Object.create({p:1},{q:{value:1},r:{value:1,enumerable:true},s:{value:2,enumerable:true}})).sort().join()"
    "r,s";
  P "Object.prototype.toString"
    "[Object.prototype.toString.call([]),Object.prototype.toString.call(null),Object.prototype.toString.call(1)].join()"
    "[object Array],[object Null],[object Number]";
  P "Object.prototype.toLocaleString"
    "Object.prototype.toLocaleString.call({toString:function(){return 'via-toString'}})"
    "via-toString";
  P "Object.prototype.valueOf"
    "(function(){var o={};return [Object.prototype.valueOf.call(o)===o,typeof Object.prototype.valueOf.call(1)].join()})()"
    "true,object";
  P "Object.prototype.hasOwnProperty"
    "[Object.prototype.hasOwnProperty.call({x:1},'x'),Object.prototype.hasOwnProperty.call({x:1},'toString'),Object.prototype.hasOwnProperty.call([],'length')].join()"
    "true,false,true";
  P "Object.prototype.isPrototypeOf"
    "[Object.prototype.isPrototypeOf.call(Array.prototype,[]),Object.prototype.isPrototypeOf.call(Array.prototype,{}),Object.prototype.isPrototypeOf.call(Object.prototype,1)].join()"
    "true,false,false";
  P "Object.prototype.propertyIsEnumerable"
    "[Object.prototype.propertyIsEnumerable.call({x:1},'x'),Object.prototype.propertyIsEnumerable.call([],'length'),Object.prototype.propertyIsEnumerable.call({},'toString')].join()"
    "true,false,false";
  P "Function.prototype.toString"
    "(function(){var t;try{Function.prototype.toString.call({});t='no'}catch(e){t=e instanceof TypeError}return [typeof Function.prototype.toString.call(function(){}),t].join()})()"
    "string,true";
  P "Function.prototype.apply"
    "[Function.prototype.apply.call(function(a,b){return this.k+a+b},{k:1},[10,100]),Math.max.apply(null,[1,5,2])].join()"
    "111,5";
  P "Function.prototype.call"
    "[Function.prototype.call.call(function(a,b){return this.k+a+b},{k:1},10,100),Math.max.call(null,1,5,2)].join()"
    "111,5";
  P "Function.prototype.bind"
    "(function(){var f=Function.prototype.bind.call(function(a,b){return this.k+a+b},{k:1},10);return [f(100),f.call({k:7},200),typeof f].join()})()"
    "111,211,function";
  P "Array.isArray"
    "[Array.isArray([]),Array.isArray({length:0}),(function(){return Array.isArray(arguments)})()].join()"
    "true,false,false";
  P "Array.prototype.toString"
    "[Array.prototype.toString.call([1,[2,3]]),Array.prototype.toString.call({join:function(){return 'J'}})].join('/')"
    "1,2,3/J";
  P "Array.prototype.toLocaleString"
    "Array.prototype.toLocaleString.call([{toLocaleString:function(){return 'L'},toString:function(){return 'T'}}])"
    "L";
  P "Array.prototype.concat"
    "(function(){var a=[1,2];var r=a.concat([3,[4]],5);return [r.length,r.join('-'),a.length,r===a].join()})()"
    "5,1-2-3-4-5,2,false";
  P "Array.prototype.join"
    "[[1,null,undefined,2].join('-'),[1,2].join(),Array.prototype.join.call({length:2,0:'a',1:'b'},'+')].join('/')"
    "1---2/1,2/a+b";
  P "Array.prototype.pop"
    "(function(){var a=[1,2,3];var r=a.pop();return [r,a.length,a.join('-')].join()})()"
    "3,2,1-2";
  P "Array.prototype.push"
    "(function(){var a=[1,2,3];var r=a.push(7,8);return [r,a.length,a.join('-')].join()})()"
    "5,5,1-2-3-7-8";
  P "Array.prototype.reverse"
    "(function(){var a=[1,2,3];var r=a.reverse();return [r===a,a.join('-')].join()})()"
    "true,3-2-1";
  P "Array.prototype.shift"
    "(function(){var a=[1,2,3];var r=a.shift();return [r,a.length,a.join('-')].join()})()"
    "1,2,2-3";
  P "Array.prototype.slice"
    "(function(){var a=[1,2,3,4];var r=a.slice(1,-1);return [r.join('-'),a.length,a.slice(-2).join('-')].join()})()"
    "2-3,4,3-4";
  P "Array.prototype.sort"
    "(function(){var a=[3,10,2,1];var r=a.sort();return [r===a,a.join('-'),[3,10,2,1].sort(function(x,y){return x-y}).join('-')].join()})()"
    "true,1-10-2-3,1-2-3-10";
  P "Array.prototype.splice"
    "(function(){var a=[1,2,3,4,5];var r=a.splice(1,2,'x','y','z');return [r.join('-'),a.join('-'),a.length].join()})()"
    "2-3,1-x-y-z-4-5,6";
  P "Array.prototype.unshift"
    "(function(){var a=[1,2,3];var r=a.unshift(7,8);return [r,a.length,a.join('-')].join()})()"
    "5,5,7-8-1-2-3";
  P "Array.prototype.indexOf"
    "[[1,2,3,2].indexOf(2),[1,2,3,2].indexOf(2,2),[1,2].indexOf('2'),[NaN].indexOf(NaN)].join()"
    "1,3,-1,-1";
  P "Array.prototype.lastIndexOf"
    "[[1,2,3,2].lastIndexOf(2),[1,2,3,2].lastIndexOf(2,2),[1,2].lastIndexOf('2')].join()"
    "3,1,-1";
  P "Array.prototype.every"
    "[[1,2,3].every(function(x){return x>0}),[1,2,3].every(function(x){return x>1}),[].every(function(){return false})].join()"
    "true,false,true";
  P "Array.prototype.some"
    "[[1,2,3].some(function(x){return x>2}),[1,2,3].some(function(x){return x>3}),[].some(function(){return true})].join()"
    "true,false,false";
  P "Array.prototype.forEach"
    "(function(){var s=[];var r=[1,2,3].forEach(function(x,i){s.push(x*10+i)});return [r===undefined,s.join('-')].join()})()"
    "true,10-21-32";
  P "Array.prototype.map"
    "(function(){var r=[1,2,3].map(function(x,i){return x*10+i});return [r.length,r.join('-')].join()})()"
    "3,10-21-32";
  P "Array.prototype.filter"
    "(function(){var r=[1,2,3,4].filter(function(x,i){return x%2==0});return [r.length,r.join('-')].join()})()"
    "2,2-4";
  P "Array.prototype.reduce"
    "[[1,2,3].reduce(function(a,x){return a+'-'+x}),[1,2,3].reduce(function(a,x){return a+'-'+x},'s')].join()"
    "1-2-3,s-1-2-3";
  P "Array.prototype.reduceRight"
    "[[1,2,3].reduceRight(function(a,x){return a+'-'+x}),[1,2,3].reduceRight(function(a,x){return a+'-'+x},'s')].join()"
    "3-2-1,s-3-2-1";
  P "String.fromCharCode"
    "[String.fromCharCode(65,66,67),String.fromCharCode(65601).charCodeAt(0),String.fromCharCode().length].join()"
    "ABC,65,0";
  P "String.prototype.toString"
    "[String.prototype.toString.call('ab'),String.prototype.toString.call(new String('cd')),typeof String.prototype.toString.call(new String('cd'))].join()"
    "ab,cd,string";
  P "String.prototype.valueOf"
    "[String.prototype.valueOf.call('ab'),typeof String.prototype.valueOf.call(new String('cd'))].join()"
    "ab,string";
  P "String.prototype.charAt"
    "['abc'.charAt(1),'abc'.charAt(5)==='','abc'.charAt(-1)===''].join()"
    "b,true,true";
  P "String.prototype.charCodeAt"
    "['abc'.charCodeAt(1),'abc'.charCodeAt(5),'abc'.charCodeAt()].join()"
    "98,NaN,97";
  P "String.prototype.concat"
    "['ab'.concat('cd',1,null),'ab'.concat()].join()"
    "abcd1null,ab";
  P "String.prototype.indexOf"
    "['abcabc'.indexOf('c'),'abcabc'.indexOf('c',3),'abc'.indexOf('z'),'abc'.indexOf('')].join()"
    "2,5,-1,0";
  P "String.prototype.lastIndexOf"
    "['abcabc'.lastIndexOf('c'),'abcabc'.lastIndexOf('c',4),'abc'.lastIndexOf('z')].join()"
    "5,2,-1";
  P "String.prototype.localeCompare"
    "['a'.localeCompare('b')<0,'b'.localeCompare('a')>0,'a'.localeCompare('a')].join()"
    "true,true,0";
  P "String.prototype.match"
    "['abcabc'.match(/b(c)/).join('-'),'abcabc'.match(/b/g).length,'abc'.match(/z/)===null].join()"
    "bc-c,2,true";
  P "String.prototype.replace"
    "['abcabc'.replace('b','X'),'abcabc'.replace(/b/g,'[$&]'),'abc'.replace(/(b)/,function(m,p,i){return p+i})].join()"
    "aXcabc,a[b]ca[b]c,ab1c";
  P "String.prototype.search"
    "['abcabc'.search(/c/),'abc'.search(/z/),'abc'.search('c')].join()"
    "2,-1,2";
  P "String.prototype.slice"
    "['abcdef'.slice(1,-1),'abcdef'.slice(-2),'abcdef'.slice(4,1)===''].join()"
    "bcde,ef,true";
  P "String.prototype.split"
    "['a,b,c'.split(',').length,'a,b,c'.split(',',2).join('-'),'abc'.split('').join('-'),'a1b2'.split(/[0-9]/).join('-')].join()"
    "3,a-b,a-b-c,a-b-";
  P "String.prototype.substring"
    "['abcdef'.substring(1,3),'abcdef'.substring(4,1),'abcdef'.substring(-2,2)].join()"
    "bc,bcd,ab";
  P "String.prototype.substr"
    "['abcdef'.substr(1,3),'abcdef'.substr(-2),'abcdef'.substr(4,1)].join()"
    "bcd,ef,e";
  P "String.prototype.toLowerCase"
    "'aBcD'.toLowerCase()"
    "abcd";
  P "String.prototype.toLocaleLowerCase"
    "'aBcD'.toLocaleLowerCase()"
    "abcd";
  P "String.prototype.toUpperCase"
    "'aBcD'.toUpperCase()"
    "ABCD";
  P "String.prototype.toLocaleUpperCase"
    "'aBcD'.toLocaleUpperCase()"
    "ABCD";
  P "String.prototype.trim"
    "'['+(String.fromCharCode(32,9,10)+'ab cd'+String.fromCharCode(13,32)).trim()+']'"
    "[ab cd]";
  P "Boolean.prototype.toString"
    "[Boolean.prototype.toString.call(true),typeof Boolean.prototype.toString.call(new Boolean(false)),Boolean.prototype.toString.call(new Boolean(false))].join()"
    "true,string,false";
  P "Boolean.prototype.valueOf"
    "[Boolean.prototype.valueOf.call(true),typeof Boolean.prototype.valueOf.call(new Boolean(false)),Boolean.prototype.valueOf.call(new Boolean(false))].join()"
    "true,boolean,false";
  P "Number.prototype.toString"
    "[(255).toString(16),(255).toString(),(5).toString(2),typeof Number.prototype.toString.call(new Number(1))].join()"
    "ff,255,101,string";
  P "Number.prototype.toLocaleString"
    "typeof (255).toLocaleString()"
    "string";
  P "Number.prototype.valueOf"
    "[Number.prototype.valueOf.call(5),typeof Number.prototype.valueOf.call(new Number(6)),Number.prototype.valueOf.call(new Number(6))].join()"
    "5,number,6";
  P "Number.prototype.toFixed"
    "[(1.255).toFixed(1),(12.5).toFixed(3),(0).toFixed(2)].join()"
    "1.3,12.500,0.00";
  P "Number.prototype.toExponential"
    "[(1.5e20).toExponential(2),(1.5e-12).toExponential(1)].join()"
    "1.50e+20,1.5e-12";
  P "Number.prototype.toPrecision"
    "[(1.5e20).toPrecision(2),(123.456).toPrecision(4)].join()"
    "1.5e+20,123.5";
  P "Math.abs"
    "[Math.abs(-0.75),Math.abs(0.25),Math.abs(-Infinity)].join()"
    "0.75,0.25,Infinity";
  P "Math.acos"
    "[Math.acos(1),Math.round(1e6*Math.acos(0.5)),Math.acos(2)].join()"
    "0,1047198,NaN";
  P "Math.asin"
    "[Math.asin(0),Math.round(1e6*Math.asin(0.5)),Math.asin(2)].join()"
    "0,523599,NaN";
  P "Math.atan"
    "[Math.atan(0),Math.round(1e6*Math.atan(1)),Math.round(1e6*Math.atan(Infinity))].join()"
    "0,785398,1570796";
  P "Math.atan2"
    "[Math.round(1e6*Math.atan2(1,1)),Math.round(1e6*Math.atan2(1,0)),Math.round(1e6*Math.atan2(0,-1)),Math.round(1e6*Math.atan2(-1,2))].join()"
    "785398,1570796,3141593,-463648";
  P "Math.ceil"
    "[Math.ceil(1.5),Math.ceil(-1.5),Math.ceil(2)].join()"
    "2,-1,2";
  P "Math.cos"
    "[Math.cos(0),Math.round(1e6*Math.cos(1)),Math.cos(Infinity)].join()"
    "1,540302,NaN";
  P "Math.exp"
    "[Math.exp(0),Math.round(1e6*Math.exp(1)),Math.exp(-Infinity)].join()"
    "1,2718282,0";
  P "Math.floor"
    "[Math.floor(1.5),Math.floor(-1.5),Math.floor(2)].join()"
    "1,-2,2";
  P "Math.log"
    "[Math.log(1),Math.round(1e6*Math.log(10)),Math.log(0),Math.log(-1)].join()"
    "0,2302585,-Infinity,NaN";
  P "Math.max"
    "[Math.max(1,5,2),Math.max(),Math.max(1,NaN),Math.max(-3)].join()"
    "5,-Infinity,NaN,-3";
  P "Math.min"
    "[Math.min(1,5,2),Math.min(),Math.min(1,NaN),Math.min(3)].join()"
    "1,Infinity,NaN,3";
  P "Math.pow"
    "[Math.pow(2,10),Math.pow(2,-1),Math.pow(-8,2),Math.pow(7,0)].join()"
    "1024,0.5,64,1";
  P "Math.random"
    "(function(){var a=Math.random(),b=Math.random(),c=Math.random();return [a>=0&&a<1,b>=0&&b<1,a!==b||b!==c,typeof a].join()})()"
    "true,true,true,number";
  P "Math.round"
    "[Math.round(1.5),Math.round(-1.5),Math.round(2.4),Math.round(-2.6)].join()"
    "2,-1,2,-3";
  P "Math.sin"
    "[Math.sin(0),Math.round(1e6*Math.sin(1)),Math.sin(Infinity)].join()"
    "0,841471,NaN";
  P "Math.sqrt"
    "[Math.sqrt(16),Math.round(1e6*Math.sqrt(2)),Math.sqrt(-1)].join()"
    "4,1414214,NaN";
  P "Math.tan"
    "[Math.tan(0),Math.round(1e6*Math.tan(1)),Math.tan(Infinity)].join()"
    "0,1557408,NaN";
  P "Date.parse"
    "[Date.parse('2000-01-02T03:04:05.006Z'),Date.parse('1970-01-01T00:00:00Z')].join()"
    "946782245006,0";
  P "Date.UTC"
    "[Date.UTC(2000,0,2,3,4,5,6),Date.UTC(1970,0),Date.UTC(99,11,31)].join()"
    "946782245006,0,946598400000";
  P "Date.now"
    "(function(){var a=Date.now();return [typeof a,a>1600000000000,a===Math.floor(a)].join()})()"
    "number,true,true";
  P "Date.prototype.toString"
    "(function(){var s=new Date(946670645006).toString();return [typeof s,s.indexOf('2000')>=0,s.indexOf(':')>=0].join()})()"
    "string,true,true";
  P "Date.prototype.toDateString"
    "(function(){var s=new Date(946670645006).toDateString();return [typeof s,s.indexOf('2000')>=0,s.indexOf(':')<0].join()})()"
    "string,true,true";
  P "Date.prototype.toTimeString"
    "(function(){var s=new Date(946670645006).toTimeString();return [typeof s,s.indexOf('2000')<0,s.indexOf('34')>=0].join()})()"
    "string,true,true";
  P "Date.prototype.toLocaleString"
    "(function(){var s=new Date(946670645006).toLocaleString();return [typeof s,s.indexOf('2000')>=0,s.indexOf(':')>=0].join()})()"
    "string,true,true";
  P "Date.prototype.toLocaleDateString"
    "(function(){var s=new Date(946670645006).toLocaleDateString();return [typeof s,s.indexOf('2000')>=0,s.indexOf(':')<0].join()})()"
    "string,true,true";
  P "Date.prototype.toLocaleTimeString"
    "(function(){var s=new Date(946670645006).toLocaleTimeString();return [typeof s,s.indexOf('2000')<0,s.indexOf('34')>=0].join()})()"
    "string,true,true";
  P "Date.prototype.valueOf"
    "[new Date(946670645006).valueOf(),typeof new Date(5).valueOf()].join()"
    "946670645006,number";
  P "Date.prototype.getTime"
    "[new Date(946670645006).getTime(),new Date(NaN).getTime()].join()"
    "946670645006,NaN";
  P "Date.prototype.getFullYear"
    "new Date(946670645006).getFullYear()"
    "2000";
  P "Date.prototype.getUTCFullYear"
    "new Date(946670645006).getUTCFullYear()"
    "1999";
  P "Date.prototype.getMonth"
    "new Date(946670645006).getMonth()"
    "0";
  P "Date.prototype.getUTCMonth"
    "new Date(946670645006).getUTCMonth()"
    "11";
  P "Date.prototype.getDate"
    "new Date(946670645006).getDate()"
    "1";
  P "Date.prototype.getUTCDate"
    "new Date(946670645006).getUTCDate()"
    "31";
  P "Date.prototype.getDay"
    "new Date(946670645006).getDay()"
    "6";
  P "Date.prototype.getUTCDay"
    "new Date(946670645006).getUTCDay()"
    "5";
  P "Date.prototype.getHours"
    "new Date(946670645006).getHours()"
    "1";
  P "Date.prototype.getUTCHours"
    "new Date(946670645006).getUTCHours()"
    "20";
  P "Date.prototype.getMinutes"
    "new Date(946670645006).getMinutes()"
    "34";
  P "Date.prototype.getUTCMinutes"
    "new Date(946670645006).getUTCMinutes()"
    "4";
  P "Date.prototype.getSeconds"
    "new Date(946670645006).getSeconds()"
    "5";
  P "Date.prototype.getUTCSeconds"
    "new Date(946670645006).getUTCSeconds()"
    "5";
  P "Date.prototype.getMilliseconds"
    "new Date(946670645006).getMilliseconds()"
    "6";
  P "Date.prototype.getUTCMilliseconds"
    "new Date(946670645006).getUTCMilliseconds()"
    "6";
  P "Date.prototype.getTimezoneOffset"
    "new Date(946670645006).getTimezoneOffset()"
    "-330";
  P "Date.prototype.setTime"
    "(function(){var d=new Date(946670645006);var r=d.setTime(12345);return [r,d.getTime()].join()})()"
    "12345,12345";
  P "Date.prototype.setMilliseconds"
    "(function(){var d=new Date(946670645006);var r=d.setMilliseconds(123);return [r,d.getTime()].join()})()"
    "946670645123,946670645123";
  P "Date.prototype.setUTCMilliseconds"
    "(function(){var d=new Date(946670645006);var r=d.setUTCMilliseconds(123);return [r,d.getTime()].join()})()"
    "946670645123,946670645123";
  P "Date.prototype.setSeconds"
    "(function(){var d=new Date(946670645006);var r=d.setSeconds(59,123);return [r,d.getTime()].join()})()"
    "946670699123,946670699123";
  P "Date.prototype.setUTCSeconds"
    "(function(){var d=new Date(946670645006);var r=d.setUTCSeconds(59,123);return [r,d.getTime()].join()})()"
    "946670699123,946670699123";
  P "Date.prototype.setMinutes"
    "(function(){var d=new Date(946670645006);var r=d.setMinutes(58,59,123);return [r,d.getTime()].join()})()"
    "946672139123,946672139123";
  P "Date.prototype.setUTCMinutes"
    "(function(){var d=new Date(946670645006);var r=d.setUTCMinutes(58,59,123);return [r,d.getTime()].join()})()"
    "946673939123,946673939123";
  P "Date.prototype.setHours"
    "(function(){var d=new Date(946670645006);var r=d.setHours(2,58,59,123);return [r,d.getTime()].join()})()"
    "946675739123,946675739123";
  P "Date.prototype.setUTCHours"
    "(function(){var d=new Date(946670645006);var r=d.setUTCHours(2,58,59,123);return [r,d.getTime()].join()})()"
    "946609139123,946609139123";
  P "Date.prototype.setDate"
    "(function(){var d=new Date(946670645006);var r=d.setDate(15);return [r,d.getTime()].join()})()"
    "947880245006,947880245006";
  P "Date.prototype.setUTCDate"
    "(function(){var d=new Date(946670645006);var r=d.setUTCDate(15);return [r,d.getTime()].join()})()"
    "945288245006,945288245006";
  P "Date.prototype.setMonth"
    "(function(){var d=new Date(946670645006);var r=d.setMonth(5,15);return [r,d.getTime()].join()})()"
    "961013045006,961013045006";
  P "Date.prototype.setUTCMonth"
    "(function(){var d=new Date(946670645006);var r=d.setUTCMonth(5,15);return [r,d.getTime()].join()})()"
    "929477045006,929477045006";
  P "Date.prototype.setFullYear"
    "(function(){var d=new Date(946670645006);var r=d.setFullYear(1997,5,15);return [r,d.getTime()].join()})()"
    "866318645006,866318645006";
  P "Date.prototype.setUTCFullYear"
    "(function(){var d=new Date(946670645006);var r=d.setUTCFullYear(1997,5,15);return [r,d.getTime()].join()})()"
    "866405045006,866405045006";
  P "Date.prototype.toUTCString"
    "(function(){var s=new Date(946670645006).toUTCString();return [typeof s,s.indexOf('1999')>=0,s.indexOf('20:04:05')>=0].join()})()"
    "string,true,true";
  P "Date.prototype.toISOString"
    "new Date(946670645006).toISOString()"
    "1999-12-31T20:04:05.006Z";
  P "Date.prototype.toJSON"
    "[new Date(946670645006).toJSON(),new Date(NaN).toJSON()===null].join()"
    "1999-12-31T20:04:05.006Z,true";
  P "Date.prototype.getYear"
    "new Date(946670645006).getYear()"
    "100";
  P "Date.prototype.setYear"
    "(function(){var d=new Date(946670645006);var r=d.setYear(98);return [r,d.getTime()].join()})()"
    "883598645006,883598645006";
  P "Date.prototype.toGMTString"
    "(function(){var s=new Date(946670645006).toGMTString();return [typeof s,s.indexOf('1999')>=0,s.indexOf('20:04:05')>=0].join()})()"
    "string,true,true";
  P "RegExp.prototype.exec"
    "(function(){var r=/b(c)?/g;var m=r.exec('abcab');return [m[0],m[1],m.index,m.input,r.lastIndex,/z/.exec('a')===null].join()})()"
    "bc,c,1,abcab,3,true";
  P "RegExp.prototype.test"
    "(function(){var r=/b/g;return [r.test('abab'),r.lastIndex,/z/.test('a')].join()})()"
    "true,2,false";
  P "RegExp.prototype.toString"
    "[/a+b/gi.toString(),RegExp.prototype.toString.call(/xy/m)].join()"
    "/a+b/gi,/xy/m";
  P "Error.prototype.toString"
    "[Error.prototype.toString.call({name:'N',message:'M'}),Error.prototype.toString.call({}),Error.prototype.toString.call({message:'M'}),Error.prototype.toString.call({name:'N'})].join()"
    "N: M,Error,Error: M,N";
  P "JSON.parse"
    "(function(){var o=JSON.parse('{""a"":[1,2,{""b"":null}],""c"":""d""}',function(k,v){return typeof v==='number'?v+1:v});return [o.a[0],o.a[1],o.a[2].b===null,o.c].join()})()"
    "2,3,true,d";
  P "JSON.stringify"
    "[JSON.stringify({a:[1,'x',null,undefined],b:undefined,c:true}),JSON.stringify([1,2],null,1).length,JSON.stringify({a:1,b:2},['b'])].join('/')"
    "{""a"":[1,""x"",null,null],""c"":true}/10/{""b"":2}";
  P "forin:object"
    "$FORIN({a:1,b:2})"
    "a,b";
  P "forin:array"
    "$FORIN([7,8])"
    "0,1";
  P "forin:sparse"
    "$FORIN([,7])"
    "1";
  P "forin:string"
    "$FORIN('ab')"
    "0,1";
  P "forin:String"
    "$FORIN(new String('ab'))"
    "0,1";
  P "forin:function"
    "$FORIN(function(a){})"
    "";
  P "forin:bound"
    "$FORIN((function(a){}).bind(null))"
    "";
  P "forin:Math"
    "$FORIN(Math)"
    "";
  P "forin:JSON"
    "$FORIN(JSON)"
    "";
  P "forin:Date"
    "$FORIN(new Date(0))"
    "";
  P "forin:RegExp"
    "$FORIN(/a/g)"
    "";
  P "forin:Number"
    "$FORIN(new Number(1))"
    "";
  P "forin:number"
    "$FORIN(5)"
    "";
  P "forin:boolean"
    "$FORIN(true)"
    "";
  P "forin:Boolean"
    "$FORIN(new Boolean(false))"
    "";
  P "forin:arguments"
    "$FORIN((function(){return arguments})(1,2))"
    "0,1";
  P "forin:inherit"
    "$FORIN(Object.create({p:1},{q:{value:1,enumerable:true},r:{value:1}}))"
    "p,q";
  P "forin:json"
    "$FORIN(JSON.parse('{""x"":[1]}'))"
    "x";
  P "forin:instance"
    "$FORIN(new (function K(){this.own=1})())"
    "own";
  P "forin:ObjectProto"
    "$FORIN(Object.prototype)"
    "";
  P "forin:ArrayProto"
    "$FORIN(Array.prototype)"
    "";
  P "forin:StringProto"
    "$FORIN(String.prototype)"
    "";
  P "forin:FunctionProto"
    "$FORIN(Function.prototype)"
    "";
  P "forin:ctor"
    "$FORIN(Object)"
    "";
  P "forin:Number.ctor"
    "$FORIN(Number)"
    "";
  P "forin:exec"
    "$FORIN(/b/.exec('abc'))"
    "0,index,input";
  P "forin:global"
    "(function(g){var r=[];for(var k in g)if(['Object','Math','NaN','undefined','parseInt','JSON','Array','eval','Infinity','Date','escape'].indexOf(k)>=0)r.push(k);return r.join()})(this)"
    "";
  P "new:fn.length"
    "[(function(a,b){}).length,Function('a','b','c','').length,(function(){}).length,(function(a,b,c){}).bind(null,1).length].join()"
    "2,3,0,2";
  P "new:fn.prototype"
    "(function(){var f=function(){};return [typeof f.prototype,f.prototype.constructor===f,Object.getPrototypeOf(f)===Function.prototype,Object.getPrototypeOf(f.prototype)===Object.prototype,new f instanceof f].join()})()"
    "object,true,true,true,true";
  P "new:typeof"
    "[typeof Math,typeof JSON,typeof Object,typeof Object.prototype,typeof Function.prototype,typeof NaN,typeof undefined,typeof Infinity].join()"
    "object,object,function,object,function,number,undefined,number";
  P "new:const"
    "[Math.PI=1,Math.PI>3,delete Math.PI,Math.PI>3,delete Number.MAX_VALUE,Number.MAX_VALUE>1e308,(function(){NaN=1;Infinity=1;undefined=1;return [NaN!==NaN,Infinity>1e308,undefined===void 0].join()})()].join()"
    "1,true,false,true,false,true,true,true,true"
].

(* Functions otto provides beyond ES5 (permitted by clause 2): bound to the
   operation their name has in ES2015 (Math, Object.assign/values, startsWith,
   trimStart/End and their aliases); the NativeError prototypes carry an own
   toString that behaves as Error.prototype.toString (15.11.4.4). *)
Definition ext_probes : list probe := [
  P "ext:Math.acosh"
    "Math.round(1e6*Math.acosh(2))"
    "1316958";
  P "ext:Math.asinh"
    "Math.round(1e6*Math.asinh(1))"
    "881374";
  P "ext:Math.atanh"
    "Math.round(1e6*Math.atanh(0.5))"
    "549306";
  P "ext:Math.cbrt"
    "[Math.round(1e6*Math.cbrt(27)),Math.round(1e6*Math.cbrt(-8))].join()"
    "3000000,-2000000";
  P "ext:Math.cosh"
    "Math.round(1e6*Math.cosh(1))"
    "1543081";
  P "ext:Math.expm1"
    "Math.round(1e6*Math.expm1(1))"
    "1718282";
  P "ext:Math.log10"
    "Math.round(1e6*Math.log10(1000))"
    "3000000";
  P "ext:Math.log1p"
    "Math.round(1e6*Math.log1p(1))"
    "693147";
  P "ext:Math.log2"
    "Math.round(1e6*Math.log2(8))"
    "3000000";
  P "ext:Math.sinh"
    "Math.round(1e6*Math.sinh(1))"
    "1175201";
  P "ext:Math.tanh"
    "Math.round(1e6*Math.tanh(1))"
    "761594";
  P "ext:Math.trunc"
    "[Math.trunc(1.7),Math.trunc(-1.7)].join()"
    "1,-1";
  P "ext:Number.isNaN"
    "[Number.isNaN(NaN),Number.isNaN(1)].join()"
    "true,false";
  P "ext:Object.assign"
    "(function(){var t={a:1};var r=Object.assign(t,{b:2},{a:3});return [r===t,t.a,t.b].join()})()"
    "true,3,2";
  P "ext:Object.values"
    "Object.values({a:1,b:2}).join()"
    "1,2";
  P "ext:String.prototype.startsWith"
    "['abc'.startsWith('ab'),'abc'.startsWith('bc')].join()"
    "true,false";
  P "ext:String.prototype.trimEnd"
    "'['+' a '.trimEnd()+']'"
    "[ a]";
  P "ext:String.prototype.trimRight"
    "'['+' a '.trimRight()+']'"
    "[ a]";
  P "ext:String.prototype.trimStart"
    "'['+' a '.trimStart()+']'"
    "[a ]";
  P "ext:String.prototype.trimLeft"
    "'['+' a '.trimLeft()+']'"
    "[a ]";
  P "ext:TypeError.prototype.toString"
    "[TypeError.prototype.toString.call({name:'N',message:'M'}),String(new TypeError('q'))].join()"
    "N: M,TypeError: q";
  P "ext:RangeError.prototype.toString"
    "[RangeError.prototype.toString.call({name:'N',message:'M'}),String(new RangeError('q'))].join()"
    "N: M,RangeError: q"
].

(* "each standard OBJECT is of the specified kind": behavioural probes of the
   internal methods, which no shape dump can see.  ES5 makes several prototype
   objects instances of their own kind: Array.prototype is itself an array
   (15.4.4: index writes grow length, length writes truncate, length = -1 is a
   RangeError, [[DefineOwnProperty]] of 15.4.5.1), Function.prototype is a
   function that accepts anything and returns undefined (15.3.4),
   String.prototype is a String object with value "" (15.5.4), Boolean/Number
   .prototype wrap false / +0 (15.6.4, 15.7.4), Date.prototype is a Date (its
   methods accept it and setTime works on it, 15.9.5), RegExp.prototype is a
   RegExp (15.10.6), the Error prototypes (15.11.4, 15.11.7.7); Math and JSON
   are neither callable nor constructors (15.8, 15.12); plus the exotic
   behaviour of the instances the dynamic constructors make (10.6 arguments
   mapping, 15.4.5.1 arrays, 15.5.5.2 String objects, 13.2.2/15.3.5.3
   functions, 15.3.4.5 bound functions).  Every probe leaves the runtime as it
   found it.  These run in EVERY history of the correspondence run (fresh,
   underscore, Copy(), copy of a copy, ...). *)
Definition kind_probes : list probe := [
  P "kind:Array.prototype"
    "(function(){var P=Array.prototype,r=[];P[3]='x';r.push(P.length,[].hasOwnProperty(3),[][3]);P.length=1;r.push(P.length,3 in P);var t;try{P.length=-1;t='no'}catch(e){t=e instanceof RangeError}r.push(t);Object.defineProperty(P,'2',{value:7,configurable:true,writable:true,enumerable:true});r.push(P.length);P.length=0;r.push(P.length,2 in P,Object.getOwnPropertyNames(P).indexOf('2'));return r.join()})()"
    "4,false,x,1,false,true,3,0,false,-1";
  P "kind:Array.prototype.methods"
    "(function(){var P=Array.prototype,r=[];r.push(P.push('a','b'),P.length,P[1]);r.push(P.pop(),P.length);P.length=0;r.push(P.length,0 in P,P.join('-')==='',Array.isArray(P),P.concat(1).length);return r.join()})()"
    "2,2,b,b,1,0,false,true,true,1";
  P "kind:Function.prototype"
    "[typeof Function.prototype,String(Function.prototype()),String(Function.prototype(1,2)),String(Function.prototype.call(null,3)),String(Function.prototype.apply({},[4])),Function.prototype.length,typeof Function.prototype.toString(),typeof Function.prototype.bind(null),Object.prototype.toString.call(Function.prototype)].join()"
    "function,undefined,undefined,undefined,undefined,0,string,function,[object Function]";
  P "kind:String.prototype"
    "[String.prototype.valueOf()==='',String.prototype.toString()==='',String.prototype.length,String.prototype.charAt(0)==='',String.prototype+'x',String.prototype.concat('a'),Object.prototype.toString.call(String.prototype),(function(){String.prototype.length=5;return String.prototype.length})(),'0' in String.prototype,typeof String.prototype].join()"
    "true,true,0,true,x,a,[object String],0,false,object";
  P "kind:Boolean.prototype"
    "[Boolean.prototype.valueOf(),Boolean.prototype.toString(),typeof Boolean.prototype.valueOf(),Boolean.prototype==false,Object.prototype.toString.call(Boolean.prototype),typeof Boolean.prototype].join()"
    "false,false,boolean,true,[object Boolean],object";
  P "kind:Number.prototype"
    "[Number.prototype.valueOf(),1/Number.prototype.valueOf(),Number.prototype.toString(),Number.prototype.toFixed(2),Number.prototype+1,Object.prototype.toString.call(Number.prototype),typeof Number.prototype].join()"
    "0,Infinity,0,0.00,1,[object Number],object";
  P "kind:Date.prototype"
    "(function(){var P=Date.prototype,o=P.getTime(),r=[Object.prototype.toString.call(P),typeof o,typeof P.valueOf()];var t;try{P.getTime.call({});t='no'}catch(e){t=e instanceof TypeError}r.push(t);r.push(P.setTime(5),P.getTime(),P.getUTCMilliseconds());P.setTime(o);r.push(P.getTime()===o||(o!==o&&P.getTime()!==P.getTime()));return r.join()})()"
    "[object Date],number,number,true,5,5,5,true";
  P "kind:RegExp.prototype"
    "(function(){var P=RegExp.prototype,r=[Object.prototype.toString.call(P)];try{r.push(P.test(''))}catch(e){r.push('threw '+e.name)}try{r.push(P.exec('abc')[0]==='')}catch(e){r.push('threw '+e.name)}try{r.push(P.toString())}catch(e){r.push('threw '+e.name)}return r.join()})()"
    "[object RegExp],true,true,/(?:)/";
  P "kind:Error.prototype"
    "[Object.prototype.toString.call(Error.prototype),Error.prototype.toString(),Error.prototype.name,Error.prototype.message==='',Error.prototype instanceof Error,TypeError.prototype instanceof Error,TypeError.prototype.toString(),TypeError.prototype.name,RangeError.prototype.message===''].join()"
    "[object Error],Error,Error,true,false,true,TypeError,TypeError,true";
  P "kind:Object.prototype"
    "[Object.getPrototypeOf(Object.prototype)===null,Object.prototype.toString(),Object.isExtensible(Object.prototype),Object.prototype.valueOf()===Object.prototype,typeof Object.prototype].join()"
    "true,[object Object],true,true,object";
  P "kind:Math"
    "(function(){var a,b;try{Math();a='no'}catch(e){a=e instanceof TypeError}try{new Math;b='no'}catch(e){b=e instanceof TypeError}return [a,b,typeof Math,Object.prototype.toString.call(Math),Object.isExtensible(Math)].join()})()"
    "true,true,object,[object Math],true";
  P "kind:JSON"
    "(function(){var a,b;try{JSON();a='no'}catch(e){a=e instanceof TypeError}try{new JSON;b='no'}catch(e){b=e instanceof TypeError}return [a,b,typeof JSON,Object.prototype.toString.call(JSON),Object.isExtensible(JSON)].join()})()"
    "true,true,object,[object JSON],true";
  P "kind:global"
    "[typeof this,this===(function(){return this})(),this.Object===Object,(function(){return typeof this.parseInt})(),this.NaN!==this.NaN,this.undefined===void 0].join()"
    "object,true,true,function,true,true";
  P "kind:arguments"
    "(function(a,b){arguments[0]=9;var x=a;a=7;var y=arguments[0];arguments.length=5;return [x,y,arguments.length,b===undefined,arguments[1]===undefined,Object.prototype.toString.call(arguments)].join()})(1)"
    "9,7,5,true,true,[object Arguments]";
  P "kind:array"
    "(function(){var a=[1,2,3];a[5]=1;var r=[a.length];a.length=2;r.push(a.length,2 in a);try{a.length=-1;r.push('no')}catch(e){r.push(e instanceof RangeError)}Object.defineProperty(a,'7',{value:1});r.push(a.length);return r.join()})()"
    "6,2,false,true,8";
  P "kind:String"
    "(function(){var s=new String('ab');s[0]='z';s.length=9;return [s[0],s.length,s[5]===undefined,Object.keys(s).join(''),delete s[0],s[0]].join()})()"
    "a,2,true,01,false,a";
  P "kind:function"
    "(function(){function K(){}var k=new K;var r=[k instanceof K,Object.getPrototypeOf(k)===K.prototype,K.prototype.constructor===K];K.prototype={};r.push(k instanceof K,new K instanceof K);K.length=7;r.push(K.length);return r.join()})()"
    "true,true,true,false,true,0";
  P "kind:bound"
    "(function(){function K(a,b){this.s=a+b}var B=K.bind(null,1);var o=new B(2);return [o.s,o instanceof K,o instanceof B,B.length,typeof B].join()})()"
    "3,true,true,1,function";
  P "kind:ctors-as-functions"
    "[Object.prototype.toString.call(Object()),Object.prototype.toString.call(Array()),Object.prototype.toString.call(Function()),typeof String(),typeof Number(),typeof Boolean(),Object.prototype.toString.call(RegExp('a')),Object.prototype.toString.call(Error()),Object.prototype.toString.call(new Date(0)),Object.prototype.toString.call(new String('')),Object.prototype.toString.call(new Number(0)),Object.prototype.toString.call(new Boolean(false))].join()"
    "[object Object],[object Array],[object Function],string,number,boolean,[object RegExp],[object Error],[object Date],[object String],[object Number],[object Boolean]"
].

(* the pinned witnesses of the findings that were repaired in /repo, kept as regression
   cases with the ES5 answer; they run in every history *)
Definition regression_probes : list probe := [
  P "fixed:C14-function-lengths"
    "[Math.atan2.length,Number.prototype.toString.length,Number.prototype.toLocaleString.length].join()"
    "2,1,0";
  P "fixed:C14-string-index-enumerable"
    "[Object.getOwnPropertyDescriptor(new String('ab'),'0').enumerable,Object.keys(new String('ab')).join()].join()"
    "true,0,1";
  P "fixed:C14-date-prototype-value"
    "[Date.prototype.getTime(),Date.prototype.valueOf(),Date.prototype.getFullYear(),Date.prototype.getUTCDay(),Date.prototype.toJSON()===null].join()"
    "NaN,NaN,NaN,NaN,true";
  P "fixed:C14-nativeerror-prototype-class"
    "[EvalError,RangeError,ReferenceError,SyntaxError,TypeError,URIError].map(function(c){return Object.prototype.toString.call(c.prototype)}).join()"
    "[object Error],[object Error],[object Error],[object Error],[object Error],[object Error]";
  P "fixed:C14-descriptor-panic"
    "(function(){var a=Object.getOwnPropertyDescriptor(function(){},'caller'),b=Object.getOwnPropertyDescriptor(new Error('m'),'stack');return [typeof a,'value' in a,a.enumerable,typeof b,'value' in b].join()})()"
    "object,false,false,object,false";
  P "fixed:C14-regexp-prototype-panic"
    "(function(){var P=RegExp.prototype,m=P.exec('abc');return [P.test(''),P.test('xyz'),m[0]==='',m.index,m.length,'abc'.replace(P,'-'),'abc'.search(P),'ab'.split(P).join('|'),'abc'.match(P)[0]===''].join()})()"
    "true,true,true,0,1,-abc,0,a|b,true";
  P "fixed:C14-bound-instanceof"
    "(function(){function K(){}var B=K.bind(null);return [new B instanceof B,new K instanceof B,({}) instanceof B].join()})()"
    "true,true,false"
].

(* The intrinsics the runtime keeps PRIVATE pointers to (eval, the prototypes used for
   literals and for the errors the interpreter raises itself) and the function objects a
   program creates in every way.  A shape dump of the global object cannot see whether these
   private pointers designate the configuration's own objects, so each is probed behaviourally,
   in every configuration (fresh, underscore, Copy(), copy of a copy, ...):
   - eval called by name is a DIRECT eval (15.1.2.1.1, 10.4.2: sees the caller's locals, its var
     declarations are local), through another name it is indirect (global scope);
     Function() bodies have global scope (15.3.2.1); parseInt is not parseFloat;
   - an error RAISED BY THE INTERPRETER (ReferenceError 8.7.1/8.7.2, TypeError 11.2.3/9.9/11.2.2/
     11.8.7, RangeError 15.4.2.2/15.7.4.5/15.4.5.1/15.7.4.2, SyntaxError 15.1.2.1/15.3.2.1/
     15.10.4.1/15.12.2, URIError 15.1.3) has the matching constructor's prototype object,
     [[Class]] "Error", name and constructor link (15.11.7); constructed ones likewise;
   - literals, wrappers of primitives and the arrays/objects/functions that built-ins return
     inherit from the configuration's own Object/Array/Function/RegExp/... prototypes;
   - 13.2 / 15.3.2.1 / 15.3.4.5 / 11.1.5: every function object made by a declaration, an
     expression, Function(), new Function(), bind or a get/set in an object literal has an OWN
     length = its parameter count, {writable, enumerable, configurable} all false (0..3
     parameters), and (except bound functions) an own prototype {w, !e, !c} whose constructor
     {!e} points back. *)
Definition intrinsic_probes : list probe := [
  P "intr:eval.direct"
    "(function(){var hidden=42;var r=[eval('hidden')];eval('var declared=7');r.push(declared,typeof this.declared);var g=eval,t;try{g('hidden');t='visible'}catch(e){t=e instanceof ReferenceError}r.push(t,g('typeof hidden'),g('this')===this,(0,eval)('typeof hidden'));return r.join()})()"
    "42,7,undefined,true,undefined,true,undefined";
  P "intr:eval.nested"
    "(function(a){function inner(b){return eval('a+b')}return inner(2)})(40)"
    "42";
  P "intr:eval.completion"
    "(function(){return [eval('1;2;3'),eval('var q=1; 7'),eval(5),String(eval('')),typeof eval('(function(){})')].join()})()"
    "3,7,5,undefined,function";
  P "intr:Function.scope"
    "(function(){var hidden=1;return [Function('return typeof hidden')(),new Function('a','b','return a+b')(1,2),Function('return this')()===this,Function('a,b, c','return a+b+c')(2,3,4)].join()})()"
    "undefined,3,true,9";
  P "intr:parseInt.vs.parseFloat"
    "[parseInt('1.9e1'),parseFloat('1.9e1'),parseInt('0x10'),parseFloat('0x10'),parseInt('  -7.5'),parseFloat('  -7.5'),parseInt('101',2),parseInt('.5')].join()"
    "1,19,16,0,-7,-7.5,5,NaN";
  P "intr:raised.ReferenceError"
    "[(function(f,C){try{f()}catch(e){return [Object.getPrototypeOf(e)===C.prototype,e instanceof C,e.constructor===C,e.name,Object.prototype.toString.call(e),e instanceof Error,String(e).indexOf(C.prototype.name)===0].join()}return 'no throw'})(function(){undeclaredName},ReferenceError),(function(f,C){try{f()}catch(e){return [Object.getPrototypeOf(e)===C.prototype,e instanceof C,e.constructor===C,e.name,Object.prototype.toString.call(e),e instanceof Error,String(e).indexOf(C.prototype.name)===0].join()}return 'no throw'})(function(){undeclaredName.abc=1},ReferenceError),(function(f,C){try{f()}catch(e){return [Object.getPrototypeOf(e)===C.prototype,e instanceof C,e.constructor===C,e.name,Object.prototype.toString.call(e),e instanceof Error,String(e).indexOf(C.prototype.name)===0].join()}return 'no throw'})(function(){typeof undeclaredName.x},ReferenceError)].join('/')"
    "true,true,true,ReferenceError,[object Error],true,true/true,true,true,ReferenceError,[object Error],true,true/true,true,true,ReferenceError,[object Error],true,true";
  P "intr:raised.TypeError"
    "[(function(f,C){try{f()}catch(e){return [Object.getPrototypeOf(e)===C.prototype,e instanceof C,e.constructor===C,e.name,Object.prototype.toString.call(e),e instanceof Error,String(e).indexOf(C.prototype.name)===0].join()}return 'no throw'})(function(){undefined()},TypeError),(function(f,C){try{f()}catch(e){return [Object.getPrototypeOf(e)===C.prototype,e instanceof C,e.constructor===C,e.name,Object.prototype.toString.call(e),e instanceof Error,String(e).indexOf(C.prototype.name)===0].join()}return 'no throw'})(function(){null.x},TypeError),(function(f,C){try{f()}catch(e){return [Object.getPrototypeOf(e)===C.prototype,e instanceof C,e.constructor===C,e.name,Object.prototype.toString.call(e),e instanceof Error,String(e).indexOf(C.prototype.name)===0].join()}return 'no throw'})(function(){new 5},TypeError),(function(f,C){try{f()}catch(e){return [Object.getPrototypeOf(e)===C.prototype,e instanceof C,e.constructor===C,e.name,Object.prototype.toString.call(e),e instanceof Error,String(e).indexOf(C.prototype.name)===0].join()}return 'no throw'})(function(){({}).x.y},TypeError),(function(f,C){try{f()}catch(e){return [Object.getPrototypeOf(e)===C.prototype,e instanceof C,e.constructor===C,e.name,Object.prototype.toString.call(e),e instanceof Error,String(e).indexOf(C.prototype.name)===0].join()}return 'no throw'})(function(){1 in 2},TypeError),(function(f,C){try{f()}catch(e){return [Object.getPrototypeOf(e)===C.prototype,e instanceof C,e.constructor===C,e.name,Object.prototype.toString.call(e),e instanceof Error,String(e).indexOf(C.prototype.name)===0].join()}return 'no throw'})(function(){Object.defineProperty(1,'x',{})},TypeError)].join('/')"
    "true,true,true,TypeError,[object Error],true,true/true,true,true,TypeError,[object Error],true,true/true,true,true,TypeError,[object Error],true,true/true,true,true,TypeError,[object Error],true,true/true,true,true,TypeError,[object Error],true,true/true,true,true,TypeError,[object Error],true,true";
  P "intr:raised.RangeError"
    "[(function(f,C){try{f()}catch(e){return [Object.getPrototypeOf(e)===C.prototype,e instanceof C,e.constructor===C,e.name,Object.prototype.toString.call(e),e instanceof Error,String(e).indexOf(C.prototype.name)===0].join()}return 'no throw'})(function(){new Array(-1)},RangeError),(function(f,C){try{f()}catch(e){return [Object.getPrototypeOf(e)===C.prototype,e instanceof C,e.constructor===C,e.name,Object.prototype.toString.call(e),e instanceof Error,String(e).indexOf(C.prototype.name)===0].join()}return 'no throw'})(function(){(1).toFixed(101)},RangeError),(function(f,C){try{f()}catch(e){return [Object.getPrototypeOf(e)===C.prototype,e instanceof C,e.constructor===C,e.name,Object.prototype.toString.call(e),e instanceof Error,String(e).indexOf(C.prototype.name)===0].join()}return 'no throw'})(function(){[].length=-1},RangeError),(function(f,C){try{f()}catch(e){return [Object.getPrototypeOf(e)===C.prototype,e instanceof C,e.constructor===C,e.name,Object.prototype.toString.call(e),e instanceof Error,String(e).indexOf(C.prototype.name)===0].join()}return 'no throw'})(function(){(1).toString(99)},RangeError)].join('/')"
    "true,true,true,RangeError,[object Error],true,true/true,true,true,RangeError,[object Error],true,true/true,true,true,RangeError,[object Error],true,true/true,true,true,RangeError,[object Error],true,true";
  P "intr:raised.SyntaxError"
    "[(function(f,C){try{f()}catch(e){return [Object.getPrototypeOf(e)===C.prototype,e instanceof C,e.constructor===C,e.name,Object.prototype.toString.call(e),e instanceof Error,String(e).indexOf(C.prototype.name)===0].join()}return 'no throw'})(function(){eval('var 1x')},SyntaxError),(function(f,C){try{f()}catch(e){return [Object.getPrototypeOf(e)===C.prototype,e instanceof C,e.constructor===C,e.name,Object.prototype.toString.call(e),e instanceof Error,String(e).indexOf(C.prototype.name)===0].join()}return 'no throw'})(function(){new Function('{')},SyntaxError),(function(f,C){try{f()}catch(e){return [Object.getPrototypeOf(e)===C.prototype,e instanceof C,e.constructor===C,e.name,Object.prototype.toString.call(e),e instanceof Error,String(e).indexOf(C.prototype.name)===0].join()}return 'no throw'})(function(){new RegExp('(')},SyntaxError),(function(f,C){try{f()}catch(e){return [Object.getPrototypeOf(e)===C.prototype,e instanceof C,e.constructor===C,e.name,Object.prototype.toString.call(e),e instanceof Error,String(e).indexOf(C.prototype.name)===0].join()}return 'no throw'})(function(){JSON.parse('{')},SyntaxError)].join('/')"
    "true,true,true,SyntaxError,[object Error],true,true/true,true,true,SyntaxError,[object Error],true,true/true,true,true,SyntaxError,[object Error],true,true/true,true,true,SyntaxError,[object Error],true,true";
  P "intr:raised.URIError"
    "[(function(f,C){try{f()}catch(e){return [Object.getPrototypeOf(e)===C.prototype,e instanceof C,e.constructor===C,e.name,Object.prototype.toString.call(e),e instanceof Error,String(e).indexOf(C.prototype.name)===0].join()}return 'no throw'})(function(){decodeURI('%')},URIError),(function(f,C){try{f()}catch(e){return [Object.getPrototypeOf(e)===C.prototype,e instanceof C,e.constructor===C,e.name,Object.prototype.toString.call(e),e instanceof Error,String(e).indexOf(C.prototype.name)===0].join()}return 'no throw'})(function(){decodeURIComponent('%E0%A4%A')},URIError),(function(f,C){try{f()}catch(e){return [Object.getPrototypeOf(e)===C.prototype,e instanceof C,e.constructor===C,e.name,Object.prototype.toString.call(e),e instanceof Error,String(e).indexOf(C.prototype.name)===0].join()}return 'no throw'})(function(){encodeURI(String.fromCharCode(0xD800))},URIError)].join('/')"
    "true,true,true,URIError,[object Error],true,true/true,true,true,URIError,[object Error],true,true/true,true,true,URIError,[object Error],true,true";
  P "intr:constructed.errors"
    "[Error,EvalError,RangeError,ReferenceError,SyntaxError,TypeError,URIError].map(function(C){var a=new C('m'),b=C('m');return [Object.getPrototypeOf(a)===C.prototype,Object.getPrototypeOf(b)===C.prototype,a.constructor===C,a.name===C.prototype.name,Object.prototype.toString.call(b),a.message,a instanceof Error].join('')}).join()"
    "truetruetruetrue[object Error]mtrue,truetruetruetrue[object Error]mtrue,truetruetruetrue[object Error]mtrue,truetruetruetrue[object Error]mtrue,truetruetruetrue[object Error]mtrue,truetruetruetrue[object Error]mtrue,truetruetruetrue[object Error]mtrue";
  P "intr:literals"
    "[Object.getPrototypeOf({})===Object.prototype,Object.getPrototypeOf([])===Array.prototype,[] instanceof Array,Object.getPrototypeOf(function(){})===Function.prototype,(function(){}) instanceof Function,Object.getPrototypeOf(/a/)===RegExp.prototype,/a/ instanceof RegExp,({}).constructor===Object,[].constructor===Array,(function(){}).constructor===Function,/a/.constructor===RegExp,Object.getPrototypeOf((function(){}).prototype)===Object.prototype,Object.getPrototypeOf((function(){return arguments})())===Object.prototype,Object.getPrototypeOf({get x(){return 1}})===Object.prototype].join()"
    "true,true,true,true,true,true,true,true,true,true,true,true,true,true";
  P "intr:primitives"
    "['a'.charAt===String.prototype.charAt,(1).toFixed===Number.prototype.toFixed,true.valueOf===Boolean.prototype.valueOf,Object.getPrototypeOf(Object('s'))===String.prototype,Object.getPrototypeOf(Object(1))===Number.prototype,Object.getPrototypeOf(Object(true))===Boolean.prototype,Object.getPrototypeOf(new Date(0))===Date.prototype,Object.getPrototypeOf(new String('s'))===String.prototype,(function(){return Object.getPrototypeOf(this)}).call('s')===String.prototype,(function(){return Object.getPrototypeOf(this)}).call(1)===Number.prototype].join()"
    "true,true,true,true,true,true,true,true,true,true";
  P "intr:results"
    "[[1].map(function(x){return x}),[1].filter(function(){return true}),[1].concat(2),[1,2].slice(1),[1,2,3].splice(1,1),Object.keys({a:1}),Object.getOwnPropertyNames({a:1}),'a,b'.split(','),'aa'.match(/a/g),/a/.exec('a'),JSON.parse('[1]'),Array(2),new Array(1,2),Array.prototype.concat.call(1)].map(function(r){return Object.getPrototypeOf(r)===Array.prototype&&Array.isArray(r)}).join()+'/'+[Object.getOwnPropertyDescriptor({a:1},'a'),JSON.parse('{}'),Object.create(Object.prototype),new Object,Object(null),Object.defineProperties({},{})].map(function(r){return Object.getPrototypeOf(r)===Object.prototype}).join()+'/'+[(function(){}).bind(null),Function(''),new Function(''),Function.prototype.bind.call(Math.max,null),Object.getOwnPropertyDescriptor({get x(){return 1}},'x').get].map(function(r){return Object.getPrototypeOf(r)===Function.prototype}).join()"
    "true,true,true,true,true,true,true,true,true,true,true,true,true,true/true,true,true,true,true,true/true,true,true,true,true";
  P "fn:declaration"
    "(function(){function d0(){}function d1(a){}function d2(a,b){}function d3(a,b,c){}return [d0,d1,d2,d3].map((function(f){var d=Object.getOwnPropertyDescriptor(f,'length'),p=Object.getOwnPropertyDescriptor(f,'prototype');return (d?[d.value,d.writable,d.enumerable,d.configurable].join(''):'none')+'/'+(p?[typeof p.value,p.writable,p.enumerable,p.configurable,p.value.constructor===f,Object.getOwnPropertyDescriptor(p.value,'constructor').enumerable].join(''):'none')})).join()})()"
    "0falsefalsefalse/objecttruefalsefalsetruefalse,1falsefalsefalse/objecttruefalsefalsetruefalse,2falsefalsefalse/objecttruefalsefalsetruefalse,3falsefalsefalse/objecttruefalsefalsetruefalse";
  P "fn:expression"
    "[function(){},function(a){},function(a,b){},function n3(a,b,c){}].map((function(f){var d=Object.getOwnPropertyDescriptor(f,'length'),p=Object.getOwnPropertyDescriptor(f,'prototype');return (d?[d.value,d.writable,d.enumerable,d.configurable].join(''):'none')+'/'+(p?[typeof p.value,p.writable,p.enumerable,p.configurable,p.value.constructor===f,Object.getOwnPropertyDescriptor(p.value,'constructor').enumerable].join(''):'none')})).join()"
    "0falsefalsefalse/objecttruefalsefalsetruefalse,1falsefalsefalse/objecttruefalsefalsetruefalse,2falsefalsefalse/objecttruefalsefalsetruefalse,3falsefalsefalse/objecttruefalsefalsetruefalse";
  P "fn:Function"
    "[Function(),Function('return 1'),Function('a',''),Function('a','b',''),Function('a','b,c','')].map((function(f){var d=Object.getOwnPropertyDescriptor(f,'length'),p=Object.getOwnPropertyDescriptor(f,'prototype');return (d?[d.value,d.writable,d.enumerable,d.configurable].join(''):'none')+'/'+(p?[typeof p.value,p.writable,p.enumerable,p.configurable,p.value.constructor===f,Object.getOwnPropertyDescriptor(p.value,'constructor').enumerable].join(''):'none')})).join()"
    "0falsefalsefalse/objecttruefalsefalsetruefalse,0falsefalsefalse/objecttruefalsefalsetruefalse,1falsefalsefalse/objecttruefalsefalsetruefalse,2falsefalsefalse/objecttruefalsefalsetruefalse,3falsefalsefalse/objecttruefalsefalsetruefalse";
  P "fn:newFunction"
    "[new Function(),new Function('return 1'),new Function('a',''),new Function('a,b',''),new Function('a','b','c','')].map((function(f){var d=Object.getOwnPropertyDescriptor(f,'length'),p=Object.getOwnPropertyDescriptor(f,'prototype');return (d?[d.value,d.writable,d.enumerable,d.configurable].join(''):'none')+'/'+(p?[typeof p.value,p.writable,p.enumerable,p.configurable,p.value.constructor===f,Object.getOwnPropertyDescriptor(p.value,'constructor').enumerable].join(''):'none')})).join()"
    "0falsefalsefalse/objecttruefalsefalsetruefalse,0falsefalsefalse/objecttruefalsefalsetruefalse,1falsefalsefalse/objecttruefalsefalsetruefalse,2falsefalsefalse/objecttruefalsefalsetruefalse,3falsefalsefalse/objecttruefalsefalsetruefalse";
  P "fn:bind"
    "(function(){function t(a,b,c){}return [t.bind(null),t.bind(null,1),t.bind(null,1,2),t.bind(null,1,2,3),t.bind(null,1,2,3,4),(function(){}).bind(null),Math.max.bind(null),parseInt.bind(null,1,2,3)].map((function(f){var d=Object.getOwnPropertyDescriptor(f,'length');return d?[d.value,d.writable,d.enumerable,d.configurable].join(''):'none'})).join()})()"
    "3falsefalsefalse,2falsefalsefalse,1falsefalsefalse,0falsefalsefalse,0falsefalsefalse,0falsefalsefalse,2falsefalsefalse,0falsefalsefalse";
  P "fn:accessors"
    "(function(){var o={get x(){return 1},set x(v){},get y(){return 2},set z(v){}};var dx=Object.getOwnPropertyDescriptor(o,'x'),dy=Object.getOwnPropertyDescriptor(o,'y'),dz=Object.getOwnPropertyDescriptor(o,'z');var p=Object.defineProperty({},'w',{get:function(){return 1},set:function(a,b){}});var dp=Object.getOwnPropertyDescriptor(p,'w');return [dx.get,dx.set,dy.get,dz.set,dp.get,dp.set].map((function(f){var d=Object.getOwnPropertyDescriptor(f,'length');return d?[d.value,d.writable,d.enumerable,d.configurable].join(''):'none'})).join()+'/'+[dy.set,dz.get].join()})()"
    "0falsefalsefalse,1falsefalsefalse,0falsefalsefalse,1falsefalsefalse,0falsefalsefalse,2falsefalsefalse/,";
  P "fn:name.and.hasOwn"
    "(function(){function d0(){}var fs=[d0,function(){},Function(),new Function('return 1'),(function(){}).bind(null),Object.getOwnPropertyDescriptor({get x(){return 1}},'x').get];return fs.map(function(f){return [f.hasOwnProperty('length'),f.length,delete f.length,f.hasOwnProperty('length'),Object.getOwnPropertyNames(f).indexOf('length')>=0].join('')}).join()})()"
    "true0falsetruetrue,true0falsetruetrue,true0falsetruetrue,true0falsetruetrue,true0falsetruetrue,true0falsetruetrue"
].

(* 15.3.4.5 step 15: the own length of a bound function is max(0, L - n) EXACTLY, for targets of
   0..3 parameters (and natives, and bound functions) bound with 0..4 arguments, always
   {writable, enumerable, configurable} = false; bound calls prepend the bound arguments.
   11.1.5 / 13.2: the get/set functions of an object literal, and functions given to
   defineProperty/create/defineProperties, are ordinary function objects (own length, own
   prototype {w,!e,!c} with the constructor back-link, constructible). *)
Definition function_probes : list probe := [
  P "fn:bind.matrix"
    "(function(ts){var a=[1,2,3,4],out=[];for(var i=0;i<ts.length;i++){var row=[];for(var n=0;n<=4;n++){var b=ts[i].bind.apply(ts[i],[null].concat(a.slice(0,n)));var d=Object.getOwnPropertyDescriptor(b,'length');row.push(d&&!d.writable&&!d.enumerable&&!d.configurable&&typeof b==='function'?d.value:'bad')}out.push(row.join(''))}return out.join()})([function(){},function(a){},function(a,b){},function(a,b,c){}])"
    "00000,10000,21000,32100";
  P "fn:bind.natives"
    "(function(ts){var a=[1,2,3,4],out=[];for(var i=0;i<ts.length;i++){var row=[];for(var n=0;n<=4;n++){var b=ts[i].bind.apply(ts[i],[null].concat(a.slice(0,n)));var d=Object.getOwnPropertyDescriptor(b,'length');row.push(d&&!d.writable&&!d.enumerable&&!d.configurable&&typeof b==='function'?d.value:'bad')}out.push(row.join(''))}return out.join()})([Math.max,parseInt,String.prototype.replace,Date.UTC,Array,Math.random,Function.prototype.call,Object.defineProperty])"
    "21000,21000,21000,76543,10000,00000,10000,32100";
  P "fn:bind.bound"
    "(function(){function t(a,b,c){}var b1=t.bind(null,1),b2=b1.bind(null,2),b3=b2.bind(null,3),b4=b3.bind(null,4),b5=b4.bind(null,5,6);return (function(ts){var a=[1,2,3,4],out=[];for(var i=0;i<ts.length;i++){var row=[];for(var n=0;n<=4;n++){var b=ts[i].bind.apply(ts[i],[null].concat(a.slice(0,n)));var d=Object.getOwnPropertyDescriptor(b,'length');row.push(d&&!d.writable&&!d.enumerable&&!d.configurable&&typeof b==='function'?d.value:'bad')}out.push(row.join(''))}return out.join()})([b1,b2,b3,b4,b5,Math.max.bind(null,1)])})()"
    "21000,10000,00000,00000,00000,10000";
  P "fn:bind.calls"
    "(function(){function t(a,b,c){return [this.k,a,b,c,arguments.length].join('')}var o={k:7};return [t.bind(o)(1),t.bind(o,1,2)(3),t.bind(o,1,2,3,4)(5),parseInt.bind(null,'101',2)(10),Math.max.bind(null,9)(1,2)].join()})()"
    "711,71233,71235,5,9";
  P "fn:accessor.literal"
    "(function(){var o={get x(){return 1},set x(v){},get y(){return 2},set z(v){}};var dx=Object.getOwnPropertyDescriptor(o,'x'),dy=Object.getOwnPropertyDescriptor(o,'y'),dz=Object.getOwnPropertyDescriptor(o,'z');return [dx.get,dx.set,dy.get,dz.set].map((function(f){var d=Object.getOwnPropertyDescriptor(f,'length'),p=Object.getOwnPropertyDescriptor(f,'prototype');return (d?[d.value,d.writable,d.enumerable,d.configurable].join(''):'none')+'/'+(p?[typeof p.value,p.writable,p.enumerable,p.configurable,p.value.constructor===f,Object.getOwnPropertyDescriptor(p.value,'constructor').enumerable,Object.getPrototypeOf(p.value)===Object.prototype].join(''):'none')+'/'+(Object.getPrototypeOf(f)===Function.prototype)+typeof f+Object.prototype.toString.call(f)})).join()})()"
    "0falsefalsefalse/objecttruefalsefalsetruefalsetrue/truefunction[object Function],1falsefalsefalse/objecttruefalsefalsetruefalsetrue/truefunction[object Function],0falsefalsefalse/objecttruefalsefalsetruefalsetrue/truefunction[object Function],1falsefalsefalse/objecttruefalsefalsetruefalsetrue/truefunction[object Function]";
  P "fn:accessor.defined"
    "(function(){var p=Object.defineProperty({},'w',{get:function(){return 1},set:function(a,b){}});var dp=Object.getOwnPropertyDescriptor(p,'w');var c=Object.create({},{v:{get:function(){return 1}}});var dc=Object.getOwnPropertyDescriptor(c,'v');var m=Object.defineProperties({},{u:{set:function(a,b,c){}}});var dm=Object.getOwnPropertyDescriptor(m,'u');return [dp.get,dp.set,dc.get,dm.set].map((function(f){var d=Object.getOwnPropertyDescriptor(f,'length'),p=Object.getOwnPropertyDescriptor(f,'prototype');return (d?[d.value,d.writable,d.enumerable,d.configurable].join(''):'none')+'/'+(p?[typeof p.value,p.writable,p.enumerable,p.configurable,p.value.constructor===f,Object.getOwnPropertyDescriptor(p.value,'constructor').enumerable,Object.getPrototypeOf(p.value)===Object.prototype].join(''):'none')+'/'+(Object.getPrototypeOf(f)===Function.prototype)+typeof f+Object.prototype.toString.call(f)})).join()})()"
    "0falsefalsefalse/objecttruefalsefalsetruefalsetrue/truefunction[object Function],2falsefalsefalse/objecttruefalsefalsetruefalsetrue/truefunction[object Function],0falsefalsefalse/objecttruefalsefalsetruefalsetrue/truefunction[object Function],3falsefalsefalse/objecttruefalsefalsetruefalsetrue/truefunction[object Function]";
  P "fn:accessor.construct"
    "(function(){var o={get x(){this.k=1}};var G=Object.getOwnPropertyDescriptor(o,'x').get;var i=new G;return [i.k,i instanceof G,Object.getPrototypeOf(i)===G.prototype,i.constructor===G].join()})()"
    "1,true,true,true";
  P "fn:method.values"
    "(function(){var o={m:function(a,b){},n:function n2(){}};return [o.m,o.n].map((function(f){var d=Object.getOwnPropertyDescriptor(f,'length'),p=Object.getOwnPropertyDescriptor(f,'prototype');return (d?[d.value,d.writable,d.enumerable,d.configurable].join(''):'none')+'/'+(p?[typeof p.value,p.writable,p.enumerable,p.configurable,p.value.constructor===f,Object.getOwnPropertyDescriptor(p.value,'constructor').enumerable,Object.getPrototypeOf(p.value)===Object.prototype].join(''):'none')+'/'+(Object.getPrototypeOf(f)===Function.prototype)+typeof f+Object.prototype.toString.call(f)})).join()})()"
    "2falsefalsefalse/objecttruefalsefalsetruefalsetrue/truefunction[object Function],0falsefalsefalse/objecttruefalsefalsetruefalsetrue/truefunction[object Function]"
].

(* 15.3.2.1: the arguments of Function / new Function are "all but the last = parameter texts,
   joined with commas" and "last = body"; every way of splitting the same text over the arguments
   must give the function that split denotes.  $X and $Y are replaced by the harness with
   identifiers: the fixed cx, cy when the probes run as ordinary probes in every configuration,
   and FRESH identifiers in the cross-runtime histories, where another runtime of the same process
   (fresh, underscore, a copy) first runs some of these templates in a random order and the
   observed runtime (fresh, underscore, Copy(), copy of a copy, a copy of that other runtime,
   made before or after) then runs all of them in another random order: what a runtime answers
   must not depend on what other runtimes did before.  The expectations do not depend on the
   identifiers. *)
Definition cross_probes : list probe := [
  P "cross:F(X)(Y)"
    "(function(mk){try{var f=mk();var r;try{r=String(f(2,3,4))}catch(e){r=e.name}return [f.length,r].join()}catch(e){return e.name}})(function(){return Function('$X','$Y')})"
    "1,ReferenceError";
  P "cross:F(X,Y)"
    "(function(mk){try{var f=mk();var r;try{r=String(f(2,3,4))}catch(e){r=e.name}return [f.length,r].join()}catch(e){return e.name}})(function(){return Function('$X,$Y')})"
    "0,ReferenceError";
  P "cross:newF(X)(Y)"
    "(function(mk){try{var f=mk();var r;try{r=String(f(2,3,4))}catch(e){r=e.name}return [f.length,r].join()}catch(e){return e.name}})(function(){return new Function('$X','$Y')})"
    "1,ReferenceError";
  P "cross:F(X, Y)(body)"
    "(function(mk){try{var f=mk();var r;try{r=String(f(2,3,4))}catch(e){r=e.name}return [f.length,r].join()}catch(e){return e.name}})(function(){return Function('$X, $Y','return $X+$Y')})"
    "2,5";
  P "cross:F(X,Y)(body)"
    "(function(mk){try{var f=mk();var r;try{r=String(f(2,3,4))}catch(e){r=e.name}return [f.length,r].join()}catch(e){return e.name}})(function(){return Function('$X,$Y','return $X+$Y')})"
    "2,5";
  P "cross:F( X )(Y)(body)"
    "(function(mk){try{var f=mk();var r;try{r=String(f(2,3,4))}catch(e){r=e.name}return [f.length,r].join()}catch(e){return e.name}})(function(){return Function(' $X ','$Y','return $X+$Y')})"
    "2,5";
  P "cross:F(X)(Y)(body)"
    "(function(mk){try{var f=mk();var r;try{r=String(f(2,3,4))}catch(e){r=e.name}return [f.length,r].join()}catch(e){return e.name}})(function(){return new Function('$X','$Y','return $X+$Y')})"
    "2,5";
  P "cross:F(X,Y,body)"
    "(function(mk){try{var f=mk();var r;try{r=String(f(2,3,4))}catch(e){r=e.name}return [f.length,r].join()}catch(e){return e.name}})(function(){return Function('$X,$Y,return $X+$Y')})"
    "SyntaxError";
  P "cross:F(X,Y)(z)(body)"
    "(function(mk){try{var f=mk();var r;try{r=String(f(2,3,4))}catch(e){r=e.name}return [f.length,r].join()}catch(e){return e.name}})(function(){return Function('$X,$Y','z','return $X+$Y+z')})"
    "3,9";
  P "cross:F(X)(Y,z)(body)"
    "(function(mk){try{var f=mk();var r;try{r=String(f(2,3,4))}catch(e){r=e.name}return [f.length,r].join()}catch(e){return e.name}})(function(){return Function('$X','$Y,z','return $X+$Y+z')})"
    "3,9";
  P "cross:F(X,Y,z)(body2)"
    "(function(mk){try{var f=mk();var r;try{r=String(f(2,3,4))}catch(e){r=e.name}return [f.length,r].join()}catch(e){return e.name}})(function(){return Function('$X,$Y,z','return $X*$Y*z')})"
    "3,24";
  P "cross:F(X)(ret7)"
    "(function(mk){try{var f=mk();var r;try{r=String(f(2,3,4))}catch(e){r=e.name}return [f.length,r].join()}catch(e){return e.name}})(function(){return Function('$X','return 7')})"
    "1,7";
  P "cross:F(X,ret7)"
    "(function(mk){try{var f=mk();var r;try{r=String(f(2,3,4))}catch(e){r=e.name}return [f.length,r].join()}catch(e){return e.name}})(function(){return Function('$X,return 7')})"
    "SyntaxError";
  P "cross:F(X)(ret8)"
    "(function(mk){try{var f=mk();var r;try{r=String(f(2,3,4))}catch(e){r=e.name}return [f.length,r].join()}catch(e){return e.name}})(function(){return Function('$X','return 8')})"
    "1,8";
  P "cross:F()(X,Y)"
    "(function(mk){try{var f=mk();var r;try{r=String(f(2,3,4))}catch(e){r=e.name}return [f.length,r].join()}catch(e){return e.name}})(function(){return Function('','$X,$Y')})"
    "0,ReferenceError";
  P "cross:F()"
    "(function(mk){try{var f=mk();var r;try{r=String(f(2,3,4))}catch(e){r=e.name}return [f.length,r].join()}catch(e){return e.name}})(function(){return Function()})"
    "0,undefined";
  P "cross:F(empty)"
    "(function(mk){try{var f=mk();var r;try{r=String(f(2,3,4))}catch(e){r=e.name}return [f.length,r].join()}catch(e){return e.name}})(function(){return Function('')})"
    "0,undefined"
].

(* Probes that report the list of failing sub-checks (expected: none).
   own:first.operations - 13.2 steps 16-18, 15.3.5.2, 8.12.9, 15.2.3.8-10: a function made by a
     declaration / expression / Function() / new Function() / an object-literal get, set or
     method has its own prototype {writable unless frozen, !enumerable, !configurable} with the
     constructor back-link, its own length, and constructs instances of itself, WHATEVER the
     first one or two operations on it are: preventExtensions, seal, freeze,
     getOwnPropertyNames, keys, hasOwnProperty / in / delete of prototype, length, caller,
     defineProperty of prototype (partial, or a new value, which then is the prototype),
     assignment to prototype, isFrozen, new, instanceof, propertyIsEnumerable - every ordered
     pair of these 20 operations on 4 kinds of function and every single first operation on 9.
   own:bind.targets - 15.3.4.5 steps 16-17: bind over every kind of callable (script functions,
     natives, eval, bound and twice-bound functions, Function.prototype itself, every built-in
     constructor, accessor functions, prototype methods) gives a function whose [[Class]] is
     Function, whose [[Prototype]] is THIS runtime's Function.prototype, extensible, with
     call/apply/bind, a valid own length; Function.prototype.bind(null) is a working no-op.
   own:reachable.functions - every function object reachable from a function instance (the
     get/set of accessor-valued caller/arguments, the function itself, arguments.callee, the
     get of an Error's stack where an implementation has one) inherits from THIS runtime's
     Function.prototype, prototype objects from this runtime's Object.prototype, a poisoned
     accessor throws this runtime's TypeError.
   They run in every configuration and history, and in the cross-runtime history after another
   runtime of the process ran them first (second, third ... runtime of the process, copies). *)
Definition ownership_probes : list probe := [
  P "own:first.operations"
    "(function(){ var gOPD=Object.getOwnPropertyDescriptor, bad=[]; var makers=[ ['decl0',function(){function d(){} return d},0], ['decl2',function(){function d(a,b){} return d},2], ['expr1',function(){return function(a){}},1], ['named3',function(){return function n(a,b,c){}},3], ['Function2',function(){return Function('a','b','return a')},2], ['newFunction0',function(){return new Function('return 1')},0], ['getter0',function(){return gOPD({get x(){return 1}},'x').get},0], ['setter1',function(){return gOPD({set x(v){}},'x').set},1], ['method1',function(){return {m:function(a){}}.m},1] ]; var ops=[ ['preventExtensions',function(F,st){Object.preventExtensions(F)}], ['seal',function(F,st){Object.seal(F)}], ['freeze',function(F,st){Object.freeze(F);st.frozen=true}], ['names',function(F,st){Object.getOwnPropertyNames(F)}], ['keys',function(F,st){Object.keys(F)}], ['hasOwn.prototype',function(F,st){F.hasOwnProperty('prototype')}], ['in.prototype',function(F,st){'prototype' in F}], ['delete.prototype',function(F,st){delete F.prototype}], ['delete.length',function(F,st){delete F.length}], ['hasOwn.length',function(F,st){F.hasOwnProperty('length')}], ['in.caller',function(F,st){'caller' in F;'arguments' in F}], ['define.prototype.partial',function(F,st){Object.defineProperty(F,'prototype',{enumerable:false})}], ['define.prototype.value',function(F,st){var P={mark:1};Object.defineProperty(F,'prototype',{value:P});st.P=P}], ['assign.prototype',function(F,st){var P={mark:2};F.prototype=P;if(!st.frozen)st.P=P}], ['define.length.same',function(F,st){Object.defineProperty(F,'length',{writable:false})}], ['define.other',function(F,st){Object.defineProperty(F,'other',{value:1,configurable:true})}], ['isFrozen',function(F,st){Object.isFrozen(F);Object.isSealed(F);Object.isExtensible(F)}], ['new',function(F,st){new F}], ['instanceof',function(F,st){({}) instanceof F}], ['propertyIsEnumerable',function(F,st){F.propertyIsEnumerable('prototype')}] ]; function check(tag,F,n,st){ var d=gOPD(F,'prototype'); if(!d){bad.push(tag+':no-prototype');return} if(!('value' in d)||d.value===null||typeof d.value!=='object')bad.push(tag+':prototype-value'); if(d.enumerable!==false)bad.push(tag+':prototype-enumerable'); if(d.configurable!==false)bad.push(tag+':prototype-configurable'); if(d.writable!==!st.frozen)bad.push(tag+':prototype-writable='+d.writable); if(st.P){if(d.value!==st.P)bad.push(tag+':prototype-not-the-installed-object')} else{ var c=d.value&&gOPD(d.value,'constructor'); if(!c||c.value!==F)bad.push(tag+':constructor-link'); else if(c.enumerable!==false||c.writable!==true||c.configurable!==true)bad.push(tag+':constructor-attrs'); if(d.value&&Object.getPrototypeOf(d.value)!==Object.prototype)bad.push(tag+':prototype-proto'); } var l=gOPD(F,'length'); if(!l||l.value!==n||l.writable||l.enumerable||l.configurable)bad.push(tag+':length'); try{var i=new F;if(!(i instanceof F))bad.push(tag+':instanceof');if(Object.getPrototypeOf(i)!==d.value)bad.push(tag+':instance-proto')}catch(e){bad.push(tag+':new-threw-'+e.name)} if(Object.getPrototypeOf(F)!==Function.prototype)bad.push(tag+':fn-proto'); if(F.prototype!==d.value)bad.push(tag+':get-differs'); } var count=0; var pairMakers=[0,2,4,6]; for(var pm=0;pm<pairMakers.length;pm++)for(var i=0;i<ops.length;i++)for(var j=0;j<ops.length;j++){var m=pairMakers[pm]; if(i===j)continue; var F=makers[m][1](),st={frozen:false,P:null},tag=makers[m][0]+'>'+ops[i][0]+'>'+ops[j][0]; try{ops[i][1](F,st)}catch(e){if(!(e instanceof TypeError))bad.push(tag+':op1-threw-'+e.name)} try{ops[j][1](F,st)}catch(e){if(!(e instanceof TypeError))bad.push(tag+':op2-threw-'+e.name)} check(tag,F,makers[m][2],st);count++; } for(var m=0;m<makers.length;m++)for(var i=0;i<ops.length;i++){ var F=makers[m][1](),st={frozen:false,P:null},tag=makers[m][0]+'>'+ops[i][0]; try{ops[i][1](F,st)}catch(e){if(!(e instanceof TypeError))bad.push(tag+':op1-threw-'+e.name)} check(tag,F,makers[m][2],st);count++; } return count+' sequences; failing: '+bad.slice(0,12).join(' ')+(bad.length>12?' ... '+bad.length:''); })()"
    "1700 sequences; failing: ";
  P "own:bind.targets"
    "(function(){ var gOPD=Object.getOwnPropertyDescriptor, bad=[]; function sf(a,b){} var lit={get x(){return 1},set x(v){}}; var targets=[['script',sf],['expr',function(){}],['Function()',Function('a','')],['Math.max',Math.max],['parseInt',parseInt],['eval',eval], ['bound',sf.bind(null)],['bound.bound',sf.bind(null,1).bind(null)],['Function.prototype',Function.prototype], ['Function.prototype.call',Function.prototype.call],['Function.prototype.bind',Function.prototype.bind], ['Object',Object],['Function',Function],['Array',Array],['String',String],['Boolean',Boolean],['Number',Number],['Date',Date],['RegExp',RegExp], ['Error',Error],['EvalError',EvalError],['RangeError',RangeError],['ReferenceError',ReferenceError],['SyntaxError',SyntaxError],['TypeError',TypeError],['URIError',URIError], ['getter',gOPD(lit,'x').get],['setter',gOPD(lit,'x').set],['Object.prototype.toString',Object.prototype.toString],['JSON.parse',JSON.parse],['Date.prototype.getTime',Date.prototype.getTime]]; var cd=gOPD(sf,'caller'); if(cd&&typeof cd.get==='function')targets.push(['caller-getter',cd.get]); for(var i=0;i<targets.length;i++){ var tag=targets[i][0],t=targets[i][1],variants=[function(){return t.bind()},function(){return t.bind(null)},function(){return t.bind({},1,2)},function(){return Function.prototype.bind.call(t,null)},function(){return Function.prototype.bind.apply(t,[null,1])}]; for(var v=0;v<variants.length;v++){ var b;try{b=variants[v]()}catch(e){bad.push(tag+'#'+v+':bind-threw-'+e.name);continue} if(typeof b!=='function')bad.push(tag+'#'+v+':typeof'); if(Object.prototype.toString.call(b)!=='[object Function]')bad.push(tag+'#'+v+':class'); if(Object.getPrototypeOf(b)!==Function.prototype)bad.push(tag+'#'+v+':proto'); if(!(b instanceof Function))bad.push(tag+'#'+v+':instanceof'); if(b.constructor!==Function)bad.push(tag+'#'+v+':constructor'); if(typeof b.call!=='function'||typeof b.apply!=='function'||typeof b.bind!=='function')bad.push(tag+'#'+v+':methods'); if(b.call!==Function.prototype.call)bad.push(tag+'#'+v+':call-identity'); if(!Object.isExtensible(b))bad.push(tag+'#'+v+':extensible'); var l=gOPD(b,'length');if(!l||typeof l.value!=='number'||l.value<0||l.writable||l.enumerable||l.configurable)bad.push(tag+'#'+v+':length'); } } var noop=Function.prototype.bind(null); try{if(noop()!==undefined||noop.call(null,1)!==undefined||noop.apply(null,[1])!==undefined)bad.push('noop:result')}catch(e){bad.push('noop:threw-'+e.name)} return (targets.length>=31)+'; failing: '+bad.slice(0,12).join(' ')+(bad.length>12?' ... '+bad.length:''); })()"
    "true; failing: ";
  P "own:reachable.functions"
    "(function(){ var gOPD=Object.getOwnPropertyDescriptor, bad=[], seen=0; function own(tag,g){ seen++; if(typeof g!=='function'){bad.push(tag+':not-a-function');return} if(Object.getPrototypeOf(g)!==Function.prototype)bad.push(tag+':proto-is-not-this-runtimes-Function.prototype'); if(!(g instanceof Function))bad.push(tag+':instanceof'); if(g.constructor!==Function)bad.push(tag+':constructor'); if(g.call!==Function.prototype.call)bad.push(tag+':call'); if(Object.prototype.toString.call(g)!=='[object Function]')bad.push(tag+':class'); } function sf(a){} var lit={get x(){return 1},set x(v){}}; var fns=[['script',sf],['expr',function(){}],['Function()',Function('')],['bound',sf.bind(null)],['bound.native',Math.max.bind(null)],['bound.bound',sf.bind(null).bind(null)], ['noop',Function.prototype.bind(null)],['getter',gOPD(lit,'x').get],['setter',gOPD(lit,'x').set],['callee',(function(){return arguments.callee})()]]; for(var i=0;i<fns.length;i++){ var tag=fns[i][0],f=fns[i][1]; own(tag,f); var names=['caller','arguments']; for(var k=0;k<names.length;k++){ var d=gOPD(f,names[k]); if(d&&!('value' in d)){ if(d.get!==undefined)own(tag+'.'+names[k]+'.get',d.get); if(d.set!==undefined)own(tag+'.'+names[k]+'.set',d.set); if(tag.indexOf('bound')===0||tag==='noop'){ try{f[names[k]];bad.push(tag+'.'+names[k]+':get-did-not-throw')}catch(e){ if(!(e instanceof TypeError)||Object.getPrototypeOf(e)!==TypeError.prototype)bad.push(tag+'.'+names[k]+':thrown-error-is-not-this-runtimes-TypeError')} } } } var p=gOPD(f,'prototype'); if(p&&p.value){ if(Object.getPrototypeOf(p.value)!==Object.prototype)bad.push(tag+'.prototype:proto'); if(!(p.value instanceof Object))bad.push(tag+'.prototype:instanceof'); var c=gOPD(p.value,'constructor');if(c&&c.value!==f)bad.push(tag+'.prototype.constructor'); if(p.value.hasOwnProperty!==Object.prototype.hasOwnProperty)bad.push(tag+'.prototype:methods'); } } var a=(function(){return arguments})(1); if(Object.getPrototypeOf(a)!==Object.prototype)bad.push('arguments:proto'); var e1;try{null.x}catch(e){e1=e} if(Object.getPrototypeOf(e1)!==TypeError.prototype)bad.push('raised:proto'); var sd=gOPD(e1,'stack');if(sd&&!('value' in sd)&&sd.get!==undefined)own('raised.stack.get',sd.get); var sd2=gOPD(new Error('m'),'stack');if(sd2&&!('value' in sd2)&&sd2.get!==undefined)own('constructed.stack.get',sd2.get); return (seen>=10)+'; failing: '+bad.slice(0,12).join(' ')+(bad.length>12?' ... '+bad.length:''); })()"
    "true; failing: "
].

(* "Bound to the operation of that name" for the built-ins ES5 defines as GENERIC or as DELEGATING
   to another property of their receiver, and for the constructors that are also callable:
   gen:*  - Date.prototype.toJSON looks toISOString up on the receiver (15.9.5.44: shadowed on an
     instance, replaced on the prototype, a non-Date receiver, through JSON.stringify, null for a
     non-finite number, TypeError if not callable); Object.prototype.toLocaleString -> toString
     (15.2.4.3); Array.prototype.toString -> join, else Object.prototype.toString (15.4.4.2);
     Array.prototype.toLocaleString -> the elements' toLocaleString (15.4.4.3); join -> ToString
     of elements and separator; sort -> comparator / ToString; every Array.prototype method on
     array-like receivers (15.4.4.x "intentionally generic"); the String.prototype methods on
     numbers, booleans, arrays and objects with toString, TypeError for null (15.5.4.x);
     replace/match/search/split with function and object arguments (15.5.4.10-14);
     JSON.stringify -> toJSON, replacer, the valueOf/toString of wrapper objects, gap objects
     (15.12.3); JSON.parse -> reviver order (15.12.2); Error.prototype.toString -> name/message
     of any object (15.11.4.4); ToPrimitive order through String/Number/Date/parseInt/isNaN/Math
     (8.12.8, 9.1); property keys through ToString; ToPropertyDescriptor reads inherited fields
     through [[Get]] (8.10.5); apply/call with array-likes and this coercion (15.3.4.3-4); and the
     methods that are NOT generic throw TypeError on a foreign receiver.
   callform:* - Date(...) ignores its arguments and answers with the current time (15.9.2.1);
     String/Number/Boolean(...) convert (15.5.1, 15.7.1, 15.6.1); Object(...) is ToObject or a new
     object (15.2.1.1); Array(...) = new Array(...) including the RangeErrors (15.4.1, 15.4.2.2);
     RegExp(re) returns re itself (15.10.3.1); Error/NativeError(...) = new (15.11.1, 15.11.7.1);
     Function(...) = new Function(...) (15.3.1.1) - each with every kind of argument list.
   uri:decode - decodeURIComponent decodes the reserved set that decodeURI keeps (15.1.3.1-2),
     and the encode pair likewise.
   All run in every configuration and history. *)
Definition generic_probes : list probe := [
  P "gen:Date.toJSON"
    "(function(){var d=new Date(0);var r=[d.toJSON()];d.toISOString=function(){return 'own:'+this.getTime()};r.push(d.toJSON(),JSON.stringify(d),JSON.stringify({k:d}));r.push(Date.prototype.toJSON.call({valueOf:function(){return 1},toISOString:function(){return 'generic'}}));r.push(Date.prototype.toJSON.call({valueOf:function(){return NaN},toISOString:function(){return 'no'}})===null,new Date(NaN).toJSON()===null);var t;try{Date.prototype.toJSON.call({valueOf:function(){return 1},toISOString:5});t='no'}catch(e){t=e instanceof TypeError}r.push(t);var saved=Date.prototype.toISOString;Date.prototype.toISOString=function(){return 'poly'};try{r.push(new Date(5).toJSON(),JSON.stringify(new Date(5)))}finally{Date.prototype.toISOString=saved}r.push(new Date(5).toJSON());return r.join('|')})()"
    "1970-01-01T00:00:00.000Z|own:0|""own:0""|{""k"":""own:0""}|generic|true|true|true|poly|""poly""|1970-01-01T00:00:00.005Z";
  P "gen:Object.toLocaleString"
    "[Object.prototype.toLocaleString.call({toString:function(){return 'ts'}}),Object.prototype.toLocaleString.call(7),(function(){try{Object.prototype.toLocaleString.call({toString:5});return 'no'}catch(e){return e instanceof TypeError}})(),Object.prototype.toLocaleString.call([1,2]),Object.prototype.toLocaleString.call({})].join('|')"
    "ts|7|true|1,2|[object Object]";
  P "gen:Array.toString"
    "[Array.prototype.toString.call({join:function(){return 'J'}}),Array.prototype.toString.call({join:5}),Array.prototype.toString.call({}),(function(){var a=[1,2];a.join=function(){return 'own'};return [a.toString(),String(a),a+'']})().join(),Array.prototype.toString.call('ab'),Array.prototype.toString.call({length:2,0:'x',1:'y',join:Array.prototype.join})].join('|')"
    "J|[object Object]|[object Object]|own,own,own|[object String]|x,y";
  P "gen:Array.toLocaleString"
    "[Array.prototype.toLocaleString.call([{toLocaleString:function(){return 'L'},toString:function(){return 'T'}}]),Array.prototype.toLocaleString.call({length:1,0:{toLocaleString:function(){return 'G'}}}),[null].toLocaleString()===''&&[undefined].toLocaleString()==='',(function(){try{[{toLocaleString:5}].toLocaleString();return 'no'}catch(e){return e instanceof TypeError}})()].join('|')"
    "L|G|true|true";
  P "gen:Array.join"
    "[[{toString:function(){return 'a'}},{toString:function(){return 'b'},valueOf:function(){return 'v'}}].join('-'),Array.prototype.join.call({length:3,0:'x',2:'z'},'+'),Array.prototype.join.call('abc','.'),[1,2].join({toString:function(){return '/'}}),Array.prototype.join.call({length:'2',0:1,1:2})].join('|')"
    "a-b|x++z|a.b.c|1/2|1,2";
  P "gen:Array.sort"
    "(function(){var calls=0;var a=[3,1,2].sort(function(x,y){calls++;return y-x});var o={length:3,0:'b',1:'c',2:'a'};Array.prototype.sort.call(o);var t=[{toString:function(){return 'b'}},{toString:function(){return 'a'}}].sort();return [a.join(''),calls>0,o[0]+o[1]+o[2],String(t[0])+String(t[1]),[10,9,1].sort().join(),[,2,undefined,1].sort().length].join('|')})()"
    "321|true|abc|ab|1,10,9|4";
  P "gen:Array.generic"
    "(function(){var o={length:2,0:'a',1:'b'};var r=[];r.push(Array.prototype.push.call(o,'c'),o.length,o[2]);r.push(Array.prototype.pop.call(o),o.length);r.push(Array.prototype.shift.call(o),o.length,o[0]);r.push(Array.prototype.unshift.call(o,'z'),o[0]+o[1]);r.push(Array.prototype.slice.call({length:3,0:1,1:2,2:3},1).join(''));r.push(Array.prototype.splice.call(o,0,1).join(''),o.length);r.push(Array.prototype.reverse.call({length:2,0:1,1:2})[0]);r.push(Array.prototype.indexOf.call({length:2,0:'p',1:'q'},'q'),Array.prototype.lastIndexOf.call('abca','a'));r.push(Array.prototype.map.call('ab',function(c){return c+c}).join(''),Array.prototype.filter.call({length:3,0:1,1:2,2:3},function(x){return x>1}).join(''));r.push(Array.prototype.every.call('aa',function(c){return c==='a'}),Array.prototype.some.call({length:1,0:5},function(x){return x===5}));r.push(Array.prototype.reduce.call('abc',function(a,c){return c+a}),Array.prototype.reduceRight.call({length:2,0:'x',1:'y'},function(a,c){return a+c}));var s=[];Array.prototype.forEach.call({length:2,0:7,1:8},function(x,i){s.push(i+':'+x+':'+this.k)},{k:'t'});r.push(s.join(';'));r.push(Array.prototype.concat.call(1,2).length,typeof Array.prototype.concat.call(1,2)[0]);return r.join('|')})()"
    "3|3|c|c|2|a|1|b|2|zb|23|z|1|2|1|3|aabb|23|true|true|cba|yx|0:7:t;1:8:t|2|object";
  P "gen:String.generic"
    "[String.prototype.charAt.call(123,1),String.prototype.indexOf.call({toString:function(){return 'xyz'}},'z'),String.prototype.slice.call(12345,1,3),String.prototype.split.call(1.5,'.').join('/'),String.prototype.substring.call(true,1),String.prototype.toUpperCase.call({toString:function(){return 'up'}}),String.prototype.trim.call({toString:function(){return ' t '}}),String.prototype.concat.call(1,2,3),String.prototype.charCodeAt.call(7,0),String.prototype.lastIndexOf.call(1212,'1'),String.prototype.substr.call(12345,1,2),String.prototype.toLowerCase.call(['A','B']),(function(){try{String.prototype.trim.call(null);return 'no'}catch(e){return e instanceof TypeError}})()].join('|')"
    "2|2|23|1/5|rue|UP|t|123|55|2|23|a,b|true";
  P "gen:String.replace"
    "['abc'.replace('b',function(m,i,s){return '['+m+i+s+']'}),'aXbX'.replace(/x/gi,function(m,i){return i}),'abc'.replace({toString:function(){return 'b'}},'-'),'abc'.replace('b',{toString:function(){return '$&$&'}}),'a1b22'.replace(/(\d)(\d)?/g,function(m,p,q,i){return '<'+p+(q===undefined?'u':q)+i+'>'}),'abc'.match({toString:function(){return 'b'}})[0],'abc'.search({toString:function(){return 'c'}}),'a.b'.split({toString:function(){return '.'}}).join('/'),'x'.replace('x','$$-$`-$\'')].join('|')"
    "a[b1abc]c|a1b3|a-c|abbc|a<1u1>b<223>|b|2|a/b|$--";
  P "gen:JSON.stringify"
    "[JSON.stringify({toJSON:function(k){return 'tj:'+k}}),JSON.stringify({a:{toJSON:function(k){return k+'!'}}}),JSON.stringify([new Number(1),new String('s'),new Boolean(false),Object(2)]),JSON.stringify({a:1,b:2},function(k,v){return k==='a'?undefined:v}),JSON.stringify({n:{valueOf:function(){return 1}}}),JSON.stringify((function(){var n=new Number(3);n.valueOf=function(){return 4};return n})()),JSON.stringify((function(){var s=new String('p');s.toString=function(){return 'q'};return s})()),JSON.stringify({a:[]},null,{toString:function(){return 'x'}}),JSON.stringify({a:1},null,new Number(1)).length,JSON.stringify(function(){}),JSON.stringify({f:function(){},u:undefined,n:null})].join('|')"
    """tj:""|{""a"":""a!""}|[1,""s"",false,2]|{""b"":2}|{""n"":{}}|4|""q""|{""a"":[]}|11||{""n"":null}";
  P "gen:JSON.parse"
    "(function(){var ks=[];var r=JSON.parse('{""a"":[1,{""b"":2}],""c"":3}',function(k,v){ks.push(k);if(k==='c')return undefined;if(typeof v==='number')return v*10;return v});function ix(k){return ks.indexOf(k)}return [ks.slice().sort().join(','),ix('0')<ix('a')&&ix('b')<ix('1')&&ix('1')<ix('a')&&ix('')===ks.length-1&&ks.length===6,JSON.stringify(r),this===undefined].join('|')})()"
    ",0,1,a,b,c|true|{""a"":[10,{""b"":20}]}|false";
  P "gen:Error.toString"
    "[Error.prototype.toString.call({name:'N',message:'M'}),Error.prototype.toString.call({name:{toString:function(){return 'n2'}},message:{toString:function(){return 'm2'}}}),Error.prototype.toString.call({name:'',message:'only'}),Error.prototype.toString.call({name:undefined,message:undefined}),(function(){var e=new TypeError('x');e.name='Custom';return e.toString()})(),(function(){var e=new Error('x');e.message='changed';return String(e)})(),RangeError.prototype.toString.call({name:'Q',message:'r'})].join('|')"
    "N: M|n2: m2|only|Error|Custom: x|Error: changed|Q: r";
  P "gen:ToPrimitive"
    "[String({toString:function(){return 'ts'},valueOf:function(){return 'vo'}}),Number({toString:function(){return '7'},valueOf:function(){return 8}}),String({toString:function(){return {}},valueOf:function(){return 'fallback'}}),Number({valueOf:function(){return {}},toString:function(){return '9'}}),new Date({valueOf:function(){return 86400000}}).getTime(),new Date({valueOf:function(){return '1970-01-02T00:00:00Z'},toString:function(){return 'x'}}).getTime(),parseInt({toString:function(){return '42px'}}),parseFloat({toString:function(){return '1.5x'}}),isNaN({valueOf:function(){return NaN}}),isFinite({valueOf:function(){return 1}}),Math.max({valueOf:function(){return 3}},'4'),Math.abs({valueOf:function(){return -2}}),(function(){try{String({toString:function(){return {}},valueOf:function(){return {}}});return 'no'}catch(e){return e instanceof TypeError}})(),[1,2].indexOf({valueOf:function(){return 1}}),new String({toString:function(){return 'w'}}).length,new Number({valueOf:function(){return 6}}).valueOf(),Boolean({valueOf:function(){return false}})].join('|')"
    "ts|8|fallback|9|86400000|86400000|42|1.5|true|true|4|2|true|-1|1|6|true";
  P "gen:keys"
    "[({a:1}).hasOwnProperty({toString:function(){return 'a'}}),({a:1}).propertyIsEnumerable({toString:function(){return 'a'}}),Object.getOwnPropertyDescriptor({k:5},{toString:function(){return 'k'}}).value,Object.defineProperty({},{toString:function(){return 'd'}},{value:1}).d,Object.prototype.hasOwnProperty.call('ab',1),Object.prototype.hasOwnProperty.call('ab','length'),Object.prototype.propertyIsEnumerable.call([7],0),Object.prototype.isPrototypeOf.call(Array.prototype,[]),Object.prototype.valueOf.call('s') instanceof String,Object.keys(Object.create({i:1},{o:{value:1,enumerable:true}})).join()].join('|')"
    "true|true|5|1|true|true|true|true|true|o";
  P "gen:descriptor.fields"
    "(function(){function D(){}D.prototype.value=9;D.prototype.enumerable=true;var o=Object.defineProperty({},'p',new D);var d=Object.getOwnPropertyDescriptor(o,'p');var g={get get(){return function(){return 'viaget'}}};var o2=Object.defineProperty({},'q',g);var o3=Object.create({},{r:new D});var t;try{Object.defineProperty({},'x',{get:function(){},value:1});t='no'}catch(e){t=e instanceof TypeError}var t2;try{Object.defineProperty({},'x',{get:5});t2='no'}catch(e){t2=e instanceof TypeError}return [d.value,d.enumerable,d.writable,d.configurable,o2.q,o3.r,Object.keys(o3).join(),t,t2].join('|')})()"
    "9|true|false|false|viaget|9|r|true|true";
  P "gen:apply.call"
    "[Function.prototype.apply.call(function(){return arguments.length+':'+this.k},{k:'t'},{length:2,0:1,1:2}),Math.max.apply(null,{length:3,0:1,1:9,2:3}),(function(){return String.prototype.slice.apply('abcdef',arguments)})(1,3),Function.prototype.call.call(function(a){return this+a},'x','y'),(function(){try{Function.prototype.apply.call(function(){},null,1);return 'no'}catch(e){return e instanceof TypeError}})(),(function(){try{Function.prototype.call.call({});return 'no'}catch(e){return e instanceof TypeError}})(),(function(){return typeof this}).call(5),(function(){return this===(function(){return this})()}).call(null),(function(){return this===(function(){return this})()}).apply(undefined)].join('|')"
    "2:t|9|bc|xy|true|true|object|true|true";
  P "gen:nongeneric"
    "[[Number.prototype.toString,{}],[Number.prototype.valueOf,'1'],[Boolean.prototype.toString,1],[Boolean.prototype.valueOf,{}],[String.prototype.toString,{}],[String.prototype.valueOf,1],[Date.prototype.getTime,{}],[Date.prototype.valueOf,0],[Date.prototype.toISOString,{}],[Date.prototype.getFullYear,'x'],[Date.prototype.setTime,{}],[Date.prototype.toString,{}],[RegExp.prototype.exec,{}],[RegExp.prototype.test,'a'],[Function.prototype.toString,{}],[Function.prototype.call,{}],[Function.prototype.bind,{}],[Object.getPrototypeOf,1],[Object.keys,'s'],[Object.create,1],[Object.defineProperty,1]].map(function(p,i){try{p[0].call(p[1],p[1]);return i}catch(e){return e instanceof TypeError?'T':e.name}}).join('')"
    "TTTTTTTTTTTTTTTTTTTTT";
  P "callform:Date"
    "(function(){var y=String(new Date().getFullYear());function now(s){return typeof s==='string'&&s.indexOf(y)>=0&&s.indexOf('Invalid')<0}var vs=[Date(),Date(0),Date(86400000*365*10),Date(1980,5,15,12,0,0),Date('x'),Date('1980-01-01T00:00:00Z'),Date(NaN),Date(new Date(0)),Date({valueOf:function(){throw 1}}),Date.call(null,0),Date.apply(new Date(0),[0])];return vs.map(now).join()+'|'+[typeof new Date(0),new Date(0).getTime(),new Date(1980,5,15).getFullYear(),isNaN(new Date('x').getTime())].join()})()"
    "true,true,true,true,true,true,true,true,true,true,true|object,0,1980,true";
  P "callform:String"
    "[String(),String(123),String(null),String(undefined),String(true),String('s'),String([1,[2,3]]),String({toString:function(){return 'o'}}),typeof String(1),typeof new String(1),new String(5)=='5',new String().length,String.call({},7),typeof String.call(new String('x'),7),String(new String('w'))==='w',String(-0),String(1e21),String(function(){}).indexOf('function')===0].join('|')"
    "|123|null|undefined|true|s|1,2,3|o|string|object|true|0|7|string|true|0|1e+21|true";
  P "callform:Number"
    "[Number(),Number('12'),Number(''),Number(' 0x1F '),Number(null),Number(undefined),Number(true),Number('1e3'),Number('x'),Number([5]),Number({valueOf:function(){return 2}}),typeof Number('1'),typeof new Number(1),Number.call({},'3'),new Number('4')+1,Number(new Number(6))===6,Number('-0')===0&&1/Number('-0')<0,Number('Infinity')].join('|')"
    "0|12|0|31|0|NaN|1|1000|NaN|5|2|number|object|3|5|true|true|Infinity";
  P "callform:Boolean"
    "[Boolean(),Boolean(0),Boolean(''),Boolean('0'),Boolean(null),Boolean(NaN),Boolean({}),Boolean([]),Boolean(new Boolean(false)),typeof Boolean(1),typeof new Boolean(1),Boolean.call({},0),new Boolean(0).valueOf(),new Boolean('false').valueOf()].join('|')"
    "false|false|false|true|false|false|true|true|true|boolean|object|false|false|true";
  P "callform:Object"
    "(function(){var o={};return [Object(o)===o,new Object(o)===o,Object(1) instanceof Number,Object('s') instanceof String,Object(true) instanceof Boolean,typeof Object(null),typeof Object(undefined),typeof Object(),Object.getPrototypeOf(Object())===Object.prototype,Object(1).valueOf(),Object('ab').length,Object(Math)===Math,Object(parseInt)===parseInt,new Object(3).valueOf(),Object.call(5,o)===o,Object.keys(Object(null)).length].join('|')})()"
    "true|true|true|true|true|object|object|object|true|1|2|true|true|3|true|0";
  P "callform:Array"
    "[Array().length,Array(3).length,Array(3).join('-'),Array(1,2).join(),Array('3').length,Array('3')[0],Array(0).length,Array(2.0).length,Array(undefined).length,Array(null)[0],Array([1,2]).length,Array.isArray(Array()),Array.call({},2).length,Object.getPrototypeOf(Array(1))===Array.prototype,(function(){try{Array(-1);return 'no'}catch(e){return e instanceof RangeError}})(),(function(){try{Array(1.5);return 'no'}catch(e){return e instanceof RangeError}})(),(function(){try{Array(4294967296);return 'no'}catch(e){return e instanceof RangeError}})(),new Array(2,3).length,Array(4294967295).length].join('|')"
    "0|3|--|1,2|1|3|0|2|1||1|true|2|true|true|true|true|2|4294967295";
  P "callform:RegExp"
    "(function(){var r=/a/g;var t1,t2;try{RegExp(r,'i');t1='no'}catch(e){t1=e instanceof TypeError}try{RegExp('a','gg');t2='no'}catch(e){t2=e instanceof SyntaxError}return [RegExp(r)===r,RegExp(r,undefined)===r,new RegExp(r)!==r,new RegExp(r).source,new RegExp(r).global,RegExp('b','im').multiline,RegExp('b','im').ignoreCase,RegExp('b').global,RegExp('a+').test('caat'),Object.prototype.toString.call(RegExp('x')),RegExp(undefined).test(''),String(RegExp('a/b')).length>0,RegExp({toString:function(){return 'z'}}).source,t1,t2,RegExp.call({},'q').source,RegExp('x').lastIndex].join('|')})()"
    "true|true|true|a|true|true|true|false|true|[object RegExp]|true|true|z|true|true|q|0";
  P "callform:Error"
    "[Error,EvalError,RangeError,ReferenceError,SyntaxError,TypeError,URIError].map(function(C){var a=C('m'),b=C(),c=C(undefined),d=C({toString:function(){return 'ts'}}),e=C.call({},'x');return [a instanceof C,a.message,b.hasOwnProperty('message'),c.hasOwnProperty('message'),b.message==='',d.message,e instanceof C&&e.message==='x',Object.getPrototypeOf(a)===C.prototype,a!==C('m'),new C('n').message,String(C(0).message),typeof C(0).message].join(',')}).join('|')"
    "true,m,false,false,true,ts,true,true,true,n,0,string|true,m,false,false,true,ts,true,true,true,n,0,string|true,m,false,false,true,ts,true,true,true,n,0,string|true,m,false,false,true,ts,true,true,true,n,0,string|true,m,false,false,true,ts,true,true,true,n,0,string|true,m,false,false,true,ts,true,true,true,n,0,string|true,m,false,false,true,ts,true,true,true,n,0,string";
  P "callform:Function"
    "[Function('a','b','return a*b')(3,4),Function('return this')()===this,Function()(),typeof Function(),Function('a',{toString:function(){return 'return a+1'}})(1),Function({toString:function(){return 'q'}},'return q')(8),Function.call({},'return 5')(),new Function('x','return x')(9),Function('a,b','c','return a+b+c')(1,2,3),Function('return arguments.length')(1,2,3),(function(){try{Function('}');return 'no'}catch(e){return e instanceof SyntaxError}})(),(function(){try{Function('a b','');return 'no'}catch(e){return e instanceof SyntaxError}})()].join('|')"
    "12|true||function|2|8|5|9|6|3|true|true";
  P "uri:decode"
    "[decodeURIComponent('%3B%2F%3F%3A%40%26%3D%2B%24%2C%23'),decodeURI('%3B%2F%3F%3A%40%26%3D%2B%24%2C%23'),decodeURIComponent('%3b%2f%23'),decodeURI('%3b%2f%23'),decodeURIComponent(encodeURIComponent('a=1&b=2/c#d')),decodeURI(encodeURI('a=1&b=2/c#d?e')),decodeURI('%41%20%E2%82%AC')===decodeURIComponent('%41%20%E2%82%AC'),decodeURI('%25'),encodeURIComponent(';/?:@&=+$,#'),encodeURI(';/?:@&=+$,#'),encodeURI('-_.!~*\'()')+encodeURIComponent('-_.!~*\'()'),escape('@*_+-./'),unescape('%u0041%41%zz')].join('|')"
    ";/?:@&=+$,#|%3B%2F%3F%3A%40%26%3D%2B%24%2C%23|;/#|%3b%2f%23|a=1&b=2/c#d|a=1&b=2/c#d?e|true|%|%3B%2F%3F%3A%40%26%3D%2B%24%2C%23|;/?:@&=+$,#|-_.!~*'()-_.!~*'()|@*_+-./|AA%zz";
  P "gen:Date.toJSON.nonnumber"
    "[Date.prototype.toJSON.call({toISOString:function(){return 'str-prim'}}),Date.prototype.toJSON.call({valueOf:function(){return 'abc'},toISOString:function(){return 'vo-string'}}),Date.prototype.toJSON.call({valueOf:function(){return true},toISOString:function(){return 'vo-bool'}})].join('|')"
    "str-prim|vo-string|vo-bool"
].

Definition all_probes : list probe :=
  (probes ++ ext_probes ++ kind_probes ++ regression_probes ++ intrinsic_probes ++
   function_probes ++ cross_probes ++ ownership_probes ++ generic_probes)%list.

(* the standard objects that must have a kind probe *)
Definition kind_required : list string :=
  ["Object.prototype"; "Function.prototype"; "Array.prototype"; "String.prototype"; "Boolean.prototype";
   "Number.prototype"; "Date.prototype"; "RegExp.prototype"; "Error.prototype"; "Math"; "JSON"; "global"].
