(* C14 — the generated table (inline.go, as observed at run time) against the
   generator's own input (GenInput.v, regenerated from .gen-jscore.yaml on every
   run).  The template semantics of tools/gen-jscore/templates/property-value.tmpl
   and function.tmpl are transcribed here: mode = the given mode, else 0o101 for
   functions and [constructor], else 0; a function entry is a function object whose
   own [length] is the given count (-1 stands for 0) and whose own [name] is the
   property name, both with mode 0. *)
From Coq Require Import List ZArith Bool String.
From Otto Require Import C14.Shape C14.Es5Table C14.Check C14.GenInput.
Import ListNotations.
Open Scope string_scope.

Definition eff_mode (g : gprop) : Z :=
  match g_mode g with
  | Some m => m
  | None => match g_fn g with
            | Some _ => 65                                   (* 0o101 *)
            | None => if String.eqb (g_name g) "constructor" then 65 else 0
            end
  end.

(* otto's mode bits: 0o100 writable, 0o010 enumerable, 0o001 configurable *)
Definition mode_w (m : Z) := Z.testbit m 6.
Definition mode_e (m : Z) := Z.testbit m 3.
Definition mode_c (m : Z) := Z.testbit m 0.

Definition plain_const (d : dump) (owner name : string) (v : val) : bool :=
  match find_prop d owner name with
  | Some p => pkind_eqb (p_kind p) PData && val_eqb (p_val p) v && negb (p_w p) && negb (p_e p) && negb (p_c p)
  | None => false
  end.

Definition gen_fails (d : dump) (g : gprop) : list string :=
  match find_prop d (g_owner g) (g_name g) with
  | None => ["missing"]
  | Some p =>
      let m := eff_mode g in
      (flag (pkind_eqb (p_kind p) PData) "kind" ++
       flag (Bool.eqb (p_w p) (mode_w m)) "writable" ++
       flag (Bool.eqb (p_e p) (mode_e m)) "enumerable" ++
       flag (Bool.eqb (p_c p) (mode_c m)) "configurable" ++
       match g_fn g with
       | None => []
       | Some n =>
           match p_val p with
           | VObj path =>
               flag (plain_const d path "length" (VNum (dbl (if Z.eqb n (-1) then 0 else n)))) "fn:length" ++
               flag (plain_const d path "name" (VStr (g_name g))) "fn:name"
           | _ => ["fn:value"]
           end
       end)%list
  end.

Definition gen_ok (d : dump) (g : gprop) : bool :=
  match gen_fails d g with [] => true | _ => false end.

Definition gen_failing (d : dump) : list (string * string * string) :=
  flat_map (fun g => map (fun w => (g_owner g, g_name g, w)) (gen_fails d g)) gen_input.

(* conversely: an object the generator describes has no property the input does not list *)
Definition gen_owner (o : string) : bool := existsb (fun g => String.eqb (g_owner g) o) gen_input.
Definition gen_listed (o n : string) : bool :=
  existsb (fun g => String.eqb (g_owner g) o && String.eqb (g_name g) n) gen_input.
(* added at run time by otto.New()/the harness, not by the generated table *)
Definition not_generated (o n : string) : bool :=
  String.eqb o "global" && existsb (String.eqb n) ["console"; "$native"; "_"].
Definition beyond_input (d : dump) : list (string * string) :=
  map (fun p => (p_owner p, p_name p))
      (filter (fun p => gen_owner (p_owner p) && negb (gen_listed (p_owner p) (p_name p)) &&
                        negb (not_generated (p_owner p) (p_name p))) (d_props d)).
