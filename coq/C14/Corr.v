(* C14 — correspondence cases.  The harness observes, by direct property
   access (not through the translator's walk), every (owner, property) pair,
   every standard object and every binding probe in a runtime reached by some
   history (fresh / underscore / Copy / copy of copy / sibling runtime
   vandalised / original vandalised after the copy / after warm-up ...), and
   the verdict compares it with Es5Table (spec) and with Es5Table modulo the
   recorded deviations (the model of the pinned otto). *)
From Coq Require Import List ZArith Bool.
From Coq Require Export String.   (* the case files contain string literals *)
From Otto Require Import Common.Corr C14.Es5Table C14.Bindings.
From Otto Require Export C14.Shape C14.Check.   (* constructors used by the case files *)
Import ListNotations.
Open Scope Z_scope.
Open Scope string_scope.

Inductive case :=
| CEntry (cfg : Z) (owner name : string) (o : eobs)
| CObj (cfg : Z) (o : obj)
| CPresent (cfg : Z) (pairs : list (string * string)) (objs : list string)
| CProbe (cfg : Z) (id : string) (observed : string)
| CSame (cfg : Z) (diff : list string)
| CCopy (evalState : Z) (panicked : bool) (diff : list string).   (* Copy() of a vandalised runtime vs its original *)

Definition find_entry (owner name : string) : option entry :=
  find (fun e => String.eqb (e_owner e) owner && String.eqb (e_name e) name) all_props.

Definition find_oentry (path : string) : option oentry :=
  find (fun e => String.eqb (oe_path e) path) all_objs.

Definition class_of (owner name : string) : Z :=
  match filter (fun x => String.eqb (x_owner x) owner && String.eqb (x_name x) name) exceptions with
  | x :: _ => x_class x
  | [] => 0
  end.

(* a property ES5 does not list: it must not make a built-in enumerable and
   its descriptor must be obtainable *)
Definition extra_fails (owner name : string) (o : eobs) : list string :=
  match eo_prop o with
  | None => ["missing"]
  | Some p => flag (negb (pkind_eqb (po_kind p) PBroken)) "descriptor" ++
              flag (host_owned owner name || negb (po_e p)) "enumerable"
  end.

Definition extra_predicted (owner name : string) : list string :=
  if host_owned owner name && mem name broken_names then ["descriptor"] else [].

Definition pair_mem (o n : string) (l : list (string * string)) : bool :=
  existsb (fun x => String.eqb (fst x) o && String.eqb (snd x) n) l.

Definition tag (o n : string) : string := o ++ "/" ++ n.

Definition missing_props (pairs : list (string * string)) : list string :=
  map (fun e => tag (e_owner e) (e_name e))
      (filter (fun e => negb (pair_mem (e_owner e) (e_name e) pairs)) all_props).
Definition missing_objs (objs : list string) : list string :=
  map oe_path (filter (fun e => negb (mem (oe_path e) objs)) all_objs).
Definition predicted_missing : list string :=
  map (fun x => tag (x_owner x) (x_name x)) (filter (fun x => String.eqb (x_what x) "missing") exceptions).

(* deviations of probes: (id, what the pinned otto answers, finding class) *)
Definition probe_exceptions : list (string * string * Z) :=
  [ (* class 2: RegExp.prototype is not a complete RegExp: it matches like /(?:)/ (since b602a64,
       which repaired the Go nil dereference of test/exec) but still has no source, so
       RegExp.prototype.toString() prints /undefined/ *)
    ("kind:RegExp.prototype", "[object RegExp],true,true,/undefined/", 2) ].
  (* gen:Date.toJSON.nonnumber (class 9) was repaired by f1c4c70: it is a regression probe now *)

Definition verdict (c : case) : Z * Z :=
  match c with
  | CEntry _ owner name o =>
      match find_entry owner name with
      | Some e => judge same_set (entry_fails e o) (predicted exceptions owner name) [] (class_of owner name)
      | None => judge same_set (extra_fails owner name o) (extra_predicted owner name) [] 7
      end
  | CObj _ o =>
      match find_oentry (o_path o) with
      | Some oe => judge same_set (oentry_fails oe (Some o)) (predicted exceptions (o_path o) "") []
                         (class_of (o_path o) "")
      | None => (0, 0)
      end
  | CPresent _ pairs objs =>
      judge same_set (missing_props pairs ++ missing_objs objs)%list predicted_missing [] 2
  | CProbe _ id observed =>
      match find (fun p => String.eqb (pr_id p) id) all_probes with
      | Some p =>
          let model := match find (fun x => String.eqb (fst (fst x)) id) probe_exceptions with
                       | Some x => snd (fst x) | None => pr_expect p end in
          judge String.eqb observed model (pr_expect p)
                (match find (fun x => String.eqb (fst (fst x)) id) probe_exceptions with Some x => snd x | None => 0 end)
      | None => declined
      end
  | CSame _ diff => judge (list_eqb String.eqb) diff [] [] 0
  | CCopy st p diff =>
      (* regression cases of the repaired C14-copy-panics-eval-rebound: a panic is a violation *)
      judge (fun a b => Bool.eqb (fst a) (fst b) && list_eqb String.eqb (snd a) (snd b))
            (p, diff) (copy_panics_model st, []) (copy_panics_spec st, []) 0
  end.
