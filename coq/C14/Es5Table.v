(* C14 — HAND-WRITTEN table of the standard library as ES5.1 section 15 (and
   Annex B.2) specifies it: for every (owner, property) the kind of value,
   function length, and the attributes; for every standard object its typeof,
   [[Class]], [[Prototype]], [[Extensible]] and primitive value.

   General rules of clause 15 used below:
   * every built-in function / constructor has [[Prototype]] = Function.prototype,
     [[Class]] "Function", is extensible, and has a [length] property that is
     { [[Writable]]: false, [[Enumerable]]: false, [[Configurable]]: false };
   * a built-in function that is not a constructor has no [prototype] property;
   * every other property of clause 15 is { [[Writable]]: true, [[Enumerable]]:
     false, [[Configurable]]: true } "unless otherwise specified" — otherwise
     specified are: the value properties NaN/Infinity/undefined of the global
     object, Ctor.prototype, the Number.* and Math.* constants (all false).
   The second half lists what 10.6, 13.2, 15.3.4.5, 15.4.5.2, 15.5.5, 15.10.7,
   15.11, 15.12.2, 8.10.4 ... require of freshly created objects ("specimens",
   made by the translator under the root path [spec]). *)
From Coq Require Import List ZArith Bool String.
From Otto Require Import C14.Shape.
Import ListNotations.
Open Scope Z_scope.
Open Scope string_scope.

(* bit pattern of the double that is the integer n, 0 <= n < 2^53 *)
Definition dbl (n : Z) : Z :=
  (if n <=? 0 then 0
   else let e := Z.log2 n in (1023 + e) * 2 ^ 52 + (n - 2 ^ e) * 2 ^ (52 - e))%Z.

Inductive expect :=
| EFun (len : Z)        (* built-in function that is not a constructor *)
| ECtor (len : Z)       (* function object that may carry a [prototype] property *)
| ENum (bits : Z)
| EStr (s : string)
| EBool (b : bool)
| EUndef
| ENull
| ERef (path : string)  (* exactly the object reached by that access path *)
| EAcc                  (* an accessor property (15.3.4.5 [caller]/[arguments] of bound functions) *)
| EGetSet (hasget hasset : bool)   (* accessor with [[Get]] / [[Set]] a function or undefined *)
| EAnyObj.              (* some object; its shape is given by other entries *)

Record entry := mkE {
  e_owner : string; e_name : string; e_exp : expect;
  e_attrs : bool;             (* false: ES5 does not fix the attributes (15.11.2.1 message) *)
  e_w : bool; e_e : bool; e_c : bool
}.

Definition fn (o n : string) (len : Z) := mkE o n (EFun len) true true false true.
Definition fns (o : string) (l : list (string * Z)) := map (fun x => fn o (fst x) (snd x)) l.
Definition ctor (n : string) (len : Z) := mkE "global" n (ECtor len) true true false true.
Definition konst (o n : string) (bits : Z) := mkE o n (ENum bits) true false false false.
Definition proto_of (c : string) := mkE c "prototype" (ERef (c ++ ".prototype")) true false false false.
Definition ctor_of (c : string) := mkE (c ++ ".prototype") "constructor" (ERef c) true true false true.
(* a property created by [[Put]] / object literal / [[DefineOwnProperty]] with all-true attributes *)
Definition plain (o n : string) (x : expect) := mkE o n x true true true true.

Definition nan := 9221120237041090560.       (* 0x7FF8000000000000 *)
Definition pinf := 9218868437227405312.      (* 0x7FF0000000000000 *)
Definition ninf := 18442240474082181120.     (* 0xFFF0000000000000 *)

(* ---------------- 15.1 the global object ---------------- *)
Definition t_global : list entry :=
  [ konst "global" "NaN" nan; konst "global" "Infinity" pinf;
    mkE "global" "undefined" EUndef true false false false ] ++
  fns "global" [("eval", 1); ("parseInt", 2); ("parseFloat", 1); ("isNaN", 1); ("isFinite", 1);
                ("decodeURI", 1); ("decodeURIComponent", 1); ("encodeURI", 1); ("encodeURIComponent", 1)] ++
  [ ctor "Object" 1; ctor "Function" 1; ctor "Array" 1; ctor "String" 1; ctor "Boolean" 1;
    ctor "Number" 1; ctor "Date" 7; ctor "RegExp" 2; ctor "Error" 1; ctor "EvalError" 1;
    ctor "RangeError" 1; ctor "ReferenceError" 1; ctor "SyntaxError" 1; ctor "TypeError" 1;
    ctor "URIError" 1;
    mkE "global" "Math" (ERef "Math") true true false true;
    mkE "global" "JSON" (ERef "JSON") true true false true ].

(* ---------------- 15.2 Object ---------------- *)
Definition t_object : list entry :=
  [ proto_of "Object" ] ++
  fns "Object" [("getPrototypeOf", 1); ("getOwnPropertyDescriptor", 2); ("getOwnPropertyNames", 1);
                ("create", 2); ("defineProperty", 3); ("defineProperties", 2); ("seal", 1);
                ("freeze", 1); ("preventExtensions", 1); ("isSealed", 1); ("isFrozen", 1);
                ("isExtensible", 1); ("keys", 1)] ++
  [ ctor_of "Object" ] ++
  fns "Object.prototype" [("toString", 0); ("toLocaleString", 0); ("valueOf", 0);
                          ("hasOwnProperty", 1); ("isPrototypeOf", 1); ("propertyIsEnumerable", 1)].

(* ---------------- 15.3 Function ---------------- *)
Definition t_function : list entry :=
  [ proto_of "Function"; ctor_of "Function";
    konst "Function.prototype" "length" (dbl 0) ] ++
  fns "Function.prototype" [("toString", 0); ("apply", 2); ("call", 1); ("bind", 1)].

(* ---------------- 15.4 Array ---------------- *)
Definition t_array : list entry :=
  [ proto_of "Array"; fn "Array" "isArray" 1; ctor_of "Array";
    mkE "Array.prototype" "length" (ENum (dbl 0)) true true false false ] ++
  fns "Array.prototype" [("toString", 0); ("toLocaleString", 0); ("concat", 1); ("join", 1);
                         ("pop", 0); ("push", 1); ("reverse", 0); ("shift", 0); ("slice", 2);
                         ("sort", 1); ("splice", 2); ("unshift", 1); ("indexOf", 1);
                         ("lastIndexOf", 1); ("every", 1); ("some", 1); ("forEach", 1);
                         ("map", 1); ("filter", 1); ("reduce", 1); ("reduceRight", 1)].

(* ---------------- 15.5 String ---------------- *)
Definition t_string : list entry :=
  [ proto_of "String"; fn "String" "fromCharCode" 1; ctor_of "String";
    konst "String.prototype" "length" (dbl 0) ] ++
  fns "String.prototype" [("toString", 0); ("valueOf", 0); ("charAt", 1); ("charCodeAt", 1);
                          ("concat", 1); ("indexOf", 1); ("lastIndexOf", 1); ("localeCompare", 1);
                          ("match", 1); ("replace", 2); ("search", 1); ("slice", 2); ("split", 2);
                          ("substring", 2); ("toLowerCase", 0); ("toLocaleLowerCase", 0);
                          ("toUpperCase", 0); ("toLocaleUpperCase", 0); ("trim", 0)].

(* ---------------- 15.6 Boolean ---------------- *)
Definition t_boolean : list entry :=
  [ proto_of "Boolean"; ctor_of "Boolean" ] ++
  fns "Boolean.prototype" [("toString", 0); ("valueOf", 0)].

(* ---------------- 15.7 Number ---------------- *)
Definition t_number : list entry :=
  [ proto_of "Number";
    konst "Number" "MAX_VALUE" 9218868437227405311;    (* 0x7FEFFFFFFFFFFFFF *)
    konst "Number" "MIN_VALUE" 1;                      (* 5e-324 *)
    konst "Number" "NaN" nan;
    konst "Number" "NEGATIVE_INFINITY" ninf;
    konst "Number" "POSITIVE_INFINITY" pinf;
    ctor_of "Number" ] ++
  fns "Number.prototype" [("toString", 1); ("toLocaleString", 0); ("valueOf", 0);
                          ("toFixed", 1); ("toExponential", 1); ("toPrecision", 1)].

(* ---------------- 15.8 Math ---------------- *)
Definition t_math : list entry :=
  [ konst "Math" "E" 4613303445314885481;         (* 2.718281828459045 *)
    konst "Math" "LN10" 4612367379483415830;      (* 2.302585092994046 *)
    konst "Math" "LN2" 4604418534313441775;       (* 0.6931471805599453 *)
    konst "Math" "LOG2E" 4609176140021203710;     (* 1.4426950408889634 *)
    konst "Math" "LOG10E" 4601495173785380110;    (* 0.4342944819032518 *)
    konst "Math" "PI" 4614256656552045848;        (* 3.141592653589793 *)
    konst "Math" "SQRT1_2" 4604544271217802189;   (* 0.7071067811865476 *)
    konst "Math" "SQRT2" 4609047870845172685 ] ++ (* 1.4142135623730951 *)
  fns "Math" [("abs", 1); ("acos", 1); ("asin", 1); ("atan", 1); ("atan2", 2); ("ceil", 1);
              ("cos", 1); ("exp", 1); ("floor", 1); ("log", 1); ("max", 2); ("min", 2);
              ("pow", 2); ("random", 0); ("round", 1); ("sin", 1); ("sqrt", 1); ("tan", 1)].

(* ---------------- 15.9 Date ---------------- *)
Definition t_date : list entry :=
  [ proto_of "Date" ] ++
  fns "Date" [("parse", 1); ("UTC", 7); ("now", 0)] ++
  [ ctor_of "Date" ] ++
  fns "Date.prototype"
      [("toString", 0); ("toDateString", 0); ("toTimeString", 0); ("toLocaleString", 0);
       ("toLocaleDateString", 0); ("toLocaleTimeString", 0); ("valueOf", 0); ("getTime", 0);
       ("getFullYear", 0); ("getUTCFullYear", 0); ("getMonth", 0); ("getUTCMonth", 0);
       ("getDate", 0); ("getUTCDate", 0); ("getDay", 0); ("getUTCDay", 0);
       ("getHours", 0); ("getUTCHours", 0); ("getMinutes", 0); ("getUTCMinutes", 0);
       ("getSeconds", 0); ("getUTCSeconds", 0); ("getMilliseconds", 0); ("getUTCMilliseconds", 0);
       ("getTimezoneOffset", 0);
       ("setTime", 1); ("setMilliseconds", 1); ("setUTCMilliseconds", 1);
       ("setSeconds", 2); ("setUTCSeconds", 2); ("setMinutes", 3); ("setUTCMinutes", 3);
       ("setHours", 4); ("setUTCHours", 4); ("setDate", 1); ("setUTCDate", 1);
       ("setMonth", 2); ("setUTCMonth", 2); ("setFullYear", 3); ("setUTCFullYear", 3);
       ("toUTCString", 0); ("toISOString", 0); ("toJSON", 1)].

(* ---------------- 15.10 RegExp ---------------- *)
Definition t_regexp : list entry :=
  [ proto_of "RegExp"; ctor_of "RegExp" ] ++
  fns "RegExp.prototype" [("exec", 1); ("test", 1); ("toString", 0)] ++
  (* 15.10.6: the prototype is itself a RegExp object made as if by new RegExp() *)
  [ mkE "RegExp.prototype" "source" (EStr "(?:)") true false false false;
    mkE "RegExp.prototype" "global" (EBool false) true false false false;
    mkE "RegExp.prototype" "ignoreCase" (EBool false) true false false false;
    mkE "RegExp.prototype" "multiline" (EBool false) true false false false;
    mkE "RegExp.prototype" "lastIndex" (ENum (dbl 0)) true true false false ].

(* ---------------- 15.11 Error and the NativeErrors ---------------- *)
Definition t_error_of (c : string) : list entry :=
  [ proto_of c; ctor_of c;
    mkE (c ++ ".prototype") "name" (EStr c) true true false true;
    mkE (c ++ ".prototype") "message" (EStr "") true true false true ].
Definition native_errors :=
  ["EvalError"; "RangeError"; "ReferenceError"; "SyntaxError"; "TypeError"; "URIError"].
Definition t_error : list entry :=
  t_error_of "Error" ++ [ fn "Error.prototype" "toString" 0 ] ++ flat_map t_error_of native_errors.

(* ---------------- 15.12 JSON ---------------- *)
Definition t_json : list entry := fns "JSON" [("parse", 2); ("stringify", 3)].

(* ---------------- Annex B.2 ---------------- *)
Definition t_annexb : list entry :=
  fns "global" [("escape", 1); ("unescape", 1)] ++
  [ fn "String.prototype" "substr" 2 ] ++
  fns "Date.prototype" [("getYear", 0); ("setYear", 1); ("toGMTString", 0)].

Definition es5_props : list entry :=
  t_global ++ t_object ++ t_function ++ t_array ++ t_string ++ t_boolean ++ t_number ++
  t_math ++ t_date ++ t_regexp ++ t_error ++ t_json ++ t_annexb.

(* ---------------- the standard objects themselves ---------------- *)
Record oentry := mkO {
  oe_path : string; oe_typeof : string; oe_class : string;
  oe_proto : val; oe_ext : bool;
  oe_prim : val      (* VUndef: no primitive value to compare *)
}.

Definition op := VObj "Object.prototype".
Definition fp := VObj "Function.prototype".
Definition ctor_obj (c : string) := mkO c "function" "Function" fp true VUndef.
Definition es5_objs : list oentry :=
  [ mkO "Object.prototype" "object" "Object" VNull true VUndef;          (* 15.2.4 *)
    mkO "Function.prototype" "function" "Function" op true VUndef;       (* 15.3.4 *)
    mkO "Array.prototype" "object" "Array" op true VUndef;               (* 15.4.4 *)
    mkO "String.prototype" "object" "String" op true (VStr "");          (* 15.5.4 *)
    mkO "Boolean.prototype" "object" "Boolean" op true (VBool false);    (* 15.6.4 *)
    mkO "Number.prototype" "object" "Number" op true (VNum 0);           (* 15.7.4: +0 *)
    mkO "Date.prototype" "object" "Date" op true (VNum nan);             (* 15.9.5: NaN *)
    mkO "RegExp.prototype" "object" "RegExp" op true VUndef;             (* 15.10.6 *)
    mkO "Error.prototype" "object" "Error" op true VUndef;               (* 15.11.4 *)
    mkO "Math" "object" "Math" op true VUndef;                           (* 15.8 *)
    mkO "JSON" "object" "JSON" op true VUndef ] ++                       (* 15.12 *)
  map ctor_obj (["Object"; "Function"; "Array"; "String"; "Boolean"; "Number"; "Date"; "RegExp";
                 "Error"] ++ native_errors) ++
  (* 15.11.7.7: each NativeError prototype is an Error object: [[Class]] "Error", [[Prototype]] Error.prototype *)
  map (fun c => mkO (c ++ ".prototype") "object" "Error" (VObj "Error.prototype") true VUndef) native_errors.

(* ======================================================================
   Specimens: objects created at run time (root path "spec")
   ====================================================================== *)
Definition fn_inst (name : string) (len : Z) : list entry :=
  (* 13.2: length all-false; prototype {w, !e, !c} -> fresh object whose constructor {w,!e,c} is the function *)
  [ plain "spec" name (ECtor len);
    mkE ("spec." ++ name) "prototype" (ERef ("spec." ++ name ++ ".prototype")) true true false false;
    mkE ("spec." ++ name ++ ".prototype") "constructor" (ERef ("spec." ++ name)) true true false true ].

Definition bound_inst (name : string) (len : Z) : list entry :=
  (* 15.3.4.5: length as computed, no prototype property, poisoned caller/arguments {!e,!c} *)
  [ plain "spec" name (EFun len);
    mkE ("spec." ++ name) "caller" EAcc true false false false;
    mkE ("spec." ++ name) "arguments" EAcc true false false false ].

Definition arr_inst (name : string) (len : Z) (elems : list (string * expect)) : list entry :=
  (* 15.4.5.2 length {w,!e,!c}; elements are all-true data properties *)
  [ plain "spec" name EAnyObj;
    mkE ("spec." ++ name) "length" (ENum (dbl len)) true true false false ] ++
  map (fun x => plain ("spec." ++ name) (fst x) (snd x)) elems.

Definition re_inst (name src : string) (g i m : bool) : list entry :=
  (* 15.10.7 *)
  [ plain "spec" name EAnyObj;
    mkE ("spec." ++ name) "source" (EStr src) true false false false;
    mkE ("spec." ++ name) "global" (EBool g) true false false false;
    mkE ("spec." ++ name) "ignoreCase" (EBool i) true false false false;
    mkE ("spec." ++ name) "multiline" (EBool m) true false false false;
    mkE ("spec." ++ name) "lastIndex" (ENum (dbl 0)) true true false false ].

Definition spec_props : list entry :=
  fn_inst "fn" 2 ++ fn_inst "fn0" 0 ++ fn_inst "named" 3 ++ fn_inst "ctorfn" 2 ++
  fn_inst "many" 12 ++ fn_inst "newfn" 0 ++
  bound_inst "bound" 2 ++ bound_inst "bound0" 0 ++
  bound_inst "boundnative" 1 ++     (* Math.max.length - 1 *)
  bound_inst "boundbound" 1 ++      (* (3 - 1) - 1 *)
  (* 8.12.9 / 15.2.3.6 accessor made by defineProperty: absent fields default to false / undefined *)
  [ plain "spec" "defacc" EAnyObj; mkE "spec.defacc" "x" (EGetSet true false) true false false false;
    (* 15.2.3.9 freeze, 15.2.3.8 seal, 15.2.3.10 preventExtensions *)
    plain "spec" "frozen" EAnyObj; mkE "spec.frozen" "a" (ENum (dbl 1)) true false true false;
    plain "spec" "sealed" EAnyObj; mkE "spec.sealed" "a" (ENum (dbl 1)) true true true false;
    plain "spec" "noext" EAnyObj; plain "spec.noext" "a" (ENum (dbl 1));
    plain "spec" "dateutc" EAnyObj ] ++
  arr_inst "arrlen" 1 [("0", ENum (dbl 1))] ++
  arr_inst "big" 4294967295 [] ++
  (* 10.6 arguments object *)
  [ plain "spec" "args" EAnyObj;
    mkE "spec.args" "length" (ENum (dbl 2)) true true false true;
    plain "spec.args" "0" (ENum (dbl 7)); plain "spec.args" "1" (ENum (dbl 8));
    mkE "spec.args" "callee" (ECtor 0) true true false true ] ++
  arr_inst "arr" 2 [("0", ENum (dbl 7)); ("1", ENum (dbl 8))] ++
  arr_inst "arrctor" 3 [] ++
  (* 15.5.5 String instances *)
  [ plain "spec" "str" EAnyObj;
    konst "spec.str" "length" (dbl 2);
    mkE "spec.str" "0" (EStr "a") true false true false;
    mkE "spec.str" "1" (EStr "b") true false true false;
    plain "spec" "num" EAnyObj; plain "spec" "bool" EAnyObj; plain "spec" "date" EAnyObj ] ++
  re_inst "re" "a" true true false ++ re_inst "rector" "b" false false true ++
  (* 15.11.2.1: message is an own property when given (attributes not fixed by ES5.1) *)
  [ plain "spec" "err" EAnyObj; mkE "spec.err" "message" (EStr "m") false true false true;
    plain "spec" "terr" EAnyObj; mkE "spec.terr" "message" (EStr "m") false true false true;
    plain "spec" "err0" EAnyObj;
    plain "spec" "obj" EAnyObj; plain "spec.obj" "a" (ENum (dbl 1)); plain "spec.obj" "b" EAnyObj;
    plain "spec" "bare" EAnyObj;
    plain "spec" "created" EAnyObj; mkE "spec.created" "q" (ENum (dbl 2)) true false false false;
    plain "spec.created.[[Prototype]]" "p" (ENum (dbl 1));
    (* 15.12.2 JSON.parse *)
    plain "spec" "json" EAnyObj; plain "spec.json" "a" EAnyObj;
    mkE "spec.json.a" "length" (ENum (dbl 2)) true true false false;
    plain "spec.json.a" "0" (ENum (dbl 1)); plain "spec.json.a" "1" EAnyObj;
    plain "spec.json.a.1" "b" ENull;
    (* 8.10.4 FromPropertyDescriptor *)
    plain "spec" "desc" EAnyObj; plain "spec.desc" "value" (ENum (dbl 1));
    plain "spec.desc" "writable" (EBool true); plain "spec.desc" "enumerable" (EBool true);
    plain "spec.desc" "configurable" (EBool true) ] ++
  (* 15.10.6.2 exec result, 15.5.4.10 match, 15.5.4.14 split, 15.2.3.4, 15.2.3.14, 15.4.4.x *)
  arr_inst "exec" 2 [("0", EStr "b"); ("1", EUndef); ("index", ENum (dbl 1)); ("input", EStr "abd")] ++
  arr_inst "match" 2 [("0", EStr "b"); ("1", EStr "b")] ++
  arr_inst "split" 2 [("0", EStr "a"); ("1", EStr "b")] ++
  arr_inst "names" 1 [("0", EStr "k")] ++
  arr_inst "keys" 1 [("0", EStr "k")] ++
  arr_inst "mapped" 2 [("0", ENum (dbl 1)); ("1", ENum (dbl 2))] ++
  arr_inst "sliced" 2 [("0", ENum (dbl 2)); ("1", ENum (dbl 3))] ++
  arr_inst "concat" 2 [("0", ENum (dbl 1)); ("1", ENum (dbl 2))] ++
  [ plain "spec" "inst" EAnyObj; plain "spec.inst" "own" (ENum (dbl 1));
    (* 11.1.5 accessor properties of an object literal: enumerable, configurable *)
    plain "spec" "getset" EAnyObj;
    mkE "spec.getset" "g" (EGetSet true true) true false true true;
    mkE "spec.getset" "h" (EGetSet true false) true false true true ].

Definition spec_objs : list oentry :=
  map (fun n => mkO ("spec." ++ n) "function" "Function" fp true VUndef)
      ["fn"; "fn0"; "named"; "ctorfn"; "many"; "newfn"; "bound"; "bound0"; "boundnative"; "boundbound"; "args.callee"] ++
  map (fun n => mkO ("spec." ++ n ++ ".prototype") "object" "Object" op true VUndef)
      ["fn"; "fn0"; "named"; "ctorfn"; "many"; "newfn"] ++
  [ mkO "spec.args" "object" "Arguments" op true VUndef ] ++
  map (fun n => mkO ("spec." ++ n) "object" "Array" (VObj "Array.prototype") true VUndef)
      ["arr"; "arrctor"; "arrlen"; "big"; "exec"; "match"; "split"; "names"; "keys"; "mapped"; "sliced"; "concat"; "json.a"] ++
  [ mkO "spec.str" "object" "String" (VObj "String.prototype") true (VStr "ab");
    mkO "spec.num" "object" "Number" (VObj "Number.prototype") true (VNum (dbl 5));
    mkO "spec.bool" "object" "Boolean" (VObj "Boolean.prototype") true (VBool true);
    mkO "spec.date" "object" "Date" (VObj "Date.prototype") true (VNum 0);
    mkO "spec.dateutc" "object" "Date" (VObj "Date.prototype") true (VNum (dbl 946684800000));
    mkO "spec.defacc" "object" "Object" op true VUndef;
    mkO "spec.frozen" "object" "Object" op false VUndef;
    mkO "spec.sealed" "object" "Object" op false VUndef;
    mkO "spec.noext" "object" "Object" op false VUndef;
    mkO "spec.re" "object" "RegExp" (VObj "RegExp.prototype") true VUndef;
    mkO "spec.rector" "object" "RegExp" (VObj "RegExp.prototype") true VUndef;
    mkO "spec.err" "object" "Error" (VObj "Error.prototype") true VUndef;
    mkO "spec.err0" "object" "Error" (VObj "Error.prototype") true VUndef;
    mkO "spec.terr" "object" "Error" (VObj "TypeError.prototype") true VUndef;
    mkO "spec.obj" "object" "Object" op true VUndef;
    mkO "spec.bare" "object" "Object" VNull true VUndef;
    mkO "spec.created" "object" "Object" (VObj "spec.created.[[Prototype]]") true VUndef;
    mkO "spec.json" "object" "Object" op true VUndef;
    mkO "spec.json.a.1" "object" "Object" op true VUndef;
    mkO "spec.desc" "object" "Object" op true VUndef;
    mkO "spec.inst" "object" "Object" (VObj "spec.inst.[[Prototype]]") true VUndef;
    mkO "spec.inst.[[Prototype]]" "object" "Object" op true VUndef ].

Definition all_props : list entry := es5_props ++ spec_props.
Definition all_objs : list oentry := es5_objs ++ spec_objs.

(* what for-in (12.6.4) must show on each specimen: exactly the enumerable own
   properties made by the program; nothing from the standard prototypes *)
Definition forin_expect : list (string * list string) :=
  [ ("spec.obj", ["a"; "b"]); ("spec.arr", ["0"; "1"]); ("spec.arrctor", []);
    ("spec.str", ["0"; "1"]); ("spec.num", []); ("spec.bool", []); ("spec.date", []);
    ("spec.re", []); ("spec.fn", []); ("spec.bound", []); ("spec.args", ["0"; "1"]);
    ("spec.bare", []); ("spec.created", ["p"]); ("spec.json", ["a"]); ("spec.json.a", ["0"; "1"]);
    ("spec.desc", ["configurable"; "enumerable"; "value"; "writable"]);
    ("spec.exec", ["0"; "1"; "index"; "input"]); ("spec.split", ["0"; "1"]);
    ("spec.inst", ["own"]); ("spec.getset", ["g"; "h"]); ("spec.many", []); ("spec.boundnative", []);
    ("spec.defacc", []); ("spec.frozen", ["a"]); ("spec.sealed", ["a"]); ("spec.arrlen", ["0"]); ("spec.big", []);
    ("Math", []); ("JSON", []); ("Object", []); ("Object.prototype", []); ("Array.prototype", []);
    ("String.prototype", []); ("Function.prototype", []); ("Date.prototype", []);
    ("RegExp.prototype", []); ("Error.prototype", []); ("TypeError.prototype", []); ("Number", []) ].

(* ======================================================================
   Recorded deviations of the pinned otto tree (each one a finding; the
   completeness theorem is stated modulo exactly this list).  A deviation
   names the entry and the check that fails; [x_class] is the finding class
   printed as KNOWN-FINDING by the correspondence run.
   ====================================================================== *)
Record exc := mkX { x_owner : string; x_name : string; x_what : string; x_class : Z }.

(* finding classes still open:
   2 RegExp.prototype lacks the 15.10.7 properties      3 bound functions (15.3.4.5)
   Repaired in /repo and therefore no longer excused (a return of the old behaviour is a violation):
   1 function lengths (039bad0), 4 String index properties enumerable (0d00771), 5 Date.prototype
   time value NaN (b5e8b13), 6 [[Class]] of the NativeError prototypes (77856ca),
   7 getOwnPropertyDescriptor of caller/stack (c76d7ee), 8 Copy() with eval rebound (1f3ee72). *)
Definition exceptions : list exc :=
  [ mkX "RegExp.prototype" "source" "missing" 2;
    mkX "RegExp.prototype" "global" "missing" 2;
    mkX "RegExp.prototype" "ignoreCase" "missing" 2;
    mkX "RegExp.prototype" "multiline" "missing" 2;
    mkX "RegExp.prototype" "lastIndex" "missing" 2;
    mkX "spec" "bound" "fn:has-prototype" 3;
    mkX "spec.bound" "caller" "kind" 3;
    mkX "spec.bound" "arguments" "kind" 3;
    mkX "spec" "bound0" "fn:has-prototype" 3;
    mkX "spec.bound0" "caller" "kind" 3;
    mkX "spec.bound0" "arguments" "kind" 3;
    mkX "spec" "boundnative" "fn:has-prototype" 3;
    mkX "spec.boundnative" "caller" "kind" 3;
    mkX "spec.boundnative" "arguments" "kind" 3;
    mkX "spec" "boundbound" "fn:has-prototype" 3;
    mkX "spec.boundbound" "caller" "kind" 3;
    mkX "spec.boundbound" "arguments" "kind" 3 ].

(* own properties whose descriptor cannot be obtained: none since c76d7ee (the [caller]
   accessor of function objects and the [stack] accessor of Error instances used to make
   getOwnPropertyDescriptor fail a Go type assertion, finding class 7, repaired) *)
Definition broken_names : list string := [].
