(* C14 — proofs.  Part 1 is general (any list of properties, any dump):
   the for-in enumeration of 12.6.4 shows a name iff the nearest object of the
   prototype chain that has it has it enumerable.  Part 2 re-proves, on the
   Observed.v regenerated from the interpreter on every run, that the finite
   table of ES5 15.1-15.12 holds in all four configurations (vm_compute over
   the exhaustively enumerated table, lifted by forallb_forall). *)
From Coq Require Import List ZArith Bool String.
From Otto Require Import C14.Shape C14.Es5Table C14.Check C14.Bindings C14.Observed C14.GenInput C14.GenCheck.
Import ListNotations.
Open Scope string_scope.

(* ------------------------------------------------------------------ *)
(* Part 1: for-in                                                      *)
(* ------------------------------------------------------------------ *)
Lemma mem_In : forall k l, mem k l = true <-> In k l.
Proof.
  induction l as [|x l IH]; simpl; [split; [discriminate | tauto]|].
  rewrite orb_true_iff, IH. split; intros [H|H]; auto.
  - left. apply String.eqb_eq in H. auto.
  - left. subst. apply String.eqb_refl.
Qed.

Lemma mem_false_not_In : forall k l, mem k l = false <-> ~ In k l.
Proof.
  intros k l. rewrite <- mem_In. destruct (mem k l); split; intro H; try reflexivity; try discriminate.
  - exfalso; apply H; reflexivity.
Qed.

(* characterisation: k is visited iff it was not seen before and its first
   occurrence along the chain is enumerable *)
Theorem forin_flat_iff : forall l seen k,
  In k (forin_flat l seen) <-> (mem k seen = false /\ first_attr k l = Some true).
Proof.
  induction l as [|[k' e] r IH]; intros seen k; simpl.
  - split; [tauto | intros [_ H]; discriminate].
  - destruct (mem k' seen) eqn:Hm.
    + rewrite IH. destruct (String.eqb k k') eqn:Ek.
      * apply String.eqb_eq in Ek; subst k'. split; intros [H1 H2]; congruence.
      * tauto.
    + destruct (String.eqb k k') eqn:Ek.
      * apply String.eqb_eq in Ek; subst k'.
        destruct e; simpl.
        -- split; [intros _; auto | intros _; left; reflexivity].
        -- rewrite IH. simpl. rewrite String.eqb_refl. simpl.
           split; [intros [H _]; discriminate | intros [_ H]; discriminate].
      * assert (Hne : k' <> k) by (intro; subst; rewrite String.eqb_refl in Ek; discriminate).
        destruct e; simpl; rewrite IH; simpl; rewrite Ek; simpl.
        -- split; [intros [H|H]; [contradiction | tauto] | intros H; right; tauto].
        -- tauto.
Qed.

Corollary forin_hides_nonenumerable : forall l k,
  first_attr k l = Some false -> ~ In k (forin_flat l []).
Proof. intros l k H Hin. apply forin_flat_iff in Hin. destruct Hin as [_ H']. congruence. Qed.

Corollary forin_hides_absent : forall l k, first_attr k l = None -> ~ In k (forin_flat l []).
Proof. intros l k H Hin. apply forin_flat_iff in Hin. destruct Hin as [_ H']. congruence. Qed.

Lemma first_attr_app : forall k a b,
  first_attr k (a ++ b) = match first_attr k a with Some e => Some e | None => first_attr k b end.
Proof.
  induction a as [|[k' e] a IH]; intros b; simpl; [reflexivity|].
  destruct (String.eqb k k'); auto.
Qed.

Lemma first_attr_all_false : forall k l, (forall x, In x l -> snd x = false) -> first_attr k l <> Some true.
Proof.
  induction l as [|[k' e] l IH]; simpl; intros H; [discriminate|].
  destruct (String.eqb k k').
  - specialize (H (k', e) (or_introl eq_refl)). simpl in H. subst. discriminate.
  - apply IH. intros x Hx. apply H. auto.
Qed.

(* An object whose prototype chain beyond its own properties carries only
   non-enumerable properties (the built-in prototypes, by
   C14_builtins_not_enumerable) shows in for-in exactly the keys it would show
   with no prototype at all. *)
Theorem forin_builtin_tail_invisible : forall own tail k,
  (forall x, In x tail -> snd x = false) ->
  (In k (forin_flat (own ++ tail) []) <-> In k (forin_flat own [])).
Proof.
  intros own tail k Ht. rewrite !forin_flat_iff, first_attr_app.
  destruct (first_attr k own) as [e|] eqn:E.
  - tauto.
  - split; intros [H1 H2]; [|discriminate].
    exfalso. exact (first_attr_all_false k tail Ht H2).
Qed.

(* for any dump: what forin_of shows is enumerable at its nearest owner *)
Theorem forin_of_sound : forall d path k,
  In k (forin_of d path) -> first_attr k (chain_of d 12 path) = Some true.
Proof. intros d path k H. apply forin_flat_iff in H. tauto. Qed.

(* ------------------------------------------------------------------ *)
(* generic lifting helpers                                             *)
(* ------------------------------------------------------------------ *)
Lemma filter_nil_forall : forall A (f : A -> bool) l, filter f l = [] -> forall x, In x l -> f x = false.
Proof.
  induction l as [|y l IH]; simpl; intros H x Hx; [contradiction|].
  destruct (f y) eqn:E; [discriminate|]. destruct Hx as [->|Hx]; auto.
Qed.

Lemma incl_b_In : forall a b, incl_b a b = true -> forall k, In k a -> In k b.
Proof.
  unfold incl_b. intros a b H k Hk. rewrite forallb_forall in H. apply mem_In. auto.
Qed.

Lemma same_set_In : forall a b, same_set a b = true -> forall k, In k a <-> In k b.
Proof.
  unfold same_set. intros a b H k. apply andb_prop in H. destruct H as [H1 H2].
  split; apply incl_b_In; assumption.
Qed.

(* ------------------------------------------------------------------ *)
(* Part 2: the regenerated dumps                                       *)
(* ------------------------------------------------------------------ *)
Definition configs : list dump := [d_fresh; d_underscore; d_copy; d_copycopy].

Lemma complete_b :
  forallb (fun d => forallb (entry_ok exceptions d) all_props && forallb (oentry_ok exceptions d) all_objs) configs = true.
Proof. vm_compute. reflexivity. Qed.

Lemma unexcused_nil : forall xs o n fails,
  unexcused xs o n fails = [] -> forall w, In w fails -> excused xs o n w = true.
Proof.
  unfold unexcused. intros xs o n fails H w Hw.
  pose proof (filter_nil_forall _ _ _ H w Hw) as H'. simpl in H'.
  destruct (excused xs o n w); [reflexivity | discriminate].
Qed.

Lemma complete_props : forall d e, In d configs -> In e all_props ->
  forall w, In w (entry_fails e (observe d (e_owner e) (e_name e))) ->
  excused exceptions (e_owner e) (e_name e) w = true.
Proof.
  intros d e Hd He. pose proof complete_b as H. rewrite forallb_forall in H.
  specialize (H d Hd). apply andb_prop in H. destruct H as [H _].
  rewrite forallb_forall in H. specialize (H e He). unfold entry_ok in H.
  apply unexcused_nil.
  destruct (unexcused exceptions (e_owner e) (e_name e) (entry_fails e (observe d (e_owner e) (e_name e))));
    [reflexivity | discriminate].
Qed.

Lemma complete_objs : forall d oe, In d configs -> In oe all_objs ->
  forall w, In w (oentry_fails oe (find_obj d (oe_path oe))) ->
  excused exceptions (oe_path oe) "" w = true.
Proof.
  intros d oe Hd He. pose proof complete_b as H. rewrite forallb_forall in H.
  specialize (H d Hd). apply andb_prop in H. destruct H as [_ H].
  rewrite forallb_forall in H. specialize (H oe He). unfold oentry_ok in H.
  apply unexcused_nil.
  destruct (unexcused exceptions (oe_path oe) "" (oentry_fails oe (find_obj d (oe_path oe))));
    [reflexivity | discriminate].
Qed.

(* entries with no recorded deviation conform outright *)
Lemma predicted_nil_excused : forall xs o n w, predicted xs o n = [] -> excused xs o n w = false.
Proof.
  unfold predicted, excused, excused_by. induction xs as [|x xs IH]; intros o n w H; simpl in *; [reflexivity|].
  destruct (String.eqb (x_owner x) o && String.eqb (x_name x) n) eqn:E; simpl in *.
  - discriminate.
  - apply IH. exact H.
Qed.

Lemma conforming_props : forall d e, In d configs -> In e all_props ->
  predicted exceptions (e_owner e) (e_name e) = [] ->
  entry_fails e (observe d (e_owner e) (e_name e)) = [].
Proof.
  intros d e Hd He Hp.
  destruct (entry_fails e (observe d (e_owner e) (e_name e))) as [|w l] eqn:E; [reflexivity|].
  exfalso. pose proof (complete_props d e Hd He w) as H. rewrite E in H. specialize (H (or_introl eq_refl)).
  rewrite (predicted_nil_excused _ _ _ w Hp) in H. discriminate.
Qed.

Lemma nonenum_b : forallb (fun d => forallb nonenum_ok (d_props d)) configs = true.
Proof. vm_compute. reflexivity. Qed.

Lemma builtins_not_enumerable : forall d p, In d configs -> In p (d_props d) ->
  host_owned (p_owner p) (p_name p) = false -> p_e p = false.
Proof.
  intros d p Hd Hp Hh. pose proof nonenum_b as H. rewrite forallb_forall in H.
  specialize (H d Hd). rewrite forallb_forall in H. specialize (H p Hp).
  unfold nonenum_ok in H. rewrite Hh in H. simpl in H. destruct (p_e p); [discriminate | reflexivity].
Qed.

Lemma broken_b : forallb (fun d => forallb broken_ok (d_props d)) configs = true.
Proof. vm_compute. reflexivity. Qed.

Lemma descriptors_total : forall d p, In d configs -> In p (d_props d) -> p_kind p <> PBroken.
Proof.
  intros d p Hd Hp Hk. pose proof broken_b as H. rewrite forallb_forall in H.
  specialize (H d Hd). rewrite forallb_forall in H. specialize (H p Hp).
  unfold broken_ok in H. rewrite Hk in H. cbn [negb pkind_eqb orb] in H.
  apply andb_prop in H. destruct H as [_ H2]. cbn in H2. discriminate.
Qed.

Lemma links_b :
  forallb (fun d => forallb (link_ok d) ctors && forallb (inst_link_ok d) inst_links &&
                    forallb (fn_link_ok d) ["spec.fn"; "spec.fn0"; "spec.named"; "spec.ctorfn"]) configs = true.
Proof. vm_compute. reflexivity. Qed.

Lemma links : forall d c pp, In d configs -> In (c, pp) ctors ->
  data_val d "global" c = VObj c /\
  data_val d c "prototype" = VObj (c ++ ".prototype") /\
  data_val d (c ++ ".prototype") "constructor" = VObj c /\
  proto_val d c = VObj "Function.prototype" /\
  proto_val d (c ++ ".prototype") = (if String.eqb pp "" then VNull else VObj pp).
Proof.
  intros d c pp Hd Hc. pose proof links_b as H. rewrite forallb_forall in H.
  specialize (H d Hd). apply andb_prop in H. destruct H as [H _]. apply andb_prop in H. destruct H as [H _].
  rewrite forallb_forall in H. specialize (H (c, pp) Hc). unfold link_ok in H.
  repeat (apply andb_prop in H; destruct H as [H ?]).
  repeat match goal with X : val_eqb _ _ = true |- _ => apply val_eqb_eq in X end.
  auto.
Qed.

Lemma inst_links_ok : forall d x, In d configs -> In x inst_links -> proto_val d (fst x) = VObj (snd x).
Proof.
  intros d x Hd Hx. pose proof links_b as H. rewrite forallb_forall in H.
  specialize (H d Hd). apply andb_prop in H. destruct H as [H _]. apply andb_prop in H. destruct H as [_ H].
  rewrite forallb_forall in H. specialize (H x Hx). apply val_eqb_eq in H. exact H.
Qed.

Lemma configs_equal_b :
  dump_eqb d_copy d_fresh && dump_eqb d_copycopy d_fresh && dump_eqb (strip_lib d_underscore) d_fresh = true.
Proof. vm_compute. reflexivity. Qed.

Lemma configs_equal : d_copy = d_fresh /\ d_copycopy = d_fresh /\ strip_lib d_underscore = d_fresh.
Proof.
  pose proof configs_equal_b as H. apply andb_prop in H. destruct H as [H H3].
  apply andb_prop in H. destruct H as [H1 H2].
  repeat split; apply dump_eqb_eq; assumption.
Qed.

Lemma forin_b :
  forallb (fun d => forallb (forin_ok d) forin_expect) configs = true.
Proof. vm_compute. reflexivity. Qed.

Lemma forin_clean : forall d x, In d configs -> In x forin_expect ->
  forall k, In k (forin_of d (fst x)) <-> In k (snd x).
Proof.
  intros d x Hd Hx. pose proof forin_b as H. rewrite forallb_forall in H.
  specialize (H d Hd). rewrite forallb_forall in H. specialize (H x Hx).
  apply same_set_In. exact H.
Qed.

Lemma copy_total : forall st, copy_panics_model st = copy_panics_spec st.
Proof. reflexivity. Qed.

(* every function-valued entry of ES5 15.1-15.12 / B.2 has a binding probe *)
Definition fun_path (e : entry) : option string :=
  match e_exp e with
  | EFun _ | ECtor _ => Some (if String.eqb (e_owner e) "global" then e_name e else e_owner e ++ "." ++ e_name e)
  | _ => None
  end.

Lemma bindings_cover_b :
  forallb (fun e => match fun_path e with
                    | Some p => existsb (fun pr => String.eqb (pr_id pr) p) probes
                    | None => true end) es5_props = true.
Proof. vm_compute. reflexivity. Qed.

Lemma bindings_cover : forall e p, In e es5_props -> fun_path e = Some p ->
  exists pr, In pr probes /\ pr_id pr = p.
Proof.
  intros e p He Hp. pose proof bindings_cover_b as H. rewrite forallb_forall in H.
  specialize (H e He). rewrite Hp in H. apply existsb_exists in H.
  destruct H as (pr & Hin & Heq). apply String.eqb_eq in Heq. eauto.
Qed.

(* the deviation list only talks about entries of the table *)
Definition exc_in_table (x : exc) : bool :=
  if String.eqb (x_name x) "" then existsb (fun oe => String.eqb (oe_path oe) (x_owner x)) all_objs
  else existsb (fun e => String.eqb (e_owner e) (x_owner x) && String.eqb (e_name e) (x_name x)) all_props.

Lemma exceptions_in_table_b : forallb exc_in_table exceptions = true.
Proof. vm_compute. reflexivity. Qed.

Lemma exceptions_in_table : forall x, In x exceptions ->
  (x_name x = "" /\ exists oe, In oe all_objs /\ oe_path oe = x_owner x) \/
  (exists e, In e all_props /\ e_owner e = x_owner x /\ e_name e = x_name x).
Proof.
  intros x Hx. pose proof exceptions_in_table_b as H. rewrite forallb_forall in H.
  specialize (H x Hx). unfold exc_in_table in H.
  destruct (String.eqb (x_name x) "") eqn:E.
  - left. apply String.eqb_eq in E. split; [assumption|].
    apply existsb_exists in H. destruct H as (oe & Hin & Heq). apply String.eqb_eq in Heq. eauto.
  - right. apply existsb_exists in H. destruct H as (e & Hin & Heq).
    apply andb_prop in Heq. destruct Heq as [H1 H2].
    apply String.eqb_eq in H1. apply String.eqb_eq in H2. eauto.
Qed.

(* ------------------------------------------------------------------ *)
(* the generated table against the generator's input                   *)
(* ------------------------------------------------------------------ *)
Lemma generated_b : forallb (fun d => forallb (gen_ok d) gen_input) configs = true.
Proof. vm_compute. reflexivity. Qed.

Lemma generated_matches_input : forall d g, In d configs -> In g gen_input -> gen_fails d g = [].
Proof.
  intros d g Hd Hg. pose proof generated_b as H. rewrite forallb_forall in H.
  specialize (H d Hd). rewrite forallb_forall in H. specialize (H g Hg).
  unfold gen_ok in H. destruct (gen_fails d g); [reflexivity | discriminate].
Qed.

Lemma beyond_b : forallb (fun d => match beyond_input d with [] => true | _ => false end) configs = true.
Proof. vm_compute. reflexivity. Qed.

Lemma nothing_beyond_input : forall d p, In d configs -> In p (d_props d) ->
  gen_owner (p_owner p) = true -> not_generated (p_owner p) (p_name p) = false ->
  gen_listed (p_owner p) (p_name p) = true.
Proof.
  intros d p Hd Hp Ho Hn. pose proof beyond_b as H. rewrite forallb_forall in H.
  specialize (H d Hd). unfold beyond_input in H.
  destruct (filter (fun p => gen_owner (p_owner p) && negb (gen_listed (p_owner p) (p_name p)) &&
                        negb (not_generated (p_owner p) (p_name p))) (d_props d)) as [|x l] eqn:E;
    [|simpl in H; discriminate].
  pose proof (filter_nil_forall _ _ _ E p Hp) as F. cbv beta in F.
  rewrite Ho, Hn in F. simpl in F.
  destruct (gen_listed (p_owner p) (p_name p)); [reflexivity | discriminate].
Qed.

(* every standard object that ES5 makes an instance of a kind has a behavioural probe *)
Lemma kind_cover_b :
  forallb (fun o => existsb (fun pr => String.eqb (pr_id pr) ("kind:" ++ o)) kind_probes) kind_required = true.
Proof. vm_compute. reflexivity. Qed.

Lemma kind_cover : forall o, In o kind_required -> exists pr, In pr kind_probes /\ pr_id pr = "kind:" ++ o.
Proof.
  intros o Ho. pose proof kind_cover_b as H. rewrite forallb_forall in H. specialize (H o Ho).
  apply existsb_exists in H. destruct H as (pr & Hin & Heq). apply String.eqb_eq in Heq. eauto.
Qed.

(* the entries whose deviations were repaired in /repo conform outright *)
Definition repaired_props : list (string * string) :=
  [("Math", "atan2"); ("Number.prototype", "toString"); ("Number.prototype", "toLocaleString");
   ("spec.str", "0"); ("spec.str", "1")].
Definition repaired_objs : list string :=
  ["Date.prototype"; "EvalError.prototype"; "RangeError.prototype"; "ReferenceError.prototype";
   "SyntaxError.prototype"; "TypeError.prototype"; "URIError.prototype"].

Definition repaired_ok (d : dump) : bool :=
  forallb (fun e => negb (existsb (fun x => String.eqb (fst x) (e_owner e) && String.eqb (snd x) (e_name e)) repaired_props) ||
                    match entry_fails e (observe d (e_owner e) (e_name e)) with [] => true | _ => false end) all_props &&
  forallb (fun oe => negb (existsb (String.eqb (oe_path oe)) repaired_objs) ||
                     match oentry_fails oe (find_obj d (oe_path oe)) with [] => true | _ => false end) all_objs &&
  forallb (fun x => existsb (fun e => String.eqb (fst x) (e_owner e) && String.eqb (snd x) (e_name e)) all_props) repaired_props &&
  forallb (fun x => existsb (fun oe => String.eqb x (oe_path oe)) all_objs) repaired_objs.

Lemma repaired_b : forallb repaired_ok configs = true.
Proof. vm_compute. reflexivity. Qed.

Lemma repaired_props_conform : forall d e, In d configs -> In e all_props ->
  In (e_owner e, e_name e) repaired_props -> entry_fails e (observe d (e_owner e) (e_name e)) = [].
Proof.
  intros d e Hd He Hr. pose proof repaired_b as H. rewrite forallb_forall in H. specialize (H d Hd).
  unfold repaired_ok in H. apply andb_prop in H; destruct H as [H _]. apply andb_prop in H; destruct H as [H _].
  apply andb_prop in H; destruct H as [H _].
  rewrite forallb_forall in H. specialize (H e He).
  apply orb_prop in H. destruct H as [H|H].
  - exfalso. apply negb_true_iff in H.
    assert (existsb (fun x => String.eqb (fst x) (e_owner e) && String.eqb (snd x) (e_name e)) repaired_props = true).
    { apply existsb_exists. exists (e_owner e, e_name e). split; [assumption|]. simpl. rewrite !String.eqb_refl. reflexivity. }
    congruence.
  - destruct (entry_fails e (observe d (e_owner e) (e_name e))); [reflexivity | discriminate].
Qed.

Lemma repaired_objs_conform : forall d oe, In d configs -> In oe all_objs ->
  In (oe_path oe) repaired_objs -> oentry_fails oe (find_obj d (oe_path oe)) = [].
Proof.
  intros d oe Hd He Hr. pose proof repaired_b as H. rewrite forallb_forall in H. specialize (H d Hd).
  unfold repaired_ok in H. apply andb_prop in H; destruct H as [H _]. apply andb_prop in H; destruct H as [H _].
  apply andb_prop in H; destruct H as [_ H1].
  rewrite forallb_forall in H1. specialize (H1 oe He).
  apply orb_prop in H1. destruct H1 as [H1|H1].
  - exfalso. apply negb_true_iff in H1.
    assert (existsb (String.eqb (oe_path oe)) repaired_objs = true).
    { apply existsb_exists. exists (oe_path oe). split; [assumption|]. apply String.eqb_refl. }
    congruence.
  - destruct (oentry_fails oe (find_obj d (oe_path oe))); [reflexivity | discriminate].
Qed.

Lemma tojson_refines : forall tv, tojson_null_model tv = tojson_null_spec tv.
Proof. intros [f|f|]; reflexivity. Qed.
