From Coq Require Import ZArith Bool List Lia Zify.
From Otto Require Import C12.Spec.
From Otto Require Import Common.Double C12.Model.
Import ListNotations.
Open Scope Z_scope.
Ltac Zify.zify_post_hook ::= Z.div_mod_to_equations.

Lemma DayFromYear_step y : DayFromYear (y + 1) = DayFromYear y + DaysInYear y.
Proof.
  unfold DayFromYear, DaysInYear, leap.
  destruct (Z.eqb_spec (y mod 4) 0); destruct (Z.eqb_spec (y mod 100) 0);
    destruct (Z.eqb_spec (y mod 400) 0); cbn [andb orb negb]; lia.
Qed.

Lemma DayFromYear_mono y z : y <= z -> DayFromYear y <= DayFromYear z.
Proof. unfold DayFromYear. lia. Qed.

Theorem YearFromDay_spec d :
  DayFromYear (YearFromDay d) <= d < DayFromYear (YearFromDay d + 1).
Proof.
  unfold YearFromDay.
  set (y := 1970 + 400 * d / 146097).
  assert (Hlo : DayFromYear (y - 1) <= d) by (unfold DayFromYear, y; lia).
  assert (Hhi : d < DayFromYear (y + 2)) by (unfold DayFromYear, y; lia).
  destruct (DayFromYear (y + 1) <=? d) eqn:E1.
  - apply Z.leb_le in E1. replace (y + 1 + 1) with (y + 2) by lia. lia.
  - apply Z.leb_gt in E1. destruct (DayFromYear y <=? d) eqn:E2.
    + apply Z.leb_le in E2. lia.
    + apply Z.leb_gt in E2. replace (y - 1 + 1) with y by lia. lia.
Qed.

Theorem YearFromDay_unique d y :
  DayFromYear y <= d < DayFromYear (y + 1) -> y = YearFromDay d.
Proof.
  intros H. pose proof (YearFromDay_spec d) as S.
  destruct (Z_lt_le_dec y (YearFromDay d)) as [L|G].
  - assert (DayFromYear (y + 1) <= DayFromYear (YearFromDay d)) by (apply DayFromYear_mono; lia). lia.
  - destruct (Z_lt_le_dec (YearFromDay d) y) as [L|G'].
    + assert (DayFromYear (YearFromDay d + 1) <= DayFromYear y) by (apply DayFromYear_mono; lia). lia.
    + lia.
Qed.

(* 15.9.1.3: YearFromTime(t) is the largest y with TimeFromYear(y) <= t *)
Theorem YearFromTime_char t :
  TimeFromYear (YearFromTime t) <= t < TimeFromYear (YearFromTime t + 1).
Proof.
  unfold YearFromTime, TimeFromYear. pose proof (YearFromDay_spec (Day t)) as S.
  unfold Day, msPerDay in *. lia.
Qed.

Theorem YearFromTime_largest t y : TimeFromYear y <= t -> y <= YearFromTime t.
Proof.
  intros H. pose proof (YearFromTime_char t) as [_ Hhi].
  destruct (Z_lt_le_dec (YearFromTime t) y) as [L|G]; [|lia].
  assert (DayFromYear (YearFromTime t + 1) <= DayFromYear y) by (apply DayFromYear_mono; lia).
  unfold TimeFromYear, msPerDay in *. lia.
Qed.

Lemma DayWithinYear_range t : 0 <= DayWithinYear t < 365 + InLeapYear t.
Proof.
  unfold DayWithinYear, InLeapYear, YearFromTime.
  pose proof (YearFromDay_spec (Day t)) as S.
  rewrite DayFromYear_step in S. unfold DaysInYear, lp in *.
  destruct (leap (YearFromDay (Day t))); lia.
Qed.

Lemma lp_01 y : lp y = 0 \/ lp y = 1.
Proof. unfold lp. destruct (leap y); auto. Qed.


Lemma cum_0 l : cum l 0 = 0. Proof. reflexivity. Qed.
Lemma cum_1 l : cum l 1 = 31. Proof. reflexivity. Qed.
Lemma cum_2 l : cum l 2 = 59 + l. Proof. reflexivity. Qed.
Lemma cum_3 l : cum l 3 = 90 + l. Proof. reflexivity. Qed.
Lemma cum_4 l : cum l 4 = 120 + l. Proof. reflexivity. Qed.
Lemma cum_5 l : cum l 5 = 151 + l. Proof. reflexivity. Qed.
Lemma cum_6 l : cum l 6 = 181 + l. Proof. reflexivity. Qed.
Lemma cum_7 l : cum l 7 = 212 + l. Proof. reflexivity. Qed.
Lemma cum_8 l : cum l 8 = 243 + l. Proof. reflexivity. Qed.
Lemma cum_9 l : cum l 9 = 273 + l. Proof. reflexivity. Qed.
Lemma cum_10 l : cum l 10 = 304 + l. Proof. reflexivity. Qed.
Lemma cum_11 l : cum l 11 = 334 + l. Proof. reflexivity. Qed.
Lemma cum_12 l : cum l 12 = 365 + l. Proof. reflexivity. Qed.
Ltac cumsimp :=
  change (0 + 1) with 1 in *; change (1 + 1) with 2 in *; change (2 + 1) with 3 in *; change (3 + 1) with 4 in *;
  change (4 + 1) with 5 in *; change (5 + 1) with 6 in *; change (6 + 1) with 7 in *; change (7 + 1) with 8 in *;
  change (8 + 1) with 9 in *; change (9 + 1) with 10 in *; change (10 + 1) with 11 in *; change (11 + 1) with 12 in *;
  rewrite ?cum_0, ?cum_1, ?cum_2, ?cum_3, ?cum_4, ?cum_5, ?cum_6, ?cum_7, ?cum_8, ?cum_9, ?cum_10, ?cum_11, ?cum_12 in *.

Ltac month_cases l d :=
  unfold MonthFromDwy, cum;
  repeat match goal with
  | |- context [?a <? ?b] => destruct (Z.ltb_spec a b)
  end; cbn; try lia.

Lemma month_bounds l d : (l = 0 \/ l = 1) -> 0 <= d < 365 + l ->
  0 <= MonthFromDwy l d <= 11 /\
  cum l (MonthFromDwy l d) <= d < cum l (MonthFromDwy l d + 1).
Proof.
  intros Hl Hd. unfold MonthFromDwy.
  destruct (Z.ltb_spec d 31); [cumsimp; lia|].
  destruct (Z.ltb_spec d (59 + l)); [cumsimp; lia|].
  destruct (Z.ltb_spec d (90 + l)); [cumsimp; lia|].
  destruct (Z.ltb_spec d (120 + l)); [cumsimp; lia|].
  destruct (Z.ltb_spec d (151 + l)); [cumsimp; lia|].
  destruct (Z.ltb_spec d (181 + l)); [cumsimp; lia|].
  destruct (Z.ltb_spec d (212 + l)); [cumsimp; lia|].
  destruct (Z.ltb_spec d (243 + l)); [cumsimp; lia|].
  destruct (Z.ltb_spec d (273 + l)); [cumsimp; lia|].
  destruct (Z.ltb_spec d (304 + l)); [cumsimp; lia|].
  destruct (Z.ltb_spec d (334 + l)); [cumsimp; lia|].
  cumsimp; lia.
Qed.

Lemma month_unique l d m : (l = 0 \/ l = 1) -> 0 <= m <= 11 ->
  cum l m <= d < cum l (m + 1) -> MonthFromDwy l d = m.
Proof.
  intros Hl Hm Hd.
  assert (m = 0 \/ m = 1 \/ m = 2 \/ m = 3 \/ m = 4 \/ m = 5 \/ m = 6 \/ m = 7 \/ m = 8 \/ m = 9 \/ m = 10 \/ m = 11) as Hc by lia.
  unfold MonthFromDwy.
  repeat (destruct Hc as [-> | Hc]; [ cumsimp;
    repeat match goal with |- context [?a <? ?b] => destruct (Z.ltb_spec a b); try lia end |]).
  subst m. cumsimp.
  repeat match goal with |- context [?a <? ?b] => destruct (Z.ltb_spec a b); try lia end.
Qed.

Theorem MonthFromTime_range t : 0 <= MonthFromTime t <= 11.
Proof.
  unfold MonthFromTime. apply month_bounds.
  - unfold InLeapYear. apply lp_01.
  - apply DayWithinYear_range.
Qed.

Theorem DateFromTime_range t : 1 <= DateFromTime t <= 31.
Proof.
  unfold DateFromTime, MonthFromTime.
  pose proof (DayWithinYear_range t) as Hd.
  assert (Hl : InLeapYear t = 0 \/ InLeapYear t = 1) by (unfold InLeapYear; apply lp_01).
  pose proof (month_bounds _ _ Hl Hd) as [Hm Hc].
  set (m := MonthFromDwy (InLeapYear t) (DayWithinYear t)) in *.
  assert (m = 0 \/ m = 1 \/ m = 2 \/ m = 3 \/ m = 4 \/ m = 5 \/ m = 6 \/ m = 7 \/ m = 8 \/ m = 9 \/ m = 10 \/ m = 11) as Hcase by lia.
  repeat (destruct Hcase as [E | Hcase]; [rewrite E in *; cumsimp; lia|]).
  rewrite Hcase in *; cumsimp; lia.
Qed.

Lemma MakeTime_fields t :
  MakeTime (HourFromTime t) (MinFromTime t) (SecFromTime t) (msFromTime t) = TimeWithinDay t.
Proof.
  unfold MakeTime, HourFromTime, MinFromTime, SecFromTime, msFromTime, TimeWithinDay,
    msPerHour, msPerMinute, msPerSecond, msPerDay. lia.
Qed.

(* every time value is recomposed from the fields the accessors report *)
Theorem civil_roundtrip t :
  MakeDate (MakeDay (YearFromTime t) (MonthFromTime t) (DateFromTime t))
           (MakeTime (HourFromTime t) (MinFromTime t) (SecFromTime t) (msFromTime t)) = t.
Proof.
  rewrite MakeTime_fields.
  pose proof (MonthFromTime_range t) as Hm.
  unfold MakeDate, MakeDay.
  replace (MonthFromTime t / 12) with 0 by lia.
  replace (MonthFromTime t mod 12) with (MonthFromTime t) by lia.
  rewrite Z.add_0_r.
  unfold DateFromTime, InLeapYear, DayWithinYear, TimeWithinDay, Day, msPerDay.
  set (c := cum _ _). lia.
Qed.

(* 15.9.1.12 asks to "find t such that YearFromTime(t) = ym, MonthFromTime(t) = mn,
   DateFromTime(t) = 1"; the closed form used by MakeDay is such a t *)
Theorem MakeDay_finds y m :
  let ym := y + m / 12 in let mn := m mod 12 in
  let t := MakeDate (MakeDay y m 1) 0 in
  YearFromTime t = ym /\ MonthFromTime t = mn /\ DateFromTime t = 1.
Proof.
  intros ym mn t.
  assert (Hmn : 0 <= mn <= 11) by (unfold mn; lia).
  assert (Hl : lp ym = 0 \/ lp ym = 1) by apply lp_01.
  assert (Hday : Day t = DayFromYear ym + cum (lp ym) mn).
  { unfold t, MakeDate, MakeDay, Day, msPerDay. fold ym mn. lia. }
  assert (Hc : 0 <= cum (lp ym) mn /\ cum (lp ym) (mn + 1) <= 365 + lp ym /\ cum (lp ym) mn < cum (lp ym) (mn + 1)).
  { assert (mn = 0 \/ mn = 1 \/ mn = 2 \/ mn = 3 \/ mn = 4 \/ mn = 5 \/ mn = 6 \/ mn = 7 \/ mn = 8 \/ mn = 9 \/ mn = 10 \/ mn = 11) as Hcase by lia.
    repeat (destruct Hcase as [E | Hcase]; [rewrite E; cumsimp; lia|]). rewrite Hcase; cumsimp; lia. }
  assert (Hy : YearFromTime t = ym).
  { unfold YearFromTime. symmetry. apply YearFromDay_unique. rewrite Hday, DayFromYear_step.
    unfold DaysInYear, lp in *. destruct (leap ym); lia. }
  assert (Hdw : DayWithinYear t = cum (lp ym) mn) by (unfold DayWithinYear; rewrite Hy, Hday; lia).
  assert (Hmo : MonthFromTime t = mn).
  { unfold MonthFromTime, InLeapYear. rewrite Hy, Hdw. apply month_unique; auto. lia. }
  repeat split; auto.
  unfold DateFromTime, InLeapYear. rewrite Hmo, Hy, Hdw. lia.
Qed.

Theorem WeekDay_step t : WeekDay (t + msPerDay) = (WeekDay t + 1) mod 7.
Proof. unfold WeekDay, Day, msPerDay. lia. Qed.

Theorem time_field_ranges t :
  0 <= HourFromTime t < 24 /\ 0 <= MinFromTime t < 60 /\ 0 <= SecFromTime t < 60 /\
  0 <= msFromTime t < 1000 /\ 0 <= WeekDay t < 7.
Proof.
  unfold HourFromTime, MinFromTime, SecFromTime, msFromTime, WeekDay, msPerHour, msPerMinute, msPerSecond. lia.
Qed.

(* ---- ISO text round trip for years 0..9999 ---- *)
Lemma num2 a b : 0 <= a <= 9 -> 0 <= b <= 9 -> num [dg a; dg b] 0 = Some (a * 10 + b).
Proof.
  intros Ha Hb. unfold num, dv, dg.
  replace ((48 <=? 48 + a) && (48 + a <=? 57)) with true by (symmetry; apply andb_true_iff; lia).
  replace ((48 <=? 48 + b) && (48 + b <=? 57)) with true by (symmetry; apply andb_true_iff; lia).
  f_equal. lia.
Qed.

Lemma num_print2 n : 0 <= n < 100 -> num (print2 n) 0 = Some n.
Proof. intros H. unfold print2. rewrite num2 by lia. f_equal. lia. Qed.

Lemma num_digit c acc l : 0 <= c <= 9 -> num (dg c :: l) acc = num l (acc * 10 + c).
Proof.
  intros H. cbn [num]. unfold dv, dg.
  replace ((48 <=? 48 + c) && (48 + c <=? 57)) with true by (symmetry; apply andb_true_iff; lia).
  f_equal. lia.
Qed.

Lemma num_print3 n : 0 <= n < 1000 -> num (print3 n) 0 = Some n.
Proof.
  intros H. unfold print3. rewrite !num_digit by lia. cbn [num]. f_equal. lia.
Qed.

Lemma num_print4 n : 0 <= n < 10000 -> num (print4 n) 0 = Some n.
Proof.
  intros H. unfold print4. rewrite !num_digit by lia. cbn [num]. f_equal. lia.
Qed.

Theorem iso_roundtrip t :
  0 <= YearFromTime t <= 9999 -> parseISO (toISO t) = Some t.
Proof.
  intros Hy. unfold toISO, iso_year, iso_tail.
  replace ((0 <=? YearFromTime t) && (YearFromTime t <=? 9999)) with true
    by (symmetry; apply andb_true_iff; lia).
  pose proof (MonthFromTime_range t) as Hm. pose proof (DateFromTime_range t) as Hd.
  pose proof (time_field_ranges t) as (Hh & Hmi & Hs & Hms & _).
  unfold print4 at 1. unfold print2, print3. cbn [app]. unfold parseISO.
  rewrite !Z.eqb_refl. cbn [andb].
  change [dg (YearFromTime t / 1000 mod 10); dg (YearFromTime t / 100 mod 10);
          dg (YearFromTime t / 10 mod 10); dg (YearFromTime t mod 10)] with (print4 (YearFromTime t)).
  rewrite num_print4 by lia.
  change [dg ((MonthFromTime t + 1) / 10 mod 10); dg ((MonthFromTime t + 1) mod 10)] with (print2 (MonthFromTime t + 1)).
  change [dg (DateFromTime t / 10 mod 10); dg (DateFromTime t mod 10)] with (print2 (DateFromTime t)).
  change [dg (HourFromTime t / 10 mod 10); dg (HourFromTime t mod 10)] with (print2 (HourFromTime t)).
  change [dg (MinFromTime t / 10 mod 10); dg (MinFromTime t mod 10)] with (print2 (MinFromTime t)).
  change [dg (SecFromTime t / 10 mod 10); dg (SecFromTime t mod 10)] with (print2 (SecFromTime t)).
  change [dg (msFromTime t / 100 mod 10); dg (msFromTime t / 10 mod 10); dg (msFromTime t mod 10)] with (print3 (msFromTime t)).
  rewrite !num_print2 by lia. rewrite num_print3 by lia.
  replace ((1 <=? MonthFromTime t + 1) && (MonthFromTime t + 1 <=? 12) && (1 <=? DateFromTime t) &&
           (DateFromTime t <=? 31) && (HourFromTime t <=? 24) && (MinFromTime t <=? 59) && (SecFromTime t <=? 59)) with true
    by (symmetry; repeat (apply andb_true_iff; split); lia).
  f_equal. replace (MonthFromTime t + 1 - 1) with (MonthFromTime t) by lia.
  apply civil_roundtrip.
Qed.

(* ---- an invalid date stays invalid under every setter that reads the old time value ---- *)
Theorem invalid_absorbing ops :
  (forall op, In op ops -> fst op <> 6 /\ fst op <> 7) ->
  forall r, In r (set_hist set_spec None ops) -> r = None.
Proof.
  induction ops as [|[id a] ops IH]; intros Hops r Hr; [destruct Hr|].
  cbn [set_hist] in Hr.
  assert (Hid : id <> 6 /\ id <> 7) by (apply (Hops (id, a)); left; reflexivity).
  assert (E : set_spec id None a = None).
  { unfold set_spec, set_raw.
    destruct id as [|p|p]; try reflexivity.
    do 3 (destruct p as [p|p|]; try reflexivity); lia. }
  rewrite E in Hr. destruct Hr as [<-|Hr]; [reflexivity|].
  apply IH; [|exact Hr]. intros op Hin. apply Hops. right. exact Hin.
Qed.

(* every result of every setter history is a clipped time value *)
Theorem set_results_clipped t ops r :
  In (Some r) (set_hist set_spec t ops) -> Z.abs r <= maxTime.
Proof.
  revert t. induction ops as [|[id a] ops IH]; intros t Hr; [destruct Hr|].
  cbn [set_hist] in Hr. destruct Hr as [Hr|Hr]; [|eapply IH; exact Hr].
  unfold set_spec, clip in Hr. destruct (set_raw id t a) as [v|]; [|discriminate].
  unfold TimeClip in Hr. destruct (Z.leb_spec (Z.abs v) maxTime); [|discriminate].
  injection Hr as <-. assumption.
Qed.

(* setting a field inside its natural range reads back and leaves the others alone *)
Theorem setUTCHours_reads_back t h :
  0 <= h < 24 ->
  let t' := MakeDate (Day t) (MakeTime h (MinFromTime t) (SecFromTime t) (msFromTime t)) in
  HourFromTime t' = h /\ MinFromTime t' = MinFromTime t /\ SecFromTime t' = SecFromTime t /\
  msFromTime t' = msFromTime t /\ Day t' = Day t.
Proof.
  intros Hh t'. unfold t', MakeDate, MakeTime, HourFromTime, MinFromTime, SecFromTime, msFromTime, Day,
    msPerDay, msPerHour, msPerMinute, msPerSecond. lia.
Qed.

(* ---- round 6: ToInteger on thousandths, surplus arguments, local setters ---- *)
Lemma toint_truncates x :
  Z.abs (1000 * toint x) <= Z.abs x < Z.abs (1000 * toint x) + 1000 /\
  (0 <= x -> 0 <= toint x) /\ (x <= 0 -> toint x <= 0).
Proof.
  unfold toint. destruct (Z.le_gt_cases 0 x) as [H|H].
  - rewrite Z.quot_div_nonneg by lia. lia.
  - assert (E : Z.quot x 1000 = - ((- x) / 1000)).
    { replace x with (- (- x)) at 1 by lia. rewrite Z.quot_opp_l by lia.
      rewrite Z.quot_div_nonneg by lia. reflexivity. }
    rewrite E. lia.
Qed.

(* arguments beyond a setter's parameter list take no part in the result *)
Lemma surplus_ignored id t a extra :
  0 <= id <= 7 -> length a = arity id -> set_spec id t (a ++ extra) = set_spec id t a.
Proof.
  intros Hid Hlen.
  assert (C : id = 0 \/ id = 1 \/ id = 2 \/ id = 3 \/ id = 4 \/ id = 5 \/ id = 6 \/ id = 7) by lia.
  destruct C as [->|[->|[->|[->|[->|[->|[->| ->]]]]]]]; cbv [arity Z.leb Z.compare Z.eqb Pos.eqb Pos.compare Pos.compare_cont] in Hlen;
    destruct a as [|a0 [|a1 [|a2 [|a3 [|a4 a]]]]]; cbn [length] in Hlen; try discriminate Hlen; reflexivity.
Qed.

(* with LocalTZA = 0 the local-time setters are the UTC ones *)
Lemma local_zero_offset id t a :
  0 <= id <= 6 -> set_spec_z 0 (id + 10) t a = set_spec id t a.
Proof.
  intro Hid. unfold set_spec_z, set_spec, set_raw_z.
  replace ((10 <=? id + 10) && (id + 10 <=? 16)) with true by (symmetry; apply andb_true_iff; split; apply Z.leb_le; lia).
  replace (id + 10 - 10) with id by lia.
  replace (option_map (fun t0 => t0 + 0) t) with t by (destruct t; cbn; [rewrite Z.add_0_r|]; reflexivity).
  destruct (set_raw id t a); cbn [option_map]; [rewrite Z.sub_0_r|]; reflexivity.
Qed.

(* newDateTime (after 875fefb) agrees with 15.9.4.3 on fractional arguments wherever the result is a time value *)
Lemma utcq_model_in_range l r :
  utc_raw (tointf l) = Some r -> Z.abs r <= maxTime -> utcq_model l = utcq l.
Proof.
  intros E H. unfold utcq_model, utcq, utc. rewrite E. cbn [option_map].
  unfold TimeClip. destruct (Z.leb_spec (Z.abs r) maxTime); [|lia].
  f_equal. unfold round_to_double.
  assert (L : Z.abs r <? 2 ^ 53 = true) by (apply Z.ltb_lt; unfold maxTime in H; change (2 ^ 53) with 9007199254740992; lia).
  rewrite L. reflexivity.
Qed.
