(* correspondence cases for C12: what the harness observed on the real
   interpreter against Model (otto's glue) and Spec (ES5 15.9) *)
From Coq Require Import ZArith Bool List.
From Otto Require Import Common.Corr C12.Spec C12.Model.
Import ListNotations.
Open Scope Z_scope.

Inductive case :=
| CClip (t : Z) (obs : option Z)                       (* new Date(t).getTime(), |t| beyond the range *)
| CGet (t : Z) (obs : list (option Z))                 (* time value in range: 9 UTC fields, valueOf, 8 local fields (TZ=UTC) *)
| CIso (t : Z) (iso : list Z) (back : option Z) (json_same : bool)
| CUtc (ctor : Z) (fields : list (option Z)) (obs : option Z)
| CSet (t : option Z) (ops : list (Z * list (option Z))) (obs : list (option Z))
| CInvalid (all_nan : bool)
(* a Date made on one runtime, the runtime copied, a setter history run on ONE of the two:
   the history behaves as on a single runtime and the other runtime's Date keeps its time value *)
| CCopy (t : option Z) (ops : list (Z * list (option Z))) (obs : list (option Z)) (other_after : option Z)
(* a setter one of whose arguments is an object whose valueOf calls ANOTHER setter on the same Date:
   15.9.5.x step 1 reads "this time value" before the arguments are converted, so the outer call composes from the
   value the Date had when it was entered; obs = [inner call's result; outer call's result; getTime() afterwards] *)
| CReent (t : option Z) (outer inner : Z * list (option Z)) (obs : list (option Z))
(* how many of a setter's arguments are converted (each argument is an object whose valueOf counts its call and
   returns the given number): 15.9.5.x converts every argument the setter takes, whatever the earlier ones gave *)
| CConv (t : option Z) (args : list (option Z)) (count : Z)
(* Date.UTC (ctor = 0) / the multi-argument constructor (ctor = 1) on arguments given in THOUSANDTHS (None = NaN,
   infinite or not a number): ToInteger of every field is computed here (Spec.toint), not by the harness *)
| CUtcQ (ctor : Z) (fields : list (option Z)) (obs : option Z)
(* a setter history in a host zone with constant offset off ms: ids 0..7 = setUTC* / setTime, 10..16 = the
   local-time setters; arguments in thousandths, possibly MORE than the setter declares (the surplus is ignored);
   obs = result and getTime() after each call; fin = getTime, 8 UTC fields, valueOf, 8 local fields after the
   history; iso = toISOString() then (compared for years 0..9999, where model = spec) *)
| CHist (off : Z) (t : option Z) (ops : list (Z * list (option Z))) (obs fin : list (option Z)) (iso : list Z)
(* the same kind of history with EVERY observer called on the one Date object before the first call and again after
   every call: steps = for the start and after each setter (value: the start's getTime() / the setter's result;
   fin as in CHist; iso = toISOString() with toJSON() and JSON.stringify folded in; back = Date.parse(toISOString())).
   An observer may not remember anything across a mutator (incl. setTime, which has its own code path) *)
| CHistAll (off : Z) (t : option Z) (ops : list (Z * list (option Z)))
           (steps : list (option Z * list (option Z) * list Z * option Z))
(* Date.parse(s) / new Date(s).getTime() on a full-form ISO string *)
| CParse (s : list Z) (obs : option Z)
(* conversions counted as in CConv, with arguments beyond the setter's parameter list: those are never converted *)
| CConvS (id : Z) (t : option Z) (args : list (option Z)) (count : Z).

Definition oz_eqb := option_eqb Z.eqb.
Definition loz_eqb := list_eqb oz_eqb.

Definition get_expect (t : Z) : list (option Z) :=
  let f := fields t in
  map Some (f ++ [t] ++ tl f).

(* each setter call is observed twice: its return value and getTime() after it *)
Fixpoint dup (l : list (option Z)) : list (option Z) :=
  match l with [] => [] | x :: l' => x :: x :: dup l' end.

(* finding classes: 1 = TimeClip not applied (15.9.1.14), 2 = setUTCFullYear on an
   invalid date (15.9.5.41 uses t = +0), 3 = toISOString year outside 0..9999 *)
Definition hist_class (t : option Z) (ops : list (Z * list (option Z))) : Z :=
  if loz_eqb (set_hist (fun id t a => clip (set_model id t a)) t ops) (set_hist set_spec t ops)
  then 1 else 2.

(* builtinDateBeforeSet: nothing is converted when the Date is invalid; the loop returns at the first argument
   that is not a finite number *)
Fixpoint conv_upto (args : list (option Z)) : Z :=
  match args with [] => 0 | None :: _ => 1 | Some _ :: l => 1 + conv_upto l end.
Definition conv_model (t : option Z) (args : list (option Z)) : Z :=
  match t with None => 0 | Some _ => conv_upto args end.
Definition conv_spec (t : option Z) (args : list (option Z)) : Z := Z.of_nat (length args).

(* the only deviation left in newDateTime is the missing TimeClip (class 1); class 5 (two-digit year tested on the
   unconverted number) was repaired by 875fefb and is no longer a known deviation *)
Definition utcq_class (l : list (option Z)) : Z := 1.

Definition qops (ops : list (Z * list (option Z))) := map (fun o => (fst o, tointf (snd o))) ops.
Definition hist_class_z (off : Z) (t : option Z) (ops : list (Z * list (option Z))) : Z :=
  if loz_eqb (set_hist (fun id t a => clip (set_model_z off id t a)) t ops) (set_hist (set_spec_z off) t ops)
  then 1 else 2.
Definition fin_expect (off : Z) (o : option Z) : list (option Z) :=
  match o with
  | Some t => map Some (fields t ++ [t] ++ tl (fields (t + off)))
  | None => repeat None 18
  end.
Definition iso_in (o : option Z) (s : list Z) : list Z :=
  match o with
  | Some t => let y := YearFromTime t in if (0 <=? y) && (y <=? 9999) then s else []
  | None => []
  end.
Definition iso_expect (o : option Z) : list Z := match o with Some t => toISO t | None => [] end.
Definition hist_eqb (a b : list (option Z) * list (option Z) * list Z) : bool :=
  loz_eqb (fst (fst a)) (fst (fst b)) && loz_eqb (snd (fst a)) (snd (fst b)) && zlist_eqb (snd a) (snd b).

Definition step_t := (option Z * list (option Z) * list Z * option Z)%type.
Definition step_expect (off : Z) (s : option Z) : step_t :=
  (s, fin_expect off s, iso_in s (iso_expect s), match iso_in s [0] with [] => None | _ => s end).
(* the ISO text and its parse are compared for years 0..9999 (the state the model predicts decides) *)
Definition step_filter (p : option Z * step_t) : step_t :=
  let '(s, (v, fin, iso, back)) := p in (v, fin, iso_in s iso, match iso_in s [0] with [] => None | _ => back end).
Definition step_eqb (a b : step_t) : bool :=
  let '(v, fin, iso, back) := a in let '(v', fin', iso', back') := b in
  oz_eqb v v' && loz_eqb fin fin' && zlist_eqb iso iso' && oz_eqb back back'.
Definition steps_eqb (a b : list step_t) : bool := list_eqb step_eqb a b.

Definition verdict (c : case) : Z * Z :=
  match c with
  | CClip t obs => judge oz_eqb obs (ctor_model t) (TimeClip t) 1
  | CGet t obs => judge loz_eqb obs (get_expect t) (get_expect t) 0
  | CIso t iso back same =>
      let y := YearFromTime t in
      let inr := (0 <=? y) && (y <=? 9999) in
      judge (fun a b => zlist_eqb (fst (fst a)) (fst (fst b)) && oz_eqb (snd (fst a)) (snd (fst b)) && Bool.eqb (snd a) (snd b))
            (iso, (if inr then back else None), same)
            (toISO_model t, (if inr then parseISO (toISO_model t) else None), true)
            (toISO t, (if inr then Some t else None), true) 3
  | CUtc _ f obs => judge oz_eqb obs (utc_model f) (utc f) 1
  | CSet t ops obs =>
      judge loz_eqb obs (dup (set_hist set_model t ops)) (dup (set_hist set_spec t ops))
            (hist_class t ops)
  | CInvalid b => judge Bool.eqb b true true 0
  | CReent t outer inner obs =>
      let m := [set_model (fst inner) t (snd inner); set_model (fst outer) t (snd outer); set_model (fst outer) t (snd outer)] in
      let sp := [set_spec (fst inner) t (snd inner); set_spec (fst outer) t (snd outer); set_spec (fst outer) t (snd outer)] in
      judge loz_eqb obs m sp (hist_class t [inner; outer])
  | CConv t args n => judge Z.eqb n (conv_model t args) (conv_spec t args) 4
  | CUtcQ _ f obs => judge oz_eqb obs (utcq_model f) (utcq f) (utcq_class f)
  | CHist off t ops obs fin iso =>
      let ops' := qops ops in
      let hm := set_hist (set_model_z off) t ops' in
      let hs := set_hist (set_spec_z off) t ops' in
      let lm := last hm t in
      let ls := last hs t in
      judge hist_eqb (obs, fin, iso_in lm iso)
            (dup hm, fin_expect off lm, iso_in lm (iso_expect lm))
            (dup hs, fin_expect off ls, iso_in ls (iso_expect ls))
            (hist_class_z off t ops')
  | CHistAll off t ops steps =>
      let ops' := qops ops in
      let sm := t :: set_hist (set_model_z off) t ops' in
      let ss := t :: set_hist (set_spec_z off) t ops' in
      if negb (Nat.eqb (length steps) (length sm)) then (3, 0) else
      judge steps_eqb (map step_filter (combine sm steps)) (map (step_expect off) sm) (map (step_expect off) ss)
            (hist_class_z off t ops')
  | CParse s obs => judge oz_eqb obs (parseISO s) (parseISO s) 0
  | CConvS id t args n =>
      judge Z.eqb n (conv_model t (firstn (arity id) args)) (conv_spec t (firstn (arity id) args)) 4
  | CCopy t ops obs other =>
      judge loz_eqb (other :: obs) (t :: dup (set_hist set_model t ops)) (t :: dup (set_hist set_spec t ops))
            (hist_class t ops)
  end.
