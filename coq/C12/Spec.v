(* ES5 15.9.1 time-value algebra, executable, over unbounded Z.
   Time values are integers (ms since the epoch); NaN is [None]. *)
From Coq Require Import ZArith Bool List.
Import ListNotations.
Open Scope Z_scope.

Definition msPerDay := 86400000.
Definition msPerHour := 3600000.
Definition msPerMinute := 60000.
Definition msPerSecond := 1000.

Definition Day (t : Z) := t / msPerDay.
Definition TimeWithinDay (t : Z) := t mod msPerDay.

Definition DayFromYear (y : Z) :=
  365 * (y - 1970) + (y - 1969) / 4 - (y - 1901) / 100 + (y - 1601) / 400.
Definition TimeFromYear (y : Z) := msPerDay * DayFromYear y.
Definition leap (y : Z) : bool :=
  ((y mod 4 =? 0) && negb (y mod 100 =? 0)) || (y mod 400 =? 0).
Definition DaysInYear (y : Z) := if leap y then 366 else 365.
Definition lp (y : Z) : Z := if leap y then 1 else 0.   (* InLeapYear *)

(* YearFromTime: "the largest integer y such that TimeFromYear(y) <= t",
   computed by a 400-year-cycle estimate corrected by at most one
   (YearFromDay_spec / YearFromDay_unique prove it is that y). *)
Definition YearFromDay (d : Z) : Z :=
  let y := 1970 + (400 * d) / 146097 in
  if DayFromYear (y + 1) <=? d then y + 1
  else if DayFromYear y <=? d then y else y - 1.
Definition YearFromTime (t : Z) := YearFromDay (Day t).
Definition InLeapYear (t : Z) := lp (YearFromTime t).
Definition DayWithinYear (t : Z) := Day t - DayFromYear (YearFromTime t).

(* days before month m (0..11; 12 = whole year) in a year with leap flag l *)
Definition cum (l m : Z) : Z :=
  if m <=? 0 then 0 else if m =? 1 then 31 else if m =? 2 then 59 + l
  else if m =? 3 then 90 + l else if m =? 4 then 120 + l else if m =? 5 then 151 + l
  else if m =? 6 then 181 + l else if m =? 7 then 212 + l else if m =? 8 then 243 + l
  else if m =? 9 then 273 + l else if m =? 10 then 304 + l else if m =? 11 then 334 + l
  else 365 + l.

Definition MonthFromDwy (l d : Z) : Z :=
  if d <? 31 then 0 else if d <? 59 + l then 1 else if d <? 90 + l then 2
  else if d <? 120 + l then 3 else if d <? 151 + l then 4 else if d <? 181 + l then 5
  else if d <? 212 + l then 6 else if d <? 243 + l then 7 else if d <? 273 + l then 8
  else if d <? 304 + l then 9 else if d <? 334 + l then 10 else 11.

Definition MonthFromTime (t : Z) := MonthFromDwy (InLeapYear t) (DayWithinYear t).
Definition DateFromTime (t : Z) :=
  DayWithinYear t - cum (InLeapYear t) (MonthFromTime t) + 1.
Definition WeekDay (t : Z) := (Day t + 4) mod 7.
Definition HourFromTime (t : Z) := (t / msPerHour) mod 24.
Definition MinFromTime (t : Z) := (t / msPerMinute) mod 60.
Definition SecFromTime (t : Z) := (t / msPerSecond) mod 60.
Definition msFromTime (t : Z) := t mod msPerSecond.

Definition MakeTime (h m s ms : Z) := h * msPerHour + m * msPerMinute + s * msPerSecond + ms.
(* 15.9.1.12: ym = year + floor(month/12), mn = month mod 12, the day number
   of the first of that month, plus date - 1 (MakeDay_finds proves the
   closed form is the t the clause asks to "find"). *)
Definition MakeDay (y m d : Z) :=
  let ym := y + m / 12 in let mn := m mod 12 in
  DayFromYear ym + cum (lp ym) mn + d - 1.
Definition MakeDate (day time : Z) := day * msPerDay + time.
Definition maxTime := 8640000000000000.
Definition TimeClip (t : Z) : option Z := if Z.abs t <=? maxTime then Some t else None.

(* ---- field access on a time value ---- *)
Definition fields (t : Z) : list Z :=
  [t; YearFromTime t; MonthFromTime t; DateFromTime t; WeekDay t;
   HourFromTime t; MinFromTime t; SecFromTime t; msFromTime t].

(* ---- 15.9.4.3 Date.UTC / multi-argument constructor (fields already ToInteger'd;
   None = NaN or infinite argument) ---- *)
Definition nth_or (l : list (option Z)) (i : nat) (d : Z) : option Z :=
  match nth_error l i with Some v => v | None => Some d end.

Definition utc_raw (l : list (option Z)) : option Z :=
  match nth_or l 0 0, nth_or l 1 0, nth_or l 2 1, nth_or l 3 0, nth_or l 4 0, nth_or l 5 0, nth_or l 6 0 with
  | Some y, Some m, Some dt, Some h, Some mi, Some s, Some ms =>
      let yr := if (0 <=? y) && (y <=? 99) then 1900 + y else y in
      Some (MakeDate (MakeDay yr m dt) (MakeTime h mi s ms))
  | _, _, _, _, _, _, _ => None
  end.
Definition utc (l : list (option Z)) : option Z :=
  match utc_raw l with Some t => TimeClip t | None => None end.

(* ---- 15.9.5.28-41 setUTC*: setter id, this time value (None = NaN), arguments ---- *)
Definition arg (l : list (option Z)) (i : nat) (dflt : Z) : option Z :=
  match nth_error l i with Some v => v | None => Some dflt end.

Definition set_raw (id : Z) (t : option Z) (a : list (option Z)) : option Z :=
  match id with
  | 7 => (* setTime *) arg a 0 0
  | 6 => (* setUTCFullYear: t = +0 when NaN *)
      let t0 := match t with Some t => t | None => 0 end in
      match arg a 0 0, arg a 1 (MonthFromTime t0), arg a 2 (DateFromTime t0) with
      | Some y, Some m, Some d => Some (MakeDate (MakeDay y m d) (TimeWithinDay t0))
      | _, _, _ => None
      end
  | _ =>
    match t with
    | None => None
    | Some t =>
      match id with
      | 0 => match arg a 0 0 with
             | Some ms => Some (MakeDate (Day t) (MakeTime (HourFromTime t) (MinFromTime t) (SecFromTime t) ms))
             | None => None end
      | 1 => match arg a 0 0, arg a 1 (msFromTime t) with
             | Some s, Some ms => Some (MakeDate (Day t) (MakeTime (HourFromTime t) (MinFromTime t) s ms))
             | _, _ => None end
      | 2 => match arg a 0 0, arg a 1 (SecFromTime t), arg a 2 (msFromTime t) with
             | Some m, Some s, Some ms => Some (MakeDate (Day t) (MakeTime (HourFromTime t) m s ms))
             | _, _, _ => None end
      | 3 => match arg a 0 0, arg a 1 (MinFromTime t), arg a 2 (SecFromTime t), arg a 3 (msFromTime t) with
             | Some h, Some m, Some s, Some ms => Some (MakeDate (Day t) (MakeTime h m s ms))
             | _, _, _, _ => None end
      | 4 => match arg a 0 0 with
             | Some d => Some (MakeDate (MakeDay (YearFromTime t) (MonthFromTime t) d) (TimeWithinDay t))
             | None => None end
      | 5 => match arg a 0 0, arg a 1 (DateFromTime t) with
             | Some m, Some d => Some (MakeDate (MakeDay (YearFromTime t) m d) (TimeWithinDay t))
             | _, _ => None end
      | _ => None
      end
    end
  end.
Definition clip (o : option Z) : option Z := match o with Some t => TimeClip t | None => None end.
Definition set_spec (id : Z) (t : option Z) (a : list (option Z)) : option Z := clip (set_raw id t a).

(* a history of setters: result of each call, starting from time value t *)
Fixpoint set_hist (step : Z -> option Z -> list (option Z) -> option Z)
         (t : option Z) (ops : list (Z * list (option Z))) : list (option Z) :=
  match ops with
  | [] => []
  | (id, a) :: ops' => let t' := step id t a in t' :: set_hist step t' ops'
  end.

(* ---- 15.9.1.15 / 15.9.5.43 ISO text (as UTF-16 unit lists) ---- *)
Definition dg (n : Z) : Z := 48 + n.
Definition print2 (n : Z) := [dg (n / 10 mod 10); dg (n mod 10)].
Definition print3 (n : Z) := [dg (n / 100 mod 10); dg (n / 10 mod 10); dg (n mod 10)].
Definition print4 (n : Z) := [dg (n / 1000 mod 10); dg (n / 100 mod 10); dg (n / 10 mod 10); dg (n mod 10)].
Definition print6 (n : Z) := dg (n / 100000 mod 10) :: dg (n / 10000 mod 10) :: print4 n.
Definition iso_year (y : Z) : list Z :=
  if (0 <=? y) && (y <=? 9999) then print4 y
  else if y <? 0 then 45 :: print6 (- y) else 43 :: print6 y.
Definition iso_tail (t : Z) : list Z :=
  [45] ++ print2 (MonthFromTime t + 1) ++ [45] ++ print2 (DateFromTime t) ++ [84]
  ++ print2 (HourFromTime t) ++ [58] ++ print2 (MinFromTime t) ++ [58] ++ print2 (SecFromTime t)
  ++ [46] ++ print3 (msFromTime t) ++ [90].
Definition toISO (t : Z) : list Z := iso_year (YearFromTime t) ++ iso_tail t.

(* parser for exactly the YYYY-MM-DDTHH:mm:ss.sssZ form *)
Definition dv (c : Z) : option Z := if (48 <=? c) && (c <=? 57) then Some (c - 48) else None.
Fixpoint num (l : list Z) (acc : Z) : option Z :=
  match l with
  | [] => Some acc
  | c :: l' => match dv c with Some d => num l' (acc * 10 + d) | None => None end
  end.
Definition parseISO (s : list Z) : option Z :=
  match s with
  | [y1;y2;y3;y4;d1;m1;m2;d2;a1;a2;tsep;h1;h2;c1;i1;i2;c2;s1;s2;dot;f1;f2;f3;z] =>
      if (d1 =? 45) && (d2 =? 45) && (tsep =? 84) && (c1 =? 58) && (c2 =? 58) && (dot =? 46) && (z =? 90) then
        match num [y1;y2;y3;y4] 0, num [m1;m2] 0, num [a1;a2] 0, num [h1;h2] 0, num [i1;i2] 0, num [s1;s2] 0, num [f1;f2;f3] 0 with
        | Some y, Some m, Some d, Some h, Some mi, Some sc, Some ms =>
            if (1 <=? m) && (m <=? 12) && (1 <=? d) && (d <=? 31) && (h <=? 24) && (mi <=? 59) && (sc <=? 59)
            then Some (MakeDate (MakeDay y (m - 1) d) (MakeTime h mi sc ms)) else None
        | _, _, _, _, _, _, _ => None
        end
      else None
  | _ => None
  end.

(* ---- ToInteger (9.4) on a number given in thousandths: truncation towards zero on the field itself ---- *)
Definition toint (x : Z) : Z := Z.quot x 1000.
Definition tointf (l : list (option Z)) : list (option Z) := map (option_map toint) l.

(* 15.9.4.3 with the year already resolved (two-digit rule applied by the caller) *)
Definition utc_fields (yr : Z) (l : list (option Z)) : option Z :=
  match nth_or l 1 0, nth_or l 2 1, nth_or l 3 0, nth_or l 4 0, nth_or l 5 0, nth_or l 6 0 with
  | Some m, Some dt, Some h, Some mi, Some s, Some ms => Some (MakeDate (MakeDay yr m dt) (MakeTime h mi s ms))
  | _, _, _, _, _, _ => None
  end.
(* Date.UTC / the constructor on arguments given in thousandths: every field goes through ToInteger first *)
Definition utcq (l : list (option Z)) : option Z := utc (tointf l).

(* ---- 15.9.5.28-41 with a constant local offset (LocalTZA = off ms, no daylight saving):
   ids 10..16 are the local-time setters setMilliseconds .. setFullYear: t = LocalTime(this time value),
   result UTC(MakeDate(..)); setFullYear on NaN composes from t = +0 (not LocalTime of anything) ---- *)
Definition set_raw_z (off id : Z) (t : option Z) (a : list (option Z)) : option Z :=
  if (10 <=? id) && (id <=? 16)
  then option_map (fun r => r - off) (set_raw (id - 10) (option_map (fun t => t + off) t) a)
  else set_raw id t a.
Definition set_spec_z (off id : Z) (t : option Z) (a : list (option Z)) : option Z := clip (set_raw_z off id t a).

(* number of declared parameters of setter id *)
Definition arity (id : Z) : nat :=
  let k := if 10 <=? id then id - 10 else id in
  if k =? 1 then 2%nat else if k =? 2 then 3%nat else if k =? 3 then 4%nat
  else if k =? 5 then 2%nat else if k =? 6 then 3%nat else 1%nat.
