(* otto's Date glue (type_date.go, builtin_date.go) where it is more than a
   call into Go's time package.  Go's time.Date / Unix / Year... are taken to
   be the proleptic-Gregorian functions of Spec (that assumption is what the
   correspondence run checks on every sampled instant); what is modelled here
   is otto's own logic: no TimeClip anywhere (so results beyond 2^53 are rounded to a double
   by float64(time.UnixMilli())), NaN receivers of setters,
   Go's "2006" year layout in toISOString. *)
From Coq Require Import ZArith Bool List.
From Otto Require Import Common.Double C12.Spec.
Import ListNotations.
Open Scope Z_scope.

(* dateObject.Set: every finite epoch is accepted (FIXME in the source). *)
Definition ctor_model (t : Z) : option Z := Some t.

(* newDateTime with >= 2 arguments: pick()/two-digit rule/time.Date, no clip *)
Definition utc_model (l : list (option Z)) : option Z := option_map round_to_double (utc_raw l).

(* builtinDateBeforeSet: a NaN date makes every setUTC* return NaN
   (setTime goes through dateObject.Set directly) *)
Definition set_model (id : Z) (t : option Z) (a : list (option Z)) : option Z :=
  if id =? 7 then arg a 0 0 else
  match t with
  | None => None
  | Some _ => option_map round_to_double (set_raw id t a)
  end.

(* the local-time setters share builtinDateBeforeSet and ecmaTime.goTime with the UTC ones: fields of
   baseTime.Local(), time.Date in the local zone, float64(UnixMilli()) *)
Definition set_model_z (off id : Z) (t : option Z) (a : list (option Z)) : option Z :=
  if id =? 7 then arg a 0 0 else
  match t with
  | None => None
  | Some _ => option_map round_to_double (set_raw_z off id t a)
  end.

(* newDateTime on arguments in thousandths: the year is truncated first (math.Trunc, repaired by 875fefb) and the
   two-digit-year test is made on the truncated year; int() truncates every other field *)
Definition utcq_model (l : list (option Z)) : option Z := option_map round_to_double (utc_raw (tointf l)).

(* decimal digits, most significant first *)
Fixpoint digits_fuel (fuel : nat) (n : Z) (acc : list Z) : list Z :=
  match fuel with
  | O => acc
  | S f => if n <? 10 then dg n :: acc else digits_fuel f (n / 10) (dg (n mod 10) :: acc)
  end.
Definition pad4 (n : Z) : list Z := if n <? 10000 then print4 n else digits_fuel 30 n [].
(* Go's time.Format("2006"): sign, then at least four digits *)
Definition go_year (y : Z) : list Z := if y <? 0 then 45 :: pad4 (- y) else pad4 y.
Definition toISO_model (t : Z) : list Z := go_year (YearFromTime t) ++ iso_tail t.
