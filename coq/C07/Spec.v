(* C07 — ES5 property model (8.10, 8.12.1-8.12.9, 15.2.3.x, 12.6.4) as an
   executable state machine over histories of object-model operations.
   Objects live in a heap (addresses = creation order, never freed); the
   script's variables are slots holding addresses.  Own properties are an
   association list in insertion order. *)
From Coq Require Import ZArith List Bool.
Import ListNotations.
Open Scope Z_scope.

(* ---------- values ---------- *)
Inductive val :=
| VUndef | VNull | VBool (b : bool) | VNum (z : Z) | VNaN | VNegZero | VStr (z : Z) | VFun (f : Z).

(* SameValue (9.12): +0 and -0 differ, NaN equals NaN; VNum 0 is +0 *)
Definition val_eqb (a b : val) : bool :=
  match a, b with
  | VUndef, VUndef | VNull, VNull | VNaN, VNaN | VNegZero, VNegZero => true
  | VBool x, VBool y => Bool.eqb x y
  | VNum x, VNum y | VStr x, VStr y | VFun x, VFun y => x =? y
  | _, _ => false
  end.

(* the integer the harness prints for a value *)
Definition enc_val (v : val) : Z :=
  match v with
  | VUndef => 0 | VNull => 1 | VBool false => 2 | VBool true => 3 | VNaN => 4 | VNegZero => 5
  | VNum z => 16 * (if 0 <=? z then 2 * z else - 2 * z - 1) + 8
  | VStr k => 16 * k + 9
  | VFun f => 16 * f + 10
  end.

Definition b2z (b : bool) : Z := if b then 1 else 0.

(* ---------- descriptors ---------- *)
(* what the script writes: a get/set field may be absent, undefined, a function, or not callable *)
Inductive gsraw := GAbsent | GUndef | GFn (f : Z) | GBad.
Record rdesc := mkR { r_value : option val; r_writable : option bool; r_get : gsraw; r_set : gsraw;
                      r_enum : option bool; r_conf : option bool }.

(* 8.10: a Property Descriptor, every field optional *)
Record desc := mkD { d_value : option val; d_writable : option bool;
                     d_get : option (option Z); d_set : option (option Z);
                     d_enum : option bool; d_conf : option bool }.

(* 8.10.5 ToPropertyDescriptor; None = TypeError (7.b, 8.b, 9) *)
Definition gs_field (g : gsraw) : option (option (option Z)) :=
  match g with
  | GAbsent => Some None | GUndef => Some (Some None) | GFn f => Some (Some (Some f)) | GBad => None
  end.
Definition to_desc (r : rdesc) : option desc :=
  match gs_field (r_get r), gs_field (r_set r) with
  | Some g, Some s =>
      let acc := match g, s with None, None => false | _, _ => true end in
      let dat := match r_value r, r_writable r with None, None => false | _, _ => true end in
      if acc && dat then None
      else Some (mkD (r_value r) (r_writable r) g s (r_enum r) (r_conf r))
  | _, _ => None
  end.

Definition is_acc_d (d : desc) : bool := match d_get d, d_set d with None, None => false | _, _ => true end.
Definition is_data_d (d : desc) : bool := match d_value d, d_writable d with None, None => false | _, _ => true end.
Definition is_generic_d (d : desc) : bool := negb (is_acc_d d) && negb (is_data_d d).
Definition all_absent (d : desc) : bool :=
  is_generic_d d && match d_enum d, d_conf d with None, None => true | _, _ => false end.
Definition odef {A} (o : option A) (dflt : A) : A := match o with Some x => x | None => dflt end.

(* ---------- properties and objects ---------- *)
Inductive prop :=
| PData (v : val) (w e c : bool)
| PAcc (g s : option Z) (e c : bool).

Definition p_enum (p : prop) := match p with PData _ _ e _ | PAcc _ _ e _ => e end.
Definition p_conf (p : prop) := match p with PData _ _ _ c | PAcc _ _ _ c => c end.
Definition p_writable (p : prop) := match p with PData _ w _ _ => w | PAcc _ _ _ _ => false end.
Definition p_is_data (p : prop) := match p with PData _ _ _ _ => true | _ => false end.

Record obj := mkO { o_proto : option nat; o_ext : bool; o_props : list (Z * prop) }.

Section Assoc.
Context {P : Type}.
Fixpoint lookup (l : list (Z * P)) (n : Z) : option P :=
  match l with
  | [] => None
  | (m, p) :: l' => if m =? n then Some p else lookup l' n
  end.
(* replace in place, else append: insertion order is kept *)
Fixpoint set_prop (l : list (Z * P)) (n : Z) (p : P) : list (Z * P) :=
  match l with
  | [] => [(n, p)]
  | (m, q) :: l' => if m =? n then (m, p) :: l' else (m, q) :: set_prop l' n p
  end.
Fixpoint del_prop (l : list (Z * P)) (n : Z) : list (Z * P) :=
  match l with
  | [] => []
  | (m, q) :: l' => if m =? n then del_prop l' n else (m, q) :: del_prop l' n
  end.
End Assoc.

Definition ogs_eqb (a b : option Z) : bool :=
  match a, b with None, None => true | Some x, Some y => x =? y | _, _ => false end.

(* 8.12.9 steps 5-13 on an existing property; None = Reject *)
Definition define_existing (p : prop) (d : desc) : option prop :=
  if all_absent d then Some p else
  if negb (p_conf p) && odef (d_conf d) false then None else
  if negb (p_conf p) && match d_enum d with Some e => negb (Bool.eqb e (p_enum p)) | None => false end then None else
  let e' := odef (d_enum d) (p_enum p) in
  let c' := odef (d_conf d) (p_conf p) in
  if is_generic_d d then
    Some (match p with PData v w _ _ => PData v w e' c' | PAcc g s _ _ => PAcc g s e' c' end)
  else match p with
  | PData v w _ c =>
      if is_data_d d then
        if negb c && negb w && odef (d_writable d) false then None
        else if negb c && negb w && match d_value d with Some v' => negb (val_eqb v v') | None => false end then None
        else Some (PData (odef (d_value d) v) (odef (d_writable d) w) e' c')
      else
        if negb c then None
        else Some (PAcc (odef (d_get d) None) (odef (d_set d) None) e' c')
  | PAcc g s _ c =>
      if is_data_d d then
        if negb c then None
        else Some (PData (odef (d_value d) VUndef) (odef (d_writable d) false) e' c')
      else
        if negb c && (match d_get d with Some g' => negb (ogs_eqb g g') | None => false end
                      || match d_set d with Some s' => negb (ogs_eqb s s') | None => false end) then None
        else Some (PAcc (odef (d_get d) g) (odef (d_set d) s) e' c')
  end.

(* 8.12.9 step 4 *)
Definition define_new (d : desc) : prop :=
  if is_acc_d d then PAcc (odef (d_get d) None) (odef (d_set d) None) (odef (d_enum d) false) (odef (d_conf d) false)
  else PData (odef (d_value d) VUndef) (odef (d_writable d) false) (odef (d_enum d) false) (odef (d_conf d) false).

(* [[DefineOwnProperty]] on one object; None = Reject *)
Definition define_own (o : obj) (n : Z) (d : desc) : option obj :=
  match lookup (o_props o) n with
  | None => if o_ext o then Some (mkO (o_proto o) (o_ext o) (set_prop (o_props o) n (define_new d))) else None
  | Some p => match define_existing p d with
              | Some p' => Some (mkO (o_proto o) (o_ext o) (set_prop (o_props o) n p'))
              | None => None
              end
  end.

(* 8.12.7 [[Delete]]: (object, result) *)
Definition delete_own (o : obj) (n : Z) : obj * bool :=
  match lookup (o_props o) n with
  | None => (o, true)
  | Some p => if p_conf p then (mkO (o_proto o) (o_ext o) (del_prop (o_props o) n), true) else (o, false)
  end.

(* ---------- heap ---------- *)
Definition heap := list obj.

Fixpoint upd {A} (h : list A) (a : nat) (x : A) : list A :=
  match h, a with
  | [], _ => []
  | _ :: t, O => x :: t
  | y :: t, S k => y :: upd t k x
  end.

(* 8.12.2 [[GetProperty]]; prototype links always point to older objects, fuel = heap size *)
Fixpoint get_property (fuel : nat) (h : heap) (a : nat) (n : Z) : option prop :=
  match fuel with
  | O => None
  | S k =>
      match nth_error h a with
      | None => None
      | Some o =>
          match lookup (o_props o) n with
          | Some p => Some p
          | None => match o_proto o with None => None | Some pa => get_property k h pa n end
          end
      end
  end.

(* 8.12.3 [[Get]]; getter f called on receiver a returns the number 1000 + 100 f + a *)
Definition getter_result (f : Z) (a : nat) : val := VNum (1000 + 100 * f + Z.of_nat a).
Definition get (h : heap) (a : nat) (n : Z) : val :=
  match get_property (length h) h a n with
  | None => VUndef
  | Some (PData v _ _ _) => v
  | Some (PAcc (Some f) _ _ _) => getter_result f a
  | Some (PAcc None _ _ _) => VUndef
  end.

(* 8.12.4 [[CanPut]] *)
Definition can_put (h : heap) (a : nat) (n : Z) : bool :=
  match nth_error h a with
  | None => false
  | Some o =>
      match lookup (o_props o) n with
      | Some (PAcc _ s _ _) => match s with Some _ => true | None => false end
      | Some (PData _ w _ _) => w
      | None =>
          match o_proto o with
          | None => o_ext o
          | Some pa =>
              match get_property (length h) h pa n with
              | None => o_ext o
              | Some (PAcc _ s _ _) => match s with Some _ => true | None => false end
              | Some (PData _ w _ _) => if o_ext o then w else false
              end
          end
      end
  end.

(* 8.12.2 started on the object itself: own property, else the prototype's [[GetProperty]] *)
Definition get_property_of (h : heap) (o : obj) (n : Z) : option prop :=
  match lookup (o_props o) n with
  | Some p => Some p
  | None => match o_proto o with None => None | Some pa => get_property (length h) h pa n end
  end.

Definition value_desc (v : val) : desc := mkD (Some v) None None None None None.
Definition full_desc (v : val) : desc := mkD (Some v) (Some true) None None (Some true) (Some true).

(* 8.12.5 [[Put]] with Throw = false: new heap and the setter call it made (f+1, receiver, argument) *)
Definition put (h : heap) (a : nat) (n : Z) (v : val) : heap * list Z :=
  match nth_error h a with
  | None => (h, [])
  | Some o =>
      if negb (can_put h a n) then (h, [])
      else match lookup (o_props o) n with
           | Some (PData _ _ _ _) =>
               match define_own o n (value_desc v) with Some o' => (upd h a o', []) | None => (h, []) end
           | _ =>
               match get_property_of h o n with
               | Some (PAcc _ (Some f) _ _) => (h, [f + 1; Z.of_nat a; enc_val v])
               | Some (PAcc _ None _ _) => (h, [])
               | _ => match define_own o n (full_desc v) with Some o' => (upd h a o', []) | None => (h, []) end
               end
           end
  end.

(* 15.2.3.7 step 6: define in order, stop at the first Reject (what was defined stays) *)
Fixpoint define_seq (o : obj) (l : list (Z * desc)) : obj * bool :=
  match l with
  | [] => (o, false)
  | (n, d) :: l' => match define_own o n d with
                    | Some o' => define_seq o' l'
                    | None => (o, true)
                    end
  end.

(* 15.2.3.7 step 5: all descriptors are converted before anything is defined *)
Fixpoint convert_all (l : list (Z * rdesc)) : option (list (Z * desc)) :=
  match l with
  | [] => Some []
  | (n, r) :: l' => match to_desc r, convert_all l' with
                    | Some d, Some ds => Some ((n, d) :: ds)
                    | _, _ => None
                    end
  end.

(* 15.2.3.8 / 15.2.3.9 *)
Definition seal_desc (p : prop) : desc := mkD None None None None None (Some false).
Definition freeze_desc (p : prop) : desc :=
  match p with
  | PData _ _ _ _ => mkD None (Some false) None None None (Some false)
  | PAcc _ _ _ _ => mkD None None None None None (Some false)
  end.
Definition restrict (f : prop -> desc) (o : obj) : obj :=
  let o' := fst (define_seq o (map (fun np => (fst np, f (snd np))) (o_props o))) in
  mkO (o_proto o') false (o_props o').

(* 15.2.3.11 / 15.2.3.12 *)
Definition is_sealed (o : obj) : bool := negb (o_ext o) && forallb (fun np => negb (p_conf (snd np))) (o_props o).
Definition is_frozen (o : obj) : bool :=
  negb (o_ext o) && forallb (fun np => negb (p_conf (snd np)) && negb (p_writable (snd np))) (o_props o).

(* ---------- enumeration ---------- *)
Definition memz (n : Z) (l : list Z) : bool := existsb (Z.eqb n) l.
Definition own_names (o : obj) : list Z := map fst (o_props o).
Definition own_keys (o : obj) : list Z := map fst (filter (fun np => p_enum (snd np)) (o_props o)).

(* 12.6.4: own enumerable names, then the prototype's that are not shadowed by any own property below *)
Fixpoint forin (fuel : nat) (h : heap) (a : nat) (seen : list Z) : list Z :=
  match fuel with
  | O => []
  | S k =>
      match nth_error h a with
      | None => []
      | Some o =>
          map fst (filter (fun np => p_enum (snd np) && negb (memz (fst np) seen)) (o_props o))
          ++ match o_proto o with None => [] | Some pa => forin k h pa (seen ++ own_names o) end
      end
  end.

(* ---------- operations ---------- *)
Inductive op :=
| ODefine (o : nat) (n : Z) (d : rdesc)                       (* Object.defineProperty(v[o], n, d) *)
| ODefines (o : nat) (l : list (Z * rdesc))                   (* Object.defineProperties(v[o], {..}) *)
| OCreate (o : nat) (p : option nat) (l : option (list (Z * rdesc)))  (* v[o] = Object.create(v[p] | null, {..}) *)
| OPut (o : nat) (n : Z) (v : val)                            (* v[o].n = v (non-strict) *)
| ODelete (o : nat) (n : Z)                                   (* delete v[o].n *)
| OFreeze (o : nat) | OSeal (o : nat) | OPrevent (o : nat)
| OForInDel (o : nat) (at_n : Z) (o2 : nat) (del_n : Z).      (* for (k in v[o]) { visit k; if (k == at_n) delete v[o2].del_n } *)

Record state := mkS { s_heap : heap; s_vars : list nat }.
Definition empty_obj : obj := mkO None true [].
(* address 0 is Object.prototype (its built-in members are non-enumerable and outside the four
   names, so it starts without modelled properties); the three variables hold fresh objects {}
   inheriting from it; variable 3 is Object.prototype itself *)
Definition plain_obj : obj := mkO (Some 0%nat) true [].
Definition init : state := mkS [empty_obj; plain_obj; plain_obj; plain_obj] [1; 2; 3; 0]%nat.

Definition var (s : state) (i : nat) : nat := nth i (s_vars s) 0%nat.
Definition the_obj (s : state) (a : nat) : obj := nth a (s_heap s) empty_obj.
Definition set_obj (s : state) (a : nat) (o : obj) : state := mkS (upd (s_heap s) a o) (s_vars s).

Definition pack (l : list Z) : Z := fold_left (fun acc n => acc * 10 + n + 1) l 0.

(* for-in whose body deletes a property: names deleted before being reached are not visited (12.6.4) *)
Fixpoint forin_del_walk (names : list Z) (h : heap) (a : nat) (at_n : Z) (a2 : nat) (del_n : Z)
         (chain : list nat) (visited : list Z) : heap * list Z :=
  match names with
  | [] => (h, visited)
  | n :: rest =>
      (* still an enumerable property found on the chain, and not visited yet *)
      let live := existsb (fun b => match lookup (o_props (nth b h empty_obj)) n with
                                    | Some p => true | None => false end) chain in
      if negb live || memz n visited then forin_del_walk rest h a at_n a2 del_n chain visited
      else
        let h' := if n =? at_n then upd h a2 (fst (delete_own (nth a2 h empty_obj) del_n)) else h in
        forin_del_walk rest h' a at_n a2 del_n chain (visited ++ [n])
  end.

Fixpoint chain_of (fuel : nat) (h : heap) (a : nat) : list nat :=
  match fuel with
  | O => []
  | S k => match nth_error h a with
           | None => []
           | Some o => a :: match o_proto o with None => [] | Some pa => chain_of k h pa end
           end
  end.

Definition step (s : state) (o : op) : state * list Z :=
  match o with
  | ODefine i n r =>
      let a := var s i in
      match to_desc r with
      | None => (s, [1])
      | Some d => match define_own (the_obj s a) n d with
                  | Some o' => (set_obj s a o', [0])
                  | None => (s, [1])
                  end
      end
  | ODefines i l =>
      let a := var s i in
      match convert_all l with
      | None => (s, [1])
      | Some ds => let '(o', threw) := define_seq (the_obj s a) ds in (set_obj s a o', [b2z threw])
      end
  | OCreate i p l =>
      let proto := match p with Some j => Some (var s j) | None => None end in
      match convert_all (odef l []) with
      | None => (s, [1])
      | Some ds =>
          let '(o', threw) := define_seq (mkO proto true []) ds in
          if threw then (s, [1])
          else (mkS (s_heap s ++ [o']) (upd (s_vars s) i (length (s_heap s))), [0])
      end
  | OPut i n v =>
      let a := var s i in
      let '(h', log) := put (s_heap s) a n v in
      (mkS h' (s_vars s), 0 :: log)
  | ODelete i n =>
      let a := var s i in
      let '(o', r) := delete_own (the_obj s a) n in
      (set_obj s a o', [0; b2z r])
  | OFreeze i => let a := var s i in (set_obj s a (restrict freeze_desc (the_obj s a)), [0])
  | OSeal i => let a := var s i in (set_obj s a (restrict seal_desc (the_obj s a)), [0])
  | OPrevent i =>
      let a := var s i in
      let o := the_obj s a in (set_obj s a (mkO (o_proto o) false (o_props o)), [0])
  | OForInDel i at_n i2 del_n =>
      let a := var s i in
      let h := s_heap s in
      let '(h', vis) := forin_del_walk (forin (length h) h a []) h a at_n (var s i2) del_n
                                       (chain_of (length h) h a) [] in
      (mkS h' (s_vars s), [0; pack vis])
  end.

(* ---------- what the script observes after every operation ---------- *)
Definition names : list Z := [0; 1; 2; 3].

Definition obs_desc (p : option prop) : list Z :=
  match p with
  | None => [0; 0; 0; 0; 0]
  | Some (PData v w e c) => [1; enc_val v; b2z w + 2 * b2z e + 4 * b2z c; 0; 0]
  | Some (PAcc g s e c) => [2; 0; 2 * b2z e + 4 * b2z c;
                            match g with Some f => f + 1 | None => 0 end;
                            match s with Some f => f + 1 | None => 0 end]
  end.

Definition obs_name (h : heap) (a : nat) (o : obj) (n : Z) : list Z :=
  let own := lookup (o_props o) n in
  obs_desc own ++
  [ b2z (match get_property (length h) h a n with Some _ => true | None => false end)
    + 2 * b2z (match own with Some _ => true | None => false end)
    + 4 * b2z (match own with Some p => p_enum p | None => false end);
    enc_val (get h a n) ].

Definition obs_obj (h : heap) (a : nat) : list Z :=
  let o := nth a h empty_obj in
  flat_map (obs_name h a o) names ++
  [ b2z (o_ext o) + 2 * b2z (is_sealed o) + 4 * b2z (is_frozen o);
    pack (own_keys o); pack (own_names o); pack (forin (length h) h a []) ].

Definition snapshot (s : state) : list Z :=
  flat_map (fun i => obs_obj (s_heap s) (var s i)) [0; 1; 2; 3]%nat.

(* a history: after every operation, its result followed by the snapshot *)
Fixpoint run (s : state) (ops : list op) : list (list Z) :=
  match ops with
  | [] => []
  | o :: ops' => let '(s', r) := step s o in (r ++ snapshot s') :: run s' ops'
  end.

Fixpoint exec (s : state) (ops : list op) : state :=
  match ops with
  | [] => s
  | o :: ops' => exec (fst (step s o)) ops'
  end.

(* ---------- a history continued on two independent copies of the runtime (Otto.Copy()) ---------- *)
(* after the common prefix every operation runs on one side (false = the original, true = the copy)
   and is followed by the snapshot of BOTH sides: two independent replays of the state machine *)
Fixpoint fork_run (sa sb : state) (ops : list (bool * op)) : list (list Z) :=
  match ops with
  | [] => []
  | (side, o) :: ops' =>
      let '(s', r) := step (if side then sb else sa) o in
      let sa' := if side then sa else s' in
      let sb' := if side then s' else sb in
      (r ++ snapshot sa' ++ snapshot sb') :: fork_run sa' sb' ops'
  end.

Definition run_fork (prefix : list op) (ops : list (bool * op)) : list (list Z) :=
  let s := exec init prefix in
  run init prefix ++ fork_run s s ops.
