(* C07 — otto's own object model, transcribed from property.go, object.go,
   object_class.go, builtin_object.go and the for-in loop of
   cmpl_evaluate_statement.go: attributes are one octal-coded integer per
   property (digit 0 off, 1 on, 2 "not set"), payload is either a Value or a
   getter/setter pair, descriptors use the same representation plus the
   nilGetSetObject sentinel. *)
From Coq Require Import ZArith NArith List Bool.
From Otto Require Import Common.Corr C07.Spec.
Import ListNotations.
Open Scope Z_scope.

(* ---------- property.go ---------- *)
Definition mode := N.                    (* 0oWEC *)
Definition writable (m : mode) : bool := N.eqb (N.land m 448) 64.                 (* m&0o700 == 0o100 *)
Definition writeSet (m : mode) : bool := N.eqb (N.land (N.land m 448) 146) 0.     (* m&0o700&0o222 == 0 *)
Definition enumerable (m : mode) : bool := N.eqb (N.land m 56) 8.
Definition enumerateSet (m : mode) : bool := N.eqb (N.land (N.land m 56) 146) 0.
Definition configurable (m : mode) : bool := N.eqb (N.land m 7) 1.
Definition writeOn (m : mode) : mode := N.lor (N.land m 63) 64.
Definition writeOff (m : mode) : mode := N.land m 63.
Definition enumerateOn (m : mode) : mode := N.lor (N.land m 455) 8.
Definition enumerateOff (m : mode) : mode := N.land m 455.
Definition configureOn (m : mode) : mode := N.lor (N.land m 504) 1.
Definition configureOff (m : mode) : mode := N.land m 504.

(* a getter/setter slot of a descriptor: nil pointer, &nilGetSetObject, a function *)
Inductive gslot := SAbsent | SUndef | SFn (f : Z).
Inductive dpay := DNone | DVal (v : val) | DGetSet (g s : gslot).      (* descriptor.value as interface{} *)
Inductive spay := SVal (v : val) | SGetSet (g s : option Z).          (* stored property.value *)
Record mdesc := mkMD { dp : dpay; dm : mode }.
Record mprop := mkMP { sp : spay; sm : mode }.

Definition d_isAccessor (d : mdesc) : bool :=
  match dp d with DGetSet SAbsent SAbsent => false | DGetSet _ _ => true | _ => false end.
Definition d_isData (d : mdesc) : bool :=
  writeSet (dm d) || match dp d with DVal _ => true | _ => false end.
Definition d_isGeneric (d : mdesc) : bool := negb (d_isData d || d_isAccessor d).
Definition d_isEmpty (d : mdesc) : bool := N.eqb (dm d) 146 && d_isGeneric d.

(* the same predicates on a stored property *)
Definition p_isAccessor (p : mprop) : bool :=
  match sp p with SGetSet None None => false | SGetSet _ _ => true | _ => false end.
Definition p_isData (p : mprop) : bool :=
  writeSet (sm p) || match sp p with SVal _ => true | _ => false end.

Definition norm_slot (g : gslot) : option Z := match g with SFn f => Some f | _ => None end.
Definition slot_of (g : option Z) : gslot := match g with Some f => SFn f | None => SAbsent end.
Definition desc_of_prop (p : mprop) : mdesc :=
  mkMD (match sp p with SVal v => DVal v | SGetSet g s => DGetSet (slot_of g) (slot_of s) end) (sm p).

(* toPropertyDescriptor; None = TypeError *)
Definition set_digit (m : mode) (on off : mode -> mode) (b : option bool) : mode :=
  match b with Some true => on m | Some false => off m | None => m end.
Definition raw_slot (g : gsraw) : option gslot :=
  match g with GAbsent => Some SAbsent | GUndef => Some SUndef | GFn f => Some (SFn f) | GBad => None end.
Definition to_mdesc (r : rdesc) : option mdesc :=
  let m := 146%N in
  let m := set_digit m enumerateOn enumerateOff (r_enum r) in
  let m := set_digit m configureOn configureOff (r_conf r) in
  let m := set_digit m writeOn writeOff (r_writable r) in
  match raw_slot (r_get r), raw_slot (r_set r) with
  | Some g, Some s =>
      let getterSetter := match g, s with SAbsent, SAbsent => false | _, _ => true end in
      if getterSetter && writeSet m then None
      else match r_value r with
           | Some v => if getterSetter then None else Some (mkMD (DVal v) m)
           | None => Some (mkMD (if getterSetter then DGetSet g s else DNone) m)
           end
  | _, _ => None
  end.

(* Small repairs proposed for four of the recorded defects (proposed_fixes/C07-*.diff).  The model
   carries one switch per repair so that the correspondence run recognises otto with any subset of
   them applied; [nofix] is the tree as it stands. *)
Record fixes := mkFx { fx_writable : bool; fx_acc2data : bool; fx_getundef : bool; fx_forindel : bool }.
Definition nofix : fixes := mkFx false false false false.
Definition allfix : fixes := mkFx true true true true.

(* ---------- object_class.go objectDefineOwnProperty, existing property ---------- *)
Inductive dres := DOk (p : mprop) | DUnchanged | DReject.

Definition merge_mode (mode0 mode1 : mode) (isdata : bool) : mode :=
  if N.eqb (N.land mode1 146) 0 then mode1 else
  let m := mode1 in
  let m := if negb (N.eqb (N.land m 128) 0) then
             (if isdata then N.lor (N.land m 383) (N.land mode0 64) else m)
           else m in
  let m := if negb (N.eqb (N.land m 16) 0) then N.lor m (N.land mode0 8) else m in
  let m := if negb (N.eqb (N.land m 2) 0) then N.lor m (N.land mode0 1) else m in
  N.land m 201.                                                          (* 0o311 *)

Definition m_define_existing (fx : fixes) (p : mprop) (d : mdesc) : dres :=
  if d_isEmpty d then DUnchanged else
  let conf := configurable (sm p) in
  if negb conf && configurable (dm d) then DReject else
  if negb conf && enumerateSet (dm d) && negb (Bool.eqb (enumerable (dm d)) (enumerable (sm p))) then DReject else
  let stored_is_data := match sp p with SVal _ => true | _ => false end in
  let sw : option (option dpay) :=      (* None = reject; Some x: x overrides descriptor.value *)
    if d_isGeneric d then Some None
    else if negb (Bool.eqb stored_is_data (d_isData d)) then (if conf then Some None else None)
    else if stored_is_data && d_isData d then
      (if conf then Some None
       else if negb (writable (sm p)) && writable (dm d) then None
       else if negb (writable (sm p)) then
         match sp p, dp d with
         | SVal v, DVal v' => if val_eqb v v' then Some None else None
         | _, _ => Some None
         end
       else Some None)
    else
      match sp p, dp d with
      | SGetSet g0 s0, DGetSet g s =>
          let '(g1, pg) := match g with SUndef => (None, true) | SAbsent => (g0, false) | SFn f => (Some f, true) end in
          let '(s1, ps) := match s with SUndef => (None, true) | SAbsent => (s0, false) | SFn f => (Some f, true) end in
          if negb conf && ((pg && negb (ogs_eqb g0 g1)) || (ps && negb (ogs_eqb s0 s1))) then None
          else Some (Some (DGetSet (slot_of g1) (slot_of s1)))
      | SGetSet g0 s0, _ =>
          (* descriptor.value is not a getter/setter pair: the zero pair, both slots "missing" *)
          Some (Some (DGetSet (slot_of g0) (slot_of s0)))
      | _, _ => Some None
      end in
  match sw with
  | None => DReject
  | Some ov =>
      let dv := match ov with Some x => x | None => dp d end in
      let value1 : spay :=
        match dv with
        | DNone => if fx_acc2data fx && negb stored_is_data && d_isData d then SVal VUndef else sp p
        | DVal v => SVal v
        | DGetSet g s => SGetSet (norm_slot g) (norm_slot s)
        end in
      DOk (mkMP value1 (merge_mode (sm p) (dm d)
                                   (d_isData d || (fx_writable fx && stored_is_data && d_isGeneric d))))
  end.

Definition m_define_new (d : mdesc) : mprop :=
  mkMP (match dp d with
        | DNone => SVal VUndef                         (* writeProperty: nil becomes Value{} *)
        | DVal v => SVal v
        | DGetSet g s => SGetSet (norm_slot g) (norm_slot s)
        end) (dm d).

Record mobj := mkMO { m_proto : option nat; m_ext : bool; m_props : list (Z * mprop) }.

(* deviation tags of one [[DefineOwnProperty]]: 1 writable lost, 3 getter pair under a data mode,
   4 accessor with both slots nil *)
Definition define_tag (fx : fixes) (p : mprop) (d : mdesc) (p' : mprop) : Z :=
  match sp p' with
  | SGetSet g s =>
      if writeSet (sm p') then 3
      else match g, s with None, None => if fx_getundef fx then 0 else 4 | _, _ => 0 end
  | SVal _ =>
      match sp p with
      | SVal _ => if writable (sm p) && negb (writable (sm p')) && negb (writeSet (dm d)) then 1 else 0
      | _ => 0
      end
  end.

(* (object or reject, tag) *)
Definition m_define_own (fx : fixes) (o : mobj) (n : Z) (d : mdesc) : option mobj * Z :=
  match lookup (m_props o) n with
  | None =>
      if m_ext o then
        let p' := m_define_new d in
        (Some (mkMO (m_proto o) (m_ext o) (set_prop (m_props o) n p')),
         match sp p' with SGetSet None None => if fx_getundef fx then 0 else 4 | _ => 0 end)
      else (None, 0)
  | Some p =>
      match m_define_existing fx p d with
      | DOk p' => (Some (mkMO (m_proto o) (m_ext o) (set_prop (m_props o) n p')), define_tag fx p d p')
      | DUnchanged => (Some o, 0)
      | DReject => (None, 0)
      end
  end.

Definition m_delete_own (o : mobj) (n : Z) : mobj * bool :=
  match lookup (m_props o) n with
  | None => (o, true)
  | Some p => if configurable (sm p) then (mkMO (m_proto o) (m_ext o) (del_prop (m_props o) n), true) else (o, false)
  end.

(* ---------- heap ---------- *)
Definition mheap := list mobj.
Definition mempty : mobj := mkMO None true [].

Fixpoint m_get_property (fuel : nat) (h : mheap) (a : nat) (n : Z) : option mprop :=
  match fuel with
  | O => None
  | S k =>
      match nth_error h a with
      | None => None
      | Some o =>
          match lookup (m_props o) n with
          | Some p => Some p
          | None => match m_proto o with None => None | Some pa => m_get_property k h pa n end
          end
      end
  end.

(* property.get *)
Definition m_get (h : mheap) (a : nat) (n : Z) : val :=
  match m_get_property (length h) h a n with
  | None => VUndef
  | Some p => match sp p with
              | SVal v => v
              | SGetSet (Some f) _ => getter_result f a
              | SGetSet None _ => VUndef
              end
  end.

(* objectCanPutDetails: (canPut, prop, setter) *)
Definition m_can_put_details (h : mheap) (a : nat) (n : Z) : bool * option mprop * option Z :=
  match nth_error h a with
  | None => (false, None, None)
  | Some o =>
      match lookup (m_props o) n with
      | Some p =>
          match sp p with
          | SVal _ => (writable (sm p), Some p, None)
          | SGetSet _ s => (match s with Some _ => true | None => false end, Some p, s)
          end
      | None =>
          match m_proto o with
          | None => (m_ext o, None, None)
          | Some pa =>
              match m_get_property (length h) h pa n with
              | None => (m_ext o, None, None)
              | Some p =>
                  match sp p with
                  | SVal _ => if negb (m_ext o) then (false, None, None) else (writable (sm p), None, None)
                  | SGetSet _ s => (match s with Some _ => true | None => false end, Some p, s)
                  end
              end
          end
      end
  end.

(* objectPut with throw = false: heap, setter call, tag *)
Definition m_put (fx : fixes) (h : mheap) (a : nat) (n : Z) (v : val) : mheap * list Z * Z :=
  match nth_error h a with
  | None => (h, [], 0)
  | Some o =>
      let '(canPut, prop, setter) := m_can_put_details h a n in
      if negb canPut then (h, [], 0)
      else match setter with
           | Some f => (h, [f + 1; Z.of_nat a; enc_val v], 0)
           | None =>
               let d := match prop with
                        | Some p => mkMD (DVal v) (sm p)
                        | None => mkMD (DVal v) 73%N              (* 0o111 *)
                        end in
               match m_define_own fx o n d with
               | (Some o', t) => (upd h a o', [], t)
               | (None, t) => (h, [], t)
               end
           end
  end.

(* Object.defineProperties / Object.create: convert and define one entry at a time *)
Fixpoint m_define_each (fx : fixes) (o : mobj) (l : list (Z * rdesc)) (first : bool) : mobj * bool * Z :=
  match l with
  | [] => (o, false, 0)
  | (n, r) :: l' =>
      match to_mdesc r with
      | None => (o, true, if first then 0 else 5)
      | Some d =>
          match m_define_own fx o n d with
          | (Some o', t) => let '(o'', threw, t') := m_define_each fx o' l' false in
                            (o'', threw, if t =? 0 then t' else t)
          | (None, t) => (o, true, t)
          end
      end
  end.

(* Object.seal / Object.freeze: enumerate(all) over the own names, redefine with the adjusted copy *)
Fixpoint m_restrict (fx : fixes) (freeze : bool) (o : mobj) (names : list Z) : mobj * Z :=
  match names with
  | [] => (o, 0)
  | n :: rest =>
      match lookup (m_props o) n with
      | None => m_restrict fx freeze o rest
      | Some p =>
          let m := sm p in
          let '(m, upd1) := if freeze && p_isData p && writable m then (writeOff m, true) else (m, false) in
          let '(m, upd2) := if configurable m then (configureOff m, true) else (m, false) in
          if (if freeze then upd1 || upd2 else upd2) then
            match m_define_own fx o n (desc_of_prop (mkMP (sp p) m)) with
            | (Some o', t) => let '(o'', t') := m_restrict fx freeze o' rest in (o'', if t =? 0 then t' else t)
            | (None, t) => (o, t)                      (* would throw; never happens for a configurable property *)
            end
          else m_restrict fx freeze o rest
      end
  end.

Definition m_is_sealed (o : mobj) : bool :=
  negb (m_ext o) && forallb (fun np => negb (configurable (sm (snd np)))) (m_props o).
Definition m_is_frozen (o : mobj) : bool :=
  negb (m_ext o) && forallb (fun np => negb (configurable (sm (snd np)) || writable (sm (snd np)))) (m_props o).

Definition m_own_names (o : mobj) : list Z := map fst (m_props o).
Definition m_own_keys (o : mobj) : list Z := map fst (filter (fun np => enumerable (sm (snd np))) (m_props o)).

(* for-in: own enumerable names, then each prototype's, nothing remembered *)
Fixpoint m_forin (fuel : nat) (h : mheap) (a : nat) : list Z :=
  match fuel with
  | O => []
  | S k =>
      match nth_error h a with
      | None => []
      | Some o => m_own_keys o ++ match m_proto o with None => [] | Some pa => m_forin k h pa end
      end
  end.

(* for-in whose body deletes a property.  objectEnumerate ranges over the slice
   obj.propertyOrder as it was when the loop started; deleteProperty shifts the
   shared underlying array in place (append(order[:i], order[i+1:]...)), so the
   loop reads shifted names and the old last name twice. *)
Definition remove_at {A} (i : nat) (l : list A) : list A := firstn i l ++ skipn (S i) l.
Fixpoint index_of (n : Z) (l : list Z) (i : nat) : option nat :=
  match l with [] => None | m :: l' => if m =? n then Some i else index_of n l' (S i) end.

(* the array after deleting [n] from an order of current length [len] stored in [arr] *)
Definition shift_array (arr : list Z) (len : nat) (n : Z) : list Z :=
  match index_of n (firstn len arr) 0 with
  | None => arr
  | Some i => if Nat.eqb (S i) len then arr
              else remove_at i (firstn len arr) ++ skipn (len - 1) arr
  end.

Fixpoint m_forin_obj (fx : fixes) (k : nat) (j : nat) (arr : list Z) (h : mheap) (cur : nat)
         (at_n : Z) (a2 : nat) (del_n : Z) (visited : list Z) : mheap * list Z :=
  match k with
  | O => (h, visited)
  | S k' =>
      let name := nth j arr 0 in
      let o := nth cur h mempty in
      match lookup (m_props o) name with
      | Some p =>
          if enumerable (sm p) then
            let visited := visited ++ [name] in
            if name =? at_n then
              let o2 := nth a2 h mempty in
              let '(o2', _) := m_delete_own o2 del_n in
              let deleted := negb (Nat.eqb (length (m_props o2')) (length (m_props o2))) in
              let arr' := if deleted && Nat.eqb a2 cur && negb (fx_forindel fx)
                          then shift_array arr (length (m_props o2)) del_n else arr in
              m_forin_obj fx k' (S j) arr' (upd h a2 o2') cur at_n a2 del_n visited
            else m_forin_obj fx k' (S j) arr h cur at_n a2 del_n visited
          else m_forin_obj fx k' (S j) arr h cur at_n a2 del_n visited
      | None => m_forin_obj fx k' (S j) arr h cur at_n a2 del_n visited
      end
  end.

Fixpoint m_forin_del (fx : fixes) (fuel : nat) (h : mheap) (cur : nat) (at_n : Z) (a2 : nat) (del_n : Z)
         (visited : list Z) : mheap * list Z :=
  match fuel with
  | O => (h, visited)
  | S f =>
      match nth_error h cur with
      | None => (h, visited)
      | Some o =>
          let arr := m_own_names o in
          let '(h', visited') := m_forin_obj fx (length arr) 0 arr h cur at_n a2 del_n visited in
          match m_proto o with
          | None => (h', visited')
          | Some pa => m_forin_del fx f h' pa at_n a2 del_n visited'
          end
      end
  end.

(* what 12.6.4 asks for on the same heap: names shadowed further down are skipped *)
Fixpoint m_forin_seen (fuel : nat) (h : mheap) (a : nat) (seen : list Z) : list Z :=
  match fuel with
  | O => []
  | S k =>
      match nth_error h a with
      | None => []
      | Some o =>
          map fst (filter (fun np => enumerable (sm (snd np)) && negb (memz (fst np) seen)) (m_props o))
          ++ match m_proto o with None => [] | Some pa => m_forin_seen k h pa (seen ++ m_own_names o) end
      end
  end.

Fixpoint has_dup (l : list Z) : bool :=
  match l with [] => false | x :: l' => memz x l' || has_dup l' end.

(* ---------- operations ---------- *)
Record mstate := mkMS { ms_heap : mheap; ms_vars : list nat }.
Definition minit : mstate := mkMS [mempty; mempty; mempty] [0; 1; 2]%nat.
Definition mvar (s : mstate) (i : nat) : nat := nth i (ms_vars s) 0%nat.
Definition m_obj (s : mstate) (a : nat) : mobj := nth a (ms_heap s) mempty.
Definition m_set_obj (s : mstate) (a : nat) (o : mobj) : mstate := mkMS (upd (ms_heap s) a o) (ms_vars s).

(* (state, result, tag) *)
Definition mstep (fx : fixes) (s : mstate) (o : op) : mstate * list Z * Z :=
  match o with
  | ODefine i n r =>
      let a := mvar s i in
      match to_mdesc r with
      | None => (s, [1], 0)
      | Some d => match m_define_own fx (m_obj s a) n d with
                  | (Some o', t) => (m_set_obj s a o', [0], t)
                  | (None, t) => (s, [1], t)
                  end
      end
  | ODefines i l =>
      let a := mvar s i in
      let '(o', threw, t) := m_define_each fx (m_obj s a) l true in
      let bad := existsb (fun e => match to_mdesc (snd e) with None => true | Some _ => false end) l in
      (m_set_obj s a o', [b2z threw], if t =? 0 then (if bad then 5 else 0) else t)
  | OCreate i p l =>
      let proto := match p with Some j => Some (mvar s j) | None => None end in
      let '(o', threw, t) := m_define_each fx (mkMO proto true []) (odef l []) true in
      if threw then (s, [1], 0)
      else (mkMS (ms_heap s ++ [o']) (upd (ms_vars s) i (length (ms_heap s))), [0], if t =? 5 then 0 else t)
  | OPut i n v =>
      let a := mvar s i in
      let '(h', log, t) := m_put fx (ms_heap s) a n v in
      (mkMS h' (ms_vars s), 0 :: log, t)
  | ODelete i n =>
      let a := mvar s i in
      let '(o', r) := m_delete_own (m_obj s a) n in
      (m_set_obj s a o', [0; b2z r], 0)
  | OFreeze i =>
      let a := mvar s i in
      let o := m_obj s a in
      let '(o', t) := m_restrict fx true o (m_own_names o) in
      (m_set_obj s a (mkMO (m_proto o') false (m_props o')), [0], t)
  | OSeal i =>
      let a := mvar s i in
      let o := m_obj s a in
      let '(o', t) := m_restrict fx false o (m_own_names o) in
      (m_set_obj s a (mkMO (m_proto o') false (m_props o')), [0], t)
  | OPrevent i =>
      let a := mvar s i in
      let o := m_obj s a in (m_set_obj s a (mkMO (m_proto o) false (m_props o)), [0], 0)
  | OForInDel i at_n i2 del_n =>
      let h := ms_heap s in
      let '(h', vis) := m_forin_del fx (length h) h (mvar s i) at_n (mvar s i2) del_n [] in
      (mkMS h' (ms_vars s), [0; pack vis],
       (* 6 only when the shifted order array changed what was visited *)
       if negb (zlist_eqb vis (snd (m_forin_del (mkFx false false false true) (length h) h
                                               (mvar s i) at_n (mvar s i2) del_n []))) then 6
       else if zlist_eqb vis (m_forin_seen (length h) h (mvar s i) []) then 0 else 2)
  end.

(* ---------- observation (fromPropertyDescriptor etc.); None = a Go panic escapes ---------- *)
Definition m_obs_desc (fx : fixes) (p : option mprop) : option (list Z) :=
  match p with
  | None => Some [0; 0; 0; 0; 0]
  | Some p =>
      let ec := 2 * b2z (enumerable (sm p)) + 4 * b2z (configurable (sm p)) in
      if p_isData p then
        match sp p with
        | SVal v => Some [1; enc_val v; b2z (writable (sm p)) + ec; 0; 0]
        | SGetSet _ _ => None                   (* descriptor.value.(Value) on a getter/setter pair *)
        end
      else if p_isAccessor p || (fx_getundef fx && match sp p with SGetSet _ _ => true | SVal _ => false end) then
        match sp p with
        | SGetSet g s => Some [2; 0; ec; match g with Some f => f + 1 | None => 0 end;
                               match s with Some f => f + 1 | None => 0 end]
        | SVal _ => None
        end
      else Some [3; 0; ec; 0; 0]
  end.

Definition m_obs_name (fx : fixes) (h : mheap) (a : nat) (o : mobj) (n : Z) : option (list Z) :=
  let own := lookup (m_props o) n in
  match m_obs_desc fx own with
  | None => None
  | Some d =>
      Some (d ++
      [ b2z (match m_get_property (length h) h a n with Some _ => true | None => false end)
        + 2 * b2z (match own with Some _ => true | None => false end)
        + 4 * b2z (match own with Some p => enumerable (sm p) | None => false end);
        enc_val (m_get h a n) ])
  end.

Fixpoint opt_concat (l : list (option (list Z))) : option (list Z) :=
  match l with
  | [] => Some []
  | None :: _ => None
  | Some x :: l' => match opt_concat l' with Some r => Some (x ++ r) | None => None end
  end.

Definition m_obs_obj (fx : fixes) (h : mheap) (a : nat) : option (list Z) :=
  let o := nth a h mempty in
  match opt_concat (map (m_obs_name fx h a o) names) with
  | None => None
  | Some l =>
      Some (l ++ [ b2z (m_ext o) + 2 * b2z (m_is_sealed o) + 4 * b2z (m_is_frozen o);
                   pack (m_own_keys o); pack (m_own_names o); pack (m_forin (length h) h a) ])
  end.

Definition m_snapshot (fx : fixes) (s : mstate) : option (list Z) :=
  opt_concat (map (fun i => m_obs_obj fx (ms_heap s) (mvar s i)) [0; 1; 2]%nat).

Definition m_snapshot_tag (s : mstate) : Z :=
  let h := ms_heap s in
  if forallb (fun i => zlist_eqb (m_forin (length h) h (mvar s i)) (m_forin_seen (length h) h (mvar s i) []))
             [0; 1; 2]%nat then 0 else 2.

(* observations of a history and the tag of the first deviating branch taken;
   a Go panic (9) ends the script *)
Fixpoint mrun (fx : fixes) (s : mstate) (ops : list op) : list (list Z) * Z :=
  match ops with
  | [] => ([], 0)
  | o :: ops' =>
      let '(s', r, t) := mstep fx s o in
      match m_snapshot fx s' with
      | None => ([r ++ [9]], if t =? 0 then 3 else t)
      | Some snap =>
          let t := if t =? 0 then m_snapshot_tag s' else t in
          let '(rest, t') := mrun fx s' ops' in
          ((r ++ snap) :: rest, if t =? 0 then t' else t)
      end
  end.

(* the same history, also returning the state it ends in (None after a Go panic) *)
Fixpoint mrun_st (fx : fixes) (s : mstate) (ops : list op) : list (list Z) * Z * option mstate :=
  match ops with
  | [] => ([], 0, Some s)
  | o :: ops' =>
      let '(s', r, t) := mstep fx s o in
      match m_snapshot fx s' with
      | None => ([r ++ [9]], (if t =? 0 then 3 else t), None)
      | Some snap =>
          let t := if t =? 0 then m_snapshot_tag s' else t in
          let '(rest, t', st) := mrun_st fx s' ops' in
          ((r ++ snap) :: rest, (if t =? 0 then t' else t), st)
      end
  end.

(* after Otto.Copy(): the two runtimes are independent replays; every step is followed by the
   snapshot of the original and then of the copy *)
Fixpoint mfork (fx : fixes) (sa sb : mstate) (ops : list (bool * op)) : list (list Z) * Z :=
  match ops with
  | [] => ([], 0)
  | (side, o) :: ops' =>
      let '(s', r, t) := mstep fx (if side then sb else sa) o in
      let sa' := if side then sa else s' in
      let sb' := if side then s' else sb in
      match m_snapshot fx sa' with
      | None => ([r ++ [9]], if t =? 0 then 3 else t)
      | Some xa =>
          match m_snapshot fx sb' with
          | None => ([r ++ xa ++ [9]], if t =? 0 then 3 else t)
          | Some xb =>
              let t := if t =? 0 then (if m_snapshot_tag sa' =? 0 then m_snapshot_tag sb' else 2) else t in
              let '(rest, t') := mfork fx sa' sb' ops' in
              ((r ++ xa ++ xb) :: rest, if t =? 0 then t' else t)
          end
      end
  end.

Definition mrun_fork (fx : fixes) (prefix : list op) (ops : list (bool * op)) : list (list Z) * Z :=
  let '(pre, t, st) := mrun_st fx minit prefix in
  match st with
  | None => (pre, t)
  | Some s => let '(rest, t') := mfork fx s s ops in (pre ++ rest, if t =? 0 then t' else t)
  end.
