(* C07 — otto's own object model, transcribed from property.go, object.go,
   object_class.go, builtin_object.go and the for-in loop of
   cmpl_evaluate_statement.go: attributes are one octal-coded integer per
   property (digit 0 off, 1 on, 2 "not set"), payload is either a Value or a
   getter/setter pair, descriptors use the same representation plus the
   nilGetSetObject sentinel. *)
From Coq Require Import ZArith NArith List Bool.
From Otto Require Import Common.Corr C07.Spec.
Import ListNotations.
Open Scope Z_scope.

(* ---------- property.go ---------- *)
Definition mode := N.                    (* 0oWEC *)
Definition writable (m : mode) : bool := N.eqb (N.land m 448) 64.                 (* m&0o700 == 0o100 *)
Definition writeSet (m : mode) : bool := N.eqb (N.land (N.land m 448) 146) 0.     (* m&0o700&0o222 == 0 *)
Definition enumerable (m : mode) : bool := N.eqb (N.land m 56) 8.
Definition enumerateSet (m : mode) : bool := N.eqb (N.land (N.land m 56) 146) 0.
Definition configurable (m : mode) : bool := N.eqb (N.land m 7) 1.
Definition writeOn (m : mode) : mode := N.lor (N.land m 63) 64.
Definition writeOff (m : mode) : mode := N.land m 63.
Definition enumerateOn (m : mode) : mode := N.lor (N.land m 455) 8.
Definition enumerateOff (m : mode) : mode := N.land m 455.
Definition configureOn (m : mode) : mode := N.lor (N.land m 504) 1.
Definition configureOff (m : mode) : mode := N.land m 504.

(* a getter/setter slot of a descriptor: nil pointer, &nilGetSetObject, a function *)
Inductive gslot := SAbsent | SUndef | SFn (f : Z).
Inductive dpay := DNone | DVal (v : val) | DGetSet (g s : gslot).      (* descriptor.value as interface{} *)
Inductive spay := SVal (v : val) | SGetSet (g s : option Z).          (* stored property.value *)
Record mdesc := mkMD { dp : dpay; dm : mode }.
Record mprop := mkMP { sp : spay; sm : mode }.

Definition d_isAccessor (d : mdesc) : bool :=
  match dp d with DGetSet SAbsent SAbsent => false | DGetSet _ _ => true | _ => false end.
Definition d_isData (d : mdesc) : bool :=
  writeSet (dm d) || match dp d with DVal _ => true | _ => false end.
Definition d_isGeneric (d : mdesc) : bool := negb (d_isData d || d_isAccessor d).
Definition d_isEmpty (d : mdesc) : bool := N.eqb (dm d) 146 && d_isGeneric d.

(* the same predicates on a stored property *)
Definition p_isData (p : mprop) : bool :=
  writeSet (sm p) || match sp p with SVal _ => true | _ => false end.

Definition norm_slot (g : gslot) : option Z := match g with SFn f => Some f | _ => None end.
Definition slot_of (g : option Z) : gslot := match g with Some f => SFn f | None => SAbsent end.
Definition desc_of_prop (p : mprop) : mdesc :=
  mkMD (match sp p with SVal v => DVal v | SGetSet g s => DGetSet (slot_of g) (slot_of s) end) (sm p).

(* toPropertyDescriptor; None = TypeError *)
Definition set_digit (m : mode) (on off : mode -> mode) (b : option bool) : mode :=
  match b with Some true => on m | Some false => off m | None => m end.
Definition raw_slot (g : gsraw) : option gslot :=
  match g with GAbsent => Some SAbsent | GUndef => Some SUndef | GFn f => Some (SFn f) | GBad => None end.
Definition to_mdesc (r : rdesc) : option mdesc :=
  let m := 146%N in
  let m := set_digit m enumerateOn enumerateOff (r_enum r) in
  let m := set_digit m configureOn configureOff (r_conf r) in
  let m := set_digit m writeOn writeOff (r_writable r) in
  match raw_slot (r_get r), raw_slot (r_set r) with
  | Some g, Some s =>
      let getterSetter := match g, s with SAbsent, SAbsent => false | _, _ => true end in
      if getterSetter && writeSet m then None
      else match r_value r with
           | Some v => if getterSetter then None else Some (mkMD (DVal v) m)
           | None => Some (mkMD (if getterSetter then DGetSet g s else DNone) m)
           end
  | _, _ => None
  end.

(* ---------- object_class.go objectDefineOwnProperty, existing property ---------- *)
Inductive dres := DOk (p : mprop) | DUnchanged | DReject.

Definition merge_mode (mode0 mode1 : mode) (keep_writable : bool) : mode :=
  if N.eqb (N.land mode1 146) 0 then mode1 else
  let m := mode1 in
  let m := if negb (N.eqb (N.land m 128) 0) then
             (if keep_writable then N.lor (N.land m 383) (N.land mode0 64) else m)
           else m in
  let m := if negb (N.eqb (N.land m 16) 0) then N.lor m (N.land mode0 8) else m in
  let m := if negb (N.eqb (N.land m 2) 0) then N.lor m (N.land mode0 1) else m in
  N.land m 201.                                                          (* 0o311 *)

Definition m_define_existing (p : mprop) (d : mdesc) : dres :=
  if d_isEmpty d then DUnchanged else
  let conf := configurable (sm p) in
  if negb conf && configurable (dm d) then DReject else
  if negb conf && enumerateSet (dm d) && negb (Bool.eqb (enumerable (dm d)) (enumerable (sm p))) then DReject else
  let stored_is_data := match sp p with SVal _ => true | _ => false end in
  let sw : option (option dpay) :=      (* None = reject; Some x: x overrides descriptor.value *)
    if d_isGeneric d then Some None
    else if negb (Bool.eqb stored_is_data (d_isData d)) then (if conf then Some None else None)
    else if stored_is_data && d_isData d then
      (if conf then Some None
       else if negb (writable (sm p)) && writable (dm d) then None
       else if negb (writable (sm p)) then
         match sp p, dp d with
         | SVal v, DVal v' => if val_eqb v v' then Some None else None
         | _, _ => Some None
         end
       else Some None)
    else
      match sp p, dp d with
      | SGetSet g0 s0, DGetSet g s =>
          let '(g1, pg) := match g with SUndef => (None, true) | SAbsent => (g0, false) | SFn f => (Some f, true) end in
          let '(s1, ps) := match s with SUndef => (None, true) | SAbsent => (s0, false) | SFn f => (Some f, true) end in
          if negb conf && ((pg && negb (ogs_eqb g0 g1)) || (ps && negb (ogs_eqb s0 s1))) then None
          else Some (Some (DGetSet (slot_of g1) (slot_of s1)))
      | SGetSet g0 s0, _ =>
          (* descriptor.value is not a getter/setter pair: the zero pair, both slots "missing" *)
          Some (Some (DGetSet (slot_of g0) (slot_of s0)))
      | _, _ => Some None
      end in
  match sw with
  | None => DReject
  | Some ov =>
      let dv := match ov with Some x => x | None => dp d end in
      let value1 : spay :=
        match dv with
        | DNone =>
            (* value1 = prop.value; an accessor turned into a data property without a value gets Value{} *)
            if negb stored_is_data && d_isData d then SVal VUndef else sp p
        | DVal v => SVal v
        | DGetSet g s => SGetSet (norm_slot g) (norm_slot s)
        end in
      (* "writable" missing in the descriptor: kept from the stored mode for a data descriptor and for a
         generic descriptor on a data property *)
      DOk (mkMP value1 (merge_mode (sm p) (dm d) (d_isData d || (stored_is_data && d_isGeneric d))))
  end.

Definition m_define_new (d : mdesc) : mprop :=
  mkMP (match dp d with
        | DNone => SVal VUndef                         (* writeProperty: nil becomes Value{} *)
        | DVal v => SVal v
        | DGetSet g s => SGetSet (norm_slot g) (norm_slot s)
        end) (dm d).

Record mobj := mkMO { m_proto : option nat; m_ext : bool; m_props : list (Z * mprop) }.

(* the object after [[DefineOwnProperty]], None = reject *)
Definition m_define_own (o : mobj) (n : Z) (d : mdesc) : option mobj :=
  match lookup (m_props o) n with
  | None =>
      if m_ext o then Some (mkMO (m_proto o) (m_ext o) (set_prop (m_props o) n (m_define_new d)))
      else None
  | Some p =>
      match m_define_existing p d with
      | DOk p' => Some (mkMO (m_proto o) (m_ext o) (set_prop (m_props o) n p'))
      | DUnchanged => Some o
      | DReject => None
      end
  end.

Definition m_delete_own (o : mobj) (n : Z) : mobj * bool :=
  match lookup (m_props o) n with
  | None => (o, true)
  | Some p => if configurable (sm p) then (mkMO (m_proto o) (m_ext o) (del_prop (m_props o) n), true) else (o, false)
  end.

(* ---------- heap ---------- *)
Definition mheap := list mobj.
Definition mempty : mobj := mkMO None true [].

Fixpoint m_get_property (fuel : nat) (h : mheap) (a : nat) (n : Z) : option mprop :=
  match fuel with
  | O => None
  | S k =>
      match nth_error h a with
      | None => None
      | Some o =>
          match lookup (m_props o) n with
          | Some p => Some p
          | None => match m_proto o with None => None | Some pa => m_get_property k h pa n end
          end
      end
  end.

(* property.get *)
Definition m_get (h : mheap) (a : nat) (n : Z) : val :=
  match m_get_property (length h) h a n with
  | None => VUndef
  | Some p => match sp p with
              | SVal v => v
              | SGetSet (Some f) _ => getter_result f a
              | SGetSet None _ => VUndef
              end
  end.

(* objectCanPutDetails: (canPut, prop, setter) *)
Definition m_can_put_details (h : mheap) (a : nat) (n : Z) : bool * option mprop * option Z :=
  match nth_error h a with
  | None => (false, None, None)
  | Some o =>
      match lookup (m_props o) n with
      | Some p =>
          match sp p with
          | SVal _ => (writable (sm p), Some p, None)
          | SGetSet _ s => (match s with Some _ => true | None => false end, Some p, s)
          end
      | None =>
          match m_proto o with
          | None => (m_ext o, None, None)
          | Some pa =>
              match m_get_property (length h) h pa n with
              | None => (m_ext o, None, None)
              | Some p =>
                  match sp p with
                  | SVal _ => if negb (m_ext o) then (false, None, None) else (writable (sm p), None, None)
                  | SGetSet _ s => (match s with Some _ => true | None => false end, Some p, s)
                  end
              end
          end
      end
  end.

(* objectPut with throw = false: heap, setter call *)
Definition m_put (h : mheap) (a : nat) (n : Z) (v : val) : mheap * list Z :=
  match nth_error h a with
  | None => (h, [])
  | Some o =>
      let '(canPut, prop, setter) := m_can_put_details h a n in
      if negb canPut then (h, [])
      else match setter with
           | Some f => (h, [f + 1; Z.of_nat a; enc_val v])
           | None =>
               let d := match prop with
                        | Some p => mkMD (DVal v) (sm p)
                        | None => mkMD (DVal v) 73%N              (* 0o111 *)
                        end in
               match m_define_own o n d with
               | Some o' => (upd h a o', [])
               | None => (h, [])
               end
           end
  end.

(* Object.defineProperties / Object.create: convert and define one entry at a time
   (object, threw, tag 5 when a descriptor after the first is malformed) *)
Fixpoint m_define_each (o : mobj) (l : list (Z * rdesc)) (first : bool) : mobj * bool * Z :=
  match l with
  | [] => (o, false, 0)
  | (n, r) :: l' =>
      match to_mdesc r with
      | None => (o, true, if first then 0 else 5)
      | Some d =>
          match m_define_own o n d with
          | Some o' => m_define_each o' l' false
          | None => (o, true, 0)
          end
      end
  end.

(* Object.seal / Object.freeze: enumerate(all) over the own names, redefine with the adjusted copy *)
Fixpoint m_restrict (freeze : bool) (o : mobj) (names : list Z) : mobj :=
  match names with
  | [] => o
  | n :: rest =>
      match lookup (m_props o) n with
      | None => m_restrict freeze o rest
      | Some p =>
          let m := sm p in
          let '(m, upd1) := if freeze && p_isData p && writable m then (writeOff m, true) else (m, false) in
          let '(m, upd2) := if configurable m then (configureOff m, true) else (m, false) in
          if (if freeze then upd1 || upd2 else upd2) then
            match m_define_own o n (desc_of_prop (mkMP (sp p) m)) with
            | Some o' => m_restrict freeze o' rest
            | None => o                       (* would throw; never happens for a configurable property *)
            end
          else m_restrict freeze o rest
      end
  end.

Definition m_is_sealed (o : mobj) : bool :=
  negb (m_ext o) && forallb (fun np => negb (configurable (sm (snd np)))) (m_props o).
Definition m_is_frozen (o : mobj) : bool :=
  negb (m_ext o) && forallb (fun np => negb (configurable (sm (snd np)) || writable (sm (snd np)))) (m_props o).

Definition m_own_names (o : mobj) : list Z := map fst (m_props o).
Definition m_own_keys (o : mobj) : list Z := map fst (filter (fun np => enumerable (sm (snd np))) (m_props o)).

(* for-in: own enumerable names, then each prototype's, nothing remembered *)
Fixpoint m_forin (fuel : nat) (h : mheap) (a : nat) : list Z :=
  match fuel with
  | O => []
  | S k =>
      match nth_error h a with
      | None => []
      | Some o => m_own_keys o ++ match m_proto o with None => [] | Some pa => m_forin k h pa end
      end
  end.

(* for-in whose body deletes a property.  objectEnumerate ranges over a copy of obj.propertyOrder
   taken when the loop over that object starts and visits a name only if the property still exists
   (and is enumerable) when its turn comes. *)
Fixpoint m_forin_obj (order : list Z) (h : mheap) (cur : nat)
         (at_n : Z) (a2 : nat) (del_n : Z) (visited : list Z) : mheap * list Z :=
  match order with
  | [] => (h, visited)
  | name :: rest =>
      match lookup (m_props (nth cur h mempty)) name with
      | Some p =>
          if enumerable (sm p) then
            let h' := if name =? at_n then upd h a2 (fst (m_delete_own (nth a2 h mempty) del_n)) else h in
            m_forin_obj rest h' cur at_n a2 del_n (visited ++ [name])
          else m_forin_obj rest h cur at_n a2 del_n visited
      | None => m_forin_obj rest h cur at_n a2 del_n visited
      end
  end.

Fixpoint m_forin_del (fuel : nat) (h : mheap) (cur : nat) (at_n : Z) (a2 : nat) (del_n : Z)
         (visited : list Z) : mheap * list Z :=
  match fuel with
  | O => (h, visited)
  | S f =>
      match nth_error h cur with
      | None => (h, visited)
      | Some o =>
          let '(h', visited') := m_forin_obj (m_own_names o) h cur at_n a2 del_n visited in
          match m_proto o with
          | None => (h', visited')
          | Some pa => m_forin_del f h' pa at_n a2 del_n visited'
          end
      end
  end.

(* what 12.6.4 asks for on the same heap: names shadowed further down are skipped *)
Fixpoint m_forin_seen (fuel : nat) (h : mheap) (a : nat) (seen : list Z) : list Z :=
  match fuel with
  | O => []
  | S k =>
      match nth_error h a with
      | None => []
      | Some o =>
          map fst (filter (fun np => enumerable (sm (snd np)) && negb (memz (fst np) seen)) (m_props o))
          ++ match m_proto o with None => [] | Some pa => m_forin_seen k h pa (seen ++ m_own_names o) end
      end
  end.

Fixpoint has_dup (l : list Z) : bool :=
  match l with [] => false | x :: l' => memz x l' || has_dup l' end.

(* ---------- operations ---------- *)
Record mstate := mkMS { ms_heap : mheap; ms_vars : list nat }.
Definition mplain : mobj := mkMO (Some 0%nat) true [].
Definition minit : mstate := mkMS [mempty; mplain; mplain; mplain] [1; 2; 3; 0]%nat.
Definition mvar (s : mstate) (i : nat) : nat := nth i (ms_vars s) 0%nat.
Definition m_obj (s : mstate) (a : nat) : mobj := nth a (ms_heap s) mempty.
Definition m_set_obj (s : mstate) (a : nat) (o : mobj) : mstate := mkMS (upd (ms_heap s) a o) (ms_vars s).

(* (state, result, tag of the open deviation the step runs into: 2 for-in without a shadow set,
   5 defineProperties entry by entry, 0 none) *)
Definition mstep (s : mstate) (o : op) : mstate * list Z * Z :=
  match o with
  | ODefine i n r =>
      let a := mvar s i in
      match to_mdesc r with
      | None => (s, [1], 0)
      | Some d => match m_define_own (m_obj s a) n d with
                  | Some o' => (m_set_obj s a o', [0], 0)
                  | None => (s, [1], 0)
                  end
      end
  | ODefines i l =>
      let a := mvar s i in
      let '(o', threw, t) := m_define_each (m_obj s a) l true in
      let bad := existsb (fun e => match to_mdesc (snd e) with None => true | Some _ => false end) l in
      (m_set_obj s a o', [b2z threw], if bad then 5 else t)
  | OCreate i p l =>
      let proto := match p with Some j => Some (mvar s j) | None => None end in
      let '(o', threw, _) := m_define_each (mkMO proto true []) (odef l []) true in
      if threw then (s, [1], 0)
      else (mkMS (ms_heap s ++ [o']) (upd (ms_vars s) i (length (ms_heap s))), [0], 0)
  | OPut i n v =>
      let a := mvar s i in
      let '(h', log) := m_put (ms_heap s) a n v in
      (mkMS h' (ms_vars s), 0 :: log, 0)
  | ODelete i n =>
      let a := mvar s i in
      let '(o', r) := m_delete_own (m_obj s a) n in
      (m_set_obj s a o', [0; b2z r], 0)
  | OFreeze i =>
      let a := mvar s i in
      let o := m_obj s a in
      let o' := m_restrict true o (m_own_names o) in
      (m_set_obj s a (mkMO (m_proto o') false (m_props o')), [0], 0)
  | OSeal i =>
      let a := mvar s i in
      let o := m_obj s a in
      let o' := m_restrict false o (m_own_names o) in
      (m_set_obj s a (mkMO (m_proto o') false (m_props o')), [0], 0)
  | OPrevent i =>
      let a := mvar s i in
      let o := m_obj s a in (m_set_obj s a (mkMO (m_proto o) false (m_props o)), [0], 0)
  | OForInDel i at_n i2 del_n =>
      let h := ms_heap s in
      let '(h', vis) := m_forin_del (length h) h (mvar s i) at_n (mvar s i2) del_n [] in
      (mkMS h' (ms_vars s), [0; pack vis],
       if zlist_eqb (m_forin (length h) h (mvar s i)) (m_forin_seen (length h) h (mvar s i) []) then 0 else 2)
  end.

(* ---------- observation (fromPropertyDescriptor etc.); None = a Go panic escapes ---------- *)
Definition m_obs_desc (p : option mprop) : option (list Z) :=
  match p with
  | None => Some [0; 0; 0; 0; 0]
  | Some p =>
      let ec := 2 * b2z (enumerable (sm p)) + 4 * b2z (configurable (sm p)) in
      if p_isData p then
        match sp p with
        | SVal v => Some [1; enc_val v; b2z (writable (sm p)) + ec; 0; 0]
        | SGetSet _ _ => None                   (* descriptor.value.(Value) on a getter/setter pair *)
        end
      else
        match sp p with
        | SGetSet g s => Some [2; 0; ec; match g with Some f => f + 1 | None => 0 end;
                               match s with Some f => f + 1 | None => 0 end]
        | SVal _ => Some [3; 0; ec; 0; 0]
        end
  end.

Definition m_obs_name (h : mheap) (a : nat) (o : mobj) (n : Z) : option (list Z) :=
  let own := lookup (m_props o) n in
  match m_obs_desc own with
  | None => None
  | Some d =>
      Some (d ++
      [ b2z (match m_get_property (length h) h a n with Some _ => true | None => false end)
        + 2 * b2z (match own with Some _ => true | None => false end)
        + 4 * b2z (match own with Some p => enumerable (sm p) | None => false end);
        enc_val (m_get h a n) ])
  end.

Fixpoint opt_concat (l : list (option (list Z))) : option (list Z) :=
  match l with
  | [] => Some []
  | None :: _ => None
  | Some x :: l' => match opt_concat l' with Some r => Some (x ++ r) | None => None end
  end.

Definition m_obs_obj (h : mheap) (a : nat) : option (list Z) :=
  let o := nth a h mempty in
  match opt_concat (map (m_obs_name h a o) names) with
  | None => None
  | Some l =>
      Some (l ++ [ b2z (m_ext o) + 2 * b2z (m_is_sealed o) + 4 * b2z (m_is_frozen o);
                   pack (m_own_keys o); pack (m_own_names o); pack (m_forin (length h) h a) ])
  end.

Definition m_snapshot (s : mstate) : option (list Z) :=
  opt_concat (map (fun i => m_obs_obj (ms_heap s) (mvar s i)) [0; 1; 2; 3]%nat).

Definition m_snapshot_tag (s : mstate) : Z :=
  let h := ms_heap s in
  if forallb (fun i => zlist_eqb (m_forin (length h) h (mvar s i)) (m_forin_seen (length h) h (mvar s i) []))
             [0; 1; 2; 3]%nat then 0 else 2.

(* observations of a history, the tag of the first open deviation met, and the final state;
   a Go panic (9) would end the script (None) *)
Fixpoint mrun_st (s : mstate) (ops : list op) : list (list Z) * Z * option mstate :=
  match ops with
  | [] => ([], 0, Some s)
  | o :: ops' =>
      let '(s', r, t) := mstep s o in
      match m_snapshot s' with
      | None => ([r ++ [9]], t, None)
      | Some snap =>
          let t := if t =? 0 then m_snapshot_tag s' else t in
          let '(rest, t', st) := mrun_st s' ops' in
          ((r ++ snap) :: rest, (if t =? 0 then t' else t), st)
      end
  end.

Definition mrun (s : mstate) (ops : list op) : list (list Z) * Z :=
  let '(obs, t, _) := mrun_st s ops in (obs, t).

(* after Otto.Copy(): the two runtimes are independent replays; every step is followed by the
   snapshot of the original and then of the copy *)
Fixpoint mfork (sa sb : mstate) (ops : list (bool * op)) : list (list Z) * Z :=
  match ops with
  | [] => ([], 0)
  | (side, o) :: ops' =>
      let '(s', r, t) := mstep (if side then sb else sa) o in
      let sa' := if side then sa else s' in
      let sb' := if side then s' else sb in
      match m_snapshot sa' with
      | None => ([r ++ [9]], t)
      | Some xa =>
          match m_snapshot sb' with
          | None => ([r ++ xa ++ [9]], t)
          | Some xb =>
              let t := if t =? 0 then (if m_snapshot_tag sa' =? 0 then m_snapshot_tag sb' else 2) else t in
              let '(rest, t') := mfork sa' sb' ops' in
              ((r ++ xa ++ xb) :: rest, if t =? 0 then t' else t)
          end
      end
  end.

Definition mrun_fork (prefix : list op) (ops : list (bool * op)) : list (list Z) * Z :=
  let '(pre, t, st) := mrun_st minit prefix in
  match st with
  | None => (pre, t)
  | Some s => let '(rest, t') := mfork s s ops in (pre ++ rest, if t =? 0 then t' else t)
  end.
