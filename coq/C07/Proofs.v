From Coq Require Import ZArith NArith List Bool Lia.
From Otto Require Import Common.Corr C07.Spec C07.Model.
Import ListNotations.
Open Scope Z_scope.
