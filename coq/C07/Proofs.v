(* C07 proofs, part 2: laws of the ES5 object model (Spec) over all finite histories *)
From Coq Require Import ZArith List Bool Lia.
From Otto Require Import C07.Spec.
Import ListNotations.
Open Scope Z_scope.

(* ---------- association lists ---------- *)
Section AssocFacts.
Context {P : Type}.
Implicit Types (l : list (Z * P)) (n m : Z).

Lemma lookup_set_same l n p : lookup (set_prop l n p) n = Some p.
Proof.
  induction l as [|[k q] l IH]; cbn.
  - rewrite Z.eqb_refl. reflexivity.
  - destruct (k =? n) eqn:E; cbn; rewrite E; auto.
Qed.

Lemma lookup_set_other l n m p : m <> n -> lookup (set_prop l n p) m = lookup l m.
Proof.
  intro Hne. induction l as [|[k q] l IH]; cbn.
  - destruct (n =? m) eqn:E; auto. apply Z.eqb_eq in E. congruence.
  - destruct (k =? n) eqn:E; cbn.
    + apply Z.eqb_eq in E. subst k. destruct (n =? m) eqn:E2; auto. apply Z.eqb_eq in E2. congruence.
    + destruct (k =? m); auto.
Qed.

Lemma lookup_del_same l n : lookup (del_prop l n) n = None.
Proof.
  induction l as [|[k q] l IH]; cbn; auto.
  destruct (k =? n) eqn:E; cbn; auto. rewrite E. exact IH.
Qed.

Lemma lookup_del_other l n m : m <> n -> lookup (del_prop l n) m = lookup l m.
Proof.
  intro Hne. induction l as [|[k q] l IH]; cbn; auto.
  destruct (k =? n) eqn:E; cbn.
  - apply Z.eqb_eq in E. subst k. destruct (n =? m) eqn:E2; auto. apply Z.eqb_eq in E2. congruence.
  - destruct (k =? m); auto.
Qed.

Lemma lookup_none_iff l n : lookup l n = None <-> ~ In n (map fst l).
Proof.
  induction l as [|[k q] l IH]; cbn.
  - tauto.
  - destruct (k =? n) eqn:E.
    + apply Z.eqb_eq in E. split; [discriminate | intro H; exfalso; apply H; auto].
    + apply Z.eqb_neq in E. rewrite IH. tauto.
Qed.

Lemma names_set_existing l n p q : lookup l n = Some q -> map fst (set_prop l n p) = map fst l.
Proof.
  induction l as [|[k r] l IH]; cbn; [discriminate|].
  destruct (k =? n) eqn:E; cbn; auto. intro H. rewrite IH; auto.
Qed.

Lemma names_set_new l n p : lookup l n = None -> map fst (set_prop l n p) = map fst l ++ [n].
Proof.
  induction l as [|[k r] l IH]; cbn; auto.
  destruct (k =? n) eqn:E; cbn; [discriminate|]. intro H. rewrite IH; auto.
Qed.

Lemma in_names_del l n m : In m (map fst (del_prop l n)) -> In m (map fst l) /\ m <> n.
Proof.
  induction l as [|[k r] l IH]; cbn; [tauto|].
  destruct (k =? n) eqn:E; cbn.
  - intro H. destruct (IH H). auto.
  - apply Z.eqb_neq in E. intros [H|H]; [subst; auto | destruct (IH H); auto].
Qed.

Lemma nodup_del l n : NoDup (map fst l) -> NoDup (map fst (del_prop l n)).
Proof.
  induction l as [|[k r] l IH]; cbn; auto.
  intro H. inversion H; subst. destruct (k =? n); cbn; auto.
  constructor; auto. intro Hin. apply in_names_del in Hin. tauto.
Qed.

Lemma nodup_set l n p : NoDup (map fst l) -> NoDup (map fst (set_prop l n p)).
Proof.
  intro H. destruct (lookup l n) eqn:E.
  - erewrite names_set_existing; eauto.
  - rewrite names_set_new; auto. apply lookup_none_iff in E.
    apply NoDup_app_remove_l with (l := []) || idtac.
    clear -H E. induction (map fst l) as [|x xs IH]; cbn.
    + constructor; [intros []|constructor].
    + inversion H; subst. constructor.
      * rewrite in_app_iff. cbn. intros [?|[?|[]]]; [tauto|]. subst. apply E. cbn; auto.
      * apply IH; auto. intro. apply E. cbn; auto.
Qed.
End AssocFacts.

(* ---------- SameValue ---------- *)
Lemma val_eqb_eq a b : val_eqb a b = true -> a = b.
Proof.
  destruct a, b; cbn; try discriminate; auto; intro H;
    try (apply Z.eqb_eq in H; subst; reflexivity).
  apply Bool.eqb_prop in H. subst. reflexivity.
Qed.
Lemma ogs_eqb_eq a b : ogs_eqb a b = true -> a = b.
Proof.
  destruct a, b; cbn; try discriminate; auto. intro H. apply Z.eqb_eq in H. subst. reflexivity.
Qed.

(* ---------- what may happen to a non-configurable property ---------- *)
Definition prop_le (p p' : prop) : Prop :=
  p_conf p = false ->
  p_conf p' = false /\ p_enum p' = p_enum p /\
  match p, p' with
  | PData v w _ _, PData v' w' _ _ => (w = false -> v' = v /\ w' = false)
  | PAcc g s _ _, PAcc g' s' _ _ => g' = g /\ s' = s
  | _, _ => False
  end.

Lemma prop_le_refl p : prop_le p p.
Proof. intro H. destruct p; cbn in *; auto. Qed.

Lemma prop_le_trans p q r : prop_le p q -> prop_le q r -> prop_le p r.
Proof.
  intros H1 H2 Hc. destruct (H1 Hc) as (Hq & He & Hs). destruct (H2 Hq) as (Hr & He' & Hs').
  split; auto. split; [congruence|].
  destruct p, q, r; cbn in *; try tauto.
  - intro Hw. destruct (Hs Hw) as [-> ->]. destruct (Hs' eq_refl) as [-> ->]. auto.
  - destruct Hs as [-> ->]. destruct Hs' as [-> ->]. auto.
Qed.

Opaque val_eqb ogs_eqb.

Lemma define_existing_le p d p' : define_existing p d = Some p' -> prop_le p p'.
Proof.
  intros H Hc. destruct d as [dv dw dg ds de dc].
  destruct p as [v w e c|g s e c]; cbn in Hc; subst c.
  - destruct dv as [v'|]; destruct dw as [[|]|]; destruct dg as [[fg|]|]; destruct ds as [[fs|]|];
      destruct de as [[|]|]; destruct dc as [[|]|]; destruct e; destruct w; cbn in H; try discriminate;
      try (destruct (val_eqb v v') eqn:E; cbn in H; try discriminate; apply val_eqb_eq in E; subst v');
      inversion H; subst; cbn; repeat split; auto; try discriminate.
  - destruct dv as [v'|]; destruct dw as [[|]|]; destruct dg as [[fg|]|]; destruct ds as [[fs|]|];
      destruct de as [[|]|]; destruct dc as [[|]|]; destruct e; cbn in H; try discriminate;
      repeat match type of H with
             | context [ogs_eqb ?a ?b] => destruct (ogs_eqb a b) eqn:?E; cbn in H; try discriminate;
                                          apply ogs_eqb_eq in E; subst
             end;
      inversion H; subst; cbn; repeat split; auto.
Qed.

Transparent val_eqb ogs_eqb.

(* ---------- what may happen to an object ---------- *)
Definition nodup_obj (o : obj) : Prop := NoDup (own_names o).

Definition obj_le (o o' : obj) : Prop :=
  o_proto o' = o_proto o /\
  (o_ext o = false -> o_ext o' = false /\
                      forall n, lookup (o_props o') n <> None -> lookup (o_props o) n <> None) /\
  (forall n p, lookup (o_props o) n = Some p -> p_conf p = false ->
               exists p', lookup (o_props o') n = Some p' /\ prop_le p p') /\
  (nodup_obj o -> nodup_obj o').

Lemma obj_le_refl o : obj_le o o.
Proof.
  repeat split; auto. intros n p H _. exists p. split; auto. apply prop_le_refl.
Qed.

Lemma obj_le_trans a b c : obj_le a b -> obj_le b c -> obj_le a c.
Proof.
  intros (P1 & E1 & C1 & N1) (P2 & E2 & C2 & N2). split; [congruence|]. split; [|split].
  - intro He. destruct (E1 He) as [Hb Hn]. destruct (E2 Hb) as [Hc Hn']. split; auto.
  - intros n p Hl Hc. destruct (C1 n p Hl Hc) as (q & Hq & Hpq).
    destruct (Hpq Hc) as (Hqc & _). destruct (C2 n q Hq Hqc) as (r & Hr & Hqr).
    exists r. split; auto. eapply prop_le_trans; eauto.
  - auto.
Qed.

Lemma define_own_le o n d o' : define_own o n d = Some o' -> obj_le o o'.
Proof.
  unfold define_own. destruct (lookup (o_props o) n) as [p|] eqn:L.
  - destruct (define_existing p d) as [p'|] eqn:D; [|discriminate].
    intro H. inversion H; subst o'; clear H. split; [reflexivity|]. cbn. split; [|split].
    + intro He. split; auto. intros m Hm. destruct (Z.eq_dec m n) as [->|Hne]; [congruence|].
      rewrite lookup_set_other in Hm; auto.
    + intros m q Hq Hc. destruct (Z.eq_dec m n) as [->|Hne].
      * rewrite lookup_set_same. exists p'. split; auto.
        assert (q = p) by congruence. subst q. eapply define_existing_le; eauto.
      * rewrite lookup_set_other; auto. exists q. split; auto. apply prop_le_refl.
    + unfold nodup_obj, own_names. cbn. apply nodup_set.
  - destruct (o_ext o) eqn:He; [|discriminate].
    intro H. inversion H; subst o'; clear H. split; [reflexivity|]. cbn. split; [|split].
    + intro. congruence.
    + intros m q Hq Hc. destruct (Z.eq_dec m n) as [->|Hne]; [congruence|].
      rewrite lookup_set_other; auto. exists q. split; auto. apply prop_le_refl.
    + unfold nodup_obj, own_names. cbn. apply nodup_set.
Qed.

Lemma delete_own_le o n : obj_le o (fst (delete_own o n)).
Proof.
  unfold delete_own. destruct (lookup (o_props o) n) as [p|] eqn:L; [|apply obj_le_refl].
  destruct (p_conf p) eqn:Hc; [|apply obj_le_refl]. cbn.
  split; [reflexivity|]. cbn. split; [|split].
  - intro He. split; auto. intros m Hm. destruct (Z.eq_dec m n) as [->|Hne].
    + rewrite lookup_del_same in Hm. congruence.
    + rewrite lookup_del_other in Hm; auto.
  - intros m q Hq Hcq. destruct (Z.eq_dec m n) as [->|Hne]; [congruence|].
    rewrite lookup_del_other; auto. exists q. split; auto. apply prop_le_refl.
  - unfold nodup_obj, own_names. cbn. apply nodup_del.
Qed.

Lemma prevent_le o : obj_le o (mkO (o_proto o) false (o_props o)).
Proof.
  split; [reflexivity|]. cbn. split; [|split]; auto.
  intros n p H _. exists p. split; auto. apply prop_le_refl.
Qed.

Lemma define_seq_le l : forall o, obj_le o (fst (define_seq o l)).
Proof.
  induction l as [|[n d] l IH]; intro o; cbn; [apply obj_le_refl|].
  destruct (define_own o n d) as [o'|] eqn:D; [|apply obj_le_refl].
  eapply obj_le_trans; [eapply define_own_le; eauto | apply IH].
Qed.

Lemma restrict_le f o : obj_le o (restrict f o).
Proof.
  unfold restrict. eapply obj_le_trans; [apply define_seq_le | apply prevent_le].
Qed.

(* ---------- heaps ---------- *)
Lemma length_upd {A} (h : list A) a x : length (upd h a x) = length h.
Proof. revert a. induction h as [|y h IH]; intros [|k]; cbn; auto. Qed.

Lemma nth_error_upd_same {A} (h : list A) a x : (a < length h)%nat -> nth_error (upd h a x) a = Some x.
Proof. revert a. induction h as [|y h IH]; intros [|k]; cbn; intro H; try lia; auto. apply IH. lia. Qed.

Lemma nth_error_upd_other {A} (h : list A) a b x : a <> b -> nth_error (upd h a x) b = nth_error h b.
Proof. revert a b. induction h as [|y h IH]; intros [|k] [|j]; cbn; intro H; try congruence; auto. Qed.

Lemma upd_out {A} (h : list A) a x : (length h <= a)%nat -> upd h a x = h.
Proof. revert a. induction h as [|y h IH]; intros [|k]; cbn; intro H; try lia; auto. f_equal. apply IH. lia. Qed.

Lemma nth_of_nth_error {A} (h : list A) a x d : nth_error h a = Some x -> nth a h d = x.
Proof. intro H. apply nth_error_nth. exact H. Qed.

Lemma Forall_upd {A} (P : A -> Prop) (h : list A) a x : Forall P h -> P x -> Forall P (upd h a x).
Proof.
  intros H Hx. revert a. induction H; intros [|k]; cbn; auto.
Qed.

Definition heap_le (h h' : heap) : Prop :=
  (forall a o, nth_error h a = Some o -> exists o', nth_error h' a = Some o' /\ obj_le o o') /\
  (Forall nodup_obj h -> Forall nodup_obj h').

Lemma heap_le_refl h : heap_le h h.
Proof. split; auto. intros a o H. exists o. split; auto. apply obj_le_refl. Qed.

Lemma heap_le_trans a b c : heap_le a b -> heap_le b c -> heap_le a c.
Proof.
  intros [H1 N1] [H2 N2]. split; auto. intros x o Ho.
  destruct (H1 x o Ho) as (o' & Ho' & L1). destruct (H2 x o' Ho') as (o'' & Ho'' & L2).
  exists o''. split; auto. eapply obj_le_trans; eauto.
Qed.

Lemma nodup_empty : nodup_obj empty_obj.
Proof. constructor. Qed.

Lemma nodup_nth h a : Forall nodup_obj h -> nodup_obj (nth a h empty_obj).
Proof.
  intro H. destruct (nth_error h a) as [o|] eqn:E.
  - rewrite (nth_of_nth_error _ _ _ _ E). eapply Forall_forall; eauto. eapply nth_error_In; eauto.
  - apply nth_error_None in E. rewrite nth_overflow; auto. apply nodup_empty.
Qed.

Lemma upd_le h a o' : obj_le (nth a h empty_obj) o' -> heap_le h (upd h a o').
Proof.
  intro H. split.
  - intros b o Ho. destruct (Nat.eq_dec a b) as [->|Hne].
    + exists o'. split.
      * apply nth_error_upd_same. apply nth_error_Some. congruence.
      * rewrite (nth_of_nth_error _ _ _ _ Ho) in H. exact H.
    + exists o. rewrite nth_error_upd_other; auto. split; auto. apply obj_le_refl.
  - intro N. apply Forall_upd; auto. destruct H as (_ & _ & _ & Hn). apply Hn. apply nodup_nth. exact N.
Qed.

Lemma app_le h o : nodup_obj o -> heap_le h (h ++ [o]).
Proof.
  intro Hn. split.
  - intros a x Hx. exists x. split; [|apply obj_le_refl].
    rewrite nth_error_app1; auto. apply nth_error_Some. congruence.
  - intro N. apply Forall_app. split; auto.
Qed.

Lemma put_le h a n v : heap_le h (fst (put h a n v)).
Proof.
  unfold put. destruct (nth_error h a) as [o|] eqn:Ho; [|apply heap_le_refl].
  destruct (negb (can_put h a n)); [apply heap_le_refl|].
  assert (Hdef : forall d, heap_le h (fst (match define_own o n d with
                                             | Some o' => (upd h a o', @nil Z) | None => (h, []) end))).
  { intro d. destruct (define_own o n d) as [o'|] eqn:D; [|apply heap_le_refl].
    cbn. apply upd_le. rewrite (nth_of_nth_error _ _ _ _ Ho). eapply define_own_le; eauto. }
  destruct (lookup (o_props o) n) as [[v0 w e c|g s e c]|].
  - apply Hdef.
  - destruct (get_property_of h o n) as [[? ? ? ?|? [f|] ? ?]|]; try apply heap_le_refl; apply Hdef.
  - destruct (get_property_of h o n) as [[? ? ? ?|? [f|] ? ?]|]; try apply heap_le_refl; apply Hdef.
Qed.

Lemma forin_del_walk_le names : forall h a at_n a2 del_n chain visited,
  heap_le h (fst (forin_del_walk names h a at_n a2 del_n chain visited)).
Proof.
  induction names as [|n rest IH]; intros; cbn; [apply heap_le_refl|].
  match goal with |- context [if ?c then _ else _] => destruct c end; [apply IH|].
  destruct (n =? at_n); [|apply IH].
  eapply heap_le_trans; [|apply IH]. apply upd_le. apply delete_own_le.
Qed.

Lemma define_seq_nodup l o : nodup_obj o -> nodup_obj (fst (define_seq o l)).
Proof. intro H. destruct (define_seq_le l o) as (_ & _ & _ & Hn). auto. Qed.

(* every operation moves every existing object along obj_le *)
Theorem step_le s o : heap_le (s_heap s) (s_heap (fst (step s o))).
Proof.
  destruct o as [i n r|i l|i p l|i n v|i n|i|i|i|i at_n i2 del_n]; cbn [step].
  - destruct (to_desc r) as [d|]; [|apply heap_le_refl].
    destruct (define_own (the_obj s (var s i)) n d) as [o'|] eqn:D; [|apply heap_le_refl].
    cbn. apply upd_le. eapply define_own_le; eauto.
  - destruct (convert_all l) as [ds|]; [|apply heap_le_refl].
    destruct (define_seq (the_obj s (var s i)) ds) as [o' threw] eqn:D. cbn.
    apply upd_le. change o' with (fst (o', threw)). rewrite <- D. apply define_seq_le.
  - destruct (convert_all (odef l [])) as [ds|]; [|apply heap_le_refl].
    destruct (define_seq _ ds) as [o' threw] eqn:D. destruct threw; [apply heap_le_refl|]. cbn.
    apply app_le. change o' with (fst (o', false)). rewrite <- D. apply define_seq_nodup. constructor.
  - destruct (put (s_heap s) (var s i) n v) as [h' log] eqn:P. cbn.
    change h' with (fst (h', log)). rewrite <- P. apply put_le.
  - destruct (delete_own (the_obj s (var s i)) n) as [o' r] eqn:D. cbn.
    apply upd_le. change o' with (fst (o', r)). rewrite <- D. apply delete_own_le.
  - cbn. apply upd_le. apply restrict_le.
  - cbn. apply upd_le. apply restrict_le.
  - cbn. apply upd_le. apply prevent_le.
  - match goal with |- context [forin_del_walk ?a ?b ?c ?d ?e ?f ?g ?h] =>
      destruct (forin_del_walk a b c d e f g h) as [h' vis] eqn:W end. cbn.
    change h' with (fst (h', vis)). rewrite <- W. apply forin_del_walk_le.
Qed.

Theorem exec_le ops : forall s, heap_le (s_heap s) (s_heap (exec s ops)).
Proof.
  induction ops as [|o ops IH]; intro s; cbn; [apply heap_le_refl|].
  eapply heap_le_trans; [apply step_le | apply IH].
Qed.

(* ---------- the laws, for every finite history ---------- *)
Definition own_prop (s : state) (a : nat) (n : Z) : option prop :=
  match nth_error (s_heap s) a with Some o => lookup (o_props o) n | None => None end.
Definition ext_of (s : state) (a : nat) : option bool :=
  match nth_error (s_heap s) a with Some o => Some (o_ext o) | None => None end.

Lemma history_obj_le s ops a o :
  nth_error (s_heap s) a = Some o ->
  exists o', nth_error (s_heap (exec s ops)) a = Some o' /\ obj_le o o'.
Proof. intro H. destruct (exec_le ops s) as [L _]. apply L. exact H. Qed.

(* a non-configurable property is never deleted or re-shaped *)
Theorem nonconfigurable_persistent s ops a n p :
  own_prop s a n = Some p -> p_conf p = false ->
  exists p', own_prop (exec s ops) a n = Some p' /\
    p_conf p' = false /\ p_enum p' = p_enum p /\
    match p, p' with
    | PData v w _ _, PData v' w' _ _ => (w = false -> v' = v /\ w' = false)
    | PAcc g s _ _, PAcc g' s' _ _ => g' = g /\ s' = s
    | _, _ => False
    end.
Proof.
  unfold own_prop. destruct (nth_error (s_heap s) a) as [o|] eqn:Ho; [|discriminate].
  intros Hl Hc. destruct (history_obj_le s ops a o Ho) as (o' & Ho' & (_ & _ & C & _)).
  destruct (C n p Hl Hc) as (p' & Hp' & Hle). exists p'. rewrite Ho'. split; auto.
Qed.

(* a non-writable (and non-configurable) value never changes *)
Theorem nonwritable_value_constant s ops a n v e :
  own_prop s a n = Some (PData v false e false) ->
  own_prop (exec s ops) a n = Some (PData v false e false).
Proof.
  intro H. destruct (nonconfigurable_persistent s ops a n _ H eq_refl) as (p' & Hp' & Hc & He & Hs).
  rewrite Hp'. destruct p' as [v' w' e' c'|]; [|contradiction]. cbn in *.
  destruct (Hs eq_refl) as [-> ->]. subst. reflexivity.
Qed.

(* a non-extensible object never gains properties and never becomes extensible again *)
Theorem nonextensible_no_growth s ops a n :
  ext_of s a = Some false ->
  ext_of (exec s ops) a = Some false /\
  (own_prop (exec s ops) a n <> None -> own_prop s a n <> None).
Proof.
  unfold ext_of, own_prop. destruct (nth_error (s_heap s) a) as [o|] eqn:Ho; [|discriminate].
  intro He. inversion He as [He']. destruct (history_obj_le s ops a o Ho) as (o' & Ho' & (_ & E & _ & _)).
  rewrite Ho'. destruct (E He') as [Hx Hn]. split; [congruence | apply Hn].
Qed.

(* a frozen object is a fixed point of every history *)
Lemma lookup_in {P} (l : list (Z * P)) n p : lookup l n = Some p -> In (n, p) l.
Proof.
  induction l as [|[k q] l IH]; cbn; [discriminate|].
  destruct (k =? n) eqn:E; intro H; [apply Z.eqb_eq in E; inversion H; subst; auto | auto].
Qed.

Theorem frozen_is_fixed_point s ops a o :
  nth_error (s_heap s) a = Some o -> is_frozen o = true ->
  exists o', nth_error (s_heap (exec s ops)) a = Some o' /\
    o_proto o' = o_proto o /\ o_ext o' = false /\
    forall n, lookup (o_props o') n = lookup (o_props o) n.
Proof.
  intros Ho Hf. destruct (history_obj_le s ops a o Ho) as (o' & Ho' & (P & E & C & _)).
  exists o'. split; auto. split; auto.
  unfold is_frozen in Hf. apply andb_true_iff in Hf. destruct Hf as [He Hall].
  apply negb_true_iff in He. destruct (E He) as [He' Hn]. split; auto.
  intro n. destruct (lookup (o_props o) n) as [p|] eqn:L.
  - rewrite forallb_forall in Hall.
    specialize (Hall _ (lookup_in _ _ _ L)). cbn in Hall. apply andb_true_iff in Hall. destruct Hall as [Hc Hw].
    apply negb_true_iff in Hc. apply negb_true_iff in Hw.
    destruct (C n p L Hc) as (p' & Hp' & Hle). rewrite Hp'. f_equal.
    destruct (Hle Hc) as (Hc' & He'' & Hs).
    destruct p as [v w e c|g s0 e c], p' as [v' w' e' c'|g' s' e' c']; cbn in *; try contradiction; subst.
    + destruct (Hs eq_refl) as [-> ->]. reflexivity.
    + destruct Hs as [-> ->]. reflexivity.
  - destruct (lookup (o_props o') n) eqn:L'; auto. exfalso. apply (Hn n); congruence.
Qed.

(* ---------- enumeration ---------- *)
Definition reachable (s : state) : Prop := exists ops, s = exec init ops.

Lemma exec_app ops1 : forall s ops2, exec s (ops1 ++ ops2) = exec (exec s ops1) ops2.
Proof. induction ops1 as [|o ops1 IH]; intros; cbn; auto. Qed.

Lemma init_nodup : Forall nodup_obj (s_heap init).
Proof. repeat constructor. Qed.

Theorem reachable_nodup s : reachable s -> Forall nodup_obj (s_heap s).
Proof. intros [ops ->]. destruct (exec_le ops init) as [_ N]. apply N. apply init_nodup. Qed.

Lemma nodup_map_filter {A} (f : A -> bool) (l : list (Z * A)) :
  NoDup (map fst l) -> NoDup (map fst (filter (fun np => f (snd np)) l)).
Proof.
  induction l as [|[k q] l IH]; cbn; auto. intro H. inversion H; subst.
  destruct (f q); cbn; auto. constructor; auto.
  intro Hin. apply H2. apply in_map_iff in Hin. destruct Hin as ([k' q'] & <- & Hin).
  apply filter_In in Hin. apply in_map_iff. exists (k', q'). tauto.
Qed.

(* Object.keys / getOwnPropertyNames never list a name twice, in any reachable state *)
Theorem keys_nodup s a o : reachable s -> nth_error (s_heap s) a = Some o ->
  NoDup (own_names o) /\ NoDup (own_keys o).
Proof.
  intros R Ho. assert (N : nodup_obj o).
  { eapply Forall_forall; [apply reachable_nodup; eauto | eapply nth_error_In; eauto]. }
  split; auto. unfold own_keys. apply (nodup_map_filter p_enum). exact N.
Qed.

Lemma memz_in n l : memz n l = true <-> In n l.
Proof.
  unfold memz. rewrite existsb_exists. split.
  - intros (x & Hin & E). apply Z.eqb_eq in E. subst. auto.
  - intro H. exists n. split; auto. apply Z.eqb_refl.
Qed.

Lemma NoDup_app_iff_local {A} (l1 l2 : list A) :
  NoDup l1 -> NoDup l2 -> (forall x, In x l1 -> In x l2 -> False) -> NoDup (l1 ++ l2).
Proof.
  intros N1 N2 D. induction N1 as [|x l1 Hx N1 IH]; cbn; auto.
  constructor.
  - rewrite in_app_iff. intros [H|H]; [auto | apply (D x); cbn; auto].
  - apply IH. intros y H1 H2. apply (D y); cbn; auto.
Qed.

(* for-in (12.6.4) visits no name twice and no name of the shadow set *)
Lemma forin_nodup h : Forall nodup_obj h -> forall fuel a seen,
  NoDup (forin fuel h a seen) /\ forall n, In n (forin fuel h a seen) -> ~ In n seen.
Proof.
  intros N fuel. induction fuel as [|k IH]; intros a seen; cbn.
  - split; [constructor | intros n []].
  - destruct (nth_error h a) as [o|] eqn:Ho; [|split; [constructor | intros n []]].
    assert (No : nodup_obj o) by (eapply Forall_forall; [exact N | eapply nth_error_In; eauto]).
    set (own := map fst (filter (fun np => p_enum (snd np) && negb (memz (fst np) seen)) (o_props o))).
    assert (Hown : forall n, In n own -> In n (own_names o) /\ ~ In n seen).
    { intros n Hin. apply in_map_iff in Hin. destruct Hin as ([k' q] & <- & Hin).
      apply filter_In in Hin. destruct Hin as [Hin Hc]. cbn in *. apply andb_true_iff in Hc.
      destruct Hc as [_ Hm]. apply negb_true_iff in Hm. split.
      - apply in_map_iff. exists (k', q). auto.
      - intro Hs. apply memz_in in Hs. congruence. }
    assert (Nown : NoDup own).
    { unfold own. clear -No. unfold nodup_obj, own_names in No.
      induction (o_props o) as [|[k' q] l IHl]; cbn; [constructor|]. cbn in No. inversion No; subst.
      destruct (p_enum q && negb (memz k' seen)); cbn; auto. constructor; auto.
      intro Hin. apply H1. apply in_map_iff in Hin. destruct Hin as ([k2 q2] & <- & Hin).
      apply filter_In in Hin. apply in_map_iff. exists (k2, q2). tauto. }
    destruct (o_proto o) as [pa|].
    + destruct (IH pa (seen ++ own_names o)) as [Nrest Hrest]. split.
      * apply NoDup_app_iff_local; auto.
        intros n H1 H2. apply (Hrest n H2). apply in_app_iff. right. apply (Hown n H1).
      * intros n Hin. apply in_app_iff in Hin. destruct Hin as [Hin|Hin].
        -- apply (Hown n Hin).
        -- intro Hs. apply (Hrest n Hin). apply in_app_iff. auto.
    + rewrite app_nil_r. split; auto. intros n Hin. apply (Hown n Hin).
Qed.

(* a name whose deletion succeeded is not listed by keys / getOwnPropertyNames and is not an own property *)
Theorem deleted_not_enumerated o n o' :
  delete_own o n = (o', true) ->
  lookup (o_props o') n = None /\ ~ In n (own_names o') /\ ~ In n (own_keys o').
Proof.
  unfold delete_own. intro H.
  assert (L : lookup (o_props o') n = None).
  { destruct (lookup (o_props o) n) as [p|] eqn:L.
    - destruct (p_conf p); inversion H; subst. cbn. apply lookup_del_same.
    - inversion H; subst. exact L. }
  split; auto. assert (Hn : ~ In n (own_names o')) by (apply lookup_none_iff; exact L).
  split; auto. intro Hin. apply Hn. unfold own_keys in Hin. apply in_map_iff in Hin.
  destruct Hin as ([k q] & <- & Hin). apply filter_In in Hin. apply in_map_iff. exists (k, q). tauto.
Qed.

(* delete never removes a non-configurable property and says so *)
Theorem delete_nonconfigurable o n p :
  lookup (o_props o) n = Some p -> p_conf p = false -> delete_own o n = (o, false).
Proof. unfold delete_own. intros -> ->. reflexivity. Qed.

(* an accessor inherited from the prototype chain governs assignment: the heap is untouched,
   the setter (if any) is called on the receiver *)
Theorem inherited_accessor_governs_put h a o pa n v g s e c :
  nth_error h a = Some o -> lookup (o_props o) n = None -> o_proto o = Some pa ->
  get_property (length h) h pa n = Some (PAcc g s e c) ->
  put h a n v = (h, match s with Some f => [f + 1; Z.of_nat a; enc_val v] | None => [] end).
Proof.
  intros Ho L P G. unfold put, can_put, get_property_of. rewrite Ho, L, P, G.
  destruct s; reflexivity.
Qed.

(* assignment never touches a non-writable own data property, and never adds to a
   non-extensible object *)
Theorem put_nonwritable h a o n v v0 e c :
  nth_error h a = Some o -> lookup (o_props o) n = Some (PData v0 false e c) ->
  put h a n v = (h, []).
Proof. intros Ho L. unfold put, can_put. rewrite Ho, L. reflexivity. Qed.

(* for-in is complete: every property visible through the prototype chain ([[GetProperty]] finds
   it) that is enumerable is visited - whatever object of the chain holds it *)
Lemma forin_complete_gen fuel h : forall a seen n p,
  get_property fuel h a n = Some p -> p_enum p = true -> ~ In n seen ->
  In n (forin fuel h a seen).
Proof.
  induction fuel as [|k IH]; intros a seen n p G E S; cbn in *; [discriminate|].
  destruct (nth_error h a) as [o|]; [|discriminate].
  destruct (lookup (o_props o) n) as [q|] eqn:L.
  - inversion G; subst q. apply in_app_iff. left. apply in_map_iff. exists (n, p). split; auto.
    apply filter_In. split; [apply lookup_in; auto|]. cbn. rewrite E. cbn.
    destruct (memz n seen) eqn:M; auto. apply memz_in in M. contradiction.
  - destruct (o_proto o) as [pa|]; [|discriminate]. apply in_app_iff. right.
    eapply IH; eauto. rewrite in_app_iff. intros [H|H]; [auto|].
    apply lookup_none_iff in L. auto.
Qed.

Theorem forin_complete h a n p :
  get_property (length h) h a n = Some p -> p_enum p = true -> In n (forin (length h) h a []).
Proof. intros G E. eapply forin_complete_gen; eauto. Qed.
