(* C07 proofs, part 3: with the proposed repairs applied, otto's [[DefineOwnProperty]] is 8.12.9 *)
From Coq Require Import ZArith NArith List Bool Lia.
From Otto Require Import Common.Corr C07.Spec C07.Model C07.ProofsRefine.
Import ListNotations.
Open Scope Z_scope.

(* ---------- the proposed repairs (proposed_fixes/C07-writable-lost.diff, C07-acc-to-data.diff):
   with both applied the redefinition is 8.12.9 for every stored property and every descriptor,
   without any guard ---------- *)
Opaque val_eqb ogs_eqb.

Lemma define_existing_fixed_data : forall v m dpv dmode,
  valid m -> wf_desc (mkMD dpv dmode) ->
  abs_res (mkMP (SVal v) m) (m_define_existing allfix (mkMP (SVal v) m) (mkMD dpv dmode))
  = define_existing (abs_prop (mkMP (SVal v) m)) (abs_desc (mkMD dpv dmode)).
Proof.
  intros v m dpv dmode Hm [Hd Hshape].
  cbn [dm dp] in Hd, Hshape.
  split_valid Hm; subst m; split_valid Hd; subst dmode;
    (destruct dpv as [|v'|g s];
     [ | | destruct g as [| |fg]; destruct s as [| |fs]; try contradiction;
           try (cbv in Hshape; discriminate) ]);
    cbv;
    try reflexivity;
    try (destruct (val_eqb v v'); reflexivity).
Qed.

Lemma define_existing_fixed_acc : forall g0 s0 m dpv dmode,
  wf_prop (mkMP (SGetSet g0 s0) m) -> wf_desc (mkMD dpv dmode) ->
  abs_res (mkMP (SGetSet g0 s0) m) (m_define_existing allfix (mkMP (SGetSet g0 s0) m) (mkMD dpv dmode))
  = define_existing (abs_prop (mkMP (SGetSet g0 s0) m)) (abs_desc (mkMD dpv dmode)).
Proof.
  intros g0 s0 m dpv dmode [Hm Hw] [Hd Hshape].
  cbn [dm dp sm sp] in Hm, Hw, Hd, Hshape.
  split_valid Hm; subst m; try (cbv in Hw; discriminate);
  split_valid Hd; subst dmode;
    (destruct dpv as [|v'|g s];
     [ | | destruct g as [| |fg]; destruct s as [| |fs]; try contradiction;
           try (cbv in Hshape; discriminate) ]);
    cbv;
    try reflexivity;
    repeat match goal with
           | |- context [ogs_eqb ?a ?b] => destruct (ogs_eqb a b)
           end; try reflexivity;
    destruct g0; destruct s0; reflexivity.
Qed.

Transparent val_eqb ogs_eqb.

Theorem define_existing_refines_after_fix : forall p d,
  wf_prop p -> wf_desc d ->
  abs_res p (m_define_existing allfix p d) = define_existing (abs_prop p) (abs_desc d).
Proof.
  intros [[v|g0 s0] m] [dpv dmode] Hp Hd.
  - apply define_existing_fixed_data; auto. exact (proj1 Hp).
  - apply define_existing_fixed_acc; auto.
Qed.
