(* C07 proofs, part 3: reachable modes, fromPropertyDescriptor, for-in with deletion *)
From Coq Require Import ZArith NArith List Bool Lia.
From Otto Require Import Common.Corr C07.Spec C07.Model C07.ProofsRefine.
Import ListNotations.
Open Scope Z_scope.

(* the stored property stays well-formed under every redefinition: a getter/setter pair is never
   stored under a data mode (the state in which fromPropertyDescriptor would panic) *)
Opaque val_eqb ogs_eqb.
Theorem define_existing_wf : forall p d p',
  wf_prop p -> wf_desc d -> m_define_existing p d = DOk p' -> wf_prop p'.
Proof.
  intros [[v|g0 s0] m] [dpv dmode] p' [Hm Hw] [Hd Hshape] H;
  cbn [dm dp sm sp] in Hm, Hw, Hd, Hshape.
  - split_valid Hm; subst m; split_valid Hd; subst dmode;
    (destruct dpv as [|v'|g s];
     [ | | destruct g as [| |fg]; destruct s as [| |fs]; try contradiction;
           try (cbv in Hshape; discriminate) ]);
    cbv in H; try discriminate;
    try (destruct (val_eqb v v'); try discriminate);
    inversion H; subst; (split; [ apply valid_b; reflexivity | cbv; try reflexivity; exact I ]).
  - split_valid Hm; subst m; try (cbv in Hw; discriminate);
    split_valid Hd; subst dmode;
    (destruct dpv as [|v'|g s];
     [ | | destruct g as [| |fg]; destruct s as [| |fs]; try contradiction;
           try (cbv in Hshape; discriminate) ]);
    cbv in H; try discriminate;
    repeat match type of H with
           | context [match ?x with _ => _ end] => destruct x
           end; try discriminate;
    inversion H; subst; (split; [ apply valid_b; reflexivity | cbv; try reflexivity; exact I ]).
Qed.
Transparent val_eqb ogs_eqb.

Theorem define_new_wf : forall d, wf_desc d -> wf_prop (m_define_new d).
Proof.
  intros [dpv dmode] [Hd Hshape]. cbn [dm dp] in Hd, Hshape.
  split_valid Hd; subst dmode;
    (destruct dpv as [|v'|g s];
     [ | | destruct g as [| |fg]; destruct s as [| |fs]; try contradiction;
           try (cbv in Hshape; discriminate) ]);
    (split; [ apply valid_b; reflexivity | cbv; try reflexivity; exact I ]).
Qed.

(* fromPropertyDescriptor (Object.getOwnPropertyDescriptor) on a well-formed stored property never
   panics and reports exactly the ES5 descriptor of the abstracted property - also for an accessor
   whose getter and setter are both undefined *)
Theorem obs_desc_refines : forall p, wf_prop p ->
  m_obs_desc (Some p) = Some (obs_desc (Some (abs_prop p))).
Proof.
  intros [[v|g0 s0] m] [Hm Hw]; cbn [sm sp] in Hm, Hw.
  - split_valid Hm; subst m; reflexivity.
  - split_valid Hm; subst m; try (cbv in Hw; discriminate); reflexivity.
Qed.

(* ---------- for-in whose body deletes: over one object no name is visited twice and every
   visited name is an own property at the moment of its visit ---------- *)
Inductive sub : list Z -> list Z -> Prop :=
| sub_nil : sub [] []
| sub_skip : forall x l1 l2, sub l1 l2 -> sub l1 (x :: l2)
| sub_take : forall x l1 l2, sub l1 l2 -> sub (x :: l1) (x :: l2).

Lemma sub_in l1 l2 : sub l1 l2 -> forall x, In x l1 -> In x l2.
Proof. induction 1; cbn; intros y Hy; auto. destruct Hy; auto. Qed.

Lemma sub_nodup l1 l2 : sub l1 l2 -> NoDup l2 -> NoDup l1.
Proof.
  induction 1; intro N; auto; inversion N; subst; auto.
  constructor; auto. intro Hin. apply H2. eapply sub_in; eauto.
Qed.

Lemma forin_obj_sub order : forall h cur at_n a2 del_n visited,
  exists vs, snd (m_forin_obj order h cur at_n a2 del_n visited) = visited ++ vs /\ sub vs order.
Proof.
  induction order as [|name rest IH]; intros; cbn.
  - exists []. rewrite app_nil_r. split; auto. constructor.
  - destruct (lookup (m_props (nth cur h mempty)) name) as [p|].
    + destruct (enumerable (sm p)).
      * cbv zeta.
        match goal with |- context [m_forin_obj rest ?h' cur at_n a2 del_n (visited ++ [name])] =>
          destruct (IH h' cur at_n a2 del_n (visited ++ [name])) as (vs & E & S) end.
        exists (name :: vs). rewrite E, <- app_assoc. split; auto. apply sub_take; auto.
      * destruct (IH h cur at_n a2 del_n visited) as (vs & E & S). exists vs. split; auto. apply sub_skip; auto.
    + destruct (IH h cur at_n a2 del_n visited) as (vs & E & S). exists vs. split; auto. apply sub_skip; auto.
Qed.

Theorem forin_delete_nodup : forall h cur o at_n a2 del_n,
  nth_error h cur = Some o -> m_proto o = None -> NoDup (m_own_names o) ->
  NoDup (snd (m_forin_del (length h) h cur at_n a2 del_n [])) /\
  forall n, In n (snd (m_forin_del (length h) h cur at_n a2 del_n [])) -> In n (m_own_names o).
Proof.
  intros h cur o at_n a2 del_n Ho Hp N.
  destruct h as [|o0 h']; [destruct cur; discriminate|].
  cbn [length m_forin_del]. rewrite Ho.
  destruct (forin_obj_sub (m_own_names o) (o0 :: h') cur at_n a2 del_n []) as (vs & E & S).
  destruct (m_forin_obj (m_own_names o) (o0 :: h') cur at_n a2 del_n []) as [h2 vis] eqn:W.
  cbn in E. subst vis. rewrite Hp. cbn. split.
  - eapply sub_nodup; eauto.
  - intros n Hin. eapply sub_in; eauto.
Qed.

(* otto's for-in loop is complete: every enumerable property that [[GetProperty]] finds from the
   enumerated object is visited, whichever member of the prototype chain holds it (in particular
   Object.prototype at the end of the chain) *)
Lemma m_lookup_in (l : list (Z * mprop)) n p : lookup l n = Some p -> In (n, p) l.
Proof.
  induction l as [|[k q] l IH]; cbn; [discriminate|].
  destruct (k =? n) eqn:E; intro H; [apply Z.eqb_eq in E; inversion H; subst; auto | auto].
Qed.

Theorem m_forin_complete : forall fuel h a n p,
  m_get_property fuel h a n = Some p -> enumerable (sm p) = true -> In n (m_forin fuel h a).
Proof.
  induction fuel as [|k IH]; intros h a n p G E; cbn in *; [discriminate|].
  destruct (nth_error h a) as [o|]; [|discriminate].
  destruct (lookup (m_props o) n) as [q|] eqn:L.
  - inversion G; subst q. apply in_app_iff. left. unfold m_own_keys. apply in_map_iff.
    exists (n, p). split; auto. apply filter_In. split; [apply m_lookup_in; auto | exact E].
  - destruct (m_proto o) as [pa|]; [|discriminate]. apply in_app_iff. right. eapply IH; eauto.
Qed.
