(* C07 proofs, part 1: otto's octal-mode [[DefineOwnProperty]] refines ES5 8.12.9 *)
From Coq Require Import ZArith NArith List Bool Lia.
From Otto Require Import Common.Corr C07.Spec C07.Model.
Import ListNotations.
Open Scope Z_scope.

(* ---------- abstraction: octal modes to attribute records ---------- *)
Definition wdig (m : mode) : N := N.land (N.shiftr m 6) 7.
Definition edig (m : mode) : N := N.land (N.shiftr m 3) 7.
Definition cdig (m : mode) : N := N.land m 7.
Definition tri (dig : N) : option bool :=
  if N.eqb dig 0 then Some false else if N.eqb dig 1 then Some true else None.

Definition digits : list N := [0; 1; 2]%N.
Definition valid_modes : list N :=
  flat_map (fun w => flat_map (fun e => map (fun c => w * 64 + e * 8 + c)%N digits) digits) digits.
Definition valid (m : mode) : Prop := In m valid_modes.

Definition abs_prop (p : mprop) : prop :=
  match sp p with
  | SVal v => PData v (writable (sm p)) (enumerable (sm p)) (configurable (sm p))
  | SGetSet g s => PAcc g s (enumerable (sm p)) (configurable (sm p))
  end.

Definition abs_slot (g : gslot) : option (option Z) :=
  match g with SAbsent => None | SUndef => Some None | SFn f => Some (Some f) end.
Definition abs_desc (d : mdesc) : desc :=
  mkD (match dp d with DVal v => Some v | _ => None end)
      (tri (wdig (dm d)))
      (match dp d with DGetSet g _ => abs_slot g | _ => None end)
      (match dp d with DGetSet _ s => abs_slot s | _ => None end)
      (tri (edig (dm d))) (tri (cdig (dm d))).

Definition abs_res (p : mprop) (r : dres) : option prop :=
  match r with DOk p' => Some (abs_prop p') | DUnchanged => Some (abs_prop p) | DReject => None end.

(* well-formed stored properties and descriptors: what toPropertyDescriptor produces and what
   objectDefineOwnProperty stores (C07_mode_reachable) *)
Definition wf_prop (p : mprop) : Prop :=
  valid (sm p) /\ match sp p with SGetSet _ _ => wdig (sm p) = 2%N | SVal _ => True end.
Definition wf_desc (d : mdesc) : Prop :=
  valid (dm d) /\ match dp d with
                  | DGetSet SAbsent SAbsent => False
                  | DGetSet _ _ => wdig (dm d) = 2%N
                  | _ => True
                  end.

Lemma valid_b : forall m, existsb (N.eqb m) valid_modes = true -> valid m.
Proof.
  intros m H. apply existsb_exists in H. destruct H as [x [Hin Heq]].
  apply N.eqb_eq in Heq. subst. exact Hin.
Qed.

(* ---------- toPropertyDescriptor = 8.10.5 ---------- *)
Lemma to_mdesc_refines : forall r, option_map abs_desc (to_mdesc r) = to_desc r.
Proof.
  intros [v w g s e c].
  destruct v as [v|]; destruct w as [[|]|]; destruct g as [| |f|]; destruct s as [| |f'|];
    destruct e as [[|]|]; destruct c as [[|]|]; reflexivity.
Qed.

Lemma to_mdesc_wf : forall r d, to_mdesc r = Some d -> wf_desc d.
Proof.
  intros [v w g s e c] d.
  destruct v as [v|]; destruct w as [[|]|]; destruct g as [| |f|]; destruct s as [| |f'|];
    destruct e as [[|]|]; destruct c as [[|]|]; cbv; intro H; inversion H; subst; clear H;
    (split; [ apply valid_b; reflexivity | try reflexivity; try exact I ]).
Qed.

(* ---------- the redefinition ---------- *)
Ltac split_valid H :=
  unfold valid, valid_modes in H; cbn in H;
  repeat (destruct H as [H | H]; [ | ]); try contradiction.

Opaque val_eqb ogs_eqb.

Lemma define_existing_refines_data : forall v m dpv dmode,
  valid m -> wf_desc (mkMD dpv dmode) ->
  abs_res (mkMP (SVal v) m) (m_define_existing (mkMP (SVal v) m) (mkMD dpv dmode))
  = define_existing (abs_prop (mkMP (SVal v) m)) (abs_desc (mkMD dpv dmode)).
Proof.
  intros v m dpv dmode Hm [Hd Hshape].
  cbn [dm dp] in Hd, Hshape.
  split_valid Hm; subst m; split_valid Hd; subst dmode;
    (destruct dpv as [|v'|g s];
     [ | | destruct g as [| |fg]; destruct s as [| |fs]; try contradiction;
           try (cbv in Hshape; discriminate) ]);
    cbv;
    try reflexivity;
    try (destruct (val_eqb v v'); reflexivity).
Qed.

Lemma define_existing_refines_acc : forall g0 s0 m dpv dmode,
  wf_prop (mkMP (SGetSet g0 s0) m) -> wf_desc (mkMD dpv dmode) ->
  abs_res (mkMP (SGetSet g0 s0) m) (m_define_existing (mkMP (SGetSet g0 s0) m) (mkMD dpv dmode))
  = define_existing (abs_prop (mkMP (SGetSet g0 s0) m)) (abs_desc (mkMD dpv dmode)).
Proof.
  intros g0 s0 m dpv dmode [Hm Hw] [Hd Hshape].
  cbn [dm dp sm sp] in Hm, Hw, Hd, Hshape.
  split_valid Hm; subst m; try (cbv in Hw; discriminate);
  split_valid Hd; subst dmode;
    (destruct dpv as [|v'|g s];
     [ | | destruct g as [| |fg]; destruct s as [| |fs]; try contradiction;
           try (cbv in Hshape; discriminate) ]);
    cbv;
    try reflexivity;
    repeat match goal with
           | |- context [ogs_eqb ?a ?b] => destruct (ogs_eqb a b)
           end; try reflexivity;
    destruct g0; destruct s0; reflexivity.
Qed.

Transparent val_eqb ogs_eqb.

(* objectDefineOwnProperty on an existing property is 8.12.9 steps 5-13: every stored property,
   every descriptor, no exception *)
Theorem define_existing_refines : forall p d,
  wf_prop p -> wf_desc d ->
  abs_res p (m_define_existing p d) = define_existing (abs_prop p) (abs_desc d).
Proof.
  intros [[v|g0 s0] m] [dpv dmode] Hp Hd.
  - apply define_existing_refines_data; auto. exact (proj1 Hp).
  - apply define_existing_refines_acc; auto.
Qed.

(* a new property: writeProperty(name, descriptor.value, descriptor.mode) is 8.12.9 step 4 *)
Theorem define_new_refines : forall d, wf_desc d -> abs_prop (m_define_new d) = define_new (abs_desc d).
Proof.
  intros [dpv dmode] [Hd Hshape]. cbn [dm dp] in Hd, Hshape.
  split_valid Hd; subst dmode;
    (destruct dpv as [|v'|g s];
     [ | | destruct g as [| |fg]; destruct s as [| |fs]; try contradiction;
           try (cbv in Hshape; discriminate) ]); reflexivity.
Qed.
