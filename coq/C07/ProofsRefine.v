(* C07 proofs, part 1: otto's octal-mode [[DefineOwnProperty]] refines ES5 8.12.9 *)
From Coq Require Import ZArith NArith List Bool Lia.
From Otto Require Import Common.Corr C07.Spec C07.Model.
Import ListNotations.
Open Scope Z_scope.

(* ---------- abstraction: octal modes to attribute records ---------- *)
Definition wdig (m : mode) : N := N.land (N.shiftr m 6) 7.
Definition edig (m : mode) : N := N.land (N.shiftr m 3) 7.
Definition cdig (m : mode) : N := N.land m 7.
Definition tri (dig : N) : option bool :=
  if N.eqb dig 0 then Some false else if N.eqb dig 1 then Some true else None.

Definition digits : list N := [0; 1; 2]%N.
Definition valid_modes : list N :=
  flat_map (fun w => flat_map (fun e => map (fun c => w * 64 + e * 8 + c)%N digits) digits) digits.
Definition valid (m : mode) : Prop := In m valid_modes.

Definition abs_prop (p : mprop) : prop :=
  match sp p with
  | SVal v => PData v (writable (sm p)) (enumerable (sm p)) (configurable (sm p))
  | SGetSet g s => PAcc g s (enumerable (sm p)) (configurable (sm p))
  end.

Definition abs_slot (g : gslot) : option (option Z) :=
  match g with SAbsent => None | SUndef => Some None | SFn f => Some (Some f) end.
Definition abs_desc (d : mdesc) : desc :=
  mkD (match dp d with DVal v => Some v | _ => None end)
      (tri (wdig (dm d)))
      (match dp d with DGetSet g _ => abs_slot g | _ => None end)
      (match dp d with DGetSet _ s => abs_slot s | _ => None end)
      (tri (edig (dm d))) (tri (cdig (dm d))).

Definition abs_res (p : mprop) (r : dres) : option prop :=
  match r with DOk p' => Some (abs_prop p') | DUnchanged => Some (abs_prop p) | DReject => None end.

(* well-formed stored properties and descriptors: what toPropertyDescriptor produces and what
   objectDefineOwnProperty stores outside the acc-to-data defect *)
Definition wf_prop (p : mprop) : Prop :=
  valid (sm p) /\ match sp p with SGetSet _ _ => wdig (sm p) = 2%N | SVal _ => True end.
Definition wf_desc (d : mdesc) : Prop :=
  valid (dm d) /\ match dp d with
                  | DGetSet SAbsent SAbsent => False
                  | DGetSet _ _ => wdig (dm d) = 2%N
                  | _ => True
                  end.

(* the two defect classes of a single redefinition *)
Definition loses_writable (p : mprop) (d : mdesc) : bool :=
  match sp p with
  | SVal _ => d_isGeneric d && writable (sm p)
  | _ => false
  end.
Definition acc_to_data_no_value (p : mprop) (d : mdesc) : bool :=
  match sp p, dp d with
  | SGetSet _ _, DNone => writeSet (dm d)
  | _, _ => false
  end.

Lemma valid_b : forall m, existsb (N.eqb m) valid_modes = true -> valid m.
Proof.
  intros m H. apply existsb_exists in H. destruct H as [x [Hin Heq]].
  apply N.eqb_eq in Heq. subst. exact Hin.
Qed.

(* ---------- toPropertyDescriptor = 8.10.5 ---------- *)
Lemma to_mdesc_refines : forall r, option_map abs_desc (to_mdesc r) = to_desc r.
Proof.
  intros [v w g s e c].
  destruct v as [v|]; destruct w as [[|]|]; destruct g as [| |f|]; destruct s as [| |f'|];
    destruct e as [[|]|]; destruct c as [[|]|]; reflexivity.
Qed.

Lemma to_mdesc_wf : forall r d, to_mdesc r = Some d -> wf_desc d.
Proof.
  intros [v w g s e c] d.
  destruct v as [v|]; destruct w as [[|]|]; destruct g as [| |f|]; destruct s as [| |f'|];
    destruct e as [[|]|]; destruct c as [[|]|]; cbv; intro H; inversion H; subst; clear H;
    (split; [ apply valid_b; reflexivity | try reflexivity; try exact I ]).
Qed.

(* ---------- the redefinition ---------- *)
Ltac split_valid H :=
  unfold valid, valid_modes in H; cbn in H;
  repeat (destruct H as [H | H]; [ | ]); try contradiction.

Opaque val_eqb ogs_eqb.

Lemma define_existing_refines_data : forall v m dpv dmode,
  valid m -> wf_desc (mkMD dpv dmode) ->
  loses_writable (mkMP (SVal v) m) (mkMD dpv dmode) = false ->
  abs_res (mkMP (SVal v) m) (m_define_existing nofix (mkMP (SVal v) m) (mkMD dpv dmode))
  = define_existing (abs_prop (mkMP (SVal v) m)) (abs_desc (mkMD dpv dmode)).
Proof.
  intros v m dpv dmode Hm [Hd Hshape] G.
  cbn [dm dp] in Hd, Hshape.
  split_valid Hm; subst m; split_valid Hd; subst dmode;
    (destruct dpv as [|v'|g s];
     [ | | destruct g as [| |fg]; destruct s as [| |fs]; try contradiction;
           try (cbv in Hshape; discriminate) ]);
    cbv in G; try discriminate; cbv;
    try reflexivity;
    try (destruct (val_eqb v v'); reflexivity).
Qed.


Lemma define_existing_refines_acc : forall g0 s0 m dpv dmode,
  wf_prop (mkMP (SGetSet g0 s0) m) -> wf_desc (mkMD dpv dmode) ->
  acc_to_data_no_value (mkMP (SGetSet g0 s0) m) (mkMD dpv dmode) = false ->
  abs_res (mkMP (SGetSet g0 s0) m) (m_define_existing nofix (mkMP (SGetSet g0 s0) m) (mkMD dpv dmode))
  = define_existing (abs_prop (mkMP (SGetSet g0 s0) m)) (abs_desc (mkMD dpv dmode)).
Proof.
  intros g0 s0 m dpv dmode [Hm Hw] [Hd Hshape] G.
  cbn [dm dp sm sp] in Hm, Hw, Hd, Hshape.
  split_valid Hm; subst m; try (cbv in Hw; discriminate);
  split_valid Hd; subst dmode;
    (destruct dpv as [|v'|g s];
     [ | | destruct g as [| |fg]; destruct s as [| |fs]; try contradiction;
           try (cbv in Hshape; discriminate) ]);
    cbv in G; try discriminate; cbv;
    try reflexivity;
    repeat match goal with
           | |- context [ogs_eqb ?a ?b] => destruct (ogs_eqb a b)
           end; try reflexivity;
    destruct g0; destruct s0; reflexivity.
Qed.

Transparent val_eqb ogs_eqb.

Theorem define_existing_refines : forall p d,
  wf_prop p -> wf_desc d ->
  loses_writable p d = false -> acc_to_data_no_value p d = false ->
  abs_res p (m_define_existing nofix p d) = define_existing (abs_prop p) (abs_desc d).
Proof.
  intros [[v|g0 s0] m] [dpv dmode] Hp Hd G1 G2.
  - apply define_existing_refines_data; auto. exact (proj1 Hp).
  - apply define_existing_refines_acc; auto.
Qed.

(* a new property: writeProperty(name, descriptor.value, descriptor.mode) is 8.12.9 step 4 *)
Theorem define_new_refines : forall d, wf_desc d -> abs_prop (m_define_new d) = define_new (abs_desc d).
Proof.
  intros [dpv dmode] [Hd Hshape]. cbn [dm dp] in Hd, Hshape.
  split_valid Hd; subst dmode;
    (destruct dpv as [|v'|g s];
     [ | | destruct g as [| |fg]; destruct s as [| |fs]; try contradiction;
           try (cbv in Hshape; discriminate) ]); reflexivity.
Qed.

(* the stored property stays well-formed: the modes reachable from the initial state *)
Opaque val_eqb ogs_eqb.
Theorem define_existing_wf : forall p d p',
  wf_prop p -> wf_desc d -> acc_to_data_no_value p d = false ->
  m_define_existing nofix p d = DOk p' -> wf_prop p'.
Proof.
  intros [[v|g0 s0] m] [dpv dmode] p' [Hm Hw] [Hd Hshape] G H;
  cbn [dm dp sm sp] in Hm, Hw, Hd, Hshape.
  - split_valid Hm; subst m; split_valid Hd; subst dmode;
    (destruct dpv as [|v'|g s];
     [ | | destruct g as [| |fg]; destruct s as [| |fs]; try contradiction;
           try (cbv in Hshape; discriminate) ]);
    cbv in H; try discriminate;
    try (destruct (val_eqb v v'); try discriminate);
    inversion H; subst; (split; [ apply valid_b; reflexivity | cbv; try reflexivity; exact I ]).
  - split_valid Hm; subst m; try (cbv in Hw; discriminate);
    split_valid Hd; subst dmode;
    (destruct dpv as [|v'|g s];
     [ | | destruct g as [| |fg]; destruct s as [| |fs]; try contradiction;
           try (cbv in Hshape; discriminate) ]);
    cbv in G; try discriminate;
    cbv in H; try discriminate;
    repeat match type of H with
           | context [match ?x with _ => _ end] => destruct x
           end; try discriminate;
    inversion H; subst; (split; [ apply valid_b; reflexivity | cbv; try reflexivity; exact I ]).
Qed.

Transparent val_eqb ogs_eqb.

Theorem define_new_wf : forall d, wf_desc d -> wf_prop (m_define_new d).
Proof.
  intros [dpv dmode] [Hd Hshape]. cbn [dm dp] in Hd, Hshape.
  split_valid Hd; subst dmode;
    (destruct dpv as [|v'|g s];
     [ | | destruct g as [| |fg]; destruct s as [| |fs]; try contradiction;
           try (cbv in Hshape; discriminate) ]);
    (split; [ apply valid_b; reflexivity | cbv; try reflexivity; exact I ]).
Qed.

(* ---------- the defects, as refutations with witnesses ---------- *)
Definition data_111 (v : val) : mprop := mkMP (SVal v) 73%N.                 (* {value:v, w e c all true} *)

Lemma generic_writable_refuted :
  exists p d, wf_prop p /\ wf_desc d /\
    abs_res p (m_define_existing nofix p d) <> define_existing (abs_prop p) (abs_desc d).
Proof.
  exists (data_111 (VNum 1)), (mkMD DNone 130%N).                            (* {enumerable:false} = 0o202 *)
  split; [ split; [ apply valid_b; reflexivity | exact I ] | split; [ split; [ apply valid_b; reflexivity | exact I ] | ] ].
  vm_compute. discriminate.
Qed.

Lemma accessor_to_data_no_value_refuted :
  exists p d, wf_prop p /\ wf_desc d /\ m_define_existing nofix p d = DOk (mkMP (SGetSet (Some 0) None) 65%N)
    /\ m_obs_desc nofix (Some (mkMP (SGetSet (Some 0) None) 65%N)) = None
    /\ define_existing (abs_prop p) (abs_desc d) = Some (PData VUndef true false true).
Proof.
  exists (mkMP (SGetSet (Some 0) None) 129%N), (mkMD DNone 82%N).             (* 0o201; {writable:true} = 0o122 *)
  split; [ split; [ apply valid_b; reflexivity | reflexivity ] | split; [ split; [ apply valid_b; reflexivity | exact I ] | ] ].
  vm_compute. auto.
Qed.

Lemma get_undefined_pair_refuted :
  exists r d, to_mdesc r = Some d /\
    m_obs_desc nofix (Some (m_define_new d)) <> Some (obs_desc (Some (define_new (abs_desc d)))).
Proof.
  exists (mkR None None GUndef GAbsent None None). eexists. split; [ reflexivity | ].
  vm_compute. discriminate.
Qed.

