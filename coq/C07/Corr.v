(* correspondence cases for C07: a history of object-model operations and what
   the script observed on the real interpreter after every operation, judged
   against Model (otto's algorithm) and Spec (ES5 8.12 / 15.2.3) *)
From Coq Require Import ZArith Bool List.
From Otto Require Export C07.Spec.
From Otto Require Import Common.Corr C07.Model.
Import ListNotations.
Open Scope Z_scope.

Inductive case :=
| CHist (ops : list op) (obs : list (list Z))
(* prefix, then vm2 := vm.Copy(), then operations on either runtime, both observed after each *)
| CFork (prefix : list op) (ops : list (bool * op)) (obs : list (list Z)).

Definition llz_eqb := list_eqb zlist_eqb.

(* the modelled domain: three variables plus Object.prototype, four names; a for-in whose body deletes
   is only judged where 12.6.4 is unambiguous (the deleted name occurs on at most
   one object of the enumerated chain) *)
(* variables 0..2 can be re-bound, frozen, sealed; variable 3 is Object.prototype: properties may be
   defined, assigned, deleted on it and objects created from it, but it stays extensible (its
   built-in members are not modelled, so isSealed/isFrozen of it would not be either) *)
Definition slot_ok (i : nat) : bool := Nat.ltb i 3.
Definition slot4_ok (i : nat) : bool := Nat.ltb i 4.
Definition name_ok (n : Z) : bool := (0 <=? n) && (n <? 4).
Definition entries_ok (l : list (Z * rdesc)) : bool :=
  forallb (fun e => name_ok (fst e)) l && negb (has_dup (map fst l)).

Definition op_ok (s : state) (o : op) : bool :=
  match o with
  | ODefine i n _ => slot4_ok i && name_ok n
  | ODefines i l => slot4_ok i && entries_ok l
  | OCreate i p l => slot_ok i && match p with Some j => slot4_ok j | None => true end && entries_ok (odef l [])
  | OPut i n _ | ODelete i n => slot4_ok i && name_ok n
  | OFreeze i | OSeal i | OPrevent i => slot_ok i
  | OForInDel i at_n i2 del_n =>
      slot4_ok i && slot4_ok i2 && name_ok at_n && name_ok del_n &&
      let h := s_heap s in
      (length (filter (fun b => match lookup (o_props (nth b h empty_obj)) del_n with Some _ => true | None => false end)
                      (chain_of (length h) h (var s i))) <=? 1)%nat
  end.

Fixpoint ops_ok (s : state) (ops : list op) : bool :=
  match ops with
  | [] => true
  | o :: ops' => op_ok s o && ops_ok (fst (step s o)) ops'
  end.

(* finding classes = the tag of the first open deviation the model meets:
   2 for-in ignores shadowing, 5 defineProperties converts and defines entry by entry
   (1, 3, 4, 6 were repaired in /repo and are no longer accepted) *)
Fixpoint fork_ok (sa sb : state) (ops : list (bool * op)) : bool :=
  match ops with
  | [] => true
  | (side, o) :: ops' =>
      let s := if side then sb else sa in
      let s' := fst (step s o) in
      op_ok s o && fork_ok (if side then sa else s') (if side then s' else sb) ops'
  end.

Definition verdict (c : case) : Z * Z :=
  match c with
  | CHist ops obs =>
      if negb (ops_ok init ops) then declined
      else let '(m, tag) := mrun minit ops in judge llz_eqb obs m (run init ops) tag
  | CFork prefix ops obs =>
      let s := exec init prefix in
      if negb (ops_ok init prefix && fork_ok s s ops) then declined
      else let '(m, tag) := mrun_fork prefix ops in judge llz_eqb obs m (run_fork prefix ops) tag
  end.
