(* string comparison: calculateLessThan's loop over UTF-16 code units is the
   comparison of 11.8.5 step 4 (since /repo commit b6ed2ef; before it otto compared
   UTF-8 bytes, i.e. code points) *)
From Coq Require Import ZArith Bool List Lia.
From Otto Require Import Common.Double Common.Corr C05.Fp C05.Spec C05.Model.
Import ListNotations.
Open Scope Z_scope.

Theorem str_lt_is_units_lt : forall a b, m_str_lt a b = units_lt a b.
Proof.
  unfold m_str_lt.
  induction a as [|x a IH]; intros b.
  - destruct b; reflexivity.
  - destruct b as [|y b]; [reflexivity|].
    cbn [skip_common units_lt].
    destruct (Z.eqb_spec x y) as [->|Hne].
    + rewrite Z.ltb_irrefl. apply IH.
    + destruct (Z.ltb_spec x y); [reflexivity|].
      destruct (Z.ltb_spec y x); [reflexivity | lia].
Qed.
