(* string comparison: Go's byte-wise < on UTF-8 is code-point order, which is
   UTF-16 code-unit order on strings without surrogate pairs *)
From Coq Require Import ZArith Bool List Lia Zify.
From Otto Require Import Common.Double Common.Corr C05.Fp C05.Spec C05.Model.
Import ListNotations.
Open Scope Z_scope.
Ltac Zify.zify_post_hook ::= Z.div_mod_to_equations.

Definition cp_valid (c : Z) : Prop := 0 <= c <= 0x10FFFF.

Ltac ltb_crush :=
  repeat match goal with
         | |- context [?x <? ?y] => destruct (Z.ltb_spec x y)
         end;
  try reflexivity; try (exfalso; lia).

Lemma utf8_cp_lt : forall c d ra rb, 0 <= c -> c < d -> d <= 0x10FFFF ->
  units_lt (utf8_of_cp c ++ ra) (utf8_of_cp d ++ rb) = true.
Proof.
  intros c d ra rb H0 H1 H2. unfold utf8_of_cp.
  destruct (Z.ltb_spec c 128); destruct (Z.ltb_spec c 2048); destruct (Z.ltb_spec c 65536); try (exfalso; lia);
  destruct (Z.ltb_spec d 128); destruct (Z.ltb_spec d 2048); destruct (Z.ltb_spec d 65536); try (exfalso; lia);
  cbn [app units_lt]; ltb_crush.
Qed.

Lemma utf8_cp_gt : forall c d ra rb, 0 <= d -> d < c -> c <= 0x10FFFF ->
  units_lt (utf8_of_cp c ++ ra) (utf8_of_cp d ++ rb) = false.
Proof.
  intros c d ra rb H0 H1 H2. unfold utf8_of_cp.
  destruct (Z.ltb_spec c 128); destruct (Z.ltb_spec c 2048); destruct (Z.ltb_spec c 65536); try (exfalso; lia);
  destruct (Z.ltb_spec d 128); destruct (Z.ltb_spec d 2048); destruct (Z.ltb_spec d 65536); try (exfalso; lia);
  cbn [app units_lt]; ltb_crush.
Qed.

Lemma units_lt_prefix : forall p a b, units_lt (p ++ a) (p ++ b) = units_lt a b.
Proof.
  induction p as [|x p IH]; intros a b; [reflexivity|].
  cbn [app units_lt]. rewrite Z.ltb_irrefl. apply IH.
Qed.

Lemma utf8_of_cp_nonempty : forall c r, exists x t, utf8_of_cp c ++ r = x :: t.
Proof.
  intros c r. unfold utf8_of_cp.
  destruct (c <? 128); [|destruct (c <? 2048); [|destruct (c <? 65536)]]; cbn [app]; eauto.
Qed.

Theorem utf8_order_is_codepoint_order : forall a b,
  Forall cp_valid a -> Forall cp_valid b -> units_lt (utf8 a) (utf8 b) = units_lt a b.
Proof.
  induction a as [|c a IH]; intros b Ha Hb.
  - destruct b as [|d b]; [reflexivity|].
    unfold utf8. cbn [flat_map]. destruct (utf8_of_cp_nonempty d (flat_map utf8_of_cp b)) as [x [t E]].
    rewrite E. reflexivity.
  - destruct b as [|d b].
    + unfold utf8. cbn [flat_map]. destruct (utf8_of_cp_nonempty c (flat_map utf8_of_cp a)) as [x [t E]].
      rewrite E. reflexivity.
    + inversion Ha as [|? ? Hc Ha']; inversion Hb as [|? ? Hd Hb']; subst. unfold cp_valid in Hc, Hd.
      unfold utf8. cbn [flat_map units_lt].
      destruct (Z.ltb_spec c d).
      * apply utf8_cp_lt; lia.
      * destruct (Z.ltb_spec d c).
        -- apply utf8_cp_gt; lia.
        -- assert (c = d) by lia. subst d. rewrite units_lt_prefix. apply IH; assumption.
Qed.

(* strings without a high surrogate are their own code-point sequence *)
Definition no_high (c : Z) : Prop := 0 <= c <= 0xFFFF /\ (c < 0xD800 \/ 0xDBFF < c).

Lemma code_points_id : forall l, Forall no_high l -> code_points l = l.
Proof.
  induction l as [|h l IH]; intro H; [reflexivity|].
  inversion H as [|? ? [Hr Hh] Hl]; subst. cbn [code_points].
  destruct (Z.leb_spec 0xD800 h); destruct (Z.leb_spec h 0xDBFF); cbn [andb]; try (exfalso; lia);
    rewrite (IH Hl); reflexivity.
Qed.

Lemma no_high_valid : forall l, Forall no_high l -> Forall cp_valid l.
Proof. intros l H. eapply Forall_impl; [|exact H]. intros c [Hr _]. unfold cp_valid. lia. Qed.

Theorem str_lt_bmp : forall a b, Forall no_high a -> Forall no_high b -> m_str_lt a b = units_lt a b.
Proof.
  intros a b Ha Hb. unfold m_str_lt. rewrite (code_points_id a Ha), (code_points_id b Hb).
  apply utf8_order_is_codepoint_order; apply no_high_valid; assumption.
Qed.

(* in general otto's order is the code-point order of the decoded strings *)
Definition unit_ok (u : Z) : Prop := 0 <= u <= 0xFFFF.

Lemma code_points_valid : forall n l, (length l <= n)%nat -> Forall unit_ok l -> Forall cp_valid (code_points l).
Proof.
  induction n as [|n IH]; intros l Hlen Hl.
  - destruct l; [constructor | cbn in Hlen; lia].
  - destruct l as [|h l]; [constructor|].
    inversion Hl as [|? ? Hh Hl']; subst. unfold unit_ok in Hh. cbn [code_points]. cbn [length] in Hlen.
    destruct (Z.leb_spec 0xD800 h); destruct (Z.leb_spec h 0xDBFF); cbn [andb].
    + destruct l as [|lo l2].
      * constructor; [unfold cp_valid; lia | constructor].
      * inversion Hl' as [|? ? Hlo Hl2]; subst. unfold unit_ok in Hlo. cbn [length] in Hlen.
        destruct (Z.leb_spec 0xDC00 lo); destruct (Z.leb_spec lo 0xDFFF); cbn [andb].
        -- constructor; [unfold cp_valid; lia | apply IH; [lia | assumption]].
        -- constructor; [unfold cp_valid; lia | apply IH; [cbn [length]; lia | assumption]].
        -- constructor; [unfold cp_valid; lia | apply IH; [cbn [length]; lia | assumption]].
        -- constructor; [unfold cp_valid; lia | apply IH; [cbn [length]; lia | assumption]].
    + constructor; [unfold cp_valid; lia | apply IH; [lia | assumption]].
    + constructor; [unfold cp_valid; lia | apply IH; [lia | assumption]].
    + constructor; [unfold cp_valid; lia | apply IH; [lia | assumption]].
Qed.

Theorem str_lt_is_codepoint_order : forall a b, Forall unit_ok a -> Forall unit_ok b ->
  m_str_lt a b = units_lt (code_points a) (code_points b).
Proof.
  intros a b Ha Hb. unfold m_str_lt.
  apply utf8_order_is_codepoint_order; eapply code_points_valid; eauto.
Qed.
