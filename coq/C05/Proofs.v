(* lemmas for C05 *)
From Coq Require Import ZArith Bool List Lia Zify.
From Otto Require Import Common.Double Common.Corr C05.Fp C05.Spec C05.Model C05.Eval.
Import ListNotations.
Open Scope Z_scope.
Ltac Zify.zify_post_hook ::= Z.div_mod_to_equations.

(* ---------- two's complement wrapping ---------- *)

Lemma wrap_s32_spec : forall n,
  wrap_s 32 n = (let k := n mod 2 ^ 32 in if 2 ^ 31 <=? k then k - 2 ^ 32 else k).
Proof.
  intro n. unfold wrap_s. cbv zeta.
  change (2 ^ (32 - 1)) with 2147483648. change (2 ^ 32) with 4294967296. change (2 ^ 31) with 2147483648.
  pose proof (Z.div_mod n 4294967296 ltac:(lia)) as Hdm.
  pose proof (Z.mod_pos_bound n 4294967296 ltac:(lia)) as Hb.
  set (q := n / 4294967296) in *. set (k := n mod 4294967296) in *.
  destruct (Z.leb_spec 2147483648 k).
  - assert (E : (n + 2147483648) mod 4294967296 = k - 2147483648).
    { symmetry. apply (Z.mod_unique _ _ (q + 1)); lia. }
    rewrite E. lia.
  - assert (E : (n + 2147483648) mod 4294967296 = k + 2147483648).
    { symmetry. apply (Z.mod_unique _ _ q); lia. }
    rewrite E. lia.
Qed.

Lemma trunc_mag_zero : forall e, trunc_mag 0 e = 0.
Proof. intro e. unfold trunc_mag. destruct (0 <=? e); [reflexivity | apply Zdiv_0_l]. Qed.

Lemma nan_inf_zero_pos_int : forall d, nan_inf_zero d = true -> pos_int d = 0.
Proof.
  intros d. unfold nan_inf_zero, pos_int, trunc_int. destruct (decode d) as [|neg|neg m e]; try reflexivity.
  intro H. apply Z.eqb_eq in H. subst m. rewrite trunc_mag_zero. destruct neg; reflexivity.
Qed.

(* the truncating remainder is congruent to its dividend *)
Lemma rem_mod_mul : forall n c k, 0 < k -> 0 < c -> (Z.rem n (c * k)) mod k = n mod k.
Proof.
  intros n c k Hk Hc.
  pose proof (Z.quot_rem' n (c * k)) as H.
  rewrite H at 2.
  replace (c * k * (n ÷ (c * k)) + Z.rem n (c * k)) with (Z.rem n (c * k) + (c * (n ÷ (c * k))) * k) by ring.
  rewrite Z_mod_plus_full. reflexivity.
Qed.

Lemma rem_mod : forall n k, 0 < k -> (Z.rem n k) mod k = n mod k.
Proof. intros n k Hk. pose proof (rem_mod_mul n 1 k Hk ltac:(lia)) as H. rewrite Z.mul_1_l in H. exact H. Qed.

(* 9.5: on every bit pattern *)
Theorem m_to_int32_correct : forall d, m_to_int32 d = to_int32 d.
Proof.
  intros d. unfold m_to_int32, to_int32.
  destruct (nan_inf_zero d) eqn:E.
  - rewrite (nan_inf_zero_pos_int d E). reflexivity.
  - unfold go_mod32_int64. rewrite wrap_s32_spec. cbv zeta. rewrite (rem_mod (pos_int d) (2 ^ 32)) by reflexivity. reflexivity.
Qed.

Theorem m_to_uint32_correct : forall d, m_to_uint32 d = to_uint32 d.
Proof.
  intros d. unfold m_to_uint32, to_uint32.
  destruct (nan_inf_zero d) eqn:E.
  - rewrite (nan_inf_zero_pos_int d E). reflexivity.
  - unfold go_mod32_int64, wrap_u. apply rem_mod. reflexivity.
Qed.

Theorem m_to_uint16_correct : forall d, m_to_uint16 d = to_uint16 d.
Proof.
  intros d. unfold m_to_uint16, to_uint16.
  destruct (nan_inf_zero d) eqn:E.
  - rewrite (nan_inf_zero_pos_int d E). reflexivity.
  - unfold go_mod32_int64, wrap_u. change (2 ^ 32) with (2 ^ 16 * 2 ^ 16). apply rem_mod_mul; reflexivity.
Qed.

(* the ES5 results are the residues 9.5-9.7 ask for *)
Theorem to_int32_char : forall d,
  - 2 ^ 31 <= to_int32 d < 2 ^ 31 /\ (to_int32 d - pos_int d) mod 2 ^ 32 = 0.
Proof.
  intro d. unfold to_int32. cbv zeta.
  change (2 ^ 32) with 4294967296. change (2 ^ 31) with 2147483648.
  destruct (Z.leb_spec 2147483648 (pos_int d mod 4294967296)); lia.
Qed.

Theorem to_uint32_char : forall d,
  0 <= to_uint32 d < 2 ^ 32 /\ (to_uint32 d - pos_int d) mod 2 ^ 32 = 0.
Proof. intro d. unfold to_uint32. change (2 ^ 32) with 4294967296. lia. Qed.

Theorem to_uint16_char : forall d,
  0 <= to_uint16 d < 2 ^ 16 /\ (to_uint16 d - pos_int d) mod 2 ^ 16 = 0.
Proof. intro d. unfold to_uint16. change (2 ^ 16) with 65536. lia. Qed.

(* ---------- 9.2 ToBoolean, 11.4.3 typeof ---------- *)

Theorem to_boolean_false_iff : forall p,
  to_boolean p = false <->
  (p = PUndef \/ p = PNull \/ p = PBool false \/ p = PStr [] \/
   exists d, p = PNum d /\ (is_nan d = true \/ is_zero d = true)).
Proof.
  intro p; split.
  - destruct p as [| |b|d|s]; cbn [to_boolean]; intro H; auto.
    + destruct b; [discriminate | auto].
    + right; right; right; right. exists d; split; [reflexivity|].
      apply negb_false_iff in H. apply orb_true_iff in H. exact H.
    + destruct s; [auto | discriminate].
  - intros [H|[H|[H|[H|[d [H Hd]]]]]]; subst; cbn [to_boolean]; try reflexivity.
    apply negb_false_iff. apply orb_true_iff. exact Hd.
Qed.

Theorem typeof_table : forall v,
  typeof_v v = match v with
               | VP PUndef => s_undefined
               | VP PNull => s_object
               | VP (PBool _) => s_boolean
               | VP (PNum _) => s_number
               | VP (PStr _) => s_string
               | VO o => if (o_cls o =? 2) || (o_cls o =? 4) then s_function else s_object
               end.
Proof. intros [[| | | |]|o]; reflexivity. Qed.

(* ---------- monad plumbing ---------- *)

Lemma bind_ext : forall A B (m : M A) (f g : A -> M B) st,
  (forall a st', f a st' = g a st') -> bind m f st = bind m g st.
Proof.
  intros A B m f g st H. unfold bind. destruct (m st) as [[a|t|] st']; [apply H | reflexivity | reflexivity].
Qed.

Lemma feq_nan_guard : forall a b, (if is_nan a || is_nan b then false else feq a b) = feq a b.
Proof. intros a b. unfold feq. destruct (is_nan a || is_nan b); reflexivity. Qed.

(* ---------- 11.9.3: otto's kind-ordered switch computes the abstract equality algorithm ---------- *)

Definition krn (v : value) : nat :=
  match v with
  | VP (PStr _) | VP (PBool _) => 1
  | VP _ => 0
  | VO _ => 2
  end.

Lemma krn_prim : forall p, (krn (VP p) <= 1)%nat.
Proof. intros [| | | |]; cbn; lia. Qed.

Ltac eq_cbn :=
  cbn [to_number_v to_primitive to_number bind ret spec_eq model_eq num
       kind kind_equal_kind Z.eqb Z.leb Z.compare Pos.compare Pos.compare_cont Pos.eqb andb orb].

Theorem model_eq_is_spec_eq : forall d f x y st,
  (krn x + krn y < f)%nat -> model_eq d f x y st = spec_eq d f x y st.
Proof.
  intros d f. induction f as [f IH] using lt_wf_ind. intros x y st Hm.
  destruct f as [|f]; [lia|].
  destruct x as [[| |bx|ax|sx]|ox]; destruct y as [[| |b_y|ay|sy]|oy];
    cbn [model_eq spec_eq kind kind_equal_kind Z.eqb Z.leb Z.compare Pos.compare Pos.compare_cont Pos.eqb andb orb krn] in *;
    try reflexivity;
    try (rewrite feq_nan_guard; reflexivity);
    try (apply bind_ext; intros a st'; apply IH; [lia | pose proof (krn_prim a); cbn [krn] in *; lia]).
  all: cbn [to_number_v to_primitive to_number bind ret num].
  all: try (apply IH; [lia | cbn [krn num] in *; lia]).
  all: try (apply bind_ext; intros a st'; apply IH; [lia | pose proof (krn_prim a); cbn [krn] in *; lia]).
  all: destruct f as [|f']; [cbn [krn] in *; lia|].
  all: eq_cbn; try reflexivity; try (rewrite feq_nan_guard; reflexivity).
  all: try (destruct (d_str2num d _); reflexivity).
  all: try (apply bind_ext; intros a st'; apply IH; [lia | pose proof (krn_prim a); cbn [krn] in *; lia]).
  all: apply bind_ext; intros a st'; destruct f' as [|f'']; [cbn [krn] in *; lia|]; eq_cbn; reflexivity.
Qed.

(* ---------- 11.9.6 strict equality ---------- *)

Theorem model_strict_eq_is_spec : forall x y st,
  model_strict_eq x y st = ret (spec_strict_eq x y) st.
Proof.
  intros x y st.
  destruct x as [[| |bx|ax|sx]|ox]; destruct y as [[| |b_y|ay|sy]|oy];
    cbn [model_strict_eq spec_strict_eq same_type_eq kind kind_equal_kind Z.eqb Pos.eqb];
    try reflexivity.
  rewrite feq_nan_guard. reflexivity.
Qed.

(* ---------- 11.8.5 and 11.8.1-11.8.4: calculateLessThan + lessThanTable ---------- *)

Lemma flt_code : forall a b,
  (if is_nan a || is_nan b then 2 else match flt a b with Some true => 1 | _ => 0 end) =
  match flt a b with Some true => 1 | Some false => 0 | None => 2 end.
Proof. intros a b. unfold flt. destruct (is_nan a || is_nan b); [reflexivity|]. destruct (ord_key a <? ord_key b); reflexivity. Qed.

Ltac rel_step :=
  match goal with
  | |- context [to_primitive ?h ?v ?s] => destruct (to_primitive h v s) as [[?|?|] ?]; try reflexivity
  | |- context [to_number ?d ?p ?s] => destruct (to_number d p s) as [[?|?|] ?]; try reflexivity
  end.

Theorem model_relop_is_spec : forall d op x y st,
  model_relop d op x y st = spec_relop d op x y st.
Proof.
  intros d op x y st. unfold model_relop, spec_relop.
  destruct (op =? 15); [|destruct (op =? 16); [|destruct (op =? 17)]];
    unfold model_less_than, spec_rel, rel_prims, bind, ret;
    repeat rel_step;
    repeat match goal with
           | p : prim |- _ => destruct p
           end;
    unfold less_than_table; cbn [Z.ltb Z.compare Pos.compare Pos.compare_cont];
    repeat rel_step;
    try rewrite flt_code;
    try (match goal with |- context [flt ?a ?b] => destruct (flt a b) as [[|]|] end; reflexivity);
    try (match goal with |- context [d_strlt ?d ?a ?b] => destruct (d_strlt d a b) end; reflexivity).
Qed.

(* ---------- 11.5.2: evaluateDivide's cascade is IEEE division ---------- *)

Lemma decode_sign : forall d, 0 <= d < 2 ^ 64 ->
  negb (d / 2 ^ 63 =? 0) = is_neg d.
Proof.
  intros d H. unfold is_neg. change (2 ^ 63) with 9223372036854775808 in *. change (2 ^ 64) with 18446744073709551616 in *.
  destruct (Z.eqb_spec (d / 9223372036854775808) 0); destruct (Z.leb_spec 9223372036854775808 d); cbn [negb]; try reflexivity; lia.
Qed.

Lemma decode_fin_facts : forall d neg m e, 0 <= d < 2 ^ 64 -> decode d = DFin neg m e ->
  neg = is_neg d /\ (m =? 0) = is_zero d.
Proof.
  intros d neg m e H. unfold decode. rewrite (decode_sign d H).
  unfold is_zero, nzero_bits.
  change (2 ^ 63) with 9223372036854775808 in *. change (2 ^ 64) with 18446744073709551616 in *.
  change (2 ^ 52) with 4503599627370496. change (2 ^ 11) with 2048.
  destruct (Z.eqb_spec ((d / 4503599627370496) mod 2048) 2047).
  - destruct (d mod 4503599627370496 =? 0); discriminate.
  - destruct (Z.eqb_spec ((d / 4503599627370496) mod 2048) 0); intro E; inversion E; subst; split; try reflexivity.
    + destruct (Z.eqb_spec (d mod 4503599627370496) 0); destruct (Z.eqb_spec d 0);
        destruct (Z.eqb_spec d 9223372036854775808); cbn [orb]; try reflexivity; lia.
    + destruct (Z.eqb_spec (d mod 4503599627370496 + 4503599627370496) 0); destruct (Z.eqb_spec d 0);
        destruct (Z.eqb_spec d 9223372036854775808); cbn [orb]; try reflexivity; lia.
Qed.

Lemma decode_inf_sign : forall d neg, 0 <= d < 2 ^ 64 -> decode d = DInf neg -> neg = is_neg d.
Proof.
  intros d neg H. unfold decode. rewrite (decode_sign d H).
  destruct ((d / 2 ^ 52) mod 2 ^ 11 =? 2047).
  - destruct (d mod 2 ^ 52 =? 0); intro E; inversion E; reflexivity.
  - destruct ((d / 2 ^ 52) mod 2 ^ 11 =? 0); discriminate.
Qed.

Lemma inf_not_zero : forall d neg, decode d = DInf neg -> is_zero d = false.
Proof.
  intros d neg. unfold is_zero, nzero_bits.
  destruct (Z.eqb_spec d 0) as [->|]; [vm_compute; discriminate|].
  destruct (Z.eqb_spec d 9223372036854775808) as [->|]; [vm_compute; discriminate|]. reflexivity.
Qed.

Theorem m_divide_is_fdiv : forall l r, 0 <= l < 2 ^ 64 -> 0 <= r < 2 ^ 64 ->
  m_divide l r = fdiv l r.
Proof.
  intros l r Hl Hr. unfold m_divide, fdiv, go_div_finite, is_nan, is_inf.
  destruct (decode l) as [|n1|n1 m1 e1] eqn:El; destruct (decode r) as [|n2|n2 m2 e2] eqn:Er;
    cbn [orb andb]; try reflexivity.
  - (* inf / finite *)
    rewrite (inf_not_zero l n1 El). cbn [andb].
    rewrite (decode_inf_sign l n1 Hl El). destruct (decode_fin_facts r n2 m2 e2 Hr Er) as [-> _].
    destruct (is_neg l); destruct (is_neg r); reflexivity.
  - (* finite / inf *)
    rewrite (inf_not_zero r n2 Er). rewrite andb_false_r.
    rewrite (decode_inf_sign r n2 Hr Er). destruct (decode_fin_facts l n1 m1 e1 Hl El) as [-> _].
    destruct (is_neg l); destruct (is_neg r); reflexivity.
  - (* finite / finite *)
    destruct (decode_fin_facts l n1 m1 e1 Hl El) as [-> Z1].
    destruct (decode_fin_facts r n2 m2 e2 Hr Er) as [-> Z2].
    rewrite <- Z1, <- Z2.
    destruct (m1 =? 0); destruct (m2 =? 0); cbn [andb];
      destruct (is_neg l); destruct (is_neg r); reflexivity.
Qed.
