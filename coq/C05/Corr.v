(* correspondence cases for C05: an expression over values (primitives and
   scripted objects) evaluated on the real interpreter, judged against the
   otto dialect (Model) and the ES5 dialect (Spec) of the evaluator. *)
From Coq Require Import ZArith Bool List.
From Otto Require Export Common.Double Common.Corr C05.Fp C05.Spec C05.Model C05.Eval.
Import ListNotations.
Open Scope Z_scope.

(* short constructors for the generated terms (Z instead of nat indices) *)
Definition U : value := VP PUndef.
Definition NL : value := VP PNull.
Definition B (b : bool) : value := VP (PBool b).
Definition Nm (x : Z) : value := VP (PNum x).
Definition St (s : list Z) : value := VP (PStr s).
Definition mdo (setv : option (Z * prim)) (r : mret) : meth :=
  MDo (match setv with Some (n, p) => Some (Z.to_nat n, p) | None => None end) r.
Definition Ob (id cls : Z) (vo ts : meth) (keys : list (list Z)) (chain : list Z) (fproto : Z) : value :=
  VO (Build_obj id cls vo ts keys chain fproto).
Definition L (v : value) : expr := ELit v.
Definition V (n : Z) : expr := EVar (Z.to_nat n).
Definition Un (op : Z) (e : expr) : expr := EUn op e.
Definition Bi (op : Z) (l r : expr) : expr := EBin op l r.
Definition Cond (c t f : expr) : expr := ECond c t f.
Definition Asg (n : Z) (e : expr) : expr := EAsg (Z.to_nat n) e.
Definition Cmp (op n : Z) (e : expr) : expr := ECmp op (Z.to_nat n) e.
Definition Inc (pre dec : bool) (n : Z) : expr := EInc pre dec (Z.to_nat n).
Definition Lg (k : Z) (e : expr) : expr := ELog k e.
Definition SetM (id which : Z) (m : meth) : expr := ESetM id which m.
Definition Unres : expr := EUnres.
Definition Mem (id k : Z) (init : prim) : expr := EMem id k init.
Definition Call (e : expr) : expr := ECall e.

Inductive case :=
| CExpr (ps : list value) (vs : list value) (e : expr) (status : Z) (r : oval) (vars : list oval) (lg : list Z)
    (* ps: the objects that serve as prototypes, vs: initial a, b, c *)
| CIntStr (n : Z) (obs : list Z)    (* ToString of a number value that otto holds as a Go integer *)
| CApi (p : prim) (b : bool) (f : Z) (i : Z) (s : list Z)
    (* a Go value handed to otto and read back through the Go API: Value.ToBoolean / ToFloat / ToInteger / ToString *)
| CPin (k : Z) (state : Z).
    (* pinned witness of a finding whose deviation is not modelled (class k): the harness compares the observation
       with the recorded otto result (state 0), the ES5 result (state 1), anything else (state 2) *)

(* finding classes, attributed by switching otto's remaining deviations on one after the other:
   2 ToNumber(string) accepts Go float/int syntax outside 9.3.1
   3 ToNumber(string) rejects hex literals >= 2^63
   7 ToString of a number held as a Go integer prints every integer digit (CIntStr)
   (11: String.prototype.lastIndexOf took a NaN position as 0 and -Infinity as +Infinity; repaired by ea386ab)
   9 ToString of a number held as a Go float32 prints float32-shortest digits (CPin)
   (10: c ? t : f yielded a Reference; repaired by /repo commit 07b2f1f, no longer produced)
   Classes 1 (ToInt32 family beyond 2^63), 4 (string < on UTF-8 bytes), 5 (a + b order),
   6 (x op= e order) and 8 (instanceof on a bound function) were repaired in /repo
   (02e659b, b6ed2ef, 0c8f777, 3657e0a, ea21c58) and are no longer produced: the old
   behaviour would now be a violation. *)
Definition overaccept (s : list Z) : numlit :=
  match string_to_number s with NLNaN => model_str2num s | r => r end.

Definition h2 : dialect := {|
  d_int32 := m_to_int32; d_uint32 := m_to_uint32; d_uint16 := m_to_uint16; d_integer := m_to_integer; d_div := m_divide;
  d_str2num := overaccept; d_strlt := m_str_lt; d_otto_cmp := true |}.

Definition oobs_eqb := option_eqb obs_eqb.

Definition class_of (ps vs : list value) (e : expr) : Z :=
  if negb (oobs_eqb (run h2 ps vs e) (run spec_d ps vs e)) then 2 else 3.

Definition verdict (c : case) : Z * Z :=
  match c with
  | CExpr ps vs e st r vars lg =>
      match run model_d ps vs e, run spec_d ps vs e with
      | Some m, Some s =>
          judge obs_eqb (st, r, vars, lg) m s (if obs_eqb m s then 0 else class_of ps vs e)
      | _, _ => declined
      end
  | CApi p b f i s =>
      let st0 := {| vars := []; log := []; tbl := []; protos := [] |} in
      (* Value.ToInteger: NaN -> 0, saturation at the int64 ends, truncation otherwise *)
      let api_int (x : Z) : Z :=
        match decode x with
        | DNaN => 0
        | DInf neg => if neg then - 2 ^ 63 else 2 ^ 63 - 1
        | DFin neg m e => Z.max (- 2 ^ 63) (Z.min (2 ^ 63 - 1) (sgn_m neg (trunc_mag m e)))
        end in
      let conv (d : dialect) :=
        match to_number d p st0, to_string p st0 with
        | (Ok x, _), (Ok t, _) => Some (to_boolean p, x, api_int x, t)
        | _, _ => None
        end in
      let eqb4 (a c : bool * Z * Z * list Z) :=
        let '(b1, f1, i1, s1) := a in let '(b2, f2, i2, s2) := c in
        Bool.eqb b1 b2 && (f1 =? f2) && (i1 =? i2) && zlist_eqb s1 s2 in
      match conv model_d, conv spec_d with
      | Some m, Some sp => judge eqb4 (b, f, i, s) m sp (if eqb4 m sp then 0 else 2)
      | _, _ => declined
      end
  | CPin k state =>
      if state =? 0 then (1, k) else if state =? 1 then (2, k) else (3, k)
  | CIntStr n obs =>
      let d := of_int n in
      match number_to_string d with
      | Some s => judge zlist_eqb obs (int_to_string n) s 7
      | None => declined
      end
  end.
