(* IEEE-754 binary64 arithmetic on bit patterns, exact, in plain Z.
   Every operation computes the exact rational result and rounds it once to
   nearest-even ([round_mag]), which is what ES5 8.5 / 11.5 / 11.6 prescribe.
   NaN is the single pattern [nan_bits]. *)
From Coq Require Import ZArith Bool List Lia.
From Otto Require Import Common.Double.
Import ListNotations.
Open Scope Z_scope.

Definition sign_bit (neg : bool) : Z := if neg then 2 ^ 63 else 0.

(* num/den (num >= 0, den > 0) rounded to nearest-even: bits without sign *)
Definition round_mag (num den : Z) : Z :=
  if num =? 0 then 0 else
  let e0 := Z.log2 num - Z.log2 den - 52 in
  let q0 := if 0 <=? e0 then num / (den * 2 ^ e0) else (num * 2 ^ (- e0)) / den in
  let e1 := if 2 ^ 53 <=? q0 then e0 + 1 else if q0 <? 2 ^ 52 then e0 - 1 else e0 in
  let e := Z.max e1 (-1074) in
  let n := if 0 <=? e then num else num * 2 ^ (- e) in
  let d := if 0 <=? e then den * 2 ^ e else den in
  let q := n / d in
  let r := n mod d in
  let q' := if 2 * r <? d then q else if d <? 2 * r then q + 1 else if Z.even q then q else q + 1 in
  let bits := (e + 1074) * 2 ^ 52 + q' in
  if pinf_bits <=? bits then pinf_bits else bits.

Definition of_rat (neg : bool) (num den : Z) : Z := sign_bit neg + round_mag num den.

(* exact dyadic m * 2^e (m >= 0) *)
Definition of_dyadic (neg : bool) (m e : Z) : Z :=
  if 0 <=? e then of_rat neg (m * 2 ^ e) 1 else of_rat neg m (2 ^ (- e)).

Definition of_int (n : Z) : Z := of_rat (n <? 0) (Z.abs n) 1.

Definition is_nan (b : Z) : bool := match decode b with DNaN => true | _ => false end.
Definition is_neg (b : Z) : bool := 2 ^ 63 <=? b.
Definition is_zero (b : Z) : bool := (b =? 0) || (b =? nzero_bits).
Definition fneg (b : Z) : Z :=
  if is_nan b then nan_bits else if is_neg b then b - 2 ^ 63 else b + 2 ^ 63.

(* total order key for non-NaN patterns: -0 and +0 both map to 0 *)
Definition ord_key (b : Z) : Z := if is_neg b then - (b - 2 ^ 63) else b.
(* Some true / Some false / None (a NaN is involved) *)
Definition flt (a b : Z) : option bool :=
  if is_nan a || is_nan b then None else Some (ord_key a <? ord_key b).
Definition feq (a b : Z) : bool :=
  if is_nan a || is_nan b then false else ord_key a =? ord_key b.

(* signed significand on a common exponent *)
Definition sgn_m (neg : bool) (m : Z) : Z := if neg then - m else m.

Definition fadd (a b : Z) : Z :=
  match decode a, decode b with
  | DNaN, _ | _, DNaN => nan_bits
  | DInf n1, DInf n2 => if Bool.eqb n1 n2 then a else nan_bits
  | DInf _, _ => a
  | _, DInf _ => b
  | DFin n1 m1 e1, DFin n2 m2 e2 =>
      let e := Z.min e1 e2 in
      let s := sgn_m n1 m1 * 2 ^ (e1 - e) + sgn_m n2 m2 * 2 ^ (e2 - e) in
      if s =? 0 then (if n1 && n2 then nzero_bits else 0)
      else of_dyadic (s <? 0) (Z.abs s) e
  end.

Definition fsub (a b : Z) : Z := fadd a (fneg b).

Definition fmul (a b : Z) : Z :=
  match decode a, decode b with
  | DNaN, _ | _, DNaN => nan_bits
  | DInf n1, DInf n2 => sign_bit (xorb n1 n2) + pinf_bits
  | DInf n1, DFin n2 m2 _ => if m2 =? 0 then nan_bits else sign_bit (xorb n1 n2) + pinf_bits
  | DFin n1 m1 _, DInf n2 => if m1 =? 0 then nan_bits else sign_bit (xorb n1 n2) + pinf_bits
  | DFin n1 m1 e1, DFin n2 m2 e2 => of_dyadic (xorb n1 n2) (m1 * m2) (e1 + e2)
  end.

(* ES5 11.5.2 *)
Definition fdiv (a b : Z) : Z :=
  match decode a, decode b with
  | DNaN, _ | _, DNaN => nan_bits
  | DInf _, DInf _ => nan_bits
  | DInf n1, DFin n2 _ _ => sign_bit (xorb n1 n2) + pinf_bits
  | DFin n1 _ _, DInf n2 => sign_bit (xorb n1 n2)
  | DFin n1 m1 e1, DFin n2 m2 e2 =>
      if m2 =? 0 then (if m1 =? 0 then nan_bits else sign_bit (xorb n1 n2) + pinf_bits)
      else if m1 =? 0 then sign_bit (xorb n1 n2)
      else let d := e1 - e2 in
           if 0 <=? d then of_rat (xorb n1 n2) (m1 * 2 ^ d) m2
           else of_rat (xorb n1 n2) m1 (m2 * 2 ^ (- d))
  end.

(* ES5 11.5.3: exact truncating remainder, sign of the dividend *)
Definition fmod (a b : Z) : Z :=
  match decode a, decode b with
  | DNaN, _ | _, DNaN => nan_bits
  | DInf _, _ => nan_bits
  | DFin _ _ _, DInf _ => a
  | DFin n1 m1 e1, DFin _ m2 e2 =>
      if m2 =? 0 then nan_bits
      else if m1 =? 0 then a
      else let e := Z.min e1 e2 in
           let r := (m1 * 2 ^ (e1 - e)) mod (m2 * 2 ^ (e2 - e)) in
           of_dyadic n1 r e
  end.

(* truncation toward zero as an exact integer; None for NaN and infinities *)
Definition trunc_int (b : Z) : option Z :=
  match decode b with
  | DFin neg m e => Some (sgn_m neg (trunc_mag m e))
  | _ => None
  end.

(* ---- two's complement wrapping ---- *)
Definition wrap_s (k n : Z) : Z := (n + 2 ^ (k - 1)) mod 2 ^ k - 2 ^ (k - 1).
Definition wrap_u (k n : Z) : Z := n mod 2 ^ k.
