(* otto's own conversion code (value_number.go, evaluate.go) where it is more
   than the ES5 clause: the math.Mod / int64 route of toInt32/toUint32/toUint16,
   parseNumber's dispatch onto Go's strconv grammars, the string case of
   calculateLessThan. *)
From Coq Require Import ZArith Bool List Lia.
From Otto Require Import Common.Double Common.Corr C05.Fp C05.Spec.
Import ListNotations.
Open Scope Z_scope.

(* ---------- value_number.go toInt32 / toUint32 / toUint16 ---------- *)

Definition nan_inf_zero (d : Z) : bool :=
  match decode d with
  | DFin _ m _ => m =? 0
  | _ => true
  end.

(* int64(math.Mod(f, 4294967296)) for a finite non-zero f (since commit 02e659b).
   math.Mod is the exact remainder with the sign of the dividend (IEEE fmod, Fp.fmod;
   its agreement with Go is what the correspondence run checks), so |Mod| < 2^32, the
   int64 conversion is in range and truncates:  trunc (f - q*2^32) = rem (trunc f) 2^32 *)
Definition go_mod32_int64 (d : Z) : Z := Z.rem (pos_int d) (2 ^ 32).

Definition m_to_int32 (d : Z) : Z := if nan_inf_zero d then 0 else wrap_s 32 (go_mod32_int64 d).
Definition m_to_uint32 (d : Z) : Z := if nan_inf_zero d then 0 else wrap_u 32 (go_mod32_int64 d).
Definition m_to_uint16 (d : Z) : Z := if nan_inf_zero d then 0 else wrap_u 16 (go_mod32_int64 d).

(* toIntegerFloat: Inf kept, NaN -> 0, Floor / Ceil otherwise.
   (math.Ceil of -0.5 is -0 and math.Floor(0.5) is +0: same as 9.4's sign(x)*floor(abs x)) *)
Definition m_to_integer (d : Z) : Z :=
  match decode d with
  | DNaN => 0
  | DInf _ => d
  | DFin neg m e => if m =? 0 then d else
                    let t := trunc_mag m e in
                    if t =? 0 then sign_bit neg else of_rat neg t 1
  end.

(* ---------- evaluate.go evaluateDivide ---------- *)

Definition is_inf (d : Z) : bool := match decode d with DInf _ => true | _ => false end.

(* Go's float64 division on two finite, non-zero operands: the correctly rounded quotient *)
Definition go_div_finite (a b : Z) : Z :=
  match decode a, decode b with
  | DFin n1 m1 e1, DFin n2 m2 e2 =>
      let d := e1 - e2 in
      if 0 <=? d then of_rat (xorb n1 n2) (m1 * 2 ^ d) m2
      else of_rat (xorb n1 n2) m1 (m2 * 2 ^ (- d))
  | _, _ => nan_bits
  end.

(* the cascade of special cases, in the order of the source *)
Definition m_divide (l r : Z) : Z :=
  if is_nan l || is_nan r then nan_bits
  else if is_inf l && is_inf r then nan_bits
  else if is_zero l && is_zero r then nan_bits
  else if is_inf l then (if Bool.eqb (is_neg l) (is_neg r) then pinf_bits else ninf_bits)
  else if is_inf r then (if Bool.eqb (is_neg l) (is_neg r) then 0 else nzero_bits)
  else if is_zero r then (if Bool.eqb (is_neg l) (is_neg r) then pinf_bits else ninf_bits)
  else if is_zero l then sign_bit (xorb (is_neg l) (is_neg r))   (* 0 / finite non-zero in hardware *)
  else go_div_finite l r.

(* ---------- value_number.go parseNumber ---------- *)

Definition lower (c : Z) : Z := if (65 <=? c) && (c <=? 90) then c + 32 else c.

Fixpoint common_prefix_ci (s pat : list Z) : Z :=
  match s, pat with
  | c :: s', p :: pat' => if lower c =? p then 1 + common_prefix_ci s' pat' else 0
  | _, _ => 0
  end.
Definition lc_infinity : list Z := [105; 110; 102; 105; 110; 105; 116; 121].
Definition lc_nan : list Z := [110; 97; 110].

(* strconv.special: Some (bits, consumed length) *)
Definition go_special (s : list Z) : option (Z * Z) :=
  let inf_after (neg : bool) (nsign : Z) (t : list Z) :=
    let n := common_prefix_ci t lc_infinity in
    let n := if (3 <? n) && (n <? 8) then 3 else n in
    if (n =? 3) || (n =? 8) then Some (sign_bit neg + pinf_bits, nsign + n) else None in
  match s with
  | [] => None
  | c :: t =>
      if c =? 43 then inf_after false 1 t
      else if c =? 45 then inf_after true 1 t
      else if lower c =? 105 then inf_after false 0 s
      else if lower c =? 110 then (if common_prefix_ci s lc_nan =? 3 then Some (nan_bits, 3) else None)
      else None
  end.

(* strconv.underscoreOK *)
Definition is_hex_letter (c : Z) : bool := ((97 <=? c) && (c <=? 102)) || ((65 <=? c) && (c <=? 70)).
(* saw: 0 = '^', 1 = '0', 2 = '_', 3 = '!' *)
Fixpoint uok_loop (hex : bool) (l : list Z) (saw : Z) : bool :=
  match l with
  | [] => negb (saw =? 2)
  | c :: l' =>
      if is_digit c || (hex && is_hex_letter c) then uok_loop hex l' 1
      else if c =? 95 then (if saw =? 1 then uok_loop hex l' 2 else false)
      else if saw =? 2 then false
      else uok_loop hex l' 3
  end.
Definition underscore_ok (s : list Z) : bool :=
  let s := match s with c :: t => if (c =? 43) || (c =? 45) then t else s | [] => s end in
  match s with
  | 48 :: x :: t =>
      let lx := lower x in
      if (lx =? 98) || (lx =? 111) || (lx =? 120) then uok_loop (lx =? 120) t 1
      else uok_loop false s 0
  | _ => uok_loop false s 0
  end.

(* strconv.readFloat mantissa loop: value of all digits, digits after the dot,
   sawdot, sawdigits, underscores, rest *)
Fixpoint mant_loop (hex : bool) (l : list Z) (m nfrac : Z) (sawdot sawdig us : bool)
  : Z * Z * bool * bool * list Z :=
  match l with
  | [] => (m, nfrac, sawdig, us, [])
  | c :: l' =>
      if c =? 95 then mant_loop hex l' m nfrac sawdot sawdig true
      else if c =? 46 then
        (if sawdot then (m, nfrac, sawdig, us, l) else mant_loop hex l' m nfrac true sawdig us)
      else if is_digit c then
        mant_loop hex l' (m * (if hex then 16 else 10) + (c - 48)) (if sawdot then nfrac + 1 else nfrac) sawdot true us
      else if hex && is_hex_letter c then
        mant_loop hex l' (m * 16 + (lower c - 87)) (if sawdot then nfrac + 1 else nfrac) sawdot true us
      else (m, nfrac, sawdig, us, l)
  end.

(* exponent digits with underscores; the accumulator stops growing at 10000 as in Go *)
Fixpoint exp_loop (l : list Z) (e : Z) (us : bool) : Z * bool * list Z :=
  match l with
  | c :: l' =>
      if c =? 95 then exp_loop l' e true
      else if is_digit c then exp_loop l' (if e <? 10000 then e * 10 + (c - 48) else e) us
      else (e, us, l)
  | [] => (e, us, [])
  end.

Definition hex_value (neg : bool) (m x : Z) : Z :=
  if m =? 0 then sign_bit neg else
  let lg := Z.log2 m in
  if 1100 <? x + lg then sign_bit neg + pinf_bits
  else if x + lg <? -1200 then sign_bit neg
  else of_dyadic neg m x.

(* strconv.ParseFloat(s, 64) as used by parseNumber: None = syntax error *)
Definition go_parse_float (s : list Z) : option Z :=
  match go_special s with
  | Some (v, n) => if n =? Z.of_nat (length s) then Some v else None
  | None =>
      let '(neg, t) := match s with
                       | c :: t => if c =? 43 then (false, t) else if c =? 45 then (true, t) else (false, s)
                       | [] => (false, s)
                       end in
      match s with [] => None | _ =>
      let '(hex, t) := match t with
                       | 48 :: x :: y :: t' => if lower x =? 120 then (true, y :: t') else (false, t)
                       | _ => (false, t)
                       end in
      let '(m, nfrac, sawdig, us, r) := mant_loop hex t 0 0 false false false in
      if negb sawdig then None else
      let expchar := if hex then 112 else 101 in
      let fin (e : Z) (us : bool) (rest : list Z) : option Z :=
        match rest with
        | _ :: _ => None
        | [] => if us && negb (underscore_ok s) then None
                else Some (if hex then hex_value neg m (e - 4 * nfrac)
                           else dec_value (S (length s)) neg m (e - nfrac))
        end in
      match r with
      | c :: r1 =>
          if lower c =? expchar then
            match r1 with
            | [] => None
            | sg :: r2 =>
                let '(eneg, r3) := if sg =? 43 then (false, r2) else if sg =? 45 then (true, r2) else (false, r1) in
                match r3 with
                | d :: _ => if is_digit d then
                              let '(e, us', rest) := exp_loop r3 0 us in
                              fin (if eneg then - e else e) us' rest
                            else None
                | [] => None
                end
            end
          else if hex then None else fin 0 us r
      | [] => if hex then None else fin 0 us r
      end
      end
  end.

(* strconv.ParseInt(s, 0, 64) on a string that starts with 0x / 0X *)
Fixpoint hexint_loop (l : list Z) (v : Z) (us : bool) : option (Z * bool) :=
  match l with
  | [] => Some (v, us)
  | c :: l' =>
      if c =? 95 then hexint_loop l' v true
      else match hex_val c with
           | Some d => hexint_loop l' (v * 16 + d) us
           | None => None
           end
  end.
Definition go_parse_int0 (s : list Z) : option Z :=
  match s with
  | 48 :: _ :: ((_ :: _) as t) =>
      match hexint_loop t 0 false with
      | Some (v, us) =>
          if us && negb (underscore_ok s) then None
          else if 2 ^ 63 <=? v then None        (* range error *)
          else Some (of_rat false v 1)          (* float64(int64) *)
      | None => None
      end
  | _ => None
  end.

Definition has_dot (s : list Z) : bool := existsb (fun c => c =? 46) s.
Definition starts_0x (s : list Z) : bool :=
  match s with 48 :: x :: _ => (x =? 120) || (x =? 88) | _ => false end.

Definition parse_number (s : list Z) : Z :=
  let v := trim_ws s in
  match v with
  | [] => 0
  | _ =>
      let r := if has_dot v then go_parse_float v
               else if starts_0x v then go_parse_int0 v
               else go_parse_float v in
      match r with Some b => b | None => nan_bits end
  end.

(* ---------- evaluate.go calculateLessThan, string case (since commit b6ed2ef) ---------- *)

(* x, y := utf16.Encode([]rune(x.string())), ...: the code units of the two strings (otto's Go
   strings hold no lone surrogates, so the round trip through runes is the identity on units);
   index := 0; for index < len(x) && index < len(y) && x[index] == y[index] { index++ } *)
Fixpoint skip_common (x y : list Z) : list Z * list Z :=
  match x, y with
  | a :: x', b :: y' => if a =? b then skip_common x' y' else (x, y)
  | _, _ => (x, y)
  end.

(* result = index < len(y) && (index == len(x) || x[index] < y[index]) *)
Definition m_str_lt (x y : list Z) : bool :=
  let '(rx, ry) := skip_common x y in
  match ry with
  | [] => false
  | b :: _ => match rx with [] => true | a :: _ => a <? b end
  end.
