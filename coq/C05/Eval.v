(* ES5 section 11 operators over values with scripted objects, as an effectful
   evaluator.  The effects are the ones ES5 makes observable: the sequence of
   valueOf/toString invocations (a log), writes to variables performed by those
   methods, and abrupt completion.  One evaluator, parametrised by a [dialect]
   that selects the primitive conversions and the transcription of the comparison
   algorithms; [spec_d] is ES5, [model_d] is otto.  (otto's former deviations in the
   order of GetValue for a + b and x op= e and in instanceof on bound functions were
   repaired in /repo by commits 0c8f777, 3657e0a, ea21c58: both dialects share that code now.) *)
From Coq Require Import ZArith Bool List Lia.
From Otto Require Import Common.Double Common.Corr C05.Fp C05.Spec C05.Model.
Import ListNotations.
Open Scope Z_scope.

(* ---------- values ---------- *)

Inductive mret := MPrim (p : prim) | MObj | MThrow.
(* a scripted method: absent/not callable, or: log the call, optionally assign
   a primitive to variable n, then return / throw *)
(* MNone: the property holds undefined (not callable);
   MInherit: the object has no own property of that name, the method is found
   along the prototype chain at every conversion (8.12.8 does a fresh [[Get]]);
   MQuiet: a built-in (Object.prototype.valueOf / toString), not logged;
   MDoS: a scripted method that, while it runs, assigns (or, with MInherit, deletes) the conversion method
   twhich of object tid, then returns / throws;
   MGet: the property is an accessor: every [[Get]] runs the getter, which logs k and then throws or
   yields the inner method (MNone: the getter returns undefined) *)
Inductive meth :=
| MNone
| MDo (setv : option (nat * prim)) (r : mret)
| MInherit
| MQuiet (r : mret)
| MDoS (tid twhich : Z) (m2 : meth) (r : mret)
| MGet (k : Z) (thr : bool) (inner : meth).

Record obj := {
  o_id : Z;
  o_cls : Z;                 (* 0 plain object, 1 Date, 2 function, 4 bound function (o_fproto: the target's prototype),
                                6 / 7 / 8 Number / String / Boolean wrapper *)
  o_vo : meth;               (* own valueOf *)
  o_ts : meth;               (* own toString *)
  o_keys : list (list Z);    (* further own property names *)
  o_chain : list Z;          (* ids of the objects on its prototype chain, nearest first; 90 = Object.prototype *)
  o_fproto : Z               (* functions: id of F.prototype, 0 if it is not an object *)
}.

Inductive value := VP (p : prim) | VO (o : obj).

Inductive oval := OP (p : prim) | OO (id : Z).
Definition project (v : value) : oval := match v with VP p => OP p | VO o => OO (o_id o) end.
Definition oval_eqb (a b : oval) : bool :=
  match a, b with
  | OP x, OP y => prim_eqb x y
  | OO x, OO y => x =? y
  | _, _ => false
  end.

(* ---------- effects ---------- *)

(* tbl: conversion methods assigned / deleted during the run, newest first:
   (object id, 0 valueOf | 1 toString, method; MInherit = deleted);
   protos: the objects that occur on prototype chains, by id *)
Record state := { vars : list value; log : list Z; tbl : list (Z * Z * meth); protos : list obj }.
Inductive res (A : Type) := Ok (a : A) | Thr (tag : Z) | Decl.
Arguments Ok {A}. Arguments Thr {A}. Arguments Decl {A}.
Definition M (A : Type) := state -> res A * state.
Definition ret {A} (a : A) : M A := fun st => (Ok a, st).
Definition throw {A} (t : Z) : M A := fun st => (Thr t, st).
Definition decl {A} : M A := fun st => (Decl, st).
Definition bind {A B} (m : M A) (f : A -> M B) : M B :=
  fun st => match m st with
            | (Ok a, st') => f a st'
            | (Thr t, st') => (Thr t, st')
            | (Decl, st') => (Decl, st')
            end.
Notation "x <- m ;; f" := (bind m (fun x => f)) (at level 61, m at next level, right associativity).
Definition lift {A} (r : option A) : M A := match r with Some a => ret a | None => decl end.

Fixpoint set_nth {A} (n : nat) (a : A) (l : list A) : list A :=
  match n, l with
  | O, _ :: l' => a :: l'
  | S k, x :: l' => x :: set_nth k a l'
  | _, [] => []
  end.
Definition getvar (n : nat) : M value :=
  fun st => match nth_error (vars st) n with Some v => (Ok v, st) | None => (Decl, st) end.
Definition setvar (n : nat) (v : value) : M unit :=
  fun st => (Ok tt, {| vars := set_nth n v (vars st); log := log st; tbl := tbl st; protos := protos st |}).
Definition logk (k : Z) : M unit :=
  fun st => (Ok tt, {| vars := vars st; log := k :: log st; tbl := tbl st; protos := protos st |}).
Definition setmeth (id which : Z) (m : meth) : M unit :=
  fun st => (Ok tt, {| vars := vars st; log := log st; tbl := (id, which, m) :: tbl st; protos := protos st |}).

Definition tag_TypeError : Z := 6.

(* ---------- 8.12.8 [[DefaultValue]], 9.1 ToPrimitive ---------- *)

(* Object.prototype: valueOf returns the object itself, toString "[object Object]" *)
Definition s_object_Object : list Z := [91; 111; 98; 106; 101; 99; 116; 32; 79; 98; 106; 101; 99; 116; 93].
Definition object_prototype : obj :=
  Build_obj 90 0 (MQuiet MObj) (MQuiet (MPrim (PStr s_object_Object))) [] [] (-1).

(* the own property as it currently stands *)
Definition own_meth (st : state) (o : obj) (which : Z) : meth :=
  match find (fun e => (fst (fst e) =? o_id o) && (snd (fst e) =? which)) (tbl st) with
  | Some e => snd e
  | None => if which =? 0 then o_vo o else o_ts o
  end.
Definition find_obj (st : state) (id : Z) : option obj :=
  if id =? 90 then Some object_prototype else find (fun p => o_id p =? id) (protos st).
(* [[Get]] of valueOf / toString: holder id and method *)
Fixpoint resolve_chain (st : state) (chain : list Z) (which : Z) : Z * meth :=
  match chain with
  | [] => (0, MNone)
  | pid :: rest =>
      match find_obj st pid with
      | Some p => match own_meth st p which with
                  | MInherit => resolve_chain st rest which
                  | m => (pid, m)
                  end
      | None => resolve_chain st rest which
      end
  end.
Definition resolve (st : state) (o : obj) (which : Z) : Z * meth :=
  match own_meth st o which with
  | MInherit => resolve_chain st (o_chain o) which
  | m => (o_id o, m)
  end.

(* call the method found on [holder]; None = not callable or a non-primitive result *)
Fixpoint call_meth (holder which : Z) (m : meth) {struct m} : M (option prim) :=
  match m with
  | MNone | MInherit => ret None
  | MGet k thr inner =>
      (* 8.12.3 [[Get]] of an accessor property calls the getter; 8.12.8 does this [[Get]] immediately
         before the call of that method, and only reaches the second method's [[Get]] when the first
         method was not callable or returned an object *)
      _ <- logk k ;;
      if thr then throw (300 + holder * 2 + which) else call_meth holder which inner
  | MDoS tid twhich m2 r =>
      _ <- logk (holder * 2 + which) ;;
      _ <- setmeth tid twhich m2 ;;
      match r with
      | MPrim p => ret (Some p)
      | MObj => ret None
      | MThrow => throw (100 + holder * 2 + which)
      end
  | MQuiet r => match r with MPrim p => ret (Some p) | MObj => ret None | MThrow => throw (100 + holder * 2 + which) end
  | MDo setv r =>
      _ <- logk (holder * 2 + which) ;;
      _ <- match setv with Some (n, p) => setvar n (VP p) | None => ret tt end ;;
      match r with
      | MPrim p => ret (Some p)
      | MObj => ret None
      | MThrow => throw (100 + holder * 2 + which)
      end
  end.

(* 15.2.4.2: Object.prototype.toString answers with the [[Class]] of the receiver *)
Definition class_name (o : obj) : list Z :=
  let c := o_cls o in
  if c =? 1 then [68; 97; 116; 101]                                   (* Date *)
  else if (c =? 2) || (c =? 4) then [70; 117; 110; 99; 116; 105; 111; 110]   (* Function *)
  else if c =? 6 then [78; 117; 109; 98; 101; 114]                    (* Number *)
  else if c =? 7 then [83; 116; 114; 105; 110; 103]                   (* String *)
  else if c =? 8 then [66; 111; 111; 108; 101; 97; 110]               (* Boolean *)
  else [79; 98; 106; 101; 99; 116].                                   (* Object *)

Definition get_and_call (o : obj) (which : Z) : M (option prim) :=
  fun st => let '(h, m) := resolve st o which in
            let m := match m with
                     | MQuiet (MPrim (PStr _)) =>
                         if (h =? 90) && (which =? 1)
                         then MQuiet (MPrim (PStr ([91; 111; 98; 106; 101; 99; 116; 32] ++ class_name o ++ [93])))
                         else m
                     | _ => m
                     end in
            call_meth h which m st.

Definition default_value (hint_string : bool) (o : obj) : M prim :=
  let first := if hint_string then get_and_call o 1 else get_and_call o 0 in
  let second := if hint_string then get_and_call o 0 else get_and_call o 1 in
  r1 <- first ;;
  match r1 with
  | Some p => ret p
  | None => r2 <- second ;;
            match r2 with Some p => ret p | None => throw tag_TypeError end
  end.

(* hint: 0 none, 1 String, 2 Number *)
Definition to_primitive (hint : Z) (v : value) : M prim :=
  match v with
  | VP p => ret p
  | VO o => default_value ((hint =? 1) || ((hint =? 0) && (o_cls o =? 1))) o
  end.

(* ---------- dialect ---------- *)

Record dialect := {
  d_int32 : Z -> Z;
  d_uint32 : Z -> Z;
  d_uint16 : Z -> Z;
  d_integer : Z -> Z;
  d_div : Z -> Z -> Z;
  d_str2num : list Z -> numlit;
  d_strlt : list Z -> list Z -> bool;
  d_otto_cmp : bool          (* otto's transcription of 11.8.5 / 11.9.3 instead of the clause text *)
}.

Section WithDialect.
Variable d : dialect.

Definition to_number (p : prim) : M Z :=
  match p with
  | PUndef => ret nan_bits
  | PNull => ret 0
  | PBool b => ret (if b then of_int 1 else 0)
  | PNum x => ret x
  | PStr s => match d_str2num d s with
              | NLNaN => ret nan_bits
              | NLVal b => ret b
              | NLDecline => decl
              end
  end.

Definition to_string (p : prim) : M (list Z) :=
  match p with
  | PUndef => ret s_undefined
  | PNull => ret s_null
  | PBool b => ret (if b then s_true else s_false)
  | PNum x => lift (number_to_string x)
  | PStr s => ret s
  end.

Definition to_number_v (v : value) : M Z := p <- to_primitive 2 v ;; to_number p.
Definition to_string_v (v : value) : M (list Z) := p <- to_primitive 1 v ;; to_string p.
Definition to_boolean_v (v : value) : bool := match v with VP p => to_boolean p | VO _ => true end.

Definition num (x : Z) : value := VP (PNum x).
Definition boolv (b : bool) : value := VP (PBool b).

(* ---------- 11.9.3 abstract equality ---------- *)

Definition same_type_eq (a b : prim) : bool :=
  match a, b with
  | PUndef, PUndef | PNull, PNull => true
  | PNum x, PNum y => feq x y
  | PStr x, PStr y => zlist_eqb x y
  | PBool x, PBool y => Bool.eqb x y
  | _, _ => false
  end.

Fixpoint spec_eq (fuel : nat) (x y : value) : M bool :=
  match fuel with
  | O => decl
  | S f =>
      match x, y with
      | VO a, VO b => ret (o_id a =? o_id b)                                  (* 1.f *)
      | VP PUndef, VP PUndef | VP PNull, VP PNull => ret true                 (* 1.a, 1.b *)
      | VP (PNum a), VP (PNum b) => ret (feq a b)                             (* 1.c *)
      | VP (PStr a), VP (PStr b) => ret (zlist_eqb a b)                       (* 1.d *)
      | VP (PBool a), VP (PBool b) => ret (Bool.eqb a b)                      (* 1.e *)
      | VP PNull, VP PUndef | VP PUndef, VP PNull => ret true                 (* 2, 3 *)
      | VP (PNum a), VP (PStr _) =>                                           (* 4 *)
          n <- to_number_v y ;; spec_eq f x (num n)
      | VP (PStr _), VP (PNum _) =>                                           (* 5 *)
          n <- to_number_v x ;; spec_eq f (num n) y
      | VP (PBool _), _ => n <- to_number_v x ;; spec_eq f (num n) y          (* 6 *)
      | _, VP (PBool _) => n <- to_number_v y ;; spec_eq f x (num n)          (* 7 *)
      | VP (PNum _), VO _ | VP (PStr _), VO _ =>                              (* 8 *)
          p <- to_primitive 0 y ;; spec_eq f x (VP p)
      | VO _, VP (PNum _) | VO _, VP (PStr _) =>                              (* 9 *)
          p <- to_primitive 0 x ;; spec_eq f (VP p) y
      | _, _ => ret false                                                     (* 10 *)
      end
  end.

(* 11.9.6 strict equality *)
Definition spec_strict_eq (x y : value) : bool :=
  match x, y with
  | VO a, VO b => o_id a =? o_id b
  | VP a, VP b => same_type_eq a b
  | _, _ => false
  end.

(* evaluate.go calculateComparison: the kind-ordered switch *)
Definition kind (v : value) : Z :=
  match v with
  | VP PUndef => 0 | VP PNull => 1 | VP (PNum _) => 2 | VP (PStr _) => 3 | VP (PBool _) => 4
  | VO _ => 5
  end.

Definition kind_equal_kind (x y : value) : M bool :=
  match x, y with
  | VP PUndef, _ | VP PNull, _ => ret true
  | VP (PNum a), VP (PNum b) => ret (if is_nan a || is_nan b then false else feq a b)
  | VP (PStr a), VP (PStr b) => ret (zlist_eqb a b)
  | VP (PBool a), VP (PBool b) => ret (Bool.eqb a b)
  | VO a, VO b => ret (o_id a =? o_id b)
  | _, _ => decl
  end.

Fixpoint model_eq (fuel : nat) (x y : value) : M bool :=
  match fuel with
  | O => decl
  | S f =>
      let kx := kind x in let ky := kind y in
      if kx =? ky then kind_equal_kind x y
      else if (kx <=? 1) && (ky <=? 1) then ret true
      else if (kx <=? 1) || (ky <=? 1) then ret false
      else if (kx <=? 3) && (ky <=? 3) then
        a <- to_number_v x ;; b <- to_number_v y ;; ret (feq a b)
      else if kx =? 4 then n <- to_number_v x ;; model_eq f (num n) y
      else if ky =? 4 then n <- to_number_v y ;; model_eq f x (num n)
      else if kx =? 5 then p <- to_primitive 0 x ;; model_eq f (VP p) y
      else if ky =? 5 then p <- to_primitive 0 y ;; model_eq f x (VP p)
      else decl
  end.

Definition model_strict_eq (x y : value) : M bool :=
  if kind x =? kind y then kind_equal_kind x y else ret false.

(* ---------- 11.8.5 abstract relational comparison ---------- *)

(* result: Some true / Some false / None = undefined *)
Definition rel_prims (px py : prim) : M (option bool) :=
  match px, py with
  | PStr a, PStr b => ret (Some (d_strlt d a b))
  | _, _ => nx <- to_number px ;; ny <- to_number py ;; ret (flt nx ny)
  end.

Definition spec_rel (left_first : bool) (x y : value) : M (option bool) :=
  if left_first then px <- to_primitive 2 x ;; py <- to_primitive 2 y ;; rel_prims px py
  else py <- to_primitive 2 y ;; px <- to_primitive 2 x ;; rel_prims px py.

(* 11.8.1 - 11.8.4 *)
Definition spec_relop (op : Z) (l r : value) : M bool :=
  if op =? 15 then o <- spec_rel true l r ;; ret (match o with Some b => b | None => false end)
  else if op =? 16 then o <- spec_rel false r l ;; ret (match o with Some b => b | None => false end)
  else if op =? 17 then o <- spec_rel false r l ;; ret (match o with Some true | None => false | Some false => true end)
  else o <- spec_rel true l r ;; ret (match o with Some true | None => false | Some false => true end).

(* evaluate.go calculateLessThan and lessThanTable: 0 false, 1 true, 2 undefined *)
Definition model_less_than (left right : value) (left_first : bool) : M Z :=
  xy <- (if left_first
         then x <- to_primitive 2 left ;; y <- to_primitive 2 right ;; ret (x, y)
         else y <- to_primitive 2 right ;; x <- to_primitive 2 left ;; ret (x, y)) ;;
  let '(x, y) := xy in
  match x, y with
  | PStr a, PStr b => ret (if d_strlt d a b then 1 else 0)
  | _, _ => a <- to_number x ;; b <- to_number y ;;
            ret (if is_nan a || is_nan b then 2 else match flt a b with Some true => 1 | _ => 0 end)
  end.
Definition less_than_table (row r : Z) : bool :=
  if row <? 2 then (r =? 1) else (r =? 0).
Definition model_relop (op : Z) (x y : value) : M bool :=
  if op =? 15 then r <- model_less_than x y true ;; ret (less_than_table 0 r)
  else if op =? 16 then r <- model_less_than y x false ;; ret (less_than_table 1 r)
  else if op =? 17 then r <- model_less_than y x false ;; ret (less_than_table 2 r)
  else r <- model_less_than x y true ;; ret (less_than_table 3 r).

(* ---------- 11.5 - 11.7, 11.10 on Number values ---------- *)

Definition int_binop (op : Z) (a b : Z) : Z :=
  if op =? 5 then of_int (Z.land (d_int32 d a) (d_int32 d b))
  else if op =? 6 then of_int (Z.lor (d_int32 d a) (d_int32 d b))
  else if op =? 7 then of_int (Z.lxor (d_int32 d a) (d_int32 d b))
  else if op =? 8 then of_int (wrap_s 32 (Z.shiftl (d_int32 d a) (d_uint32 d b mod 32)))
  else if op =? 9 then of_int (Z.shiftr (d_int32 d a) (d_uint32 d b mod 32))
  else of_int (Z.shiftr (d_uint32 d a) (d_uint32 d b mod 32)).

Definition arith (op : Z) (a b : Z) : Z :=
  if op =? 1 then fsub a b
  else if op =? 2 then fmul a b
  else if op =? 3 then d_div d a b
  else fmod a b.

Definition is_str (p : prim) : bool := match p with PStr _ => true | _ => false end.

(* 11.6.1 steps 7-8 on the two primitives *)
Definition plus_prims (lp rp : prim) : M value :=
  if is_str lp || is_str rp then
    a <- to_string lp ;; b <- to_string rp ;; ret (VP (PStr (a ++ b)))
  else a <- to_number lp ;; b <- to_number rp ;; ret (num (fadd a b)).

Definition has_prop (o : obj) (name : list Z) : bool :=
  existsb (zlist_eqb name) (o_keys o)
  || zlist_eqb name [118; 97; 108; 117; 101; 79; 102]                 (* valueOf *)
  || zlist_eqb name [116; 111; 83; 116; 114; 105; 110; 103]           (* toString *)
  || zlist_eqb name [95; 95; 105; 100].                                (* __id *)

(* binary operators other than && || , on the two operand values *)
Definition binop (op : Z) (l r : value) : M value :=
  if op =? 0 then lp <- to_primitive 0 l ;; rp <- to_primitive 0 r ;; plus_prims lp rp
  else if op <=? 4 then a <- to_number_v l ;; b <- to_number_v r ;; ret (num (arith op a b))
  else if op <=? 10 then a <- to_number_v l ;; b <- to_number_v r ;; ret (num (int_binop op a b))
  else if op =? 11 then
    b <- (if d_otto_cmp d then model_eq 5 l r else spec_eq 5 l r) ;; ret (boolv b)
  else if op =? 12 then
    b <- (if d_otto_cmp d then model_eq 5 l r else spec_eq 5 l r) ;; ret (boolv (negb b))
  else if op =? 13 then
    b <- (if d_otto_cmp d then model_strict_eq l r else ret (spec_strict_eq l r)) ;; ret (boolv b)
  else if op =? 14 then
    b <- (if d_otto_cmp d then model_strict_eq l r else ret (spec_strict_eq l r)) ;; ret (boolv (negb b))
  else if op <=? 18 then
    b <- (if d_otto_cmp d then model_relop op l r else spec_relop op l r) ;; ret (boolv b)
  else if op =? 19 then
    match r with
    | VO o => name <- to_string_v l ;;
              (fun st => (Ok (boolv (has_prop o name ||
                                     existsb (fun pid => match find_obj st pid with
                                                         | Some p => existsb (zlist_eqb name) (o_keys p)
                                                         | None => false
                                                         end) (o_chain o))), st))
    | VP _ => throw tag_TypeError
    end
  else if op =? 20 then
    match r with
    | VO f =>
        if (o_cls f =? 2) || (o_cls f =? 4) then
          (* 15.3.5.3; 15.3.4.5.3 for a bound function: the target's [[HasInstance]] *)
          match l with
          | VO o => if o_fproto f =? 0 then throw tag_TypeError
                    else ret (boolv (existsb (Z.eqb (o_fproto f)) (o_chain o)))
          | VP _ => ret (boolv false)
          end
        else throw tag_TypeError
    | VP _ => throw tag_TypeError
    end
  else decl.

(* ---------- 11.4 unary operators and the conversion built-ins ---------- *)

Definition typeof_v (v : value) : list Z :=
  match v with
  | VP PUndef => s_undefined
  | VP PNull => s_object
  | VP (PBool _) => s_boolean
  | VP (PNum _) => s_number
  | VP (PStr _) => s_string
  | VO o => if (o_cls o =? 2) || (o_cls o =? 4) then s_function else s_object
  end.

Definition is_surrogate_or_fffd (u : Z) : bool := ((0xD800 <=? u) && (u <=? 0xDFFF)) || (u =? 0xFFFD).

Definition unop (op : Z) (v : value) : M value :=
  if op =? 0 then a <- to_number_v v ;; ret (num a)
  else if op =? 1 then a <- to_number_v v ;; ret (num (fneg a))
  else if op =? 2 then a <- to_number_v v ;; ret (num (of_int (Z.lnot (d_int32 d a))))
  else if op =? 3 then ret (boolv (negb (to_boolean_v v)))
  else if op =? 4 then ret (VP (PStr (typeof_v v)))
  else if op =? 5 then ret (VP PUndef)
  else if op =? 6 then a <- to_number_v v ;; ret (num a)                       (* Number(v) *)
  else if op =? 7 then s <- to_string_v v ;; ret (VP (PStr s))                 (* String(v) *)
  else if op =? 8 then ret (boolv (to_boolean_v v))                            (* Boolean(v) *)
  else if op =? 9 then                                                         (* String.fromCharCode(v).charCodeAt(0) *)
    a <- to_number_v v ;;
    let u := d_uint16 d a in
    if is_surrogate_or_fffd u then decl else ret (num (of_int u))
  else if op =? 10 then                                                        (* S40.indexOf("a", v): ToInteger clamped to 0..40 *)
    a <- to_number_v v ;;
    let t := d_integer d a in
    if is_neg t || is_zero t then ret (num 0)
    else match trunc_int t with
         | Some k => ret (num (if k <? 40 then of_int k else of_int (-1)))
         | None => ret (num (of_int (-1)))
         end
  else if op =? 11 then a <- to_number_v v ;; ret (num (of_int (d_uint32 d a)))  (* v >>> 0 *)
  else if op =? 12 then s <- to_string_v v ;; ret (num (of_int (Z.of_nat (length s))))  (* String(v).length: 15.5.5.1, code units *)
  else if (14 <=? op) && (op <=? 18) then
    (* built-ins that take a position / length through ToInteger (9.4); [ti] is ToInteger as an exact
       integer, None for +-Infinity *)
    a <- to_number_v v ;;
    let t := d_integer d a in
    let ti := trunc_int t in
    let pinf := match ti with None => negb (is_neg t) | Some _ => false end in
    let ninf := match ti with None => is_neg t | Some _ => false end in
    let abc := [97; 98; 99; 100; 101; 102; 103; 104; 105; 106] in           (* "abcdefghij" *)
    if op =? 14 then
      (* "abcdefghij".substr(0, v): B.2.3, min(max(ToInteger(v), 0), 10) characters; an undefined length is +Infinity *)
      let n := if pinf || match v with VP PUndef => true | _ => false end then 10 else if ninf then 0 else match ti with Some k => Z.min (Z.max k 0) 10 | None => 0 end in
      ret (VP (PStr (firstn (Z.to_nat n) abc)))
    else if op =? 15 then
      (* "abcdefghij".substr(v): from ToInteger(v), counted from the end when negative *)
      let st := if pinf then 10 else if ninf then 0
                else match ti with Some k => if 0 <=? k then Z.min k 10 else Z.max (10 + k) 0 | None => 0 end in
      ret (VP (PStr (skipn (Z.to_nat st) abc)))
    else if op =? 16 then
      (* S40.lastIndexOf("a", v): 15.5.4.8, NaN counts as +Infinity; min(max(pos, 0), 40) and the last match at or before it *)
      (* (otto since /repo commit ea386ab; before it NaN was taken as 0 and -Infinity as +Infinity) *)
      let pos := if is_nan a then 40 else if pinf then 40 else if ninf then 0
                 else match ti with Some k => Z.min (Z.max k 0) 40 | None => 0 end in
      ret (num (of_int (Z.min pos 39)))
    else if op =? 17 then
      (* [1,2,3].indexOf(3, v): 15.4.4.14 *)
      let k := if pinf then 3 else if ninf then 0
               else match ti with Some n => if 0 <=? n then Z.min n 3 else Z.max (3 + n) 0 | None => 0 end in
      ret (num (of_int (if k <=? 2 then 2 else -1)))
    else
      (* [1,2,3].lastIndexOf(1, v): 15.4.4.15 *)
      let k := if pinf then 2 else if ninf then -1
               else match ti with Some n => if 0 <=? n then Z.min n 2 else 3 + n | None => -1 end in
      ret (num (of_int (if 0 <=? k then 0 else -1)))
  else decl.

(* ---------- expressions ---------- *)

Inductive expr :=
| ELit (v : value)
| EVar (n : nat)
| EUn (op : Z) (e : expr)             (* unop; 4 typeof and 13 delete act on the Reference *)
| EBin (op : Z) (l r : expr)          (* 0..20 as in binop, 21 &&, 22 ||, 23 comma *)
| ECond (c t f : expr)
| EAsg (n : nat) (e : expr)
| ECmp (op : Z) (n : nat) (e : expr)  (* var op= e, op in 0..10 *)
| EInc (pre dec : bool) (n : nat)
| ELog (k : Z) (e : expr)             (* (log.push(k), e) *)
| ESetM (id which : Z) (m : meth)     (* void (o.valueOf = function ...) / void (delete o.valueOf) *)
| EUnres                              (* an identifier that resolves to nothing: nope *)
| EMem (id k : Z) (init : prim)       (* o.x (k = 2, a data property that starts as init) / o.f (k = 3, the this-probe method) *)
| ECall (e : expr).                   (* (e)() *)

(* 8.7: what an expression evaluates to: a value or a Reference *)
Inductive rv :=
| RVal (v : value)
| RUnres                              (* unresolvable Reference *)
| RVar (n : nat)                      (* environment-record Reference to a declared variable *)
| RMem (id k : Z) (init : prim).      (* property Reference with base object id *)

(* the function stored as o.f: returns the id of its this value, 0 for the global object *)
Definition probe_fn : value := VO (Build_obj 70 2 MNone MNone [] [89; 90] 1070).

(* properties x (2) and f (3) live in the same table as the conversion methods:
   MQuiet (MPrim p) = holds p, MInherit = deleted *)
Definition getmem (id k : Z) (init : prim) : M value :=
  fun st => match find (fun e => (fst (fst e) =? id) && (snd (fst e) =? k)) (tbl st) with
            | Some (_, MQuiet (MPrim p)) => (Ok (VP p), st)
            | Some _ => (Ok (VP PUndef), st)
            | None => (Ok (if k =? 3 then probe_fn else VP init), st)
            end.

Definition tag_ReferenceError : Z := 4.

(* 8.7.1 GetValue *)
Definition getval (r : rv) : M value :=
  match r with
  | RVal v => ret v
  | RUnres => throw tag_ReferenceError
  | RVar n => getvar n
  | RMem id k init => getmem id k init
  end.

Definition gv (m : M rv) : M value := bind m getval.
Definition rval (m : M value) : M rv := bind m (fun v => ret (RVal v)).

Fixpoint evalr (e : expr) : M rv :=
  match e with
  | ELit v => ret (RVal v)
  | EVar n => ret (RVar n)
  | EUnres => ret RUnres
  | EMem id k init => ret (RMem id k init)
  | EUn op e1 =>
      if op =? 4 then
        (* 11.4.3: typeof of an unresolvable Reference is "undefined", no GetValue *)
        r <- evalr e1 ;;
        match r with
        | RUnres => ret (RVal (VP (PStr s_undefined)))
        | _ => v <- getval r ;; ret (RVal (VP (PStr (typeof_v v))))
        end
      else if op =? 13 then
        (* 11.4.1 delete: not a Reference / unresolvable -> true; a declared variable -> false;
           a configurable property is removed -> true *)
        r <- evalr e1 ;;
        match r with
        | RMem id k _ => _ <- setmeth id k MInherit ;; ret (RVal (boolv true))
        | RVar _ => ret (RVal (boolv false))
        | _ => ret (RVal (boolv true))
        end
      else rval (v <- gv (evalr e1) ;; unop op v)
  | EBin op l r =>
      (* 11.11, 11.14: && || and the comma operator return GetValue of the selected operand *)
      if op =? 21 then rval (lv <- gv (evalr l) ;; if to_boolean_v lv then gv (evalr r) else ret lv)
      else if op =? 22 then rval (lv <- gv (evalr l) ;; if to_boolean_v lv then ret lv else gv (evalr r))
      else if op =? 23 then rval (_ <- gv (evalr l) ;; gv (evalr r))
      else rval (lv <- gv (evalr l) ;; rv <- gv (evalr r) ;; binop op lv rv)
  | ECond c t f =>
      (* 11.12: Return GetValue(trueRef / falseRef) (otto since /repo commit 07b2f1f; before it the
         chosen branch was handed on as a Reference) *)
      cv <- gv (evalr c) ;;
      rval (if to_boolean_v cv then gv (evalr t) else gv (evalr f))
  | EAsg n e1 => rval (v <- gv (evalr e1) ;; _ <- setvar n v ;; ret v)
  | ECmp op n e1 =>
      rval (lv <- getvar n ;; rv <- gv (evalr e1) ;; x <- binop op lv rv ;; _ <- setvar n x ;; ret x)
  | EInc pre dec n =>
      rval (v <- getvar n ;; a <- to_number_v v ;;
            let b := fadd a (of_int (if dec then -1 else 1)) in
            _ <- setvar n (num b) ;; ret (num (if pre then b else a)))
  | ELog k e1 => rval (_ <- logk k ;; gv (evalr e1))
  | ESetM id which m => rval (_ <- setmeth id which m ;; ret (VP PUndef))
  | ECall e1 =>
      (* 11.2.3: this is the base of a property Reference, the global object otherwise *)
      r <- evalr e1 ;; f <- getval r ;;
      match f with
      | VO o =>
          if o_id o =? 70 then
            ret (RVal (num (of_int (match r with RMem id _ _ => id | _ => 0 end))))
          else if (o_cls o =? 2) || (o_cls o =? 4) then ret (RVal (VP PUndef))   (* function(){} *)
          else throw tag_TypeError
      | VP _ => throw tag_TypeError
      end
  end.

Definition eval (e : expr) : M value := gv (evalr e).

End WithDialect.

(* ---------- the two dialects ---------- *)

Definition spec_d : dialect := {|
  d_int32 := to_int32; d_uint32 := to_uint32; d_uint16 := to_uint16; d_integer := to_integer; d_div := fdiv;
  d_str2num := string_to_number; d_strlt := units_lt;
  d_otto_cmp := false |}.

Definition model_str2num (s : list Z) : numlit := NLVal (parse_number s).

Definition model_d : dialect := {|
  d_int32 := m_to_int32; d_uint32 := m_to_uint32; d_uint16 := m_to_uint16; d_integer := m_to_integer; d_div := m_divide;
  d_str2num := model_str2num; d_strlt := m_str_lt;
  d_otto_cmp := true |}.

(* observation of one run: status (0 normal, else the thrown tag), result, final variables, log *)
Definition obs := (Z * oval * list oval * list Z)%type.
Definition obs_eqb (a b : obs) : bool :=
  let '(s1, r1, v1, l1) := a in let '(s2, r2, v2, l2) := b in
  (s1 =? s2) && oval_eqb r1 r2 && list_eqb oval_eqb v1 v2 && zlist_eqb l1 l2.

Definition objs_of (ps : list value) : list obj :=
  flat_map (fun v => match v with VO o => [o] | VP _ => [] end) ps.

Definition run (d : dialect) (ps vs : list value) (e : expr) : option obs :=
  match eval d e {| vars := vs; log := []; tbl := []; protos := objs_of ps |} with
  | (Ok v, st) => Some (0, project v, map project (vars st), rev (log st))
  | (Thr t, st) => Some (t, OP PUndef, map project (vars st), rev (log st))
  | (Decl, _) => None
  end.
