(* ES5 section 9 (type conversion) on primitive values, transcribed as total
   executable functions.  Numbers are binary64 bit patterns (Common/Double.v,
   C05/Fp.v), strings are lists of UTF-16 code units. *)
From Coq Require Import ZArith Bool List Lia.
From Otto Require Import Common.Double Common.Corr C05.Fp.
Import ListNotations.
Open Scope Z_scope.

Inductive prim :=
| PUndef
| PNull
| PBool (b : bool)
| PNum (d : Z)          (* bit pattern, 0 <= d < 2^64, NaN = nan_bits *)
| PStr (s : list Z).    (* UTF-16 code units *)

Definition prim_eqb (a b : prim) : bool :=
  match a, b with
  | PUndef, PUndef | PNull, PNull => true
  | PBool x, PBool y => Bool.eqb x y
  | PNum x, PNum y => x =? y
  | PStr x, PStr y => zlist_eqb x y
  | _, _ => false
  end.

(* ---------- 9.3.1 ToNumber applied to the String type ---------- *)

(* WhiteSpace and LineTerminator (7.2, 7.3; Zs as of Unicode 3.0-6.2) *)
Definition is_ws (c : Z) : bool :=
  (c =? 9) || (c =? 10) || (c =? 11) || (c =? 12) || (c =? 13) || (c =? 32) || (c =? 160)
  || (c =? 5760) || (c =? 6158) || ((8192 <=? c) && (c <=? 8202)) || (c =? 8232) || (c =? 8233)
  || (c =? 8239) || (c =? 8287) || (c =? 12288) || (c =? 65279).

Fixpoint drop_ws (l : list Z) : list Z :=
  match l with
  | c :: l' => if is_ws c then drop_ws l' else l
  | [] => []
  end.
Definition trim_ws (l : list Z) : list Z := rev (drop_ws (rev (drop_ws l))).

Definition is_digit (c : Z) : bool := (48 <=? c) && (c <=? 57).
Definition hex_val (c : Z) : option Z :=
  if is_digit c then Some (c - 48)
  else if (97 <=? c) && (c <=? 102) then Some (c - 87)
  else if (65 <=? c) && (c <=? 70) then Some (c - 55)
  else None.

(* DecimalDigits*: accumulated value, number of digits, rest *)
Fixpoint digits (l : list Z) (acc n : Z) : Z * Z * list Z :=
  match l with
  | c :: l' => if is_digit c then digits l' (acc * 10 + (c - 48)) (n + 1) else (acc, n, l)
  | [] => (acc, n, [])
  end.

Fixpoint hex_digits (l : list Z) (acc n : Z) : Z * Z * list Z :=
  match l with
  | c :: l' => match hex_val c with
               | Some v => hex_digits l' (acc * 16 + v) (n + 1)
               | None => (acc, n, l)
               end
  | [] => (acc, n, [])
  end.

(* ExponentPart?: Some (exponent, rest); None when an 'e' is not followed by digits *)
Definition exponent_part (l : list Z) : option (Z * list Z) :=
  match l with
  | c :: l1 =>
      if (c =? 101) || (c =? 69) then
        let '(neg, l2) := match l1 with
                          | s :: l2 => if s =? 43 then (false, l2) else if s =? 45 then (true, l2) else (false, l1)
                          | [] => (false, l1)
                          end in
        let '(v, n, rest) := digits l2 0 0 in
        if n =? 0 then None else Some ((if neg then - v else v), rest)
      else Some (0, l)
  | [] => Some (0, [])
  end.

Definition str_Infinity : list Z := [73; 110; 102; 105; 110; 105; 116; 121].

(* number of decimal digits of n > 0 after removing trailing zeros (bounded by fuel) *)
Fixpoint strip_zeros (fuel : nat) (n : Z) : Z :=
  match fuel with
  | O => n
  | S f => if (n mod 10 =? 0) && negb (n =? 0) then strip_zeros f (n / 10) else n
  end.
Fixpoint ndigits (fuel : nat) (n : Z) : Z :=
  match fuel with
  | O => 0
  | S f => if n <? 10 then 1 else 1 + ndigits f (n / 10)
  end.

(* M * 10^X correctly rounded; huge exponents are decided without computing the power *)
Definition dec_value (fuel : nat) (neg : bool) (m x : Z) : Z :=
  if m =? 0 then sign_bit neg else
  let nd := ndigits fuel m in
  if 400 <? x + nd then sign_bit neg + pinf_bits
  else if x + nd <? -400 then sign_bit neg
  else if 0 <=? x then of_rat neg (m * 10 ^ x) 1 else of_rat neg m (10 ^ (- x)).

(* result of recognising a numeric string *)
Inductive numlit :=
| NLNaN                       (* not in the grammar *)
| NLVal (bits : Z)
| NLDecline.                  (* more than 20 significant digits: ES5 leaves the rounding open *)

(* StrUnsignedDecimalLiteral, whole input *)
Definition unsigned_decimal (neg : bool) (l : list Z) : numlit :=
  if zlist_eqb l str_Infinity then NLVal (sign_bit neg + pinf_bits) else
  let fuel := S (length l) in
  let '(i, ni, r1) := digits l 0 0 in
  let '(m, nf, r2, dot) :=
    match r1 with
    | c :: r1' => if c =? 46 then let '(m, n, r) := digits r1' i 0 in (m, n, r, true) else (i, 0, r1, false)
    | [] => (i, 0, r1, false)
    end in
  if (ni =? 0) && (nf =? 0) then NLNaN else
  match exponent_part r2 with
  | Some (x, []) =>
      if 20 <? ndigits fuel (strip_zeros fuel m) then NLDecline
      else NLVal (dec_value fuel neg m (x - nf))
  | _ => NLNaN
  end.

Definition str_numeric_literal (l : list Z) : numlit :=
  match l with
  | [] => NLVal 0
  | 48 :: x :: l' =>
      if (x =? 120) || (x =? 88) then
        let '(v, n, rest) := hex_digits l' 0 0 in
        match rest with
        | [] => if n =? 0 then NLNaN else NLVal (of_rat false v 1)
        | _ => NLNaN
        end
      else unsigned_decimal false l
  | 43 :: l' => unsigned_decimal false l'
  | 45 :: l' => unsigned_decimal true l'
  | _ => unsigned_decimal false l
  end.

Definition string_to_number (s : list Z) : numlit := str_numeric_literal (trim_ws s).

(* ---------- 9.8.1 ToString applied to the Number type ---------- *)

Fixpoint dec_digits (fuel : nat) (n : Z) (acc : list Z) : list Z :=
  match fuel with
  | O => acc
  | S f => if n <? 10 then (48 + n) :: acc else dec_digits f (n / 10) ((48 + n mod 10) :: acc)
  end.
Definition int_to_string (n : Z) : list Z :=
  if n <? 0 then 45 :: dec_digits 400 (- n) [] else dec_digits 400 n [].

Definition str_NaN : list Z := [78; 97; 78].

(* the k-digit candidates for s around v = m*2^e / 10^(n-k) and whether they round to v *)
Definition rat_of (m e : Z) : Z * Z := if 0 <=? e then (m * 2 ^ e, 1) else (m, 2 ^ (- e)).
Definition scale10 (nd : Z * Z) (p : Z) : Z * Z :=
  let '(n, d) := nd in if 0 <=? p then (n * 10 ^ p, d) else (n, d * 10 ^ (- p)).

(* n with 10^(n-1) <= num/den < 10^n, searched from an estimate *)
Fixpoint find_n (fuel : nat) (num den n : Z) : Z :=
  match fuel with
  | O => n
  | S f =>
      let lo := scale10 (1, 1) (n - 1) in   (* 10^(n-1) as a fraction *)
      let hi := scale10 (1, 1) n in
      if num * snd lo <? fst lo * den then find_n f num den (n - 1)
      else if fst hi * den <=? num * snd hi then find_n f num den (n + 1)
      else n
  end.

(* shortest digits (9.8.1 step 5): smallest k (1..17) and s with s*10^(n-k)
   rounding to the double; of the two neighbours of v the closer one, the even
   one on a tie; returns (s, k, n) *)
Fixpoint shortest (fuel : nat) (mag num den n k : Z) : option (Z * Z * Z) :=
  match fuel with
  | O => None
  | S f =>
      let '(a, b) := scale10 (num, den) (k - n) in
      let slo := a / b in
      let shi := slo + 1 in
      let test (s : Z) := let '(x, y) := scale10 (s, 1) (n - k) in round_mag x y =? mag in
      let lo_ok := test slo in
      let hi_ok := test shi in
      let hi_res := if shi =? 10 ^ k then (1, 1, n + 1) else (shi, k, n) in
      let cmp := Z.compare (2 * a) ((2 * slo + 1) * b) in
      let lo_first := match cmp with Lt => true | Gt => false | Eq => Z.even slo end in
      if lo_ok && hi_ok then Some (if lo_first then (slo, k, n) else hi_res)
      else if lo_ok then Some (slo, k, n)
      else if hi_ok then Some hi_res
      else shortest f mag num den n (k + 1)
  end.

Fixpoint zeros (n : nat) : list Z := match n with O => [] | S k => 48 :: zeros k end.

(* 9.8.1 steps 5-10 for a positive finite double *)
Definition pos_to_string (m e : Z) : option (list Z) :=
  let '(num, den) := rat_of m e in
  let n0 := ((Z.log2 num - Z.log2 den) * 30103) / 100000 + 1 in
  let n := find_n 8 num den n0 in
  let mag := round_mag num den in
  match shortest 18 mag num den n 1 with
  | None => None
  | Some (s, k, n) =>
      let ds := dec_digits 30 s [] in
      if (k <=? n) && (n <=? 21) then Some (ds ++ zeros (Z.to_nat (n - k)))
      else if (0 <? n) && (n <=? 21) then
        Some (firstn (Z.to_nat n) ds ++ [46] ++ skipn (Z.to_nat n) ds)
      else if (-6 <? n) && (n <=? 0) then
        Some ([48; 46] ++ zeros (Z.to_nat (- n)) ++ ds)
      else
        let ex := n - 1 in
        let exs := (if ex <? 0 then [45] else [43]) ++ dec_digits 10 (Z.abs ex) [] in
        if k =? 1 then Some (ds ++ [101] ++ exs)
        else Some (firstn 1 ds ++ [46] ++ skipn 1 ds ++ [101] ++ exs)
  end.

Definition number_to_string (d : Z) : option (list Z) :=
  match decode d with
  | DNaN => Some str_NaN
  | DInf neg => Some ((if neg then [45] else []) ++ str_Infinity)
  | DFin neg m e =>
      if m =? 0 then Some [48]
      else match pos_to_string m e with
           | Some s => Some ((if neg then [45] else []) ++ s)
           | None => None
           end
  end.

(* ---------- 9.2, 9.4 - 9.7 on Number values ---------- *)

Definition to_boolean (p : prim) : bool :=
  match p with
  | PUndef | PNull => false
  | PBool b => b
  | PNum d => negb (is_nan d || is_zero d)
  | PStr s => match s with [] => false | _ => true end
  end.

(* ToInt32 / ToUint32 / ToUint16: 9.5-9.7 steps 2-5 *)
Definition pos_int (d : Z) : Z := match trunc_int d with Some n => n | None => 0 end.
Definition to_int32 (d : Z) : Z :=
  let k := pos_int d mod 2 ^ 32 in if 2 ^ 31 <=? k then k - 2 ^ 32 else k.
Definition to_uint32 (d : Z) : Z := pos_int d mod 2 ^ 32.
Definition to_uint16 (d : Z) : Z := pos_int d mod 2 ^ 16.

(* ToInteger 9.4 as a double *)
Definition to_integer (d : Z) : Z :=
  match decode d with
  | DNaN => 0
  | DInf _ => d
  | DFin neg m e => if m =? 0 then d else
                    let t := trunc_mag m e in
                    if t =? 0 then sign_bit neg else of_rat neg t 1
  end.

Definition str_of (l : list Z) := l.
Definition s_undefined : list Z := [117; 110; 100; 101; 102; 105; 110; 101; 100].
Definition s_null : list Z := [110; 117; 108; 108].
Definition s_true : list Z := [116; 114; 117; 101].
Definition s_false : list Z := [102; 97; 108; 115; 101].
Definition s_object : list Z := [111; 98; 106; 101; 99; 116].
Definition s_function : list Z := [102; 117; 110; 99; 116; 105; 111; 110].
Definition s_boolean : list Z := [98; 111; 111; 108; 101; 97; 110].
Definition s_number : list Z := [110; 117; 109; 98; 101; 114].
Definition s_string : list Z := [115; 116; 114; 105; 110; 103].

(* string comparison of 11.8.5 step 4: by code units *)
Fixpoint units_lt (a b : list Z) : bool :=
  match a, b with
  | _, [] => false
  | [], _ :: _ => true
  | x :: a', y :: b' => if x <? y then true else if y <? x then false else units_lt a' b'
  end.
