(* C03 — literal values: what separates otto's literal decoding from ES5 7.8.3 /
   7.8.4 is exactly the listed deviations. *)
From Coq Require Import List Bool ZArith Lia.
From Otto Require Import Common.Double C03.Lit.
Import ListNotations.
Open Scope Z_scope.

(* ---------- numbers ---------- *)
(* every literal of the grammar whose hex / legacy-octal value is below 2^63, and
   every decimal literal, gets the ES5 value *)
Lemma num_model_in_range s : num_in_range s = true -> num_model s = num_spec s.
Proof.
  unfold num_in_range, num_model, num_spec.
  destruct (classify s) as [[n|n d|n d]|]; intros H; try rewrite H; try reflexivity; discriminate.
Qed.

(* and never an error where ES5 has a value, nor a value where ES5 has none *)
Lemma num_model_defined s : num_model s = None <-> num_spec s = None.
Proof.
  unfold num_model, num_spec.
  destruct (classify s) as [[n|n d|n d]|]; try destruct (n <? 2 ^ 63); split; intros H; try discriminate; reflexivity.
Qed.

Lemma hex_2p63_refuted : exists s, num_model s <> num_spec s.
Proof. (* 0x8000000000000401 *)
  exists [48;120;56;48;48;48;48;48;48;48;48;48;48;48;48;52;48;49]. vm_compute. discriminate.
Qed.
Lemma octal_2p63_refuted : exists s, num_model s <> num_spec s.
Proof. (* 01000000000000000000000 *)
  exists [48;49;48;48;48;48;48;48;48;48;48;48;48;48;48;48;48;48;48;48;48;48;48]. vm_compute. discriminate.
Qed.

(* ---------- strings ---------- *)
Lemma hexval_lt16 c v : hexval c = Some v -> 0 <= v < 16.
Proof.
  unfold hexval, is_dig. intros H.
  destruct ((48 <=? c) && (c <=? 57)) eqn:E1; [injection H as <-; apply andb_true_iff in E1 as [A B]; apply Z.leb_le in A, B; lia|].
  destruct ((97 <=? c) && (c <=? 102)) eqn:E2; [injection H as <-; apply andb_true_iff in E2 as [A B]; apply Z.leb_le in A, B; lia|].
  destruct ((65 <=? c) && (c <=? 70)) eqn:E3; [injection H as <-; apply andb_true_iff in E3 as [A B]; apply Z.leb_le in A, B; lia|].
  discriminate.
Qed.

Lemma radix16_bound l : forall acc v, radix_val 16 acc l = Some v -> 0 <= acc ->
  0 <= v < (acc + 1) * 16 ^ Z.of_nat (length l).
Proof.
  induction l as [|c l IH]; intros acc v H Hacc.
  - simpl in *. injection H as <-. lia.
  - cbn [radix_val] in H. destruct (hexval c) as [d|] eqn:E; [|discriminate].
    pose proof (hexval_lt16 _ _ E) as Hd.
    destruct (d <? 16); [|discriminate].
    specialize (IH _ _ H ltac:(lia)).
    replace (Z.of_nat (length (c :: l))) with (Z.of_nat (length l) + 1) by (simpl length; lia).
    rewrite Z.pow_add_r by lia. change (16 ^ 1) with 16. nia.
Qed.

Lemma hex_n_unit l v : (length l <= 4)%nat -> hex_n l = Some v -> units_of_cp v = [v].
Proof.
  intros Hl H. pose proof (radix16_bound l 0 v H ltac:(lia)) as B.
  assert (16 ^ Z.of_nat (length l) <= 16 ^ 4) by (apply Z.pow_le_mono_r; lia).
  unfold units_of_cp. destruct (v <? 65536) eqn:E; [reflexivity|].
  apply Z.ltb_ge in E. change (16 ^ 4) with 65536 in *. lia.
Qed.

Lemma is_oct_range c : is_oct c = true -> 48 <= c <= 55.
Proof. unfold is_oct. intros H. apply andb_true_iff in H as [A B]. apply Z.leb_le in A, B. lia. Qed.

Lemma small_unit v : 0 <= v < 65536 -> units_of_cp v = [v].
Proof. intros H. unfold units_of_cp. destruct (v <? 65536) eqn:E; [reflexivity|]. apply Z.ltb_ge in E. lia. Qed.

Lemma is_lt_cases c : is_lt c = true -> c = 10 \/ c = 13 \/ c = 8232 \/ c = 8233.
Proof.
  unfold is_lt. intros H. repeat (apply orb_true_iff in H as [H|H]); apply Z.eqb_eq in H; auto.
Qed.
Lemma is_lt_false c : is_lt c = false -> c <> 10 /\ c <> 13 /\ c <> 8232 /\ c <> 8233.
Proof.
  unfold is_lt. intros H. repeat (apply orb_false_iff in H as [H ?]).
  repeat split; apply Z.eqb_neq; assumption.
Qed.

Lemma single_escape_ascii c v : single_escape c = Some v -> c < 128.
Proof.
  unfold single_escape. intros H.
  repeat match type of H with
  | (if ?b then _ else _) = _ => let E := fresh in destruct b eqn:E;
      [try (apply Z.eqb_eq in E; lia);
       try (repeat (apply orb_true_iff in E as [E|E]); apply Z.eqb_eq in E; lia)|]
  end. discriminate.
Qed.

Definition okv (fs : bool) (v : list Z) : Prop := fs = true \/ Forall nonsurr v.

Lemma okv_app fs u l : okv fs (u ++ l) -> okv fs l.
Proof. intros [H|H]; [now left|right]. apply Forall_app in H. tauto. Qed.

Lemma write_rune_small fs w : 0 <= w < 55296 -> write_rune fs w = [w].
Proof.
  intros H. unfold write_rune.
  replace (55296 <=? w) with false by (symmetry; apply Z.leb_gt; lia).
  rewrite andb_false_r. cbn [andb]. apply small_unit. lia.
Qed.

Lemma write_rune_ok fs w : 0 <= w < 65536 -> fs = true \/ nonsurr w -> write_rune fs w = [w].
Proof.
  intros Hw [->|Hn]; unfold write_rune; [cbn [negb andb]; now apply small_unit|].
  destruct (negb fs && (55296 <=? w) && (w <=? 57343)) eqn:E; [|now apply small_unit].
  apply andb_true_iff in E as [E E2]. apply andb_true_iff in E as [_ E1].
  apply Z.leb_le in E1, E2. unfold nonsurr in Hn. lia.
Qed.

(* otto's parseStringLiteral computes the SV of ES5 7.8.4 / B.1.2 for every string-literal body
   whose value holds no surrogate code unit (all escapes, octal escapes, every LineContinuation);
   with the one remaining deviation switched off, for every body at all *)
Lemma sv_gen_is_spec fs : forall n s v, sv_spec n s = Some v -> okv fs v -> sv_gen fs n s = Some v.
Proof.
  induction n as [|n IH]; intros s v H OK; [exact H|].
  assert (CONS : forall u r w, match sv_spec n r with Some l => Some (u ++ l) | None => None end = Some w -> okv fs w ->
                 match sv_gen fs n r with Some l => Some (u ++ l) | None => None end = Some w).
  { intros u r w Hc Hw. destruct (sv_spec n r) as [l|] eqn:E; [|discriminate].
    injection Hc as <-. now rewrite (IH _ _ E (okv_app _ _ _ Hw)). }
  assert (HEAD : forall x r w, match sv_spec n r with Some l => Some ([x] ++ l) | None => None end = Some w -> okv fs w ->
                 fs = true \/ nonsurr x).
  { intros x r w Hc [Hw|Hw]; [now left|right]. destruct (sv_spec n r); [|discriminate].
    injection Hc as <-. now inversion Hw. }
  cbn [sv_spec] in H. cbn [sv_gen].
  destruct s as [|c0 r0]; [exact H|].
  destruct (Z.eq_dec c0 92) as [->|Hne].
  2:{ (* an ordinary character *)
    assert (Hs : forall X Y : option (list Z), match c0 with 92 => X | _ => Y end = Y).
    { intros. destruct c0 as [|p|p]; try reflexivity.
      do 7 (destruct p as [p|p|]; try reflexivity). exfalso; apply Hne; reflexivity. }
    destruct r0 as [|c1 r1].
    - rewrite Hs in H |- *. destruct (is_lt c0); [discriminate|]. now apply CONS.
    - rewrite Hs in H |- *. destruct (is_lt c0); [discriminate|]. now apply CONS. }
  destruct r0 as [|c r]; [exact H|].
  destruct (is_lt c) eqn:Elt.
  - (* line continuation *)
    apply is_lt_cases in Elt as [->|[->|[->| ->]]]; cbn in H |- *.
    + exact (CONS [] _ _ H OK).
    + destruct r as [|c2 r2]; [exact (CONS [] _ _ H OK)|].
      destruct (Z.eq_dec c2 10) as [->|N2]; [exact (CONS [] _ _ H OK)|].
      assert (Hs : forall X Y : option (list Z), match c2 with 10 => X | _ => Y end = Y).
      { intros. destruct c2 as [|p|p]; try reflexivity.
        do 4 (destruct p as [p|p|]; try reflexivity). exfalso; apply N2; reflexivity. }
      rewrite Hs in H |- *. exact (CONS [] _ _ H OK).
    + exact (CONS [] _ _ H OK).
    + exact (CONS [] _ _ H OK).
  - apply is_lt_false in Elt as (N10 & N13 & N2028 & N2029).
    replace ((c =? 8232) || (c =? 8233)) with false
      by (symmetry; apply orb_false_iff; split; apply Z.eqb_neq; assumption).
    destruct (128 <=? c) eqn:E128.
    + (* "\" + non-ASCII character *)
      apply Z.leb_le in E128.
      replace (c =? 120) with false in H by (symmetry; apply Z.eqb_neq; lia).
      replace (c =? 117) with false in H by (symmetry; apply Z.eqb_neq; lia).
      replace (is_oct c) with false in H
        by (symmetry; unfold is_oct; apply andb_false_iff; right; apply Z.leb_gt; lia).
      replace (is_dig c) with false in H
        by (symmetry; unfold is_dig; apply andb_false_iff; right; apply Z.leb_gt; lia).
      destruct (single_escape c) eqn:Es; [apply single_escape_ascii in Es; lia|].
      now apply CONS.
    + replace (c =? 13) with false by (symmetry; apply Z.eqb_neq; assumption).
      replace (c =? 10) with false by (symmetry; apply Z.eqb_neq; assumption).
      destruct (c =? 120).
      { destruct r as [|a [|b r']]; try discriminate.
        destruct (hex_n [a; b]) as [w|] eqn:Eh; [|discriminate].
        pose proof (radix16_bound [a; b] 0 w Eh ltac:(lia)) as B. change (16 ^ Z.of_nat (length [a; b])) with 256 in B.
        rewrite write_rune_small by lia. now apply CONS. }
      destruct (c =? 117).
      { destruct r as [|a [|b [|c' [|d r']]]]; try discriminate.
        destruct (hex_n [a; b; c'; d]) as [w|] eqn:Eh; [|discriminate].
        pose proof (radix16_bound [a; b; c'; d] 0 w Eh ltac:(lia)) as B.
        change (16 ^ Z.of_nat (length [a; b; c'; d])) with 65536 in B.
        rewrite write_rune_ok; [now apply CONS|lia|exact (HEAD _ _ _ H OK)]. }
      destruct (is_oct c) eqn:Eo.
      { pose proof (is_oct_range _ Eo) as Rc.
        destruct r as [|d1 r1]; [now apply CONS|].
        destruct (is_oct d1) eqn:Eo1.
        - pose proof (is_oct_range _ Eo1) as R1.
          destruct r1 as [|d2 r2].
          + rewrite write_rune_small by lia. now apply CONS.
          + destruct (is_oct d2) eqn:Eo2.
            * pose proof (is_oct_range _ Eo2) as R2. cbn [andb] in H |- *.
              destruct (c <=? 51); rewrite write_rune_small by lia; now apply CONS.
            * cbn [andb] in H |- *. rewrite write_rune_small by lia. now apply CONS.
        - destruct (is_dig d1 && (c =? 48)); [discriminate|]. now apply CONS. }
      destruct (is_dig c); [discriminate|].
      destruct (single_escape c); now apply CONS.
Qed.

Lemma sv_model_is_spec n s v : sv_spec n s = Some v -> Forall nonsurr v -> sv_model n s = Some v.
Proof. intros H F. apply sv_gen_is_spec; [exact H|now right]. Qed.

Lemma sv_repaired_is_spec n s v : sv_spec n s = Some v -> sv_gen true n s = Some v.
Proof. intros H. apply sv_gen_is_spec; [exact H|now left]. Qed.

(* octal escapes of every length and backslash + LS/PS (repaired in /repo 96a7b64) are inside the
   theorem: instances *)
Lemma octal_escape_value : sv sv_model [92;52;48;48] = Some [32;48] /\ sv sv_model [92;55;55;55] = Some [63;55].
Proof. vm_compute. auto. Qed.
Lemma lsps_continuation_value : sv sv_model [97;92;8232;98] = Some [97;98] /\ sv sv_model [92;8233] = Some [].
Proof. vm_compute. auto. Qed.

(* the remaining deviation, with a witness *)
Lemma surrogate_escape_refuted : exists s, sv sv_model s <> sv sv_spec s.
Proof. (* 😀 *)
  exists [92;117;68;56;51;68;92;117;68;69;48;48]. vm_compute. discriminate.
Qed.
