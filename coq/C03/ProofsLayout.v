(* C03 — the expression parser is insensitive to line terminators, except in
   front of ++ / -- (the restricted production of 11.3): two token lists that
   carry the same tokens and agree on the line-terminator flag of every ++ and
   -- token parse alike.  Together with Proofs.roundtrip_all: every layout of
   every rendering yields the tree of the grammar. *)
From Coq Require Import List Bool Arith ZArith Lia.
From Otto Require Import C03.Spec C03.Model C03.Proofs.
Import ListNotations.

Definition is_pp (t : tok) : bool := match t with TInc | TDec => true | _ => false end.
Definition same (a b : ptok) : Prop := snd a = snd b /\ (is_pp (snd a) = true -> fst a = fst b).
Definition R : list ptok -> list ptok -> Prop := Forall2 same.

Definition Rres (x y : option (expr * list ptok)) : Prop :=
  match x, y with
  | None, None => True
  | Some (e, r), Some (e', r') => e = e' /\ R r r'
  | _, _ => False
  end.
Definition RresL (x y : option (list expr * list ptok)) : Prop :=
  match x, y with
  | None, None => True
  | Some (e, r), Some (e', r') => e = e' /\ R r r'
  | _, _ => False
  end.
Definition Rp (p q : parser) : Prop := forall ts ts', R ts ts' -> Rres (p ts) (q ts').

Lemma R_length a b : R a b -> length a = length b.
Proof. induction 1; simpl; congruence. Qed.

Lemma R_refl a : R a a.
Proof. induction a; constructor; auto. split; auto. Qed.

Lemma R_cons nl nl' t r r' : (is_pp t = true -> nl = nl') -> R r r' -> R ((nl, t) :: r) ((nl', t) :: r').
Proof. intros H1 H2. constructor; [split; [reflexivity|exact H1]|exact H2]. Qed.

(* head inversion: both lists start with the same token *)
Ltac inv_R H nl nl' t Hf r r' Hr :=
  let t' := fresh "t'" in let Ht := fresh "Ht" in
  destruct H as [|[nl t] [nl' t'] r r' [Ht Hf] Hr]; [|simpl in Ht, Hf; subst t'].

(* related inputs give related results: name the result and the two remainders *)
Ltac use_p Hp HR e r r' X :=
  pose proof (Hp _ _ HR) as X;
  match type of X with
  | Rres ?a ?b => let e' := fresh "e'" in
                  destruct a as [[e r]|]; destruct b as [[e' r']|]; simpl in X; try contradiction;
                  [destruct X as [<- X]|]
  end.

Ltac dtok t o := destruct t as [?a|o| | | | | | | |?ao| | | | | | | | | | | |?kz].
Ltac keep := simpl; split; [reflexivity|first [apply R_cons; assumption | apply Forall2_nil]].

Lemma bin_loop_R k noin next next' : Rp next next' -> forall n left ts ts', R ts ts' ->
  Rres (bin_loop n k noin next left ts) (bin_loop n k noin next' left ts').
Proof.
  intros Hp. induction n as [|n IH]; intros left ts ts' HR; [exact I|].
  cbn [bin_loop]. inv_R HR nl nl' t Hf r r' Hr; [keep|].
  dtok t o; try keep.
  destruct (if noin && is_in o then false else Nat.eqb (lvl o) k); [|keep].
  use_p Hp Hr e1 r1 r1' X; [|exact I]. apply IH. exact X.
Qed.

Lemma args_loop_R next next' : Rp next next' -> forall n ts ts', R ts ts' ->
  RresL (args_loop n next ts) (args_loop n next' ts').
Proof.
  intros Hp. induction n as [|n IH]; intros ts ts' HR; [exact I|].
  assert (G : RresL
    match next ts with
    | Some (e, (_, TOp Comma) :: r) => match args_loop n next r with Some (l, r') => Some (e :: l, r') | None => None end
    | Some (e, (_, TRP) :: r) => Some ([e], r)
    | _ => None
    end
    match next' ts' with
    | Some (e, (_, TOp Comma) :: r) => match args_loop n next' r with Some (l, r') => Some (e :: l, r') | None => None end
    | Some (e, (_, TRP) :: r) => Some ([e], r)
    | _ => None
    end).
  { use_p Hp HR e1 r1 r1' X; [|exact I]. inv_R X nl nl' t Hf r2 r2' Hr; [exact I|].
    dtok t o; try exact I.
    - destruct o; try exact I. specialize (IH _ _ Hr).
      destruct (args_loop n next r2) as [[a1 q1]|]; destruct (args_loop n next' r2') as [[a2 q2]|];
        simpl in IH; try contradiction; [|exact I].
      destruct IH as [<- IH]. simpl. auto.
    - simpl. auto. }
  cbn [args_loop]. inv_R HR nl nl' t Hf r r' Hr; [exact G|].
  dtok t o; try exact G. simpl. auto.
Qed.

Lemma chain_loop_R call pe pe' pa pa' : Rp pe pe' -> Rp pa pa' -> forall n left ts ts', R ts ts' ->
  Rres (chain_loop n call pe pa left ts) (chain_loop n call pe' pa' left ts').
Proof.
  intros Hpe Hpa. induction n as [|n IH]; intros left ts ts' HR; [exact I|].
  cbn [chain_loop]. inv_R HR nl nl' t Hf r r' Hr; [keep|].
  dtok t o; try keep.
  - (* ( *)
    destruct call; [|keep].
    rewrite (R_length _ _ Hr).
    pose proof (args_loop_R pa pa' Hpa (S (length r')) _ _ Hr) as X.
    destruct (args_loop (S (length r')) pa r) as [[a1 q1]|]; destruct (args_loop (S (length r')) pa' r') as [[a2 q2]|];
      simpl in X; try contradiction; [|exact I].
    destruct X as [<- X]. apply IH. exact X.
  - (* [ *)
    use_p Hpe Hr e1 r1 r1' X; [|exact I]. inv_R X nl2 nl2' t2 Hf2 r2 r2' Hr2; [exact I|].
    dtok t2 o; try exact I. apply IH. exact Hr2.
  - (* . *)
    inv_R Hr nl2 nl2' t2 Hf2 r2 r2' Hr2; [exact I|]. dtok t2 o; try exact I. destruct a; try exact I.
    apply IH. exact Hr2.
Qed.

Definition RG (g g' : nat -> bool -> parser) : Prop := forall k b, Rp (g k b) (g' k b).

Lemma step_R g g' : RG g g' -> RG (step g) (step g').
Proof.
  intros Hg k noin ts ts' HR. unfold step. destruct (kind_of k).
  - (* loop *)
    use_p (Hg (S k) noin) HR e1 r1 r1' X; [|exact I]. rewrite (R_length _ _ X).
    apply bin_loop_R; [apply Hg|exact X].
  - (* assignment *)
    use_p (Hg 2 noin) HR e1 r1 r1' X; [|exact I]. inv_R X nl nl' t Hf r r' Hr; [keep|].
    dtok t o; try keep.
    destruct (is_ref e1); [|exact I].
    use_p (Hg 1 noin) Hr e2 r2 r2' Y; [|exact I]. simpl. auto.
  - (* conditional *)
    use_p (Hg 3 noin) HR e1 r1 r1' X; [|exact I]. inv_R X nl nl' t Hf r r' Hr; [keep|].
    dtok t o; try keep.
    use_p (Hg 1 false) Hr e2 r2 r2' Y; [|exact I]. inv_R Y nl3 nl3' t3 Hf3 r3 r3' Hr3; [exact I|].
    dtok t3 o; try exact I.
    use_p (Hg 1 noin) Hr3 e4 r4 r4' W; [|exact I]. simpl. auto.
  - (* unary *)
    pose proof HR as HR0. inv_R HR nl nl' t Hf r r' Hr; [apply Hg; constructor|].
    destruct (unop_of_tok t) as [o|].
    + use_p (Hg 13 noin) Hr e2 r2 r2' Y; [|exact I].
      destruct (is_incdec o); [destruct (is_ref e2)|]; simpl; auto.
    + apply Hg. exact HR0.
  - (* postfix *)
    use_p (Hg 15 false) HR e1 r1 r1' X; [|exact I]. inv_R X nl nl' t Hf r r' Hr; [keep|].
    dtok t o; try keep.
    + rewrite <- (Hf eq_refl). destruct nl; [simpl; split; [reflexivity|apply R_cons; auto]|].
      destruct (is_ref e1); simpl; auto.
    + rewrite <- (Hf eq_refl). destruct nl; [simpl; split; [reflexivity|apply R_cons; auto]|].
      destruct (is_ref e1); simpl; auto.
  - (* call *)
    use_p (Hg 16 false) HR e1 r1 r1' X; [|exact I]. rewrite (R_length _ _ X).
    apply chain_loop_R; [apply Hg|apply Hg|exact X].
  - (* member *)
    assert (G : Rres (match ts with (_, TNew) :: _ => g 18 false ts | _ => g 17 false ts end)
                     (match ts' with (_, TNew) :: _ => g' 18 false ts' | _ => g' 17 false ts' end)).
    { pose proof HR as HR0. inv_R HR nl nl' t Hf r r' Hr; [apply Hg; constructor|].
      destruct t; apply Hg; exact HR0. }
    destruct (match ts with (_, TNew) :: _ => g 18 false ts | _ => g 17 false ts end) as [[e1 r1]|];
      destruct (match ts' with (_, TNew) :: _ => g' 18 false ts' | _ => g' 17 false ts' end) as [[e1' r1']|];
      simpl in G; try contradiction; [|exact I].
    destruct G as [<- G]. rewrite (R_length _ _ G).
    apply chain_loop_R; [apply Hg|apply Hg|exact G].
  - (* primary *)
    inv_R HR nl nl' t Hf r r' Hr; [exact I|]. dtok t o; try exact I.
    + simpl. auto.
    + use_p (Hg 0 false) Hr e2 r2 r2' Y; [|exact I]. inv_R Y nl3 nl3' t3 Hf3 r3 r3' Hr3; [exact I|].
      dtok t3 o; try exact I. simpl. auto.
  - (* new *)
    inv_R HR nl nl' t Hf r r' Hr; [exact I|]. dtok t o; try exact I.
    use_p (Hg 16 false) Hr e2 r2 r2' Y; [|exact I].
    inv_R Y nl3 nl3' t3 Hf3 r3 r3' Hr3; [keep|].
    dtok t3 o; try keep.
    rewrite (R_length _ _ Hr3).
    pose proof (args_loop_R _ _ (Hg 1 false) (S (length r3')) _ _ Hr3) as X.
    destruct (args_loop (S (length r3')) (g 1 false) r3) as [[a1 q1]|];
      destruct (args_loop (S (length r3')) (g' 1 false) r3') as [[a2 q2]|]; simpl in X; try contradiction; [|exact I].
    destruct X as [<- X]. simpl. auto.
  - exact I.
Qed.

Lemma parse_R : forall f, RG (parse f) (parse f).
Proof.
  induction f as [|f IH]; [intros k b ts ts' _; exact I|].
  intros k b. cbn [parse]. apply step_R. exact IH.
Qed.

(* every layout of every rendering: line terminators anywhere, except that the
   flags of ++ and -- tokens are those of the rendering (none before a postfix
   operator) *)
Theorem layout_roundtrip e ts : wf e = true -> R (print 0 e) ts ->
  exists f0, forall f, f0 <= f -> parse_expr f ts = Some (strip e).
Proof.
  intros Hw HR. destruct (roundtrip_all e Hw) as [HM _].
  destruct (HM 0 0 [] (le_n _) ltac:(lia) eq_refl) as [f0 H0].
  exists f0. intros f Hf. specialize (H0 f Hf). rewrite app_nil_r in H0.
  pose proof (parse_R f 0 false _ _ HR) as X. rewrite H0 in X.
  unfold parse_expr. destruct (parse f 0 false ts) as [[e' r']|]; simpl in X; [|contradiction].
  destruct X as [<- X]. inversion X. reflexivity.
Qed.

(* general form: the parser's result depends on the flags of ++ / -- only *)
Theorem layout_insensitive f k noin ts ts' : R ts ts' ->
  match parse f k noin ts, parse f k noin ts' with
  | Some (e, r), Some (e', r') => e = e' /\ R r r'
  | None, None => True
  | _, _ => False
  end.
Proof. intros H. exact (parse_R f k noin ts ts' H). Qed.
