(* C03 — the exchange form of syntax trees between the harness and Coq: a rose
   tree of integers.  The harness serialises both the tree it generated and the
   tree otto's parser returned in this form; [enc] maps the typed trees of
   Spec/Model/Stmt to it, so that all three can be compared.

   tags: 1 identifier [index]      2 number [bits of the double]
         3 string [units]          4 regexp [len pattern; pattern units; flag units]
         5 null  6 boolean [0/1]   7 this
         10 binary [op] l r        11 prefix unary [op] e    12 postfix [1 = ++] e
         13 conditional c a b      14 assignment [op] l r
         15 dot [name index] e     16 index e i
         17 call f args...         18 new f args...
         20.. constructs that only the harness knows (array/object literals,
              functions), 30.. statements: see harness/cmd/c03/main.go *)
From Coq Require Import List Bool ZArith.
From Otto Require Import Common.Corr C03.Spec.
Import ListNotations.
Open Scope Z_scope.

Inductive tree := N (tag : Z) (vals : list Z) (kids : list tree).

Fixpoint tree_eqb (a b : tree) : bool :=
  match a, b with
  | N t1 v1 k1, N t2 v2 k2 =>
      (t1 =? t2) && zlist_eqb v1 v2 &&
      (fix go (x y : list tree) : bool :=
         match x, y with
         | [], [] => true
         | p :: x', q :: y' => tree_eqb p q && go x' y'
         | _, _ => false
         end) k1 k2
  end.

Definition binop_code (o : binop) : Z :=
  match o with
  | Comma => 0 | LOr => 1 | LAnd => 2 | BOr => 3 | BXor => 4 | BAnd => 5
  | Eq => 6 | Ne => 7 | SEq => 8 | SNe => 9
  | Lt => 10 | Gt => 11 | Le => 12 | Ge => 13 | InstOf => 14 | In => 15
  | Shl => 16 | Shr => 17 | UShr => 18 | Add => 19 | Sub => 20
  | Mul => 21 | Div => 22 | Mod => 23
  end.
Definition unop_code (o : unop) : Z :=
  match o with
  | UPlus => 0 | UMinus => 1 | UNot => 2 | UBitNot => 3 | UDelete => 4 | UVoid => 5 | UTypeof => 6
  | UInc => 7 | UDec => 8
  end.
Definition asgop_code (o : asgop) : Z :=
  match o with
  | AAssign => 0 | AAdd => 1 | ASub => 2 | AMul => 3 | ADiv => 4 | AMod => 5 | AAnd => 6 | AOr => 7
  | AXor => 8 | AShl => 9 | AShr => 10 | AUShr => 11
  end.

Definition enc_atom (a : atom) : tree :=
  match a with
  | AId x => N 1 [x] []
  | ANum b => N 2 [b] []
  | AStr s => N 3 s []
  | ARegex p f => N 4 (Z.of_nat (length p) :: p ++ f) []
  | ANull => N 5 [] []
  | ABool b => N 6 [if b then 1 else 0] []
  | AThis => N 7 [] []
  end.

Fixpoint enc (e : expr) : tree :=
  match e with
  | EAtom a => enc_atom a
  | EParen e => enc e
  | EBin o l r => N 10 [binop_code o] [enc l; enc r]
  | EUn o e => N 11 [unop_code o] [enc e]
  | EPost i e => N 12 [if i then 1 else 0] [enc e]
  | ECond c a b => N 13 [] [enc c; enc a; enc b]
  | EAsg o l r => N 14 [asgop_code o] [enc l; enc r]
  | EDot e x => N 15 [x] [enc e]
  | EIdx e i => N 16 [] [enc e; enc i]
  | ECall f args => N 17 [] (enc f :: map enc args)
  | ENew f args => N 18 [] (enc f :: map enc args)
  end.
