(* C03 — round trip: otto's precedence ladder (Model.parse) applied to the
   rendering (Spec.print) of any well-formed expression tree, with any amount of
   redundant parentheses, returns the tree the grammar assigns (Spec.strip). *)
From Coq Require Import List Bool Arith ZArith Lia.
From Otto Require Import C03.Spec C03.Model.
Import ListNotations.

Definition ok (k : nat) (ts : list ptok) (res : expr * list ptok) : Prop :=
  exists f0, forall f, f0 <= f -> parse f k false ts = Some res.

Lemma ok_of_step k ts res :
  (exists f0, forall f, f0 <= f -> step (parse f) k false ts = Some res) -> ok k ts res.
Proof. intros [f0 H]. exists (S f0). intros f Hf. destruct f; [lia|]. simpl. apply H. lia. Qed.

(* the token after the expression does not continue an expression at level p *)
Definition stops (p : nat) (rest : list ptok) : bool :=
  match rest with
  | (_, TOp o) :: _ => Nat.ltb (lvl o) p
  | (_, TAsg _) :: _ => Nat.ltb 2 p   (* a conditional's last operand is an AssignmentExpression *)
  | (_, TQ) :: _ => Nat.ltb 2 p
  | (nl, TInc) :: _ | (nl, TDec) :: _ => nl || Nat.ltb 14 p
  | (_, TLP) :: _ => Nat.ltb 15 p
  | (_, TDot) :: _ | (_, TLB) :: _ => Nat.ltb 16 p
  | _ => true
  end.

Lemma stops_ge p q rest : p <= q -> stops p rest = true -> stops q rest = true.
Proof.
  intros Hle. destruct rest as [|[nl t] ?]; simpl; auto.
  destruct t; auto; intros H;
    try (apply Nat.ltb_lt in H; apply Nat.ltb_lt; lia);
    try (apply orb_true_iff in H as [H|H]; apply orb_true_iff; [now left| right; apply Nat.ltb_lt in H; apply Nat.ltb_lt; lia]).
Qed.

Lemma stops17 rest : stops 17 rest = true.
Proof.
  destruct rest as [|[nl t] ?]; simpl; auto. destruct t; auto; try (destruct o; reflexivity).
  all: apply orb_true_r.
Qed.

Definition nounop (ts : list ptok) : bool :=
  match ts with (_, t) :: _ => match unop_of_tok t with Some _ => false | None => true end | [] => true end.
Definition nonew (ts : list ptok) : bool :=
  match ts with (_, TNew) :: _ => false | _ => true end.
Definition starts_rp (ts : list ptok) : bool :=
  match ts with (_, TRP) :: _ => true | _ => false end.

Definition looplvl (k : nat) : Prop :=
  k = 0 \/ k = 3 \/ k = 4 \/ k = 5 \/ k = 6 \/ k = 7 \/ k = 8 \/ k = 9 \/ k = 10 \/ k = 11 \/ k = 12.

Lemma looplvl_kind k : looplvl k -> kind_of k = KLoop.
Proof. intros H. repeat (destruct H as [->|H]; [reflexivity|]). subst; reflexivity. Qed.

Lemma bin_loop_stops n k next left rest :
  stops (S k) rest = true \/ stops k rest = true -> stops k rest = true ->
  bin_loop (S n) k false next left rest = Some (left, rest).
Proof.
  intros _ H. simpl. destruct rest as [|[nl t] r]; try reflexivity. destruct t; try reflexivity.
  simpl in H. apply Nat.ltb_lt in H. destruct (Nat.eqb (lvl o) k) eqn:E; [|reflexivity].
  apply Nat.eqb_eq in E. lia.
Qed.

Lemma chain_loop_stops n (call : bool) pe pa left rest :
  stops (if call then 15 else 16) rest = true ->
  chain_loop (S n) call pe pa left rest = Some (left, rest).
Proof.
  intros H. simpl. destruct rest as [|[nl t] r]; try reflexivity.
  destruct t; try reflexivity; destruct call; simpl in H; try discriminate; reflexivity.
Qed.

(* ---------- one level up ---------- *)
Lemma lift1 q ts e rest :
  q <= 16 -> stops q rest = true -> (q = 13 -> nounop ts = true) -> (q = 16 -> nonew ts = true) ->
  ok (S q) ts (e, rest) -> ok q ts (e, rest).
Proof.
  intros Hq Hst Hun Hnw [f0 H]. apply ok_of_step. exists f0. intros f Hf. specialize (H f Hf).
  assert (Hc : looplvl q \/ q = 1 \/ q = 2 \/ q = 13 \/ q = 14 \/ q = 15 \/ q = 16)
    by (unfold looplvl; lia).
  destruct Hc as [Hl|[->|[->|[->|[->|[->| ->]]]]]].
  - unfold step. rewrite (looplvl_kind _ Hl). rewrite H. apply bin_loop_stops; auto.
  - unfold step; cbn [kind_of]. rewrite H.
    destruct rest as [|[nl t] r]; try reflexivity. destruct t; try reflexivity. discriminate.
  - unfold step; cbn [kind_of]. rewrite H.
    destruct rest as [|[nl t] r]; try reflexivity. destruct t; try reflexivity. discriminate.
  - unfold step; cbn [kind_of]. specialize (Hun eq_refl).
    destruct ts as [|[nl t] r]; [exact H|]. simpl in Hun.
    destruct (unop_of_tok t); [discriminate|exact H].
  - unfold step; cbn [kind_of]. rewrite H.
    destruct rest as [|[nl t] r]; try reflexivity. destruct t; try reflexivity;
      simpl in Hst; rewrite orb_false_r in Hst; subst nl; reflexivity.
  - unfold step; cbn [kind_of]. rewrite H. now apply chain_loop_stops.
  - unfold step; cbn [kind_of]. specialize (Hnw eq_refl).
    destruct ts as [|[nl t] r]; [rewrite H; now apply chain_loop_stops|].
    destruct t; try discriminate; rewrite H; now apply chain_loop_stops.
Qed.

Lemma lift q j ts e rest :
  q <= j -> j <= 17 -> stops q rest = true ->
  (q <= 13 -> 13 < j -> nounop ts = true) -> (q <= 16 -> 16 < j -> nonew ts = true) ->
  ok j ts (e, rest) -> ok q ts (e, rest).
Proof.
  intros Hqj. induction Hqj as [|j Hle IH]; intros Hj Hst Hun Hnw H; [assumption|].
  apply IH; try lia; try assumption; try (intros; apply Hun; lia); try (intros; apply Hnw; lia).
  apply lift1; try lia; try assumption.
  - eapply stops_ge; [|exact Hst]. lia.
  - intros ->. apply Hun; lia.
  - intros ->. apply Hnw; lia.
Qed.

(* ---------- printer facts ---------- *)
Lemma print_eq p e :
  print p e = if Nat.ltb (prec e) p then T TLP :: print 0 e ++ [T TRP] else print 0 e.
Proof. destruct e; reflexivity. Qed.
Lemma print_nopar p e : p <= prec e -> print p e = print 0 e.
Proof. intros H. rewrite print_eq. apply Nat.ltb_ge in H. now rewrite H. Qed.
Lemma print_par p e : prec e < p -> print p e = T TLP :: print 0 e ++ [T TRP].
Proof. intros H. rewrite print_eq. apply Nat.ltb_lt in H. now rewrite H. Qed.
Lemma print_skip k e : prec e <> k -> print k e = print (S k) e.
Proof.
  intros H. rewrite (print_eq k), (print_eq (S k)).
  destruct (Nat.ltb (prec e) k) eqn:E1; destruct (Nat.ltb (prec e) (S k)) eqn:E2; try reflexivity.
  - apply Nat.ltb_lt in E1. apply Nat.ltb_ge in E2. lia.
  - apply Nat.ltb_ge in E1. apply Nat.ltb_lt in E2. lia.
Qed.

Lemma prec_le17 e : prec e <= 17.
Proof.
  induction e; simpl; try lia.
  - destruct o; simpl; lia.
  - destruct (Nat.eqb (prec e) 15); lia.
  - destruct (Nat.eqb (prec e1) 15); lia.
Qed.

Lemma head_nounop e : forall p rest, 14 <= prec e \/ prec e < p -> nounop (print p e ++ rest) = true.
Proof.
  induction e; intros p rest H; rewrite print_eq;
    (destruct (Nat.ltb (prec _) p) eqn:E; [reflexivity|]); apply Nat.ltb_ge in E;
    try reflexivity; try (exfalso; simpl in *; lia).
  - exfalso. destruct o; simpl in *; lia.
  - change (print 0 (EPost inc e)) with (print 15 e ++ [T (if inc then TInc else TDec)]).
    rewrite <- app_assoc. apply IHe. lia.
  - change (print 0 (EDot e x)) with (print 15 e ++ [T TDot; T (TAtom (AId x))]).
    rewrite <- app_assoc. apply IHe. lia.
  - change (print 0 (EIdx e1 e2)) with (print 15 e1 ++ T TLB :: print 0 e2 ++ [T TRB]).
    rewrite <- app_assoc. apply IHe1. lia.
  - change (print 0 (ECall e args)) with (print 15 e ++ T TLP :: print_args print args ++ [T TRP]).
    rewrite <- app_assoc. apply IHe. lia.
Qed.

Lemma head_nonew e p rest : 17 <= prec e \/ prec e < p -> nonew (print p e ++ rest) = true.
Proof.
  intros H. rewrite print_eq. destruct (Nat.ltb (prec e) p) eqn:E; [reflexivity|].
  apply Nat.ltb_ge in E. destruct e; try reflexivity; exfalso; simpl in *; try lia.
  - destruct o; simpl in *; lia.
  - destruct (Nat.eqb (prec e) 15); lia.
  - destruct (Nat.eqb (prec e1) 15); lia.
Qed.

Lemma head_not_rp e : forall p rest, starts_rp (print p e ++ rest) = false.
Proof.
  induction e; intros p rest; rewrite print_eq;
    (destruct (Nat.ltb (prec _) p); [reflexivity|]); try reflexivity.
  - change (print 0 (EBin o e1 e2)) with (print (lvl o) e1 ++ T (TOp o) :: print (S (lvl o)) e2).
    rewrite <- app_assoc. apply IHe1.
  - destruct o; reflexivity.
  - change (print 0 (EPost inc e)) with (print 15 e ++ [T (if inc then TInc else TDec)]).
    rewrite <- app_assoc. apply IHe.
  - change (print 0 (ECond e1 e2 e3)) with (print 3 e1 ++ T TQ :: print 1 e2 ++ T TColon :: print 1 e3).
    rewrite <- app_assoc. apply IHe1.
  - change (print 0 (EAsg o e1 e2)) with (print 15 e1 ++ T (TAsg o) :: print 1 e2).
    rewrite <- app_assoc. apply IHe1.
  - change (print 0 (EDot e x)) with (print 15 e ++ [T TDot; T (TAtom (AId x))]).
    rewrite <- app_assoc. apply IHe.
  - change (print 0 (EIdx e1 e2)) with (print 15 e1 ++ T TLB :: print 0 e2 ++ [T TRB]).
    rewrite <- app_assoc. apply IHe1.
  - change (print 0 (ECall e args)) with (print 15 e ++ T TLP :: print_args print args ++ [T TRP]).
    rewrite <- app_assoc. apply IHe.
Qed.

Lemma print_nonempty e p : 1 <= length (print p e).
Proof.
  pose proof (head_not_rp e p []) as H. rewrite app_nil_r in H.
  rewrite print_eq in *. destruct (Nat.ltb (prec e) p); simpl; try lia.
  destruct e; simpl; try lia; rewrite ?app_length; simpl; try lia.
Qed.

(* ---------- the round trip ---------- *)
Definition NatP e := forall rest, stops (prec e) rest = true ->
  ok (prec e) (print 0 e ++ rest) (strip e, rest).
Definition Main e := forall q p rest, q <= p -> p <= 17 -> stops q rest = true ->
  ok q (print p e ++ rest) (strip e, rest).
Definition LoopAt e k := forall rest, stops (S k) rest = true ->
  exists f0, forall f, f0 <= f -> exists n, S (length rest) <= n /\
    step (parse f) k false (print k e ++ rest) = bin_loop n k false (parse f (S k) false) (strip e) rest.
Definition Loop e := forall k, looplvl k -> LoopAt e k.
Definition Chain15 e := forall rest, prec e = 15 \/ stops 16 rest = true ->
  exists f0, forall f, f0 <= f -> exists n, S (length rest) <= n /\
    step (parse f) 15 false (print 15 e ++ rest)
    = chain_loop n true (parse f 0 false) (parse f 1 false) (strip e) rest.
Definition Chain16 e := forall rest,
  exists f0, forall f, f0 <= f -> exists n, S (length rest) <= n /\
    step (parse f) 16 false (print 16 e ++ rest)
    = chain_loop n false (parse f 0 false) (parse f 1 false) (strip e) rest.

Lemma main0_of_nat e : NatP e -> forall q rest, q <= prec e -> stops q rest = true ->
  ok q (print 0 e ++ rest) (strip e, rest).
Proof.
  intros HN q rest Hq Hst. apply (lift q (prec e)); try assumption.
  - apply prec_le17.
  - intros _ H. apply head_nounop. lia.
  - intros _ H. apply head_nonew. lia.
  - apply HN. eapply stops_ge; eauto.
Qed.

Lemma main_of_nat e : NatP e -> Main e.
Proof.
  intros HN q p rest Hqp Hp Hst.
  destruct (le_lt_dec p (prec e)) as [Hle|Hlt].
  - rewrite print_nopar by assumption. apply main0_of_nat; try assumption. lia.
  - rewrite print_par by assumption.
    apply (lift q 17); try lia; try assumption; try (intros; reflexivity).
    pose proof (main0_of_nat e HN 0 (T TRP :: rest) (Nat.le_0_l _) eq_refl) as [f0 H0].
    apply ok_of_step. exists f0. intros f Hf.
    change ((T TLP :: print 0 e ++ [T TRP]) ++ rest) with (T TLP :: (print 0 e ++ [T TRP]) ++ rest).
    rewrite <- app_assoc. change ([T TRP] ++ rest) with (T TRP :: rest).
    unfold step; cbn [kind_of]. rewrite (H0 f Hf). reflexivity.
Qed.

Lemma loop_of_main e k : prec e <> k -> Main e -> looplvl k -> LoopAt e k.
Proof.
  intros Hne HM Hk rest Hst. rewrite (print_skip k e Hne).
  assert (Hk17 : S k <= 17) by (unfold looplvl in Hk; lia).
  destruct (HM (S k) (S k) rest (le_n _) Hk17 Hst) as [f0 H0].
  exists f0. intros f Hf. exists (S (length rest)). split; [lia|].
  unfold step. rewrite (looplvl_kind _ Hk). rewrite (H0 f Hf). reflexivity.
Qed.

Lemma chain15_of_main e : prec e <> 15 -> Main e -> Chain15 e.
Proof.
  intros Hne HM rest [Hp|Hst]; [contradiction|]. rewrite (print_skip 15 e Hne).
  destruct (HM 16 16 rest (le_n _) ltac:(lia) Hst) as [f0 H0].
  exists f0. intros f Hf. exists (S (length rest)). split; [lia|].
  unfold step; cbn [kind_of]. rewrite (H0 f Hf). reflexivity.
Qed.

Lemma chain16_of_main e : prec e <> 16 -> Main e -> Chain16 e.
Proof.
  intros Hne HM rest. rewrite (print_skip 16 e Hne).
  destruct (HM 17 17 rest (le_n _) ltac:(lia) (stops17 _)) as [f0 H0].
  exists f0. intros f Hf. exists (S (length rest)). split; [lia|].
  unfold step; cbn [kind_of].
  pose proof (head_nonew e 17 rest) as Hh.
  assert (Hc : 17 <= prec e \/ prec e < 17) by lia. specialize (Hh Hc).
  destruct (print 17 e ++ rest) as [|[nl t] r] eqn:E.
  - rewrite (H0 f Hf). reflexivity.
  - destruct t; try discriminate; rewrite (H0 f Hf); reflexivity.
Qed.

Definition All e := Main e /\ Loop e /\ Chain15 e /\ Chain16 e.

Lemma all_of_nat e : NatP e -> (forall k, looplvl k -> prec e <> k) -> prec e <> 15 -> prec e <> 16 -> All e.
Proof.
  intros HN Hl H15 H16. pose proof (main_of_nat e HN) as HM. repeat split.
  - exact HM.
  - intros k Hk. apply loop_of_main; auto.
  - now apply chain15_of_main.
  - now apply chain16_of_main.
Qed.

Lemma loop_own o l r : looplvl (lvl o) -> Loop l -> Main r -> LoopAt (EBin o l r) (lvl o).
Proof.
  intros Hk HL HM rest Hst. set (k := lvl o) in *.
  assert (Hk17 : S k <= 17) by (unfold looplvl in Hk; lia).
  rewrite print_nopar by (simpl; lia).
  change (print 0 (EBin o l r)) with (print k l ++ T (TOp o) :: print (S k) r).
  rewrite <- !app_assoc. simpl app.
  destruct (HL k Hk (T (TOp o) :: print (S k) r ++ rest)) as [f1 H1].
  { simpl. apply Nat.ltb_lt. unfold k. lia. }
  destruct (HM (S k) (S k) rest (le_n _) Hk17 Hst) as [f2 H2].
  exists (Nat.max f1 f2). intros f Hf.
  destruct (H1 f ltac:(lia)) as [n [Hn E]]. rewrite E.
  destruct n as [|n]; [simpl in Hn; lia|].
  exists n. split.
  - simpl in Hn. rewrite app_length in Hn. lia.
  - cbn [bin_loop andb]. subst k. rewrite Nat.eqb_refl. rewrite (H2 f ltac:(lia)). reflexivity.
Qed.

Lemma looplvl_lvl o : looplvl (lvl o).
Proof. destruct o; unfold looplvl; simpl; auto 12. Qed.

Lemma args_loop_cons n next ts :
  starts_rp ts = false ->
  args_loop (S n) next ts =
    match next ts with
    | Some (e, (_, TOp Comma) :: r) =>
        match args_loop n next r with Some (l, r') => Some (e :: l, r') | None => None end
    | Some (e, (_, TRP) :: r) => Some ([e], r)
    | _ => None
    end.
Proof.
  intros H. destruct ts as [|[nl t] r]; [reflexivity|]. destruct t; try reflexivity. discriminate.
Qed.

Lemma print_args_length args : length args <= length (print_args print args).
Proof.
  induction args as [|a l IH]; [simpl; lia|].
  destruct l as [|b l'].
  - simpl. pose proof (print_nonempty a 1). lia.
  - change (print_args print (a :: b :: l')) with (print 1 a ++ T (TOp Comma) :: print_args print (b :: l')).
    rewrite app_length. simpl length in *. lia.
Qed.

Lemma args_ok args : Forall Main args -> forall rest,
  exists f0, forall f, f0 <= f -> forall n, length args < n ->
    args_loop n (parse f 1 false) (print_args print args ++ T TRP :: rest) = Some (map strip args, rest).
Proof.
  induction 1 as [|a l Ha Hl IH]; intros rest.
  - exists 0. intros f _ n Hn. destruct n; [simpl in Hn; lia|]. reflexivity.
  - destruct l as [|b l'].
    + destruct (Ha 1 1 (T TRP :: rest) (le_n _) ltac:(lia) eq_refl) as [f1 H1].
      exists f1. intros f Hf n Hn. destruct n; [simpl in Hn; lia|].
      simpl print_args. rewrite args_loop_cons by apply head_not_rp.
      rewrite (H1 f Hf). reflexivity.
    + change (print_args print (a :: b :: l')) with (print 1 a ++ T (TOp Comma) :: print_args print (b :: l')).
      rewrite <- app_assoc. rewrite <- app_comm_cons.
      destruct (Ha 1 1 (T (TOp Comma) :: print_args print (b :: l') ++ T TRP :: rest) (le_n _) ltac:(lia) eq_refl)
        as [f1 H1].
      destruct (IH rest) as [f2 H2].
      exists (Nat.max f1 f2). intros f Hf n Hn. destruct n; [simpl in Hn; lia|].
      rewrite args_loop_cons by apply head_not_rp.
      rewrite (H1 f ltac:(lia)). rewrite (H2 f ltac:(lia) n) by (simpl in *; lia).
      reflexivity.
Qed.

Lemma args_ok' args : Forall Main args -> forall rest,
  exists f0, forall f, f0 <= f ->
    args_loop (S (length (print_args print args ++ T TRP :: rest))) (parse f 1 false)
      (print_args print args ++ T TRP :: rest) = Some (map strip args, rest).
Proof.
  intros H rest. destruct (args_ok args H rest) as [f0 H0]. exists f0. intros f Hf.
  apply H0; auto. rewrite app_length. pose proof (print_args_length args). lia.
Qed.

Lemma Forall_wf (P : expr -> Prop) args :
  Forall (fun e => wf e = true -> P e) args ->
  forallb wf args = true -> Forall P args.
Proof.
  induction 1 as [|a l Ha Hl IH]; intros Hw; constructor; simpl in *;
    apply andb_true_iff in Hw as [? ?]; auto.
Qed.

Lemma nat_of_chain15 e : prec e = 15 -> Chain15 e -> NatP e.
Proof.
  intros Hp HC rest Hst. rewrite Hp in *.
  destruct (HC rest (or_introl Hp)) as [f0 H0].
  apply ok_of_step. exists f0. intros f Hf. destruct (H0 f Hf) as [n [Hn E]].
  rewrite <- (print_nopar 15 e) by lia. rewrite E.
  destruct n; [lia|]. now apply chain_loop_stops.
Qed.

Lemma nat_of_chain16 e : prec e = 16 -> Chain16 e -> NatP e.
Proof.
  intros Hp HC rest Hst. rewrite Hp in *.
  destruct (HC rest) as [f0 H0].
  apply ok_of_step. exists f0. intros f Hf. destruct (H0 f Hf) as [n [Hn E]].
  rewrite <- (print_nopar 16 e) by lia. rewrite E.
  destruct n; [lia|]. now apply chain_loop_stops.
Qed.

Lemma not_loop_15 k : looplvl k -> 15 <> k. Proof. unfold looplvl; lia. Qed.
Lemma not_loop_16 k : looplvl k -> 16 <> k. Proof. unfold looplvl; lia. Qed.

(* member access / call on top of an object [o]: the chain loop of the level that
   owns the node performs one more iteration *)
Lemma all_of_chain e :
  (prec e = 15 -> Chain15 e) -> (prec e = 16 -> Chain16 e) -> prec e = 15 \/ prec e = 16 -> All e.
Proof.
  intros H15 H16 Hp.
  assert (HN : NatP e) by (destruct Hp as [Hp|Hp]; [apply nat_of_chain15|apply nat_of_chain16]; auto).
  pose proof (main_of_nat e HN) as HM. repeat split.
  - exact HM.
  - intros k Hk. apply loop_of_main; auto.
    destruct Hp as [-> | ->]; [now apply not_loop_15|now apply not_loop_16].
  - destruct Hp as [Hp|Hp]; [auto|apply chain15_of_main; auto; lia].
  - destruct Hp as [Hp|Hp]; [apply chain16_of_main; auto; lia|auto].
Qed.

Lemma prec_chain e : prec e = 15 -> 15 <= prec e. Proof. lia. Qed.

Theorem roundtrip_all : forall e, wf e = true -> All e.
Proof.
  induction e using expr_rect'; intros Hw.
  - (* EAtom *)
    apply all_of_nat; simpl; try lia; [|unfold looplvl; lia].
    intros rest Hst; unfold NatP; simpl prec in *. apply ok_of_step. exists 0. intros f _. reflexivity.
  - (* EParen *)
    simpl in Hw. destruct (IHe Hw) as [HM _].
    apply all_of_nat; simpl; try lia; [|unfold looplvl; lia].
    intros rest Hst; unfold NatP; simpl prec in *.
    destruct (HM 0 0 (T TRP :: rest) (le_n _) ltac:(lia) eq_refl) as [f0 H0].
    apply ok_of_step. exists f0. intros f Hf.
    change (print 0 (EParen e)) with (T TLP :: print 0 e ++ [T TRP]).
    simpl app. rewrite <- app_assoc. simpl app.
    unfold step; cbn [kind_of prec]. rewrite (H0 f Hf). reflexivity.
  - (* EBin *)
    simpl in Hw. apply andb_true_iff in Hw as [Hwl Hwr].
    destruct (IHe1 Hwl) as (HMl & HLl & _). destruct (IHe2 Hwr) as (HMr & _).
    pose proof (looplvl_lvl o) as Hk.
    pose proof (loop_own o e1 e2 Hk HLl HMr) as Hown.
    assert (HN : NatP (EBin o e1 e2)).
    { intros rest Hst. simpl prec in *.
      destruct (Hown rest) as [f0 H0]. { eapply stops_ge; [|exact Hst]. lia. }
      apply ok_of_step. exists f0. intros f Hf.
      destruct (H0 f Hf) as [n' [Hn' E]].
      rewrite <- (print_nopar (lvl o) (EBin o e1 e2)) by (simpl; lia).
      rewrite E. destruct n' as [|n']; [lia|]. apply bin_loop_stops; auto. }
    pose proof (main_of_nat _ HN) as HM. repeat split.
    + exact HM.
    + intros k Hk' rest Hst.
      destruct (Nat.eq_dec (lvl o) k) as [<-|Hne]; [apply Hown; assumption|].
      apply loop_of_main; assumption.
    + apply chain15_of_main; auto. simpl. intros E. rewrite E in Hk. now apply (not_loop_15 15).
    + apply chain16_of_main; auto. simpl. intros E. rewrite E in Hk. now apply (not_loop_16 16).
  - (* EUn *)
    simpl in Hw. apply andb_true_iff in Hw as [Hr Hw].
    destruct (IHe Hw) as (HMe & _).
    apply all_of_nat; simpl prec; try lia; [|intros k Hk; unfold looplvl in Hk; lia].
    intros rest Hst; unfold NatP; simpl prec in *.
    destruct (HMe 13 13 rest) as [f1 H1]; try lia; [assumption|].
    apply ok_of_step. exists f1. intros f Hf.
    change (print 0 (EUn o e)) with (T (untok o) :: print 13 e).
    unfold step; cbn [kind_of]. simpl app.
    destruct o; cbn [untok unop_of_tok is_incdec] in *; rewrite (H1 f Hf); try reflexivity;
      rewrite Hr; reflexivity.
  - (* EPost *)
    simpl in Hw. apply andb_true_iff in Hw as [Hr Hw].
    destruct (IHe Hw) as (HMe & _).
    apply all_of_nat; simpl prec; try lia; [|intros k Hk; unfold looplvl in Hk; lia].
    intros rest Hst; unfold NatP; simpl prec in *.
    change (print 0 (EPost i e)) with (print 15 e ++ [T (if i then TInc else TDec)]).
    rewrite <- app_assoc. simpl app.
    destruct (HMe 15 15 (T (if i then TInc else TDec) :: rest)) as [f1 H1]; try lia.
    { destruct i; reflexivity. }
    apply ok_of_step. exists f1. intros f Hf.
    unfold step; cbn [kind_of]. rewrite (H1 f Hf).
    destruct i; rewrite Hr; reflexivity.
  - (* ECond *)
    simpl in Hw. apply andb_true_iff in Hw as [Hw Hwb]. apply andb_true_iff in Hw as [Hwc Hwa].
    destruct (IHe1 Hwc) as (HMc & _). destruct (IHe2 Hwa) as (HMa & _).
    destruct (IHe3 Hwb) as (HMb & _).
    apply all_of_nat; simpl prec; try lia; [|intros k Hk; unfold looplvl in Hk; lia].
    intros rest Hst; unfold NatP; simpl prec in *.
    change (print 0 (ECond e1 e2 e3)) with (print 3 e1 ++ T TQ :: print 1 e2 ++ T TColon :: print 1 e3).
    rewrite <- !app_assoc. simpl app. rewrite <- !app_assoc. simpl app.
    destruct (HMc 3 3 (T TQ :: print 1 e2 ++ T TColon :: print 1 e3 ++ rest)) as [f1 H1]; try lia; [reflexivity|].
    destruct (HMa 1 1 (T TColon :: print 1 e3 ++ rest)) as [f2 H2]; try lia; [reflexivity|].
    destruct (HMb 1 1 rest) as [f3 H3]; try lia.
    { destruct rest as [|[nl t] ?]; simpl in *; try reflexivity. destruct t; simpl in *; try reflexivity; try discriminate.
      - destruct o; simpl in *; try reflexivity; discriminate.
      - rewrite orb_false_r in *. exact Hst.
      - rewrite orb_false_r in *. exact Hst. }
    apply ok_of_step. exists (Nat.max f1 (Nat.max f2 f3)). intros f Hf.
    unfold step; cbn [kind_of]. rewrite (H1 f ltac:(lia)). rewrite (H2 f ltac:(lia)).
    rewrite (H3 f ltac:(lia)). reflexivity.
  - (* EAsg *)
    simpl in Hw. apply andb_true_iff in Hw as [Hw Hwr]. apply andb_true_iff in Hw as [Hr Hwl].
    destruct (IHe1 Hwl) as (HMl & _). destruct (IHe2 Hwr) as (HMr & _).
    apply all_of_nat; simpl prec; try lia; [|intros k Hk; unfold looplvl in Hk; lia].
    intros rest Hst; unfold NatP; simpl prec in *.
    change (print 0 (EAsg o e1 e2)) with (print 15 e1 ++ T (TAsg o) :: print 1 e2).
    rewrite <- !app_assoc. simpl app.
    destruct (HMl 3 15 (T (TAsg o) :: print 1 e2 ++ rest)) as [f1 H1]; try lia; [reflexivity|].
    destruct (HMr 1 1 rest) as [f2 H2]; try lia; [assumption|].
    apply ok_of_step. exists (S (Nat.max f1 f2)). intros f Hf.
    destruct f as [|f]; [lia|].
    assert (E2 : parse (S f) 2 false (print 15 e1 ++ T (TAsg o) :: print 1 e2 ++ rest)
                 = Some (strip e1, T (TAsg o) :: print 1 e2 ++ rest)).
    { cbn [parse]. unfold step; cbn [kind_of]. rewrite (H1 f ltac:(lia)). reflexivity. }
    unfold step; cbn [kind_of]. rewrite E2. rewrite Hr.
    rewrite (H2 (S f) ltac:(lia)). reflexivity.
  - (* EDot *)
    simpl in Hw. destruct (IHe Hw) as (HMe & _ & HC15 & HC16).
    apply all_of_chain.
    + intros Hp. simpl in Hp. destruct (Nat.eqb (prec e) 15) eqn:E; [|discriminate].
      apply Nat.eqb_eq in E. intros rest _.
      rewrite print_nopar by (simpl; rewrite E; simpl; lia).
      change (print 0 (EDot e x)) with (print 15 e ++ [T TDot; T (TAtom (AId x))]).
      rewrite <- app_assoc. simpl app.
      destruct (HC15 (T TDot :: T (TAtom (AId x)) :: rest) (or_introl E)) as [f0 H0].
      exists f0. intros f Hf. destruct (H0 f Hf) as [n [Hlen E']]. rewrite E'.
      destruct n; [simpl in Hlen; lia|]. exists n. split; [simpl in Hlen; lia|]. reflexivity.
    + intros Hp. simpl in Hp. destruct (Nat.eqb (prec e) 15) eqn:E; [discriminate|].
      apply Nat.eqb_neq in E. intros rest.
      rewrite print_nopar by (simpl; apply Nat.eqb_neq in E; rewrite E; lia).
      change (print 0 (EDot e x)) with (print 15 e ++ [T TDot; T (TAtom (AId x))]).
      rewrite (print_skip 15 e E). rewrite <- app_assoc. simpl app.
      destruct (HC16 (T TDot :: T (TAtom (AId x)) :: rest)) as [f0 H0].
      exists f0. intros f Hf. destruct (H0 f Hf) as [n [Hlen E']]. rewrite E'.
      destruct n; [simpl in Hlen; lia|]. exists n. split; [simpl in Hlen; lia|]. reflexivity.
    + simpl. destruct (Nat.eqb (prec e) 15); auto.
  - (* EIdx *)
    simpl in Hw. apply andb_true_iff in Hw as [Hw1 Hw2].
    destruct (IHe1 Hw1) as (HMe & _ & HC15 & HC16). destruct (IHe2 Hw2) as (HMi & _).
    apply all_of_chain.
    + intros Hp. simpl in Hp. destruct (Nat.eqb (prec e1) 15) eqn:E; [|discriminate].
      apply Nat.eqb_eq in E. intros rest _.
      rewrite print_nopar by (simpl; rewrite E; simpl; lia).
      change (print 0 (EIdx e1 e2)) with (print 15 e1 ++ T TLB :: print 0 e2 ++ [T TRB]).
      rewrite <- !app_assoc. simpl app. rewrite <- !app_assoc. simpl app.
      destruct (HC15 (T TLB :: print 0 e2 ++ T TRB :: rest) (or_introl E)) as [f0 H0].
      destruct (HMi 0 0 (T TRB :: rest) (le_n _) ltac:(lia) eq_refl) as [f1 H1].
      exists (Nat.max f0 f1). intros f Hf. destruct (H0 f ltac:(lia)) as [n [Hlen E']]. rewrite E'.
      destruct n; [simpl in Hlen; lia|]. exists n. split.
      { simpl in Hlen. rewrite app_length in Hlen. simpl in Hlen. lia. }
      cbn [chain_loop]. rewrite (H1 f ltac:(lia)). reflexivity.
    + intros Hp. simpl in Hp. destruct (Nat.eqb (prec e1) 15) eqn:E; [discriminate|].
      apply Nat.eqb_neq in E. intros rest.
      rewrite print_nopar by (simpl; apply Nat.eqb_neq in E; rewrite E; lia).
      change (print 0 (EIdx e1 e2)) with (print 15 e1 ++ T TLB :: print 0 e2 ++ [T TRB]).
      rewrite (print_skip 15 e1 E). rewrite <- !app_assoc. simpl app. rewrite <- !app_assoc. simpl app.
      destruct (HC16 (T TLB :: print 0 e2 ++ T TRB :: rest)) as [f0 H0].
      destruct (HMi 0 0 (T TRB :: rest) (le_n _) ltac:(lia) eq_refl) as [f1 H1].
      exists (Nat.max f0 f1). intros f Hf. destruct (H0 f ltac:(lia)) as [n [Hlen E']]. rewrite E'.
      destruct n; [simpl in Hlen; lia|]. exists n. split.
      { simpl in Hlen. rewrite app_length in Hlen. simpl in Hlen. lia. }
      cbn [chain_loop]. rewrite (H1 f ltac:(lia)). reflexivity.
    + simpl. destruct (Nat.eqb (prec e1) 15); auto.
  - (* ECall *)
    simpl in Hw. apply andb_true_iff in Hw as [Hwf Hwa].
    destruct (IHe Hwf) as (HMf & _ & HC15 & _).
    assert (HA : Forall Main args).
    { apply (Forall_wf Main args); auto.
      eapply Forall_impl; [|exact H]. intros a Ha W. now destruct (Ha W). }
    apply all_of_chain; simpl prec; [|intros Hc; discriminate Hc|auto].
    intros _ rest _.
    rewrite print_nopar by (simpl; lia).
    change (print 0 (ECall e args)) with (print 15 e ++ T TLP :: print_args print args ++ [T TRP]).
    rewrite <- !app_assoc. simpl app. rewrite <- !app_assoc. simpl app.
    destruct (HC15 (T TLP :: print_args print args ++ T TRP :: rest)) as [f0 H0]; [right; reflexivity|].
    destruct (args_ok' args HA rest) as [f1 H1].
    exists (Nat.max f0 f1). intros f Hf. destruct (H0 f ltac:(lia)) as [n [Hlen E']]. rewrite E'.
    destruct n; [simpl in Hlen; lia|]. exists n. split.
    { simpl in Hlen. rewrite app_length in Hlen. simpl in Hlen. lia. }
    cbn [chain_loop]. rewrite (H1 f ltac:(lia)). reflexivity.
  - (* ENew *)
    simpl in Hw. apply andb_true_iff in Hw as [Hwf Hwa].
    destruct (IHe Hwf) as (HMf & _).
    assert (HA : Forall Main args).
    { apply (Forall_wf Main args); auto.
      eapply Forall_impl; [|exact H]. intros a Ha W. now destruct (Ha W). }
    apply all_of_chain; simpl prec; [intros Hc; discriminate Hc| |auto].
    intros _ rest.
    rewrite print_nopar by (simpl; lia).
    change (print 0 (ENew e args)) with (T TNew :: print 16 e ++ T TLP :: print_args print args ++ [T TRP]).
    simpl app. rewrite <- !app_assoc. simpl app. rewrite <- !app_assoc. simpl app.
    destruct (HMf 16 16 (T TLP :: print_args print args ++ T TRP :: rest) (le_n _) ltac:(lia) eq_refl) as [f0 H0].
    destruct (args_ok' args HA rest) as [f1 H1].
    exists (S (Nat.max f0 f1)). intros f Hf. exists (S (length rest)). split; [lia|].
    destruct f as [|f]; [lia|].
    unfold step at 1; cbn [kind_of].
    change (parse (S f) 18 false) with (step (parse f) 18 false).
    unfold step at 1; cbn [kind_of]. rewrite (H0 f ltac:(lia)).
    rewrite (H1 f ltac:(lia)). reflexivity.
Qed.

(* Top level: a whole expression followed by end of input *)
Corollary expr_roundtrip e : wf e = true ->
  exists f0, forall f, f0 <= f -> parse_expr f (print 0 e) = Some (strip e).
Proof.
  intros Hw. destruct (roundtrip_all e Hw) as [HM _].
  destruct (HM 0 0 [] (le_n _) ltac:(lia) eq_refl) as [f0 H0].
  exists f0. intros f Hf. specialize (H0 f Hf). rewrite app_nil_r in H0.
  unfold parse_expr. now rewrite H0.
Qed.

(* the same inside any context that does not continue the expression, at any
   level of the ladder and for any parenthesisation the printer chooses *)
Corollary expr_roundtrip_ctx e q p rest : wf e = true ->
  q <= p -> p <= 17 -> stops q rest = true ->
  exists f0, forall f, f0 <= f -> parse f q false (print p e ++ rest) = Some (strip e, rest).
Proof. intros Hw. destruct (roundtrip_all e Hw) as [HM _]. apply HM. Qed.

(* redundant parentheses never change the tree: two renderings of the same tree parse alike *)
Corollary paren_insensitive e1 e2 : wf e1 = true -> wf e2 = true ->
  strip e1 = strip e2 ->
  exists f0, forall f, f0 <= f -> parse_expr f (print 0 e1) = parse_expr f (print 0 e2).
Proof.
  intros W1 W2 E.
  destruct (expr_roundtrip e1 W1) as [f1 H1]. destruct (expr_roundtrip e2 W2) as [f2 H2].
  exists (Nat.max f1 f2). intros f Hf. rewrite H1, H2 by lia. now rewrite E.
Qed.

(* relational operators are left-associative (11.8): a < b < c is (a < b) < c, and
   the right-nested tree needs its parentheses (an instance of the theorem, /repo e62d085) *)
Definition rel_witness : expr :=
  EBin Lt (EBin Lt (EAtom (AId 1)) (EAtom (AId 2))) (EAtom (AId 3)).
Lemma relational_chain_left :
  parse_expr 60 (print 0 rel_witness) = Some rel_witness /\
  parse_expr 60 (print 0 (EBin Lt (EAtom (AId 1)) (EBin InstOf (EAtom (AId 2)) (EAtom (AId 3)))))
    = Some (EBin Lt (EAtom (AId 1)) (EBin InstOf (EAtom (AId 2)) (EAtom (AId 3)))).
Proof. split; vm_compute; reflexivity. Qed.
