(* C03 — ES5 expression grammar (11.1 - 11.14, A.3) as data: tokens, syntax
   trees, the precedence table and the printer that renders a tree to the token
   sequence the grammar derives for it.

   A tree may contain explicit [EParen] nodes: these are the REDUNDANT
   parentheses of a rendering.  [strip] removes them and is the tree "the
   grammar assigns"; [print] adds exactly the parentheses the grammar needs on
   top of the explicit ones.  "For all renderings of T" is therefore "for all
   [pe] with [strip pe = T]". *)
From Coq Require Import List Bool Arith ZArith Lia.
Import ListNotations.

Inductive binop :=
| Comma
| LOr | LAnd | BOr | BXor | BAnd
| Eq | Ne | SEq | SNe
| Lt | Gt | Le | Ge | InstOf | In
| Shl | Shr | UShr
| Add | Sub
| Mul | Div | Mod.

Inductive unop := UPlus | UMinus | UNot | UBitNot | UDelete | UVoid | UTypeof | UInc | UDec.

Inductive asgop := AAssign | AAdd | ASub | AMul | ADiv | AMod | AAnd | AOr | AXor | AShl | AShr | AUShr.

(* leaves: identifier (index into the harness's name table), literals by VALUE
   (number: bit pattern of the double; string, regexp body/flags: UTF-16 units) *)
Inductive atom :=
| AId (x : Z) | ANum (bits : Z) | AStr (s : list Z) | ARegex (p f : list Z)
| ANull | ABool (b : bool) | AThis.

Inductive tok :=
| TAtom (a : atom)
| TOp (o : binop)                 (* binary operators; + and - double as unary *)
| TNot | TBitNot | TDelete | TVoid | TTypeof | TInc | TDec
| TAsg (o : asgop)
| TQ | TColon | TLP | TRP | TLB | TRB | TDot | TNew
| TSemi | TLBrace | TRBrace
| TKw (k : Z).                    (* statement keywords, see C03/Stmt.v *)

(* a token together with "a line terminator precedes it" *)
Definition ptok := (bool * tok)%type.

Inductive expr :=
| EAtom (a : atom)
| EParen (e : expr)                       (* redundant parentheses of a rendering *)
| EBin (o : binop) (l r : expr)
| EUn (o : unop) (e : expr)               (* prefix operators, ++ and -- included *)
| EPost (inc : bool) (e : expr)           (* e++  e-- *)
| ECond (c a b : expr)
| EAsg (o : asgop) (l r : expr)
| EDot (e : expr) (x : Z)
| EIdx (e i : expr)
| ECall (f : expr) (args : list expr)
| ENew (f : expr) (args : list expr).

(* ES5 A.3: one level per nonterminal of the expression ladder
   0 Expression(,)  1 Assignment  2 Conditional  3 ||  4 &&  5 |  6 ^  7 &
   8 Equality  9 Relational  10 Shift  11 Additive  12 Multiplicative
   13 Unary  14 Postfix  15 Call  16 Member  17 Primary *)
Definition lvl (o : binop) : nat :=
  match o with
  | Comma => 0
  | LOr => 3 | LAnd => 4 | BOr => 5 | BXor => 6 | BAnd => 7
  | Eq | Ne | SEq | SNe => 8
  | Lt | Gt | Le | Ge | InstOf | In => 9
  | Shl | Shr | UShr => 10
  | Add | Sub => 11
  | Mul | Div | Mod => 12
  end.

Fixpoint prec (e : expr) : nat :=
  match e with
  | EAtom _ | EParen _ => 17
  | EBin o _ _ => lvl o
  | EUn _ _ => 13
  | EPost _ _ => 14
  | ECond _ _ _ => 2
  | EAsg _ _ _ => 1
  | EDot e _ | EIdx e _ => if Nat.eqb (prec e) 15 then 15 else 16
  | ECall _ _ => 15
  | ENew _ _ => 16
  end.

Definition untok (o : unop) : tok :=
  match o with
  | UPlus => TOp Add | UMinus => TOp Sub | UNot => TNot | UBitNot => TBitNot
  | UDelete => TDelete | UVoid => TVoid | UTypeof => TTypeof | UInc => TInc | UDec => TDec
  end.

Notation T t := ((false, t) : ptok) (only parsing).

Section Print.
  Variable pr : nat -> expr -> list ptok.
  (* ArgumentList: AssignmentExpression separated by commas *)
  Fixpoint print_args (l : list expr) : list ptok :=
    match l with
    | [] => []
    | [a] => pr 1 a
    | a :: l' => pr 1 a ++ T (TOp Comma) :: print_args l'
    end.
End Print.

Fixpoint print (p : nat) (e : expr) : list ptok :=
  let body :=
    match e with
    | EAtom a => [T (TAtom a)]
    | EParen e => T TLP :: print 0 e ++ [T TRP]
    | EBin o l r => print (lvl o) l ++ T (TOp o) :: print (S (lvl o)) r   (* all left associative *)
    | EUn o e => T (untok o) :: print 13 e
    | EPost inc e => print 15 e ++ [T (if inc then TInc else TDec)]
    | ECond c a b => print 3 c ++ T TQ :: print 1 a ++ T TColon :: print 1 b
    | EAsg o l r => print 15 l ++ T (TAsg o) :: print 1 r
    | EDot e x => print 15 e ++ [T TDot; T (TAtom (AId x))]
    | EIdx e i => print 15 e ++ T TLB :: print 0 i ++ [T TRB]
    | ECall f args => print 15 f ++ T TLP :: print_args print args ++ [T TRP]
    | ENew f args => T TNew :: print 16 f ++ T TLP :: print_args print args ++ [T TRP]
    end in
  if Nat.ltb (prec e) p then T TLP :: body ++ [T TRP] else body.

(* the tree the grammar assigns: redundant parentheses are not part of it *)
Fixpoint strip (e : expr) : expr :=
  match e with
  | EAtom a => EAtom a
  | EParen e => strip e
  | EBin o l r => EBin o (strip l) (strip r)
  | EUn o e => EUn o (strip e)
  | EPost i e => EPost i (strip e)
  | ECond c a b => ECond (strip c) (strip a) (strip b)
  | EAsg o l r => EAsg o (strip l) (strip r)
  | EDot e x => EDot (strip e) x
  | EIdx e i => EIdx (strip e) (strip i)
  | ECall f args => ECall (strip f) (map strip args)
  | ENew f args => ENew (strip f) (map strip args)
  end.

(* 11.13.1 / 11.3 / 11.4.4-5: the operand of an assignment or of ++/-- is a
   LeftHandSideExpression that can be a Reference: identifier or property access *)
Definition is_ref (e : expr) : bool :=
  match e with EAtom (AId _) | EDot _ _ | EIdx _ _ => true | _ => false end.

Definition is_incdec (o : unop) : bool := match o with UInc | UDec => true | _ => false end.

(* the trees of valid programs *)
Fixpoint wf (e : expr) : bool :=
  match e with
  | EAtom _ => true
  | EParen e => wf e
  | EBin _ l r => wf l && wf r
  | EUn o e => (if is_incdec o then is_ref (strip e) else true) && wf e
  | EPost _ e => is_ref (strip e) && wf e
  | ECond c a b => wf c && wf a && wf b
  | EAsg _ l r => is_ref (strip l) && wf l && wf r
  | EDot e _ => wf e
  | EIdx e i => wf e && wf i
  | ECall f args => wf f && forallb wf args
  | ENew f args => wf f && forallb wf args
  end.

(* induction principle that reaches the argument lists *)
Section Ind.
  Variable P : expr -> Prop.
  Hypothesis Hatom : forall a, P (EAtom a).
  Hypothesis Hparen : forall e, P e -> P (EParen e).
  Hypothesis Hbin : forall o l r, P l -> P r -> P (EBin o l r).
  Hypothesis Hun : forall o e, P e -> P (EUn o e).
  Hypothesis Hpost : forall i e, P e -> P (EPost i e).
  Hypothesis Hcond : forall c a b, P c -> P a -> P b -> P (ECond c a b).
  Hypothesis Hasg : forall o l r, P l -> P r -> P (EAsg o l r).
  Hypothesis Hdot : forall e x, P e -> P (EDot e x).
  Hypothesis Hidx : forall e i, P e -> P i -> P (EIdx e i).
  Hypothesis Hcall : forall f args, P f -> Forall P args -> P (ECall f args).
  Hypothesis Hnew : forall f args, P f -> Forall P args -> P (ENew f args).
  Fixpoint expr_rect' (e : expr) : P e :=
    let fix go (l : list expr) : Forall P l :=
      match l with [] => Forall_nil P | a :: l' => Forall_cons a (expr_rect' a) (go l') end in
    match e with
    | EAtom a => Hatom a
    | EParen e => Hparen e (expr_rect' e)
    | EBin o l r => Hbin o l r (expr_rect' l) (expr_rect' r)
    | EUn o e => Hun o e (expr_rect' e)
    | EPost i e => Hpost i e (expr_rect' e)
    | ECond c a b => Hcond c a b (expr_rect' c) (expr_rect' a) (expr_rect' b)
    | EAsg o l r => Hasg o l r (expr_rect' l) (expr_rect' r)
    | EDot e x => Hdot e x (expr_rect' e)
    | EIdx e i => Hidx e i (expr_rect' e) (expr_rect' i)
    | ECall f args => Hcall f args (expr_rect' f) (go args)
    | ENew f args => Hnew f args (expr_rect' f) (go args)
    end.
End Ind.
