(* correspondence cases for C03: what otto's parser returned on a rendering of a
   generated tree, against (spec) the generating tree and (model) Model.parse on
   the token list of the rendering *)
From Coq Require Import ZArith Bool List.
From Otto Require Import Common.Corr C03.Model C03.Lit.
From Otto Require Export C03.Spec C03.Tree.
Import ListNotations.
Open Scope Z_scope.

Inductive case :=
(* an expression: tokens of the rendering (with line-terminator flags), the
   generating tree, the tree otto returned (None = syntax error) *)
| CExpr (toks : list ptok) (gen : tree) (obs : option tree)
(* a numeric literal: its characters, the bit pattern of the value otto's parser stored *)
| CNum (text : list Z) (obs : option Z)
(* a string literal: the code points between the quotes, the UTF-16 units of the value otto stored *)
| CStr (body : list Z) (obs : option (list Z))
(* a program (statements, ASI, array/object/function literals): generating tree, what otto returned *)
| CProg (gen : tree) (obs : option tree)
(* a fixed text in the region of a recorded deviation that the Coq model does not cover: the tree
   ES5 assigns, the pinned deviating outcome (None = SyntaxError), what otto returned now *)
| CPin (cls : Z) (spec : tree) (pinned obs : option tree)
(* a FunctionBody through the other entry points: generating tree as function expression and as
   declaration in a program; what parser.ParseFunction(params, body) and ParseFile("function f(params){ body }")
   returned; whether typeof new Function(params, body) and typeof Function(params, body) gave "function" *)
(* a text that ES5 rejects (regression case of a repaired over-acceptance): what otto returned *)
| CReject (obs : option tree)
| CFun (gen genDecl : tree) (viaParseFunction viaDecl : option tree) (newFunction callFunction : bool).

Definition otree_eqb := option_eqb tree_eqb.

Definition fuel_for (ts : list ptok) : nat := 40 + 20 * length ts.

Definition oz_eqb := option_eqb Z.eqb.
Definition olz_eqb := option_eqb zlist_eqb.

(* finding classes (open; class 1, right-associative relational operators, was repaired in /repo e62d085):
   2 = hex / legacy-octal literal >= 2^63   3 = \\uD800-\\uDFFF escapes become U+FFFD
   (4 = octal escape above \\377 and 5 = backslash + LS/PS were repaired in /repo 96a7b64)
   11, 12, 14 = pinned witnesses (comment with line terminator, numeric property name,
   detached regexp flags; 15, a Function-constructor parameter text ending in a // comment, was repaired in 1ec2834).  Classes 6-10 and 13 (no-in relational operand) were repaired in
   /repo; their witnesses are now CProg regression cases that accept only the ES5 tree. *)
Definition verdict (c : case) : Z * Z :=
  match c with
  | CExpr toks gen obs =>
      judge otree_eqb obs (option_map enc (parse_expr (fuel_for toks) toks)) (Some gen) 0
  | CNum text obs => judge oz_eqb obs (num_model text) (num_spec text) 2
  | CStr body obs => judge olz_eqb obs (sv sv_model body) (sv sv_spec body) 3
  | CProg gen obs => judge otree_eqb obs (Some gen) (Some gen) 0
  | CPin cls spec pinned obs => judge otree_eqb obs pinned (Some spec) cls
  | CReject obs => judge otree_eqb obs None None 0
  | CFun gen genDecl pf decl c1 c2 =>
      judge Bool.eqb (otree_eqb pf (Some gen) && otree_eqb decl (Some genDecl) && c1 && c2) true true 0
  end.
